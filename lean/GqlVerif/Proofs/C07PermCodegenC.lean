import GqlVerif.Proofs.C07PermCodegenB
import GqlVerif.Proofs.CalcVariantsPushed
/-!
# C07 / P31 (part C) — the `calc*` block under a renumbering of the type ids

The four mutually recursive, fuel-indexed functions `calcSelection` / `calcVariants` / `calcVariantSels` / `calcFields`
are compared on a context `c` and its renumbering `tC R t c` (`TypeIso R c.s t`).  The variants of an interface are
visited in object-id order, so the two runs visit them in different orders **and hand them different amounts of
fuel**; the comparison is therefore `ResF`: for *every* fuel `f'` of the second run, if the first run succeeds then the
second one either runs out of fuel or succeeds with an `ItemsPerm`-related result (`calc_rel`, by strong induction on
the fuel of the first run).  The fuel escape is closed at the top by `C02.responseItems_fuel_sufficient` /
`C02.fragmentItems_fuel_sufficient` (`calcFuel` is never exhausted): `responseItems_tiso`, `fragmentItems_tiso`.
-/
set_option linter.unusedSectionVars false
set_option linter.unusedVariables false
set_option linter.unusedSimpArgs false

namespace GqlVerif
namespace C07P
open Resolve Codegen C07

theorem ResF.oof {α β} {Rel : α → β → Prop} {x : Outcome α} {y : Outcome β} (h : OOF y) : ResF Rel x y :=
  fun _ _ => .inl h

theorem ResF.bind_same {α α' β'} {S : α' → β' → Prop} (x : Outcome α) {f : α → Outcome α'} {g : α → Outcome β'}
    (hfg : ∀ a, ResF S (f a) (g a)) : ResF S (x >>= f) (x >>= g) :=
  ResF.bind (ResF.of_eq rfl) (fun a b hab => by rw [hab]; exact hfg a)

def tV (R : Ren) : VariantSel → VariantSel
  | .inline ty sub => .inline (R.tid ty) (tSels R sub)
  | .spread fid f => .spread fid (tFrag R f)

@[simp] theorem tV_typeId (R : Ren) (v : VariantSel) : (tV R v).typeId = R.tid v.typeId := by
  cases v <;> rfl

theorem filter_tV {R : Ren} (hR : R.Inj) (vsels : List VariantSel) (vt : TypeId) :
    (vsels.map (tV R)).filter (fun v => v.typeId == R.tid vt) = (vsels.filter (fun v => v.typeId == vt)).map (tV R) := by
  rw [List.filter_map]
  congr 1
  apply List.filter_congr
  intro v _
  simp only [Function.comp, tV_typeId, hR.tid_beq]

theorem tSels_single (R : Ren) (sub : List Sel) (g : Nat) : tSels R sub = [Sel.spread g] ↔ sub = [Sel.spread g] := by
  cases sub with
  | nil => simp [tSels]
  | cons x xs =>
    cases xs with
    | nil => cases x <;> simp [tSels, tSel]
    | cons y ys => simp [tSels]

/-- (P41) whether a selection pushes a field for the struct of type `vt` is invariant under the renumbering -/
theorem selPushes_t {R : Ren} (hR : R.Inj) (q : Query) (vt : TypeId) (x : Sel) :
    selPushes (tQ R q) (R.tid vt) (tSel R x) = selPushes q vt x := by
  cases x with
  | field a fid sub => rw [tSel]; rfl
  | spread g =>
    rw [tSel]
    simp only [selPushes, tQ_fragments, List.getElem?_map]
    cases q.fragments[g]? with
    | none => rfl
    | some f => simp only [Option.map_some, tFrag_on, hR.tid_beq]
  | inline t' sub => rw [tSel]; rfl
  | typename => rfl

/-- (P41) `has_fields` of a variant struct is invariant under the renumbering of the type ids -/
theorem pushedAny_t {R : Ren} (hR : R.Inj) (q : Query) (vt : TypeId) : ∀ mine : List VariantSel,
    pushedAny (tQ R q) (R.tid vt) (mine.map (tV R)) = pushedAny q vt mine
  | [] => rfl
  | .spread g fr :: rest => by
    rw [List.map_cons, tV, Pushed.pushedAny_spread, Pushed.pushedAny_spread]
  | .inline t' sub :: rest => by
    rw [List.map_cons, tV]
    by_cases hsp : ∃ g, sub = [Sel.spread g]
    · obtain ⟨g, rfl⟩ := hsp
      rw [show tSels R [Sel.spread g] = [Sel.spread g] from rfl, Pushed.pushedAny_inline_lone,
        Pushed.pushedAny_inline_lone, pushedAny_t hR q vt rest]
    · rw [Pushed.pushedAny_inline _ _ _ _ (fun g hg => hsp ⟨g, (tSels_single R sub g).1 hg⟩),
        Pushed.pushedAny_inline _ _ _ _ (fun g hg => hsp ⟨g, hg⟩), pushedAny_t hR q vt rest, tSels_eq_map,
        List.any_map]
      congr 2
      funext x
      exact selPushes_t hR q vt x

theorem variantSelOf_t {R : Ren} (hR : R.Inj) (q : Query) (ty : TypeId) (x : Sel) :
    variantSelOf (tQ R q) (R.tid ty) (tSel R x) = (variantSelOf q ty x).map (Option.map (tV R)) := by
  cases x with
  | field a fid sub => rfl
  | inline t sub => rfl
  | typename => rfl
  | spread fid =>
    simp only [tSel, variantSelOf, getFragment_t]
    cases q.getFragment fid with
    | error e => rfl
    | ok f =>
      simp only [Except.map, bind, Except.bind, pure, Except.pure, tFrag_on, hR.tid_beq]
      split <;> rfl

theorem filterMapM_variantSelOf_t {R : Ren} (hR : R.Inj) (q : Query) (ty : TypeId) (sels : List Sel) :
    (tSels R sels).filterMapM (variantSelOf (tQ R q) (R.tid ty)) =
      (sels.filterMapM (variantSelOf q ty)).map (List.map (tV R)) := by
  induction sels with
  | nil => rfl
  | cons x xs ih =>
    rw [tSels, List.filterMapM_cons, List.filterMapM_cons, variantSelOf_t hR, ih]
    cases variantSelOf q ty x with
    | error e => rfl
    | ok r =>
      cases r with
      | none => rfl
      | some v => cases List.filterMapM (variantSelOf q ty) xs <;> rfl

/-- the variant lists: `none` for concrete types, otherwise a permutation of the renumbered list -/
def RelVts (R : Ren) : Option (List TypeId) → Option (List TypeId) → Prop
  | none, none => True
  | some a, some b => b.Perm (a.map R.tid)
  | _, _ => False

theorem variantsOf_tiso {R : Ren} {s t : Schema} (h : TypeIso R s t) (ty : TypeId) :
    Res0 (RelVts R) (variantsOf s ty) (variantsOf t (R.tid ty)) := by
  intro a ha
  cases ty with
  | interface iid =>
    simp only [variantsOf, pure, Except.pure, Except.ok.injEq] at ha
    subst ha
    refine ⟨_, rfl, ?_⟩
    simp only [RelVts, List.map_map]
    exact ((h.implementors iid).map TypeId.object).trans (List.Perm.of_eq (by simp [List.map_map, Function.comp_def, Ren.tid]))
  | union uid =>
    simp only [variantsOf] at ha ⊢
    obtain ⟨u, hu, ha⟩ := C02.bind_ok ha
    simp only [pure, Except.pure, Except.ok.injEq] at ha
    subst ha
    simp only [Ren.tid_union, h.getUnion, hu]
    exact ⟨_, rfl, List.Perm.refl _⟩
  | object _ => cases ha; exact ⟨none, rfl, trivial⟩
  | scalar _ => cases ha; exact ⟨none, rfl, trivial⟩
  | «enum» _ => cases ha; exact ⟨none, rfl, trivial⟩
  | input _ => cases ha; exact ⟨none, rfl, trivial⟩

/-! ## one iteration of the per-variant loop -/

/-- one iteration of `calcVariants` (the variant `vt`) -/
def oneV (c : Ctx) (fuel : Nat) (pfx : String) (vsels : List VariantSel) (vt : TypeId) :
    Outcome (RVariant × List Item) := do
  let vname ← c.s.typeName vt
  let mine := vsels.filter (fun v => v.typeId == vt)
  match mine with
  | [] => pure (({ name := vname } : RVariant), ([] : List Item))
  | _ :: _ => do
    let sname := pfx ++ "On" ++ vname
    let v : RVariant := { name := vname, payload := some (.path sname) }
    let single : Option (Nat × RFragment) := match mine with
      | [.spread fid f] => some (fid, f) | _ => none
    match single with
    | some (fid, f) => pure (v, [aliasItem sname f.name (fragmentIsRecursive c.q fid)])
    | none => do
      let r ← calcVariantSels c fuel sname pfx vt mine
      match pushedAny c.q vt mine, r.2.2 with
      | false, [a] => pure (v, a :: r.2.1)
      | _, als => do
        let extra ← als.mapM (aliasMember c)
        pure (v, renderType c sname (r.1 ++ extra.flatten) [] ++ r.2.1)

theorem calcVariants_succ (c : Ctx) (fuel : Nat) (name pfx : String) (vsels : List VariantSel) (vt : TypeId)
    (rest : List TypeId) :
    calcVariants c (fuel + 1) name pfx vsels (vt :: rest) =
      oneV c fuel pfx vsels vt >>= fun a =>
        calcVariants c fuel name pfx vsels rest >>= fun b => pure (a.1 :: b.1, a.2 ++ b.2) := by
  rw [calcVariants.eq_3, oneV]
  simp only [bind_assoc]
  congr 1
  funext vname
  generalize List.filter (fun v => v.typeId == vt) vsels = mine
  rcases mine with _ | ⟨v, tail⟩
  · rfl
  · rcases tail with _ | ⟨v2, tail⟩
    · rcases v with ⟨ty, sub⟩ | ⟨fid, f⟩
      · simp only [bind_assoc]
        congr 1
        funext r
        obtain ⟨fs, items, als⟩ := r
        generalize pushedAny c.q vt _ = b
        rcases b with _ | _ <;> rcases als with _ | ⟨a, _ | ⟨a2, als⟩⟩ <;>
          (try simp only [bind_assoc]) <;> rfl
      · rfl
    · simp only [bind_assoc]
      congr 1
      funext r
      obtain ⟨fs, items, als⟩ := r
      generalize pushedAny c.q vt _ = b
      rcases b with _ | _ <;> rcases als with _ | ⟨a, _ | ⟨a2, als⟩⟩ <;>
        (try simp only [bind_assoc]) <;> rfl

/-! ## the four statements -/

def Rel4 (a b : List RField × List Item) : Prop := b.1 = a.1 ∧ ItemsPerm a.2 b.2
def Rel3 (a b : List RField × List Item × List Item) : Prop := b.1 = a.1 ∧ ItemsPerm a.2.1 b.2.1 ∧ b.2.2 = a.2.2
def Rel2 (a b : List RVariant × List Item) : Prop := a.1.Perm b.1 ∧ ItemsPerm a.2 b.2
def RelV (a b : RVariant × List Item) : Prop := b.1 = a.1 ∧ ItemsPerm a.2 b.2

section
variable {R : Ren} {t : Schema} (c : Ctx) (h : TypeIso R c.s t)

def J1 (f : Nat) : Prop := ∀ name pfx ty sels f',
  ResF ItemsPerm (calcSelection c f name pfx ty sels) (calcSelection (tC R t c) f' name pfx (R.tid ty) (tSels R sels))
def J2 (f : Nat) : Prop := ∀ name pfx vsels vts vts' f', vts'.Perm (vts.map R.tid) →
  ResF Rel2 (calcVariants c f name pfx vsels vts) (calcVariants (tC R t c) f' name pfx (vsels.map (tV R)) vts')
def JV (f : Nat) : Prop := ∀ pfx vsels vt f',
  ResF RelV (oneV c f pfx vsels vt) (oneV (tC R t c) f' pfx (vsels.map (tV R)) (R.tid vt))
def J3 (f : Nat) : Prop := ∀ sname pfx vt mine f',
  ResF Rel3 (calcVariantSels c f sname pfx vt mine)
    (calcVariantSels (tC R t c) f' sname pfx (R.tid vt) (mine.map (tV R)))
def J4 (f : Nat) : Prop := ∀ pfx ty sels f',
  ResF Rel4 (calcFields c f pfx ty sels) (calcFields (tC R t c) f' pfx (R.tid ty) (tSels R sels))

include h

theorem jstep4 (f : Nat) (H1 : J1 (R := R) (t := t) c f) (H4 : J4 (R := R) (t := t) c f) :
    J4 (R := R) (t := t) c (f + 1) := by
  intro pfx ty sels f'
  cases f' with
  | zero => exact ResF.oof ⟨_, calcFields.eq_1 ..⟩
  | succ f' =>
  cases sels with
  | nil =>
    rw [tSels, calcFields.eq_2 _ _ _ _ (by omega), calcFields.eq_2 _ _ _ _ (by omega)]
    exact ResF.pure ⟨rfl, .nil⟩
  | cons x rest =>
    have hrest := H4 pfx ty rest f'
    cases x with
    | field a fid sub =>
      rw [tSels, tSel, calcFields.eq_3, calcFields.eq_3]
      simp only [tC_s, tC_o, tC_cs, h.getField, renderField_tC]
      refine ResF.bind (ResF.of_map R.field rfl) (fun sf sf' hsf => ?_)
      subst hsf
      obtain ⟨fname, ⟨id, quals⟩, parent, dep⟩ := sf
      simp only [Ren.field_name, Ren.field_ty, Ren.ft_id, Ren.ft_quals, Ren.field_dep]
      have tailStep : ∀ (p p' : Option RField × List Item), p'.1 = p.1 → ItemsPerm p.2 p'.2 →
          ResF Rel4
            (calcFields c f pfx ty rest >>= fun r => pure (p.1.toList ++ r.1, p.2 ++ r.2))
            (calcFields (tC R t c) f' pfx (R.tid ty) (tSels R rest) >>= fun r => pure (p'.1.toList ++ r.1, p'.2 ++ r.2)) := by
        intro p p' h1 h2
        refine ResF.bind hrest (fun r r' hr => ?_)
        exact ResF.pure ⟨by rw [h1, hr.1], ItemsPerm.append h2 hr.2⟩
      cases id with
      | «enum» e =>
        simp only [Ren.tid_enum, h.getEnum]
        refine ResF.bind_same _ (fun en => ?_)
        refine ResF.bind_same _ (fun fld => ?_)
        exact tailStep (fld, []) (fld, []) rfl .nil
      | scalar sc =>
        simp only [Ren.tid_scalar, h.getScalar]
        refine ResF.bind_same _ (fun sn => ?_)
        refine ResF.bind_same _ (fun fld => ?_)
        exact tailStep (fld, []) (fld, []) rfl .nil
      | input i => exact ResF.error _ _
      | object i =>
        simp only [Ren.tid_object]
        refine ResF.bind_same _ (fun fld => ?_)
        refine ResF.bind (H1 _ _ (.object i) sub f') (fun items items' hi => ?_)
        exact tailStep (fld, items) (fld, items') rfl hi
      | interface i =>
        simp only [Ren.tid_interface]
        refine ResF.bind_same _ (fun fld => ?_)
        refine ResF.bind (H1 _ _ (.interface i) sub f') (fun items items' hi => ?_)
        exact tailStep (fld, items) (fld, items') rfl hi
      | union i =>
        simp only [Ren.tid_union]
        refine ResF.bind_same _ (fun fld => ?_)
        refine ResF.bind (H1 _ _ (.union i) sub f') (fun items items' hi => ?_)
        exact tailStep (fld, items) (fld, items') rfl hi
    | spread g =>
      rw [tSels, tSel, calcFields.eq_4, calcFields.eq_4]
      simp only [tC_q, tC_cs, getFragment_t, renderField_tC, fragmentIsRecursive_t]
      refine ResF.bind (ResF.of_map (tFrag R) rfl) (fun fr fr' hfr => ?_)
      subst hfr
      refine ResF.bind hrest (fun r r' hr => ?_)
      obtain ⟨fs, items⟩ := r
      obtain ⟨fs', items'⟩ := r'
      obtain ⟨h1, h2⟩ := hr
      simp only at h1 h2
      subst h1
      have e : (R.tid fr.on != R.tid ty) = (fr.on != ty) := by simp only [bne, h.inj.tid_beq]
      simp only [tFrag_on, tFrag_name, e]
      split
      · exact ResF.pure ⟨rfl, h2⟩
      · refine ResF.bind_same _ (fun fld => ?_)
        exact ResF.pure ⟨rfl, h2⟩
    | inline t' sub =>
      rw [tSels, tSel, calcFields.eq_5 _ _ _ _ _ _ (by simp) (by simp), calcFields.eq_5 _ _ _ _ _ _ (by simp) (by simp)]
      exact hrest
    | typename =>
      rw [tSels, tSel, calcFields.eq_5 _ _ _ _ _ _ (by simp) (by simp), calcFields.eq_5 _ _ _ _ _ _ (by simp) (by simp)]
      exact hrest

theorem jstep3 (f : Nat) (H3 : J3 (R := R) (t := t) c f) (H4 : J4 (R := R) (t := t) c f) :
    J3 (R := R) (t := t) c (f + 1) := by
  intro sname pfx vt mine f'
  cases f' with
  | zero => exact ResF.oof ⟨_, calcVariantSels.eq_1 ..⟩
  | succ f' =>
  cases mine with
  | nil =>
    rw [List.map_nil, calcVariantSels.eq_2 _ _ _ _ _ (by omega), calcVariantSels.eq_2 _ _ _ _ _ (by omega)]
    exact ResF.pure ⟨rfl, .nil, rfl⟩
  | cons x rest =>
    have hrest := H3 sname pfx vt rest f'
    have tailStep : ∀ (p p' : List RField × List Item × List Item), Rel3 p p' →
        ResF Rel3
          (calcVariantSels c f sname pfx vt rest >>= fun r => pure (p.1 ++ r.1, p.2.1 ++ r.2.1, p.2.2 ++ r.2.2))
          (calcVariantSels (tC R t c) f' sname pfx (R.tid vt) (rest.map (tV R)) >>= fun r =>
            pure (p'.1 ++ r.1, p'.2.1 ++ r.2.1, p'.2.2 ++ r.2.2)) := by
      intro p p' hp
      refine ResF.bind hrest (fun r r' hr => ?_)
      exact ResF.pure ⟨by rw [hp.1, hr.1], ItemsPerm.append hp.2.1 hr.2.1, by rw [hp.2.2, hr.2.2]⟩
    cases x with
    | spread g fr =>
      rw [List.map_cons, tV, calcVariantSels.eq_5, calcVariantSels.eq_5]
      simp only [tC_q, tC_cs, renderField_tC, tFrag_name, fragmentIsRecursive_t]
      refine ResF.bind_same _ (fun fld => ?_)
      exact tailStep (fld.toList, [], []) (fld.toList, [], []) ⟨rfl, .nil, rfl⟩
    | inline t' sub =>
      rw [List.map_cons, tV]
      by_cases hsp : ∃ g, sub = [Sel.spread g]
      · obtain ⟨g, rfl⟩ := hsp
        rw [show tSels R [Sel.spread g] = [Sel.spread g] from rfl, calcVariantSels.eq_3, calcVariantSels.eq_3]
        simp only [tC_s, tC_q, h.typeName, getFragment_t, fragmentIsRecursive_t]
        refine ResF.bind_same _ (fun tn => ?_)
        refine ResF.bind (ResF.of_map (tFrag R) rfl) (fun fr fr' hfr => ?_)
        subst hfr
        exact tailStep ([], [], [aliasItem sname fr.name (fragmentIsRecursive c.q g)])
          ([], [], [aliasItem sname fr.name (fragmentIsRecursive c.q g)]) ⟨rfl, .nil, rfl⟩
      · rw [calcVariantSels.eq_4 _ _ _ _ _ _ _ _ (fun g hg => hsp ⟨g, (tSels_single R sub g).1 hg⟩),
          calcVariantSels.eq_4 _ _ _ _ _ _ _ _ (fun g hg => hsp ⟨g, hg⟩)]
        simp only [tC_s, tC_cs, h.typeName]
        refine ResF.bind_same _ (fun tn => ?_)
        refine ResF.bind (H4 _ vt sub f') (fun r r' hr => ?_)
        exact tailStep (r.1, r.2, []) (r'.1, r'.2, []) ⟨hr.1, hr.2, rfl⟩

theorem jstepV (f : Nat) (H3 : J3 (R := R) (t := t) c f) : JV (R := R) (t := t) c f := by
  intro pfx vsels vt f'
  unfold oneV
  simp only [tC_s, tC_q, h.typeName, filter_tV h.inj, pushedAny_t h.inj, renderType_tC, aliasMember_tC,
    fragmentIsRecursive_t]
  refine ResF.bind_same _ (fun vname => ?_)
  generalize List.filter (fun v => v.typeId == vt) vsels = mine
  have body : ∀ mine : List VariantSel,
      ResF RelV
        (calcVariantSels c f (pfx ++ "On" ++ vname) pfx vt mine >>= fun r =>
          match pushedAny c.q vt mine, r.2.2 with
          | false, [a] => pure (({ name := vname, payload := some (.path (pfx ++ "On" ++ vname)) } : RVariant), a :: r.2.1)
          | _, als => do
            let extra ← als.mapM (aliasMember c)
            pure (({ name := vname, payload := some (.path (pfx ++ "On" ++ vname)) } : RVariant),
              renderType c (pfx ++ "On" ++ vname) (r.1 ++ extra.flatten) [] ++ r.2.1))
        (calcVariantSels (tC R t c) f' (pfx ++ "On" ++ vname) pfx (R.tid vt) (mine.map (tV R)) >>= fun r =>
          match pushedAny c.q vt mine, r.2.2 with
          | false, [a] => pure (({ name := vname, payload := some (.path (pfx ++ "On" ++ vname)) } : RVariant), a :: r.2.1)
          | _, als => do
            let extra ← als.mapM (aliasMember c)
            pure (({ name := vname, payload := some (.path (pfx ++ "On" ++ vname)) } : RVariant),
              renderType c (pfx ++ "On" ++ vname) (r.1 ++ extra.flatten) [] ++ r.2.1)) := by
    intro mine
    refine ResF.bind (H3 _ pfx vt mine f') (fun r r' hr => ?_)
    obtain ⟨fs, items, als⟩ := r
    obtain ⟨fs', items', als'⟩ := r'
    obtain ⟨h1, h2, h3⟩ := hr
    simp only at h1 h2 h3
    subst h1 h3
    generalize pushedAny c.q vt mine = b
    rcases b with _ | _ <;> rcases als' with _ | ⟨a, _ | ⟨a2, als⟩⟩ <;> simp only []
    all_goals first
      | exact ResF.pure ⟨rfl, .cons (.refl _) h2⟩
      | (refine ResF.bind_same _ (fun extra => ?_)
         exact ResF.pure ⟨rfl, ItemsPerm.append (.refl _) h2⟩)
  rcases mine with _ | ⟨v, tail⟩
  · exact ResF.pure ⟨rfl, .nil⟩
  · rcases tail with _ | ⟨v2, tail⟩
    · rcases v with ⟨ty, sub⟩ | ⟨fid, fr⟩
      · exact body [VariantSel.inline ty sub]
      · exact ResF.pure ⟨rfl, .refl _⟩
    · rcases v with ⟨ty, sub⟩ | ⟨fid, fr⟩
      · exact body (VariantSel.inline ty sub :: v2 :: tail)
      · exact body (VariantSel.spread fid fr :: v2 :: tail)

omit h in
/-- the successful per-variant loop, variant by variant (each with the fuel it was given) -/
theorem calcVariants_ok (name pfx : String) (vsels : List VariantSel) : ∀ (f : Nat) (vts : List TypeId)
    (r : List RVariant × List Item), calcVariants c f name pfx vsels vts = .ok r →
    ∃ qs : List (TypeId × (RVariant × List Item)), qs.map (·.1) = vts ∧
      (∀ q ∈ qs, ∃ g, g < f ∧ oneV c g pfx vsels q.1 = .ok q.2) ∧
      r = (qs.map (·.2.1), (qs.map (·.2.2)).flatten) := by
  intro f
  induction f with
  | zero => intro vts r hr; rw [calcVariants.eq_1] at hr; cases hr
  | succ f ih =>
    intro vts r hr
    cases vts with
    | nil =>
      rw [calcVariants.eq_2 _ _ _ _ _ (by omega)] at hr
      cases hr
      exact ⟨[], rfl, by simp, rfl⟩
    | cons vt rest =>
      rw [calcVariants_succ] at hr
      obtain ⟨a, ha, hr⟩ := C02.bind_ok hr
      obtain ⟨b, hb, hr⟩ := C02.bind_ok hr
      cases hr
      obtain ⟨qs, h1, h2, h3⟩ := ih rest b hb
      refine ⟨(vt, a) :: qs, by simp [h1], ?_, by simp [h3]⟩
      intro q hq
      simp only [List.mem_cons] at hq
      rcases hq with rfl | hq
      · exact ⟨f, by omega, ha⟩
      · obtain ⟨g, hg, hq⟩ := h2 q hq
        exact ⟨g, by omega, hq⟩

omit h in
/-- the per-variant loop of the second run, from per-variant facts that hold for every fuel -/
theorem calcVariants_compose (c' : Ctx) (name pfx : String) (vsels' : List VariantSel) :
    ∀ (ps : List (TypeId × (RVariant × List Item))),
    (∀ p ∈ ps, ∀ g', OOF (oneV c' g' pfx vsels' p.1) ∨ ∃ x', oneV c' g' pfx vsels' p.1 = .ok x' ∧ RelV p.2 x') →
    ∀ f', OOF (calcVariants c' f' name pfx vsels' (ps.map (·.1))) ∨
      ∃ r', calcVariants c' f' name pfx vsels' (ps.map (·.1)) = .ok r' ∧ r'.1 = ps.map (·.2.1) ∧
        ItemsPerm (ps.map (·.2.2)).flatten r'.2 := by
  intro ps
  induction ps with
  | nil =>
    intro _ f'
    cases f' with
    | zero => exact .inl ⟨_, calcVariants.eq_1 ..⟩
    | succ f' =>
      right
      exact ⟨([], []), calcVariants.eq_2 _ _ _ _ _ (by omega), rfl, .nil⟩
  | cons p ps ih =>
    intro hp f'
    cases f' with
    | zero => exact .inl ⟨_, calcVariants.eq_1 ..⟩
    | succ f' =>
      rw [List.map_cons, calcVariants_succ]
      rcases hp p (by simp) f' with ⟨w, hw⟩ | ⟨x', hx', hrel⟩
      · left; exact ⟨w, by rw [hw]; rfl⟩
      · rcases ih (fun q hq => hp q (by simp [hq])) f' with ⟨w, hw⟩ | ⟨r', hr', h1, h2⟩
        · left; exact ⟨w, by rw [hx', hw]; rfl⟩
        · right
          refine ⟨(x'.1 :: r'.1, x'.2 ++ r'.2), by rw [hx', hr']; rfl, ?_, ?_⟩
          · simp only [List.map_cons, hrel.1, h1]
          · simp only [List.map_cons, List.flatten_cons]
            exact ItemsPerm.append hrel.2 h2

omit h in
theorem perm_lift {α β} (φ : α → β) {l' : List β} {qs : List α} (hp : l'.Perm (qs.map φ)) :
    ∃ ps : List α, ps.Perm qs ∧ ps.map φ = l' := by
  generalize hb : qs.map φ = b at hp
  induction hp generalizing qs with
  | nil =>
    cases qs with
    | nil => exact ⟨[], .nil, rfl⟩
    | cons => cases hb
  | cons x _ ih =>
    cases qs with
    | nil => cases hb
    | cons q qs =>
      simp only [List.map_cons, List.cons.injEq] at hb
      obtain ⟨ps, h1, h2⟩ := ih hb.2
      exact ⟨q :: ps, h1.cons q, by simp [h2, hb.1]⟩
  | swap x y l =>
    cases qs with
    | nil => cases hb
    | cons q qs =>
      cases qs with
      | nil => cases hb
      | cons q2 qs =>
        simp only [List.map_cons, List.cons.injEq] at hb
        exact ⟨q2 :: q :: qs, .swap _ _ _, by simp [hb.1, hb.2.1, hb.2.2]⟩
  | trans _ _ ih1 ih2 =>
    obtain ⟨ps2, h1, h2⟩ := ih2 hb
    obtain ⟨ps1, h3, h4⟩ := ih1 h2
    exact ⟨ps1, h3.trans h1, h4⟩

theorem j2_of_jv (f : Nat) (HV : ∀ g, g < f → JV (R := R) (t := t) c g) : J2 (R := R) (t := t) c f := by
  intro name pfx vsels vts vts' f' hp r hr
  obtain ⟨qs, h1, h2, h3⟩ := calcVariants_ok c name pfx vsels f vts r hr
  rw [← h1, List.map_map] at hp
  obtain ⟨ps, hps, hmap⟩ := perm_lift _ hp
  have key := calcVariants_compose (tC R t c) name pfx (vsels.map (tV R))
    (ps.map fun q => (R.tid q.1, q.2)) (by
      intro p hp' g'
      obtain ⟨q, hq, rfl⟩ := List.mem_map.1 hp'
      obtain ⟨g, hg, hq'⟩ := h2 q (hps.mem_iff.1 hq)
      exact HV g hg pfx vsels q.1 g' q.2 hq') f'
  have e : (ps.map fun q => (R.tid q.1, q.2)).map (·.1) = vts' := by
    rw [← hmap, List.map_map]; rfl
  rw [e] at key
  rcases key with hw | ⟨r', hr', k1, k2⟩
  · exact .inl hw
  · refine .inr ⟨r', hr', ?_, ?_⟩
    · rw [h3, k1, List.map_map]
      exact (hps.map _).symm
    · rw [h3]
      simp only [List.map_map] at k2
      exact .trans (.of_perm ((hps.map _).symm.flatten)) k2

omit h in
theorem perm_isEmpty {α} {l l' : List α} (hp : l.Perm l') : l.isEmpty = l'.isEmpty := by
  have := hp.length_eq
  cases l <;> cases l' <;> simp_all

omit h in
theorem renderType_perm (name : String) (fs : List RField) {vs vs' : List RVariant} (hp : vs.Perm vs') :
    ItemsPerm (renderType c name fs vs) (renderType c name fs vs') := by
  unfold renderType
  rw [perm_isEmpty hp]
  split
  · exact .cons (.tagged _ _ _ _ hp) .nil
  · split
    · exact .refl _
    · exact .cons (.refl _) (.cons (.tagged _ _ _ _ hp) .nil)

theorem jstep1 (f : Nat) (H2 : J2 (R := R) (t := t) c f) (H4 : J4 (R := R) (t := t) c f) :
    J1 (R := R) (t := t) c (f + 1) := by
  intro name pfx ty sels f'
  cases f' with
  | zero => exact ResF.oof ⟨_, calcSelection.eq_1 ..⟩
  | succ f' =>
  by_cases hsp : ∃ g, sels = [Sel.spread g]
  · obtain ⟨g, rfl⟩ := hsp
    rw [show tSels R [Sel.spread g] = [Sel.spread g] from rfl, calcSelection.eq_2, calcSelection.eq_2]
    simp only [tC_q, getFragment_t, fragmentIsRecursive_t]
    refine ResF.bind (ResF.of_map (tFrag R) rfl) (fun fr fr' hfr => ?_)
    subst hfr
    exact ResF.pure (.refl _)
  · rw [calcSelection.eq_3 _ _ _ _ _ _ (fun g hg => hsp ⟨g, (tSels_single R sels g).1 hg⟩),
      calcSelection.eq_3 _ _ _ _ _ _ (fun g hg => hsp ⟨g, hg⟩)]
    simp only [tC_s, tC_q, tC_o, renderType_tC]
    have tailStep : ∀ (p p' : List RVariant × List Item), p.1.Perm p'.1 → ItemsPerm p.2 p'.2 →
        ResF ItemsPerm
          (calcFields c f pfx ty sels >>= fun r => pure (renderType c name r.1 p.1 ++ p.2 ++ r.2))
          (calcFields (tC R t c) f' pfx (R.tid ty) (tSels R sels) >>= fun r =>
            pure (renderType c name r.1 p'.1 ++ p'.2 ++ r.2)) := by
      intro p p' h1 h2
      refine ResF.bind (H4 pfx ty sels f') (fun r r' hr => ?_)
      refine ResF.pure ?_
      rw [hr.1]
      exact ItemsPerm.append (ItemsPerm.append (renderType_perm c name r.1 h1) h2) hr.2
    refine ResF.bind (variantsOf_tiso h ty).resF (fun v v' hv => ?_)
    cases v with
    | none =>
      cases v' with
      | some _ => exact absurd hv (by simp [RelVts])
      | none =>
        simp only [pure_bind]
        have key := tailStep ([], []) ([], []) (.refl _) .nil
        exact key
    | some vts =>
      cases v' with
      | none => exact absurd hv (by simp [RelVts])
      | some vts' =>
        simp only [filterMapM_variantSelOf_t h.inj]
        refine ResF.bind (ResF.of_map (List.map (tV R)) rfl) (fun vsels vsels' hvs => ?_)
        subst hvs
        refine ResF.bind (H2 name pfx vsels vts vts' f' hv) (fun r r' hr => ?_)
        simp only [pure_bind]
        have key := tailStep
          (r.1 ++ (if c.o.otherVariant = true then [{ name := "Unknown", other := true }] else []), r.2)
          (r'.1 ++ (if c.o.otherVariant = true then [{ name := "Unknown", other := true }] else []), r'.2)
          (hr.1.append_right _) hr.2
        exact key

/-- **the `calc*` block under a renumbering of the type ids** -/
theorem calc_rel : ∀ f, J1 (R := R) (t := t) c f ∧ J3 (R := R) (t := t) c f ∧ J4 (R := R) (t := t) c f := by
  intro f
  induction f using Nat.strongRecOn with
  | ind f ih =>
    cases f with
    | zero =>
      refine ⟨?_, ?_, ?_⟩
      · intro _ _ _ _ _; rw [calcSelection.eq_1]; exact ResF.error _ _
      · intro _ _ _ _ _; rw [calcVariantSels.eq_1]; exact ResF.error _ _
      · intro _ _ _ _; rw [calcFields.eq_1]; exact ResF.error _ _
    | succ f =>
      obtain ⟨H1, H3, H4⟩ := ih f (by omega)
      have H2 : J2 (R := R) (t := t) c f :=
        j2_of_jv c h f (fun g hg => jstepV c h g (ih g (by omega)).2.1)
      exact ⟨jstep1 c h f H2 H4, jstep3 c h f H3 H4, jstep4 c h f H1 H4⟩

end

end C07P
end GqlVerif
