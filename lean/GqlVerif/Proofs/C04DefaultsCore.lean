import GqlVerif.Proofs.C04DefaultsEval
/-!
# C04 — a valid default value is rendered as a literal of the declared type that denotes it: the induction

`literal_core` (any module `e` that resolves the used input-side names, `C04S.InputEnv`): for a constant `d` whose JSON
spelling is valid (with list input coercion, `C04R.ValidC`) at a position of type `t` over the named type `id`,
`valueToLiteral` succeeds, and its result is `Good`: no `compile_error!`, it type-checks at the Rust type of the
position, and the value it denotes is written as the canonical form of the coerced spelling.  By induction on the
derivation of `ValidC`; the generic steps (`good_*`) are the `Serialize` halves of `C04S.express_*`, with the value
computed by `evalLit` instead of chosen.
-/
namespace GqlVerif
namespace C04D
open Codegen Serde C04S C04R C13

/-! ## `resolveTy` -/

theorem resolveTy_opt (e : Env) (t : RTy) : resolveTy e (.opt t) = .opt t := rfl
theorem resolveTy_vec (e : Env) (t : RTy) : resolveTy e (.vec t) = .vec t := rfl
theorem resolveTy_box (e : Env) (t : RTy) : resolveTy e (.box t) = .box t := rfl

theorem resolveTyN_prim (e : Env) (n : Nat) {p : String} (h : isPrimName p = true) :
    resolveTyN e n (.path p) = .path p := by
  cases n with
  | zero => rfl
  | succ n => simp [resolveTyN, h]

theorem resolveTyN_alias (e : Env) (n : Nat) {p a : String} {pub : Bool} {t : RTy} (hp : C01.notPrim p)
    (hf : e.find p = some (.alias a pub t)) : resolveTyN e (n+1) (.path p) = resolveTyN e n t := by
  simp [resolveTyN, isPrimName_false hp, hf]

theorem resolveTyN_extern (e : Env) (n : Nat) {p q : String} {t : RTy} (hp : C01.notPrim p)
    (hf : e.find p = none) (hx : e.externs.find? (·.1 == p) = some (q, t)) :
    resolveTyN e (n+1) (.path p) = resolveTyN e n t := by
  simp [resolveTyN, isPrimName_false hp, hf, hx]

theorem resolveTy_unfold (e : Env) (t : RTy) : ∃ n, resolveTy e t = resolveTyN e (n+2) t := ⟨_, rfl⟩

theorem resolveTy_alias_prim (e : Env) {p a q : String} {pub : Bool} (hp : C01.notPrim p)
    (hf : e.find p = some (.alias a pub (.path q))) (hq : isPrimName q = true) :
    resolveTy e (.path p) = .path q := by
  obtain ⟨n, hn⟩ := resolveTy_unfold e (.path p)
  rw [hn, resolveTyN_alias e _ hp hf, resolveTyN_prim e _ hq]

theorem resolveTy_struct (e : Env) {p n : String} {d : List String} {sc : Option String} {fs : List RField}
    (hp : C01.notPrim p) (hf : e.find p = some (.struct n d sc fs)) : resolveTy e (.path p) = .path p := by
  obtain ⟨m, hm⟩ := resolveTy_unfold e (.path p)
  rw [hm]; simp [resolveTyN, isPrimName_false hp, hf]

theorem resolveTy_oneOf (e : Env) {p n : String} {d : List String} {sc : Option String} {vs : List RVariant}
    (hp : C01.notPrim p) (hf : e.find p = some (.oneOf n d sc vs)) : resolveTy e (.path p) = .path p := by
  obtain ⟨m, hm⟩ := resolveTy_unfold e (.path p)
  rw [hm]; simp [resolveTyN, isPrimName_false hp, hf]

theorem resolveTy_gqlEnum (e : Env) {p n : String} {d : List String} {sp : String} {vs : List String}
    {ser de : List (String × String)}
    (hp : C01.notPrim p) (hf : e.find p = some (.gqlEnum n d sp vs ser de)) : resolveTy e (.path p) = .path p := by
  obtain ⟨m, hm⟩ := resolveTy_unfold e (.path p)
  rw [hm]; simp [resolveTyN, isPrimName_false hp, hf]

/-! ## generic steps -/

theorem good_none (e : Env) (r : RTy) : Good e .none (.opt r) .null .unit :=
  ⟨rfl, by simp [evalLit, resolveTy_opt], .none, rfl, fun _ _ => rfl, rfl⟩

theorem good_some {e : Env} {lit : LitExpr} {r : RTy} {out : Json} {x : Val} (h : Good e lit r out x)
    (hn : out.isNull = false) : Good e (.some lit) (.opt r) out (.some x) := by
  refine ⟨by simpa [LitExpr.hasCompileError] using h.noErr, by simp [evalLit, resolveTy_opt, h.eval], .some h.ty,
    by rw [hn]; rfl, ?_, h.norm⟩
  intro fuel hf
  show serTyWith (serPath e fuel) r x = _
  exact h.ser fuel (by simp only [valSize] at hf; omega)

theorem good_box {e : Env} {lit : LitExpr} {r : RTy} {out : Json} {x : Val} (h : Good e lit r out x) :
    Good e (.box lit) (.box r) out x :=
  ⟨by simpa [LitExpr.hasCompileError] using h.noErr, by simp [evalLit, resolveTy_box, h.eval], .box h.ty, h.unit,
    fun fuel hf => h.ser fuel hf, h.norm⟩

theorem boxIfRecursive_eq (c : Ctx) (lit : LitExpr) (id : TypeId) :
    boxIfRecursive c lit id = if boxed c id then .box lit else lit := rfl

/-- a member of an input type: the literal boxed where the member's type is -/
theorem good_field {e : Env} {c : Ctx} {id : TypeId} {t : GTy} {lit : LitExpr} {out : Json} {x : Val}
    (h : Good e lit (R c id false t) out x) : Good e (boxIfRecursive c lit id) (fieldRTy c id t) out x := by
  rw [boxIfRecursive_eq]
  unfold fieldRTy
  cases boxed c id
  · exact h
  · exact good_box h

theorem hasCompileErrorList_map {α} (Lf : α → LitExpr) : ∀ (ds : List α),
    (∀ d ∈ ds, (Lf d).hasCompileError = false) → LitExpr.hasCompileErrorList (ds.map Lf) = false
  | [], _ => rfl
  | d :: ds, h => by
    simp only [List.map_cons, LitExpr.hasCompileErrorList, Bool.or_eq_false_iff]
    exact ⟨h d (by simp), hasCompileErrorList_map Lf ds (fun x hx => h x (by simp [hx]))⟩

theorem evalList_map {α} (e : Env) (r : RTy) (Lf : α → LitExpr) (Xf : α → Val) : ∀ (ds : List α),
    (∀ d ∈ ds, evalLit e (Lf d) r = some (Xf d)) → evalList e (ds.map Lf) r = some (ds.map Xf)
  | [], _ => by simp [evalList]
  | d :: ds, h => by
    simp only [List.map_cons, evalList, h d (by simp),
      evalList_map e r Lf Xf ds (fun x hx => h x (by simp [hx]))]
    rfl

theorem mapM_map_ok {α β γ} (f : β → D γ) (X : α → β) (O : α → γ) : ∀ (ds : List α),
    (∀ d ∈ ds, f (X d) = .ok (O d)) → (ds.map X).mapM f = .ok (ds.map O)
  | [], _ => rfl
  | d :: ds, h => by
    rw [List.map_cons, List.mapM_cons, h d (by simp), mapM_map_ok f X O ds (fun x hx => h x (by simp [hx]))]
    rfl

theorem good_vec {α} {e : Env} {r : RTy} (Lf : α → LitExpr) (Of : α → Json) (Xf : α → Val) (ds : List α)
    (h : ∀ d ∈ ds, Good e (Lf d) r (Of d) (Xf d)) :
    Good e (.vec (ds.map Lf)) (.vec r) (.arr (ds.map Of)) (.list (ds.map Xf)) := by
  refine ⟨?_, ?_, .vec ?_, rfl, ?_, ?_⟩
  · simp only [LitExpr.hasCompileError]
    exact hasCompileErrorList_map Lf ds (fun d hd => (h d hd).noErr)
  · simp only [evalLit, resolveTy_vec, evalList_map e r Lf Xf ds (fun d hd => (h d hd).eval)]
    rfl
  · intro v hv
    obtain ⟨d, hd, rfl⟩ := List.mem_map.mp hv
    exact (h d hd).ty
  · intro fuel hf
    show Json.arr <$> (ds.map Xf).mapM (serTyWith (serPath e fuel) r) = _
    rw [mapM_map_ok _ Xf Of ds]
    · rfl
    · intro d hd
      refine (h d hd).ser fuel ?_
      have := valSize_le_valsSize (List.mem_map_of_mem (f := Xf) hd)
      simp only [valSize] at hf; omega
  · rw [normJson, normList_eq_self]
    intro y hy
    obtain ⟨d, hd, rfl⟩ := List.mem_map.mp hy
    exact (h d hd).norm

/-- `serPath` on a leaf value -/
theorem ser_prim (e : Env) (p : String) (x : Val) (out : Json) (hx : serPrim x = some out) (h1 : 1 ≤ valSize x) :
    ∀ fuel, valSize x ≤ fuel → serTyWith (serPath e fuel) (.path p) x = .ok out := by
  intro fuel hf
  obtain ⟨f', rfl, _⟩ := fuel_succ (Nat.le_trans h1 hf)
  exact C01.serPath_prim e f' p x out hx

theorem hasCompileErrorFields_map {α} (N : α → String) (Lf : α → LitExpr) : ∀ (ds : List α),
    (∀ d ∈ ds, (Lf d).hasCompileError = false) →
      LitExpr.hasCompileErrorFields (ds.map fun d => (N d, Lf d)) = false
  | [], _ => rfl
  | d :: ds, h => by
    simp only [List.map_cons, LitExpr.hasCompileErrorFields, Bool.or_eq_false_iff]
    exact ⟨h d (by simp), hasCompileErrorFields_map N Lf ds (fun x hx => h x (by simp [hx]))⟩

theorem evalFields_map {α} (e : Env) (F : α → RField) (Lf : α → LitExpr) (g : α → Val) : ∀ (ds : List α),
    (∀ d ∈ ds, evalLit e (Lf d) (F d).ty = some (g d)) →
      evalFields e (ds.map F) (ds.map fun d => ((F d).rust, Lf d)) = some (ds.map fun d => ((F d).rust, g d))
  | [], _ => by simp [evalFields]
  | d :: ds, h => by
    simp only [List.map_cons, evalFields, h d (by simp),
      evalFields_map e F Lf g ds (fun x hx => h x (by simp [hx]))]
    rfl

/-- **a struct literal over the field list `fields`** (the `Serialize` half of `C04S.express_struct`, the value given) -/
theorem good_struct (e : Env) (skip : Bool) (fields : List (String × FieldType))
    (F : String × FieldType → RField) (pname sname : String) (d : List String) (sc : Option String)
    (hp : C01.notPrim pname) (hfind : e.find pname = some (.struct sname d sc (fields.map F)))
    (hF : ∀ p ∈ fields, (F p).wire = p.1 ∧ (F p).flatten = false ∧ (F p).skipNone = (skip && !isNN (gty p.2)))
    (hrust : (fields.map fun p => (F p).rust).Nodup) (hnames : (fields.map (·.1)).Nodup)
    (Lf : String × FieldType → LitExpr) (J : String × FieldType → Json) (g : String × FieldType → Val)
    (hfield : ∀ p ∈ fields, Good e (Lf p) (F p).ty (J p) (g p))
    (hnn : ∀ p ∈ fields, isNN (gty p.2) = true → (J p).isNull = false) :
    Good e (.struct pname (fields.map fun p => ((F p).rust, Lf p))) (.path pname)
      (.obj (fields.filterMap fun p => if skip && (J p).isNull then none else some (p.1, J p)))
      (.record (fields.map fun p => ((F p).rust, g p))) := by
  let vals : List (String × Val) := fields.map fun p => ((F p).rust, g p)
  have hfindv : ∀ p ∈ fields, vals.find? (·.1 == (F p).rust) = some ((F p).rust, g p) :=
    fun p hp => find_key_map (fun p => (F p).rust) g fields hrust p hp
  have hvalOf : ∀ p ∈ fields, C01.valOf vals (F p).rust = g p := by
    intro p hp; simp only [C01.valOf, hfindv p hp]
  refine ⟨?_, ?_, ?_, rfl, ?_, ?_⟩
  · simp only [LitExpr.hasCompileError]
    exact hasCompileErrorFields_map _ Lf fields (fun p hp => (hfield p hp).noErr)
  · simp only [evalLit, resolveTy_struct e hp hfind, isPrimName_false hp, and_self, ↓reduceIte, hfind,
      evalFields_map e F Lf g fields (fun p hp => (hfield p hp).eval)]
    rfl
  · refine .struct hp hfind (by simp [List.map_map, Function.comp_def]) ?_
    intro f hf
    obtain ⟨p, hpm, rfl⟩ := List.mem_map.mp hf
    rw [hvalOf p hpm]
    exact (hfield p hpm).ty
  · intro fuel hfuel
    obtain ⟨f', rfl, hf'⟩ := fuel_succ (show fieldsSize (fields.map fun p => ((F p).rust, g p)) + 1 ≤ fuel by
      simp only [valSize] at hfuel; omega)
    show serPath e (f' + 1) pname (.record vals) = _
    rw [C01.serPath_struct e f' pname sname d sc _ hfind,
      serFields_map (serPath e f') F g J vals fields (fun p hp => (hF p hp).2.1) hfindv
        (fun p hp => (hfield p hp).ser f' (Nat.le_trans (valSize_le_fieldsSize
          (List.mem_map.mpr ⟨p, hp, rfl⟩ : ((F p).rust, g p) ∈ vals)) hf'))]
    show Except.ok (Json.obj _) = Except.ok (Json.obj _)
    refine congrArg (fun l => Except.ok (Json.obj l)) (filterMap_congr' ?_)
    intro p hp
    obtain ⟨hw, _, hsk⟩ := hF p hp
    rw [hw, hsk, (hfield p hp).unit]
    cases hnnp : isNN (gty p.2)
    · simp
    · simp [hnn p hp hnnp]
  · rw [normJson, normKvs_eq_self, C01.normObj_of_nodup]
    · refine List.Nodup.sublist (keys_filterMap_sublist (·.1) _ ?_ fields) hnames
      intro p kv hkv
      split at hkv
      · cases hkv
      · cases hkv; rfl
    · intro kv hkv
      obtain ⟨p, hp, hkvp⟩ := List.mem_filterMap.mp hkv
      split at hkvp
      · cases hkvp
      · cases hkvp; exact (hfield p hp).norm

/-- **a `@oneOf` literal** (the `Serialize` half of `C04S.express_oneOf`) -/
theorem good_oneOf (e : Env) (fields : List (String × FieldType))
    (G : String × FieldType → RVariant) (pname sname : String) (d : List String) (sc : Option String)
    (hp : C01.notPrim pname) (hfind : e.find pname = some (.oneOf sname d sc (fields.map G)))
    (hG : ∀ p ∈ fields, (G p).wire = p.1)
    (hvn : (fields.map fun p => (G p).name).Nodup)
    (p : String × FieldType) (hpm : p ∈ fields) (t : RTy) (hpay : (G p).payload = some t)
    (lit : LitExpr) (out : Json) (x : Val) (h : Good e lit t out x) :
    Good e (.variant pname (G p).name lit) (.path pname) (.obj [(p.1, out)]) (.variant (G p).name (some x)) := by
  have hmem : G p ∈ fields.map G := List.mem_map_of_mem hpm
  have hf1 : (fields.map G).find? (fun y => y.name == (G p).name) = some (G p) :=
    find_by_key (·.name) _ (by rw [List.map_map]; exact hvn) _ hmem
  refine ⟨by simpa [LitExpr.hasCompileError] using h.noErr, ?_, .oneOf hp hfind hmem hpay h.ty, rfl, ?_, ?_⟩
  · simp only [evalLit, resolveTy_oneOf e hp hfind, isPrimName_false hp, and_self, ↓reduceIte, hfind, hf1, hpay,
      h.eval]
    rfl
  · intro fuel hfuel
    obtain ⟨f', rfl, hf'⟩ := fuel_succ (show valSize x + 1 ≤ fuel by simp only [valSize] at hfuel; omega)
    show serPath e (f' + 1) pname _ = _
    rw [serPath_oneOf e f' pname sname d sc _ (G p) t x hfind hf1 hpay, h.ser f' hf', hG p hpm]
    rfl
  · rw [normJson, normKvs, normKvs, h.norm]
    rfl

/-! ## the JSON spelling, inverted -/

theorem valueJson_arr {d : Value} {xs : List Json} (h : valueJson d = .arr xs) :
    ∃ ds, d = .list ds ∧ xs = ds.map valueJson := by
  cases d <;> simp [valueJson] at h
  rename_i ds
  exact ⟨ds, rfl, by rw [← h, valueJsonList_eq_map]⟩

theorem valueJson_obj {d : Value} {kvs : List (String × Json)} (h : valueJson d = .obj kvs) :
    ∃ dk, d = .obj dk ∧ kvs = valueJsonKvs dk := by
  cases d <;> simp [valueJson] at h
  rename_i dk
  exact ⟨dk, rfl, h.symm⟩

theorem lookup_valueJsonKvs (name : String) : ∀ dk : List (String × Value),
    Json.lookup name (valueJsonKvs dk) = (dk.find? (·.1 == name)).map (fun kv => valueJson kv.2)
  | [] => by rw [valueJsonKvs]; rfl
  | (k, v) :: rest => by
    rw [valueJsonKvs]
    simp only [Json.lookup, List.find?_cons]
    cases hk : (k == name)
    · simp only [Bool.false_eq_true, ↓reduceIte]
      exact lookup_valueJsonKvs name rest
    · simp

theorem kindOkKvs_find {s : Schema} {fields : List (String × FieldType)} (hn : (fields.map (·.1)).Nodup)
    {p : String × FieldType} (hp : p ∈ fields) : ∀ {dk : List (String × Value)} {kv : String × Value},
      kindOkKvs s fields dk = true → dk.find? (·.1 == p.1) = some kv → kindOk s p.2.id kv.2 = true
  | [], _, _, hf => by simp at hf
  | (k, v) :: rest, kv, hk, hf => by
    rw [kindOkKvs, Bool.and_eq_true] at hk
    simp only [List.find?_cons] at hf
    cases hkp : (k == p.1)
    · simp only [hkp] at hf
      exact kindOkKvs_find hn hp hk.2 hf
    · simp only [hkp, Option.some.injEq] at hf
      subst hf
      have : k = p.1 := by simpa using hkp
      subst this
      have := hk.1
      rw [find_field hn hp] at this
      exact this

theorem depth_find : ∀ {dk : List (String × Value)} {name : String} {kv : String × Value},
    dk.find? (·.1 == name) = some kv → valueDepth kv.2 ≤ valueDepthKvs dk
  | [], _, _, hf => by simp at hf
  | (k, v) :: rest, name, kv, hf => by
    rw [valueDepthKvs]
    simp only [List.find?_cons] at hf
    cases hkp : (k == name)
    · simp only [hkp] at hf
      have := depth_find hf
      omega
    · simp only [hkp, Option.some.injEq] at hf
      subst hf
      simp only []
      omega

theorem depth_mem : ∀ {ds : List Value} {x : Value}, x ∈ ds → valueDepth x ≤ valueDepthList ds
  | [], _, h => by simp at h
  | y :: ys, x, h => by
    rw [valueDepthList]
    rcases List.mem_cons.mp h with h | h
    · subst h; omega
    · have := depth_mem h; omega

theorem kindOkList_mem {s : Schema} {id : TypeId} : ∀ {ds : List Value} {x : Value}, kindOkList s id ds = true →
    x ∈ ds → kindOk s id x = true
  | [], _, _, h => by simp at h
  | y :: ys, x, hk, h => by
    rw [kindOkList, Bool.and_eq_true] at hk
    rcases List.mem_cons.mp h with h | h
    · subst h; exact hk.1
    · exact kindOkList_mem hk.2 h

/-! ## qualifiers -/

theorem strip_of_not_nn {t : GTy} (h : isNN t = false) : stripRequired t.quals = (true, t.quals) := by
  cases t with
  | nonNull t => simp [isNN] at h
  | named n => rfl
  | list t => rfl

theorem singleInner_list (e : LitExpr) (q : List Qual) :
    singleInner e (.list :: q) = .vec [optWrap (stripRequired q).1 (singleInner e (stripRequired q).2)] := by
  cases q with
  | nil => rfl
  | cons a q => cases a <;> rfl

theorem singleInner_nil (e : LitExpr) : singleInner e [] = e := rfl

/-! ## leaves -/

theorem scalarNameOf_scalar {c : Ctx} {k : Nat} {n : String} (h : c.s.scalars[k]? = some n) :
    scalarNameOf c (.scalar k) = .ok (some n) := by
  simp [scalarNameOf, TypeId.asScalar?, Schema.getScalar, h, bind, Except.bind, pure, Except.pure]

theorem scalarNameOf_other {c : Ctx} {id : TypeId} (h : id.asScalar? = none) : scalarNameOf c id = .ok none := by
  simp [scalarNameOf, h, pure, Except.pure]

theorem resolveTy_custom (e : Env) {n q : String} (hp : C01.notPrim n) (hq : C01.notPrim q)
    (hfn : e.find n = some (.alias n false (.path q))) (hfq : e.find q = none)
    (hx : e.externs.find? (·.1 == q) = some (q, .path "String")) : resolveTy e (.path n) = .path "String" := by
  obtain ⟨m, hm⟩ := resolveTy_unfold e (.path n)
  rw [hm, resolveTyN_alias e _ hp hfn, resolveTyN_extern e _ hq hfq hx, resolveTyN_prim e _ (by decide)]

theorem floatJson_repr (n : Int) : floatJson n.repr = .int n := floatJson_int n

theorem scalar_good (L : Leaves) (c : Ctx) (e : Env) (U : TypeId → Prop) (env : InputEnv c e U)
    (hint : ∀ n, L.intOk n = true → inI64 n = true) (t : GTy)
    {k : Nat} {n : String} (hU : U (.scalar k)) (hn : c.s.scalars[k]? = some n) (d : Value)
    (hok : scalarOk L n (valueJson d) = true) (hk : kindOk c.s (.scalar k) d = true) (f : Nat) :
    ∃ lit x, scalarToLiteral c f d (.scalar k) = .ok lit ∧
      Good e lit (.path n) (canon c.s c.o.skipNone (.scalar k) t (valueJson d)) x ∧
      (canon c.s c.o.skipNone (.scalar k) t (valueJson d)).isNull = false := by
  have hid : isID c.s (.scalar k) = (n == "ID") := by simp [isID, hn]
  have hname := scalarNameOf_scalar (c := c) hn
  have hnull : (canon c.s c.o.skipNone (.scalar k) t (valueJson d)).isNull = false := by
    rw [canon_isNull]
    cases hj : valueJson d <;> first | rfl | (rw [hj, scalarOk_null] at hok; cases hok)
  unfold scalarToLiteral scalarToLiteralWith
  simp only [hname, bind, Except.bind]
  unfold scalarOk at hok
  cases d with
  | null => rw [valueJson] at hok; repeat (split at hok <;> try cases hok)
  | var v => simp [kindOk] at hk
  | «enum» v => simp [kindOk, TypeId.asEnum?] at hk
  | list ds => rw [valueJson] at hok; repeat (split at hok <;> try cases hok)
  | obj dk => rw [valueJson] at hok; repeat (split at hok <;> try cases hok)
  | int m =>
    rw [valueJson] at hok hnull ⊢
    rw [canon_int, hid]
    by_cases h1 : n = "Int"
    · subst h1
      simp only [BEq.rfl, ↓reduceIte] at hok
      refine ⟨.int m, .int m, by simp [pure, Except.pure], ⟨rfl, ?_, .alias (by decide) env.int (.i64 (hint m hok)), rfl,
        ser_prim e _ _ _ rfl (by simp [valSize]), rfl⟩, rfl⟩
      simp [evalLit, resolveTy_alias_prim e (by decide) env.int (by decide : isPrimName "i64" = true), hint m hok]
    have e1 : (n == "Int") = false := by simpa using h1
    simp only [e1, Bool.false_eq_true, ↓reduceIte] at hok
    by_cases h2 : n = "Float"
    · subst h2
      refine ⟨.float (toString m), .float (.int m), by simp [pure, Except.pure], ⟨rfl, ?_,
        .alias (by decide) env.float (.f64 rfl), rfl, ser_prim e _ _ _ rfl (by simp [valSize]), rfl⟩, rfl⟩
      simp [evalLit, resolveTy_alias_prim e (by decide) env.float (by decide : isPrimName "f64" = true), floatJson_repr]
    have e2 : (n == "Float") = false := by simpa using h2
    simp only [e2, Bool.false_eq_true, ↓reduceIte] at hok
    by_cases h3 : n = "Boolean"
    · subst h3
      simp [Spec.boolOk] at hok
    have e3 : (n == "Boolean") = false := by simpa using h3
    simp only [e3, Bool.false_eq_true, ↓reduceIte] at hok
    by_cases h4 : n = "ID"
    · subst h4
      refine ⟨.str (toString m), .str (toString m), by simp [pure, Except.pure], ⟨rfl, ?_,
        .alias (by decide) env.id .string, rfl, ser_prim e _ _ _ rfl (by simp [valSize]), rfl⟩, rfl⟩
      simp [evalLit, resolveTy_alias_prim e (by decide) env.id (by decide : isPrimName "String" = true)]
    have e4 : (n == "ID") = false := by simpa using h4
    simp only [e4, Bool.false_eq_true, ↓reduceIte] at hok
    simp [Spec.stringOk] at hok
  | float tok =>
    rw [valueJson] at hok hnull ⊢
    rw [canon_num]
    have htok : floatJson tok = .num tok := by
      simp only [kindOk, Option.isNone_iff_eq_none] at hk
      simp [floatJson, hk]
    by_cases h1 : n = "Int"
    · subst h1; simp at hok
    have e1 : (n == "Int") = false := by simpa using h1
    simp only [e1, Bool.false_eq_true, ↓reduceIte] at hok
    by_cases h2 : n = "Float"
    · subst h2
      refine ⟨.float tok, .float (.num tok), rfl, ⟨rfl, ?_,
        .alias (by decide) env.float (.f64 rfl), rfl, ser_prim e _ _ _ rfl (by simp [valSize]), rfl⟩, rfl⟩
      simp [evalLit, resolveTy_alias_prim e (by decide) env.float (by decide : isPrimName "f64" = true), htok]
    have e2 : (n == "Float") = false := by simpa using h2
    simp only [e2, Bool.false_eq_true, ↓reduceIte] at hok
    repeat (split at hok <;> try cases hok)
  | bool v =>
    rw [valueJson] at hok hnull ⊢
    rw [canon_bool]
    by_cases h1 : n = "Int"
    · subst h1; simp at hok
    have e1 : (n == "Int") = false := by simpa using h1
    simp only [e1, Bool.false_eq_true, ↓reduceIte] at hok
    by_cases h2 : n = "Float"
    · subst h2; simp [Spec.floatOk] at hok
    have e2 : (n == "Float") = false := by simpa using h2
    simp only [e2, Bool.false_eq_true, ↓reduceIte] at hok
    by_cases h3 : n = "Boolean"
    · subst h3
      refine ⟨.bool v, .bool v, rfl, ⟨rfl, ?_,
        .alias (by decide) env.boolean .bool, rfl, ser_prim e _ _ _ rfl (by simp [valSize]), rfl⟩, rfl⟩
      simp [evalLit, resolveTy_alias_prim e (by decide) env.boolean (by decide : isPrimName "bool" = true)]
    have e3 : (n == "Boolean") = false := by simpa using h3
    simp only [e3, Bool.false_eq_true, ↓reduceIte] at hok
    repeat (split at hok <;> try cases hok)
  | str v =>
    rw [valueJson] at hok hnull ⊢
    rw [canon_str]
    by_cases h1 : n = "Int"
    · subst h1; simp at hok
    have e1 : (n == "Int") = false := by simpa using h1
    simp only [e1, Bool.false_eq_true, ↓reduceIte] at hok
    by_cases h2 : n = "Float"
    · subst h2; simp [Spec.floatOk] at hok
    have e2 : (n == "Float") = false := by simpa using h2
    simp only [e2, Bool.false_eq_true, ↓reduceIte] at hok
    by_cases h3 : n = "Boolean"
    · subst h3; simp [Spec.boolOk] at hok
    have e3 : (n == "Boolean") = false := by simpa using h3
    simp only [e3, Bool.false_eq_true, ↓reduceIte] at hok
    by_cases h4 : n = "ID"
    · subst h4
      refine ⟨.str v, .str v, rfl, ⟨rfl, ?_,
        .alias (by decide) env.id .string, rfl, ser_prim e _ _ _ rfl (by simp [valSize]), rfl⟩, rfl⟩
      simp [evalLit, resolveTy_alias_prim e (by decide) env.id (by decide : isPrimName "String" = true)]
    by_cases h5 : n = "String"
    · subst h5
      refine ⟨.str v, .str v, rfl, ⟨rfl, ?_, .string, rfl, ser_prim e _ _ _ rfl (by simp [valSize]), rfl⟩, rfl⟩
      have : resolveTy e (.path "String") = .path "String" := resolveTyN_prim e _ (by decide)
      simp [evalLit, this]
    · have hnd : n ∉ Schema.defaultScalars := by simp [Schema.defaultScalars, h1, h2, h3, h4, h5]
      obtain ⟨hp, q, hq, hfn, hfq, hxq⟩ := env.custom k n hU hn hnd
      refine ⟨.str v, .str v, rfl, ⟨rfl, ?_, .alias hp hfn (.extern hq hfq hxq .string), rfl,
        ser_prim e _ _ _ rfl (by simp [valSize]), rfl⟩, rfl⟩
      simp [evalLit, resolveTy_custom e hp hq hfn hfq hxq]

theorem getEnum_ok' {s : Schema} {k : Nat} {en : StoredEnum} (h : s.enums[k]? = some en) : s.getEnum k = .ok en := by
  simp [Schema.getEnum, h, pure, Except.pure]

theorem getInput_ok' {s : Schema} {k : Nat} {i : StoredInput} (h : s.inputs[k]? = some i) : s.getInput k = .ok i := by
  simp [Schema.getInput, h, pure, Except.pure]

theorem enum_good (c : Ctx) (e : Env) (U : TypeId → Prop) (env : InputEnv c e U)
    (hnorm : c.o.normalization = .none)
    (henum : ∀ k en, U (.enum k) → c.s.enums[k]? = some en → e.find en.name = some (enumItem c en))
    {k : Nat} {en : StoredEnum} {v : String} (hU : U (.enum k)) (hen : c.s.enums[k]? = some en)
    (hv : v ∈ en.variants) (f : Nat) :
    ∃ lit x, scalarToLiteral c f (.enum v) (.enum k) = .ok lit ∧ Good e lit (.path en.name) (.str v) x := by
  obtain ⟨hp, hcase⟩ := env.enums k en hU hen
  have hitem := henum k en hU hen
  have hidents : (en.variants.map (variantIdent c)).Nodup := by
    rcases hcase with ⟨_, h⟩ | ⟨h, _⟩
    · exact h
    · rw [hitem] at h; cases h
  rw [enumItem_eq] at hitem
  have hname : c.o.normalization.enumName c.cs en.name = en.name := by
    rw [hnorm]; rfl
  refine ⟨.path en.name (variantIdent c v), .variant (variantIdent c v) none, ?_, rfl, ?_,
    .enumVariant hp hitem (List.mem_map_of_mem hv), rfl, ?_, rfl⟩
  · unfold scalarToLiteral scalarToLiteralWith
    simp only [scalarNameOf_other (c := c) (id := .enum k) rfl, bind, Except.bind, TypeId.asEnum?, getEnum_ok' hen,
      hname]
    rfl
  · have hmem : variantIdent c v ∈ en.variants.map (variantIdent c) := List.mem_map_of_mem hv
    simp only [evalLit, resolveTy_gqlEnum e hp hitem, isPrimName_false hp, and_self, ↓reduceIte, hitem, hmem]
  · intro fuel hf
    obtain ⟨f', rfl, _⟩ := fuel_succ (show 0 + 1 ≤ fuel by simp [valSize] at hf; omega)
    show serPath e (f' + 1) en.name _ = _
    rw [serPath_enum e f' _ _ _ _ _ _ _ _ hitem, find_ser_table _ _ hidents v hv]

theorem mapM_ok_map {ε α β} (F : α → Except ε β) (G : α → β) : ∀ (ds : List α),
    (∀ d ∈ ds, F d = .ok (G d)) → ds.mapM F = .ok (ds.map G)
  | [], _ => rfl
  | d :: ds, h => by
    rw [List.mapM_cons, h d (by simp), mapM_ok_map F G ds (fun x hx => h x (by simp [hx]))]
    rfl

/-- the members of a plain input object, rendered -/
theorem structFields_ok (c : Ctx) (lit : Value → TypeId → List Qual → Outcome LitExpr) (dk : List (String × Value))
    (Lf : String × FieldType → LitExpr) : ∀ (fields : List (String × FieldType)),
    (∀ p ∈ fields, (match dk.find? (·.1 == p.1) with
        | some (_, dv) => lit dv p.2.id p.2.quals
        | none => pure .none) = .ok (Lf p)) →
    structFields c lit dk fields =
      .ok (fields.map fun p => (keywordReplace (c.cs.snake p.1), boxIfRecursive c (Lf p) p.2.id))
  | [], _ => rfl
  | (name, ty) :: rest, h => by
    have h0 := h (name, ty) (by simp)
    simp only at h0
    rw [structFields]
    cases hfd : dk.find? (·.1 == name) with
    | none =>
      rw [hfd] at h0
      simp only [pure, Except.pure, Except.ok.injEq] at h0
      simp only [bind, Except.bind, pure, Except.pure, h0,
        structFields_ok c lit dk Lf rest (fun p hp => h p (by simp [hp]))]
      rfl
    | some kv =>
      rw [hfd] at h0
      simp only at h0
      simp only [bind, Except.bind, h0, structFields_ok c lit dk Lf rest (fun p hp => h p (by simp [hp]))]
      rfl

/-- the `filter_map` of a `@oneOf` literal that mentions exactly the member `p` -/
theorem oneOfVariants_single (c : Ctx) (lit : Value → TypeId → List Qual → Outcome LitExpr) (ctor : String)
    (p : String × FieldType) (dv : Value) (l : LitExpr)
    (hl : lit dv p.2.id (.required :: p.2.quals) = .ok l) : ∀ (fields : List (String × FieldType)),
    (fields.map (·.1)).Nodup →
    oneOfVariants c lit ctor [(p.1, dv)] fields =
      .ok (if p ∈ fields then [.variant ctor (keywordReplace (c.cs.camel p.1)) (boxIfRecursive c l p.2.id)] else []) ∨
    (p ∉ fields ∧ p.1 ∈ fields.map (·.1))
  | [], _ => .inl rfl
  | (name, ty) :: rest, hn => by
    simp only [List.map_cons, List.nodup_cons] at hn
    by_cases hq : p.1 = name
    · by_cases hpq : p = (name, ty)
      · left
        subst hpq
        have hnone : ∀ (fs : List (String × FieldType)), name ∉ fs.map (·.1) →
            oneOfVariants c lit ctor [(name, dv)] fs = .ok [] := by
          intro fs
          induction fs with
          | nil => intro _; rfl
          | cons q fs ih =>
            intro hq
            simp only [List.map_cons, List.mem_cons, not_or] at hq
            obtain ⟨qn, qt⟩ := q
            have : (name == qn) = false := by simpa using hq.1
            rw [oneOfVariants]
            simp only [List.find?_cons, this, List.find?_nil]
            exact ih hq.2
        rw [oneOfVariants]
        simp only [List.find?_cons, BEq.rfl, bind, Except.bind, hl, hnone rest hn.1, List.mem_cons, true_or,
          ↓reduceIte]
        rfl
      · right
        refine ⟨?_, by simp [hq]⟩
        intro hm
        rcases List.mem_cons.mp hm with h | h
        · exact hpq h
        · exact hn.1 (hq ▸ List.mem_map_of_mem (f := (·.1)) h)
    · have hne : (p.1 == name) = false := by simpa using hq
      have hpne : p ≠ (name, ty) := fun h => hq (by rw [h])
      rw [oneOfVariants]
      simp only [List.find?_cons, hne, List.find?_nil]
      rcases oneOfVariants_single c lit ctor p dv l hl rest hn.2 with h | ⟨h1, h2⟩
      · left
        rw [h]
        simp [hpne]
      · right
        exact ⟨by simp [hpne, h1], by simp [h2]⟩

/-- a position that must not be `null` never holds `null` (`C04S.valid_nonnull` for the coercing validity) -/
theorem validC_nonnull {L : Leaves} {s : Schema} {id : TypeId} {b : Bool} {t : GTy} {j : Json}
    (h : ValidC L s id b t j) : (b = true ∨ isNN t = true) → j.isNull = false := by
  induction h with
  | null hn => intro h; rcases h with h | h <;> simp_all
  | some hn _ ih => intro h; rcases h with h | h <;> simp_all
  | bang _ ih => intro _; exact ih (.inl rfl)
  | list _ _ => intro _; rfl
  | @wrap id t j _ hnn _ _ => intro _; cases j <;> first | rfl | exact absurd rfl hnn
  | @scalar k n nm j' _ hok =>
    intro _
    cases j' <;> first | rfl | (rw [scalarOk_null] at hok; cases hok)
  | «enum» _ _ => intro _; rfl
  | object _ _ _ _ _ _ _ => intro _; rfl
  | oneOf _ _ _ _ _ => intro _; rfl

theorem valueIsNull_of_json {d : Value} (h : (valueJson d).isNull = false) : valueIsNull d = false := by
  cases d <;> first | rfl | (rw [valueJson] at h; cases h)

/-- **`literal_core`** — see the header -/
theorem literal_core (L : Leaves) (c : Ctx) (e : Env) (U : TypeId → Prop) (env : InputEnv c e U)
    (hnorm : c.o.normalization = .none)
    (hkw : ∀ k i, U (.input k) → c.s.inputs[k]? = some i → keywordReplace i.name = i.name)
    (henum : ∀ k en, U (.enum k) → c.s.enums[k]? = some en → e.find en.name = some (enumItem c en))
    (hint : ∀ n, L.intOk n = true → inI64 n = true) (hclosed : L.enumOpen = false)
    {id : TypeId} {b : Bool} {t : GTy} {j : Json} (h : ValidC L c.s id b t j) :
    U id → wf t = true → ∀ (d : Value), valueJson d = j → kindOk c.s id d = true → ∀ fuel, valueDepth d < fuel →
      (b = false → ∃ lit x, valueToLiteral c fuel d id t.quals = .ok lit ∧
          Good e lit (R c id false t) (canon c.s c.o.skipNone id t (coerce c.s id t j)) x) ∧
      (b = true → isNN t = false → ∃ lit x, literalInner c fuel d id t.quals = .ok lit ∧
          Good e lit (R c id true t) (canon c.s c.o.skipNone id t (coerce c.s id t j)) x ∧
          (canon c.s c.o.skipNone id t (coerce c.s id t j)).isNull = false) := by
  induction h with
  | @null id t hn =>
    intro _ _ d hd hk fuel _
    refine ⟨fun _ => ?_, fun hb => by cases hb⟩
    have hd' : d = .null := by
      cases d <;> simp [valueJson] at hd
      · rfl
      · simp [kindOk] at hk
    subst hd'
    refine ⟨.none, .unit, valueToLiteral_null c fuel id _ (by rw [strip_of_not_nn hn]), ?_⟩
    rw [coerce_null, canon_null, R, if_neg (by simp), rustOf_opt _ hn]
    exact good_none e _
  | @some id t j hn hv ih =>
    intro hU hw d hd hk fuel hf
    refine ⟨fun _ => ?_, fun hb => by cases hb⟩
    obtain ⟨lit, x, hlit, hg, hnull⟩ := (ih hU hw d hd hk fuel hf).2 rfl hn
    have hdn : valueIsNull d = false := valueIsNull_of_json (hd ▸ validC_nonnull hv (.inl rfl))
    refine ⟨.some lit, .some x, ?_, ?_⟩
    · rw [valueToLiteral_of_not_null c fuel d id _ (by rw [hdn, Bool.and_false]), strip_of_not_nn hn]
      simp only [hlit]
      rfl
    · have : R c id false t = .opt (R c id true t) := by simp [R, rustOf_opt _ hn]
      rw [this]
      exact good_some hg hnull
  | @bang id b t j hv ih =>
    intro hU hw d hd hk fuel hf
    have hw' := wf_nonNull hw
    have hnn : isNN t = false := by cases t <;> simp_all [wf, isNN]
    obtain ⟨lit, x, hlit, hg, hnull⟩ := (ih hU hw' d hd hk fuel hf).2 rfl hnn
    refine ⟨fun hb => ?_, fun _ hb => by simp [isNN] at hb⟩
    subst hb
    refine ⟨lit, x, ?_, ?_⟩
    · rw [valueToLiteral_of_not_null c fuel d id _ (by simp [GTy.quals, stripRequired])]
      simp only [GTy.quals, stripRequired, hlit]
      rfl
    · have : R c id false (.nonNull t) = R c id true t := by simp [R, rustOf]
      rw [this, coerce_nonNull, canon_nonNull]
      exact hg
  | @list id t xs hv ih =>
    intro hU hw d hd hk fuel hf
    refine ⟨fun hb => (by cases hb), fun _ _ => ?_⟩
    obtain ⟨ds, rfl, rfl⟩ := valueJson_arr hd
    have hw' : wf t = true := by simpa [wf] using hw
    obtain ⟨f, rfl⟩ : ∃ f, fuel = f + 1 := ⟨fuel - 1, by omega⟩
    rw [valueDepth] at hf
    rw [kindOk] at hk
    have hel : ∀ x ∈ ds, ∃ lx : LitExpr × Val, valueToLiteral c f x id t.quals = .ok lx.1 ∧
        Good e lx.1 (R c id false t)
          (canon c.s c.o.skipNone id t (coerce c.s id t (valueJson x))) lx.2 := by
      intro x hx
      obtain ⟨lit, v, h1, h2⟩ := (ih (valueJson x) (List.mem_map_of_mem hx) hU hw' x rfl (kindOkList_mem hk hx) f
        (by have := depth_mem hx; omega)).1 rfl
      exact ⟨(lit, v), h1, h2⟩
    obtain ⟨g, hg⟩ := exists_fun_of_forall_mem ds _ hel
    have hout : canon c.s c.o.skipNone id (.list t) (coerce c.s id (.list t) (.arr (ds.map valueJson))) =
        .arr (ds.map fun x => canon c.s c.o.skipNone id t (coerce c.s id t (valueJson x))) := by
      rw [coerce_arr, canon_arr, coerceList_eq_map, canonList_eq_map, List.map_map, List.map_map]
      rfl
    refine ⟨.vec (ds.map fun x => (g x).1), .list (ds.map fun x => (g x).2), ?_, ?_, ?_⟩
    · show literalInner c (f+1) (.list ds) id (.list :: t.quals) = _
      rw [literalInner_list_list, mapM_ok_map _ (fun x => (g x).1) ds (fun x hx => (hg x hx).1)]
      rfl
    · have : R c id true (.list t) = .vec (R c id false t) := by simp [R, rustOfNN]
      rw [this, hout]
      exact good_vec _ _ _ ds (fun x hx => (hg x hx).2)
    · rw [hout]; rfl
  | @wrap id t j hna hnn hv ih =>
    intro hU hw d hd hk fuel hf
    refine ⟨fun hb => (by cases hb), fun _ _ => ?_⟩
    have hw' : wf t = true := by simpa [wf] using hw
    have hnl : ∀ ds, d ≠ .list ds := by
      intro ds hds
      subst hds
      rw [valueJson] at hd
      exact hna _ hd.symm
    obtain ⟨f, rfl⟩ : ∃ f, fuel = f + 1 := ⟨fuel - 1, by omega⟩
    obtain ⟨lit, x, hlit, hg⟩ := (ih hU hw' d hd hk (f+1) hf).1 rfl
    have hdn : valueIsNull d = false := by
      cases d <;> first | rfl | (rw [valueJson] at hd; exact absurd hd.symm hnn)
    rw [valueToLiteral_of_not_null c (f+1) d id _ (by rw [hdn, Bool.and_false]),
      literalInner_single c f d id _ hnl] at hlit
    obtain ⟨s0, hs0⟩ : ∃ s0, scalarToLiteral c f d id = .ok s0 := by
      cases h : scalarToLiteral c f d id with
      | ok s0 => exact ⟨s0, rfl⟩
      | error err => simp [h, Functor.map, Except.map] at hlit
    rw [hs0] at hlit
    simp only [Functor.map, Except.map, Except.ok.injEq] at hlit
    have hout : canon c.s c.o.skipNone id (.list t) (coerce c.s id (.list t) j) =
        .arr [canon c.s c.o.skipNone id t (coerce c.s id t j)] := by
      rw [coerce_list_bare _ _ _ _ hna hnn, canon_arr, canonList, canonList]
      rfl
    refine ⟨.vec [lit], .list [x], ?_, ?_, ?_⟩
    · show literalInner c (f+1) d id (.list :: t.quals) = _
      rw [literalInner_single c f d id _ hnl, hs0]
      show Except.ok (singleInner s0 (.list :: t.quals)) = _
      rw [singleInner_list, hlit]
    · have : R c id true (.list t) = .vec (R c id false t) := by simp [R, rustOfNN]
      rw [this, hout]
      exact good_vec (fun _ : Unit => lit) (fun _ => canon c.s c.o.skipNone id t (coerce c.s id t j)) (fun _ => x)
        [()] (fun _ _ => hg)
    · rw [hout]; rfl
  | @scalar k n nm j hn hok =>
    intro hU _ d hd hk fuel hf
    refine ⟨fun hb => (by cases hb), fun _ _ => ?_⟩
    subst hd
    have hnl : ∀ ds, d ≠ .list ds := by
      intro ds hds
      subst hds
      rw [valueJson, scalarOk_arr] at hok
      cases hok
    obtain ⟨f, rfl⟩ : ∃ f, fuel = f + 1 := ⟨fuel - 1, by omega⟩
    obtain ⟨lit, x, hlit, hg, hnull⟩ := scalar_good L c e U env hint (.named nm) hU hn d hok hk f
    refine ⟨lit, x, ?_, ?_, ?_⟩
    · show literalInner c (f+1) d (.scalar k) [] = _
      rw [literalInner_single _ _ _ _ _ hnl, hlit]
      rfl
    · have : R c (.scalar k) true (.named nm) = .path n := by simp [R, rustOfNN, tnOf_scalar hn]
      rw [this, coerce_scalar hok]
      exact hg
    · rw [coerce_scalar hok]
      exact hnull
  | @«enum» k en nm v hen hv =>
    intro hU _ d hd hk fuel hf
    refine ⟨fun hb => (by cases hb), fun _ _ => ?_⟩
    have hvm : v ∈ en.variants := by
      rcases hv with h | h
      · rw [hclosed] at h; cases h
      · exact h
    have hd' : d = .enum v := by
      cases d <;> simp [valueJson] at hd
      · simp [kindOk, TypeId.asEnum?] at hk
      · rw [hd]
    subst hd'
    obtain ⟨f, rfl⟩ : ∃ f, fuel = f + 1 := ⟨fuel - 1, by omega⟩
    obtain ⟨lit, x, hlit, hg⟩ := enum_good c e U env hnorm henum hU hen hvm f
    have hout : canon c.s c.o.skipNone (.enum k) (.named nm) (coerce c.s (.enum k) (.named nm) (.str v)) = .str v := by
      rw [coerce_str]
      show canon _ _ _ _ (.str v) = _
      rw [canon_str]
    refine ⟨lit, x, ?_, ?_, ?_⟩
    · show literalInner c (f+1) (.enum v) (.enum k) [] = _
      rw [literalInner_single _ _ _ _ _ (fun _ h => by cases h), hlit]
      rfl
    · have : R c (.enum k) true (.named nm) = .path en.name := by simp [R, rustOfNN, tnOf_enum hen]
      rw [this, hout]
      exact hg
    · rw [hout]; rfl
  | @object k i nm kvs hi hone hnd hsub habs hpres ih =>
    intro hU _ d hd hk fuel hf
    refine ⟨fun hb => (by cases hb), fun _ _ => ?_⟩
    obtain ⟨dk, rfl, rfl⟩ := valueJson_obj hd
    obtain ⟨f, rfl⟩ : ∃ f, fuel = f + 1 := ⟨fuel - 1, by omega⟩
    rw [valueDepth] at hf
    have hkk : kindOkKvs c.s i.fields dk = true := by
      rw [kindOk] at hk
      simpa [inputOf, hi] using hk
    obtain ⟨hp, hfind⟩ := env.inputs k i hU hi
    rw [inputItemSpec, if_neg (by simp [hone])] at hfind
    have hcl := env.closed k i hU hi
    have hnames := env.fieldNames k i hU hi
    have hctor : keywordReplace (c.o.normalization.inputName c.cs i.name) = i.name := by
      rw [hnorm]; exact hkw k i hU hi
    -- every member
    have hmem : ∀ p ∈ i.fields, ∃ lx : LitExpr × Val,
        (match dk.find? (·.1 == p.1) with
          | some (_, dv) => valueToLiteral c f dv p.2.id p.2.quals
          | none => pure .none) = .ok lx.1 ∧
        Good e lx.1 (R c p.2.id false (gty p.2))
          (canon c.s c.o.skipNone p.2.id (gty p.2)
            ((Json.lookup p.1 (coerceKvs c.s i.fields (valueJsonKvs dk))).getD .null)) lx.2 := by
      intro p hpm
      obtain ⟨hUp, _, hwp, _⟩ := hcl p hpm
      rw [lookup_coerceKvs c.s _ hnames p hpm]
      have hlk := lookup_valueJsonKvs p.1 dk
      cases hfd : dk.find? (·.1 == p.1) with
      | none =>
        rw [hfd] at hlk
        simp only [Option.map_none] at hlk
        refine ⟨(.none, .unit), rfl, ?_⟩
        simp only [hlk, Option.map_none, Option.getD_none, canon_null]
        rw [R, if_neg (by simp), rustOf_opt _ (habs p hpm hlk)]
        exact good_none e _
      | some kv =>
        rw [hfd] at hlk
        simp only [Option.map_some] at hlk
        obtain ⟨lit, x, h1, h2⟩ := (ih p hpm (valueJson kv.2) hlk hUp hwp kv.2 rfl (kindOkKvs_find hnames hpm hkk hfd) f
          (by have := depth_find hfd; omega)).1 rfl
        refine ⟨(lit, x), ?_, ?_⟩
        · obtain ⟨k', dv⟩ := kv
          rw [gty, quals_ofQuals] at h1
          exact h1
        · simp only [hlk, Option.map_some, Option.getD_some]
          exact h2
    obtain ⟨g, hg⟩ := exists_fun_of_forall_mem i.fields _ hmem
    have hgood := good_struct e c.o.skipNone i.fields (inputField c) i.name i.name _ _ hp hfind
      (fun p _ => ⟨inputField_wire c p, rfl, by simp [inputField, isOptional_eq]⟩)
      ((env.members k i hU hi).1 hone) hnames (fun p => boxIfRecursive c (g p).1 p.2.id)
      (fun p => canon c.s c.o.skipNone p.2.id (gty p.2)
        ((Json.lookup p.1 (coerceKvs c.s i.fields (valueJsonKvs dk))).getD .null))
      (fun p => (g p).2) (fun p hpm => good_field (hg p hpm).2)
      (by
        intro p hpm hnnp
        rw [canon_isNull, lookup_coerceKvs c.s _ hnames p hpm]
        cases hl : Json.lookup p.1 (valueJsonKvs dk) with
        | none => rw [habs p hpm hl] at hnnp; cases hnnp
        | some v =>
          simp only [Option.map_some, Option.getD_some]
          have hvc := validC_coerce U (fun k i hk hi => ⟨env.fieldNames k i hk hi, fun p hp => (env.closed k i hk hi p hp).1⟩)
            (hpres p hpm v hl) (hcl p hpm).1
          exact valid_nonnull hvc (.inr hnnp))
    have hout : canon c.s c.o.skipNone (.input k) (.named nm) (coerce c.s (.input k) (.named nm) (.obj (valueJsonKvs dk))) =
        .obj (i.fields.filterMap fun p =>
          if c.o.skipNone && (canon c.s c.o.skipNone p.2.id (gty p.2)
              ((Json.lookup p.1 (coerceKvs c.s i.fields (valueJsonKvs dk))).getD .null)).isNull then none
          else some (p.1, canon c.s c.o.skipNone p.2.id (gty p.2)
              ((Json.lookup p.1 (coerceKvs c.s i.fields (valueJsonKvs dk))).getD .null))) := by
      rw [coerce_obj_input _ _ _ _ _ hi]
      show canon _ _ _ _ (.obj _) = _
      rw [canon_obj_input _ _ _ _ _ _ hi, if_neg (by simp [hone]), assemble_canonKvs c.s c.o.skipNone _ hnames]
      congr 1
      apply filterMap_congr'
      intro p _
      rw [canon_isNull]
    refine ⟨.struct i.name (i.fields.map fun p => ((inputField c p).rust, boxIfRecursive c (g p).1 p.2.id)),
      .record (i.fields.map fun p => ((inputField c p).rust, (g p).2)), ?_, ?_, ?_⟩
    · show literalInner c (f+1) (.obj dk) (.input k) [] = _
      rw [literalInner_single _ _ _ _ _ (fun _ h => by cases h)]
      unfold scalarToLiteral scalarToLiteralWith objectLiteral objectLiteralWith
      simp only [scalarNameOf_other (c := c) (id := .input k) rfl, bind, Except.bind, TypeId.asInput?, getInput_ok' hi,
        hone, Bool.false_eq_true, ↓reduceIte, hctor,
        structFields_ok c (valueToLiteral c f) dk (fun p => (g p).1) i.fields (fun p hpm => (hg p hpm).1)]
      rfl
    · have : R c (.input k) true (.named nm) = .path i.name := by simp [R, rustOfNN, tnOf_input hi]
      rw [this, hout]
      exact hgood
    · rw [hout]; rfl
  | @oneOf k i nm p v hi hone hpm hv ih =>
    intro hU _ d hd hk fuel hf
    refine ⟨fun hb => (by cases hb), fun _ _ => ?_⟩
    obtain ⟨dk, rfl, hkv⟩ := valueJson_obj hd
    obtain ⟨dv, rfl, rfl⟩ : ∃ dv, dk = [(p.1, dv)] ∧ v = valueJson dv := by
      cases dk with
      | nil => rw [valueJsonKvs] at hkv; cases hkv
      | cons kv rest =>
        obtain ⟨k', dv⟩ := kv
        cases rest with
        | nil =>
          rw [valueJsonKvs, valueJsonKvs] at hkv
          simp only [List.cons.injEq, Prod.mk.injEq, and_true] at hkv
          exact ⟨dv, by rw [hkv.1], hkv.2⟩
        | cons kv2 rest2 =>
          obtain ⟨k2, v2⟩ := kv2
          rw [valueJsonKvs, valueJsonKvs] at hkv
          simp at hkv
    obtain ⟨f, rfl⟩ : ∃ f, fuel = f + 1 := ⟨fuel - 1, by omega⟩
    rw [valueDepth, valueDepthKvs, valueDepthKvs] at hf
    obtain ⟨hp, hfind⟩ := env.inputs k i hU hi
    rw [inputItemSpec, if_pos hone] at hfind
    obtain ⟨hUp, _, hwp, hnn, _⟩ := env.closed k i hU hi p hpm
    have hnames := env.fieldNames k i hU hi
    have hctor : keywordReplace (c.o.normalization.inputName c.cs i.name) = i.name := by
      rw [hnorm]; exact hkw k i hU hi
    have hkd : kindOk c.s p.2.id dv = true := by
      rw [kindOk] at hk
      simp only [inputOf, hi, kindOkKvs, find_field hnames hpm, Bool.and_true] at hk
      exact hk
    obtain ⟨lit, x, hlit, hg⟩ := (ih hUp (wf_nonNull_of hwp (hnn hone)) dv rfl hkd f (by omega)).1 rfl
    have hlit' : valueToLiteral c f dv p.2.id (.required :: p.2.quals) = .ok lit := by
      rw [gty] at hlit
      simpa [GTy.quals, quals_ofQuals] using hlit
    have hout : canon c.s c.o.skipNone (.input k) (.named nm)
          (coerce c.s (.input k) (.named nm) (.obj [(p.1, valueJson dv)])) =
        .obj [(p.1, canon c.s c.o.skipNone p.2.id (.nonNull (gty p.2))
          (coerce c.s p.2.id (.nonNull (gty p.2)) (valueJson dv)))] := by
      rw [coerce_obj_input _ _ _ _ _ hi]
      show canon _ _ _ _ (.obj _) = _
      rw [canon_obj_input _ _ _ _ _ _ hi, if_pos hone, coerceKvs, coerceKvs, find_field hnames hpm, canonKvs, canonKvs,
        find_field hnames hpm, canon_nonNull, coerce_nonNull]
    have hgood := good_oneOf e i.fields (inputVariant c) i.name i.name _ _ hp hfind
      (fun q _ => inputVariant_wire c q) ((env.members k i hU hi).2 hone) p hpm _ rfl
      (boxIfRecursive c lit p.2.id) _ x (good_field hg)
    refine ⟨.variant i.name (inputVariant c p).name (boxIfRecursive c lit p.2.id),
      .variant (inputVariant c p).name (some x), ?_, ?_, ?_⟩
    · show literalInner c (f+1) (.obj [(p.1, dv)]) (.input k) [] = _
      rw [literalInner_single _ _ _ _ _ (fun _ h => by cases h)]
      unfold scalarToLiteral scalarToLiteralWith objectLiteral objectLiteralWith
      simp only [scalarNameOf_other (c := c) (id := .input k) rfl, bind, Except.bind, TypeId.asInput?, getInput_ok' hi,
        hone, ↓reduceIte, hctor]
      rcases oneOfVariants_single c (valueToLiteral c f) i.name p dv lit hlit' i.fields hnames with h | ⟨h, _⟩
      · rw [h, if_pos hpm]
        rfl
      · exact absurd hpm h
    · have : R c (.input k) true (.named nm) = .path i.name := by simp [R, rustOfNN, tnOf_input hi]
      rw [this, hout]
      exact hgood
    · rw [hout]; rfl

end C04D
end GqlVerif
