import GqlVerif.Proofs.C14GeneratedAcyclic
/-!
# P26 (4/4) — C14: a non-vacuous instance (reviewer finding 4), and the side condition is needed

A module generated under `deny` where the payload WITH the denied keys is read **successfully** at the very structs the
fields were denied from — at the root, one level down, two levels down and inside list elements — and equals the read
without them.

```graphql
type Query  { animal: Animal   when: String @deprecated }
type Animal { name: String   when: Date @deprecated(reason: "use since")   owner: Person   friends: [Animal!] }
type Person { id: ID!   since: String @deprecated }
query Q { animal { __typename name when owner { id since } friends { name when } } when }
```

* `w_class`, `w_gen`, `w_names`, `w_envOK` — every hypothesis of `denied_field_payload_same` holds on the module
  `responseForQuery` emits (13 items; `ResponseData { animal }`, `Qanimal { name, owner, friends }`,
  `Qanimalowner { id }`, `Qanimalfriends { name }`: no member `when` / `since` anywhere);
* **`w_instance`** — the payload `wWith` (denied keys `when` at the root, in `animal`, in every element of `friends`,
  `since` in `owner`; one of them twice, one with a value of the wrong type) is read successfully, `eraseDenied` removes
  exactly those entries (`wWithout`, by evaluation), and the two reads are equal (by the theorem);
  `w_keyFree_*` — `denied_field_keyFree` at the root, at `animal`, at `animal.owner`, at `animal.friends`;
  `w_warn_member` — under `warn` the same selection has the members (so the keys are *not* ignored there);
* **`sibling_key_matters`** — the side condition of `denied_field_keyFree` is needed: in
  `query Q { animal { when: name  when } }` the key `when` of the denied field is also the key of a kept sibling
  (an alias): the operation is in the class, the module is generated, `when` is **not** `KeyFree` at `Qanimal`, the
  payloads with and without it are read differently — and `eraseDenied` rightly leaves the entry alone.
-/
namespace GqlVerif
namespace C14G
namespace Witness
open Serde Composed SerdeFuel Codegen C01 C01.E2E

theorem except_ok_of_isSome {ε α : Type} {r : Except ε α} {d : α} (h : r.toOption.isSome = true) :
    r = .ok (r.toOption.getD d) := by
  cases r with
  | error e => simp [Except.toOption] at h
  | ok a => simp [Except.toOption]

mutual
  /-- a printable digest of a value (for evaluation only) -/
  def showVal : Val → String
    | .unit => "()"
    | .some v => "Some(" ++ showVal v ++ ")"
    | .str s => "\"" ++ s ++ "\""
    | .int n => toString n
    | .float _ => "<float>"
    | .bool b => toString b
    | .list vs => "[" ++ showVals vs ++ "]"
    | .record fs => "{" ++ showFields fs ++ "}"
    | .variant n none => n
    | .variant n (some v) => n ++ "(" ++ showVal v ++ ")"
    | .enumOther s => "Other(" ++ s ++ ")"
  def showVals : List Val → String
    | [] => ""
    | v :: vs => showVal v ++ "," ++ showVals vs
  def showFields : List (String × Val) → String
    | [] => ""
    | (n, v) :: fs => n ++ ":" ++ showVal v ++ "," ++ showFields fs
end

def wSchema : Schema :=
  { objects := [{ name := "Query", fields := [0, 6], implements := [] },
                { name := "Animal", fields := [1, 2, 3, 5], implements := [] },
                { name := "Person", fields := [4, 7], implements := [] }],
    fields := [{ name := "animal", ty := { id := .object 1, quals := [] }, parent := .object 0, deprecation := none },
               { name := "name", ty := { id := .scalar 1, quals := [] }, parent := .object 1, deprecation := none },
               { name := "when", ty := { id := .scalar 5, quals := [] }, parent := .object 1, deprecation := some (some "use since") },
               { name := "owner", ty := { id := .object 2, quals := [] }, parent := .object 1, deprecation := none },
               { name := "id", ty := { id := .scalar 0, quals := [.required] }, parent := .object 2, deprecation := none },
               { name := "friends", ty := { id := .object 1, quals := [.list, .required] }, parent := .object 1, deprecation := none },
               { name := "when", ty := { id := .scalar 1, quals := [] }, parent := .object 0, deprecation := some none },
               { name := "since", ty := { id := .scalar 1, quals := [] }, parent := .object 2, deprecation := some none }],
    scalars := Schema.defaultScalars ++ ["Date"] }

def wOp : ROperation :=
  { name := "Q", kind := .query, objectId := 0,
    sels := [.field none 0 [.typename, .field none 1 [], .field none 2 [],
                            .field none 3 [.field none 4 [], .field none 7 []],
                            .field none 5 [.field none 1 [], .field none 2 []]],
             .field none 6 []] }

def wQuery : Query := { operations := [wOp] }

def wCtx : Ctx := { s := wSchema, q := wQuery, o := { deprecation := .deny }, cs := ⟨id, id⟩ }

/-- the module the generator emits under `deny` -/
def wItems : List Item := (responseForQuery wCtx 0).toOption.getD []

def wEnv : Env := moduleEnv wCtx wItems

theorem w_class : TreeOpD wCtx wOp = true := by decide +kernel

/-- not in the old class `TreeOp` (which excludes denied fields) -/
example : TreeOp wCtx wOp = false := by decide +kernel

theorem w_gen : responseForQuery wCtx 0 = .ok wItems := except_ok_of_isSome (by decide +kernel)

theorem w_names : EnumSpec.nodup (wItems.map (·.name)) = true := by decide +kernel

/-- the decidable side condition of the end-to-end theorems -/
theorem w_moduleOk : moduleOk wCtx wItems = true := by decide +kernel

/-- `EnvOK`: by the theorem for the class (`tree_module_envOK`) — and by evaluation of the executable check -/
theorem w_envOK : EnvOK wEnv := (tree_module_envOK wCtx 0 wOp wItems rfl w_class w_gen w_moduleOk).1

example : rankCheck wEnv = true ∧ acyclicCheck wEnv = true := by decide +kernel

/-- the emitted structs: no member for `when` / `since`; the members that are there -/
example : wItems.length = 10 ∧
    wItems.filterMap (fun | .struct n _ _ fs => some (n, fs.map (·.wire)) | _ => none) =
      [("ResponseData", ["animal"]), ("Qanimal", ["name", "owner", "friends"]), ("Qanimalowner", ["id"]),
       ("Qanimalfriends", ["name"])] := by decide +kernel

/-- under `warn` the same selection has the members `when` / `since` (the keys are read there) -/
theorem w_warn_member :
    ((responseForQuery { wCtx with o := { deprecation := .warn } } 0).toOption.getD []).filterMap
        (fun | .struct n _ _ fs => some (n, fs.map (·.wire)) | _ => none) =
      [("ResponseData", ["animal", "when"]), ("Qanimal", ["name", "when", "owner", "friends"]),
       ("Qanimalowner", ["id", "since"]), ("Qanimalfriends", ["name", "when"])] := by decide +kernel

/-- a payload that still carries every denied field: `when` at the root (twice), in `animal` (of the wrong type), in
    each element of `friends`; `since` in `owner` -/
def wWith : Json :=
  .obj [("when", .str "root"),
        ("animal", .obj [("__typename", .str "Animal"), ("when", .arr [.int 1]), ("name", .str "Rex"),
                         ("owner", .obj [("since", .str "2019"), ("id", .int 7)]),
                         ("friends", .arr [.obj [("name", .str "Tom"), ("when", .str "2020")],
                                           .obj [("when", .null), ("name", .null)]])]),
        ("when", .null)]

/-- the same payload without them -/
def wWithout : Json :=
  .obj [("animal", .obj [("__typename", .str "Animal"), ("name", .str "Rex"),
                         ("owner", .obj [("id", .int 7)]),
                         ("friends", .arr [.obj [("name", .str "Tom")], .obj [("name", .null)]])])]

/-- the eraser removes exactly the denied entries, at every depth (evaluation) -/
theorem w_erase : eraseDenied wCtx wOp wWith = wWithout := by
  simp [eraseDenied, eraseObj, eraseInSel, eraseEntry, thruQuals, eraseKeys, dropKeys, deniedKeys, keptKeys, deniedKey,
    keptKey, isDenied, wCtx, wOp, wSchema, wWith, wWithout, Schema.defaultScalars]

/-- **the instance**: with the denied keys present the payload is read SUCCESSFULLY at `ResponseData` (the struct the
    root `when` was denied from; its nested structs are the ones `when` / `since` were denied from), and the result is
    the one of the payload without them -/
theorem w_instance :
    (Serde.de wEnv (.path "ResponseData") wWith).toOption.isSome = true ∧
    Serde.de wEnv (.path "ResponseData") wWith = Serde.de wEnv (.path "ResponseData") wWithout := by
  refine ⟨by decide +kernel, ?_⟩
  rw [← w_erase]
  exact denied_field_payload_same' wCtx 0 wOp wItems rfl w_class w_gen w_moduleOk wWith

/-- what is read (both payloads), in a printable form (`Val` has no `DecidableEq`) -/
example : (Serde.de wEnv (.path "ResponseData") wWith).toOption.map showVal =
      some "{animal:Some({name:Some(\"Rex\"),owner:Some({id:\"7\",}),friends:Some([{name:Some(\"Tom\"),},{name:(),},]),}),}" ∧
    (Serde.de wEnv (.path "ResponseData") wWithout).toOption.map showVal =
      some "{animal:Some({name:Some(\"Rex\"),owner:Some({id:\"7\",}),friends:Some([{name:Some(\"Tom\"),},{name:(),},]),}),}" := by
  decide +kernel

/-! ### `denied_field_keyFree` at the four structs -/

theorem w_keyFree_root : KeyFree wEnv "when" "ResponseData" :=
  (denied_field_keyFree wCtx 0 wOp wItems rfl w_class w_gen w_names (.here _ _ _)
    (a := none) (fid := 6) (sub := []) (sf := wSchema.fields[6]) (by simp [wOp]) rfl rfl rfl (by decide +kernel)).2

theorem w_node_animal : Node wCtx "ResponseData" "Q" wOp.sels "Qanimal" "Qanimal"
    [.typename, .field none 1 [], .field none 2 [], .field none 3 [.field none 4 [], .field none 7 []],
     .field none 5 [.field none 1 [], .field none 2 []]] :=
  .step (a := none) (fid := 0) (sf := wSchema.fields[0]) (i := 1) (by simp [wOp]) rfl rfl (.here _ _ _)

theorem w_keyFree_animal : KeyFree wEnv "when" "Qanimal" :=
  (denied_field_keyFree wCtx 0 wOp wItems rfl w_class w_gen w_names w_node_animal
    (a := none) (fid := 2) (sub := []) (sf := wSchema.fields[2]) (by simp) rfl rfl rfl (by decide +kernel)).2

theorem w_node_owner : Node wCtx "ResponseData" "Q" wOp.sels "Qanimalowner" "Qanimalowner"
    [.field none 4 [], .field none 7 []] :=
  .step (a := none) (fid := 0) (sf := wSchema.fields[0]) (i := 1)
    (sub := [.typename, .field none 1 [], .field none 2 [], .field none 3 [.field none 4 [], .field none 7 []],
      .field none 5 [.field none 1 [], .field none 2 []]]) (by simp [wOp]) rfl rfl
    (.step (a := none) (fid := 3) (sub := [.field none 4 [], .field none 7 []]) (sf := wSchema.fields[3]) (i := 2)
      (by simp) rfl rfl (.here _ _ _))

theorem w_keyFree_owner : KeyFree wEnv "since" "Qanimalowner" :=
  (denied_field_keyFree wCtx 0 wOp wItems rfl w_class w_gen w_names w_node_owner
    (a := none) (fid := 7) (sub := []) (sf := wSchema.fields[7]) (by simp) rfl rfl rfl (by decide +kernel)).2

theorem w_node_friends : Node wCtx "ResponseData" "Q" wOp.sels "Qanimalfriends" "Qanimalfriends"
    [.field none 1 [], .field none 2 []] :=
  .step (a := none) (fid := 0) (sf := wSchema.fields[0]) (i := 1)
    (sub := [.typename, .field none 1 [], .field none 2 [], .field none 3 [.field none 4 [], .field none 7 []],
      .field none 5 [.field none 1 [], .field none 2 []]]) (by simp [wOp]) rfl rfl
    (.step (a := none) (fid := 5) (sub := [.field none 1 [], .field none 2 []]) (sf := wSchema.fields[5]) (i := 1)
      (by simp) rfl rfl (.here _ _ _))

theorem w_keyFree_friends : KeyFree wEnv "when" "Qanimalfriends" :=
  (denied_field_keyFree wCtx 0 wOp wItems rfl w_class w_gen w_names w_node_friends
    (a := none) (fid := 2) (sub := []) (sf := wSchema.fields[2]) (by simp) rfl rfl rfl (by decide +kernel)).2

/-- the decidable checker agrees (and the global sufficient condition fails for `name` / `id`, which `ResponseData`
    does not read) -/
example : keyFreeCheck wEnv "when" "ResponseData" = true ∧ keyFreeCheck wEnv "when" "Qanimal" = true ∧
    keyFreeCheck wEnv "since" "Qanimalowner" = true ∧ keyFreeCheck wEnv "name" "ResponseData" = true ∧
    keyFreeCheck wEnv "name" "Qanimal" = false ∧ wItems.all (itemOK "name") = false := by decide +kernel

/-! ### the side condition "not the key of a kept sibling" is needed -/

/-- `query Q { animal { when: name  when } }` -/
def sOp : ROperation :=
  { name := "Q", kind := .query, objectId := 0,
    sels := [.field none 0 [.field (some "when") 1 [], .field none 2 []]] }

def sCtx : Ctx := { s := wSchema, q := { operations := [sOp] }, o := { deprecation := .deny }, cs := ⟨id, id⟩ }

def sItems : List Item := (responseForQuery sCtx 0).toOption.getD []

def sEnv : Env := moduleEnv sCtx sItems

theorem sibling_key_matters :
    TreeOpD sCtx sOp = true ∧ responseForQuery sCtx 0 = .ok sItems ∧ EnumSpec.nodup (sItems.map (·.name)) = true ∧
    -- the denied key is the key of a kept sibling
    "when" ∈ deniedKeys sCtx [.field (some "when") 1 [], .field none 2 []] ∧
    "when" ∈ keptKeys sCtx [.field (some "when") 1 [], .field none 2 []] ∧
    -- it is read
    ¬ KeyFree sEnv "when" "Qanimal" ∧
    (Serde.de sEnv (.path "ResponseData") (.obj [("animal", .obj [("when", .str "Rex")])])).toOption.map showVal =
      some "{animal:Some({when:Some(\"Rex\"),}),}" ∧
    (Serde.de sEnv (.path "ResponseData") (.obj [("animal", .obj [])])).toOption.map showVal =
      some "{animal:Some({when:(),}),}" ∧
    Serde.de sEnv (.path "ResponseData") (.obj [("animal", .obj [("when", .str "Rex")])]) ≠
      Serde.de sEnv (.path "ResponseData") (.obj [("animal", .obj [])]) ∧
    -- and the eraser leaves it alone
    eraseDenied sCtx sOp (.obj [("animal", .obj [("when", .str "Rex")])]) = .obj [("animal", .obj [("when", .str "Rex")])] := by
  refine ⟨by decide +kernel, except_ok_of_isSome (by decide +kernel), by decide +kernel, by decide +kernel, by decide +kernel,
    ?_, by decide +kernel, by decide +kernel, ?_, ?_⟩
  · intro h
    have := (keyFreeCheck_iff sEnv "when" "Qanimal").mpr h
    exact absurd this (by decide +kernel)
  · intro h
    have := congrArg (fun r => r.toOption.map showVal) h
    exact absurd this (by decide +kernel)
  · simp [eraseDenied, eraseObj, eraseInSel, eraseEntry, thruQuals, eraseKeys, dropKeys, deniedKeys, keptKeys, deniedKey,
      keptKey, isDenied, sCtx, sOp, wSchema, Schema.defaultScalars]

/-! ### model behaviour worth knowing: the struct of a denied object-typed field is still emitted -/

/-- `type Query { old: Person @deprecated  me: Person }  type Person { id: ID! }`, `query Q { old { id } me { id } }` -/
def dSchema : Schema :=
  { objects := [{ name := "Query", fields := [0, 2], implements := [] }, { name := "Person", fields := [1], implements := [] }],
    fields := [{ name := "old", ty := { id := .object 1, quals := [] }, parent := .object 0, deprecation := some none },
               { name := "id", ty := { id := .scalar 0, quals := [.required] }, parent := .object 1, deprecation := none },
               { name := "me", ty := { id := .object 1, quals := [] }, parent := .object 0, deprecation := none }],
    scalars := Schema.defaultScalars }

def dOp : ROperation :=
  { name := "Q", kind := .query, objectId := 0, sels := [.field none 0 [.field none 1 []], .field none 2 [.field none 1 []]] }

def dCtx : Ctx := { s := dSchema, q := { operations := [dOp] }, o := { deprecation := .deny }, cs := ⟨id, id⟩ }

/-- under `deny` the member `old` is gone from `ResponseData`, but the struct `Qold` of its sub-selection is emitted all the
    same (`calculate_selection` pushes the nested type before `ExpandedField::render` drops the field): dead code in the
    generated module.  `structItemsD` / `tree_items_shapeD` describe exactly this. -/
theorem dead_struct_emitted :
    TreeOpD dCtx dOp = true ∧
    ((responseForQuery dCtx 0).toOption.getD []).filterMap
        (fun | .struct n _ _ fs => some (n, fs.map (·.wire)) | _ => none) =
      [("ResponseData", ["me"]), ("Qold", ["id"]), ("Qme", ["id"])] ∧
    (Scope.mentions ((responseForQuery dCtx 0).toOption.getD [])).contains "Qold" = false ∧
    (Scope.mentions ((responseForQuery dCtx 0).toOption.getD [])).contains "Qme" = true := by
  decide +kernel

end Witness
end C14G
end GqlVerif
