import GqlVerif.Proofs.C01AliasFragA
import GqlVerif.Proofs.C01AliasFragS
/-!
# C01 / C03 end to end (`AliasFragOp`), part C: what the emitted types accept, exactly (generic environment)

`C01NestedC` with `FragAcc.str` ("the fragment's name resolves to a STRUCT item") replaced by `FragAccA.mem`: read as a
flattened member, the fragment's name satisfies `MemSpec` (part S) — true of a struct item and of an alias chain to one.
The acceptance predicate `conformsLooseN`, the environment predicates `envSelN` / `BodyEnvN` and the key side conditions
`expKeysN` / `keysOkN` are those of `C01NestedC`, unchanged.

* **`bodyA_accepts_iff`** — for every large enough fuel, `dePath` on the emitted name succeeds iff `conformsLooseN`.
-/
set_option linter.unusedSimpArgs false
set_option linter.unusedVariables false
set_option linter.unusedSectionVars false
set_option linter.unnecessarySimpa false

namespace GqlVerif
namespace C01AF
open Serde Spec C13 C03 Codegen C01 C01.E2E C01M C01N

/-- **what the theorems need of a spread fragment**: read as a flattened member its name satisfies `MemSpec` from some
    fuel on (a struct item, or an alias chain to one); `dePath` accepts exactly `whole g` from some fuel on; entries with
    keys outside `KN` do not matter -/
structure FragAccA (e : Env) (c : Ctx) (whole : Nat → Bool → Json → Bool) (KN : String → List String) (g : Nat) : Prop where
  mem : ∃ N, ∀ fuel, N ≤ fuel → MemSpec e fuel (fragName c g) (KN (fragName c g))
  acc : ∃ N, ∀ fd, N ≤ fd → ∀ b j, okB (dePath e b fd (fragName c g) j) = whole g b j
  irr : ∀ L : List String, (∀ k ∈ L, k ∉ KN (fragName c g)) → ∀ b kvs,
    whole g b (.obj (kvs.filter (fun kv => !L.contains kv.1))) = whole g b (.obj kvs)

/-- a struct item gives `FragAccA` -/
theorem FragAccA.of_fragAcc {e : Env} {c : Ctx} {whole : Nat → Bool → Json → Bool} {KN : String → List String} {g : Nat}
    (fa : FragAcc e c whole KN g) : FragAccA e c whole KN g := by
  obtain ⟨n, d, cr, G, hnp, hfind, hG⟩ := fa.str
  exact ⟨⟨0, fun fuel _ => memSpec_struct e fuel _ n d cr G _ hnp hfind hG⟩, fa.acc, fa.irr⟩

/-! ## acceptance, exactly -/

section AccA
variable (e : Env) (c : Ctx) (ok : TypeId → Nat → Bool) (whole : Nat → Bool → Json → Bool) (KN : String → List String)
  (fenv : Nat → Prop) (hok : OkSpec c.q ok) (hfa : ∀ p g, ok p g = true → fenv g → FragAccA e c whole KN g)

include hok hfa in
/-- the flattened members: they satisfy `MemSpec`, irrelevance of other keys, and what they accept -/
theorem accMemA (pfx : String) (p : TypeId) : ∀ (sels : List Sel), nSels ok c.s c.q c.o p sels = true →
    envSelsN fenv e c pfx sels → ∃ N, ∀ fuel, N ≤ fuel →
    (∀ g ∈ fieldsOfF c pfx sels, g.flatten = true → MemberOkA e fuel (kOf KN g) g ∧
      (∀ L' : List String, (∀ k ∈ L', k ∉ kOf KN g) → ∀ kvs,
        okB (memV e fuel g (kvs.filter (fun kv => !L'.contains kv.1))) = okB (memV e fuel g kvs))) ∧
    (∀ kvs, ((fieldsOfF c pfx sels).filter (·.flatten)).all (fun g => okB (memV e fuel g kvs)) =
      looseMemN whole sels kvs)
  | [], _, _ => ⟨0, fun _ _ => ⟨by simp [fieldsOfF], fun _ => rfl⟩⟩
  | x :: xs, ht, henv => by
    obtain ⟨hx, hxs⟩ := nSels_cons ht
    rw [envSelsN] at henv
    obtain ⟨N, ih⟩ := accMemA pfx p xs hxs henv.2
    cases x with
    | field a fid sub =>
      obtain ⟨sf, ft, _, _, hf, _⟩ := fieldOfSelV_n pfx p a fid sub hx
      refine ⟨N, fun fuel hfuel => ?_⟩
      obtain ⟨i1, i2⟩ := ih fuel hfuel
      have hfs : fieldsOfF c pfx (.field a fid sub :: xs) =
          fieldOf c (a.getD sf.name) ft sf.ty.quals sf.deprecation :: fieldsOfF c pfx xs := by
        rw [fieldsOfF_cons, fieldOfSelF_field, hf]; rfl
      have hnf : (fieldOf c (a.getD sf.name) ft sf.ty.quals sf.deprecation).flatten = false := rfl
      rw [hfs]
      refine ⟨?_, fun kvs => ?_⟩
      · intro g hg hfl
        rcases List.mem_cons.mp hg with rfl | hg'
        · rw [hnf] at hfl; cases hfl
        · exact i1 g hg' hfl
      · simp only [List.filter_cons, hnf, Bool.false_eq_true, ↓reduceIte, i2 kvs, looseMemN]
    | spread g =>
      have hokg : ok p g = true := by simpa [nSel] using hx
      obtain ⟨fr, hfr, _⟩ := hok _ _ hokg
      have hname : fragName c g = fr.name := by simp [fragName, hfr]
      have hfg : fenv g := by have := henv.1; rwa [envSelN] at this
      have fa := hfa p g hokg hfg
      obtain ⟨Nm, hmem⟩ := fa.mem
      obtain ⟨Ng, hacc⟩ := fa.acc
      rw [hname] at hmem hacc
      have hirr := fa.irr
      rw [hname] at hirr
      have hfs : fieldsOfF c pfx (.spread g :: xs) = spreadField c fr :: fieldsOfF c pfx xs := by
        rw [fieldsOfF_cons]; simp [fieldOfSelF, hfr]
      have hfl' : (spreadField c fr).flatten = true := rfl
      have hmv : ∀ fuel kvs, memV e fuel (spreadField c fr) kvs = dePath e true (fuel + 1) fr.name (.obj kvs) :=
        fun fuel kvs => rfl
      refine ⟨max N (max Ng Nm), fun fuel hfuel => ?_⟩
      obtain ⟨i1, i2⟩ := ih fuel (by omega)
      rw [hfs]
      refine ⟨?_, fun kvs => ?_⟩
      · intro g' hg hfl
        rcases List.mem_cons.mp hg with rfl | hg'
        · refine ⟨⟨fr.name, rfl, hmem fuel (by omega)⟩, ?_⟩
          intro L' hL' kvs
          rw [hmv, hmv, hacc (fuel + 1) (by omega), hacc (fuel + 1) (by omega)]
          exact hirr L' hL' true kvs
        · exact i1 g' hg' hfl
      · simp only [List.filter_cons, hfl', ↓reduceIte, List.all_cons, i2 kvs, looseMemN, hmv,
          hacc (fuel + 1) (by omega)]
    | inline t sub => simp [nSel] at hx
    | typename =>
      refine ⟨N, fun fuel hfuel => ?_⟩
      have hfs : fieldsOfF c pfx (.typename :: xs) = fieldsOfF c pfx xs := by
        rw [fieldsOfF_cons]; simp [fieldOfSelF, fieldOfSelV]
      rw [hfs]
      exact ⟨(ih fuel hfuel).1, fun kvs => by rw [(ih fuel hfuel).2 kvs]; rfl⟩

def AccSelA (pfx : String) (x : Sel) : Prop :=
  ∀ p, nSel ok c.s c.q c.o p x = true → envSelN fenv e c pfx x → keysOkN KN c x = true →
    ∀ f, fieldOfSelV c pfx x = some f →
    ∃ N, ∀ b fd, N ≤ fd → ∀ v, okB (deFieldWith (dePath e b fd) f v) = looseFieldN whole c.s c.q c.o b x v

def AccSelsA (pfx : String) (sels : List Sel) : Prop :=
  ∀ p, nSels ok c.s c.q c.o p sels = true → envSelsN fenv e c pfx sels → keysOksN KN c sels = true →
    ∃ N, ∀ b fd, N ≤ fd →
    (∀ kvs, (fieldsOfV c pfx sels).all (fun f => decide (countKey f.wire kvs ≤ 1) &&
        okB (readField (dePath e b fd) f kvs)) = looseOwnN whole c.s c.q c.o b sels kvs) ∧
    (∀ xs, (decide ((fieldsOfV c pfx sels).length ≤ xs.length) &&
        ((fieldsOfV c pfx sels).zip xs).all (fun p => okB (deFieldWith (dePath e b fd) p.1 p.2))) =
          looseArrN whole c.s c.q c.o b sels xs)

include hok hfa in
/-- the struct of an object-level selection set (not a lone spread) accepts exactly `conformsLooseN` -/
theorem accStructA (pfx name : String) (p : TypeId) (sels : List Sel) (H : AccSelsA e c ok whole KN fenv pfx sels)
    (hnl : ∀ g, sels ≠ [Sel.spread g])
    (ht : nSels ok c.s c.q c.o p sels = true) (henv : envSelsN fenv e c pfx sels) (hko : keysOksN KN c sels = true)
    (hkeys : EnumSpec.nodup (expKeysN KN c sels) = true)
    (hs : StructEnv e name (fieldsOfF c pfx sels)) :
    ∃ N, ∀ b fd, N ≤ fd → ∀ j, okB (dePath e b fd name j) = conformsLooseN whole c.s c.q c.o b sels j := by
  obtain ⟨hp, _, n, d, cr, hfind⟩ := hs
  obtain ⟨N0, H0⟩ := H p ht henv hko
  obtain ⟨N1, H1⟩ := accMemA e c ok whole KN fenv hok hfa pfx p sels ht henv
  refine ⟨max N0 N1 + 2, fun b fd hfd j => ?_⟩
  obtain ⟨fd', rfl⟩ : ∃ k, fd = k + 2 := ⟨fd - 2, by omega⟩
  rw [conformsLooseN_not_lone hnl]
  have hown := own_fieldsOfN hok pfx p sels ht
  have hany := any_flatten_fieldsOfN hok pfx p sels ht
  have hpl := plain_fieldsOfV c pfx sels
  obtain ⟨A1, A2⟩ := H0 b (fd' + 1) (by omega)
  rw [dePath_struct e b (fd' + 1) name n d cr _ hp hfind]
  cases hsp : sels.any isSpread
  · -- no spread: a plain struct
    have hplain : fieldsOfF c pfx sels = fieldsOfV c pfx sels := by
      rw [← hown]
      symm
      rw [List.filter_eq_self]
      intro f hf
      rw [hsp] at hany
      have := List.any_eq_false.mp hany f hf
      simpa using this
    rw [hplain]
    cases j with
    | obj kvs =>
      rw [deStruct_obj, deStructMap_plain _ _ _ _ hpl, okB_map, okB_deOwn' _ _ _ hpl, A1]
      simp [looseMemN_nospread whole kvs sels hsp]
    | arr xs =>
      simp only [deStructWith, any_flatten_of_plain hpl, Bool.false_eq_true, ↓reduceIte, Bool.not_false, Bool.true_and]
      rw [← A2 xs]
      by_cases hlen : xs.length < (fieldsOfV c pfx sels).length
      · have : ¬ ((fieldsOfV c pfx sels).length ≤ xs.length) := by omega
        simp [hlen, this, okB, bad]
      · have : (fieldsOfV c pfx sels).length ≤ xs.length := by omega
        simp only [hlen, ↓reduceIte, okB_map, okB_mapM, this, decide_true, Bool.true_and]
        congr 1; funext p
        cases deFieldWith (dePath e b (fd' + 1)) p.1 p.2 <;> rfl
    | null => rfl
    | bool _ => rfl
    | int _ => rfl
    | num _ => rfl
    | str _ => rfl
  · -- flattened members
    rw [hsp] at hany
    obtain ⟨M1, M2⟩ := H1 fd' (by omega)
    obtain ⟨_, _, h3, h4⟩ := flat_hypsN hok KN pfx p sels ht (nodup_iff'.mp hkeys)
    cases j with
    | obj kvs =>
      rw [deStruct_obj, okB_deStructMapA e fd' _ _ kvs (kOf KN) hany (fun g hg hf => (M1 g hg hf).1)
        (fun g hg hf k hk hkK => h3 g hg hf k hkK hk)
        (fun g hg hf L' hL' => (M1 g hg hf).2 L' hL' kvs) h4, hown, okB_deOwn' _ _ _ hpl, A1 kvs, M2 kvs]
    | arr xs => simp only [deStructWith, hany, ↓reduceIte]; rfl
    | null => rfl
    | bool _ => rfl
    | int _ => rfl
    | num _ => rfl
    | str _ => rfl

include hfa in
/-- a lone spread: the alias of the fragment struct accepts what the fragment struct accepts -/
theorem accAliasA (name : String) (p : TypeId) (g : Nat) (hokg : ok p g = true)
    (ha : AliasEnv e name (fragName c g)) (hf : fenv g) :
    ∃ N, ∀ b fd, N ≤ fd → ∀ j, okB (dePath e b fd name j) = whole g b j := by
  obtain ⟨Ng, hacc⟩ := (hfa p g hokg hf).acc
  obtain ⟨hp, _, n, pub, hfind⟩ := ha
  refine ⟨Ng + 1, fun b fd hfd j => ?_⟩
  obtain ⟨fd', rfl⟩ : ∃ k, fd = k + 1 := ⟨fd - 1, by omega⟩
  have : dePath e b (fd' + 1) name j = dePath e b fd' (fragName c g) j := by
    rw [dePath]; simp only [dePrim_none hp, hfind, deTyWith]
  rw [this]
  exact hacc fd' (by omega) b j

mutual
  theorem accSelA : ∀ (x : Sel) (pfx : String), OkSpec c.q ok →
      (∀ p g, ok p g = true → fenv g → FragAccA e c whole KN g) → AccSelA e c ok whole KN fenv pfx x
    | .field a fid sub, pfx => by
      intro hok hfa p ht henv hko f hf
      have IH := accSelsA sub
      obtain ⟨sf, ft, hsf, _, hf', hw⟩ := fieldOfSelV_n pfx p a fid sub ht
      by_cases hobj : ∃ i, sf.ty.id = .object i
      · obtain ⟨i, hid⟩ := hobj
        have hwf : wf (gtyOf sf.ty.quals) = true := by rw [wf_gtyOf]; exact hw
        obtain ⟨_, _, hobjs, hbody⟩ := nSel_obj hsf hid ht
        have henv := envSelN_obj hsf hid henv
        have hko := keysOkN_obj hsf hid hko
        simp only [fieldOfSelV, hsf, leafNameV, hid, Option.some.injEq] at hf
        subst hf
        have hleaf : ∃ N, ∀ b fd, N ≤ fd → ∀ j, okB (dePath e b fd (pfx ++ c.cs.camel (a.getD sf.name)) j) =
            conformsLooseN whole c.s c.q c.o b sub j := by
          by_cases hsp : ∃ g, sub = [Sel.spread g]
          · obtain ⟨g, rfl⟩ := hsp
            unfold BodyEnvN at henv
            simp only at henv
            exact accAliasA e c ok whole KN fenv hfa _ (.object i) g hbody henv.1 henv.2
          · have hnl : ∀ g, sub ≠ [Sel.spread g] := fun g hg => hsp ⟨g, hg⟩
            have henv' := bodyEnvN_not_lone hnl henv
            rw [nBody_not_lone hnl] at hbody
            exact accStructA e c ok whole KN fenv hok hfa _ _ (.object i) sub (IH _ hok hfa) hnl hbody henv'.2 hko.2
              hko.1 henv'.1
        have hID : pfx ++ c.cs.camel (a.getD sf.name) ≠ "ID" := by
          unfold BodyEnvN at henv
          split at henv
          · exact henv.1.2.1
          · exact henv.1.2.1
        obtain ⟨N, hN⟩ := hleaf
        refine ⟨N, fun b fd hfd v => ?_⟩
        rw [looseFieldN]
        simp only [hsf, hid]
        cases hk : c.s.objects[i]? with
        | none => simp [hk] at hobjs
        | some ob =>
          simp only []
          rw [looseLambdaN, deField_plain _ _ _ _ hID]
          exact (ok_iff_accepts _ _ (conformsLooseN whole c.s c.q c.o b sub) (hN b fd hfd) _ hwf).2 v
      · -- scalar / enum / abstract: as in `VariantSpreadOp`
        have hno : ∀ i, sf.ty.id ≠ .object i := fun i h => hobj ⟨i, h⟩
        refine ⟨2 * depthF c.q (.field a fid sub) + 1, fun b fd hfd v => ?_⟩
        rw [looseFieldN_nonobj hsf hno]
        exact accSelS e c _ pfx false (nSel_nonobj hsf hno ht) (envSelN_nonobj hsf hno henv) f hf b fd hfd v
    | .spread g, pfx => by intro _ _ _ _ _ _ f hf; cases hf
    | .inline t sub, pfx => by intro _ _ _ _ _ _ f hf; cases hf
    | .typename, pfx => by intro _ _ _ _ _ _ f hf; cases hf
  theorem accSelsA : ∀ (sels : List Sel) (pfx : String), OkSpec c.q ok →
      (∀ p g, ok p g = true → fenv g → FragAccA e c whole KN g) → AccSelsA e c ok whole KN fenv pfx sels
    | [], pfx => by
      intro _ _ _ _ _ _
      exact ⟨0, fun b fd _ => ⟨fun kvs => by simp [fieldsOfV, looseOwnN], fun xs => by simp [fieldsOfV, looseArrN]⟩⟩
    | x :: xs, pfx => by
      intro hok hfa p ht henv hko
      obtain ⟨hx, hxs⟩ := nSels_cons ht
      rw [envSelsN] at henv
      rw [keysOksN, Bool.and_eq_true] at hko
      obtain ⟨N2, I⟩ := accSelsA xs pfx hok hfa p hxs henv.2 hko.2
      have IX := accSelA x pfx hok hfa p hx henv.1 hko.1
      cases x with
      | field a fid sub =>
        obtain ⟨sf, ft, hsf, _, hf, hw⟩ := fieldOfSelV_n pfx p a fid sub hx
        obtain ⟨N1, IXf⟩ := IX _ hf
        have hfs := fieldsOfV_cons_field c pfx _ xs _ hf
        refine ⟨max N1 N2, fun b fd hfd => ?_⟩
        obtain ⟨I1, I2⟩ := I b fd (by omega)
        have IXf := IXf b fd (by omega)
        refine ⟨fun kvs => ?_, fun vs => ?_⟩
        · rw [hfs, List.all_cons, I1 kvs, looseOwnN.eq_2]
          simp only [hsf, fieldOf_wire, readField]
          cases hl : Json.lookup (a.getD sf.name) kvs with
          | none => simp only [missing_fieldOf]
          | some v => simp only [IXf v]
        · rw [hfs]
          cases vs with
          | nil => rw [looseArrN.eq_2]; simp
          | cons v vs' =>
            rw [looseArrN.eq_3]
            simp only [List.length_cons, List.zip_cons_cons, List.all_cons, IXf v, ← I2 vs',
              Nat.add_le_add_iff_right]
            cases looseFieldN whole c.s c.q c.o b (.field a fid sub) v <;> simp
      | spread g =>
        have hfs := fieldsOfV_cons_none c pfx (.spread g) xs rfl
        refine ⟨N2, fun b fd hfd => ?_⟩
        obtain ⟨I1, I2⟩ := I b fd hfd
        refine ⟨fun kvs => ?_, fun vs => ?_⟩
        · rw [hfs, I1 kvs]; simp [looseOwnN]
        · rw [hfs, I2 vs]; simp [looseArrN]
      | inline t sub => simp [nSel] at hx
      | typename =>
        have hfs := fieldsOfV_cons_none c pfx .typename xs rfl
        refine ⟨N2, fun b fd hfd => ?_⟩
        obtain ⟨I1, I2⟩ := I b fd hfd
        refine ⟨fun kvs => ?_, fun vs => ?_⟩
        · rw [hfs, I1 kvs]; simp [looseOwnN]
        · rw [hfs, I2 vs]; simp [looseArrN]
end

include hok hfa in
/-- **the type emitted for an object-level selection set accepts exactly `conformsLooseN`** (from some fuel on) -/
theorem bodyA_accepts_iff (pfx name : String) (p : TypeId) (sels : List Sel)
    (ht : nBody ok c.s c.q c.o p sels = true) (henv : BodyEnvN fenv e c name pfx sels)
    (hko : keysOksN KN c sels = true) (hkeys : EnumSpec.nodup (expKeysN KN c sels) = true) :
    ∃ N, ∀ b fd, N ≤ fd → ∀ j, okB (dePath e b fd name j) = conformsLooseN whole c.s c.q c.o b sels j := by
  by_cases hsp : ∃ g, sels = [Sel.spread g]
  · obtain ⟨g, rfl⟩ := hsp
    unfold BodyEnvN at henv
    simp only at henv
    exact accAliasA e c ok whole KN fenv hfa _ p g ht henv.1 henv.2
  · have hnl : ∀ g, sels ≠ [Sel.spread g] := fun g hg => hsp ⟨g, hg⟩
    have henv' := bodyEnvN_not_lone hnl henv
    rw [nBody_not_lone hnl] at ht
    exact accStructA e c ok whole KN fenv hok hfa pfx name p sels (accSelsA e c ok whole KN fenv sels pfx hok hfa) hnl ht
      henv'.2 hko hkeys henv'.1

end AccA

end C01AF
end GqlVerif
