import GqlVerif.Proofs.C01NestedJ
/-!
# C01 end to end (`NestedOp`), part L: on `MixedOp` the side conditions are those of `C01Mixed*`

* `nestedKeysOk_of_mixed` — `mixedKeysOk → nestedKeysOk` (fragment names pairwise distinct);
* `nestedRustOk_of_mixed` — `mixedRustOk → nestedRustOk`;
* **`nested_roundtrip_on_M`** — `nested_roundtrip` restricted to `MixedOp` is the statement of `mixed_roundtrip`.
-/
set_option linter.unusedSimpArgs false
set_option linter.unusedVariables false
set_option linter.unusedSectionVars false
set_option linter.unnecessarySimpa false

namespace GqlVerif
namespace C01N
open Serde Spec C13 C03 Codegen C01 C01.E2E C01M

/-- a spread-free fragment keeps its rank-`0` keys and side conditions at every rank -/
theorem rank0_stable_side (c : Ctx) (hnd : fragNamesOk c = true) {p : TypeId} {g : Nat} {fr : RFragment}
    (hfr : c.q.fragments[g]? = some fr) (h : fragOk c.s c.q c.o p g = true) : ∀ r,
    KNn c r fr.name = fieldKeys c.s fr.sels ∧ fragSideN c r g = true ∧ rustSideN c r g = rustOkFrag c g
  | 0 => by
    have hid : idOf c.q fr.name = g := idOf_name hnd hfr
    have hsels : fragSels c.q g = fr.sels := by simp [fragSels, hfr]
    exact ⟨by rw [KNn, hid, hsels], by rw [fragSideN], by rw [rustSideN]⟩
  | r + 1 => by
    obtain ⟨f, hf, hon, _⟩ := fragOk_parts h
    rw [hfr] at hf; cases hf
    have hid : idOf c.q fr.name = g := idOf_name hnd hfr
    have hfon : fragOn c.q g = p := by simp [fragOn, hfr, hon]
    have hr : fragOkN c.s c.q c.o r p g = true := fragOkN_zero h
    obtain ⟨i1, i2, i3⟩ := rank0_stable_side c hnd hfr h r
    exact ⟨by rw [KNn, hid, hfon, if_pos hr, i1], by rw [fragSideN, hfon, if_pos hr, i2],
      by rw [rustSideN, hfon, if_pos hr, i3]⟩

theorem mSels_of_mBody {s : Schema} {q : Query} {o : Options} {p : TypeId} {sels : List Sel}
    (h : mBody s q o p sels = true) : mSels s q o p sels = true := by
  by_cases hsp : ∃ g, sels = [Sel.spread g]
  · obtain ⟨g, rfl⟩ := hsp
    have : fragOk s q o p g = true := h
    simp [mSels, mSel, this]
  · have hnl : ∀ g, sels ≠ [Sel.spread g] := fun g hg => hsp ⟨g, hg⟩
    rw [mBody_not_lone hnl] at h; exact h

theorem expKeysN_eq_M (c : Ctx) (hnd : fragNamesOk c = true) (r : Nat) (p : TypeId) : ∀ (sels : List Sel),
    mSels c.s c.q c.o p sels = true → expKeysN (KNn c r) c sels = expKeys c.s c.q sels
  | [], _ => rfl
  | x :: xs, ht => by
    obtain ⟨hx, hxs⟩ := mSels_cons ht
    have ih := expKeysN_eq_M c hnd r p xs hxs
    cases x with
    | field a fid sub => cases hsf : c.s.fields[fid]? <;> simp [expKeysN, expKeys, ih, hsf]
    | spread g =>
      have hok : fragOk c.s c.q c.o p g = true := by simpa [mSel] using hx
      obtain ⟨fr, hfr, _⟩ := fragOk_parts hok
      have hname : fragName c g = fr.name := by simp [fragName, hfr]
      have hsels : fragSels c.q g = fr.sels := by simp [fragSels, hfr]
      simp only [expKeysN, expKeys, ih, hname, hsels, (rank0_stable_side c hnd hfr hok r).1]
    | inline t sub => simp [mSel] at hx
    | typename => simp only [expKeysN, expKeys, ih]

mutual
  theorem keysOkN_eq_M (c : Ctx) (hnd : fragNamesOk c = true) (r : Nat) : ∀ (x : Sel) (p : TypeId),
      mSel c.s c.q c.o p x = true → keysOkN (KNn c r) c x = keysOkM c.s c.q x
    | .field a fid sub, p => by
      intro ht
      have IH := keysOksN_eq_M c hnd r sub
      obtain ⟨sf, hsf⟩ := mSel_field_some ht
      rw [keysOkN, keysOkM]
      simp only [hsf, Option.map_some]
      cases hid : sf.ty.id with
      | object i =>
        obtain ⟨_, _, _, hbody⟩ := mSel_obj hsf hid ht
        have hm := mSels_of_mBody hbody
        simp only [expKeysN_eq_M c hnd r _ sub hm, IH _ hm]
      | scalar k => rfl
      | «enum» k => rfl
      | interface k => rfl
      | union k => rfl
      | input k => rfl
    | .spread g, _ => by intro _; rfl
    | .inline _ _, _ => by intro _; rfl
    | .typename, _ => by intro _; rfl
  theorem keysOksN_eq_M (c : Ctx) (hnd : fragNamesOk c = true) (r : Nat) : ∀ (sels : List Sel) (p : TypeId),
      mSels c.s c.q c.o p sels = true → keysOksN (KNn c r) c sels = keysOksM c.s c.q sels
    | [], _ => by intro _; rfl
    | x :: xs, p => by
      intro ht
      obtain ⟨hx, hxs⟩ := mSels_cons ht
      rw [keysOksN, keysOksM, keysOkN_eq_M c hnd r x p hx, keysOksN_eq_M c hnd r xs p hxs]
end

mutual
  /-- the spreads at object positions of a selection set of `MixedOp` are `fragOk` -/
  theorem objSpreads_fragOk (s : Schema) (q : Query) (o : Options) : ∀ (x : Sel) (p : TypeId),
      mSel s q o p x = true → ∀ g ∈ objSpreads s x, ∃ p', fragOk s q o p' g = true
    | .field a fid sub, p => by
      intro ht g hg
      have IH := objSpreadss_fragOk s q o sub
      obtain ⟨sf, hsf⟩ := mSel_field_some ht
      rw [objSpreads] at hg
      simp only [hsf] at hg
      cases hid : sf.ty.id with
      | object i =>
        obtain ⟨_, _, _, hbody⟩ := mSel_obj hsf hid ht
        simp only [hid] at hg
        exact IH _ (mSels_of_mBody hbody) g hg
      | scalar k => simp [hid] at hg
      | «enum» k => simp [hid] at hg
      | interface k => simp [hid] at hg
      | union k => simp [hid] at hg
      | input k => simp [hid] at hg
    | .spread g', p => by
      intro ht g hg
      simp only [objSpreads, List.mem_singleton] at hg
      subst hg
      exact ⟨p, by simpa [mSel] using ht⟩
    | .inline _ _, _ => by intro ht; simp [mSel] at ht
    | .typename, _ => by intro _ g hg; simp [objSpreads] at hg
  theorem objSpreadss_fragOk (s : Schema) (q : Query) (o : Options) : ∀ (sels : List Sel) (p : TypeId),
      mSels s q o p sels = true → ∀ g ∈ objSpreadss s sels, ∃ p', fragOk s q o p' g = true
    | [], _ => by intro _ g hg; simp [objSpreadss] at hg
    | x :: xs, p => by
      intro ht g hg
      obtain ⟨hx, hxs⟩ := mSels_cons ht
      rw [objSpreadss, List.mem_append] at hg
      rcases hg with hg | hg
      · exact objSpreads_fragOk s q o x p hx g hg
      · exact objSpreadss_fragOk s q o xs p hxs g hg
end

/-- **on `MixedOp`, `mixedKeysOk` gives `nestedKeysOk`** -/
theorem nestedKeysOk_of_mixed (c : Ctx) (op : ROperation) (h : MixedOp c op = true) (hnd : fragNamesOk c = true)
    (hk : mixedKeysOk c op = true) : nestedKeysOk c op = true := by
  obtain ⟨_, _, hb⟩ := mixedOp_parts h
  have hm := mSels_of_mBody hb
  simp only [mixedKeysOk, Bool.and_eq_true] at hk
  simp only [nestedKeysOk, Bool.and_eq_true, List.all_eq_true]
  refine ⟨⟨?_, ?_⟩, ?_⟩
  · rw [keysOksN_eq_M c hnd _ op.sels _ hm]; exact hk.1
  · rw [expKeysN_eq_M c hnd _ _ op.sels hm]; exact hk.2
  · intro g hg
    obtain ⟨p', hok⟩ := objSpreadss_fragOk c.s c.q c.o op.sels _ hm g hg
    obtain ⟨fr, hfr, _⟩ := fragOk_parts hok
    exact (rank0_stable_side c hnd hfr hok _).2.1

mutual
  theorem rustOkSelN_of_M (c : Ctx) : ∀ (x : Sel), rustOkSelM c x = true →
      rustOkSelN c x = true ∧ ∀ g ∈ objSpreads c.s x, rustOkFrag c g = true
    | .field a fid sub => by
      intro h
      have IH := rustOkSelsN_of_M c sub
      unfold rustOkSelM at h
      unfold rustOkSelN
      rw [objSpreads]
      cases hsf : c.s.fields[fid]? with
      | none => simp only [hsf, Option.map_none] at h ⊢; exact ⟨h, fun g hg => by cases hg⟩
      | some sf =>
        simp only [hsf, Option.map_some] at h ⊢
        cases hid : sf.ty.id with
        | object i =>
          simp only [hid] at h ⊢
          by_cases hsp : ∃ g, sub = [Sel.spread g]
          · obtain ⟨g, rfl⟩ := hsp
            have h' : rustOkFrag c g = true := h
            refine ⟨rfl, fun g' hg' => ?_⟩
            simp only [objSpreadss, objSpreads, List.append_nil, List.mem_singleton] at hg'
            subst hg'; exact h'
          · have hnl : ∀ g, sub ≠ [Sel.spread g] := fun g hg => hsp ⟨g, hg⟩
            have h' : (EnumSpec.nodup (rustNamesF c sub) && rustOkSelsM c sub) = true := by
              revert h; split
              · exact fun _ => absurd rfl (hnl _)
              · exact id
            rw [Bool.and_eq_true] at h'
            obtain ⟨i1, i2⟩ := IH h'.2
            refine ⟨?_, i2⟩
            split
            · exact absurd rfl (hnl _)
            · simp [h'.1, i1]
        | scalar k => simp only [hid] at h ⊢; exact ⟨h, fun g hg => by cases hg⟩
        | «enum» k => simp only [hid] at h ⊢; exact ⟨h, fun g hg => by cases hg⟩
        | interface k => simp only [hid] at h ⊢; exact ⟨h, fun g hg => by cases hg⟩
        | union k => simp only [hid] at h ⊢; exact ⟨h, fun g hg => by cases hg⟩
        | input k => simp only [hid] at h ⊢; exact ⟨h, fun g hg => by cases hg⟩
    | .spread g => by
      intro h
      have h' : rustOkFrag c g = true := by simpa [rustOkSelM] using h
      refine ⟨by simp [rustOkSelN], fun g' hg' => ?_⟩
      simp only [objSpreads, List.mem_singleton] at hg'
      subst hg'; exact h'
    | .inline _ _ => by intro _; exact ⟨by simp [rustOkSelN], fun g hg => by simp [objSpreads] at hg⟩
    | .typename => by intro _; exact ⟨by simp [rustOkSelN], fun g hg => by simp [objSpreads] at hg⟩
  theorem rustOkSelsN_of_M (c : Ctx) : ∀ (sels : List Sel), rustOkSelsM c sels = true →
      rustOkSelsN c sels = true ∧ ∀ g ∈ objSpreadss c.s sels, rustOkFrag c g = true
    | [] => by intro _; exact ⟨rfl, fun g hg => by simp [objSpreadss] at hg⟩
    | x :: xs => by
      intro h
      rw [rustOkSelsM, Bool.and_eq_true] at h
      obtain ⟨a1, a2⟩ := rustOkSelN_of_M c x h.1
      obtain ⟨b1, b2⟩ := rustOkSelsN_of_M c xs h.2
      refine ⟨by rw [rustOkSelsN, a1, b1]; rfl, fun g hg => ?_⟩
      rw [objSpreadss, List.mem_append] at hg
      rcases hg with hg | hg
      · exact a2 g hg
      · exact b2 g hg
end

/-- **on `MixedOp`, `mixedRustOk` gives `nestedRustOk`** -/
theorem nestedRustOk_of_mixed (c : Ctx) (op : ROperation) (h : MixedOp c op = true) (hnd : fragNamesOk c = true)
    (hr : mixedRustOk c op = true) : nestedRustOk c op = true := by
  obtain ⟨_, _, hb⟩ := mixedOp_parts h
  have hm := mSels_of_mBody hb
  simp only [mixedRustOk, Bool.and_eq_true] at hr
  obtain ⟨a1, a2⟩ := rustOkSelsN_of_M c op.sels hr.1
  simp only [nestedRustOk, Bool.and_eq_true, List.all_eq_true]
  refine ⟨⟨a1, hr.2⟩, ?_⟩
  intro g hg
  obtain ⟨p', hok⟩ := objSpreadss_fragOk c.s c.q c.o op.sels _ hm g hg
  obtain ⟨fr, hfr, _⟩ := fragOk_parts hok
  rw [(rank0_stable_side c hnd hfr hok _).2.2]
  exact a2 g hg

/-- **on `MixedOp`, `nested_roundtrip` is the statement of `mixed_roundtrip`** (hypotheses and conclusion) -/
theorem nested_roundtrip_on_M (c : Ctx) (opIdx : Nat) (op : ROperation) (items : List Item)
    (hop : c.q.operations[opIdx]? = some op) (ht : MixedOp c op = true) (hnd : fragNamesOk c = true)
    (hk : mixedKeysOk c op = true) (hr : mixedRustOk c op = true)
    (hgen : responseForQuery c opIdx = .ok items) (hok : moduleOk c items = true)
    (j : Json) (hc : conformsOpM c op j = true) :
    Serde.roundtrip (moduleEnv c items) (.path "ResponseData") j =
      .ok (normJson (canonSelM c.s c.q c.o.skipNone op.sels j)) := by
  rw [← canonSelN_eq_M c op ht j]
  exact nested_roundtrip c opIdx op items hop (nestedOp_of_mixedOp c op ht) hnd (nestedKeysOk_of_mixed c op ht hnd hk)
    (nestedRustOk_of_mixed c op ht hnd hr) hgen hok j (by rw [conformsOpN_eq_M c op ht]; exact hc)

end C01N
end GqlVerif
