import GqlVerif.Proofs.C01NestedA
/-!
# C01 end to end: type-alias fragments that are themselves spread (`AliasFragOp`), part A: class, closed form

`NestedOp` (C01NestedA..W) lets the body of a fragment spread at an object position spread further fragments, but the
body must not be a LONE spread (`fragNew … !isLone f.sels`): for `fragment Mid on Dog { ...Inner }` the generator emits
`type Mid = Inner;`, and a struct that spreads `...Mid` gets `#[serde(flatten)] mid: Mid` — a flattened member whose type is
an ALIAS of a struct.  `AliasFragOp` lifts that restriction:

* `fragNewA ok …` — as `fragNew`, but the body is an `nBody` (a lone spread of an allowed fragment on the same type, or an
  `nSels` selection set);
* `fragOkA s q o r parent g` — rank-indexed as `fragOkN`: rank `0` is `fragOk` (spread-free body), rank `r + 1` adds
  `fragNewA (fragOkA r)`.  A chain of alias hops `A = B = C …` descends in rank, so it ends in a fragment with a non-lone
  body (rank `0` is spread-free), and the spread graph is acyclic by construction;
* `AliasFragOp c op` (decidable): the root selection set is an `nBody` over the fragments of rank `c.q.fragments.length`.

Proved here: **`aliasfrag_items_shape`**, **`aliasfrag_fragment_shape`** (a type alias if the body is a lone spread),
**`aliasFragOp_of_nestedOp`** (`NestedOp ⊆ AliasFragOp`).

Parts: A class / closed form, S serde (alias chains; flattened members abstractly), C exact acceptance (parametric),
D rank recursion + `top_accepts_iffA`, K acyclicity from the class, E the emitted module + `aliasfrag_precise_iff`,
W instance.
-/
set_option linter.unusedSimpArgs false
set_option linter.unusedVariables false
set_option linter.unusedSectionVars false

namespace GqlVerif
namespace C01AF
open Serde Spec C13 C03 Codegen C01 C01.E2E C01M C01N

/-- the fragment `g` is on `parent`, not named `ID`, not flagged recursive (no `Box`), and its body is a lone spread of an
    allowed fragment (a type alias) or an object-level selection set whose spreads satisfy `ok` -/
def fragNewA (ok : TypeId → Nat → Bool) (s : Schema) (q : Query) (o : Options) (parent : TypeId) (g : Nat) : Bool :=
  match q.fragments[g]? with
  | some f => f.on == parent && f.name != "ID" && !fragmentIsRecursive q g && nBody ok s q o f.on f.sels
  | none => false

/-- **fragments that may be spread at an object position, by rank** (lone-spread bodies allowed from rank `1` on) -/
def fragOkA (s : Schema) (q : Query) (o : Options) : Nat → TypeId → Nat → Bool
  | 0, p, g => fragOk s q o p g
  | r + 1, p, g => fragOkA s q o r p g || fragNewA (fragOkA s q o r) s q o p g

/-- **the class `AliasFragOp`** (decidable) -/
def AliasFragOp (c : Ctx) (op : ROperation) : Bool :=
  c.o.normalization == .none && (c.s.objects[op.objectId]?).isSome &&
  nBody (fragOkA c.s c.q c.o c.q.fragments.length) c.s c.q c.o (.object op.objectId) op.sels

theorem fragOkA_succ {s : Schema} {q : Query} {o : Options} {r : Nat} {p : TypeId} {g : Nat}
    (h : fragOkA s q o r p g = true) : fragOkA s q o (r + 1) p g = true := by
  rw [fragOkA, h]; rfl

theorem fragOkA_le {s : Schema} {q : Query} {o : Options} {r r' : Nat} (hle : r ≤ r') {p : TypeId} {g : Nat}
    (h : fragOkA s q o r p g = true) : fragOkA s q o r' p g = true := by
  induction hle with
  | refl => exact h
  | step _ ih => exact fragOkA_succ ih

theorem fragOkA_zero {s : Schema} {q : Query} {o : Options} {r : Nat} {p : TypeId} {g : Nat}
    (h : fragOk s q o p g = true) : fragOkA s q o r p g = true :=
  fragOkA_le (Nat.zero_le r) (by rw [fragOkA]; exact h)

theorem fragOkA_cases {s : Schema} {q : Query} {o : Options} : ∀ {r : Nat} {p : TypeId} {g : Nat},
    fragOkA s q o r p g = true → fragOk s q o p g = true ∨ ∃ r', r' < r ∧ fragNewA (fragOkA s q o r') s q o p g = true
  | 0, p, g, h => .inl (by rw [fragOkA] at h; exact h)
  | r + 1, p, g, h => by
    rw [fragOkA, Bool.or_eq_true] at h
    rcases h with h | h
    · rcases fragOkA_cases h with h' | ⟨r', hr', h'⟩
      · exact .inl h'
      · exact .inr ⟨r', by omega, h'⟩
    · exact .inr ⟨r, by omega, h⟩

theorem fragNewA_parts {ok : TypeId → Nat → Bool} {s : Schema} {q : Query} {o : Options} {p : TypeId} {g : Nat}
    (h : fragNewA ok s q o p g = true) :
    ∃ f, q.fragments[g]? = some f ∧ f.on = p ∧ f.name ≠ "ID" ∧ fragmentIsRecursive q g = false ∧
      nBody ok s q o f.on f.sels = true := by
  unfold fragNewA at h
  cases hf : q.fragments[g]? with
  | none => simp [hf] at h
  | some f =>
    simp only [hf, Bool.and_eq_true, beq_iff_eq, bne_iff_ne, Bool.not_eq_true'] at h
    exact ⟨f, rfl, h.1.1.1, h.1.1.2, h.1.2, h.2⟩

theorem fragOkA_spec (s : Schema) (q : Query) (o : Options) (r : Nat) : OkSpec q (fragOkA s q o r) := by
  intro p g h
  rcases fragOkA_cases h with h' | ⟨r', _, h'⟩
  · obtain ⟨f, hf, hon, hname, _, _⟩ := fragOk_parts h'
    exact ⟨f, hf, hon, hname, not_recursive_of_fragOk h'⟩
  · obtain ⟨f, hf, hon, hname, hrec, _⟩ := fragNewA_parts h'
    exact ⟨f, hf, hon, hname, hrec⟩

theorem aliasFragOp_parts {c : Ctx} {op : ROperation} (h : AliasFragOp c op = true) :
    c.o.normalization = .none ∧ (c.s.objects[op.objectId]?).isSome = true ∧
      nBody (fragOkA c.s c.q c.o c.q.fragments.length) c.s c.q c.o (.object op.objectId) op.sels = true := by
  simp only [AliasFragOp, Bool.and_eq_true, beq_iff_eq] at h
  exact ⟨h.1.1, h.1.2, h.2⟩

/-- the items of an object-level selection set of the class (any rank), anywhere in the document -/
theorem body_items_shapeA (c : Ctx) (hn : c.o.normalization = .none) (r : Nat) (name pfx : String) (i : Nat)
    (sels : List Sel) (hD : selsDepth sels ≤ C02.maxDepth c.q) (hS : selsSize sels ≤ C02.totalSize c.q)
    (ht : nBody (fragOkA c.s c.q c.o r) c.s c.q c.o (.object i) sels = true) :
    calcSelection c (calcFuel c.s c.q) name pfx (.object i) sels = .ok (bodyItemsM c name pfx sels) :=
  (calc_nested c hn (C02.totalSize c.q) (c.s.objects.length + C02.maxUnion c.s) _ (fragOkA_spec c.s c.q c.o r)
    (C02.variants_length_le c.s) (calcFuel c.s c.q)).1 name pfx i sels (C02.maxDepth c.q) hD hS (calcFuel_Sb c) ht

/-- **Theorem 1 (`aliasfrag_items_shape`).**  For an operation of the class `AliasFragOp` the response items are, in closed
    form, those of `nested_items_shape` / `mixed_items_shape` (`bodyItemsM` never looks into a fragment body) -/
theorem aliasfrag_items_shape (c : Ctx) (op : ROperation) (hop : op ∈ c.q.operations) (ht : AliasFragOp c op = true) :
    responseItems c op = .ok (bodyItemsM c "ResponseData" (c.cs.camel op.name) op.sels) := by
  obtain ⟨hn, _, hsels⟩ := aliasFragOp_parts ht
  apply body_items_shapeA c hn _ _ _ _ _ (C02.op_depth_le c.q op hop) _ hsels
  apply C02.le_foldl_add
  left
  simp only [List.mem_append, List.mem_map]
  exact .inr ⟨op, hop, rfl⟩

/-- **the items of a spread fragment of any rank**: `bodyItemsM` of its own body — **the type alias
    `type F = G;` if the body is the lone spread `...G`**, otherwise the struct with one flattened member per spread -/
theorem aliasfrag_fragment_shape (c : Ctx) (hn : c.o.normalization = .none) (r : Nat) (i g : Nat)
    (hok : fragOkA c.s c.q c.o r (.object i) g = true) :
    ∃ f, c.q.fragments[g]? = some f ∧ f.on = .object i ∧
      fragmentItems c g = .ok (bodyItemsM c f.name (c.cs.camel f.name) f.sels) := by
  have key : ∀ f, c.q.fragments[g]? = some f → f.on = .object i → ∀ r',
      nBody (fragOkA c.s c.q c.o r') c.s c.q c.o (.object i) f.sels = true →
      fragmentItems c g = .ok (bodyItemsM c f.name (c.cs.camel f.name) f.sels) := by
    intro f hf hon r' hb
    unfold fragmentItems
    simp only [getFragment_of hf, bind, Except.bind]
    have hmem : f ∈ c.q.fragments := List.mem_of_getElem? hf
    rw [hon]
    apply body_items_shapeA c hn r' _ _ _ _ (C02.frag_depth_le c.q f hmem) _ hb
    apply C02.le_foldl_add
    left
    simp only [List.mem_append, List.mem_map]
    exact .inl ⟨f, hmem, rfl⟩
  rcases fragOkA_cases hok with h' | ⟨r', _, h'⟩
  · obtain ⟨f, hf, hon, _, hv, _⟩ := fragOk_parts h'
    refine ⟨f, hf, hon, key f hf hon 0 ?_⟩
    have hm : mSels c.s c.q c.o (.object i) f.sels = true :=
      mSels_of_fSels c.s c.q c.o f.sels _ (fSels_of_vSels c.s c.q c.o f.sels _ hv)
    have hnl : ∀ g', f.sels ≠ [Sel.spread g'] := by
      intro g' hg'
      have := noSpreads_of_vSels c.s c.o f.sels false hv
      rw [hg'] at this
      simp [noSpreads, noSpread] at this
    rw [nBody_not_lone hnl]
    have : fragOkA c.s c.q c.o 0 = fragOk c.s c.q c.o := by funext p g'; rw [fragOkA]
    rw [this, nSels_fragOk]
    exact hm
  · obtain ⟨f, hf, hon, _, _, hb⟩ := fragNewA_parts h'
    rw [hon] at hb
    exact ⟨f, hf, hon, key f hf hon r' hb⟩

/-! ## `NestedOp ⊆ AliasFragOp` -/

theorem fragOkA_of_fragOkN (s : Schema) (q : Query) (o : Options) : ∀ (r : Nat) (p : TypeId) (g : Nat),
    fragOkN s q o r p g = true → fragOkA s q o r p g = true
  | 0, p, g, h => by rw [fragOkN] at h; rw [fragOkA]; exact h
  | r + 1, p, g, h => by
    rw [fragOkN, Bool.or_eq_true] at h
    rw [fragOkA, Bool.or_eq_true]
    rcases h with h | h
    · exact .inl (fragOkA_of_fragOkN s q o r p g h)
    · right
      obtain ⟨f, hf, hon, hname, hrec, hnl, hb⟩ := fragNew_parts h
      unfold fragNewA
      simp only [hf, hon, beq_self_eq_true, hrec, Bool.not_false, Bool.and_true, Bool.true_and, Bool.and_eq_true,
        bne_iff_ne]
      refine ⟨hname, ?_⟩
      rw [nBody_not_lone hnl, ← hon]
      exact nSels_mono (fun p' g' hg' => fragOkA_of_fragOkN s q o r p' g' hg') s q o f.sels f.on hb

/-- **`NestedOp ⊆ AliasFragOp`** -/
theorem aliasFragOp_of_nestedOp (c : Ctx) (op : ROperation) (h : NestedOp c op = true) : AliasFragOp c op = true := by
  obtain ⟨hn, ho, hb⟩ := nestedOp_parts h
  simp only [AliasFragOp, Bool.and_eq_true, beq_iff_eq]
  exact ⟨⟨hn, ho⟩, nBody_mono (fun p g hg => fragOkA_of_fragOkN c.s c.q c.o _ p g hg) hb⟩

/-- on `NestedOp` the closed form is the same (it is the same function) -/
theorem aliasfrag_items_eq_N (c : Ctx) (op : ROperation) (hop : op ∈ c.q.operations) (h : NestedOp c op = true) :
    responseItems c op = .ok (bodyItemsM c "ResponseData" (c.cs.camel op.name) op.sels) :=
  aliasfrag_items_shape c op hop (aliasFragOp_of_nestedOp c op h)

end C01AF
end GqlVerif
