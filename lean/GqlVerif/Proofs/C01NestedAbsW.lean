import GqlVerif.Proofs.C01NestedAbsJ
/-!
# C01 end to end (`NestedAbsOp`), part W: the instance of the task, all hypotheses evaluated

Schema `mxSchema` (`interface Animal { name }`, `type Dog implements Animal { name barks }`, `type Cat implements Animal
{ name lives }`, `type Query { dog animal }`);

    fragment Inner on Dog { barks }
    fragment Outer on Dog { name ...Inner }
    query Q { animal { __typename ... on Dog { ...Outer } } }

* the operation is in `NestedAbsOp` and in none of `NestedOp`, `NestedOp1`, `MixedOp2`, `MixedOp`, `VariantSpreadOp2`,
  `VariantSpreadOp`, `FragmentOp`, `VariantOp`; the model generates its module (`na_gen`);
* the emitted types: `enum Qanimal { Dog(QanimalOnDog), Cat }` tagged by `__typename`, `type QanimalOnDog = Outer`,
  `struct Outer { name, #[serde(flatten)] Inner }`, `struct Inner { barks }` (`na_items_shape`);
* every hypothesis of `nestedabs_accepts` / `nestedabs_precise_iff` / `nestedabs_roundtrip` by `decide +kernel`;
* `na_roundtrip` — the payload with `__typename: "Dog"` is accepted and written back as the tag entry, `Outer`'s own entry
  `name`, then `Inner`'s entry `barks`; `na_roundtrip_cat` — a unit variant; rejected payloads through `na_precise`;
* the same with the direct spread `animal { __typename ...Outer }` (`nb…`);
* `nc…`: two fragments selected on `Dog` (`... on Dog { ...Wrap } ...NameF`): the variant struct with two flattened members,
  one of them with a flattened member of its own; round trip through `nestedabs_roundtrip`;
* `nestedabs_tag_needed`, `nestedabs_variant_keys_needed`: the new side conditions (`absTagOk`; key disjointness per possible
  type in `nestedAbsKeysOk`) are necessary — conforming responses the emitted types reject.
-/
set_option linter.unusedSimpArgs false
set_option linter.unusedVariables false
set_option linter.unusedSectionVars false
set_option linter.unnecessarySimpa false

namespace GqlVerif
namespace C01NA
open Serde Spec C13 C03 Codegen C01 C01.E2E C01M C01N

def naOp (animal : List Sel) : ROperation :=
  { name := "Q", kind := .query, objectId := 0, sels := [.field none 1 animal] }

def naQuery (animal : List Sel) : Query :=
  { operations := [naOp animal]
    fragments := [{ name := "Inner", on := .object 1, sels := [.field none 3 []] },
                  { name := "Outer", on := .object 1, sels := [.field none 2 [], .spread 0] }] }

def naCtx (animal : List Sel) : Ctx := { s := mxSchema, q := naQuery animal, o := {}, cs := ⟨id, id⟩ }

/-- `animal { __typename ... on Dog { ...Outer } }` -/
def naAnimal : List Sel := [.typename, .inline (.object 1) [.spread 1]]
/-- `animal { __typename ...Outer }` -/
def nbAnimal : List Sel := [.typename, .spread 1]

def naItems : List Item := okOr (responseForQuery (naCtx naAnimal) 0)
def nbItems : List Item := okOr (responseForQuery (naCtx nbAnimal) 0)

theorem na_gen : responseForQuery (naCtx naAnimal) 0 = .ok naItems := gen_of_isOk (by decide +kernel)
theorem nb_gen : responseForQuery (naCtx nbAnimal) 0 = .ok nbItems := gen_of_isOk (by decide +kernel)

theorem na_class : NestedAbsOp (naCtx naAnimal) (naOp naAnimal) = true := by decide +kernel
theorem nb_class : NestedAbsOp (naCtx nbAnimal) (naOp nbAnimal) = true := by decide +kernel

/-! the operation is in none of the earlier classes -/
theorem na_not_N : NestedOp (naCtx naAnimal) (naOp naAnimal) = false := by decide +kernel
theorem na_not_N1 : NestedOp1 (naCtx naAnimal) (naOp naAnimal) = false := by decide +kernel
theorem na_not_M2 : MixedOp2 (naCtx naAnimal) (naOp naAnimal) = false := by decide +kernel
theorem na_not_M : MixedOp (naCtx naAnimal) (naOp naAnimal) = false := by decide +kernel
theorem na_not_S2 : VariantSpreadOp2 (naCtx naAnimal) (naOp naAnimal) = false := by decide +kernel
theorem na_not_S : VariantSpreadOp (naCtx naAnimal) (naOp naAnimal) = false := by decide +kernel
theorem na_not_F : FragmentOp (naCtx naAnimal) (naOp naAnimal) = false := by decide +kernel
theorem na_not_V : VariantOp (naCtx naAnimal) (naOp naAnimal) = false := by decide +kernel
theorem nb_not_N : NestedOp (naCtx nbAnimal) (naOp nbAnimal) = false := by decide +kernel
theorem nb_not_M2 : MixedOp2 (naCtx nbAnimal) (naOp nbAnimal) = false := by decide +kernel
theorem nb_not_S2 : VariantSpreadOp2 (naCtx nbAnimal) (naOp nbAnimal) = false := by decide +kernel

/-! the side conditions -/
theorem na_names : fragNamesOk (naCtx naAnimal) = true := by decide +kernel
theorem na_keys : nestedAbsKeysOk (naCtx naAnimal) (naOp naAnimal) = true := by decide +kernel
theorem na_tag : absTagOk (naCtx naAnimal) (naOp naAnimal) = true := by decide +kernel
theorem na_side : nestedAbsSideOk (naCtx naAnimal) (naOp naAnimal) = true := by decide +kernel
theorem na_ok : moduleOk (naCtx naAnimal) naItems = true := by decide +kernel
theorem nb_names : fragNamesOk (naCtx nbAnimal) = true := by decide +kernel
theorem nb_keys : nestedAbsKeysOk (naCtx nbAnimal) (naOp nbAnimal) = true := by decide +kernel
theorem nb_tag : absTagOk (naCtx nbAnimal) (naOp nbAnimal) = true := by decide +kernel
theorem nb_side : nestedAbsSideOk (naCtx nbAnimal) (naOp nbAnimal) = true := by decide +kernel
theorem nb_ok : moduleOk (naCtx nbAnimal) nbItems = true := by decide +kernel

/-- `nestedabs_items_shape` on the instance -/
theorem na_items :
    responseItems (naCtx naAnimal) (naOp naAnimal) =
      .ok (bodyItemsA (naCtx naAnimal) "ResponseData" "Q" (naOp naAnimal).sels) :=
  nestedabs_items_shape _ _ (by simp [naCtx, naQuery]) na_class

/-- the emitted types -/
theorem na_items_shape :
    ((moduleEnv (naCtx naAnimal) naItems).find "Qanimal" ==
      some (.tagged "Qanimal" ["Deserialize"] (some "::serde") "__typename"
        [{ name := "Dog", payload := some (.path "QanimalOnDog") }, { name := "Cat" }])) &&
    ((moduleEnv (naCtx naAnimal) naItems).find "QanimalOnDog" == some (.alias "QanimalOnDog" true (.path "Outer"))) &&
    ((moduleEnv (naCtx naAnimal) naItems).find "Outer" ==
      some (.struct "Outer" ["Deserialize"] (some "::serde")
        [{ rust := "name", ty := .path "String" },
         { rust := "Inner", ty := .path "Inner", flatten := true }])) &&
    ((moduleEnv (naCtx naAnimal) naItems).find "Inner" ==
      some (.struct "Inner" ["Deserialize"] (some "::serde")
        [{ rust := "barks", ty := .opt (.path "Boolean") }])) = true := by
  decide +kernel

/-- C03 on the module: what `ResponseData` accepts, exactly -/
theorem na_precise (j : Json) :
    okB (Serde.de (moduleEnv (naCtx naAnimal) naItems) (.path "ResponseData") j) =
      conformsLooseA (wholeN (naCtx naAnimal) 2) mxSchema (naQuery naAnimal) {} false (naOp naAnimal).sels j :=
  nestedabs_precise_iff (naCtx naAnimal) 0 (naOp naAnimal) naItems rfl na_class na_names na_keys na_gen na_ok j

def naJson : Json :=
  .obj [("animal", .obj [("barks", .bool true), ("__typename", .str "Dog"), ("name", .str "Rex")])]

def naJsonCat : Json :=
  .obj [("animal", .obj [("__typename", .str "Cat")])]

macro "confA_eval" : tactic => `(tactic|
  simp [conformsOpN, naCtx, naOp, naQuery, expandSelsW, expandSelW, exN, expandSel, expandSels, conformsV, confSelsV,
    confSelV, keysSelsV, keysSelV,
    fragApplies, rtName, mxSchema, Json.lookup, accepts, acceptsNN, gtyOf, scalarOk, floatOk, stringOk, boolOk,
    Json.isNull, EnumSpec.nodup, List.range, List.range.loop, conformsAt, Schema.implementors, List.zipIdx])

set_option maxRecDepth 8000 in
theorem na_conforms : conformsOpN (naCtx naAnimal) (naOp naAnimal) naJson = true := by
  simp only [naAnimal, naJson]; confA_eval
set_option maxRecDepth 8000 in
theorem na_conforms_cat : conformsOpN (naCtx naAnimal) (naOp naAnimal) naJsonCat = true := by
  simp only [naAnimal, naJsonCat]; confA_eval
set_option maxRecDepth 8000 in
theorem nb_conforms : conformsOpN (naCtx nbAnimal) (naOp nbAnimal) naJson = true := by
  simp only [nbAnimal, naJson]; confA_eval

/-- `nestedabs_accepts` on the instance -/
theorem na_accepts : ∃ v, Serde.de (moduleEnv (naCtx naAnimal) naItems) (.path "ResponseData") naJson = .ok v :=
  nestedabs_accepts (naCtx naAnimal) 0 (naOp naAnimal) naItems rfl na_class na_names na_keys na_tag na_gen na_ok naJson
    na_conforms

/-- `nestedabs_roundtrip` on the instance, the canonical form still symbolic -/
theorem na_roundtrip_canon :
    Serde.roundtrip (moduleEnv (naCtx naAnimal) naItems) (.path "ResponseData") naJson =
      .ok (normJson (canonSelA (centN (naCtx naAnimal) 2) mxSchema (naQuery naAnimal) {} (naOp naAnimal).sels naJson)) :=
  nestedabs_roundtrip (naCtx naAnimal) 0 (naOp naAnimal) naItems rfl na_class na_names na_keys na_tag na_side na_gen na_ok
    naJson na_conforms

abbrev CA : Ctx := naCtx naAnimal
abbrev CB : Ctx := naCtx nbAnimal

/-- `Outer` (fragment 1) is new at rank `1`: its body spreads the spread-free `Inner` -/
theorem na_r1 : fragOkN CA.s CA.q CA.o 1 (fragOn CA.q 1) 1 = true := by decide +kernel
theorem na_r0 : fragOkN CA.s CA.q CA.o 0 (fragOn CA.q 1) 1 = false := by decide +kernel
theorem nb_r1 : fragOkN CB.s CB.q CB.o 1 (fragOn CB.q 1) 1 = true := by decide +kernel
theorem nb_r0 : fragOkN CB.s CB.q CB.o 0 (fragOn CB.q 1) 1 = false := by decide +kernel
/-- the field `animal` is not a field of `VariantSpreadOp` -/
theorem na_old : sSel mxSchema (naQuery naAnimal) {} false (.field none 1 naAnimal) = false := by decide +kernel
theorem nb_old : sSel mxSchema (naQuery nbAnimal) {} false (.field none 1 nbAnimal) = false := by decide +kernel

/-- the entries `Outer` writes: its own entry `name`, then the entries of `Inner` -/
theorem na_cent (kvs : List (String × Json)) :
    centN CA 2 1 kvs = canonEntriesN (fun g kvs => canonEntriesV CA.s CA.o.skipNone (fragSels CA.q g) kvs) CA.s CA.q
      CA.o.skipNone (fragSels CA.q 1) kvs := by
  rw [centN, if_pos na_r1, centN, if_neg (by rw [na_r0]; simp), centN_zero]
theorem nb_cent (kvs : List (String × Json)) :
    centN CB 2 1 kvs = canonEntriesN (fun g kvs => canonEntriesV CB.s CB.o.skipNone (fragSels CB.q g) kvs) CB.s CB.q
      CB.o.skipNone (fragSels CB.q 1) kvs := by
  rw [centN, if_pos nb_r1, centN, if_neg (by rw [nb_r0]; simp), centN_zero]

/-- what the struct `Outer` accepts: its own field `name`, and `Inner` accepts the whole object -/
theorem na_whole (b : Bool) (j : Json) :
    wholeN CA 2 1 b j = conformsLooseN (fun g b j => conformsLooseV CA.s CA.o b (fragSels CA.q g) j) CA.s CA.q CA.o b
      (fragSels CA.q 1) j := by
  rw [wholeN, if_pos na_r1, wholeN, if_neg (by rw [na_r0]; simp)]
  congr 1

macro "canonA_eval" h:term : tactic => `(tactic|
  simp [$h:term, canonAbsA, canonTagA, memFrags, memSels, spreadId, aliasInl, List.filterMap_cons, mineOf, onVt, selOn, selFrag, vtsOfTy, Schema.implementors,
    canonSelN, canonEntriesN, canonFieldN, cwhole, naCtx, canonEntriesV, canonFieldV,
    canonSelM, canonEntriesM, canonFieldM, canonSelV, canonSelD, canonEntriesD, canonFieldD, loneG, canonEntriesBD,
    canonVarD, onNamed, absEntries, absRest, hasStruct, isBSpread, isFieldSel, canonAbsV, canonInlV, tagName,
    fragSels, naOp, naQuery, mxSchema, objName, rtName, fieldKeys, fieldKey, Json.lookup, canon, canonNN,
    gtyOf, Json.isNull, skipQ, normJson, normKvs, normList, Json.normObj, Json.insert, List.zipIdx])

macro "looseA_eval" h:term : tactic => `(tactic|
  simp [$h:term, looseAbsA, looseTagA, payA, memFrags, memSels, spreadId, aliasInl, List.filterMap_cons, mineOf, onVt, selOn, selFrag, tagOkV, vtsOfTy, Schema.implementors,
    looseMemN, conformsLooseN, looseOwnN, looseFieldN, looseFieldS, conformsLooseV, looseSelsV, looseFieldV, naCtx, naQuery,
    naOp, fragSels, mxSchema, objName, rtName, isFieldSel, fieldKeys, fieldKey,
    Json.lookup, accepts, acceptsNN, gtyOf, scalarOk, floatOk, stringOk, boolOk, Json.isNull, nullableQ, countKey, isSpread,
    List.zipIdx])

set_option maxRecDepth 8000 in
/-- the canonical form, evaluated (for any `cent` that writes for `Outer` what `centN` does) -/
theorem na_canon_abs (cent : Nat → List (String × Json) → List (String × Json))
    (h : ∀ kvs, cent 1 kvs = canonEntriesN (fun g kvs => canonEntriesV CA.s CA.o.skipNone (fragSels CA.q g) kvs) CA.s CA.q
      CA.o.skipNone (fragSels CA.q 1) kvs) :
    normJson (canonSelA cent mxSchema (naQuery naAnimal) {} (naOp naAnimal).sels naJson) =
      .obj [("animal", .obj [("__typename", .str "Dog"), ("name", .str "Rex"), ("barks", .bool true)])] := by
  have hold := na_old
  simp only [naAnimal, naJson, CA] at h hold ⊢
  simp only [canonSelA, canonEntriesA, canonFieldA, naOp, hold]
  canonA_eval h

set_option maxRecDepth 8000 in
theorem na_canon_cat (cent : Nat → List (String × Json) → List (String × Json)) :
    normJson (canonSelA cent mxSchema (naQuery naAnimal) {} (naOp naAnimal).sels naJsonCat) =
      .obj [("animal", .obj [("__typename", .str "Cat")])] := by
  have hold := na_old
  simp only [naAnimal, naJsonCat] at hold ⊢
  simp only [canonSelA, canonEntriesA, canonFieldA, naOp, hold]
  canonA_eval hold

set_option maxRecDepth 8000 in
theorem nb_canon_abs (cent : Nat → List (String × Json) → List (String × Json))
    (h : ∀ kvs, cent 1 kvs = canonEntriesN (fun g kvs => canonEntriesV CB.s CB.o.skipNone (fragSels CB.q g) kvs) CB.s CB.q
      CB.o.skipNone (fragSels CB.q 1) kvs) :
    normJson (canonSelA cent mxSchema (naQuery nbAnimal) {} (naOp nbAnimal).sels naJson) =
      .obj [("animal", .obj [("__typename", .str "Dog"), ("name", .str "Rex"), ("barks", .bool true)])] := by
  have hold := nb_old
  simp only [nbAnimal, naJson, CB] at h hold ⊢
  simp only [canonSelA, canonEntriesA, canonFieldA, naOp, hold]
  canonA_eval h

/-- **the concrete round trip**: the payload with `__typename: "Dog"` is accepted and written back — the tag entry, then
    `Outer`'s own entry `name`, then the entry `barks` of the fragment `Inner` spread in `Outer`'s body -/
theorem na_roundtrip :
    Serde.roundtrip (moduleEnv (naCtx naAnimal) naItems) (.path "ResponseData") naJson =
      .ok (.obj [("animal", .obj [("__typename", .str "Dog"), ("name", .str "Rex"), ("barks", .bool true)])]) := by
  rw [na_roundtrip_canon]
  exact congrArg Except.ok (na_canon_abs _ na_cent)

/-- … and the model agrees when evaluated directly -/
theorem na_roundtrip_eval :
    (match Serde.roundtrip (moduleEnv (naCtx naAnimal) naItems) (.path "ResponseData") naJson with
     | .ok (.obj [("animal", .obj [("__typename", .str "Dog"), ("name", .str "Rex"), ("barks", .bool true)])]) => true
     | _ => false) = true := by decide +kernel

/-- a possible type without selection: a unit variant, only the tag is written -/
theorem na_roundtrip_cat :
    Serde.roundtrip (moduleEnv (naCtx naAnimal) naItems) (.path "ResponseData") naJsonCat =
      .ok (.obj [("animal", .obj [("__typename", .str "Cat")])]) := by
  rw [nestedabs_roundtrip (naCtx naAnimal) 0 (naOp naAnimal) naItems rfl na_class na_names na_keys na_tag na_side na_gen
    na_ok naJsonCat na_conforms_cat]
  exact congrArg Except.ok (na_canon_cat _)

/-- the direct spread `animal { __typename ...Outer }`: same types, same round trip -/
theorem nb_roundtrip :
    Serde.roundtrip (moduleEnv (naCtx nbAnimal) nbItems) (.path "ResponseData") naJson =
      .ok (.obj [("animal", .obj [("__typename", .str "Dog"), ("name", .str "Rex"), ("barks", .bool true)])]) := by
  rw [nestedabs_roundtrip (naCtx nbAnimal) 0 (naOp nbAnimal) nbItems rfl nb_class nb_names nb_keys nb_tag nb_side nb_gen
    nb_ok naJson nb_conforms]
  exact congrArg Except.ok (nb_canon_abs _ nb_cent)

set_option maxRecDepth 8000 in
theorem na_loose_missing (whole : Nat → Bool → Json → Bool)
    (h : ∀ b j, whole 1 b j = conformsLooseN (fun g b j => conformsLooseV CA.s CA.o b (fragSels CA.q g) j) CA.s CA.q CA.o b
      (fragSels CA.q 1) j) :
    conformsLooseA whole mxSchema (naQuery naAnimal) {} false (naOp naAnimal).sels
      (.obj [("animal", .obj [("__typename", .str "Dog"), ("barks", .bool true)])]) = false := by
  have hold := na_old
  simp only [naAnimal, CA] at h hold ⊢
  simp only [conformsLooseA, looseOwnA, looseFieldA, naOp, hold]
  looseA_eval h

/-- rejected: the non-null `name` of `Outer` is missing -/
theorem na_rejects_missing : okB (Serde.de (moduleEnv (naCtx naAnimal) naItems) (.path "ResponseData")
    (.obj [("animal", .obj [("__typename", .str "Dog"), ("barks", .bool true)])])) = false := by
  rw [na_precise]; exact na_loose_missing _ na_whole

set_option maxRecDepth 8000 in
theorem na_loose_kind (whole : Nat → Bool → Json → Bool)
    (h : ∀ b j, whole 1 b j = conformsLooseN (fun g b j => conformsLooseV CA.s CA.o b (fragSels CA.q g) j) CA.s CA.q CA.o b
      (fragSels CA.q 1) j) :
    conformsLooseA whole mxSchema (naQuery naAnimal) {} false (naOp naAnimal).sels
      (.obj [("animal", .obj [("__typename", .str "Dog"), ("name", .str "Rex"), ("barks", .str "loud")])]) = false := by
  have hold := na_old
  simp only [naAnimal, CA] at h hold ⊢
  simp only [conformsLooseA, looseOwnA, looseFieldA, naOp, hold]
  looseA_eval h

/-- rejected: a wrong scalar kind under the key `barks`, selected two fragments deep -/
theorem na_rejects_kind : okB (Serde.de (moduleEnv (naCtx naAnimal) naItems) (.path "ResponseData")
    (.obj [("animal", .obj [("__typename", .str "Dog"), ("name", .str "Rex"), ("barks", .str "loud")])])) = false := by
  rw [na_precise]; exact na_loose_kind _ na_whole

set_option maxRecDepth 8000 in
theorem na_loose_untagged (whole : Nat → Bool → Json → Bool)
    (h : ∀ b j, whole 1 b j = conformsLooseN (fun g b j => conformsLooseV CA.s CA.o b (fragSels CA.q g) j) CA.s CA.q CA.o b
      (fragSels CA.q 1) j) :
    conformsLooseA whole mxSchema (naQuery naAnimal) {} false (naOp naAnimal).sels
      (.obj [("animal", .obj [("name", .str "Rex"), ("barks", .bool true)])]) = false := by
  have hold := na_old
  simp only [naAnimal, CA] at h hold ⊢
  simp only [conformsLooseA, looseOwnA, looseFieldA, naOp, hold]
  looseA_eval h

/-- rejected: no `__typename` -/
theorem na_rejects_untagged : okB (Serde.de (moduleEnv (naCtx naAnimal) naItems) (.path "ResponseData")
    (.obj [("animal", .obj [("name", .str "Rex"), ("barks", .bool true)])])) = false := by
  rw [na_precise]; exact na_loose_untagged _ na_whole

set_option maxRecDepth 8000 in
theorem na_loose_absent (whole : Nat → Bool → Json → Bool)
    (h : ∀ b j, whole 1 b j = conformsLooseN (fun g b j => conformsLooseV CA.s CA.o b (fragSels CA.q g) j) CA.s CA.q CA.o b
      (fragSels CA.q 1) j) :
    conformsLooseA whole mxSchema (naQuery naAnimal) {} false (naOp naAnimal).sels
      (.obj [("animal", .obj [("__typename", .str "Dog"), ("name", .str "Rex")])]) = true := by
  have hold := na_old
  simp only [naAnimal, CA] at h hold ⊢
  simp only [conformsLooseA, looseOwnA, looseFieldA, naOp, hold]
  looseA_eval h

/-- accepted: the nullable `barks` absent -/
theorem na_accepts_absent : okB (Serde.de (moduleEnv (naCtx naAnimal) naItems) (.path "ResponseData")
    (.obj [("animal", .obj [("__typename", .str "Dog"), ("name", .str "Rex")])])) = true := by
  rw [na_precise]; exact na_loose_absent _ na_whole


/-! ## several fragments selected on one possible type: the variant struct

    fragment Inner on Dog { barks }
    fragment Wrap  on Dog { __typename ...Inner }
    fragment NameF on Dog { name }
    query Q { animal { __typename ... on Dog { ...Wrap } ...NameF } }

`QanimalOnDog` is the struct `{ #[serde(flatten)] NameF, #[serde(flatten)] Wrap }` (the direct spread first, then the aliased
inline fragment), `Wrap` the struct `{ #[serde(flatten)] Inner }`: a flattened member of a variant struct with a flattened
member of its own. -/

def ncQuery (animal : List Sel) : Query :=
  { operations := [naOp animal]
    fragments := [{ name := "Inner", on := .object 1, sels := [.field none 3 []] },
                  { name := "Wrap", on := .object 1, sels := [.typename, .spread 0] },
                  { name := "NameF", on := .object 1, sels := [.field none 2 []] }] }

def ncCtx (animal : List Sel) : Ctx := { s := mxSchema, q := ncQuery animal, o := {}, cs := ⟨id, id⟩ }

def ncAnimal : List Sel := [.typename, .inline (.object 1) [.spread 1], .spread 2]

def ncItems : List Item := okOr (responseForQuery (ncCtx ncAnimal) 0)

theorem nc_gen : responseForQuery (ncCtx ncAnimal) 0 = .ok ncItems := gen_of_isOk (by decide +kernel)
theorem nc_class : NestedAbsOp (ncCtx ncAnimal) (naOp ncAnimal) = true := by decide +kernel
theorem nc_not_N : NestedOp (ncCtx ncAnimal) (naOp ncAnimal) = false := by decide +kernel
theorem nc_not_M2 : MixedOp2 (ncCtx ncAnimal) (naOp ncAnimal) = false := by decide +kernel
theorem nc_not_S2 : VariantSpreadOp2 (ncCtx ncAnimal) (naOp ncAnimal) = false := by decide +kernel
theorem nc_names : fragNamesOk (ncCtx ncAnimal) = true := by decide +kernel
theorem nc_keys : nestedAbsKeysOk (ncCtx ncAnimal) (naOp ncAnimal) = true := by decide +kernel
theorem nc_tag : absTagOk (ncCtx ncAnimal) (naOp ncAnimal) = true := by decide +kernel
theorem nc_side : nestedAbsSideOk (ncCtx ncAnimal) (naOp ncAnimal) = true := by decide +kernel
theorem nc_ok : moduleOk (ncCtx ncAnimal) ncItems = true := by decide +kernel

theorem nc_items_shape :
    ((moduleEnv (ncCtx ncAnimal) ncItems).find "QanimalOnDog" ==
      some (.struct "QanimalOnDog" ["Deserialize"] (some "::serde")
        [{ rust := "NameF", ty := .path "NameF", flatten := true },
         { rust := "Wrap", ty := .path "Wrap", flatten := true }])) &&
    ((moduleEnv (ncCtx ncAnimal) ncItems).find "Wrap" ==
      some (.struct "Wrap" ["Deserialize"] (some "::serde")
        [{ rust := "Inner", ty := .path "Inner", flatten := true }])) = true := by
  decide +kernel

set_option maxRecDepth 8000 in
theorem nc_conforms : conformsOpN (ncCtx ncAnimal) (naOp ncAnimal) naJson = true := by
  simp only [ncAnimal, naJson]
  simp [conformsOpN, ncCtx, naOp, ncQuery, expandSelsW, expandSelW, exN, expandSel, expandSels, conformsV, confSelsV,
    confSelV, keysSelsV, keysSelV,
    fragApplies, rtName, mxSchema, Json.lookup, accepts, acceptsNN, gtyOf, scalarOk, floatOk, stringOk, boolOk,
    Json.isNull, EnumSpec.nodup, List.range, List.range.loop, conformsAt, Schema.implementors, List.zipIdx]

/-- `nestedabs_roundtrip` on the module with a variant struct -/
theorem nc_roundtrip_canon :
    Serde.roundtrip (moduleEnv (ncCtx ncAnimal) ncItems) (.path "ResponseData") naJson =
      .ok (normJson (canonSelA (centN (ncCtx ncAnimal) 3) mxSchema (ncQuery ncAnimal) {} (naOp ncAnimal).sels naJson)) :=
  nestedabs_roundtrip (ncCtx ncAnimal) 0 (naOp ncAnimal) ncItems rfl nc_class nc_names nc_keys nc_tag nc_side nc_gen nc_ok
    naJson nc_conforms

/-- the model, evaluated: the tag entry, then `NameF`'s entry, then the entry of `Inner` spread in `Wrap`'s body -/
theorem nc_roundtrip_eval :
    (match Serde.roundtrip (moduleEnv (ncCtx ncAnimal) ncItems) (.path "ResponseData") naJson with
     | .ok (.obj [("animal", .obj [("__typename", .str "Dog"), ("name", .str "Rex"), ("barks", .bool true)])]) => true
     | _ => false) = true := by decide +kernel

/-- `nestedabs_accepts` on the module with a variant struct -/
theorem nc_accepts : ∃ v, Serde.de (moduleEnv (ncCtx ncAnimal) ncItems) (.path "ResponseData") naJson = .ok v :=
  nestedabs_accepts (ncCtx ncAnimal) 0 (naOp ncAnimal) ncItems rfl nc_class nc_names nc_keys nc_tag nc_gen nc_ok naJson
    nc_conforms

abbrev CC : Ctx := ncCtx ncAnimal
theorem nc_w2 : fragOkN CC.s CC.q CC.o 2 (fragOn CC.q 1) 1 = true := by decide +kernel
theorem nc_w1 : fragOkN CC.s CC.q CC.o 1 (fragOn CC.q 1) 1 = true := by decide +kernel
theorem nc_w0 : fragOkN CC.s CC.q CC.o 0 (fragOn CC.q 1) 1 = false := by decide +kernel
theorem nc_n2 : fragOkN CC.s CC.q CC.o 2 (fragOn CC.q 2) 2 = true := by decide +kernel
theorem nc_n1 : fragOkN CC.s CC.q CC.o 1 (fragOn CC.q 2) 2 = true := by decide +kernel
theorem nc_n0 : fragOkN CC.s CC.q CC.o 0 (fragOn CC.q 2) 2 = true := by decide +kernel
theorem nc_old : sSel mxSchema (ncQuery ncAnimal) {} false (.field none 1 ncAnimal) = false := by decide +kernel
theorem nc_cent1 (kvs : List (String × Json)) :
    centN CC 3 1 kvs = canonEntriesN (fun g kvs => canonEntriesV CC.s CC.o.skipNone (fragSels CC.q g) kvs) CC.s CC.q
      CC.o.skipNone (fragSels CC.q 1) kvs := by
  rw [centN, if_pos nc_w2, centN, if_pos nc_w1, centN, if_neg (by rw [nc_w0]; simp), centN_zero]
theorem nc_cent2 (kvs : List (String × Json)) :
    centN CC 3 2 kvs = canonEntriesV CC.s CC.o.skipNone (fragSels CC.q 2) kvs := by
  rw [centN, if_pos nc_n2, centN, if_pos nc_n1, centN, if_pos nc_n0, centN]
set_option maxRecDepth 8000 in
theorem nc_canon_abs (cent : Nat → List (String × Json) → List (String × Json))
    (h1 : ∀ kvs, cent 1 kvs = canonEntriesN (fun g kvs => canonEntriesV CC.s CC.o.skipNone (fragSels CC.q g) kvs) CC.s CC.q
      CC.o.skipNone (fragSels CC.q 1) kvs)
    (h2 : ∀ kvs, cent 2 kvs = canonEntriesV CC.s CC.o.skipNone (fragSels CC.q 2) kvs) :
    normJson (canonSelA cent mxSchema (ncQuery ncAnimal) {} (naOp ncAnimal).sels naJson) =
      .obj [("animal", .obj [("__typename", .str "Dog"), ("name", .str "Rex"), ("barks", .bool true)])] := by
  have hold := nc_old
  simp only [ncAnimal, naJson, CC] at h1 h2 hold ⊢
  simp only [canonSelA, canonEntriesA, canonFieldA, naOp, hold]
  simp [h1, h2, canonAbsA, canonTagA, memFrags, memSels, spreadId, aliasInl, List.filterMap_cons, mineOf, onVt, selOn, selFrag, vtsOfTy, Schema.implementors,
    canonSelN, canonEntriesN, canonFieldN, cwhole, ncCtx, canonEntriesV, canonFieldV,
    canonSelM, canonEntriesM, canonFieldM, canonSelV, canonSelD, canonEntriesD, canonFieldD, loneG, canonEntriesBD,
    canonVarD, onNamed, absEntries, absRest, hasStruct, isBSpread, isFieldSel, canonAbsV, canonInlV, tagName,
    fragSels, naOp, ncQuery, mxSchema, objName, rtName, fieldKeys, fieldKey, Json.lookup, canon, canonNN,
    gtyOf, Json.isNull, skipQ, normJson, normKvs, normList, Json.normObj, Json.insert, List.zipIdx]
/-- **`nestedabs_roundtrip` on the module with a variant struct, evaluated**: the tag entry, then `NameF`'s entry `name`,
    then the entry `barks` of `Inner`, spread in the body of `Wrap` -/
theorem nc_roundtrip :
    Serde.roundtrip (moduleEnv (ncCtx ncAnimal) ncItems) (.path "ResponseData") naJson =
      .ok (.obj [("animal", .obj [("__typename", .str "Dog"), ("name", .str "Rex"), ("barks", .bool true)])]) := by
  rw [nc_roundtrip_canon]
  exact congrArg Except.ok (nc_canon_abs _ nc_cent1 nc_cent2)


/-! ## the new side conditions are necessary -/

/-- `fragment Inner on Dog { barks }  fragment Tn on Dog { __typename: name ...Inner }`: the nested fragment reads the key
    `__typename` (through an alias) -/
def tnQuery (animal : List Sel) : Query :=
  { operations := [naOp animal]
    fragments := [{ name := "Inner", on := .object 1, sels := [.field none 3 []] },
                  { name := "Tn", on := .object 1, sels := [.field (some "__typename") 2 [], .spread 0] }] }

def tnCtx (animal : List Sel) : Ctx := { s := mxSchema, q := tnQuery animal, o := {}, cs := ⟨id, id⟩ }

def tnJson : Json := .obj [("animal", .obj [("__typename", .str "Dog"), ("barks", .null)])]

set_option maxRecDepth 8000 in
theorem tn_conforms : conformsOpN (tnCtx nbAnimal) (naOp nbAnimal) tnJson = true := by
  simp only [nbAnimal, tnJson]
  simp [conformsOpN, tnCtx, naOp, tnQuery, expandSelsW, expandSelW, exN, expandSel, expandSels, conformsV, confSelsV,
    confSelV, keysSelsV, keysSelV,
    fragApplies, rtName, mxSchema, Json.lookup, accepts, acceptsNN, gtyOf, scalarOk, floatOk, stringOk, boolOk,
    Json.isNull, EnumSpec.nodup, List.range, List.range.loop, conformsAt, Schema.implementors, List.zipIdx]

/-- **`nestedabs_accepts` is false without `absTagOk`**: `animal { __typename ...Tn }` is in the class, every other side
    condition holds, the module is generated, the response conforms — and the emitted `ResponseData` rejects it: the
    internally tagged enum consumes the `__typename` entry, the struct `Tn` then misses its field -/
theorem nestedabs_tag_needed :
    NestedAbsOp (tnCtx nbAnimal) (naOp nbAnimal) = true ∧ fragNamesOk (tnCtx nbAnimal) = true ∧
    nestedAbsKeysOk (tnCtx nbAnimal) (naOp nbAnimal) = true ∧ absTagOk (tnCtx nbAnimal) (naOp nbAnimal) = false ∧
    isOkO (responseForQuery (tnCtx nbAnimal) 0) = true ∧
    moduleOk (tnCtx nbAnimal) (okOr (responseForQuery (tnCtx nbAnimal) 0)) = true ∧
    conformsOpN (tnCtx nbAnimal) (naOp nbAnimal) tnJson = true ∧
    okB (Serde.de (moduleEnv (tnCtx nbAnimal) (okOr (responseForQuery (tnCtx nbAnimal) 0))) (.path "ResponseData")
      tnJson) = false :=
  ⟨by decide +kernel, by decide +kernel, by decide +kernel, by decide +kernel, by decide +kernel, by decide +kernel,
    tn_conforms, by decide +kernel⟩

/-- `animal { __typename ...NameF ...Outer }`, `NameF on Dog { name }`, `Outer on Dog { name ...Inner }`: the key `name` is
    read by two members of the variant struct -/
def ovQuery (animal : List Sel) : Query :=
  { operations := [naOp animal]
    fragments := [{ name := "Inner", on := .object 1, sels := [.field none 3 []] },
                  { name := "Outer", on := .object 1, sels := [.field none 2 [], .spread 0] },
                  { name := "NameF", on := .object 1, sels := [.field none 2 []] }] }

def ovCtx (animal : List Sel) : Ctx := { s := mxSchema, q := ovQuery animal, o := {}, cs := ⟨id, id⟩ }

def ovAnimal : List Sel := [.typename, .spread 2, .spread 1]

set_option maxRecDepth 8000 in
theorem ov_conforms : conformsOpN (ovCtx ovAnimal) (naOp ovAnimal) naJson = true := by
  simp only [ovAnimal, naJson]
  simp [conformsOpN, ovCtx, naOp, ovQuery, expandSelsW, expandSelW, exN, expandSel, expandSels, conformsV, confSelsV,
    confSelV, keysSelsV, keysSelV,
    fragApplies, rtName, mxSchema, Json.lookup, accepts, acceptsNN, gtyOf, scalarOk, floatOk, stringOk, boolOk,
    Json.isNull, EnumSpec.nodup, List.range, List.range.loop, conformsAt, Schema.implementors, List.zipIdx]

/-- **`nestedabs_accepts` is false without the key disjointness per possible type** (`keysOkA` at a position of the new
    kind): the plain member `NameF` takes the entry `name`, the member `Outer` then misses it (the mechanism of the known
    finding `C01-overlap`) -/
theorem nestedabs_variant_keys_needed :
    NestedAbsOp (ovCtx ovAnimal) (naOp ovAnimal) = true ∧ fragNamesOk (ovCtx ovAnimal) = true ∧
    absTagOk (ovCtx ovAnimal) (naOp ovAnimal) = true ∧ nestedAbsKeysOk (ovCtx ovAnimal) (naOp ovAnimal) = false ∧
    isOkO (responseForQuery (ovCtx ovAnimal) 0) = true ∧
    moduleOk (ovCtx ovAnimal) (okOr (responseForQuery (ovCtx ovAnimal) 0)) = true ∧
    conformsOpN (ovCtx ovAnimal) (naOp ovAnimal) naJson = true ∧
    okB (Serde.de (moduleEnv (ovCtx ovAnimal) (okOr (responseForQuery (ovCtx ovAnimal) 0))) (.path "ResponseData")
      naJson) = false :=
  ⟨by decide +kernel, by decide +kernel, by decide +kernel, by decide +kernel, by decide +kernel, by decide +kernel,
    ov_conforms, by decide +kernel⟩

end C01NA
end GqlVerif
