import GqlVerif.Proofs.ModuleOkInputsClasses
import GqlVerif.Proofs.C01RecursiveD
import GqlVerif.Proofs.C01VariantSpreadG
import GqlVerif.Proofs.C01DenyTreeLossless
import GqlVerif.Proofs.C01DenyTreeClass
import GqlVerif.Proofs.C01DenyFragLossless
import GqlVerif.Proofs.C01Rust
import GqlVerif.Proofs.C01RustSpread
/-!
# further end-to-end theorems with the side condition on the INPUT

The remaining classes (`RecFragmentOp`, `VariantSpreadOp2`, the deprecation classes `TreeOpD` / `TreeOpR` / `FragOpD`) and
the `normalization = rust` transfers (`*_rust`: there `moduleOk` is asked of the `none` context `c₀`, so `ModuleOkIn c₀`).
Every theorem is the one of the same name without `_inputs`, composed with `MOK.moduleOk_of_inputs`.
-/
set_option linter.unusedSectionVars false

namespace GqlVerif
namespace MOK
open Codegen C02 C01 C01.E2E C01M C03 Serde Spec C13 C01.Deny C14G

/-! ## `RecFragmentOp`, `VariantSpreadOp2` -/

theorem recfragment_roundtrip_inputs (c : Ctx) (opIdx : Nat) (op : ROperation) (items : List Item)
    (hop : c.q.operations[opIdx]? = some op) (ht : RecFragmentOp c op = true) (hk : recKeysOk c op = true)
    (hr : recRustOk c op = true)
    (hgen : responseForQuery c opIdx = .ok items) (hok : ModuleOkIn c opIdx = true)
    (j : Json) (k : Nat) (hkj : 2 * jsonSize j ≤ k) (hc : conformsOpR c op k j = true) :
    Serde.roundtrip (moduleEnv c items) (.path "ResponseData") j =
      .ok (canonR c.s c.q c.o.skipNone (jsonSize j) op.sels j) :=
  recfragment_roundtrip c opIdx op items hop ht hk hr hgen (moduleOk_of_inputs c opIdx items hgen hok) j k hkj hc

theorem recfragment_precise_iff_inputs (c : Ctx) (opIdx : Nat) (op : ROperation) (items : List Item)
    (hop : c.q.operations[opIdx]? = some op) (ht : RecFragmentOp c op = true) (hk : recKeysOk c op = true)
    (hgen : responseForQuery c opIdx = .ok items) (hok : ModuleOkIn c opIdx = true) (j : Json) :
    okB (Serde.de (moduleEnv c items) (.path "ResponseData") j) =
      conformsLooseR c.s c.q c.o (jsonSize j) false op.sels j :=
  recfragment_precise_iff c opIdx op items hop ht hk hgen (moduleOk_of_inputs c opIdx items hgen hok) j

theorem variantspread2_roundtrip_inputs (c : Ctx) (opIdx : Nat) (op : ROperation) (items : List Item)
    (hop : c.q.operations[opIdx]? = some op) (ht : VariantSpreadOp2 c op = true)
    (hgen : responseForQuery c opIdx = .ok items) (hok : ModuleOkIn c opIdx = true)
    (hr : spreadRustOkD c (normOp op) = true)
    (j : Json) (hc : conformsOpS c op j = true) :
    Serde.roundtrip (moduleEnv c items) (.path "ResponseData") j =
      .ok (normJson (canonSelD c.s c.q c.o.skipNone (normSels op.sels) j)) :=
  variantspread2_roundtrip c opIdx op items hop ht hgen (moduleOk_of_inputs c opIdx items hgen hok) hr j hc

theorem variantspread2_precise_iff_inputs (c : Ctx) (opIdx : Nat) (op : ROperation) (items : List Item)
    (hop : c.q.operations[opIdx]? = some op) (ht : VariantSpreadOp2 c op = true)
    (hgen : responseForQuery c opIdx = .ok items) (hok : ModuleOkIn c opIdx = true) (j : Json) :
    okB (Serde.de (moduleEnv c items) (.path "ResponseData") j) =
      conformsLooseS c.s c.q c.o false (normSels op.sels) j :=
  variantspread2_precise_iff c opIdx op items hop ht hgen (moduleOk_of_inputs c opIdx items hgen hok) j

/-! ## deprecation strategy `deny` -/

theorem treeD_roundtrip_inputs (c : Ctx) (opIdx : Nat) (op : ROperation) (items : List Item)
    (hop : c.q.operations[opIdx]? = some op) (ht : TreeOpD c op = true) (hp : TreeOp c (pruneOp c op) = true)
    (htn : tnOkOp c op = true)
    (hgen : responseForQuery c opIdx = .ok items) (hok : ModuleOkIn c opIdx = true)
    (hro : rustOkSels c (pruneSels c op.sels) = true)
    (hrn : EnumSpec.nodup (rustNames c (pruneSels c op.sels)) = true)
    (j : Json) (hc : conformsOp c op j = true) :
    Serde.roundtrip (moduleEnv c items) (.path "ResponseData") j = .ok (Deny.canonSelD c op j) :=
  treeD_roundtrip c opIdx op items hop ht hp htn hgen (moduleOk_of_inputs c opIdx items hgen hok) hro hrn j hc

theorem treeD_roundtrip_of_erased_inputs (c : Ctx) (opIdx : Nat) (op : ROperation) (items : List Item)
    (hop : c.q.operations[opIdx]? = some op) (ht : TreeOpD c op = true) (hp : TreeOp c (pruneOp c op) = true)
    (hgen : responseForQuery c opIdx = .ok items) (hok : ModuleOkIn c opIdx = true)
    (hro : rustOkSels c (pruneSels c op.sels) = true)
    (hrn : EnumSpec.nodup (rustNames c (pruneSels c op.sels)) = true)
    (j : Json) (hc : conformsOp c (pruneOp c op) (eraseDenied c op j) = true) :
    Serde.roundtrip (moduleEnv c items) (.path "ResponseData") j = .ok (Deny.canonSelD c op j) :=
  treeD_roundtrip_of_erased c opIdx op items hop ht hp hgen (moduleOk_of_inputs c opIdx items hgen hok) hro hrn j hc

theorem treeR_roundtrip_inputs (c : Ctx) (opIdx : Nat) (op : ROperation) (items : List Item)
    (hop : c.q.operations[opIdx]? = some op) (ht : TreeOpR c op = true)
    (hgen : responseForQuery c opIdx = .ok items) (hok : ModuleOkIn c opIdx = true)
    (hro : rustOkSels c (pruneSels c op.sels) = true)
    (hrn : EnumSpec.nodup (rustNames c (pruneSels c op.sels)) = true)
    (j : Json) (hc : conformsOp c op j = true) :
    Serde.roundtrip (moduleEnv c items) (.path "ResponseData") j = .ok (Deny.canonSelD c op j) :=
  treeR_roundtrip c opIdx op items hop ht hgen (moduleOk_of_inputs c opIdx items hgen hok) hro hrn j hc

theorem fragD_roundtrip_inputs (c : Ctx) (opIdx : Nat) (op : ROperation) (items : List Item)
    (hop : c.q.operations[opIdx]? = some op) (ht : FragOpD c op = true) (hkD : FragKeysOkD c op = true)
    (hp : FragmentOp (pruneCtx c) (pruneOp c op) = true) (hk : fragKeysOk (pruneCtx c) (pruneOp c op) = true)
    (hr : fragRustOk (pruneCtx c) (pruneOp c op) = true) (hl : loneOkOp c op = true) (htn : tnOkOpF c op = true)
    (hgen : responseForQuery c opIdx = .ok items) (hok : ModuleOkIn c opIdx = true)
    (j : Json) (hc : conformsOpF c op j = true) :
    Serde.roundtrip (moduleEnv c items) (.path "ResponseData") j =
      .ok (canonSelF c.s (pruneCtx c).q c.o.skipNone (pruneSels c op.sels) (eraseDeniedF c op j)) :=
  fragD_roundtrip c opIdx op items hop ht hkD hp hk hr hl htn hgen (moduleOk_of_inputs c opIdx items hgen hok) j hc

/-! ## `normalization = rust` (the side condition is about the `none` context `c₀`) -/

section Rust
variable {c₀ c₁ : Ctx} {opIdx : Nat} {op : ROperation} {items₀ items₁ : List Item}
  (W : RustSide c₀ c₁ opIdx items₀ items₁)
include W

theorem moduleOk_rustSide (hok : ModuleOkIn c₀ opIdx = true) : moduleOk c₀ items₀ = true :=
  moduleOk_of_inputs c₀ opIdx items₀ W.gen₀ hok

theorem tree_roundtrip_rust_inputs (hop : c₀.q.operations[opIdx]? = some op) (ht : TreeOp c₀ op = true)
    (hok : ModuleOkIn c₀ opIdx = true) (hro : rustOkSels c₀ op.sels = true)
    (hrn : EnumSpec.nodup (rustNames c₀ op.sels) = true) (j : Json) (hc : conformsOp c₀ op j = true) :
    Serde.roundtrip (moduleEnvN c₁ items₁) (.path "ResponseData") j = .ok (canonSel c₀.s c₀.o.skipNone op.sels j) :=
  tree_roundtrip_rust W hop ht (moduleOk_rustSide W hok) hro hrn j hc

theorem variant_roundtrip_rust_inputs (hop : c₀.q.operations[opIdx]? = some op) (ht : VariantOp c₀ op = true)
    (hok : ModuleOkIn c₀ opIdx = true) (hro : rustOkSelsV c₀ op.sels = true)
    (hrn : EnumSpec.nodup (rustNames c₀ op.sels) = true) (j : Json) (hc : conformsOpV c₀ op j = true) :
    Serde.roundtrip (moduleEnvN c₁ items₁) (.path "ResponseData") j = .ok (canonSelV c₀.s c₀.o.skipNone op.sels j) :=
  variant_roundtrip_rust W hop ht (moduleOk_rustSide W hok) hro hrn j hc

theorem fragment_roundtrip_rust_inputs (hop : c₀.q.operations[opIdx]? = some op) (ht : FragmentOp c₀ op = true)
    (hk : fragKeysOk c₀ op = true) (hr : fragRustOk c₀ op = true) (hok : ModuleOkIn c₀ opIdx = true)
    (j : Json) (hc : conformsOpF c₀ op j = true) :
    Serde.roundtrip (moduleEnvN c₁ items₁) (.path "ResponseData") j =
      .ok (canonSelF c₀.s c₀.q c₀.o.skipNone op.sels j) :=
  fragment_roundtrip_rust W hop ht hk hr (moduleOk_rustSide W hok) j hc

theorem recfragment_roundtrip_rust_inputs (hop : c₀.q.operations[opIdx]? = some op) (ht : RecFragmentOp c₀ op = true)
    (hk : recKeysOk c₀ op = true) (hr : recRustOk c₀ op = true) (hok : ModuleOkIn c₀ opIdx = true)
    (j : Json) (k : Nat) (hkj : 2 * jsonSize j ≤ k) (hc : conformsOpR c₀ op k j = true) :
    Serde.roundtrip (moduleEnvN c₁ items₁) (.path "ResponseData") j =
      .ok (canonR c₀.s c₀.q c₀.o.skipNone (jsonSize j) op.sels j) :=
  recfragment_roundtrip_rust W hop ht hk hr (moduleOk_rustSide W hok) j k hkj hc

theorem variantspread_roundtrip_rust_inputs (hop : c₀.q.operations[opIdx]? = some op)
    (ht : VariantSpreadOp c₀ op = true) (hok : ModuleOkIn c₀ opIdx = true) (hr : spreadRustOkD c₀ op = true)
    (j : Json) (hc : conformsOpS c₀ op j = true) :
    Serde.roundtrip (moduleEnvN c₁ items₁) (.path "ResponseData") j =
      .ok (normJson (E2E.canonSelD c₀.s c₀.q c₀.o.skipNone op.sels j)) :=
  variantspread_roundtrip_rust W hop ht (moduleOk_rustSide W hok) hr j hc

theorem variantspread2_roundtrip_rust_inputs (hop : c₀.q.operations[opIdx]? = some op)
    (ht : VariantSpreadOp2 c₀ op = true) (hok : ModuleOkIn c₀ opIdx = true)
    (hr : spreadRustOkD c₀ (normOp op) = true) (j : Json) (hc : conformsOpS c₀ op j = true) :
    Serde.roundtrip (moduleEnvN c₁ items₁) (.path "ResponseData") j =
      .ok (normJson (E2E.canonSelD c₀.s c₀.q c₀.o.skipNone (normSels op.sels) j)) :=
  variantspread2_roundtrip_rust W hop ht (moduleOk_rustSide W hok) hr j hc

end Rust

end MOK
end GqlVerif
