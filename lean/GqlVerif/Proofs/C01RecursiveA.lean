import GqlVerif.Proofs.C01AbstractI
/-!
# C01 / C03 end to end, step 3: spreads inside fragment bodies, recursive fragments (`RecFragmentOp`), part A

`FragmentOp` (step 2) requires spread-free fragment bodies.  `RecFragmentOp` drops that: **the selection sets
below the fields of a fragment body are object-level selection sets of the class again** (lone spread ⇒ type
alias, otherwise struct with one `#[serde(flatten)]` member per spread), so a fragment may reach other
fragments and itself:

* `fragment F on T { name friend { ...F } }` (self recursion),
* `fragment A on T { x b { ...B } }  fragment B on U { y a { ...A } }` (mutual recursion),
* `fragment W on T { w { ...F other } }` (a non-recursive wrapper reaching a recursive fragment).

The generator puts `Box` on every spread of a fragment that can reach itself (`fragmentIsRecursive`): on the
flattened member and on the type alias of a lone spread (`aliasItem`).  The closed form below carries the
generator's own flag `fragmentIsRecursive c.q g` (characterised in `C12Graph.fragmentIsRecursive_iff`); the
serde theorems of parts B / C hold whatever the flag is (`Box` is transparent).

**Class** (decidable, `RecFragmentOp`): as `FragmentOp`, with the condition on a spread reduced to the local one
(`spreadOk`: the fragment exists, is on the parent type itself, is not named `ID`) and, *for every fragment
reachable from the operation* (`usedFrags`, a closure computed by iteration and **checked** to be closed:
`closedFrags`), `fragBodyOk`: the fragment is on an existing object type, and its body is an object-level selection
set of the class **without a spread at its top level** (spreads only below fields).

Out of scope (stated precisely): a spread at the top level of a fragment body (`fragment W on T { ...F }`,
`fragment W on T { a ...F }`): the fragment struct then has flattened members itself and is read with serde's
*borrow* semantics when it is flattened in turn; spreads at abstract positions (part 2 of the task).

* `recfragment_items_shape` — `responseItems c op = .ok (bodyItemsR …)`;
* `recfragment_struct_shape` — `fragmentItems c g = .ok (struct of the body :: nested items)` for every reachable
  fragment;
* `recfragment_items_shape_gen`, `recfragment_struct_shape_gen` — the same closed forms from their essential hypothesis
  (`rBody` of the selection set at hand): they also cover fragments with spreads at the top level of their body.
-/
set_option linter.unusedSimpArgs false
set_option linter.unusedVariables false
namespace GqlVerif
namespace C01
namespace E2E
open Serde Spec C13 C03 Codegen

/-! ## the class -/

/-- the local condition on a spread `...g` in a selection set on `parent`: the fragment exists, is on `parent`
    itself, and is not named `ID` (the generator would attach the ID helper to the member) -/
def spreadOk (q : Query) (parent : TypeId) (g : Nat) : Bool :=
  match q.fragments[g]? with
  | some f => f.on == parent && f.name != "ID"
  | none => false

mutual
  /-- one selection of an object-level selection set on `parent` (as `fSel`, spreads checked locally) -/
  def rSel (s : Schema) (q : Query) (o : Options) (parent : TypeId) : Sel → Bool
    | .field _ fid sub =>
      match s.fields[fid]? with
      | none => false
      | some sf =>
        wfQuals sf.ty.quals && !(sf.deprecation.isSome && o.deprecation == .deny) &&
        (match sf.ty.id with
         | .scalar k => (s.scalars[k]?).isSome && sub.isEmpty
         | .enum k => (s.enums[k]?).isSome && sub.isEmpty
         | .object i => (s.objects[i]?).isSome &&
            (match sub with
             | [.spread g] => spreadOk q (.object i) g
             | _ => rSels s q o (.object i) sub)
         | .interface k => (s.interfaces[k]?).isSome && vSels s o true sub && absOk s o (.interface k) sub
         | .union u => (s.unions[u]?).isSome && vSels s o true sub && absOk s o (.union u) sub
         | .input _ => false)
    | .typename => true
    | .spread g => spreadOk q parent g
    | .inline _ _ => false
  def rSels (s : Schema) (q : Query) (o : Options) (parent : TypeId) : List Sel → Bool
    | [] => true
    | x :: xs => rSel s q o parent x && rSels s q o parent xs
end

/-- the body of an object-level selection set: a lone spread (type alias) or a selection set of the class -/
def rBody (s : Schema) (q : Query) (o : Options) (parent : TypeId) (sels : List Sel) : Bool :=
  match sels with
  | [.spread g] => spreadOk q parent g
  | _ => rSels s q o parent sels

/-- a fragment that may be reached: it is on an existing object type and its body is an object-level selection
    set of the class (below its fields: anything of the class, **including spreads of itself**) without a
    spread at its own top level -/
def fragBodyOk (s : Schema) (q : Query) (o : Options) (g : Nat) : Bool :=
  match q.fragments[g]? with
  | some f =>
    (match f.on with | .object i => (s.objects[i]?).isSome | _ => false) &&
    !f.sels.any isSpread && rSels s q o f.on f.sels
  | none => false

/-! ### the fragments reachable from a selection set -/

def addNew (acc new : List Nat) : List Nat :=
  new.foldl (fun a g => if a.contains g then a else a ++ [g]) acc

/-- `n` rounds of "add the fragments spread in the bodies of the fragments found so far" -/
def closeFrags (q : Query) : Nat → List Nat → List Nat
  | 0, acc => acc
  | n + 1, acc => closeFrags q n (addNew acc (acc.flatMap (fun g => spreadIdss (fragSels q g))))

/-- the fragments reachable from `sels` (one round per fragment of the document is enough; that the result is
    closed is *checked* by the class, `closedFrags`, not assumed) -/
def usedFrags (q : Query) (sels : List Sel) : List Nat :=
  closeFrags q q.fragments.length (addNew [] (spreadIdss sels))

/-- `G` contains every fragment spread in `sels` and in the bodies of its members -/
def closedFrags (q : Query) (G : List Nat) (sels : List Sel) : Bool :=
  (spreadIdss sels).all G.contains && G.all (fun g => (spreadIdss (fragSels q g)).all G.contains)

/-- **the class `RecFragmentOp`** (decidable): as `FragmentOp`, but the bodies of the reachable fragments are
    object-level selection sets of the class again below their fields (recursive fragments included) -/
def RecFragmentOp (c : Ctx) (op : ROperation) : Bool :=
  c.o.normalization == .none && (c.s.objects[op.objectId]?).isSome &&
  rBody c.s c.q c.o (.object op.objectId) op.sels &&
  closedFrags c.q (usedFrags c.q op.sels) op.sels &&
  (usedFrags c.q op.sels).all (fragBodyOk c.s c.q c.o)

/-! ## closed form -/

/-- the flattened member emitted for a spread of the fragment number `g`: boxed iff the generator finds the
    fragment recursive -/
def spreadFieldR (c : Ctx) (g : Nat) (f : RFragment) : RField :=
  { rust := keywordReplace (c.cs.snake f.name)
    ty := if fragmentIsRecursive c.q g then .box (.path f.name) else .path f.name
    flatten := true }

def fieldOfSelR (c : Ctx) (pfx : String) : Sel → Option RField
  | .spread g => (c.q.fragments[g]?).map (spreadFieldR c g)
  | x => fieldOfSelV c pfx x

def fieldsOfR (c : Ctx) (pfx : String) (sels : List Sel) : List RField := sels.filterMap (fieldOfSelR c pfx)

mutual
  def itemsR (c : Ctx) (pfx : String) : Sel → List Item
    | .field a fid sub =>
      match c.s.fields[fid]? with
      | none => []
      | some sf =>
        match sf.ty.id with
        | .object _ =>
          (match sub with
           | [.spread g] => [aliasItem (pfx ++ c.cs.camel (a.getD sf.name)) (fragName c g) (fragmentIsRecursive c.q g)]
           | _ => .struct (pfx ++ c.cs.camel (a.getD sf.name)) c.respDerives c.serdeCrate
                    (fieldsOfR c (pfx ++ c.cs.camel (a.getD sf.name)) sub) ::
                  itemsRs c (pfx ++ c.cs.camel (a.getD sf.name)) sub)
        | .interface k => absItemsV c (pfx ++ c.cs.camel (a.getD sf.name)) (pfx ++ c.cs.camel (a.getD sf.name)) (.interface k) sub
        | .union u => absItemsV c (pfx ++ c.cs.camel (a.getD sf.name)) (pfx ++ c.cs.camel (a.getD sf.name)) (.union u) sub
        | _ => []
    | _ => []
  def itemsRs (c : Ctx) (pfx : String) : List Sel → List Item
    | [] => []
    | x :: xs => itemsR c pfx x ++ itemsRs c pfx xs
end

/-- **closed form** of the items of an object-level selection set: a type alias (to `Box<F>` when `F` is
    recursive) for a lone spread; otherwise the struct (own fields and one flattened member per spread, `Box`ed
    when recursive, in selection order) and the nested items -/
def bodyItemsR (c : Ctx) (name pfx : String) (sels : List Sel) : List Item :=
  match sels with
  | [.spread g] => [aliasItem name (fragName c g) (fragmentIsRecursive c.q g)]
  | _ => .struct name c.respDerives c.serdeCrate (fieldsOfR c pfx sels) :: itemsRs c pfx sels

/-! ## basic facts -/

theorem spreadOk_parts {q : Query} {parent : TypeId} {g : Nat} (h : spreadOk q parent g = true) :
    ∃ f, q.fragments[g]? = some f ∧ f.on = parent ∧ f.name ≠ "ID" := by
  unfold spreadOk at h
  cases hf : q.fragments[g]? with
  | none => simp [hf] at h
  | some f =>
    simp only [hf, Bool.and_eq_true, beq_iff_eq, bne_iff_ne] at h
    exact ⟨f, rfl, h.1, h.2⟩

theorem renderField_spreadR (c : Ctx) (g : Nat) (f : RFragment) (hid : f.name ≠ "ID") :
    renderField c none (keywordReplace (c.cs.snake f.name)) f.name [.required] true (fragmentIsRecursive c.q g) none =
      .ok (some (spreadFieldR c g f)) := by
  unfold renderField
  cases h : fragmentIsRecursive c.q g <;>
    simp [decorateType, decorateStep, bind, Except.bind, pure, Except.pure, hid, spreadFieldR, Option.bind, h]

theorem rSels_cons {s : Schema} {q : Query} {o : Options} {p : TypeId} {x : Sel} {xs : List Sel}
    (h : rSels s q o p (x :: xs) = true) : rSel s q o p x = true ∧ rSels s q o p xs = true := by
  simpa [rSels] using h

theorem rSels_mem {s : Schema} {q : Query} {o : Options} {p : TypeId} : ∀ {sels : List Sel}, rSels s q o p sels = true →
    ∀ x ∈ sels, rSel s q o p x = true
  | [], _, _, hx => by simp at hx
  | y :: ys, h, x, hx => by
    obtain ⟨h1, h2⟩ := rSels_cons h
    rcases List.mem_cons.mp hx with rfl | hx'
    · exact h1
    · exact rSels_mem h2 x hx'

theorem rBody_not_lone {s : Schema} {q : Query} {o : Options} {p : TypeId} {sels : List Sel}
    (h : ∀ g, sels ≠ [Sel.spread g]) : rBody s q o p sels = rSels s q o p sels := by
  unfold rBody
  split
  · rename_i g; exact absurd rfl (h g)
  · rfl

theorem rBody_lone {s : Schema} {q : Query} {o : Options} {p : TypeId} {g : Nat} :
    rBody s q o p [Sel.spread g] = spreadOk q p g := rfl

theorem bodyItemsR_not_lone (c : Ctx) (name pfx : String) {sels : List Sel} (h : ∀ g, sels ≠ [Sel.spread g]) :
    bodyItemsR c name pfx sels =
      .struct name c.respDerives c.serdeCrate (fieldsOfR c pfx sels) :: itemsRs c pfx sels := by
  unfold bodyItemsR
  split
  · rename_i g; exact absurd rfl (h g)
  · rfl

theorem fieldsOfR_cons (c : Ctx) (pfx : String) (x : Sel) (xs : List Sel) :
    fieldsOfR c pfx (x :: xs) = (fieldOfSelR c pfx x).toList ++ fieldsOfR c pfx xs := by
  unfold fieldsOfR
  rw [List.filterMap_cons]
  cases fieldOfSelR c pfx x <;> rfl

theorem not_lone_of_noTop {sels : List Sel} (h : sels.any isSpread = false) : ∀ g, sels ≠ [Sel.spread g] := by
  intro g hg; subst hg; simp [isSpread] at h

theorem fragBodyOk_parts {s : Schema} {q : Query} {o : Options} {g : Nat} (h : fragBodyOk s q o g = true) :
    ∃ f i, q.fragments[g]? = some f ∧ f.on = .object i ∧ (s.objects[i]?).isSome = true ∧
      f.sels.any isSpread = false ∧ rSels s q o (.object i) f.sels = true := by
  unfold fragBodyOk at h
  cases hf : q.fragments[g]? with
  | none => simp [hf] at h
  | some f =>
    simp only [hf, Bool.and_eq_true, Bool.not_eq_true'] at h
    obtain ⟨⟨h1, h2⟩, h3⟩ := h
    cases hon : f.on with
    | object i =>
      rw [hon] at h1 h3
      exact ⟨f, i, rfl, hon, h1, h2, h3⟩
    | scalar k => simp [hon] at h1
    | «enum» k => simp [hon] at h1
    | interface k => simp [hon] at h1
    | union k => simp [hon] at h1
    | input k => simp [hon] at h1

/-! ## Theorem 1 for `RecFragmentOp` -/

section CalcR
variable (c : Ctx) (hn : c.o.normalization = .none) (N M : Nat)

def R1 (fuel : Nat) : Prop := ∀ name pfx i sels e, selsDepth sels ≤ e → selsSize sels ≤ N →
  C02.Sb N M e ≤ fuel → rBody c.s c.q c.o (.object i) sels = true →
  calcSelection c fuel name pfx (.object i) sels = .ok (bodyItemsR c name pfx sels)
def R4 (fuel : Nat) : Prop := ∀ pfx i sels e, selsDepth sels ≤ e → selsSize sels ≤ N →
  C02.Fneed N M e sels.length ≤ fuel → rSels c.s c.q c.o (.object i) sels = true →
  calcFields c fuel pfx (.object i) sels = .ok (fieldsOfR c pfx sels, itemsRs c pfx sels)

theorem stepR1 (f : Nat) (H4 : R4 c N M f) : R1 c N M (f + 1) := by
  intro name pfx i sels e hD hS hF ht
  by_cases hsp : ∃ g, sels = [Sel.spread g]
  · obtain ⟨g, rfl⟩ := hsp
    rw [calcSelection.eq_2]
    have hok : spreadOk c.q (.object i) g = true := ht
    obtain ⟨fr, hfr, _, _⟩ := spreadOk_parts hok
    simp only [getFragment_of hfr, bind, Except.bind, pure, Except.pure]
    simp [bodyItemsR, fragName, hfr]
  · have hsp' : ∀ g, sels ≠ [Sel.spread g] := fun g hg => hsp ⟨g, hg⟩
    rw [calcSelection.eq_3 _ _ _ _ _ _ (fun g hg => hsp ⟨g, hg⟩)]
    rw [rBody_not_lone hsp'] at ht
    have hv : variantsOf c.s (.object i) = .ok none := rfl
    have hL := C02.length_le_selsSize sels
    have hfields := H4 pfx i sels e hD hS (by
      cases e with
      | zero => simp only [C02.Fneed]; unfold C02.Sb at hF; omega
      | succ e' => simp only [C02.Fneed]; rw [C02.Sb_succ] at hF; omega) ht
    simp only [hv, bind, Except.bind, pure, Except.pure, hfields]
    rw [bodyItemsR_not_lone c name pfx hsp']
    simp [renderType]

include hn in
theorem stepR4 (hM : ∀ ty vts, variantsOf c.s ty = .ok (some vts) → vts.length ≤ M)
    (f : Nat) (H1 : R1 c N M f) (H4 : R4 c N M f) : R4 c N M (f + 1) := by
  intro pfx i sels e hD hS hF ht
  have H1a := (calc_variant c hn N M hM f).2.1
  cases sels with
  | nil => rw [calcFields.eq_2 _ _ _ _ (by omega)]; rfl
  | cons x rest =>
    cases e with
    | zero => have := C02.selsDepth_cons_pos x rest; omega
    | succ e =>
      obtain ⟨hx, hrest⟩ := rSels_cons ht
      rw [selsDepth.eq_2] at hD
      rw [selsSize.eq_2] at hS
      simp only [C02.Fneed, List.length_cons] at hF
      have hR := H4 pfx i rest (e + 1) (by omega) (by omega) (by simp only [C02.Fneed]; omega) hrest
      rw [fieldsOfR_cons, itemsRs]
      cases x with
      | field a fid sub =>
        rw [selDepth.eq_1] at hD
        rw [selSize.eq_1] at hS
        rw [calcFields.eq_3]
        rw [rSel] at hx
        cases hsf : c.s.fields[fid]? with
        | none => simp [hsf] at hx
        | some sf =>
          simp only [hsf, Bool.and_eq_true] at hx
          obtain ⟨⟨hw, hdep⟩, hty⟩ := hx
          have hdep' : (sf.deprecation.isSome && c.o.deprecation == .deny) = false := by
            cases hd : (sf.deprecation.isSome && c.o.deprecation == .deny) with
            | false => rfl
            | true => simp [hd] at hdep
          simp only [getField_of hsf, bind, Except.bind]
          cases hid : sf.ty.id with
          | scalar k =>
            simp only [hid, Bool.and_eq_true] at hty
            cases hk : c.s.scalars[k]? with
            | none => simp [hk] at hty
            | some sn =>
              simp only [getScalar_of hk, hn, C02.fieldType_none, renderField_tree c _ _ _ _ hw hdep', hR,
                pure, Except.pure]
              simp [itemsR, fieldOfSelR, fieldOfSelV, hsf, hid, leafNameV, hk]
          | «enum» k =>
            simp only [hid, Bool.and_eq_true] at hty
            cases hk : c.s.enums[k]? with
            | none => simp [hk] at hty
            | some en =>
              simp only [getEnum_of hk, hn, C02.fieldType_none, renderField_tree c _ _ _ _ hw hdep', hR,
                pure, Except.pure]
              simp [itemsR, fieldOfSelR, fieldOfSelV, hsf, hid, leafNameV, hk]
          | object j =>
            simp only [hid, Bool.and_eq_true] at hty
            have hbody : rBody c.s c.q c.o (.object j) sub = true := hty.2
            have hS' := H1 (pfx ++ c.cs.camel (a.getD sf.name)) (pfx ++ c.cs.camel (a.getD sf.name)) j sub e
              (by omega) (by omega) (by omega) hbody
            simp only [renderField_tree c _ _ _ _ hw hdep', hS', hR, pure, Except.pure]
            have hitems : itemsR c pfx (.field a fid sub) =
                bodyItemsR c (pfx ++ c.cs.camel (a.getD sf.name)) (pfx ++ c.cs.camel (a.getD sf.name)) sub := by
              rw [itemsR]; simp only [hsf, hid]; rfl
            rw [hitems]
            simp [fieldOfSelR, fieldOfSelV, hsf, hid, leafNameV]
          | interface k =>
            simp only [hid, Bool.and_eq_true] at hty
            have hS' := H1a (pfx ++ c.cs.camel (a.getD sf.name)) (pfx ++ c.cs.camel (a.getD sf.name)) (.interface k) sub e
              (by omega) (by omega) (by omega) hty.1.1 hty.1.2 hty.2
            simp only [renderField_tree c _ _ _ _ hw hdep', hS', hR, pure, Except.pure]
            simp [itemsR, fieldOfSelR, fieldOfSelV, hsf, hid, leafNameV]
          | union k =>
            simp only [hid, Bool.and_eq_true] at hty
            have hS' := H1a (pfx ++ c.cs.camel (a.getD sf.name)) (pfx ++ c.cs.camel (a.getD sf.name)) (.union k) sub e
              (by omega) (by omega) (by omega) hty.1.1 hty.1.2 hty.2
            simp only [renderField_tree c _ _ _ _ hw hdep', hS', hR, pure, Except.pure]
            simp [itemsR, fieldOfSelR, fieldOfSelV, hsf, hid, leafNameV]
          | input k => simp [hid] at hty
      | spread g =>
        rw [calcFields.eq_4]
        have hok : spreadOk c.q (.object i) g = true := by simpa [rSel] using hx
        obtain ⟨fr, hfr, hon, hname⟩ := spreadOk_parts hok
        have hne : (fr.on != TypeId.object i) = false := by simp [hon]
        simp only [getFragment_of hfr, bind, Except.bind, hR, hne, Bool.false_eq_true, ↓reduceIte,
          renderField_spreadR c g fr hname, pure, Except.pure]
        simp [fieldOfSelR, hfr, itemsR]
      | inline t sub => simp [rSel] at hx
      | typename =>
        rw [calcFields.eq_5 _ _ _ _ _ _ (by simp) (by simp), hR]
        simp [fieldOfSelR, fieldOfSelV, itemsR]

include hn in
theorem calc_rec (hM : ∀ ty vts, variantsOf c.s ty = .ok (some vts) → vts.length ≤ M) :
    ∀ fuel, R1 c N M fuel ∧ R4 c N M fuel := by
  intro fuel
  induction fuel with
  | zero =>
    refine ⟨?_, ?_⟩
    · intro _ _ _ _ e _ _ h; unfold C02.Sb at h; omega
    · intro _ _ sels e _ _ h; have := C02.Fneed_pos N M e sels.length; omega
  | succ f ih => exact ⟨stepR1 c N M f ih.2, stepR4 c hn N M hM f ih.1 ih.2⟩

end CalcR

theorem recFragmentOp_parts {c : Ctx} {op : ROperation} (h : RecFragmentOp c op = true) :
    c.o.normalization = .none ∧ (c.s.objects[op.objectId]?).isSome = true ∧
      rBody c.s c.q c.o (.object op.objectId) op.sels = true ∧
      closedFrags c.q (usedFrags c.q op.sels) op.sels = true ∧
      ∀ g ∈ usedFrags c.q op.sels, fragBodyOk c.s c.q c.o g = true := by
  simp only [RecFragmentOp, Bool.and_eq_true, beq_iff_eq, List.all_eq_true] at h
  exact ⟨h.1.1.1.1, h.1.1.1.2, h.1.1.2, h.1.2, h.2⟩

/-- **Theorem 1 (`recfragment_items_shape`).**  For an operation of the class `RecFragmentOp` the response items
    are, in closed form: a type alias where a selection set is a lone spread (to `Box<F>` when the generator
    finds `F` recursive); otherwise one struct per object-level selection set with one `#[serde(flatten)]`
    member per spread (`Box<F>` when recursive), in selection order; abstract positions as in
    `variant_items_shape`. -/
theorem recfragment_items_shape (c : Ctx) (op : ROperation) (hop : op ∈ c.q.operations)
    (ht : RecFragmentOp c op = true) :
    responseItems c op = .ok (bodyItemsR c "ResponseData" (c.cs.camel op.name) op.sels) := by
  obtain ⟨hn, _, hsels, _, _⟩ := recFragmentOp_parts ht
  have H := (calc_rec c hn (C02.totalSize c.q) (c.s.objects.length + C02.maxUnion c.s)
    (C02.variants_length_le c.s) (calcFuel c.s c.q)).1
  apply H _ _ _ _ (C02.maxDepth c.q) (C02.op_depth_le c.q op hop) _ (calcFuel_Sb c) hsels
  apply C02.le_foldl_add
  left
  simp only [List.mem_append, List.mem_map]
  exact .inr ⟨op, hop, rfl⟩

/-- **… and the items of every fragment of the class** (`fragBodyOk`; in particular every fragment reachable from
    an operation of the class): the struct named like the fragment, with the fields of its body — one
    flattened member (boxed when recursive) per spread below its fields, aliases for lone spreads — and the
    nested items; prefix: the upper-camel-case fragment name -/
theorem recfragment_struct_shape (c : Ctx) (hn : c.o.normalization = .none) (g : Nat)
    (hok : fragBodyOk c.s c.q c.o g = true) :
    ∃ f, c.q.fragments[g]? = some f ∧
      fragmentItems c g = .ok (.struct f.name c.respDerives c.serdeCrate (fieldsOfR c (c.cs.camel f.name) f.sels) ::
        itemsRs c (c.cs.camel f.name) f.sels) := by
  obtain ⟨f, i, hf, hon, _, hnt, hv⟩ := fragBodyOk_parts hok
  refine ⟨f, hf, ?_⟩
  unfold fragmentItems
  simp only [getFragment_of hf, bind, Except.bind]
  have hmem : f ∈ c.q.fragments := List.mem_of_getElem? hf
  have H := (calc_rec c hn (C02.totalSize c.q) (c.s.objects.length + C02.maxUnion c.s)
    (C02.variants_length_le c.s) (calcFuel c.s c.q)).1
  have hnl := not_lone_of_noTop hnt
  rw [hon, ← bodyItemsR_not_lone c f.name (c.cs.camel f.name) hnl]
  apply H _ _ _ _ (C02.maxDepth c.q) (C02.frag_depth_le c.q f hmem) _ (calcFuel_Sb c)
    (by rw [rBody_not_lone hnl]; exact hv)
  apply C02.le_foldl_add
  left
  simp only [List.mem_append, List.mem_map]
  exact .inl ⟨f, hmem, rfl⟩

/-! ## the closed form does not need the restriction on fragment bodies

Both shape theorems only use that the selection set at hand is an object-level selection set of the class
(`rBody`): they hold verbatim for fragments **with spreads at the top level of their body** (nested flattened
members; a body that is a lone spread is a type alias), i.e. for the full class of part 1 of the task.  Only the
serde theorems (parts B–D) need `fragBodyOk`'s "no spread at the top level of a fragment body". -/

/-- `recfragment_items_shape` from its essential hypotheses -/
theorem recfragment_items_shape_gen (c : Ctx) (op : ROperation) (hop : op ∈ c.q.operations)
    (hn : c.o.normalization = .none) (hb : rBody c.s c.q c.o (.object op.objectId) op.sels = true) :
    responseItems c op = .ok (bodyItemsR c "ResponseData" (c.cs.camel op.name) op.sels) := by
  have H := (calc_rec c hn (C02.totalSize c.q) (c.s.objects.length + C02.maxUnion c.s)
    (C02.variants_length_le c.s) (calcFuel c.s c.q)).1
  apply H _ _ _ _ (C02.maxDepth c.q) (C02.op_depth_le c.q op hop) _ (calcFuel_Sb c) hb
  apply C02.le_foldl_add
  left
  simp only [List.mem_append, List.mem_map]
  exact .inr ⟨op, hop, rfl⟩

/-- the items of **any** fragment on an object type whose body is an object-level selection set of the class
    (spreads anywhere, recursion included): an alias for a lone spread, otherwise the struct with one (boxed when
    recursive) flattened member per spread and the nested items -/
theorem recfragment_struct_shape_gen (c : Ctx) (hn : c.o.normalization = .none) (g : Nat) (f : RFragment) (i : Nat)
    (hf : c.q.fragments[g]? = some f) (hon : f.on = .object i)
    (hb : rBody c.s c.q c.o (.object i) f.sels = true) :
    fragmentItems c g = .ok (bodyItemsR c f.name (c.cs.camel f.name) f.sels) := by
  unfold fragmentItems
  simp only [getFragment_of hf, bind, Except.bind]
  have hmem : f ∈ c.q.fragments := List.mem_of_getElem? hf
  have H := (calc_rec c hn (C02.totalSize c.q) (c.s.objects.length + C02.maxUnion c.s)
    (C02.variants_length_le c.s) (calcFuel c.s c.q)).1
  rw [hon]
  apply H _ _ _ _ (C02.maxDepth c.q) (C02.frag_depth_le c.q f hmem) _ (calcFuel_Sb c) hb
  apply C02.le_foldl_add
  left
  simp only [List.mem_append, List.mem_map]
  exact .inl ⟨f, hmem, rfl⟩

end E2E
end C01
end GqlVerif
