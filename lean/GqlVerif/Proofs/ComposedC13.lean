import GqlVerif.Proofs.ComposedC11
import GqlVerif.Props.C12
/-!
# Composed C13 — one rule for the Rust type at every position (reviewer finding 26)

`C13.decorate_spec` is about `decorateType`; `C13.response_field_type` about `renderField … false false none` only.
Here the rule `rustOf` (non-null removes one `Option`, a list is a `Vec`, at every level) is stated on what the
generator emits at each of the four positions, for every context:

* response field — `renderField_type_rule` (all flags; `Box` iff the `boxed` flag) and, composed through the
  field loop, `calcFields_field_type` (the leaf is the normalized enum / scalar name or the path-named struct);
* variable — `variable_member_type` (member `k` of `Variables` has the type `variableType` computes for variable
  `k`) and `variable_member_rule` (= `rustOf`, via `C04.variable_type_rule`);
* input-object field — `inputFieldType_rule` (with `Box` exactly when the field's target is an input type the
  generator's DFS flags: `inputBoxed_iff`, `inputBoxed_iff_cycle`), `input_member_type`, `input_member_rule`;
* `@oneOf` member — `oneOf_member_type`, `oneOf_member_rule`: the payload is `rustOfNN` (non-null forced) of the
  declared nullable type; and `oneOf_member_nonnull_panics`: a member declared `T!` makes the generator panic
  (`double required annotation`) — this is the model's and the code's behaviour (the GraphQL spec requires
  `@oneOf` members to be nullable).
-/
namespace GqlVerif
namespace Composed
open Codegen C02 C13

def boxIf (b : Bool) (t : RTy) : RTy := if b then .box t else t

/-! ## response fields -/

/-- **response field, all flags**: the type of the member `renderField` emits is `rustOf` of the declared type
    expression over the given leaf, wrapped in `Box` iff `boxed` -/
theorem renderField_type_rule (c : Ctx) (g : Option String) (r ft : String) (t : GTy) (fl bx : Bool)
    (dep : Option (Option String)) (f : RField) (hw : wf t = true)
    (h : renderField c g r ft (GTy.quals t) fl bx dep = .ok (some f)) :
    f.ty = boxIf bx (rustOf (.path ft) t) := by
  unfold renderField at h
  rw [decorate_spec _ _ hw] at h
  simp only [bind, Except.bind] at h
  cases dep with
  | none =>
    cases hs : c.o.deprecation <;> simp only [pure, Except.pure, Except.ok.injEq, Option.some.injEq] at h <;>
      (subst h; rfl)
  | some m =>
    cases hs : c.o.deprecation <;> simp only [hs, pure, Except.pure, Except.ok.injEq, Option.some.injEq] at h
    · subst h; rfl
    · cases h
    · subst h; rfl

/-- the leaf type name of the member emitted for a field selection: normalized enum / scalar name, or the
    struct named by the path -/
def responseLeaf (c : Ctx) (pfx gname : String) (sf : StoredField) : Option String :=
  match sf.ty.id with
  | .enum e => (c.s.enums[e]?).map (fun en => c.o.normalization.fieldType c.cs en.name)
  | .scalar k => (c.s.scalars[k]?).map (fun sn => c.o.normalization.fieldType c.cs sn)
  | .input _ => none
  | _ => some (pfx ++ c.cs.camel gname)

/-- **response field, composed through the field loop**: the member `calcFields` emits for an (emitted) field
    selection whose schema type expression is `t` has type `rustOf leaf t` -/
theorem calcFields_field_type (c : Ctx) (f : Nat) (pfx : String) (ty : TypeId) (a : Option String) (fid : Nat)
    (sub rest : List Sel) (fs : List RField) (items : List Item) (sf : StoredField) (t : GTy)
    (hsf : c.s.fields[fid]? = some sf) (hq : sf.ty.quals = GTy.quals t) (hw : wf t = true)
    (hem : emitted c sf = true)
    (h : calcFields c (f + 1) pfx ty (.field a fid sub :: rest) = .ok (fs, items)) :
    ∃ fld fs' leaf, fs = fld :: fs' ∧ responseLeaf c pfx (a.getD sf.name) sf = some leaf ∧
      fld.ty = rustOf (.path leaf) t ∧ fld.wire = a.getD sf.name ∧ fld.flatten = false := by
  obtain ⟨sf', fld, its, fs', items', hsf', hr, rfl, rfl, hstep⟩ := calcFields_field_ok h
  rw [hsf] at hsf'
  cases hsf'
  have key : ∀ ft, renderField c (some (a.getD sf.name)) (keywordReplace (c.cs.snake (a.getD sf.name))) ft sf.ty.quals
      false false sf.deprecation = .ok fld →
      ∃ x, fld = some x ∧ x.ty = rustOf (.path ft) t ∧ x.wire = a.getD sf.name ∧ x.flatten = false := by
    intro ft hrf
    rcases renderField_ok hrf with ⟨_, h1, h2⟩ | ⟨x, rfl, _, hr', hfl, hren⟩
    · simp [emitted, h1, h2] at hem
    · rw [hq] at hrf
      exact ⟨x, rfl, renderField_type_rule c _ _ ft t false false _ x hw hrf,
        wire_of_rename _ _ x hr' (by simpa using hren), hfl⟩
  rcases hstep with ⟨e, en, he, hen, _, hrf⟩ | ⟨k, sn, hk, hsn, _, hrf⟩ | ⟨h1, h2, h3, hrf, _⟩
  · obtain ⟨x, rfl, hty, hwire, hfl⟩ := key _ hrf
    exact ⟨x, fs', _, rfl, by simp [responseLeaf, he, hen], hty, hwire, hfl⟩
  · obtain ⟨x, rfl, hty, hwire, hfl⟩ := key _ hrf
    exact ⟨x, fs', _, rfl, by simp [responseLeaf, hk, hsn], hty, hwire, hfl⟩
  · obtain ⟨x, rfl, hty, hwire, hfl⟩ := key _ hrf
    refine ⟨x, fs', _, rfl, ?_, hty, hwire, hfl⟩
    unfold responseLeaf
    split
    · rename_i e he; exact absurd he (h1 e)
    · rename_i k hk; exact absurd hk (h2 k)
    · rename_i i hi; exact absurd hi (h3 i)
    · rfl

/-! ## pointwise reading of a successful `mapM` -/

theorem mapM_getElem {ε α β : Type} (f : α → Except ε β) :
    ∀ (l : List α) (r : List β), l.mapM f = .ok r → ∀ (k : Nat) (a : α), l[k]? = some a →
      ∃ b, r[k]? = some b ∧ f a = .ok b := by
  intro l
  induction l with
  | nil => intro r _ k a hk; simp at hk
  | cons x xs ih =>
    intro r hr k a hk
    rw [List.mapM_cons] at hr
    obtain ⟨b, hb, hr⟩ := bind_ok hr
    obtain ⟨bs, hbs, hr⟩ := bind_ok hr
    simp only [pure, Except.pure, Except.ok.injEq] at hr
    subst hr
    cases k with
    | zero => simp only [List.getElem?_cons_zero, Option.some.injEq] at hk; subst hk; exact ⟨b, rfl, hb⟩
    | succ k => simpa using ih bs hbs k a (by simpa using hk)

/-! ## variables -/

/-- member `k` of the `Variables` struct has the type the generator computes for the `k`-th declared variable -/
theorem variable_member_type (c : Ctx) (op : Nat) (fs : List RField) (d : List String) (sc : Option String)
    (rest : List Item) (h : variablesItems c op = .ok (.struct "Variables" d sc fs :: rest))
    (k : Nat) (v : RVariable) (hv : (c.q.opVariables op)[k]? = some v) :
    ∃ f, fs[k]? = some f ∧ f.wire = v.name ∧ variableType c v = .ok f.ty := by
  rcases variablesItems_shape c op _ h with ⟨_, h'⟩ | ⟨_, fs', dfl, h', hw, hty, _⟩
  · simp at h'
  · simp only [List.cons.injEq, Item.struct.injEq] at h'
    obtain ⟨⟨-, -, -, rfl⟩, -⟩ := h'
    obtain ⟨ty, hk, hvt⟩ := mapM_getElem _ _ _ hty k v hv
    simp only [List.getElem?_map, Option.map_eq_some_iff] at hk
    obtain ⟨f, hf, rfl⟩ := hk
    refine ⟨f, hf, ?_, hvt⟩
    have := congrArg (fun l => l[k]?) hw
    simp only [List.getElem?_map, hf, hv, Option.map_some, Option.some.injEq] at this
    exact this

/-- **variable position**: the member of `Variables` for a variable declared with type expression `t` over the
    named type `tn` has the Rust type `rustOf` of `t` (leaf: the normalized, keyword-escaped type name) -/
theorem variable_member_rule (c : Ctx) (op : Nat) (fs : List RField) (d : List String) (sc : Option String)
    (rest : List Item) (h : variablesItems c op = .ok (.struct "Variables" d sc fs :: rest))
    (k : Nat) (v : RVariable) (hv : (c.q.opVariables op)[k]? = some v)
    (t : GTy) (tn : String) (hq : v.ty.quals = GTy.quals t) (hw : wf t = true) (hn : c.s.typeName v.ty.id = .ok tn) :
    ∃ f, fs[k]? = some f ∧ f.wire = v.name ∧
      f.ty = rustOf (.path (keywordReplace (c.o.normalization.fieldType c.cs tn))) t := by
  obtain ⟨f, hf, hwire, hty⟩ := variable_member_type c op fs d sc rest h k v hv
  rw [C04.variable_type_rule c v t tn hq hw hn] at hty
  exact ⟨f, hf, hwire, (Except.ok.inj hty).symm⟩

/-- the `default_*` function of a variable returns that variable's Rust type -/
theorem default_fn_type (c : Ctx) (op : Nat) (first : Item) (dfl : List (String × RTy)) (rest : List Item)
    (h : variablesItems c op = .ok (first :: .defaults dfl :: rest))
    (k : Nat) (v : RVariable) (hv : ((c.q.opVariables op).filter (·.default.isSome))[k]? = some v) :
    ∃ p, dfl[k]? = some p ∧ p.1 = "default_" ++ v.name ∧ variableType c v = .ok p.2 := by
  rcases variablesItems_shape c op _ h with ⟨_, h'⟩ | ⟨_, fs', dfl', h', _, _, hn, hty⟩
  · simp at h'
  · simp only [List.cons.injEq, Item.defaults.injEq] at h'
    obtain ⟨-, rfl, -⟩ := h'
    obtain ⟨ty, hk, hvt⟩ := mapM_getElem _ _ _ hty k v hv
    simp only [List.getElem?_map, Option.map_eq_some_iff] at hk
    obtain ⟨p, hp, rfl⟩ := hk
    refine ⟨p, hp, ?_, hvt⟩
    have := congrArg (fun l => l[k]?) hn
    simp only [List.getElem?_map, hp, hv, Option.map_some, Option.some.injEq] at this
    exact this

/-! ## input-object fields -/

/-- the `Box` decision of `inputFieldType`: the field's named type is an input object the DFS flags -/
def inputBoxed (c : Ctx) (ty : FieldType) : Bool :=
  match ty.id.asInput? with
  | some iid => inputIsRecursive c.s iid
  | none => false

theorem inputBoxed_iff (c : Ctx) (ty : FieldType) :
    inputBoxed c ty = true ↔ ∃ iid, ty.id = .input iid ∧ inputIsRecursive c.s iid = true := by
  unfold inputBoxed
  cases h : ty.id <;> simp [TypeId.asInput?]

/-- `Box` exactly where C12 says: on fields whose target lies on a cycle of by-value (not list-wrapped) input
    fields — `InputsWf` (distinct input names, ids in range) is needed for the ← direction only -/
theorem inputBoxed_iff_cycle (c : Ctx) (ty : FieldType) (hwf : C12Graph.InputsWf c.s) :
    inputBoxed c ty = true ↔ ∃ iid, ty.id = .input iid ∧ C12Graph.OnDirectCycle c.s iid := by
  rw [inputBoxed_iff]
  constructor
  · rintro ⟨iid, h1, h2⟩; exact ⟨iid, h1, C12.dfs_sound c.s iid h2⟩
  · rintro ⟨iid, h1, h2⟩; exact ⟨iid, h1, C12.dfs_complete c.s iid hwf h2⟩

/-- **input-field position**: `inputFieldType` at qualifiers `quals t` is `rustOf` of `t` over the normalized
    type name, in a `Box` exactly when `inputBoxed` -/
theorem inputFieldType_rule (c : Ctx) (ty : FieldType) (t : GTy) (tn : String) (hw : wf t = true)
    (hn : c.s.typeName ty.id = .ok tn) :
    inputFieldType c ty (GTy.quals t) =
      .ok (boxIf (inputBoxed c ty) (rustOf (.path (c.o.normalization.fieldType c.cs tn)) t)) := by
  unfold inputFieldType
  simp only [hn, bind, Except.bind, decorate_spec _ _ hw, pure, Except.pure]
  rfl

/-- member `k` of an emitted input struct has the type `inputFieldType` computes for the `k`-th schema field -/
theorem input_member_type (c : Ctx) (i : StoredInput) (n : String) (d : List String) (sc : Option String)
    (fs : List RField) (h : inputItem c i = .ok (.struct n d sc fs))
    (k : Nat) (fname : String) (ty : FieldType) (hk : i.fields[k]? = some (fname, ty)) :
    ∃ f, fs[k]? = some f ∧ f.wire = fname ∧ inputFieldType c ty ty.quals = .ok f.ty := by
  unfold inputItem at h
  split at h
  · obtain ⟨vs, _, h⟩ := bind_ok h
    simp [pure, Except.pure] at h
  · obtain ⟨fs', hfs, h⟩ := bind_ok h
    simp only [pure, Except.pure, Except.ok.injEq, Item.struct.injEq] at h
    obtain ⟨-, -, -, rfl⟩ := h
    obtain ⟨f, hf, hb⟩ := mapM_getElem _ _ _ hfs k _ hk
    obtain ⟨t, ht, hb⟩ := bind_ok hb
    simp only [pure, Except.pure, Except.ok.injEq] at hb
    subst hb
    exact ⟨_, hf, C11.input_wire_is_graphql_name _ _ _ _, ht⟩

/-- **input-field position, composed on `inputItem`** -/
theorem input_member_rule (c : Ctx) (i : StoredInput) (n : String) (d : List String) (sc : Option String)
    (fs : List RField) (h : inputItem c i = .ok (.struct n d sc fs))
    (k : Nat) (fname : String) (ty : FieldType) (hk : i.fields[k]? = some (fname, ty))
    (t : GTy) (tn : String) (hq : ty.quals = GTy.quals t) (hw : wf t = true) (hn : c.s.typeName ty.id = .ok tn) :
    ∃ f, fs[k]? = some f ∧ f.wire = fname ∧
      f.ty = boxIf (inputBoxed c ty) (rustOf (.path (c.o.normalization.fieldType c.cs tn)) t) := by
  obtain ⟨f, hf, hwire, hty⟩ := input_member_type c i n d sc fs h k fname ty hk
  rw [hq, inputFieldType_rule c ty t tn hw hn] at hty
  exact ⟨f, hf, hwire, (Except.ok.inj hty).symm⟩

/-! ## `@oneOf` members -/

/-- variant `k` of an emitted `@oneOf` enum carries the type `inputFieldType` computes for the `k`-th schema
    field with a forced leading `!` -/
theorem oneOf_member_type (c : Ctx) (i : StoredInput) (n : String) (d : List String) (sc : Option String)
    (vs : List RVariant) (h : inputItem c i = .ok (.oneOf n d sc vs))
    (k : Nat) (fname : String) (ty : FieldType) (hk : i.fields[k]? = some (fname, ty)) :
    ∃ v r, vs[k]? = some v ∧ v.wire = fname ∧ v.payload = some r ∧
      inputFieldType c ty (.required :: ty.quals) = .ok r := by
  unfold inputItem at h
  split at h
  · obtain ⟨vs', hvs, h⟩ := bind_ok h
    simp only [pure, Except.pure, Except.ok.injEq, Item.oneOf.injEq] at h
    obtain ⟨-, -, -, rfl⟩ := h
    obtain ⟨v, hv, hb⟩ := mapM_getElem _ _ _ hvs k _ hk
    obtain ⟨t, ht, hb⟩ := bind_ok hb
    simp only [pure, Except.pure, Except.ok.injEq] at hb
    subst hb
    exact ⟨_, t, hv, C11.oneof_wire_is_graphql_name _ _ _, rfl, ht⟩
  · obtain ⟨fs, _, h⟩ := bind_ok h
    simp [pure, Except.pure] at h

/-- **`@oneOf` position (non-null forced)**: a member declared with the nullable type expression `t` carries
    `rustOfNN` of `t` — the type of `t!` — boxed exactly when `inputBoxed` -/
theorem oneOf_member_rule (c : Ctx) (i : StoredInput) (n : String) (d : List String) (sc : Option String)
    (vs : List RVariant) (h : inputItem c i = .ok (.oneOf n d sc vs))
    (k : Nat) (fname : String) (ty : FieldType) (hk : i.fields[k]? = some (fname, ty))
    (t : GTy) (tn : String) (hq : ty.quals = GTy.quals t) (hw : wf t = true) (hnn : isNN t = false)
    (hn : c.s.typeName ty.id = .ok tn) :
    ∃ v, vs[k]? = some v ∧ v.wire = fname ∧
      v.payload = some (boxIf (inputBoxed c ty) (rustOfNN (.path (c.o.normalization.fieldType c.cs tn)) t)) := by
  obtain ⟨v, r, hv, hwire, hp, hty⟩ := oneOf_member_type c i n d sc vs h k fname ty hk
  have hw' : wf (.nonNull t) = true := by cases t <;> simp_all [wf, isNN]
  have : Qual.required :: ty.quals = GTy.quals (.nonNull t) := by rw [hq]; rfl
  rw [this, inputFieldType_rule c ty (.nonNull t) tn hw' hn] at hty
  refine ⟨v, hv, hwire, ?_⟩
  rw [hp, ← Except.ok.inj hty, rustOf]

/-- a `@oneOf` member declared non-null (`T!`, `[T]!`, …) makes `inputItem` panic: the forced `!` meets the declared
    one (`decorate_type`: "double required annotation").  GraphQL requires `@oneOf` members to be nullable; neither
    schema front-end checks it. -/
theorem oneOf_member_nonnull_panics (c : Ctx) (i : StoredInput) (fname : String) (ty : FieldType) (rest : List (String × FieldType))
    (t : GTy) (tn : String) (hone : i.isOneOf = true) (hf : i.fields = (fname, ty) :: rest)
    (hq : ty.quals = GTy.quals (.nonNull t)) (hw : wf t = true) (hn : c.s.typeName ty.id = .ok tn) :
    inputItem c i = .error (.panic "double required annotation") := by
  unfold inputItem
  simp only [hone, ↓reduceIte, hf, List.mapM_cons, bind, Except.bind]
  have : inputFieldType c ty (.required :: ty.quals) = .error (.panic "double required annotation") := by
    unfold inputFieldType
    simp only [hn, bind, Except.bind]
    have : Qual.required :: ty.quals = GTy.quals (.nonNull (.nonNull t)) := by rw [hq]; rfl
    rw [this, decorate_double_required_panics _ t hw]
  rw [this]

/-! ## non-vacuity -/

theorem ok_of_isSome {ε α} {x : Except ε α} (h : x.toOption.isSome = true) : ∃ a, x = .ok a := by
  cases x with
  | error e => cases h
  | ok a => exact ⟨a, rfl⟩

/-- variable position on `kwCtx` (`$inArg: type!`, input object named by a keyword, `rust` normalization): the
    hypotheses of `variable_member_rule` hold and the member's type is the bare struct path -/
example : ∃ d sc fs rest, variablesItems kwCtx 0 = .ok (.struct "Variables" d sc fs :: rest) ∧
    ∃ f, fs[1]? = some f ∧ f.wire = "inArg" ∧ f.ty = .path "Ctype" := by
  obtain ⟨items, hv⟩ := ok_of_isSome (x := variablesItems kwCtx 0) (by decide +kernel)
  rcases variablesItems_shape kwCtx 0 items hv with ⟨he, _⟩ | ⟨_, fs, dfl, rfl, _⟩
  · exact absurd he (by decide +kernel)
  · obtain ⟨f, hf, hw, hty⟩ := variable_member_rule kwCtx 0 fs _ _ _ hv 1
      { opIdx := 0, name := "inArg", default := none, ty := { id := .input 0, quals := [.required] } } rfl
      (.nonNull (.named "type")) "type" rfl rfl rfl
    refine ⟨_, _, fs, _, hv, f, hf, hw, ?_⟩
    rw [hty]
    have : keywordReplace (kwCtx.o.normalization.fieldType kwCtx.cs "type") = "Ctype" := by decide +kernel
    rw [this]; simp [rustOf, rustOfNN]

/-- a recursive input object: `input Node { next: Node  kids: [Node!]  tag: Int! }` and a `@oneOf` input over it -/
def recSchema : Schema :=
  { scalars := Schema.defaultScalars,
    inputs := [{ name := "Node", fields := [("next", { id := .input 0, quals := [] }),
                                            ("kids", { id := .input 0, quals := [.list, .required] }),
                                            ("tag", { id := .scalar 2, quals := [.required] })], isOneOf := false },
               { name := "Sel", fields := [("byNode", { id := .input 0, quals := [] }), ("byId", { id := .scalar 0, quals := [.list] })],
                 isOneOf := true },
               { name := "Bad", fields := [("a", { id := .scalar 2, quals := [.required] })], isOneOf := true }] }

def recCtx : Ctx := { s := recSchema, q := {}, o := {}, cs := ⟨id, id⟩ }

/-- input-field position: `next: Node` is `Box<Option<Node>>` (target on a by-value cycle), `kids: [Node!]` is
    `Option<Vec<Node>>` behind the same `Box` decision (the generator boxes by *target*), `tag: Int!` is `Int` -/
example : ∃ n d sc fs, inputItem recCtx recSchema.inputs[0] = .ok (.struct n d sc fs) ∧
    fs.map (·.ty) = [.box (.opt (.path "Node")), .box (.opt (.vec (.path "Node"))), .path "Int"] := by
  obtain ⟨it, hi⟩ := ok_of_isSome (x := inputItem recCtx recSchema.inputs[0]) (by decide +kernel)
  rcases (inputItem_wires recCtx _ it hi).2 with ⟨h, _⟩ | ⟨_, n, d, sc, fs, rfl⟩
  · exact absurd h (by decide)
  · refine ⟨n, d, sc, fs, hi, ?_⟩
    obtain ⟨f0, hf0, _, h0⟩ := input_member_rule recCtx _ n d sc fs hi 0 "next" _ rfl (.named "Node") "Node" rfl rfl rfl
    obtain ⟨f1, hf1, _, h1⟩ := input_member_rule recCtx _ n d sc fs hi 1 "kids" _ rfl (.list (.nonNull (.named "Node"))) "Node" rfl rfl rfl
    obtain ⟨f2, hf2, _, h2⟩ := input_member_rule recCtx _ n d sc fs hi 2 "tag" _ rfl (.nonNull (.named "Int")) "Int" rfl rfl rfl
    have hlen : fs.length = 3 := by
      have := congrArg List.length (inputItem_struct_wires recCtx _ n d sc fs hi)
      simp only [List.length_map] at this
      exact this.trans (by decide)
    have hb : inputBoxed recCtx { id := .input 0, quals := [] } = true := by decide +kernel
    have hb1 : inputBoxed recCtx { id := .input 0, quals := [.list, .required] } = true := by decide +kernel
    have hb2 : inputBoxed recCtx { id := .scalar 2, quals := [.required] } = false := by decide +kernel
    match fs, hlen with
    | [a, b, c'], _ =>
      simp only [List.getElem?_cons_zero, List.getElem?_cons_succ, Option.some.injEq] at hf0 hf1 hf2
      subst hf0 hf1 hf2
      simp only [List.map_cons, List.map_nil, h0, h1, h2]
      rw [hb, hb1, hb2]
      simp [boxIf, rustOf, rustOfNN, Normalization.fieldType, Normalization.camelCase, recCtx]

/-- `@oneOf` position: `byNode: Node` carries `Box<Node>` (non-null forced, boxed), `byId: [ID]` carries `Vec<Option<ID>>` -/
example : ∃ n d sc vs, inputItem recCtx recSchema.inputs[1] = .ok (.oneOf n d sc vs) ∧
    vs.map (·.payload) = [some (.box (.path "Node")), some (.vec (.opt (.path "ID")))] := by
  obtain ⟨it, hi⟩ := ok_of_isSome (x := inputItem recCtx recSchema.inputs[1]) (by decide +kernel)
  rcases (inputItem_wires recCtx _ it hi).2 with ⟨_, n, d, sc, vs, rfl⟩ | ⟨h, _⟩
  · refine ⟨n, d, sc, vs, hi, ?_⟩
    obtain ⟨v0, hv0, _, h0⟩ := oneOf_member_rule recCtx _ n d sc vs hi 0 "byNode" _ rfl (.named "Node") "Node" rfl rfl rfl rfl
    obtain ⟨v1, hv1, _, h1⟩ := oneOf_member_rule recCtx _ n d sc vs hi 1 "byId" _ rfl (.list (.named "ID")) "ID" rfl rfl rfl rfl
    have hlen : vs.length = 2 := by
      have := congrArg List.length (inputItem_oneOf_wires recCtx _ n d sc vs hi)
      simp only [List.length_map] at this
      exact this.trans (by decide)
    have hb : inputBoxed recCtx { id := .input 0, quals := [] } = true := by decide +kernel
    have hb1 : inputBoxed recCtx { id := .scalar 0, quals := [.list] } = false := by decide +kernel
    match vs, hlen with
    | [a, b], _ =>
      simp only [List.getElem?_cons_zero, List.getElem?_cons_succ, Option.some.injEq] at hv0 hv1
      subst hv0 hv1
      simp only [List.map_cons, List.map_nil, h0, h1]
      rw [hb, hb1]
      simp [boxIf, rustOf, rustOfNN, Normalization.fieldType, Normalization.camelCase, recCtx]
  · exact absurd h (by decide)

/-- `@oneOf` member declared `Int!`: the generator panics -/
example : inputItem recCtx recSchema.inputs[2] = .error (.panic "double required annotation") :=
  oneOf_member_nonnull_panics recCtx _ "a" _ [] (.named "Int") "Int" rfl rfl rfl rfl rfl

end Composed
end GqlVerif
