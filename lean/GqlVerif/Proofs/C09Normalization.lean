import GqlVerif.Proofs.C09NormSerde
import GqlVerif.Proofs.C09NormCodegen
/-!
# C09 — module-level wire equality under `normalization`

`normalization = rust` renames Rust type identifiers (enum, input and scalar-alias names, hence the leaves of
field types) and the identifiers of enum variants; it must not change the wire.

* `Proofs/C09NormSerde.lean` — Serde half: `EnvRen`, `VRel`, `de_rename`, `ser_rename`, `roundtrip_rename`;
* `Proofs/C09NormCodegen.lean` — codegen half: `normalization_only_renames` / `normalization_modRel`
  (equal items up to names, under `IdStable`);
* this file — `envRen_of_erase` (equal up to names + `RenameInjective` ⇒ `EnvRen` for the correspondence `Corr`
  read off the two modules), **`normalization_wire_invariant`**, a concrete instance satisfying all
  hypotheses, and witnesses that each part of the side conditions is needed.
-/
namespace GqlVerif
namespace C09N
open Serde Codegen C09

/-! ## the correspondence of names between two modules of the same shape -/

/-- the types of an item that serde follows -/
def itemTys : Item → List RTy
  | .struct _ _ _ fs => fs.map (·.ty)
  | .tagged _ _ _ _ vs => vs.filterMap (·.payload)
  | .alias _ _ t => [t]
  | .oneOf _ _ _ vs => vs.filterMap (·.payload)
  | _ => []

/-- names at corresponding positions of two items: the item names, then the leaves of their types -/
def itemPairs (it it' : Item) : List (String × String) :=
  (it.name, it'.name) :: ((itemTys it).map tyLeaf).zip ((itemTys it').map tyLeaf)

def externPairs (x x' : String × RTy) : List (String × String) := [(x.1, x'.1), (tyLeaf x.2, tyLeaf x'.2)]

/-- all pairs of names at corresponding positions of two environments -/
def envPairs (e e' : Env) : List (String × String) :=
  (e.items.zip e'.items).flatMap (fun x => itemPairs x.1 x.2) ++
  (e.externs.zip e'.externs).flatMap (fun x => externPairs x.1 x.2)

/-- `a` (a name of `e`) and `b` (a name of `e'`) occur at corresponding positions -/
def Corr (e e' : Env) (a b : String) : Prop := (a, b) ∈ envPairs e e'

/-- the tables of two corresponding string enums: each `Serialize` table is the inverse of the `Deserialize`
    table, and the identifiers at the same positions have the same kernel -/
def EnumOK : Item → Item → Prop
  | .gqlEnum _ _ _ _ ser de, .gqlEnum _ _ _ _ ser' de' =>
    ser = de.map Prod.swap ∧ ser' = de'.map Prod.swap ∧ KernelEq (identPairs de de')
  | _, _ => True

instance (it it' : Item) : Decidable (EnumOK it it') := by
  cases it <;> cases it' <;> (simp only [EnumOK]; infer_instance)

/-- **the side condition**: the correspondence of names between the two modules is a partial bijection
    (same name ↔ same name), relates a prelude name only to itself, and the variant identifiers of each enum
    are renamed injectively (same kernel) -/
def RenameInjective (e e' : Env) : Prop :=
  KernelEq (envPairs e e') ∧
  (∀ x ∈ envPairs e e', (isPrimName x.1 = true ∨ isPrimName x.2 = true) → x.1 = x.2) ∧
  (∀ x ∈ e.items.zip e'.items, EnumOK x.1 x.2)

instance (e e' : Env) : Decidable (RenameInjective e e') := by unfold RenameInjective; infer_instance

/-! ## from "equal up to names" to `EnvRen` -/

section bridge
variable {R : String → String → Prop}

theorem tyRen_of_erase : ∀ {t t' : RTy}, eraseTy t = eraseTy t' → R (tyLeaf t) (tyLeaf t') → TyRen R t t' := by
  intro t
  induction t with
  | path p => intro t' h hr; cases t' <;> simp only [eraseTy, reduceCtorEq] at h; exact hr
  | opt t ih => intro t' h hr; cases t' <;> simp only [eraseTy, reduceCtorEq, RTy.opt.injEq] at h; exact ih h hr
  | vec t ih => intro t' h hr; cases t' <;> simp only [eraseTy, reduceCtorEq, RTy.vec.injEq] at h; exact ih h hr
  | box t ih => intro t' h hr; cases t' <;> simp only [eraseTy, reduceCtorEq, RTy.box.injEq] at h; exact ih h hr

theorem fieldRen_of_erase {f f' : RField} (h : eraseField f = eraseField f') (hr : R (tyLeaf f.ty) (tyLeaf f'.ty)) :
    FieldRen R f f' := by
  simp only [eraseField, RField.mk.injEq] at h
  obtain ⟨h1, h2, h3, h4, h5, h6, h7, _⟩ := h
  exact ⟨h1.symm, h2.symm, tyRen_of_erase h3 hr, h4.symm, h5.symm, h6.symm, h7.symm⟩

theorem fieldsRen_of_erase : ∀ {fs fs' : List RField}, fs.map eraseField = fs'.map eraseField →
    (∀ x ∈ ((fs.map (·.ty)).map tyLeaf).zip ((fs'.map (·.ty)).map tyLeaf), R x.1 x.2) → All2 (FieldRen R) fs fs'
  | [], [], _, _ => .nil
  | [], _ :: _, h, _ => by simp at h
  | _ :: _, [], h, _ => by simp at h
  | f :: fs, f' :: fs', h, hr => by
    simp only [List.map_cons, List.cons.injEq] at h
    simp only [List.map_cons, List.zip_cons_cons, List.mem_cons, forall_eq_or_imp] at hr
    exact .cons (fieldRen_of_erase h.1 hr.1) (fieldsRen_of_erase h.2 hr.2)

theorem variantsRen_of_erase : ∀ {vs vs' : List RVariant}, vs.map eraseVariant = vs'.map eraseVariant →
    (∀ x ∈ ((vs.filterMap (·.payload)).map tyLeaf).zip ((vs'.filterMap (·.payload)).map tyLeaf), R x.1 x.2) →
    All2 (VariantRen R) vs vs'
  | [], [], _, _ => .nil
  | [], _ :: _, h, _ => by simp at h
  | _ :: _, [], h, _ => by simp at h
  | v :: vs, v' :: vs', h, hr => by
    simp only [List.map_cons, List.cons.injEq] at h
    obtain ⟨hv, hvs⟩ := h
    simp only [eraseVariant, RVariant.mk.injEq] at hv
    obtain ⟨h1, h2, h3, h4⟩ := hv
    cases hp : v.payload with
    | none =>
      cases hp' : v'.payload with
      | none =>
        simp only [List.filterMap_cons, hp, hp'] at hr
        exact .cons ⟨h1.symm, h2.symm, by simp only [hp, hp', OptTyRen], h4.symm⟩ (variantsRen_of_erase hvs hr)
      | some t' => simp [hp, hp'] at h3
    | some t =>
      cases hp' : v'.payload with
      | none => simp [hp, hp'] at h3
      | some t' =>
        simp only [List.filterMap_cons, hp, hp', List.map_cons, List.zip_cons_cons, List.mem_cons, forall_eq_or_imp] at hr
        simp only [hp, hp', Option.map_some, Option.some.injEq] at h3
        exact .cons ⟨h1.symm, h2.symm, by simp only [hp, hp', OptTyRen]; exact tyRen_of_erase h3 hr.1, h4.symm⟩
          (variantsRen_of_erase hvs hr.2)

theorem itemRen_of_erase {it it' : Item} (h : eraseItem it = eraseItem it') (hr : ∀ x ∈ itemPairs it it', R x.1 x.2)
    (hen : EnumOK it it') : ItemRen R it it' := by
  have hname : R it.name it'.name := hr (it.name, it'.name) (by simp [itemPairs])
  have htys : ∀ x ∈ ((itemTys it).map tyLeaf).zip ((itemTys it').map tyLeaf), R x.1 x.2 :=
    fun x hx => hr x (by simp only [itemPairs, List.mem_cons]; exact Or.inr hx)
  cases it <;> cases it' <;> simp only [eraseItem, reduceCtorEq] at h
  · simp only [Item.struct.injEq, true_and] at h
    exact .struct hname (fieldsRen_of_erase h htys)
  · exact .unitStruct hname
  · simp only [Item.tagged.injEq, true_and] at h
    obtain ⟨rfl, h⟩ := h
    exact .tagged hname (variantsRen_of_erase h htys)
  · simp only [Item.alias.injEq, true_and] at h
    exact .alias hname (tyRen_of_erase h (htys (tyLeaf _, tyLeaf _) (by simp [itemTys])))
  · simp only [Item.gqlEnum.injEq, true_and] at h
    simp only [EnumOK] at hen
    refine .gqlEnum hname ⟨?_, hen.1, hen.2.1, hen.2.2⟩
    have := congrArg (List.map (·.1)) h.2
    simpa [List.map_map, Function.comp_def] using this
  · simp only [Item.oneOf.injEq, true_and] at h
    exact .oneOf hname (variantsRen_of_erase h htys)
  · exact .defaults hname

theorem all2_of_map_eq {α γ} {S : α → α → Prop} {f : α → γ} : ∀ {l l' : List α}, l.map f = l'.map f →
    (∀ x ∈ l.zip l', f x.1 = f x.2 → S x.1 x.2) → All2 S l l'
  | [], [], _, _ => .nil
  | [], _ :: _, h, _ => by simp at h
  | _ :: _, [], h, _ => by simp at h
  | a :: l, b :: l', h, hs => by
    simp only [List.map_cons, List.cons.injEq] at h
    exact .cons (hs (a, b) (by simp) h.1) (all2_of_map_eq h.2 (fun x hx => hs x (by simp [List.zip_cons_cons, hx])))

end bridge

/-- two environments that are equal up to names and satisfy `RenameInjective` are related by `EnvRen`, for
    the correspondence `Corr` read off the two environments -/
theorem envRen_of_erase {e e' : Env} (hi : e.items.map eraseItem = e'.items.map eraseItem)
    (hx : e.externs.map (fun x => eraseTy x.2) = e'.externs.map (fun x => eraseTy x.2))
    (H : RenameInjective e e') : EnvRen (Corr e e') e e' where
  items := by
    refine all2_of_map_eq hi (fun x hx hex => itemRen_of_erase hex (fun y hy => ?_) (H.2.2 x hx))
    exact List.mem_append_left _ (List.mem_flatMap.mpr ⟨x, hx, hy⟩)
  externs := by
    refine all2_of_map_eq hx (fun x hx hex => ⟨?_, tyRen_of_erase hex ?_⟩)
    · exact List.mem_append_right _ (List.mem_flatMap.mpr ⟨x, hx, by simp [externPairs]⟩)
    · exact List.mem_append_right _ (List.mem_flatMap.mpr ⟨x, hx, by simp [externPairs]⟩)
  bij := fun a a' b b' h1 h2 => H.1 (a, a') h1 (b, b') h2
  prim := fun a a' h hp => H.2.1 (a, a') h hp

/-! ## the module-level theorem -/

theorem mem_zip_append {α} : ∀ (p p' : List α) (x y : α) (s s' : List α), p.length = p'.length →
    (x, y) ∈ (p ++ x :: s).zip (p' ++ y :: s')
  | [], [], _, _, _, _, _ => by simp
  | [], _ :: _, _, _, _, _, h => by simp at h
  | _ :: _, [], _, _, _, _, h => by simp at h
  | a :: p, b :: p', x, y, s, s', h => by
    simp only [List.cons_append, List.zip_cons_cons, List.mem_cons]
    exact Or.inr (mem_zip_append p p' x y s s' (by simpa using h))

theorem ei_length {a b : List Item} (h : EI a b) : a.length = b.length := by
  simpa using congrArg List.length h

theorem corr_of_zip {e e' : Env} {it it' : Item} (h : (it, it') ∈ e.items.zip e'.items) : Corr e e' it.name it'.name :=
  List.mem_append_left _ (List.mem_flatMap.mpr ⟨(it, it'), h, by simp [itemPairs]⟩)

/-- in two modules related by `ModRel`, `Variables` corresponds to `Variables` and `ResponseData` to `ResponseData` -/
theorem ModRel.corr {items items' : List Item} (h : ModRel items items') (x x' : List (String × RTy)) :
    Corr { items := items, externs := x } { items := items', externs := x' } "Variables" "Variables" ∧
    Corr { items := items, externs := x } { items := items', externs := x' } "ResponseData" "ResponseData" := by
  obtain ⟨pre, pre', vars, vars', mid, mid', resp, resp', rfl, rfl, h1, h2, h3, h4,
    ⟨v, vr, rfl, hv⟩, ⟨v', vr', rfl, hv'⟩, ⟨r, rr, rfl, hr⟩, ⟨r', rr', rfl, hr'⟩⟩ := h
  constructor
  · have := corr_of_zip (e := { items := pre ++ v :: vr ++ mid ++ r :: rr, externs := x })
      (e' := { items := pre' ++ v' :: vr' ++ mid' ++ r' :: rr', externs := x' }) (it := v) (it' := v')
      (by simpa only [List.append_assoc, List.cons_append] using
        mem_zip_append pre pre' v v' (vr ++ (mid ++ r :: rr)) (vr' ++ (mid' ++ r' :: rr')) (ei_length h1))
    rwa [hv, hv'] at this
  · have := corr_of_zip (e := { items := pre ++ v :: vr ++ mid ++ r :: rr, externs := x })
      (e' := { items := pre' ++ v' :: vr' ++ mid' ++ r' :: rr', externs := x' }) (it := r) (it' := r')
      (mem_zip_append (pre ++ v :: vr ++ mid) (pre' ++ v' :: vr' ++ mid') r r' rr rr' (by
        simp only [List.length_append, ei_length h1, ei_length h2, ei_length h3]))
    rwa [hr, hr'] at this

/-- **`normalization_wire_invariant`**.  Let `c₀`, `c₁` agree on everything except `normalization` (and the
    neutral options), let both generate a module, complete the two modules by consumer-supplied `externs` of
    the same shape.  If the correspondence of names between the two modules is injective (`RenameInjective`,
    decidable) then:
    1. the two environments are related by `EnvRen` (so `de_rename` / `ser_rename` / `roundtrip_rename` apply
       at every pair of corresponding types);
    2. they accept the same JSON at `ResponseData` (same error otherwise), with results equal up to the
       identifiers of enum variants;
    3. `to_value(from_value(j))` at `ResponseData` is the same JSON;
    4. corresponding `Variables` values are serialized to the same JSON. -/
theorem normalization_wire_invariant {c₀ c₁ : Ctx} (H : NormAgree c₀ c₁) (hid : IdStable c₀ c₁) (op : Nat)
    {items₀ items₁ : List Item} (h₀ : responseForQuery c₀ op = .ok items₀) (h₁ : responseForQuery c₁ op = .ok items₁)
    (x₀ x₁ : List (String × RTy)) (hx : x₀.map (fun x => eraseTy x.2) = x₁.map (fun x => eraseTy x.2))
    (hinj : RenameInjective { items := items₀, externs := x₀ } { items := items₁, externs := x₁ })
    (hwf : FieldsWF { items := items₀, externs := x₀ }) :
    let e₀ : Env := { items := items₀, externs := x₀ }
    let e₁ : Env := { items := items₁, externs := x₁ }
    EnvRen (Corr e₀ e₁) e₀ e₁ ∧
    (∀ j, DRel (VRel (Corr e₀ e₁) e₀ e₁ (.path "ResponseData"))
      (Serde.de e₀ (.path "ResponseData") j) (Serde.de e₁ (.path "ResponseData") j)) ∧
    (∀ j, DRel Eq (Serde.roundtrip e₀ (.path "ResponseData") j) (Serde.roundtrip e₁ (.path "ResponseData") j)) ∧
    (∀ v v', VRel (Corr e₀ e₁) e₀ e₁ (.path "Variables") v v' →
      DRel Eq (Serde.ser e₀ (.path "Variables") v) (Serde.ser e₁ (.path "Variables") v')) := by
  intro e₀ e₁
  have hm := normalization_modRel H hid op
  rw [h₀, h₁] at hm
  have hm' : ModRel items₀ items₁ := hm
  have henv : EnvRen (Corr e₀ e₁) e₀ e₁ := envRen_of_erase hm'.ei hx hinj
  obtain ⟨hv, hr⟩ := hm'.corr x₀ x₁
  exact ⟨henv, fun j => de_rename henv hwf (t := .path "ResponseData") (t' := .path "ResponseData") hr j,
    fun j => roundtrip_rename henv hwf (t := .path "ResponseData") (t' := .path "ResponseData") hr j,
    fun v v' hvv => ser_rename henv (t := .path "Variables") (t' := .path "Variables") hv hvv⟩

/-- spelled out: acceptance and the round trip at `ResponseData` -/
theorem normalization_wire_invariant' {c₀ c₁ : Ctx} (H : NormAgree c₀ c₁) (hid : IdStable c₀ c₁) (op : Nat)
    {items₀ items₁ : List Item} (h₀ : responseForQuery c₀ op = .ok items₀) (h₁ : responseForQuery c₁ op = .ok items₁)
    (x₀ x₁ : List (String × RTy)) (hx : x₀.map (fun x => eraseTy x.2) = x₁.map (fun x => eraseTy x.2))
    (hinj : RenameInjective { items := items₀, externs := x₀ } { items := items₁, externs := x₁ })
    (hwf : FieldsWF { items := items₀, externs := x₀ }) (j : Json) :
    (Serde.de { items := items₀, externs := x₀ } (.path "ResponseData") j).isOk =
      (Serde.de { items := items₁, externs := x₁ } (.path "ResponseData") j).isOk ∧
    ∀ out, Serde.roundtrip { items := items₀, externs := x₀ } (.path "ResponseData") j = .ok out ↔
      Serde.roundtrip { items := items₁, externs := x₁ } (.path "ResponseData") j = .ok out := by
  obtain ⟨henv, _, _, _⟩ := normalization_wire_invariant H hid op h₀ h₁ x₀ x₁ hx hinj hwf
  have hm := normalization_modRel H hid op
  rw [h₀, h₁] at hm
  have hr := ((show ModRel items₀ items₁ from hm).corr x₀ x₁).2
  exact ⟨de_rename_isOk henv hwf (t := .path "ResponseData") (t' := .path "ResponseData") hr j,
    fun out => roundtrip_rename_ok henv hwf (t := .path "ResponseData") (t' := .path "ResponseData") hr j out⟩

/-! ## a concrete instance, and the necessity of the side conditions -/

/-- a toy `to_upper_camel_case`, given by a table -/
def tblCamel (tbl : List (String × String)) (s : String) : String :=
  match tbl.find? (·.1 == s) with
  | some (_, t) => t
  | none => s

/-- schema: `scalar <sc1>`, `scalar <sc2>`, `enum color_kind { <v1> <v2> }`,
    `input filter_in { kind: color_kind, since: <sc1>! }`, `type Query { color: color_kind!, at: <sc1>, until: <sc2> }` -/
def exSchema (sc1 sc2 v1 v2 : String) : Schema :=
  { scalars := ["ID", "String", "Int", "Float", "Boolean", sc1, sc2],
    enums := [{ name := "color_kind", variants := [v1, v2] }],
    inputs := [{ name := "filter_in", isOneOf := false,
                 fields := [("kind", { id := .enum 0, quals := [] }), ("since", { id := .scalar 5, quals := [.required] })] }],
    objects := [{ name := "Query", fields := [0, 1, 2], implements := [] }],
    fields := [{ name := "color", ty := { id := .enum 0, quals := [.required] }, parent := .object 0, deprecation := none },
               { name := "at", ty := { id := .scalar 5, quals := [] }, parent := .object 0, deprecation := none },
               { name := "until", ty := { id := .scalar 6, quals := [] }, parent := .object 0, deprecation := none }],
    queryType := some 0 }

/-- `query Q($f: filter_in) { color at until }` -/
def exQuery : Query :=
  { operations := [{ name := "Q", kind := .query, objectId := 0,
                     sels := [.field none 0 [], .field none 1 [], .field none 2 []] }],
    variables := [{ opIdx := 0, name := "f", default := none, ty := { id := .input 0, quals := [] } }] }

def exCtx (s : Schema) (tbl : List (String × String)) (nz : Normalization) : Ctx :=
  { s := s, q := exQuery, o := { normalization := nz }, cs := { snake := id, camel := tblCamel tbl } }

theorem exCtx_normAgree (s : Schema) (tbl : List (String × String)) : NormAgree (exCtx s tbl .none) (exCtx s tbl .rust) :=
  { s := rfl, q := rfl, cs := rfl, otherVariant := rfl, skipNone := rfl, deprecation := rfl, externEnums := rfl }

/-- the generated items (`[]` if generation fails) -/
def itemsOf (c : Ctx) : List Item := match responseForQuery c 0 with | .ok i => i | .error _ => []

def genOk (c : Ctx) : Bool := match responseForQuery c 0 with | .ok _ => true | .error _ => false

theorem itemsOf_ok {c : Ctx} (h : genOk c = true) : responseForQuery c 0 = .ok (itemsOf c) := by
  unfold genOk at h; unfold itemsOf
  cases hr : responseForQuery c 0 with
  | error err => rw [hr] at h; cases h
  | ok i => rfl

def sameShape (x₀ x₁ : List (String × RTy)) : Prop := x₀.map (fun x => eraseTy x.2) = x₁.map (fun x => eraseTy x.2)
instance (x₀ x₁ : List (String × RTy)) : Decidable (sameShape x₀ x₁) := by unfold sameShape; infer_instance

/-- what the field `color` of a JSON result is -/
def colorOf : D Json → Option String
  | .ok (.obj kvs) => match Json.lookup "color" kvs with | some (.str s) => some s | _ => none
  | _ => none

theorem not_drel_of_colorOf {x y : D Json} {a b : String} (hx : colorOf x = some a) (hy : colorOf y = some b) (hab : a ≠ b) :
    ¬ DRel Eq x y := by
  intro h
  cases x <;> cases y <;> simp only [DRel] at h
  · simp [colorOf] at hx
  · subst h; rw [hx] at hy; exact hab (Option.some.inj hy)

theorem not_drel_of_isOk {α β} {S : α → β → Prop} {x : D α} {y : D β} (h : x.isOk ≠ y.isOk) : ¬ DRel S x y := by
  intro hr
  cases x <;> cases y <;> simp_all [DRel, Except.isOk, Except.toBool]

/-! ### all hypotheses hold of a non-trivial instance -/

def okTbl : List (String × String) :=
  [("color_kind", "ColorKind"), ("red", "Red"), ("dark_blue", "DarkBlue"), ("filter_in", "FilterIn"),
   ("date_time", "DateTime"), ("url", "Url")]
def okSchema : Schema := exSchema "date_time" "url" "red" "dark_blue"
def okX₀ : List (String × RTy) := [("super::date_time", .path "String"), ("super::url", .path "String")]
def okX₁ : List (String × RTy) := [("super::DateTime", .path "String"), ("super::Url", .path "String")]
def okE₀ : Env := { items := itemsOf (exCtx okSchema okTbl .none), externs := okX₀ }
def okE₁ : Env := { items := itemsOf (exCtx okSchema okTbl .rust), externs := okX₁ }

set_option maxRecDepth 100000 in
/-- both modules are generated, they differ (`color_kind` / `ColorKind`, `red` / `Red`, …), and `IdStable`,
    `RenameInjective`, `FieldsWF` and the shape condition on the externs hold -/
example :
    responseForQuery (exCtx okSchema okTbl .none) 0 = .ok okE₀.items ∧
    responseForQuery (exCtx okSchema okTbl .rust) 0 = .ok okE₁.items ∧
    (okE₀.items != okE₁.items) = true ∧
    NormAgree (exCtx okSchema okTbl .none) (exCtx okSchema okTbl .rust) ∧
    IdStable (exCtx okSchema okTbl .none) (exCtx okSchema okTbl .rust) ∧
    sameShape okX₀ okX₁ ∧ RenameInjective okE₀ okE₁ ∧ FieldsWF okE₀ :=
  ⟨itemsOf_ok (by decide +kernel), itemsOf_ok (by decide +kernel), by decide +kernel, exCtx_normAgree _ _,
   by decide +kernel, by decide +kernel, by decide +kernel, by decide +kernel⟩

/-! ### each side condition is needed

In each witness both modules are generated by the model, `NormAgree` holds, and exactly the named condition
fails; the wire behaviour at `ResponseData` differs. -/

def rd : RTy := .path "ResponseData"

/-- **W1 — variant identifiers** (`EnumOK`, third part of `RenameInjective`): `enum color_kind { foo_bar fooBar }`,
    both values become `FooBar`.  Names and prelude names are fine; the reply `{"color": "fooBar"}` is written
    back as `"fooBar"` by the first module and as `"foo_bar"` by the second. -/
def w1Tbl : List (String × String) :=
  [("color_kind", "ColorKind"), ("foo_bar", "FooBar"), ("fooBar", "FooBar"), ("filter_in", "FilterIn"),
   ("date_time", "DateTime"), ("url", "Url")]
def w1Schema : Schema := exSchema "date_time" "url" "foo_bar" "fooBar"
def w1E₀ : Env := { items := itemsOf (exCtx w1Schema w1Tbl .none), externs := okX₀ }
def w1E₁ : Env := { items := itemsOf (exCtx w1Schema w1Tbl .rust), externs := okX₁ }
def w1Json : Json := .obj [("color", .str "fooBar")]

set_option maxRecDepth 100000 in
theorem witness_variant_identifiers :
    responseForQuery (exCtx w1Schema w1Tbl .none) 0 = .ok w1E₀.items ∧
    responseForQuery (exCtx w1Schema w1Tbl .rust) 0 = .ok w1E₁.items ∧
    IdStable (exCtx w1Schema w1Tbl .none) (exCtx w1Schema w1Tbl .rust) ∧ sameShape okX₀ okX₁ ∧ FieldsWF w1E₀ ∧
    KernelEq (envPairs w1E₀ w1E₁) ∧
    (∀ x ∈ envPairs w1E₀ w1E₁, (isPrimName x.1 = true ∨ isPrimName x.2 = true) → x.1 = x.2) ∧
    ¬ (∀ x ∈ w1E₀.items.zip w1E₁.items, EnumOK x.1 x.2) ∧ ¬ RenameInjective w1E₀ w1E₁ ∧
    ¬ DRel Eq (Serde.roundtrip w1E₀ rd w1Json) (Serde.roundtrip w1E₁ rd w1Json) :=
  ⟨itemsOf_ok (by decide +kernel), itemsOf_ok (by decide +kernel), by decide +kernel, by decide +kernel,
   by decide +kernel, by decide +kernel, by decide +kernel, by decide +kernel, by decide +kernel,
   not_drel_of_colorOf (a := "fooBar") (b := "foo_bar") (by decide +kernel) (by decide +kernel) (by decide)⟩

/-- **W2 — injectivity on type names** (`KernelEq (envPairs ..)`): `scalar date_time`, `scalar dateTime` both
    become `DateTime`; the consumer supplies `String` for the first and `i64` for the second.  The reply
    `{"color": "red", "at": "x", "until": 5}` is accepted by the first module and rejected by the second. -/
def w2Tbl : List (String × String) :=
  [("color_kind", "ColorKind"), ("red", "Red"), ("dark_blue", "DarkBlue"), ("filter_in", "FilterIn"),
   ("date_time", "DateTime"), ("dateTime", "DateTime")]
def w2Schema : Schema := exSchema "date_time" "dateTime" "red" "dark_blue"
def w2X₀ : List (String × RTy) := [("super::date_time", .path "String"), ("super::dateTime", .path "i64")]
def w2X₁ : List (String × RTy) := [("super::DateTime", .path "String"), ("super::DateTime", .path "i64")]
def w2E₀ : Env := { items := itemsOf (exCtx w2Schema w2Tbl .none), externs := w2X₀ }
def w2E₁ : Env := { items := itemsOf (exCtx w2Schema w2Tbl .rust), externs := w2X₁ }
def w2Json : Json := .obj [("color", .str "red"), ("at", .str "x"), ("until", .int 5)]

set_option maxRecDepth 100000 in
theorem witness_type_name_injectivity :
    responseForQuery (exCtx w2Schema w2Tbl .none) 0 = .ok w2E₀.items ∧
    responseForQuery (exCtx w2Schema w2Tbl .rust) 0 = .ok w2E₁.items ∧
    IdStable (exCtx w2Schema w2Tbl .none) (exCtx w2Schema w2Tbl .rust) ∧ sameShape w2X₀ w2X₁ ∧ FieldsWF w2E₀ ∧
    ¬ KernelEq (envPairs w2E₀ w2E₁) ∧
    (∀ x ∈ envPairs w2E₀ w2E₁, (isPrimName x.1 = true ∨ isPrimName x.2 = true) → x.1 = x.2) ∧
    (∀ x ∈ w2E₀.items.zip w2E₁.items, EnumOK x.1 x.2) ∧ ¬ RenameInjective w2E₀ w2E₁ ∧
    (Serde.de w2E₀ rd w2Json).isOk = true ∧ (Serde.de w2E₁ rd w2Json).isOk = false :=
  ⟨itemsOf_ok (by decide +kernel), itemsOf_ok (by decide +kernel), by decide +kernel, by decide +kernel,
   by decide +kernel, by decide +kernel, by decide +kernel, by decide +kernel, by decide +kernel,
   by decide +kernel, by decide +kernel⟩

/-- **W3 — no name is mapped onto a prelude name** (second part of `RenameInjective`): `scalar string` becomes
    `String`; the consumer supplies `i64`.  `{"color": "red", "at": 5}` is accepted by the first module; in the
    second `at : Option<String>` resolves to the prelude `String` and the reply is rejected. -/
def w3Tbl : List (String × String) :=
  [("color_kind", "ColorKind"), ("red", "Red"), ("dark_blue", "DarkBlue"), ("filter_in", "FilterIn"),
   ("string", "String"), ("url", "Url")]
def w3Schema : Schema := exSchema "string" "url" "red" "dark_blue"
def w3X₀ : List (String × RTy) := [("super::string", .path "i64"), ("super::url", .path "i64")]
def w3X₁ : List (String × RTy) := [("super::String", .path "i64"), ("super::Url", .path "i64")]
def w3E₀ : Env := { items := itemsOf (exCtx w3Schema w3Tbl .none), externs := w3X₀ }
def w3E₁ : Env := { items := itemsOf (exCtx w3Schema w3Tbl .rust), externs := w3X₁ }
def w3Json : Json := .obj [("color", .str "red"), ("at", .int 5)]

set_option maxRecDepth 100000 in
theorem witness_prelude_name :
    responseForQuery (exCtx w3Schema w3Tbl .none) 0 = .ok w3E₀.items ∧
    responseForQuery (exCtx w3Schema w3Tbl .rust) 0 = .ok w3E₁.items ∧
    IdStable (exCtx w3Schema w3Tbl .none) (exCtx w3Schema w3Tbl .rust) ∧ sameShape w3X₀ w3X₁ ∧ FieldsWF w3E₀ ∧
    ¬ (∀ x ∈ envPairs w3E₀ w3E₁, (isPrimName x.1 = true ∨ isPrimName x.2 = true) → x.1 = x.2) ∧
    (∀ x ∈ w3E₀.items.zip w3E₁.items, EnumOK x.1 x.2) ∧ ¬ RenameInjective w3E₀ w3E₁ ∧
    (Serde.de w3E₀ rd w3Json).isOk = true ∧ (Serde.de w3E₁ rd w3Json).isOk = false :=
  ⟨itemsOf_ok (by decide +kernel), itemsOf_ok (by decide +kernel), by decide +kernel, by decide +kernel,
   by decide +kernel, by decide +kernel, by decide +kernel, by decide +kernel, by decide +kernel, by decide +kernel⟩

/-- **W4 — `IdStable`**: `scalar I_D` becomes `ID`; the generator then treats the field as a GraphQL `ID` and
    attaches `deserialize_with = deserialize_option_id`: the two modules are *not* equal up to names, and
    `{"color": "red", "at": 5}` is rejected by the first (a `String` is expected) and accepted by the second. -/
def w4Tbl : List (String × String) :=
  [("color_kind", "ColorKind"), ("red", "Red"), ("dark_blue", "DarkBlue"), ("filter_in", "FilterIn"),
   ("I_D", "ID"), ("url", "Url")]
def w4Schema : Schema := exSchema "I_D" "url" "red" "dark_blue"
def w4X₀ : List (String × RTy) := [("super::I_D", .path "String"), ("super::url", .path "String")]
def w4X₁ : List (String × RTy) := [("super::ID", .path "String"), ("super::Url", .path "String")]
def w4E₀ : Env := { items := itemsOf (exCtx w4Schema w4Tbl .none), externs := w4X₀ }
def w4E₁ : Env := { items := itemsOf (exCtx w4Schema w4Tbl .rust), externs := w4X₁ }

set_option maxRecDepth 100000 in
theorem witness_idStable :
    responseForQuery (exCtx w4Schema w4Tbl .none) 0 = .ok w4E₀.items ∧
    responseForQuery (exCtx w4Schema w4Tbl .rust) 0 = .ok w4E₁.items ∧
    ¬ IdStable (exCtx w4Schema w4Tbl .none) (exCtx w4Schema w4Tbl .rust) ∧ sameShape w4X₀ w4X₁ ∧ FieldsWF w4E₀ ∧
    (w4E₀.items.map eraseItem != w4E₁.items.map eraseItem) = true ∧
    (Serde.de w4E₀ rd w3Json).isOk = false ∧ (Serde.de w4E₁ rd w3Json).isOk = true :=
  ⟨itemsOf_ok (by decide +kernel), itemsOf_ok (by decide +kernel), by decide +kernel, by decide +kernel,
   by decide +kernel, by decide +kernel, by decide +kernel, by decide +kernel⟩

/-- on the concrete instance the theorem gives: the same round trip for every reply, the same JSON for
    corresponding `Variables` -/
example (j : Json) : DRel Eq (Serde.roundtrip okE₀ rd j) (Serde.roundtrip okE₁ rd j) :=
  (normalization_wire_invariant (exCtx_normAgree okSchema okTbl) (by decide +kernel) 0
    (itemsOf_ok (by decide +kernel)) (itemsOf_ok (by decide +kernel)) okX₀ okX₁ (by decide +kernel)
    (by decide +kernel) (by decide +kernel)).2.2.1 j

/-- for the enums the generator emits, `EnumOK` is exactly: the two identifier lists have the same kernel -/
theorem enumOK_enumItem (c c' : Ctx) (e : StoredEnum) :
    EnumOK (enumItem c e) (enumItem c' e) ↔
    KernelEq ((e.variants.map fun v => keywordReplace (c.o.normalization.enumVariant c.cs v)).zip
              (e.variants.map fun v => keywordReplace (c'.o.normalization.enumVariant c'.cs v))) := by
  simp only [enumItem, EnumOK, identPairs, List.map_map, Function.comp_def, Prod.swap, true_and]

end C09N
end GqlVerif
