import GqlVerif.Proofs.C07Permutations
/-!
# C07 / P31 (part A) — `Resolve.resolve` commutes with a renumbering of the TYPE ids

`Proofs/C07Permutations.lean`: listing the definitions of a kind in another order renumbers the type ids of the
intermediate `Schema` (`Schema.mapTypes`).  This file sets up the abstract notion and the first half of the argument:

* `Ren` — one map `Nat → Nat` per kind (and one for the owner recorded in a stored field, which nothing reads); `Ren.tid` the induced map on `TypeId`; `Ren.Inj` — all six maps injective
  (on **all** naturals: the concrete renumbering `renOf` of part C is the identity outside the tables, so that no
  "id in range" invariant has to be carried through the resolved query);
* `TypeIso R s t` — `t` is `s` with the type ids renumbered by `R` and the per-kind tables reordered accordingly
  (look-ups commute: `t.objects[R.obj i]? = s.objects[i]?.map R.object`, …; the field table keeps its order; the object
  and the input tables are permutations of the renumbered tables);
* `tQ R` — the renumbering of a resolved query (inline conditions, fragment conditions, operation roots, variable
  types; field ids and fragment ids are untouched);
* **`resolve_tiso`** — `Resolve.resolve t doc = (Resolve.resolve s doc).map (tQ R)`: an equality of outcomes, errors
  included, for every document.
-/
set_option linter.unusedSectionVars false
set_option linter.unusedVariables false
set_option linter.unusedSimpArgs false

namespace GqlVerif
namespace C07P
open Resolve Codegen C07

/-- a renumbering of the ids of every kind -/
structure Ren where
  obj : Nat → Nat
  sc : Nat → Nat
  ifc : Nat → Nat
  un : Nat → Nat
  en : Nat → Nat
  inp : Nat → Nat
  /-- what happens to the owner recorded in a stored field (never read by `resolve` / `generate`) -/
  par : FieldParent → FieldParent

namespace Ren
def tid (R : Ren) : TypeId → TypeId
  | .object i => .object (R.obj i)
  | .scalar i => .scalar (R.sc i)
  | .interface i => .interface (R.ifc i)
  | .union i => .union (R.un i)
  | .enum i => .enum (R.en i)
  | .input i => .input (R.inp i)
def parent (R : Ren) : FieldParent → FieldParent := R.par
def ft (R : Ren) (t : FieldType) : FieldType := { t with id := R.tid t.id }
def field (R : Ren) (f : StoredField) : StoredField := { f with ty := R.ft f.ty, parent := R.parent f.parent }
def object (R : Ren) (o : StoredObject) : StoredObject := { o with implements := o.implements.map R.ifc }
def union (R : Ren) (u : StoredUnion) : StoredUnion := { u with variants := u.variants.map R.tid }
def input (R : Ren) (i : StoredInput) : StoredInput := { i with fields := i.fields.map fun p => (p.1, R.ft p.2) }

structure Inj (R : Ren) : Prop where
  obj : ∀ i j, R.obj i = R.obj j → i = j
  sc : ∀ i j, R.sc i = R.sc j → i = j
  ifc : ∀ i j, R.ifc i = R.ifc j → i = j
  un : ∀ i j, R.un i = R.un j → i = j
  en : ∀ i j, R.en i = R.en j → i = j
  inp : ∀ i j, R.inp i = R.inp j → i = j

theorem Inj.tid {R : Ren} (h : R.Inj) : ∀ a b, R.tid a = R.tid b → a = b := by
  intro a b hab
  cases a <;> cases b <;> simp only [Ren.tid] at hab <;> (try (exact TypeId.noConfusion hab))
  · rw [h.obj _ _ (TypeId.object.inj hab)]
  · rw [h.sc _ _ (TypeId.scalar.inj hab)]
  · rw [h.ifc _ _ (TypeId.interface.inj hab)]
  · rw [h.un _ _ (TypeId.union.inj hab)]
  · rw [h.en _ _ (TypeId.enum.inj hab)]
  · rw [h.inp _ _ (TypeId.input.inj hab)]

theorem Inj.tid_beq {R : Ren} (h : R.Inj) (a b : TypeId) : (R.tid a == R.tid b) = (a == b) := by
  by_cases hab : a = b
  · subst hab; simp
  · have : R.tid a ≠ R.tid b := fun e => hab (h.tid _ _ e)
    rw [beq_false_of_ne this, beq_false_of_ne hab]

theorem Inj.contains_tid {R : Ren} (h : R.Inj) (l : List TypeId) (a : TypeId) :
    (l.map R.tid).contains (R.tid a) = l.contains a := by
  induction l with
  | nil => rfl
  | cons x l ih => simp only [List.map_cons, List.contains_cons, ih, h.tid_beq a x]

theorem contains_map_inj (f : Nat → Nat) (hf : ∀ i j, f i = f j → i = j) (l : List Nat) (a : Nat) :
    (l.map f).contains (f a) = l.contains a := by
  induction l with
  | nil => rfl
  | cons x l ih =>
    rw [List.map_cons, List.contains_cons, List.contains_cons, ih]
    congr 1
    by_cases hax : a = x
    · subst hax; simp
    · have : f a ≠ f x := fun e => hax (hf _ _ e)
      rw [beq_false_of_ne this, beq_false_of_ne hax]

theorem tid_object (R : Ren) (i : Nat) : R.tid (.object i) = .object (R.obj i) := rfl
theorem tid_scalar (R : Ren) (i : Nat) : R.tid (.scalar i) = .scalar (R.sc i) := rfl
theorem tid_interface (R : Ren) (i : Nat) : R.tid (.interface i) = .interface (R.ifc i) := rfl
theorem tid_union (R : Ren) (i : Nat) : R.tid (.union i) = .union (R.un i) := rfl
theorem tid_enum (R : Ren) (i : Nat) : R.tid (.enum i) = .enum (R.en i) := rfl
theorem tid_input (R : Ren) (i : Nat) : R.tid (.input i) = .input (R.inp i) := rfl
@[simp] theorem tid_isAbstract (R : Ren) (a : TypeId) : (R.tid a).isAbstract = a.isAbstract := by cases a <;> rfl
@[simp] theorem ft_quals (R : Ren) (t : FieldType) : (R.ft t).quals = t.quals := rfl
@[simp] theorem ft_id (R : Ren) (t : FieldType) : (R.ft t).id = R.tid t.id := rfl
@[simp] theorem field_name (R : Ren) (f : StoredField) : (R.field f).name = f.name := rfl
@[simp] theorem field_ty (R : Ren) (f : StoredField) : (R.field f).ty = R.ft f.ty := rfl
@[simp] theorem field_dep (R : Ren) (f : StoredField) : (R.field f).deprecation = f.deprecation := rfl
@[simp] theorem object_name (R : Ren) (o : StoredObject) : (R.object o).name = o.name := rfl
@[simp] theorem object_fields (R : Ren) (o : StoredObject) : (R.object o).fields = o.fields := rfl
@[simp] theorem object_implements (R : Ren) (o : StoredObject) : (R.object o).implements = o.implements.map R.ifc := rfl
@[simp] theorem union_name (R : Ren) (o : StoredUnion) : (R.union o).name = o.name := rfl
@[simp] theorem union_variants (R : Ren) (o : StoredUnion) : (R.union o).variants = o.variants.map R.tid := rfl
@[simp] theorem input_name (R : Ren) (o : StoredInput) : (R.input o).name = o.name := rfl
@[simp] theorem input_isOneOf (R : Ren) (o : StoredInput) : (R.input o).isOneOf = o.isOneOf := rfl
@[simp] theorem input_fields (R : Ren) (o : StoredInput) :
    (R.input o).fields = o.fields.map fun p => (p.1, R.ft p.2) := rfl
end Ren

/-- `t` is `s` with the type ids renumbered by `R` -/
structure TypeIso (R : Ren) (s t : Schema) : Prop where
  inj : R.Inj
  fields : t.fields = s.fields.map R.field
  objAt : ∀ i, t.objects[R.obj i]? = (s.objects[i]?).map R.object
  ifcAt : ∀ i, t.interfaces[R.ifc i]? = s.interfaces[i]?
  unAt : ∀ i, t.unions[R.un i]? = (s.unions[i]?).map R.union
  scAt : ∀ i, t.scalars[R.sc i]? = s.scalars[i]?
  enAt : ∀ i, t.enums[R.en i]? = s.enums[i]?
  inpAt : ∀ i, t.inputs[R.inp i]? = (s.inputs[i]?).map R.input
  objsPerm : t.objects.zipIdx.Perm (s.objects.zipIdx.map fun p => (R.object p.1, R.obj p.2))
  inpsPerm : t.inputs.zipIdx.Perm (s.inputs.zipIdx.map fun p => (R.input p.1, R.inp p.2))
  names : t.names = s.names.map fun p => (p.1, R.tid p.2)
  queryType : t.queryType = s.queryType.map R.obj
  mutationType : t.mutationType = s.mutationType.map R.obj
  subscriptionType : t.subscriptionType = s.subscriptionType.map R.obj

/-! ## the renumbering of a resolved query -/

mutual
  def tSel (R : Ren) : Sel → Sel
    | .field a fid sub => .field a fid (tSels R sub)
    | .inline t sub => .inline (R.tid t) (tSels R sub)
    | .spread f => .spread f
    | .typename => .typename
  def tSels (R : Ren) : List Sel → List Sel
    | [] => []
    | x :: xs => tSel R x :: tSels R xs
end

theorem tSels_eq_map (R : Ren) (l : List Sel) : tSels R l = l.map (tSel R) := by
  induction l with
  | nil => rfl
  | cons x l ih => rw [tSels, ih]; rfl

def tFrag (R : Ren) (f : RFragment) : RFragment := { f with on := R.tid f.on, sels := tSels R f.sels }
def tOp (R : Ren) (o : ROperation) : ROperation := { o with objectId := R.obj o.objectId, sels := tSels R o.sels }
def tVar (R : Ren) (v : RVariable) : RVariable := { v with ty := R.ft v.ty }
def tQ (R : Ren) (q : Query) : Query :=
  { fragments := q.fragments.map (tFrag R), operations := q.operations.map (tOp R), variables := q.variables.map (tVar R) }

section Acc
variable {R : Ren} {s t : Schema} (h : TypeIso R s t)
include h

theorem TypeIso.getField (i : Nat) : t.getField i = (s.getField i).map R.field := by
  simp only [Schema.getField, h.fields, List.getElem?_map]
  cases s.fields[i]? <;> rfl

theorem TypeIso.getObject (i : Nat) : t.getObject (R.obj i) = (s.getObject i).map R.object := by
  simp only [Schema.getObject, h.objAt]
  cases s.objects[i]? <;> rfl

theorem TypeIso.getInterface (i : Nat) : t.getInterface (R.ifc i) = s.getInterface i := by
  simp only [Schema.getInterface, h.ifcAt]

theorem TypeIso.getUnion (i : Nat) : t.getUnion (R.un i) = (s.getUnion i).map R.union := by
  simp only [Schema.getUnion, h.unAt]
  cases s.unions[i]? <;> rfl

theorem TypeIso.getScalar (i : Nat) : t.getScalar (R.sc i) = s.getScalar i := by
  simp only [Schema.getScalar, h.scAt]

theorem TypeIso.getEnum (i : Nat) : t.getEnum (R.en i) = s.getEnum i := by
  simp only [Schema.getEnum, h.enAt]

theorem TypeIso.getInput (i : Nat) : t.getInput (R.inp i) = (s.getInput i).map R.input := by
  simp only [Schema.getInput, h.inpAt]
  cases s.inputs[i]? <;> rfl

theorem TypeIso.findType (n : String) : t.findType n = (s.findType n).map R.tid := by
  simp only [Schema.findType, h.names, namesGet_map]

theorem TypeIso.findTypeId (n : String) : t.findTypeId n = (s.findTypeId n).map R.tid := by
  simp only [Schema.findTypeId, h.findType]
  cases s.findType n <;> rfl

theorem TypeIso.resolveFieldType (g : GTy) : resolveFieldType t g = (resolveFieldType s g).map R.ft := by
  simp only [GqlVerif.resolveFieldType, h.findTypeId]
  cases s.findTypeId g.base <;> rfl

theorem TypeIso.queryTypeOrPanic : t.queryTypeOrPanic = s.queryTypeOrPanic.map R.obj := by
  simp only [Schema.queryTypeOrPanic, h.queryType]
  cases s.queryType <;> rfl

theorem TypeIso.typeName (id : TypeId) : t.typeName (R.tid id) = s.typeName id := by
  cases id <;> simp only [Ren.tid_object, Ren.tid_scalar, Ren.tid_interface, Ren.tid_union, Ren.tid_enum, Ren.tid_input, Schema.typeName, h.getObject, h.getInterface, h.getUnion, h.getEnum, h.getInput,
    h.getScalar]
  · cases s.getObject _ <;> rfl
  · cases s.getUnion _ <;> rfl
  · cases s.getInput _ <;> rfl

theorem TypeIso.objects_length : t.objects.length = s.objects.length := by
  have := h.objsPerm.length_eq
  simpa using this

theorem TypeIso.inputs_length : t.inputs.length = s.inputs.length := by
  have := h.inpsPerm.length_eq
  simpa using this

/-- the implementors of an interface: the same objects, in the order of the new object ids -/
theorem TypeIso.implementors (i : Nat) : (t.implementors (R.ifc i)).Perm ((s.implementors i).map R.obj) := by
  simp only [Schema.implementors]
  have h1 := (h.objsPerm.filter (fun x => x.1.implements.contains (R.ifc i))).map (·.2)
  refine h1.trans (List.Perm.of_eq ?_)
  rw [List.filter_map, List.map_map, List.map_map]
  congr 1
  apply List.filter_congr
  intro p _
  simp only [Function.comp, Ren.object_implements]
  exact Ren.contains_map_inj R.ifc h.inj.ifc _ _

end Acc

section Res
variable {R : Ren} {s t : Schema} (h : TypeIso R s t)
include h

theorem getFieldByName_tiso (fields : List Nat) (name : String) :
    getFieldByName t fields name =
      (getFieldByName s fields name).map (Option.map fun (p : Nat × StoredField) => (p.1, R.field p.2)) := by
  have hm : fields.mapM (fun id => do pure (id, ← t.getField id)) =
      (fields.mapM (fun id => do pure (id, ← s.getField id))).map
        (List.map fun (p : Nat × StoredField) => (p.1, R.field p.2)) := by
    induction fields with
    | nil => rfl
    | cons i fields ih =>
      rw [List.mapM_cons, List.mapM_cons, ih, h.getField]
      generalize List.mapM (fun id => do pure (id, ← s.getField id)) fields = M
      cases s.getField i <;> cases M <;> rfl
  unfold getFieldByName
  rw [hm]
  generalize List.mapM (fun id => do pure (id, ← s.getField id)) fields = M
  cases M with
  | error e => rfl
  | ok fs =>
    simp only [Except.map, bind, Except.bind, pure, Except.pure, List.find?_map]
    rfl

theorem tmap_field_comp (a : Option String) (fid : Nat) (x : Outcome (List Sel)) :
    (x.map (tSels R)).map (Sel.field a fid) = (x.map (Sel.field a fid)).map (tSel R) := by
  cases x <;> rfl

theorem tmap_inline_comp (ty : TypeId) (x : Outcome (List Sel)) :
    (x.map (tSels R)).map (Sel.inline (R.tid ty)) = (x.map (Sel.inline ty)).map (tSel R) := by
  cases x <;> rfl

mutual
  theorem objSel_tiso (q q' : Query) (hq : ∀ n, q'.findFragment n = q.findFragment n) :
      ∀ (x : QSel) (pname : String) (fields : List Nat),
        resolveObjectSel t q' pname fields x = (resolveObjectSel s q pname fields x).map (tSel R)
    | .field a name sub, pname, fields => by
      unfold resolveObjectSel
      split
      · split <;> rfl
      · rw [getFieldByName_tiso h]
        cases getFieldByName s fields name with
        | error e => rfl
        | ok r =>
          cases r with
          | none => rfl
          | some p =>
            obtain ⟨fid, sf⟩ := p
            simp only [Except.map, Option.map, Ren.field_ty, Ren.ft_id]
            cases hty : sf.ty.id with
            | object oid =>
              simp only [Ren.tid_object, Ren.tid_scalar, Ren.tid_interface, Ren.tid_union, Ren.tid_enum, Ren.tid_input, h.getObject]
              cases s.getObject oid with
              | error e => rfl
              | ok o =>
                simp only [Except.map, Ren.object_name, Ren.object_fields]
                rw [objSels_tiso q q' hq sub o.name o.fields]
                exact tmap_field_comp h a fid _
            | interface iid =>
              simp only [Ren.tid_object, Ren.tid_scalar, Ren.tid_interface, Ren.tid_union, Ren.tid_enum, Ren.tid_input, h.getInterface]
              cases s.getInterface iid with
              | error e => rfl
              | ok o =>
                simp only [Except.map]
                rw [objSels_tiso q q' hq sub o.name o.fields]
                exact tmap_field_comp h a fid _
            | union uid =>
              simp only [Ren.tid_object, Ren.tid_scalar, Ren.tid_interface, Ren.tid_union, Ren.tid_enum, Ren.tid_input]
              rw [unionSels_tiso q q' hq sub]
              exact tmap_field_comp h a fid _
            | scalar i => simp only [Ren.tid_object, Ren.tid_scalar, Ren.tid_interface, Ren.tid_union, Ren.tid_enum, Ren.tid_input]; split <;> rfl
            | «enum» i => simp only [Ren.tid_object, Ren.tid_scalar, Ren.tid_interface, Ren.tid_union, Ren.tid_enum, Ren.tid_input]; split <;> rfl
            | input i => simp only [Ren.tid_object, Ren.tid_scalar, Ren.tid_interface, Ren.tid_union, Ren.tid_enum, Ren.tid_input]; split <;> rfl
    | .inline none sub, pname, fields => by unfold resolveObjectSel; rfl
    | .inline (some on) sub, pname, fields => by
      unfold resolveObjectSel
      simp only [h.findType]
      cases s.findType on with
      | none => rfl
      | some ty =>
        cases ty with
        | object oid =>
          simp only [Option.map, Ren.tid_object, Ren.tid_scalar, Ren.tid_interface, Ren.tid_union, Ren.tid_enum, Ren.tid_input, h.getObject]
          cases s.getObject oid with
          | error e => rfl
          | ok o =>
            simp only [Except.map, Ren.object_name, Ren.object_fields]
            rw [objSels_tiso q q' hq sub o.name o.fields]
            exact tmap_inline_comp h (.object oid) _
        | interface iid =>
          simp only [Option.map, Ren.tid_object, Ren.tid_scalar, Ren.tid_interface, Ren.tid_union, Ren.tid_enum, Ren.tid_input, h.getInterface]
          cases s.getInterface iid with
          | error e => rfl
          | ok o =>
            simp only [Except.map]
            rw [objSels_tiso q q' hq sub o.name o.fields]
            exact tmap_inline_comp h (.interface iid) _
        | union uid =>
          simp only [Option.map, Ren.tid_object, Ren.tid_scalar, Ren.tid_interface, Ren.tid_union, Ren.tid_enum, Ren.tid_input]
          rw [unionSels_tiso q q' hq sub]
          exact tmap_inline_comp h (.union uid) _
        | scalar i => simp only [Option.map, Ren.tid_object, Ren.tid_scalar, Ren.tid_interface, Ren.tid_union, Ren.tid_enum, Ren.tid_input]; split <;> rfl
        | «enum» i => simp only [Option.map, Ren.tid_object, Ren.tid_scalar, Ren.tid_interface, Ren.tid_union, Ren.tid_enum, Ren.tid_input]; split <;> rfl
        | input i => simp only [Option.map, Ren.tid_object, Ren.tid_scalar, Ren.tid_interface, Ren.tid_union, Ren.tid_enum, Ren.tid_input]; split <;> rfl
    | .spread n, pname, fields => by
      unfold resolveObjectSel
      rw [hq]
      cases q.findFragment n <;> rfl
  theorem objSels_tiso (q q' : Query) (hq : ∀ n, q'.findFragment n = q.findFragment n) :
      ∀ (xs : List QSel) (pname : String) (fields : List Nat),
        resolveObjectSels t q' pname fields xs = (resolveObjectSels s q pname fields xs).map (tSels R)
    | [], pname, fields => by unfold resolveObjectSels; rfl
    | x :: xs, pname, fields => by
      unfold resolveObjectSels
      rw [objSel_tiso q q' hq x pname fields, objSels_tiso q q' hq xs pname fields]
      cases resolveObjectSel s q pname fields x with
      | error e => rfl
      | ok a => cases resolveObjectSels s q pname fields xs <;> rfl
  theorem unionSel_tiso (q q' : Query) (hq : ∀ n, q'.findFragment n = q.findFragment n) :
      ∀ (x : QSel), resolveUnionSel t q' x = (resolveUnionSel s q x).map (tSel R)
    | .field a name sub => by
      unfold resolveUnionSel
      split
      · split <;> rfl
      · rfl
    | .inline none sub => by unfold resolveUnionSel; rfl
    | .inline (some on) sub => by
      unfold resolveUnionSel
      simp only [h.findType]
      cases s.findType on with
      | none => rfl
      | some ty =>
        cases ty with
        | object oid =>
          simp only [Option.map, Ren.tid_object, Ren.tid_scalar, Ren.tid_interface, Ren.tid_union, Ren.tid_enum, Ren.tid_input, h.getObject]
          cases s.getObject oid with
          | error e => rfl
          | ok o =>
            simp only [Except.map, Ren.object_name, Ren.object_fields]
            rw [objSels_tiso q q' hq sub o.name o.fields]
            exact tmap_inline_comp h (.object oid) _
        | interface iid =>
          simp only [Option.map, Ren.tid_object, Ren.tid_scalar, Ren.tid_interface, Ren.tid_union, Ren.tid_enum, Ren.tid_input, h.getInterface]
          cases s.getInterface iid with
          | error e => rfl
          | ok o =>
            simp only [Except.map]
            rw [objSels_tiso q q' hq sub o.name o.fields]
            exact tmap_inline_comp h (.interface iid) _
        | union uid =>
          simp only [Option.map, Ren.tid_object, Ren.tid_scalar, Ren.tid_interface, Ren.tid_union, Ren.tid_enum, Ren.tid_input]
          rw [unionSels_tiso q q' hq sub]
          exact tmap_inline_comp h (.union uid) _
        | scalar i => simp only [Option.map, Ren.tid_object, Ren.tid_scalar, Ren.tid_interface, Ren.tid_union, Ren.tid_enum, Ren.tid_input]; split <;> rfl
        | «enum» i => simp only [Option.map, Ren.tid_object, Ren.tid_scalar, Ren.tid_interface, Ren.tid_union, Ren.tid_enum, Ren.tid_input]; split <;> rfl
        | input i => simp only [Option.map, Ren.tid_object, Ren.tid_scalar, Ren.tid_interface, Ren.tid_union, Ren.tid_enum, Ren.tid_input]; split <;> rfl
    | .spread n => by
      unfold resolveUnionSel
      rw [hq]
      cases q.findFragment n <;> rfl
  theorem unionSels_tiso (q q' : Query) (hq : ∀ n, q'.findFragment n = q.findFragment n) :
      ∀ (xs : List QSel), resolveUnionSels t q' xs = (resolveUnionSels s q xs).map (tSels R)
    | [] => by unfold resolveUnionSels; rfl
    | x :: xs => by
      unfold resolveUnionSels
      rw [unionSel_tiso q q' hq x, unionSels_tiso q q' hq xs]
      cases resolveUnionSel s q x with
      | error e => rfl
      | ok a => cases resolveUnionSels s q xs <;> rfl
end

end Res

/-! ## measures and look-ups of the renumbered query -/

variable (R : Ren)

mutual
  theorem selDepth'_t : ∀ x : Sel, selDepth' (tSel R x) = selDepth' x
    | .field a fid sub => by simp only [tSel, selDepth', selsDepth'_t sub]
    | .inline t sub => by simp only [tSel, selDepth', selsDepth'_t sub]
    | .spread f => rfl
    | .typename => rfl
  theorem selsDepth'_t : ∀ l : List Sel, selsDepth' (tSels R l) = selsDepth' l
    | [] => rfl
    | x :: xs => by simp only [tSels, selsDepth', selDepth'_t x, selsDepth'_t xs]
end

mutual
  theorem selDepth_t : ∀ x : Sel, selDepth (tSel R x) = selDepth x
    | .field a fid sub => by simp only [tSel, selDepth, selsDepth_t sub]
    | .inline t sub => by simp only [tSel, selDepth, selsDepth_t sub]
    | .spread f => rfl
    | .typename => rfl
  theorem selsDepth_t : ∀ l : List Sel, selsDepth (tSels R l) = selsDepth l
    | [] => rfl
    | x :: xs => by simp only [tSels, selsDepth, selDepth_t x, selsDepth_t xs]
end

mutual
  theorem selSize_t : ∀ x : Sel, selSize (tSel R x) = selSize x
    | .field a fid sub => by simp only [tSel, selSize, selsSize_t sub]
    | .inline t sub => by simp only [tSel, selSize, selsSize_t sub]
    | .spread f => rfl
    | .typename => rfl
  theorem selsSize_t : ∀ l : List Sel, selsSize (tSels R l) = selsSize l
    | [] => rfl
    | x :: xs => by simp only [tSels, selsSize, selSize_t x, selsSize_t xs]
end

@[simp] theorem tQ_fragments (q : Query) : (tQ R q).fragments = q.fragments.map (tFrag R) := rfl
@[simp] theorem tQ_operations (q : Query) : (tQ R q).operations = q.operations.map (tOp R) := rfl
@[simp] theorem tQ_variables (q : Query) : (tQ R q).variables = q.variables.map (tVar R) := rfl
@[simp] theorem tFrag_sels (f : RFragment) : (tFrag R f).sels = tSels R f.sels := rfl
@[simp] theorem tFrag_on (f : RFragment) : (tFrag R f).on = R.tid f.on := rfl
@[simp] theorem tFrag_name (f : RFragment) : (tFrag R f).name = f.name := rfl
@[simp] theorem tOp_sels (f : ROperation) : (tOp R f).sels = tSels R f.sels := rfl
@[simp] theorem tOp_name (f : ROperation) : (tOp R f).name = f.name := rfl
@[simp] theorem tOp_kind (f : ROperation) : (tOp R f).kind = f.kind := rfl
@[simp] theorem tOp_objectId (f : ROperation) : (tOp R f).objectId = R.obj f.objectId := rfl
@[simp] theorem tVar_name (v : RVariable) : (tVar R v).name = v.name := rfl
@[simp] theorem tVar_opIdx (v : RVariable) : (tVar R v).opIdx = v.opIdx := rfl
@[simp] theorem tVar_default (v : RVariable) : (tVar R v).default = v.default := rfl
@[simp] theorem tVar_ty (v : RVariable) : (tVar R v).ty = R.ft v.ty := rfl

theorem walkFuel_t (q : Query) : walkFuel (tQ R q) = walkFuel q := by
  simp [walkFuel, List.map_map, Function.comp_def, selsDepth_t]

theorem depthFuel_t (q : Query) : depthFuel (tQ R q) = depthFuel q := by
  simp [depthFuel, List.map_map, Function.comp_def, selsDepth'_t]

theorem findFragment_t (q : Query) (n : String) : (tQ R q).findFragment n = q.findFragment n := by
  simp [Query.findFragment, List.findIdx?_map, Function.comp_def]

theorem findOperation_t (q : Query) (n : String) : (tQ R q).findOperation n = q.findOperation n := by
  simp [Query.findOperation, List.findIdx?_map, Function.comp_def]

theorem getFragment_t (q : Query) (i : Nat) : (tQ R q).getFragment i = (q.getFragment i).map (tFrag R) := by
  simp only [Query.getFragment, tQ_fragments, List.getElem?_map]
  cases q.fragments[i]? <;> rfl

theorem getOperation_t (q : Query) (i : Nat) : (tQ R q).getOperation i = (q.getOperation i).map (tOp R) := by
  simp only [Query.getOperation, tQ_operations, List.getElem?_map]
  cases q.operations[i]? <;> rfl

theorem opVariables_t (q : Query) (i : Nat) : (tQ R q).opVariables i = (q.opVariables i).map (tVar R) := by
  simp only [Query.opVariables, tQ_variables, List.filter_map]
  rfl

theorem any_tSels (l : List Sel) (p p' : Sel → Bool) (h : ∀ x ∈ l, p' (tSel R x) = p x) :
    (tSels R l).any p' = l.any p := by
  induction l with
  | nil => rfl
  | cons x l ih =>
    simp only [tSels, List.any_cons, h x (by simp), ih fun y hy => h y (by simp [hy])]

theorem foldl_tSels {β} (l : List Sel) (f f' : β → Sel → β) (init : β) (h : ∀ b, ∀ x ∈ l, f' b (tSel R x) = f b x) :
    (tSels R l).foldl f' init = l.foldl f init := by
  induction l generalizing init with
  | nil => rfl
  | cons x l ih =>
    simp only [tSels, List.foldl_cons, h init x (by simp)]
    exact ih _ fun b y hy => h b y (by simp [hy])

theorem containsTypenameAux_t (hR : R.Inj) (q : Query) (fuel : Nat) :
    ∀ (parent : TypeId) (visited : List Nat) (sels : List Sel),
      containsTypenameAux (tQ R q) (R.tid parent) fuel visited (tSels R sels) =
        containsTypenameAux q parent fuel visited sels := by
  induction fuel with
  | zero => intro _ _ _; rfl
  | succ fuel ih =>
    intro parent visited sels
    unfold containsTypenameAux
    apply any_tSels
    intro x _
    cases x with
    | field a fid sub => rfl
    | inline t sub => rfl
    | typename => rfl
    | spread fid =>
      simp only [tSel, tQ_fragments, List.getElem?_map]
      cases q.fragments[fid]? with
      | none => rfl
      | some f => simp only [Option.map_some, tFrag_on, tFrag_sels, ih, hR.tid_beq]

theorem containsTypename_t (hR : R.Inj) (q : Query) (parent : TypeId) (sels : List Sel) :
    containsTypename (tQ R q) (R.tid parent) (tSels R sels) = containsTypename q parent sels := by
  simp [containsTypename, containsTypenameAux_t R hR]

theorem rootFieldCount_t (q : Query) (fuel : Nat) : ∀ (visited : List Nat) (sels : List Sel),
    rootFieldCount (tQ R q) fuel visited (tSels R sels) = rootFieldCount q fuel visited sels := by
  induction fuel with
  | zero => intro _ _; rfl
  | succ fuel ih =>
    intro visited sels
    unfold rootFieldCount
    apply foldl_tSels
    intro acc x _
    cases x with
    | field a fid sub => rfl
    | typename => rfl
    | inline t sub => simp only [tSel, ih]
    | spread fid =>
      simp only [tSel, tQ_fragments, List.getElem?_map]
      cases q.fragments[fid]? with
      | none => rfl
      | some f => simp only [Option.map_some, tFrag_sels, ih]

theorem reachesFragment_t (q : Query) (target : Nat) (fuel : Nat) : ∀ (visited : List Nat) (sels : List Sel),
    reachesFragment (tQ R q) target fuel visited (tSels R sels) = reachesFragment q target fuel visited sels := by
  induction fuel with
  | zero => intro _ _; rfl
  | succ fuel ih =>
    intro visited sels
    unfold reachesFragment
    apply foldl_tSels
    intro acc x _
    cases x with
    | field a fid sub => simp only [tSel, ih]
    | typename => rfl
    | inline t sub => simp only [tSel, ih]
    | spread fid =>
      simp only [tSel, tQ_fragments, List.getElem?_map]
      cases q.fragments[fid]? with
      | none => rfl
      | some f => simp only [Option.map_some, tFrag_sels, ih]

theorem fragmentIsRecursive_t (q : Query) (fid : Nat) :
    fragmentIsRecursive (tQ R q) fid = fragmentIsRecursive q fid := by
  simp only [fragmentIsRecursive, tQ_fragments, List.getElem?_map, walkFuel_t]
  cases q.fragments[fid]? with
  | none => rfl
  | some f => simp only [Option.map_some, tFrag_sels, reachesFragment_t]

theorem validateSubscriptions_t (q : Query) : validateSubscriptions (tQ R q) = validateSubscriptions q := by
  unfold validateSubscriptions
  simp only [tQ_operations, List.forIn_map, tOp_kind, tOp_sels, depthFuel_t, rootFieldCount_t]

section
variable {R : Ren} {s t : Schema} (h : TypeIso R s t)
include h

mutual
  theorem fieldsHaveTypename_tiso (q : Query) : ∀ x : Sel,
      fieldsHaveTypename t (tQ R q) (tSel R x) = fieldsHaveTypename s q x
    | .field a fid sub => by
      simp only [tSel, fieldsHaveTypename, h.getField]
      cases s.getField fid with
      | error e => rfl
      | ok f =>
        simp only [Except.map, bind, Except.bind, Ren.field_ty, Ren.ft_id, Ren.tid_isAbstract,
          containsTypename_t R h.inj, fieldsHaveTypenameList_tiso q sub]
    | .inline ty sub => by simp only [tSel, fieldsHaveTypename, fieldsHaveTypenameList_tiso q sub]
    | .spread f => rfl
    | .typename => rfl
  theorem fieldsHaveTypenameList_tiso (q : Query) : ∀ l : List Sel,
      fieldsHaveTypenameList t (tQ R q) (tSels R l) = fieldsHaveTypenameList s q l
    | [] => rfl
    | x :: xs => by
      simp only [tSels, fieldsHaveTypenameList, fieldsHaveTypename_tiso q x, fieldsHaveTypenameList_tiso q xs]
end

theorem validateTypenamePresence_tiso (q : Query) :
    validateTypenamePresence t (tQ R q) = validateTypenamePresence s q := by
  unfold validateTypenamePresence
  simp only [tQ_fragments, tQ_operations, List.forIn_map, tFrag_on, tFrag_sels, tFrag_name, tOp_sels,
    Ren.tid_isAbstract, containsTypename_t R h.inj, fieldsHaveTypenameList_tiso h]

theorem any_object_map (l : List Nat) (sel : TypeId) :
    (l.map R.obj).any (fun oid => TypeId.object oid == R.tid sel) = l.any (fun oid => TypeId.object oid == sel) := by
  rw [List.any_map]
  congr 1
  funext oid
  exact h.inj.tid_beq (.object oid) sel

theorem conditionOk_tiso (parent selected : TypeId) :
    conditionOk t (R.tid parent) (R.tid selected) = conditionOk s parent selected := by
  unfold conditionOk
  rw [h.inj.tid_beq]
  split
  · rfl
  · cases parent with
    | union uid =>
      simp only [Ren.tid_object, Ren.tid_scalar, Ren.tid_interface, Ren.tid_union, Ren.tid_enum, Ren.tid_input, h.getUnion]
      cases s.getUnion uid with
      | error e => rfl
      | ok u =>
        simp only [Except.map, bind, Except.bind, Ren.union_variants]
        simp only [h.inj.contains_tid]
    | interface iid =>
      simp only [Ren.tid_object, Ren.tid_scalar, Ren.tid_interface, Ren.tid_union, Ren.tid_enum, Ren.tid_input]
      rw [(h.implementors iid).any_eq, any_object_map h]
    | object oid =>
      simp only [Ren.tid_object, Ren.tid_scalar, Ren.tid_interface, Ren.tid_union, Ren.tid_enum, Ren.tid_input, h.getObject]
      cases s.getObject oid with
      | error e => rfl
      | ok o =>
        simp only [Except.map, bind, Except.bind]
        cases selected with
        | interface iid =>
          simp only [Ren.tid_object, Ren.tid_scalar, Ren.tid_interface, Ren.tid_union, Ren.tid_enum, Ren.tid_input, Ren.object_implements, Ren.contains_map_inj R.ifc h.inj.ifc]
        | union uid =>
          simp only [Ren.tid_object, Ren.tid_scalar, Ren.tid_interface, Ren.tid_union, Ren.tid_enum, Ren.tid_input, h.getUnion]
          cases s.getUnion uid with
          | error e => rfl
          | ok u =>
            simp only [Except.map, Ren.union_variants]
            rw [show (TypeId.object (R.obj oid)) = R.tid (.object oid) from rfl, h.inj.contains_tid]
        | object _ => rfl
        | scalar _ => rfl
        | «enum» _ => rfl
        | input _ => rfl
    | scalar _ => rfl
    | «enum» _ => rfl
    | input _ => rfl

mutual
  theorem typeConditions_tiso (q : Query) : ∀ (x : Sel) (parent : TypeId),
      typeConditions t (tQ R q) (R.tid parent) (tSel R x) = typeConditions s q parent x
    | .field a fid sub, parent => by
      simp only [tSel, typeConditions, h.getField]
      cases s.getField fid with
      | error e => rfl
      | ok f => simp only [Except.map, bind, Except.bind, Ren.field_ty, Ren.ft_id, typeConditionsList_tiso q sub]
    | .inline ty sub, parent => by
      simp only [tSel, typeConditions, conditionOk_tiso h, typeConditionsList_tiso q sub]
    | .spread f, parent => by
      simp only [tSel, typeConditions, getFragment_t]
      cases q.getFragment f with
      | error e => rfl
      | ok fr => simp only [Except.map, bind, Except.bind, tFrag_on, conditionOk_tiso h]
    | .typename, parent => rfl
  theorem typeConditionsList_tiso (q : Query) : ∀ (l : List Sel) (parent : TypeId),
      typeConditionsList t (tQ R q) (R.tid parent) (tSels R l) = typeConditionsList s q parent l
    | [], parent => rfl
    | x :: xs, parent => by
      simp only [tSels, typeConditionsList, typeConditions_tiso q x, typeConditionsList_tiso q xs]
end

theorem validateTypeConditions_tiso (q : Query) :
    validateTypeConditions t (tQ R q) = validateTypeConditions s q := by
  unfold validateTypeConditions
  have e : ∀ o : ROperation, TypeId.object (R.obj o.objectId) = R.tid (.object o.objectId) := fun _ => rfl
  simp only [tQ_fragments, tQ_operations, List.forIn_map, tFrag_on, tFrag_sels, tOp_sels, tOp_objectId, e,
    typeConditionsList_tiso h]

end

theorem tSels_append (R : Ren) (a b : List Sel) : tSels R (a ++ b) = tSels R a ++ tSels R b := by
  simp [tSels_eq_map]

section
variable {R : Ren} {s t : Schema} (h : TypeIso R s t)
include h

theorem resolveSelection_tiso (q q' : Query) (hq : ∀ n, q'.findFragment n = q.findFragment n) (on : TypeId)
    (sels : List QSel) :
    resolveSelection t q' (R.tid on) sels = (resolveSelection s q on sels).map (tSels R) := by
  unfold resolveSelection
  cases on with
  | object oid =>
    simp only [Ren.tid_object, h.getObject]
    cases s.getObject oid with
    | error e => rfl
    | ok o => exact objSels_tiso h q q' hq sels o.name o.fields
  | interface iid =>
    simp only [Ren.tid_interface, h.getInterface]
    cases s.getInterface iid with
    | error e => rfl
    | ok o => exact objSels_tiso h q q' hq sels o.name o.fields
  | union uid => exact unionSels_tiso h q q' hq sels
  | scalar _ => simp only [Ren.tid_scalar]; split <;> rfl
  | «enum» _ => simp only [Ren.tid_enum]; split <;> rfl
  | input _ => simp only [Ren.tid_input]; split <;> rfl

theorem resolveVariables_tiso (op : Nat) (vars : List VarDef) :
    resolveVariables t op vars = (resolveVariables s op vars).map (List.map (tVar R)) := by
  unfold resolveVariables
  induction vars with
  | nil => rfl
  | cons v vars ih =>
    rw [List.mapM_cons, List.mapM_cons, ih, h.resolveFieldType]
    generalize List.mapM (fun v => do
      let ty ← resolveFieldType s v.ty
      pure ({ opIdx := op, name := v.name, default := v.default, ty := ty } : RVariable)) vars = M
    cases resolveFieldType s v.ty <;> cases M <;> rfl

theorem opRoot_tiso (kind : OpKind) : opRoot t kind = (opRoot s kind).map R.obj := by
  cases kind <;> simp only [opRoot, h.queryTypeOrPanic, h.mutationType, h.subscriptionType]
  · cases s.mutationType <;> rfl
  · cases s.subscriptionType <;> rfl

theorem opBody_tiso (q : Query) (name : Option String) (vars : List VarDef) (sels : List QSel) (on : Nat) :
    opBody t (tQ R q) name vars sels (R.obj on) = (opBody s q name vars sels on).map (tQ R) := by
  simp only [opBody, h.getObject, findOperation_t, resolveVariables_tiso h]
  cases s.getObject on with
  | error e => rfl
  | ok o =>
    cases name with
    | none => rfl
    | some n =>
      cases hfo : q.findOperation n with
      | none => simp only [Except.map, bind, Except.bind, pure, Except.pure, hfo]; rfl
      | some id =>
        simp only [Except.map, bind, Except.bind, pure, Except.pure, hfo]
        cases resolveVariables s id vars with
        | error e => rfl
        | ok vs =>
          simp only [Ren.object_name, Ren.object_fields]
          rw [objSels_tiso h { q with variables := q.variables ++ vs }
            { tQ R q with variables := (tQ R q).variables ++ vs.map (tVar R) } (fun n => findFragment_t R q n) sels
            o.name o.fields]
          cases resolveObjectSels s { q with variables := q.variables ++ vs } o.name o.fields sels with
          | error e => rfl
          | ok rs =>
            simp only [Except.map, tQ_operations, List.getElem?_map]
            cases q.operations[id]? with
            | none => rfl
            | some op =>
              simp only [Option.map_some, tQ, List.map_set, tOp, tSels_append, List.map_append]

theorem resolveDef_tiso (q : Query) (d : QDef) : resolveDef t (tQ R q) d = (resolveDef s q d).map (tQ R) := by
  cases d with
  | selset sels => rfl
  | frag name on sels =>
    simp only [resolveDef, h.findType, findFragment_t]
    cases s.findType on with
    | none => rfl
    | some ty =>
      cases q.findFragment name with
      | none => rfl
      | some id =>
        simp only [Option.map]
        rw [resolveSelection_tiso h q (tQ R q) (findFragment_t R q) ty sels]
        cases resolveSelection s q ty sels with
        | error e => rfl
        | ok rs =>
          simp only [Except.map, bind, Except.bind, tQ_fragments, List.getElem?_map]
          cases q.fragments[id]? with
          | none => rfl
          | some f =>
            simp only [Option.map_some, pure, Except.pure, tQ, List.map_set, tFrag, tSels_append]
  | op kind name vars sels =>
    rw [resolveDef_op_eq, resolveDef_op_eq, opRoot_tiso h]
    cases opRoot s kind with
    | error e => rfl
    | ok on => exact opBody_tiso h q name vars sels on

theorem createRoots_tiso (doc : QDoc) (q : Query) :
    createRoots t doc (tQ R q) = (createRoots s doc q).map (tQ R) := by
  induction doc generalizing q with
  | nil => rfl
  | cons d doc ih =>
    cases d with
    | selset sels => rfl
    | frag name on sels =>
      simp only [createRoots, findFragment_t, h.findType]
      split
      · rfl
      · cases s.findType on with
        | none => rfl
        | some ty =>
          simp only [Option.map]
          rw [← ih]
          congr 1; simp [tQ, tFrag, tSels]
    | op kind name vars sels =>
      cases kind with
      | query =>
        simp only [createRoots, h.queryTypeOrPanic, findOperation_t]
        cases s.queryTypeOrPanic with
        | error e => rfl
        | ok on =>
          cases name with
          | none => rfl
          | some n =>
            simp only [Except.map, bind, Except.bind]
            split
            · rfl
            · refine Eq.trans ?_ (ih _); congr 1; simp [tQ, tOp, tSels]
      | mutation =>
        simp only [createRoots, h.mutationType, findOperation_t]
        cases s.mutationType with
        | none => rfl
        | some on =>
          cases name with
          | none => rfl
          | some n =>
            simp only [Option.map]
            split
            · rfl
            · rw [← ih]; congr 1; simp [tQ, tOp, tSels]
      | subscription =>
        simp only [createRoots, h.subscriptionType, findOperation_t]
        cases s.subscriptionType with
        | none => rfl
        | some on =>
          simp only [Option.map]
          split
          · rfl
          · cases name with
            | none => rfl
            | some n =>
              simp only []
              split
              · rfl
              · rw [← ih]; congr 1; simp [tQ, tOp, tSels]

theorem foldlM_resolveDef_tiso (doc : QDoc) (q : Query) :
    doc.foldlM (resolveDef t) (tQ R q) = (doc.foldlM (resolveDef s) q).map (tQ R) := by
  induction doc generalizing q with
  | nil => rfl
  | cons d doc ih =>
    simp only [List.foldlM_cons, resolveDef_tiso h]
    cases resolveDef s q d with
    | error e => rfl
    | ok q2 => exact ih q2

/-- **`Resolve.resolve` commutes with the renumbering of the type ids** (errors included) -/
theorem resolve_tiso (doc : QDoc) : resolve t doc = (resolve s doc).map (tQ R) := by
  unfold resolve
  have h0 := createRoots_tiso h doc {}
  rw [show tQ R ({} : Query) = {} from rfl] at h0
  rw [h0]
  cases createRoots s doc {} with
  | error e => rfl
  | ok q0 =>
    simp only [Except.map, bind, Except.bind, foldlM_resolveDef_tiso h]
    cases List.foldlM (resolveDef s) q0 doc with
    | error e => rfl
    | ok q =>
      simp only [validateTypenamePresence_tiso h, validateSubscriptions_t, validateTypeConditions_tiso h]
      cases validateTypenamePresence s q with
      | error e => rfl
      | ok _ =>
        cases validateSubscriptions q with
        | error e => rfl
        | ok _ => cases validateTypeConditions s q <;> rfl

end

end C07P
end GqlVerif
