import GqlVerif.Proofs.C01EndToEndB
/-!
# C01 end to end, part C: losslessness of the emitted structs

Scope as in part A.  `canonSel s skip sels j` is the explicit function describing the differences C01
allows between a conforming response and `to_value (from_value j)`; `struct_lossless` proves, by mutual
induction over the selection tree (`rtSel` / `rtSels`, composing `C01.struct_roundtrip_path`,
`C01.leaf_roundtrip_on`, `C01.field_roundtrip_id` and the leaf round trips), that the struct emitted for
a selection set writes back `canonSel … j` for every conforming `j`.

Additional side condition (decidable): `rustOkSels` / `rustNames` — within each selection set the Rust
field names `keyword_replace (snake_case key)` are pairwise distinct (the case function is a parameter of
the model; two response keys with the same snake-case form give a struct that does not compile).
-/
set_option linter.unusedSimpArgs false

namespace GqlVerif
namespace C01
namespace E2E
open Serde Spec C13 C03 Codegen

/-! ## the allowed differences, as an explicit function on the JSON value -/

mutual
  /-- the value under a selected field's key -/
  def canonField (s : Schema) (skip : Bool) : Sel → Json → Json
    | .field _ fid sub, v =>
      match s.fields[fid]? with
      | none => v
      | some sf =>
        match sf.ty.id with
        | .scalar k => (match s.scalars[k]? with
          | some n => if n = "ID" then canon idCanon (gtyOf sf.ty.quals) v else v
          | none => v)
        | .object _ => canon (fun j => match j with
            | .obj kvs => .obj (canonEntries s skip sub kvs)
            | j => j) (gtyOf sf.ty.quals) v
        | _ => v
    | _, v => v
  /-- the entries of an object: one per selected field, in selection order; `__typename` and every
      unselected key dropped; with `skip_serializing_none` a `null` (or absent) entry at a nullable
      position with a modifier is dropped, otherwise an absent one comes back as `null` -/
  def canonEntries (s : Schema) (skip : Bool) : List Sel → List (String × Json) → List (String × Json)
    | [], _ => []
    | .field a fid sub :: xs, kvs =>
      (match s.fields[fid]? with
       | none => []
       | some sf =>
         match Json.lookup (a.getD sf.name) kvs with
         | some v =>
           if skip && skipQ sf.ty.quals && v.isNull then []
           else [(a.getD sf.name, canonField s skip (.field a fid sub) v)]
         | none => if skip && skipQ sf.ty.quals then [] else [(a.getD sf.name, Json.null)]) ++
        canonEntries s skip xs kvs
    | _ :: xs, kvs => canonEntries s skip xs kvs
end

/-- **`canonSel`**: the differences C01 allows between a conforming response `j` and
    `to_value (from_value j)`: key order (selection order), integer ID → decimal string, `__typename`
    dropped on object selections, `null` → absent where `skip_serializing_none` applies -/
def canonSel (s : Schema) (skip : Bool) (sels : List Sel) : Json → Json
  | .obj kvs => .obj (canonEntries s skip sels kvs)
  | j => j

theorem canonLambda (s : Schema) (skip : Bool) (sub : List Sel) :
    (fun j => match j with
      | Json.obj kvs => Json.obj (canonEntries s skip sub kvs)
      | j => j) = canonSel s skip sub := by
  funext j; cases j <;> rfl

/-- the canonical form of the value of the field whose wire name is `f.wire` -/
def fcanonOf (s : Schema) (skip : Bool) (sels : List Sel) (f : RField) (v : Json) : Json :=
  match sels.find? (fun x => respKey s x == some f.wire) with
  | some x => canonField s skip x v
  | none => v

theorem find_respKey (s : Schema) (k : String) : ∀ (sels : List Sel), (respKeys s sels).Nodup →
    ∀ x ∈ sels, respKey s x = some k → sels.find? (fun y => respKey s y == some k) = some x
  | [], _, x, hx, _ => by simp at hx
  | y :: ys, hnd, x, hx, hk => by
    rw [List.find?_cons]
    rcases List.mem_cons.mp hx with rfl | hx'
    · simp [hk]
    · have hmem : k ∈ respKeys s ys := List.mem_filterMap.mpr ⟨x, hx', hk⟩
      cases hy : respKey s y with
      | none =>
        have : ((none : Option String) == some k) = false := rfl
        simp only [this]
        refine find_respKey s k ys ?_ x hx' hk
        simpa [respKeys, hy] using hnd
      | some k' =>
        have hnd' : k' ∉ respKeys s ys ∧ (respKeys s ys).Nodup := by
          simpa [respKeys, hy] using hnd
        have hne : k' ≠ k := fun h => hnd'.1 (h ▸ hmem)
        have : (some k' == some k) = false := by simpa using hne
        simp only [this]
        exact find_respKey s k ys hnd'.2 x hx' hk


theorem fieldOf_skipNone (c : Ctx) (g ft : String) (quals : List Qual) (dep : Option (Option String)) :
    (fieldOf c g ft quals dep).skipNone = (c.o.skipNone && skipQ quals) := rfl

theorem expectOut_cons (fc : RField → Json → Json) (f : RField) (fs : List RField) (kvs : List (String × Json)) :
    expectOut fc (f :: fs) kvs =
      (match Json.lookup f.wire kvs with
        | some j => if f.skipNone && j.isNull then [] else [(f.wire, fc f j)]
        | none => if f.skipNone then [] else [(f.wire, Json.null)]) ++ expectOut fc fs kvs := by
  unfold expectOut
  rw [List.filterMap_cons]
  cases Json.lookup f.wire kvs with
  | none => cases f.skipNone <;> simp
  | some j => cases hs : f.skipNone <;> cases hn : j.isNull <;> simp [hn]

theorem expectOut_canon (c : Ctx) (pfx : String) (fc : RField → Json → Json) (kvs : List (String × Json)) :
    ∀ (sels : List Sel), treeSels c.s c.o sels = true →
      (∀ a fid sub, Sel.field a fid sub ∈ sels → ∀ f, fieldOfSel c pfx (.field a fid sub) = some f →
        ∀ v, fc f v = canonField c.s c.o.skipNone (.field a fid sub) v) →
      expectOut fc (fieldsOf c pfx sels) kvs = canonEntries c.s c.o.skipNone sels kvs
  | [], _, _ => by simp [fieldsOf, expectOut, canonEntries]
  | x :: xs, ht, hfc => by
    obtain ⟨hx, hxs⟩ := treeSels_cons ht
    have ih := expectOut_canon c pfx fc kvs xs hxs (fun a fid sub hm => hfc a fid sub (List.mem_cons_of_mem _ hm))
    cases x with
    | field a fid sub =>
      obtain ⟨sf, ft, hsf, _, hf, _⟩ := fieldOfSel_tree c pfx a fid sub hx
      have hfs : fieldsOf c pfx (.field a fid sub :: xs) =
          fieldOf c (a.getD sf.name) ft sf.ty.quals sf.deprecation :: fieldsOf c pfx xs := by
        simp [fieldsOf, hf]
      rw [hfs, expectOut_cons, ih, canonEntries.eq_2]
      simp only [hsf, fieldOf_wire, fieldOf_skipNone, hfc a fid sub (by simp) _ hf, Bool.and_assoc]
    | spread g => simp [treeSel] at hx
    | inline t sub => simp [treeSel] at hx
    | typename =>
      have hfs : fieldsOf c pfx (.typename :: xs) = fieldsOf c pfx xs := by
        have h1 : fieldOfSel c pfx .typename = none := rfl
        simp [fieldsOf, h1]
      rw [hfs, ih]; simp [canonEntries]

/-! ## Rust field names -/

def rustName (c : Ctx) : Sel → Option String
  | .field a fid _ => (c.s.fields[fid]?).map (fun sf => keywordReplace (c.cs.snake (a.getD sf.name)))
  | _ => none

def rustNames (c : Ctx) (sels : List Sel) : List String := sels.filterMap (rustName c)

mutual
  /-- within every selection set the Rust field names (`keyword_replace (snake_case key)`) are pairwise
      distinct — otherwise the emitted struct does not compile -/
  def rustOkSel (c : Ctx) : Sel → Bool
    | .field _ _ sub => EnumSpec.nodup (rustNames c sub) && rustOkSels c sub
    | _ => true
  def rustOkSels (c : Ctx) : List Sel → Bool
    | [] => true
    | x :: xs => rustOkSel c x && rustOkSels c xs
end

theorem rust_fieldsOf (c : Ctx) (pfx : String) : ∀ (sels : List Sel), treeSels c.s c.o sels = true →
    (fieldsOf c pfx sels).map (·.rust) = rustNames c sels
  | [], _ => rfl
  | x :: xs, ht => by
    obtain ⟨hx, hxs⟩ := treeSels_cons ht
    have ih := rust_fieldsOf c pfx xs hxs
    cases x with
    | field a fid sub =>
      obtain ⟨sf, ft, hsf, _, hf, _⟩ := fieldOfSel_tree c pfx a fid sub hx
      simp only [fieldsOf, rustNames, List.filterMap_cons, hf, rustName, hsf, Option.map_some, List.map_cons] at ih ⊢
      rw [ih]; rfl
    | spread g => simp [treeSel] at hx
    | inline t sub => simp [treeSel] at hx
    | typename =>
      have h1 : fieldOfSel c pfx .typename = none := rfl
      have h2 : rustName c .typename = none := rfl
      simpa [fieldsOf, rustNames, h1, h2] using ih


theorem treeSels_mem {s : Schema} {o : Options} : ∀ {sels : List Sel}, treeSels s o sels = true →
    ∀ x ∈ sels, treeSel s o x = true
  | [], _, _, hx => by simp at hx
  | y :: ys, h, x, hx => by
    obtain ⟨h1, h2⟩ := treeSels_cons h
    rcases List.mem_cons.mp hx with rfl | hx'
    · exact h1
    · exact treeSels_mem h2 x hx'

theorem envSels_mem {e : Env} {c : Ctx} {pfx : String} : ∀ {sels : List Sel}, envSels e c pfx sels →
    ∀ x ∈ sels, envSel e c pfx x
  | [], _, _, hx => by simp at hx
  | y :: ys, h, x, hx => by
    rw [envSels] at h
    rcases List.mem_cons.mp hx with rfl | hx'
    · exact h.1
    · exact envSels_mem h.2 x hx'

theorem rustOkSels_mem {c : Ctx} : ∀ {sels : List Sel}, rustOkSels c sels = true →
    ∀ x ∈ sels, rustOkSel c x = true
  | [], _, _, hx => by simp at hx
  | y :: ys, h, x, hx => by
    rw [rustOkSels, Bool.and_eq_true] at h
    rcases List.mem_cons.mp hx with rfl | hx'
    · exact h.1
    · exact rustOkSels_mem h.2 x hx'

theorem mem_fieldsOf {c : Ctx} {pfx : String} {sels : List Sel} {f : RField} (hf : f ∈ fieldsOf c pfx sels)
    (ht : treeSels c.s c.o sels = true) :
    ∃ a fid sub sf ft, Sel.field a fid sub ∈ sels ∧ c.s.fields[fid]? = some sf ∧
      fieldOfSel c pfx (.field a fid sub) = some f ∧
      f = fieldOf c (a.getD sf.name) ft sf.ty.quals sf.deprecation ∧ wfQuals sf.ty.quals = true := by
  obtain ⟨x, hx, hfx⟩ := List.mem_filterMap.mp hf
  cases x with
  | field a fid sub =>
    obtain ⟨sf, ft, hsf, _, hf', hw⟩ := fieldOfSel_tree c pfx a fid sub (treeSels_mem ht _ hx)
    rw [hf'] at hfx
    exact ⟨a, fid, sub, sf, ft, hx, hsf, by rw [hf', hfx], (Option.some.inj hfx).symm, hw⟩
  | spread g => cases hfx
  | inline t sub => cases hfx
  | typename => cases hfx

section RT
variable (e : Env) (c : Ctx)

def RTSel (pfx : String) (x : Sel) : Prop :=
  treeSel c.s c.o x = true → envSel e c pfx x → rustOkSel c x = true → ∀ f, fieldOfSel c pfx x = some f →
    ∀ b fd fs, selDepth x + 2 ≤ fd → selDepth x ≤ fs → ∀ v y, strictField c.s x v = true →
      deFieldWith (dePath e b fd) f v = .ok y →
      serTyWith (serPath e fs) f.ty y = .ok (canonField c.s c.o.skipNone x v)

/-- round trip of the struct of a selection set, from the round trips of its fields -/
theorem rtStruct (pfx name : String) (sels : List Sel) (H : ∀ x ∈ sels, RTSel e c pfx x)
    (ht : treeSels c.s c.o sels = true) (henv : envSels e c pfx sels)
    (hro : rustOkSels c sels = true) (hrn : EnumSpec.nodup (rustNames c sels) = true)
    (hkeys : EnumSpec.nodup (respKeys c.s sels) = true)
    (hs : StructEnv e name (fieldsOf c pfx sels)) (b : Bool) (fd fs : Nat)
    (hfd : selsDepth sels + 3 ≤ fd) (hfs : selsDepth sels + 1 ≤ fs) (tn : String) (j : Json) (v : Val)
    (hc : conformsSel c.s tn sels j = true) (hd : dePath e b fd name j = .ok v) :
    serPath e fs name v = .ok (canonSel c.s c.o.skipNone sels j) := by
  obtain ⟨hp, _, n, d, cr, hfind⟩ := hs
  obtain ⟨fd', rfl⟩ : ∃ k, fd = k + 1 := ⟨fd - 1, by omega⟩
  obtain ⟨fs', rfl⟩ : ∃ k, fs = k + 1 := ⟨fs - 1, by omega⟩
  cases j with
  | obj kvs =>
    simp only [conformsSel, Bool.and_eq_true] at hc
    obtain ⟨⟨hnd, _⟩, hcs⟩ := hc
    have hkn := nodup_iff'.mp hkeys
    have key : ∀ f ∈ fieldsOf c pfx sels, ∀ j, Json.lookup f.wire kvs = some j →
        ∃ a fid sub, Sel.field a fid sub ∈ sels ∧ fieldOfSel c pfx (.field a fid sub) = some f ∧
          strictField c.s (.field a fid sub) j = true ∧
          fcanonOf c.s c.o.skipNone sels f j = canonField c.s c.o.skipNone (.field a fid sub) j := by
      intro f hf j hl
      obtain ⟨a, fid, sub, sf, ft, hx, hsf, hfx, rfl, _⟩ := mem_fieldsOf hf ht
      rw [fieldOf_wire] at hl
      have hcx := confSels_mem hcs _ hx
      rw [confSel_field] at hcx
      simp only [hsf, hl] at hcx
      refine ⟨a, fid, sub, hx, hfx, hcx, ?_⟩
      unfold fcanonOf
      rw [fieldOf_wire, find_respKey c.s _ sels hkn _ hx (by simp [respKey, hsf])]
    have hrt := struct_roundtrip_path e b fd' fs' name n d cr (fieldsOf c pfx sels)
      (fcanonOf c.s c.o.skipNone sels) kvs hp hfind (plain_fieldsOf c pfx sels)
      (by rw [rust_fieldsOf c pfx sels ht]; exact nodup_iff'.mp hrn) (nodup_iff'.mp hnd)
      (by
        intro f hf j x hl hdx
        obtain ⟨a, fid, sub, hx, hfx, hst, hfc⟩ := key f hf j hl
        rw [hfc]
        have hdep := C02.selDepth_le_of_mem hx
        exact H _ hx (treeSels_mem ht _ hx) (envSels_mem henv _ hx) (rustOkSels_mem hro _ hx) f hfx b fd' fs'
          (by omega) (by omega) j x hst hdx)
      (by
        intro f hf hskip j x _ hdx
        obtain ⟨a, fid, sub, sf, ft, _, _, _, rfl, _⟩ := mem_fieldsOf hf ht
        refine field_unit_iff _ _ (.inr ?_) j x hdx
        rw [fieldOf_skipNone, Bool.and_eq_true] at hskip
        exact (isOption_rustOf ft sf.ty.quals).trans (skipQ_nullable hskip.2))
      (by
        intro f hf hdef
        obtain ⟨a, fid, sub, sf, ft, _, _, _, rfl, _⟩ := mem_fieldsOf hf ht
        have : (decide (ft = "ID") && nullableQ sf.ty.quals) = true := hdef
        rw [Bool.and_eq_true] at this
        exact (isOption_rustOf ft sf.ty.quals).trans this.2)
      v hd
    rw [hrt, canonSel]
    congr 2
    apply expectOut_canon c pfx _ kvs sels ht
    intro a fid sub hx f hfx v
    obtain ⟨sf, ft, hsf, _, hf', _⟩ := fieldOfSel_tree c pfx a fid sub (treeSels_mem ht _ hx)
    rw [hf'] at hfx
    cases hfx
    unfold fcanonOf
    rw [fieldOf_wire, find_respKey c.s _ sels hkn _ hx (by simp [respKey, hsf])]
  | null => simp [conformsSel] at hc
  | bool _ => simp [conformsSel] at hc
  | int _ => simp [conformsSel] at hc
  | num _ => simp [conformsSel] at hc
  | str _ => simp [conformsSel] at hc
  | arr _ => simp [conformsSel] at hc

end RT


section RT2
variable (e : Env) (c : Ctx)

mutual
  theorem rtSel : ∀ (x : Sel) (pfx : String), RTSel e c pfx x
    | .field a fid sub, pfx => by
      intro ht henv hro f hf b fd fs hfd hfs v y hst hd
      have IH := rtSels sub
      rw [selDepth] at hfd hfs
      obtain ⟨fd', rfl⟩ : ∃ k, fd = k + 3 := ⟨fd - 3, by omega⟩
      obtain ⟨fs', rfl⟩ : ∃ k, fs = k + 1 := ⟨fs - 1, by omega⟩
      rw [treeSel] at ht
      rw [envSel] at henv
      rw [rustOkSel, Bool.and_eq_true] at hro
      simp only [strictField] at hst
      rw [canonField]
      cases hsf : c.s.fields[fid]? with
      | none => simp [hsf] at ht
      | some sf =>
        simp only [hsf, Bool.and_eq_true] at ht henv hst ⊢
        obtain ⟨⟨hw, _⟩, hty⟩ := ht
        have hwf : wf (gtyOf sf.ty.quals) = true := by rw [wf_gtyOf]; exact hw
        cases hid : sf.ty.id with
        | scalar k =>
          simp only [hid, Bool.and_eq_true] at hty henv hst ⊢
          cases hk : c.s.scalars[k]? with
          | none => simp [hk] at hty
          | some sn =>
            simp only [hk] at henv hst ⊢
            simp only [fieldOfSel, hsf, leafName, hid, hk, Option.some.injEq] at hf
            subst hf
            by_cases hID : sn = "ID"
            · subst hID
              simp only [↓reduceIte]
              exact field_roundtrip_id _ _ (fun s => serPath_prim e fs' "ID" (.str s) (.str s) rfl) _
                (gtyOf sf.ty.quals) (by simp [fieldOf]) rfl hwf v y hd
            · simp only [hID, ↓reduceIte]
              have := field_roundtrip_plain (dePath e b (fd' + 3)) (serPath e (fs' + 1)) _ sn (gtyOf sf.ty.quals) id
                (by simp [fieldOf, hID]) rfl hwf (leaf_scalar_rt e sn henv hID b fd' fs') v y hd
              rwa [(canon_id _).2 v] at this
        | enum k =>
          simp only [hid, Bool.and_eq_true] at hty henv hst ⊢
          cases hk : c.s.enums[k]? with
          | none => simp [hk] at hty
          | some en =>
            simp only [hk] at henv hst
            simp only [fieldOfSel, hsf, leafName, hid, hk, Option.some.injEq, Option.map_some] at hf
            subst hf
            obtain ⟨hp, hID, n', d, sp, vs, ser, de, hfind, hwft⟩ := henv
            have := field_roundtrip_plain (dePath e b (fd' + 3)) (serPath e (fs' + 1)) _ en.name (gtyOf sf.ty.quals) id
              (by simp [fieldOf, hID]) rfl hwf
              (leaf_enum_rt e b (fd' + 2) fs' en.name n' d sp vs ser de hp hfind hwft) v y hd
            rwa [(canon_id _).2 v] at this
        | object i =>
          simp only [hid, Bool.and_eq_true] at hty henv hst ⊢
          cases hk : c.s.objects[i]? with
          | none => simp [hk] at hty
          | some o =>
            simp only [hk] at hst
            simp only [fieldOfSel, hsf, leafName, hid, Option.some.injEq] at hf
            subst hf
            obtain ⟨hs, hesub⟩ := henv
            rw [deField_plain _ _ _ _ hs.2.1] at hd
            rw [canonLambda]
            refine (leaf_roundtrip_on (dePath e b (fd' + 3)) (serPath e (fs' + 1)) _
              (conformsSel c.s o.name sub) (canonSel c.s c.o.skipNone sub) ?_ _ hwf).2 v y hst hd
            intro j w hc hdw
            exact rtStruct e c _ _ sub (IH _) hty.1.2 hesub hro.2 hro.1 hty.2 hs b _ _ (by omega) (by omega)
              o.name j w hc hdw
        | interface k => simp [hid] at hty
        | union k => simp [hid] at hty
        | input k => simp [hid] at hty
    | .spread g, pfx => by intro ht; simp [treeSel] at ht
    | .inline t sub, pfx => by intro ht; simp [treeSel] at ht
    | .typename, pfx => by intro _ _ _ f hf; cases hf
  theorem rtSels : ∀ (sels : List Sel) (pfx : String), ∀ x ∈ sels, RTSel e c pfx x
    | [], _, x, hx => by simp at hx
    | y :: ys, pfx, x, hx => by
      rcases List.mem_cons.mp hx with h | hx'
      · rw [h]; exact rtSel y pfx
      · exact rtSels ys pfx x hx'
end

/-- **round trip of the struct emitted for a selection set** (any fuel above the depth of the tree) -/
theorem struct_lossless (pfx name : String) (sels : List Sel)
    (ht : treeSels c.s c.o sels = true) (henv : envSels e c pfx sels)
    (hro : rustOkSels c sels = true) (hrn : EnumSpec.nodup (rustNames c sels) = true)
    (hkeys : EnumSpec.nodup (respKeys c.s sels) = true)
    (hs : StructEnv e name (fieldsOf c pfx sels)) (b : Bool) (fd fs : Nat)
    (hfd : selsDepth sels + 3 ≤ fd) (hfs : selsDepth sels + 1 ≤ fs) (tn : String) (j : Json) (v : Val)
    (hc : conformsSel c.s tn sels j = true) (hd : dePath e b fd name j = .ok v) :
    serPath e fs name v = .ok (canonSel c.s c.o.skipNone sels j) :=
  rtStruct e c pfx name sels (rtSels e c sels pfx) ht henv hro hrn hkeys hs b fd fs hfd hfs tn j v hc hd

end RT2

end E2E
end C01
end GqlVerif
