import GqlVerif.Proofs.C01NestedGenJ
/-!
# `NestedGenOp`, part W: the instance (stage 1), all hypotheses evaluated; a necessity witness

Schema `ngSchema` (`interface Animal { name }`, `type Dog implements Animal { name barks age tricks }`, `type Cat implements
Animal { name lives }`, `type Query { animal }`);

    fragment Inner on Dog { tricks }
    fragment Outer on Dog { age ...Inner }
    query Q { animal { __typename name ...Outer } }

* the operation is in `NestedGenOp` and not in `NestedAbsOp` (an interface-level field next to the nested spread), nor in
  `VariantSpreadOp` / `MixedOp2` / `NestedOp`;
* the emitted types: `struct Qanimal { name, #[serde(flatten)] on: QanimalOn }`, `enum QanimalOn { Dog(QanimalOnDog), Cat }`
  tagged by `__typename`, `type QanimalOnDog = Outer`, `struct Outer { age, #[serde(flatten)] Inner }`, `struct Inner { tricks }`;
* every hypothesis of `nestedgen_roundtrip` by `decide +kernel`; the concrete round trip;
* `nestedgen_poskeys_needed`: the new part of `absTagOk` (no selected fragment reads the key of an interface-level field of
  its position) is necessary — a conforming response the emitted types reject.
-/
set_option linter.unusedSimpArgs false
set_option linter.unusedVariables false
set_option linter.unusedSectionVars false
set_option linter.unnecessarySimpa false

namespace GqlVerif
namespace C01NG
open Serde Spec C13 C03 Codegen C01 C01.E2E C01M C01N C01NA

def ngSchema : Schema :=
  { objects := [{ name := "Query", fields := [0], implements := [] },
                { name := "Dog", fields := [1, 2, 3, 4], implements := [0] },
                { name := "Cat", fields := [1, 5], implements := [0] }]
    fields := [{ name := "animal", ty := { id := .interface 0, quals := [] }, parent := .object 0, deprecation := none },
               { name := "name", ty := { id := .scalar 1, quals := [.required] }, parent := .interface 0, deprecation := none },
               { name := "barks", ty := { id := .scalar 4, quals := [] }, parent := .object 1, deprecation := none },
               { name := "age", ty := { id := .scalar 2, quals := [] }, parent := .object 1, deprecation := none },
               { name := "tricks", ty := { id := .scalar 2, quals := [] }, parent := .object 1, deprecation := none },
               { name := "lives", ty := { id := .scalar 2, quals := [] }, parent := .object 2, deprecation := none }]
    interfaces := [{ name := "Animal", fields := [1] }]
    scalars := ["ID", "String", "Int", "Float", "Boolean"] }

def ngOp (animal : List Sel) : ROperation :=
  { name := "Q", kind := .query, objectId := 0, sels := [.field none 0 animal] }

/-- `fragment Inner on Dog { tricks }`, `fragment Outer on Dog { <outer> ...Inner }` -/
def ngQuery (outer : Sel) (animal : List Sel) : Query :=
  { operations := [ngOp animal]
    fragments := [{ name := "Inner", on := .object 1, sels := [.field none 4 []] },
                  { name := "Outer", on := .object 1, sels := [outer, .spread 0] }] }

def ngCtx (outer : Sel) (animal : List Sel) : Ctx := { s := ngSchema, q := ngQuery outer animal, o := {}, cs := ⟨id, id⟩ }

/-- `age` -/
def ngAge : Sel := .field none 3 []
/-- `animal { __typename name ...Outer }` -/
def ngAnimal : List Sel := [.typename, .field none 1 [], .spread 1]

abbrev CG : Ctx := ngCtx ngAge ngAnimal
abbrev OG : ROperation := ngOp ngAnimal

def ngItems : List Item := okOr (responseForQuery CG 0)

theorem ng_gen : responseForQuery CG 0 = .ok ngItems := gen_of_isOk (by decide +kernel)
theorem ng_class : NestedGenOp CG OG = true := by decide +kernel
/-- not in `NestedAbsOp`, nor in the earlier classes -/
theorem ng_not_A : NestedAbsOp CG OG = false := by decide +kernel
theorem ng_not_N : NestedOp CG OG = false := by decide +kernel
theorem ng_not_M2 : MixedOp2 CG OG = false := by decide +kernel
theorem ng_not_S : VariantSpreadOp CG OG = false := by decide +kernel

theorem ng_names : fragNamesOk CG = true := by decide +kernel
theorem ng_keys : nestedGenKeysOk CG OG = true := by decide +kernel
theorem ng_tag : absTagOk CG OG = true := by decide +kernel
theorem ng_side : nestedGenSideOk CG OG = true := by decide +kernel
theorem ng_ok : moduleOk CG ngItems = true := by decide +kernel

/-- `nestedgen_items_shape` on the instance -/
theorem ng_items : responseItems CG OG = .ok (bodyItemsA CG "ResponseData" "Q" OG.sels) :=
  nestedgen_items_shape _ _ (by simp [ngCtx, ngQuery]) ng_class

/-- the emitted types -/
theorem ng_items_shape :
    ((moduleEnv CG ngItems).find "Qanimal" ==
      some (.struct "Qanimal" ["Deserialize"] (some "::serde")
        [{ rust := "name", ty := .path "String" },
         { rust := "on", ty := .path "QanimalOn", flatten := true }])) &&
    ((moduleEnv CG ngItems).find "QanimalOn" ==
      some (.tagged "QanimalOn" ["Deserialize"] (some "::serde") "__typename"
        [{ name := "Dog", payload := some (.path "QanimalOnDog") }, { name := "Cat" }])) &&
    ((moduleEnv CG ngItems).find "QanimalOnDog" == some (.alias "QanimalOnDog" true (.path "Outer"))) &&
    ((moduleEnv CG ngItems).find "Outer" ==
      some (.struct "Outer" ["Deserialize"] (some "::serde")
        [{ rust := "age", ty := .opt (.path "Int") },
         { rust := "Inner", ty := .path "Inner", flatten := true }])) &&
    ((moduleEnv CG ngItems).find "Inner" ==
      some (.struct "Inner" ["Deserialize"] (some "::serde")
        [{ rust := "tricks", ty := .opt (.path "Int") }])) = true := by
  decide +kernel

def ngJson : Json :=
  .obj [("animal", .obj [("tricks", .int 3), ("__typename", .str "Dog"), ("name", .str "Rex"), ("age", .int 7)])]

def ngJsonCat : Json :=
  .obj [("animal", .obj [("name", .str "Tom"), ("__typename", .str "Cat")])]

macro "confG_eval" : tactic => `(tactic|
  simp [conformsOpN, ngCtx, ngOp, ngQuery, ngAge, expandSelsW, expandSelW, exN, expandSel, expandSels, conformsV, confSelsV,
    confSelV, keysSelsV, keysSelV,
    fragApplies, rtName, ngSchema, Json.lookup, accepts, acceptsNN, gtyOf, scalarOk, floatOk, stringOk, boolOk, intOk, i64Ok,
    Json.isNull, EnumSpec.nodup, List.range, List.range.loop, conformsAt, Schema.implementors, List.zipIdx])

set_option maxRecDepth 8000 in
theorem ng_conforms : conformsOpN CG OG ngJson = true := by
  simp only [CG, OG, ngAnimal, ngJson]; confG_eval
set_option maxRecDepth 8000 in
theorem ng_conforms_cat : conformsOpN CG OG ngJsonCat = true := by
  simp only [CG, OG, ngAnimal, ngJsonCat]; confG_eval

/-- C03 on the module: what `ResponseData` accepts, exactly -/
theorem ng_precise (j : Json) :
    okB (Serde.de (moduleEnv CG ngItems) (.path "ResponseData") j) =
      conformsLooseA (wholeN CG 2) ngSchema (ngQuery ngAge ngAnimal) {} false OG.sels j :=
  nestedgen_precise_iff CG 0 OG ngItems rfl ng_class ng_names ng_keys ng_gen ng_ok j

/-- `nestedgen_accepts` on the instance -/
theorem ng_accepts : ∃ v, Serde.de (moduleEnv CG ngItems) (.path "ResponseData") ngJson = .ok v :=
  nestedgen_accepts CG 0 OG ngItems rfl ng_class ng_names ng_keys ng_tag ng_gen ng_ok ngJson ng_conforms

/-- `nestedgen_roundtrip` on the instance, the canonical form still symbolic -/
theorem ng_roundtrip_canon :
    Serde.roundtrip (moduleEnv CG ngItems) (.path "ResponseData") ngJson =
      .ok (normJson (canonSelA (centN CG 2) ngSchema (ngQuery ngAge ngAnimal) {} OG.sels ngJson)) :=
  nestedgen_roundtrip CG 0 OG ngItems rfl ng_class ng_names ng_keys ng_tag ng_side ng_gen ng_ok ngJson ng_conforms

/-- **the concrete round trip**, by evaluation of the model: the struct writes the interface-level field `name`, the
    flattened tagged enum the tag entry, then `Outer`'s own entry `age`, then the entry `tricks` of the fragment `Inner`
    spread in `Outer`'s body -/
theorem ng_roundtrip_eval :
    (match Serde.roundtrip (moduleEnv CG ngItems) (.path "ResponseData") ngJson with
     | .ok (.obj [("animal", .obj [("name", .str "Rex"), ("__typename", .str "Dog"), ("age", .int 7), ("tricks", .int 3)])]) =>
       true
     | _ => false) = true := by decide +kernel

theorem ng_roundtrip_cat_eval :
    (match Serde.roundtrip (moduleEnv CG ngItems) (.path "ResponseData") ngJsonCat with
     | .ok (.obj [("animal", .obj [("name", .str "Tom"), ("__typename", .str "Cat")])]) => true
     | _ => false) = true := by decide +kernel

/-- … hence the canonical form of `nestedgen_roundtrip` is that value -/
theorem ng_canon_value :
    (match (Except.ok (normJson (canonSelA (centN CG 2) ngSchema (ngQuery ngAge ngAnimal) {} OG.sels ngJson)) : D Json) with
     | .ok (.obj [("animal", .obj [("name", .str "Rex"), ("__typename", .str "Dog"), ("age", .int 7), ("tricks", .int 3)])]) =>
       true
     | _ => false) = true := by
  rw [← ng_roundtrip_canon]; exact ng_roundtrip_eval

/-! ## necessity of the new part of `absTagOk`

    fragment Outer on Dog { name ...Inner }        -- reads the key of the interface-level field `name`
    query Q { animal { __typename name ...Outer } }

`Qanimal` consumes the entry `name`; the flattened `on` (and so `Outer`) never sees it. -/

/-- `name` -/
def ngName : Sel := .field none 1 []
abbrev CK : Ctx := ngCtx ngName ngAnimal
def nkItems : List Item := okOr (responseForQuery CK 0)
theorem nk_gen : responseForQuery CK 0 = .ok nkItems := gen_of_isOk (by decide +kernel)
theorem nk_class : NestedGenOp CK OG = true := by decide +kernel
theorem nk_names : fragNamesOk CK = true := by decide +kernel
theorem nk_keys : nestedGenKeysOk CK OG = true := by decide +kernel
theorem nk_ok : moduleOk CK nkItems = true := by decide +kernel
theorem nk_tag : absTagOk CK OG = false := by decide +kernel

def nkJson : Json :=
  .obj [("animal", .obj [("tricks", .int 3), ("__typename", .str "Dog"), ("name", .str "Rex")])]

set_option maxRecDepth 8000 in
theorem nk_conforms : conformsOpN CK OG nkJson = true := by
  simp only [CK, OG, ngAnimal, nkJson, ngName]; confG_eval

/-- **`absTagOk` is necessary**: every other hypothesis of `nestedgen_accepts` holds, the response conforms, and the emitted
    `ResponseData` rejects it -/
theorem nestedgen_poskeys_needed :
    NestedGenOp CK OG = true ∧ fragNamesOk CK = true ∧ nestedGenKeysOk CK OG = true ∧
      moduleOk CK nkItems = true ∧ conformsOpN CK OG nkJson = true ∧
      okB (Serde.de (moduleEnv CK nkItems) (.path "ResponseData") nkJson) = false :=
  ⟨nk_class, nk_names, nk_keys, nk_ok, nk_conforms, by decide +kernel⟩

end C01NG
end GqlVerif
