import GqlVerif.Proofs.C01NestedBC
/-!
# C01 / C03 end to end (`NestedBOp`), part D: `ResponseData` accepts exactly `conformsLooseA` (generic environment)

The rank recursion of `C01NestedD` (`wholeN`, `KNn`, `FragEnvN`, `fragSideN`, `fragAccN`) is about fragments only and is
used as it is.  `aSpreads`: the spreads at object positions and the fragments selected at positions of the new kind (their
inner key side conditions `fragSideN` are required); `nestedBKeysOk`; `TopEnvA`; **`top_accepts_iffA`**.

Copy of `C01NestedGenXD` for the class `NestedBOp`; what differs: at an abstract position `aSpreads` collects the fragments of the
selection set **without its (b)-spreads** (`unB`): a (b)-fragment is spread-free (`fragOkB`), it needs no `fragSideN`.
-/
set_option linter.unusedSimpArgs false
set_option linter.unusedVariables false
set_option linter.unusedSectionVars false
set_option linter.unnecessarySimpa false

namespace GqlVerif
namespace C01NB
open Serde Spec C13 C03 Codegen C01 C01.E2E C01M C01N C01NA C01NG C01NX

mutual
  /-- the spreads at object positions of a selection set (not through fragment bodies), and the fragments selected at
      abstract positions of the new kind -/
  def aSpreads (s : Schema) (q : Query) (o : Options) : Sel → List Nat
    | .field a fid sub =>
      match s.fields[fid]? with
      | none => []
      | some sf =>
        match sf.ty.id with
        | .object _ => aSpreadss s q o sub
        | ty => if sSel s q o false (.field a fid sub) then [] else (unB q ty sub).filterMap selFrag
    | .spread g => [g]
    | _ => []
  def aSpreadss (s : Schema) (q : Query) (o : Options) : List Sel → List Nat
    | [] => []
    | x :: xs => aSpreads s q o x ++ aSpreadss s q o xs
end

theorem selFrag_unbody_mem {sub : List Sel} {g : Nat} (h : g ∈ (strip (unbody sub)).filterMap selFrag) :
    g ∈ sub.filterMap selFrag := by
  obtain ⟨x, hx, hxg⟩ := List.mem_filterMap.mp h
  exact List.mem_filterMap.mpr ⟨x, (mem_unbody.mp (mem_strip.mp hx).1).1, hxg⟩

theorem varEnvX_and {fenv : Nat → Prop} {P : Nat → Prop} {e : Env} {c : Ctx} {name : String} {vt : TypeId} {sub : List Sel}
    (h : VarEnvX fenv e c name vt sub) (hP : ∀ g ∈ sub.filterMap selFrag, P g) :
    VarEnvX (fun g => fenv g ∧ P g) e c name vt sub := by
  unfold VarEnvX at h ⊢
  split
  · rename_i hb
    rw [if_pos hb] at h
    exact ⟨h.1, h.2.1, fun g hg => ⟨h.2.2 g hg, hP g (memFrags_mem_selFrag hg)⟩⟩
  · rename_i hb
    rw [if_neg hb] at h
    exact varEnvA_and h (fun g hg => hP g (selFrag_unbody_mem (memFrags_mem_selFrag hg)))

theorem envAbsB_and {fenv : Nat → Prop} {P : Nat → Prop} {e : Env} {c : Ctx} {name : String} {ty : TypeId} {sub : List Sel}
    (h : EnvAbsB fenv e c name ty sub) (hP : ∀ g ∈ (unB c.q ty sub).filterMap selFrag, P g) :
    EnvAbsB (fun g => fenv g ∧ P g) e c name ty sub :=
  ⟨h.1, h.2.1, h.2.2.1, fun vt hvt => varEnvX_and (h.2.2.2 vt hvt) hP⟩

mutual
  theorem envSelA_and {fenv : Nat → Prop} {P : Nat → Prop} {e : Env} {c : Ctx} : ∀ (x : Sel) (pfx : String),
      envSelA fenv e c pfx x → (∀ g ∈ aSpreads c.s c.q c.o x, P g) → envSelA (fun g => fenv g ∧ P g) e c pfx x
    | .field a fid sub, pfx => by
      intro h hP
      have IH := @envSelsA_and fenv P e c sub
      rw [envSelA] at h ⊢
      rw [aSpreads] at hP
      cases hsf : c.s.fields[fid]? with
      | none => trivial
      | some sf =>
        simp only [hsf] at h hP ⊢
        cases hid : sf.ty.id with
        | object i =>
          simp only [hid] at h hP ⊢
          by_cases hsp : ∃ g, sub = [Sel.spread g]
          · obtain ⟨g, rfl⟩ := hsp
            simp only at h ⊢
            exact ⟨h.1, h.2, hP g (by simp [aSpreadss, aSpreads])⟩
          · have hnl : ∀ g, sub ≠ [Sel.spread g] := fun g hg => hsp ⟨g, hg⟩
            have h' : StructEnv e (pfx ++ c.cs.camel (a.getD sf.name))
                (fieldsOfF c (pfx ++ c.cs.camel (a.getD sf.name)) sub) ∧
                envSelsA fenv e c (pfx ++ c.cs.camel (a.getD sf.name)) sub := by
              revert h; split
              · exact fun _ => absurd rfl (hnl _)
              · exact id
            split
            · exact absurd rfl (hnl _)
            · exact ⟨h'.1, IH _ h'.2 hP⟩
        | scalar k =>
          simp only [hid] at h hP ⊢
          cases hs : sSel c.s c.q c.o false (.field a fid sub) with
          | true => simpa only [hs, if_true] using h
          | false =>
            simp only [hs, Bool.false_eq_true, if_false] at h hP ⊢
            exact envAbsB_and h hP
        | «enum» k =>
          simp only [hid] at h hP ⊢
          cases hs : sSel c.s c.q c.o false (.field a fid sub) with
          | true => simpa only [hs, if_true] using h
          | false =>
            simp only [hs, Bool.false_eq_true, if_false] at h hP ⊢
            exact envAbsB_and h hP
        | interface k =>
          simp only [hid] at h hP ⊢
          cases hs : sSel c.s c.q c.o false (.field a fid sub) with
          | true => simpa only [hs, if_true] using h
          | false =>
            simp only [hs, Bool.false_eq_true, if_false] at h hP ⊢
            exact envAbsB_and h hP
        | union k =>
          simp only [hid] at h hP ⊢
          cases hs : sSel c.s c.q c.o false (.field a fid sub) with
          | true => simpa only [hs, if_true] using h
          | false =>
            simp only [hs, Bool.false_eq_true, if_false] at h hP ⊢
            exact envAbsB_and h hP
        | input k =>
          simp only [hid] at h hP ⊢
          cases hs : sSel c.s c.q c.o false (.field a fid sub) with
          | true => simpa only [hs, if_true] using h
          | false =>
            simp only [hs, Bool.false_eq_true, if_false] at h hP ⊢
            exact envAbsB_and h hP
    | .spread g, pfx => by
      intro h hP
      rw [envSelA] at h ⊢
      exact ⟨h, hP g (by simp [aSpreads])⟩
    | .inline _ _, _ => by intro _ _; simp [envSelA]
    | .typename, _ => by intro _ _; simp [envSelA]
  theorem envSelsA_and {fenv : Nat → Prop} {P : Nat → Prop} {e : Env} {c : Ctx} : ∀ (sels : List Sel) (pfx : String),
      envSelsA fenv e c pfx sels → (∀ g ∈ aSpreadss c.s c.q c.o sels, P g) → envSelsA (fun g => fenv g ∧ P g) e c pfx sels
    | [], _ => by intro _ _; simp [envSelsA]
    | x :: xs, pfx => by
      intro h hP
      rw [envSelsA] at h ⊢
      rw [aSpreadss] at hP
      exact ⟨envSelA_and x pfx h.1 (fun g hg => hP g (List.mem_append_left _ hg)),
        envSelsA_and xs pfx h.2 (fun g hg => hP g (List.mem_append_right _ hg))⟩
end

/-! ## top level (generic environment) -/

/-- keys disjoint between a spread at an object position and its siblings: at every object level of the operation, and
    inside the bodies of the spread fragments (decidable) -/
def nestedBKeysOk (c : Ctx) (op : ROperation) : Bool :=
  keysOksA (KNn c c.q.fragments.length) c op.sels &&
  EnumSpec.nodup (expKeysN (KNn c c.q.fragments.length) c op.sels) &&
  (aSpreadss c.s c.q c.o op.sels).all (fragSideN c c.q.fragments.length)

structure TopEnvA (e : Env) (c : Ctx) (op : ROperation) : Prop where
  root : BodyEnvA (FragEnvN e c c.q.fragments.length) e c "ResponseData" (c.cs.camel op.name) op.sels
  ok : SerdeFuel.EnvOK e

theorem bodyEnvA_and {fenv : Nat → Prop} {P : Nat → Prop} {e : Env} {c : Ctx} {name pfx : String} {sels : List Sel}
    (h : BodyEnvA fenv e c name pfx sels) (hP : ∀ g ∈ aSpreadss c.s c.q c.o sels, P g) :
    BodyEnvA (fun g => fenv g ∧ P g) e c name pfx sels := by
  by_cases hsp : ∃ g, sels = [Sel.spread g]
  · obtain ⟨g, rfl⟩ := hsp
    unfold BodyEnvA at h ⊢
    simp only at h ⊢
    exact ⟨h.1, h.2, hP g (by simp [aSpreadss, aSpreads])⟩
  · have hnl : ∀ g, sels ≠ [Sel.spread g] := fun g hg => hsp ⟨g, hg⟩
    have h' := bodyEnvA_not_lone hnl h
    unfold BodyEnvA
    split
    · exact absurd rfl (hnl _)
    · exact ⟨h'.1, envSelsA_and sels pfx h'.2 hP⟩

/-- **`ResponseData` accepts exactly `conformsLooseA … false`** (generic environment) -/
theorem top_accepts_iffA (e : Env) (c : Ctx) (op : ROperation) (ht : NestedBOp c op = true) (hnd : fragNamesOk c = true)
    (hk : nestedBKeysOk c op = true) (he : TopEnvA e c op) (j : Json) :
    okB (Serde.de e (.path "ResponseData") j) =
      conformsLooseA (wholeN c c.q.fragments.length) c.s c.q c.o false op.sels j := by
  obtain ⟨_, _, hsels⟩ := nestedBOp_parts ht
  simp only [nestedBKeysOk, Bool.and_eq_true, List.all_eq_true] at hk
  obtain ⟨⟨hko, hkeys⟩, hsub⟩ := hk
  have hfa : ∀ p' g', fragOkN c.s c.q c.o c.q.fragments.length p' g' = true →
      (FragEnvN e c c.q.fragments.length g' ∧ fragSideN c c.q.fragments.length g' = true) →
      FragAcc e c (wholeN c c.q.fragments.length) (KNn c c.q.fragments.length) g' :=
    fun p' g' h1 h2 => fragAccN e c hnd _ p' g' h1 h2.1 h2.2
  obtain ⟨N, hN⟩ := bodyA_accepts_iff e c _ (wholeN c c.q.fragments.length) (KNn c c.q.fragments.length) _
    (fragOkN_spec c.s c.q c.o _) hfa (c.cs.camel op.name) "ResponseData" _ op.sels hsels
    (bodyEnvA_and (P := fun g' => fragSideN c c.q.fragments.length g' = true) he.root hsub) hko hkeys
  rw [de_top, ← SerdeFuel.dePath_fuel_indep he.ok false "ResponseData" j (max N (deFuel e j)) (Nat.le_max_right _ _)]
  exact hN false _ (Nat.le_max_left _ _) j

end C01NB
end GqlVerif
