import GqlVerif.Proofs.C04DefaultsRustModule
import GqlVerif.Proofs.C04DefaultsWitness
import GqlVerif.Proofs.C04RustExamples
/-!
# C04 under `normalization = rust` — default literals: a worked instance, and the side conditions on witnesses

The schema of `C04RustExamples.lean` (`scalar date_time`, `enum sort_order { asc desc }`, `input page_input { first: Int,
after: ID, order: sort_order!, since: date_time, ids: [ID!], next: page_input }` — `next` boxed) with

```graphql
query Q($page: page_input = {order: desc, first: 3, ids: "a", next: {order: asc, since: null}},
        $order: sort_order = asc, $orders: [sort_order!] = desc, $since: date_time = "2020", $limit: Int! = 5,
        $plain: Int) { x }
```
Under `rust` the bodies say `PageInput { .. order: SortOrder::Desc .. }`, `Some(SortOrder::Asc)`, `Some(vec![SortOrder::Desc])`
where the `none` module says `page_input { .. order: sort_order::desc .. }`, … (`dr_bodies`: both lists, they differ).

* `dr_side`, `dr_hyps`, `dr_valid`: every hypothesis of `default_typechecks_rust'` / `default_value_correct_rust'`;
  `dr_typechecks`, `dr_value_correct`: the theorems on the instance; `dr_run`: the model's own evaluation in the `rust`
  module — each body type-checks and is written as the coerced canonical default (`dr_expected`);
  `dr_raw_names_fail`: the `none` bodies do **not** type-check in the `rust` module (the renaming is not vacuous).
* `wx_enum_idents` — **`EnumIdentsInjective` is needed**: two enum values that merge under `rust` (`foo_bar`, `fooBar` ↦
  `FooBar`); the default `fooBar` is rendered `Some(ColorKind::FooBar)`, which (in the model, where the first variant of
  that name wins) denotes the *other* value: it is written as `"foo_bar"`, not as the declared default `"fooBar"`.
  Every other hypothesis holds.
* `wx_names` — **`NamesInjective` is needed**: an input type whose name starts with `__` is *defined* under its
  camel-cased name and *referenced* under its raw name (`Normalization.fieldType` keeps `__…`); the literal
  `Page { .. }` (a well-typed `__page { .. }` under `none`) does not type-check at `Option<__page>`.
* `nx_keyword_variant` — why `valueToLiteral_rename` asks for `enumOk`: the *invalid* default `type` for
  `enum kind { type_ }` is rendered `kind::type_` under `none` — which names the variant of the value `type_`:
  **an invalid default that type-checks** — and `Kind::type_` under `rust`, which names nothing.
-/
namespace GqlVerif
namespace C04DR
open Codegen Serde C04S C04R C13 C04D C09 C09N
open C01.E2E (noNorm)

/-! ## the instance -/

def drPage : Value :=
  .obj [("order", .enum "desc"), ("first", .int 3), ("ids", .str "a"),
        ("next", .obj [("order", .enum "asc"), ("since", .null)])]

def drVars : List RVariable :=
  [{ opIdx := 0, name := "page", default := some drPage, ty := { id := .input 0, quals := [] } },
   { opIdx := 0, name := "order", default := some (.enum "asc"), ty := { id := .enum 0, quals := [] } },
   { opIdx := 0, name := "orders", default := some (.enum "desc"), ty := { id := .enum 0, quals := [.list, .required] } },
   { opIdx := 0, name := "since", default := some (.str "2020"), ty := { id := .scalar 5, quals := [] } },
   { opIdx := 0, name := "limit", default := some (.int 5), ty := { id := .scalar 2, quals := [.required] } },
   { opIdx := 0, name := "plain", default := none, ty := { id := .scalar 2, quals := [] } }]

def drQuery : Query :=
  { operations := [{ name := "Q", kind := .query, objectId := 0, sels := [.field none 0 []] }], variables := drVars }

/-- the context of the task: `normalization = rust` -/
def drC₁ : Ctx :=
  { s := rxSchema, q := drQuery, o := { normalization := .rust }, cs := { snake := id, camel := tblCamel rxTbl } }

def drItems₀ : List Item := itemsOf (noNorm drC₁)
def drItems₁ : List Item := itemsOf drC₁
def drEnv₀ : Env := moduleEnv (noNorm drC₁) drItems₀
def drEnv₁ : Env := moduleEnvN drC₁ drItems₁

set_option maxRecDepth 100000 in
/-- **the side conditions of the wire invariant hold** -/
theorem dr_side : RustSideV (noNorm drC₁) drC₁ 0 drItems₀ drItems₁ :=
  RustSideV.of_noNorm (by decide +kernel) (itemsOf_ok (by decide +kernel)) (itemsOf_ok (by decide +kernel))
    (by decide +kernel) (by decide +kernel) (by decide +kernel)

set_option maxRecDepth 100000 in
/-- **the hypotheses of the `none` theorems hold of `noNorm drC₁` and its module** -/
theorem dr_hyps :
    (∀ i ∈ drC₁.s.inputs, keywordReplace i.name = i.name) ∧
    (∀ n ∈ drC₁.s.scalars, keywordReplace n = n) ∧
    (∀ e ∈ drC₁.s.enums, keywordReplace e.name = e.name) ∧
    C02.OutputOnly drC₁.s drC₁.q = true ∧ C02.InputFieldsRelevant drC₁.s = true ∧
    (∀ v ∈ drC₁.q.opVariables 0, C02.Relevant v.ty.id) ∧
    (Scope.defines drItems₀).Nodup ∧ (∀ it ∈ drItems₀, (C02.memberIdents it).Nodup) ∧
    (∀ it ∈ drItems₀, C01.notPrim it.name) ∧ ExternsFree (noNorm drC₁) drItems₀ ∧ drC₁.o.externEnums = [] := by
  obtain ⟨h1, h2, h3, _, h5, _⟩ := rx_hyps
  refine ⟨h1, h2, h3, (by decide : C02.OutputOnly rxSchema drQuery = true), h5, ?_, ?_, ?_, ?_, ?_, rfl⟩
  · have : ∀ v ∈ drVars, C02.Relevant v.ty.id := by
      intro v hv
      simp only [drVars, List.mem_cons, List.not_mem_nil, or_false] at hv
      rcases hv with rfl | rfl | rfl | rfl | rfl | rfl <;> trivial
    intro v hv
    exact this v (List.mem_filter.mp hv).1
  · decide +kernel
  · decide +kernel
  · decide +kernel
  · unfold ExternsFree
    decide +kernel

set_option maxRecDepth 100000 in
/-- every default of the instance is valid for its declared type (with list input coercion: `orders`, `page.ids`),
    satisfies `kindOk` and nests fewer than 64 levels -/
theorem dr_valid : ∀ v ∈ drC₁.q.opVariables 0, defaultOkB Leaves.graphql rxSchema v = true := by
  have hall : ∀ v ∈ drVars, defaultOkB Leaves.graphql rxSchema v = true := by decide +kernel
  intro v hv
  exact hall v (List.mem_filter.mp hv).1

/-- the inner `page_input { order: asc, since: null }`, under the names of the two modules -/
def drInner (inp en asc : String) : LitExpr :=
  .struct inp [("first", .none), ("after", .none), ("order", .path en asc), ("since", .none), ("ids", .none),
               ("next", .box .none)]

/-- the bodies, as a function of the names `normalization` changes -/
def drBodies (inp en asc desc : String) : List (String × LitExpr) :=
  [("default_page", .some (.struct inp
      [("first", .some (.int 3)), ("after", .none), ("order", .path en desc), ("since", .none),
       ("ids", .some (.vec [.str "a"])), ("next", .box (.some (drInner inp en asc)))])),
   ("default_order", .some (.path en asc)),
   ("default_orders", .some (.vec [.path en desc])),
   ("default_since", .some (.str "2020")),
   ("default_limit", .int 5)]

set_option maxRecDepth 100000 in
/-- **the bodies under `none` and under `rust`**: the same shape, other names -/
theorem dr_bodies :
    (match defaultBodies (noNorm drC₁) 0 with
     | .ok bs => bodiesEqB bs (drBodies "page_input" "sort_order" "asc" "desc")
     | .error _ => false) = true ∧
    (match defaultBodies drC₁ 0 with
     | .ok bs => bodiesEqB bs (drBodies "PageInput" "SortOrder" "Asc" "Desc")
     | .error _ => false) = true := ⟨by decide +kernel, by decide +kernel⟩

/-- **`default_typechecks_rust'` on the instance**: every `default_*` body of the `rust` module type-checks at the
    variable's type (`Option<PageInput>`, `Option<SortOrder>`, `Option<Vec<SortOrder>>`, `Option<DateTime>`, `Int`) -/
theorem dr_typechecks (v : RVariable) (hv : v ∈ drC₁.q.opVariables 0) (d : Value) (hd : v.default = some d) :
    ∃ lit t x, valueToLiteral drC₁ 64 d v.ty.id v.ty.quals = .ok lit ∧ lit.hasCompileError = false ∧
      variableType drC₁ v = .ok t ∧ evalLit drEnv₁ lit t = some x ∧ HasTy drEnv₁ t x := by
  obtain ⟨h1, h2, h3, h4, h5, h6, h7, h8, h9, h10, h11⟩ := dr_hyps
  obtain ⟨hv1, hv2, hv3⟩ := defaultOkB_sound (dr_valid v hv) hd
  exact default_typechecks_rust' Leaves.graphql drC₁ 0 drItems₀ drItems₁ dr_side h1 h2 h3 h4 h5 h6 h7 h8 h9 h10
    int32_sub_i64 rfl h11 v hv d hv1 hv2 hv3

/-- **`default_value_correct_rust'` on the instance** -/
theorem dr_value_correct (v : RVariable) (hv : v ∈ drC₁.q.opVariables 0) (d : Value) (hd : v.default = some d) :
    ∃ lit t x, valueToLiteral drC₁ 64 d v.ty.id v.ty.quals = .ok lit ∧ variableType drC₁ v = .ok t ∧
      evalLit drEnv₁ lit t = some x ∧
      Serde.ser drEnv₁ t x =
        .ok (canon rxSchema false v.ty.id (gty v.ty) (coerce rxSchema v.ty.id (gty v.ty) (valueJson d))) := by
  obtain ⟨h1, h2, h3, h4, h5, h6, h7, h8, h9, h10, h11⟩ := dr_hyps
  obtain ⟨hv1, hv2, hv3⟩ := defaultOkB_sound (dr_valid v hv) hd
  obtain ⟨lit, t, x, hl, _, ht, hx, _⟩ := dr_typechecks v hv d hd
  exact ⟨lit, t, x, hl, ht, hx, default_value_correct_rust' Leaves.graphql drC₁ 0 drItems₀ drItems₁ dr_side h1 h2 h3 h4 h5
    h6 h7 h8 h9 h10 int32_sub_i64 rfl h11 v hv d hv1 hv2 hv3 lit t x hl ht hx⟩

/-- the declared defaults, coerced to the declared type, in canonical form — no Rust name occurs in them -/
def drExpected : List Json :=
  [.obj [("first", .int 3), ("after", .null), ("order", .str "desc"), ("since", .null), ("ids", .arr [.str "a"]),
         ("next", .obj [("first", .null), ("after", .null), ("order", .str "asc"), ("since", .null), ("ids", .null),
                        ("next", .null)])],
   .str "asc", .arr [.str "desc"], .str "2020", .int 5]

set_option maxRecDepth 100000 in
/-- **the model's own run in the `rust` module**: each body type-checks and is written as the expected JSON -/
theorem dr_run : ((drVars.take 5).zip drExpected).all (fun p => runDefault drC₁ drEnv₁ p.1 p.2) = true := by
  decide +kernel

set_option maxRecDepth 100000 in
/-- the right-hand sides of `dr_value_correct`, computed -/
theorem dr_expected : ((drVars.take 5).zip drExpected).all (fun p =>
    match p.1.default with
    | none => false
    | some d => jsonEqB (canon rxSchema false p.1.ty.id (gty p.1.ty) (coerce rxSchema p.1.ty.id (gty p.1.ty) (valueJson d)))
        p.2) = true := by
  decide +kernel

/-- the literal type-checks at `t` in `e` -/
def typechecksAt (e : Env) (r : Outcome LitExpr) (t : Outcome RTy) : Bool :=
  match r, t with
  | .ok lit, .ok t => !lit.hasCompileError && (evalLit e lit t).isSome
  | _, _ => false

set_option maxRecDepth 100000 in
/-- **the renaming is not vacuous**: the bodies rendered under `none` (`page_input { .. }`, `sort_order::asc`) do not
    type-check in the `rust` module, those rendered under `rust` do -/
theorem dr_raw_names_fail :
    ((drVars.take 3).all fun v => match v.default with
      | none => false
      | some d =>
        typechecksAt drEnv₁ (valueToLiteral drC₁ 64 d v.ty.id v.ty.quals) (variableType drC₁ v) &&
        !typechecksAt drEnv₁ (valueToLiteral (noNorm drC₁) 64 d v.ty.id v.ty.quals) (variableType drC₁ v)) = true := by
  decide +kernel

/-! ## `EnumIdentsInjective` is needed -/

/-- `scalar date_time`, `scalar url`, `enum color_kind { foo_bar fooBar }`, … (`C09N.w1Schema`) with
    `query Q($c: color_kind = fooBar) { color at until }` -/
def wxQuery : Query :=
  { operations := [{ name := "Q", kind := .query, objectId := 0,
                     sels := [.field none 0 [], .field none 1 [], .field none 2 []] }],
    variables := [{ opIdx := 0, name := "c", default := some (.enum "fooBar"), ty := { id := .enum 0, quals := [] } }] }

def wxC₁ : Ctx := { s := w1Schema, q := wxQuery, o := { normalization := .rust }, cs := { snake := id, camel := tblCamel w1Tbl } }
def wxItems₀ : List Item := itemsOf (noNorm wxC₁)
def wxItems₁ : List Item := itemsOf wxC₁
def wxVar : RVariable := { opIdx := 0, name := "c", default := some (.enum "fooBar"), ty := { id := .enum 0, quals := [] } }

set_option maxRecDepth 100000 in
/-- every hypothesis of `default_value_correct_rust'` but `EnumIdentsInjective` holds (the default is valid, `kindOk`);
    under `none` the body `Some(color_kind::fooBar)` is written as the declared default `"fooBar"`; under `rust` the body
    `Some(ColorKind::FooBar)` type-checks (in the model) and is written as `"foo_bar"` -/
theorem wx_enum_idents :
    IdStable (noNorm wxC₁) wxC₁ ∧
    responseForQuery (noNorm wxC₁) 0 = .ok wxItems₀ ∧ responseForQuery wxC₁ 0 = .ok wxItems₁ ∧
    NamesInjective (moduleEnv (noNorm wxC₁) wxItems₀) (moduleEnvN wxC₁ wxItems₁) ∧
    FieldsWF (moduleEnv (noNorm wxC₁) wxItems₀) ∧
    ¬ EnumIdentsInjective (noNorm wxC₁) wxC₁ ∧
    (Scope.defines wxItems₀).Nodup ∧ (∀ it ∈ wxItems₀, (C02.memberIdents it).Nodup) ∧
    (∀ it ∈ wxItems₀, C01.notPrim it.name) ∧
    defaultOkB Leaves.graphql w1Schema wxVar = true ∧
    runDefault (noNorm wxC₁) (moduleEnv (noNorm wxC₁) wxItems₀) wxVar (.str "fooBar") = true ∧
    runDefault wxC₁ (moduleEnvN wxC₁ wxItems₁) wxVar (.str "foo_bar") = true ∧
    runDefault wxC₁ (moduleEnvN wxC₁ wxItems₁) wxVar (.str "fooBar") = false :=
  ⟨by decide +kernel, itemsOf_ok (by decide +kernel), itemsOf_ok (by decide +kernel), by decide +kernel,
   by decide +kernel, by decide +kernel, by decide +kernel, by decide +kernel, by decide +kernel, by decide +kernel,
   by decide +kernel, by decide +kernel, by decide +kernel⟩

set_option maxRecDepth 100000 in
/-- … and the remaining hypotheses of the theorems hold in `wx_enum_idents` -/
theorem wx_hyps :
    (∀ i ∈ wxC₁.s.inputs, keywordReplace i.name = i.name) ∧
    (∀ n ∈ wxC₁.s.scalars, keywordReplace n = n) ∧
    (∀ e ∈ wxC₁.s.enums, keywordReplace e.name = e.name) ∧
    C02.OutputOnly wxC₁.s wxC₁.q = true ∧ C02.InputFieldsRelevant wxC₁.s = true ∧
    (∀ v ∈ wxC₁.q.opVariables 0, C02.Relevant v.ty.id) ∧ ExternsFree (noNorm wxC₁) wxItems₀ ∧
    wxC₁.o.externEnums = [] := by
  refine ⟨C02.hkw_of_not_keyword _ (by decide +kernel : ∀ i ∈ w1Schema.inputs, i.name ∉ Gen.keywordTable), ?_, ?_,
    (by decide : C02.OutputOnly w1Schema wxQuery = true), (by decide : C02.InputFieldsRelevant w1Schema = true),
    ?_, ?_, rfl⟩
  · intro n hn
    rw [C11.keywordReplace_spec, if_neg]
    exact (by decide +kernel : ∀ n ∈ w1Schema.scalars, n ∉ Gen.keywordTable) n hn
  · intro e he
    rw [C11.keywordReplace_spec, if_neg]
    exact (by decide +kernel : ∀ e ∈ w1Schema.enums, e.name ∉ Gen.keywordTable) e he
  · intro v hv
    have : v.ty.id = .enum 0 := by
      simp only [wxC₁, wxQuery, Query.opVariables, List.filter_cons, List.filter_nil] at hv
      simp at hv
      rw [hv]
    rw [this]; trivial
  · unfold ExternsFree
    decide +kernel

/-! ## `NamesInjective` is needed -/

/-- `input __page { first: Int }`, `query Q($p: __page = {first: 3}) { x }` -/
def wnSchema : Schema :=
  { rxSchema with inputs := [{ name := "__page", isOneOf := false, fields := [("first", { id := .scalar 2, quals := [] })] }] }

def wnVar : RVariable :=
  { opIdx := 0, name := "p", default := some (.obj [("first", .int 3)]), ty := { id := .input 0, quals := [] } }

def wnQuery : Query :=
  { operations := [{ name := "Q", kind := .query, objectId := 0, sels := [.field none 0 []] }], variables := [wnVar] }

def wnC₁ : Ctx :=
  { s := wnSchema, q := wnQuery, o := { normalization := .rust },
    cs := { snake := id, camel := tblCamel (("__page", "Page") :: rxTbl) } }
def wnItems₀ : List Item := itemsOf (noNorm wnC₁)
def wnItems₁ : List Item := itemsOf wnC₁

set_option maxRecDepth 100000 in
/-- both modules are generated, `IdStable`, `EnumIdentsInjective`, `FieldsWF` hold, the default is valid; the `none`
    body `Some(__page { first: Some(3) })` type-checks and is written as the default; the name `__page` corresponds to
    both `Page` (the definition) and `__page` (the references): `NamesInjective` fails, and the `rust` body
    `Some(Page { first: Some(3) })` does **not** type-check at the variable's type `Option<__page>` -/
theorem wx_names :
    IdStable (noNorm wnC₁) wnC₁ ∧
    responseForQuery (noNorm wnC₁) 0 = .ok wnItems₀ ∧ responseForQuery wnC₁ 0 = .ok wnItems₁ ∧
    EnumIdentsInjective (noNorm wnC₁) wnC₁ ∧ FieldsWF (moduleEnv (noNorm wnC₁) wnItems₀) ∧
    ¬ NamesInjective (moduleEnv (noNorm wnC₁) wnItems₀) (moduleEnvN wnC₁ wnItems₁) ∧
    defaultOkB Leaves.graphql wnSchema wnVar = true ∧
    runDefault (noNorm wnC₁) (moduleEnv (noNorm wnC₁) wnItems₀) wnVar (.obj [("first", .int 3)]) = true ∧
    isOkLit (.some (.struct "Page" [("first", .some (.int 3))])) (valueToLiteral wnC₁ 64 (.obj [("first", .int 3)]) (.input 0) [])
      = true ∧
    (match variableType wnC₁ wnVar with | .ok t => t == .opt (.path "__page") | .error _ => false) = true ∧
    typechecksAt (moduleEnvN wnC₁ wnItems₁) (valueToLiteral wnC₁ 64 (.obj [("first", .int 3)]) (.input 0) [])
      (variableType wnC₁ wnVar) = false :=
  ⟨by decide +kernel, itemsOf_ok (by decide +kernel), itemsOf_ok (by decide +kernel), by decide +kernel,
   by decide +kernel, by decide +kernel, by decide +kernel, by decide +kernel, by decide +kernel, by decide +kernel,
   by decide +kernel⟩

set_option maxRecDepth 100000 in
/-- … and the remaining hypotheses of the theorems hold in `wx_names` -/
theorem wn_hyps :
    (∀ i ∈ wnC₁.s.inputs, keywordReplace i.name = i.name) ∧
    (∀ n ∈ wnC₁.s.scalars, keywordReplace n = n) ∧
    (∀ e ∈ wnC₁.s.enums, keywordReplace e.name = e.name) ∧
    C02.OutputOnly wnC₁.s wnC₁.q = true ∧ C02.InputFieldsRelevant wnC₁.s = true ∧
    (∀ v ∈ wnC₁.q.opVariables 0, C02.Relevant v.ty.id) ∧
    (Scope.defines wnItems₀).Nodup ∧ (∀ it ∈ wnItems₀, (C02.memberIdents it).Nodup) ∧
    (∀ it ∈ wnItems₀, C01.notPrim it.name) ∧ ExternsFree (noNorm wnC₁) wnItems₀ ∧ wnC₁.o.externEnums = [] := by
  refine ⟨C02.hkw_of_not_keyword _ (by decide +kernel : ∀ i ∈ wnSchema.inputs, i.name ∉ Gen.keywordTable), ?_, ?_,
    (by decide : C02.OutputOnly wnSchema wnQuery = true), (by decide : C02.InputFieldsRelevant wnSchema = true),
    ?_, ?_, ?_, ?_, ?_, rfl⟩
  · intro n hn
    rw [C11.keywordReplace_spec, if_neg]
    exact (by decide +kernel : ∀ n ∈ wnSchema.scalars, n ∉ Gen.keywordTable) n hn
  · intro e he
    rw [C11.keywordReplace_spec, if_neg]
    exact (by decide +kernel : ∀ e ∈ wnSchema.enums, e.name ∉ Gen.keywordTable) e he
  · intro v hv
    have : v.ty.id = .input 0 := by
      simp only [wnC₁, wnQuery, Query.opVariables, List.filter_cons, List.filter_nil] at hv
      simp at hv
      rw [hv.2]; rfl
    rw [this]; trivial
  · decide +kernel
  · decide +kernel
  · decide +kernel
  · unfold ExternsFree
    decide +kernel

/-! ## why `valueToLiteral_rename` asks for `enumOk` -/

/-- `enum kind { type_ }` -/
def nkSchema : Schema := { rxSchema with enums := [{ name := "kind", variants := ["type_"] }] }

def nkVar : RVariable := { opIdx := 0, name := "k", default := some (.enum "type"), ty := { id := .enum 0, quals := [] } }

def nkQuery : Query :=
  { operations := [{ name := "Q", kind := .query, objectId := 0, sels := [.field none 0 []] }], variables := [nkVar] }

def nkC₁ : Ctx :=
  { s := nkSchema, q := nkQuery, o := { normalization := .rust },
    cs := { snake := id, camel := tblCamel [("kind", "Kind"), ("type_", "Type")] } }
def nkItems₀ : List Item := itemsOf (noNorm nkC₁)
def nkItems₁ : List Item := itemsOf nkC₁

set_option maxRecDepth 100000 in
/-- the default `type` is **not** a value of `enum kind { type_ }` (`validCB` rejects, `enumOk` fails); under `none` it
    is rendered `Some(kind::type_)` — `keyword_replace("type")` — which is the variant of the value `type_`: it
    type-checks and is written as `"type_"` (an invalid default the generator accepts silently); under `rust` it is
    rendered `Some(Kind::type_)`, which names no variant of `Kind { Type }`: the two identifiers of a literal that is not
    a value of the enum are unrelated to the positions of the enum's variants -/
theorem nx_keyword_variant :
    responseForQuery (noNorm nkC₁) 0 = .ok nkItems₀ ∧ responseForQuery nkC₁ 0 = .ok nkItems₁ ∧
    EnumIdentsInjective (noNorm nkC₁) nkC₁ ∧
    NamesInjective (moduleEnv (noNorm nkC₁) nkItems₀) (moduleEnvN nkC₁ nkItems₁) ∧
    defaultOkB Leaves.graphql nkSchema nkVar = false ∧ enumOk nkSchema (.enum 0) (.enum "type") = false ∧
    isOkLit (.some (.path "kind" "type_")) (valueToLiteral (noNorm nkC₁) 64 (.enum "type") (.enum 0) []) = true ∧
    runDefault (noNorm nkC₁) (moduleEnv (noNorm nkC₁) nkItems₀) nkVar (.str "type_") = true ∧
    isOkLit (.some (.path "Kind" "type_")) (valueToLiteral nkC₁ 64 (.enum "type") (.enum 0) []) = true ∧
    typechecksAt (moduleEnvN nkC₁ nkItems₁) (valueToLiteral nkC₁ 64 (.enum "type") (.enum 0) []) (variableType nkC₁ nkVar)
      = false :=
  ⟨itemsOf_ok (by decide +kernel), itemsOf_ok (by decide +kernel), by decide +kernel, by decide +kernel,
   by decide +kernel, by decide +kernel, by decide +kernel, by decide +kernel, by decide +kernel, by decide +kernel⟩

end C04DR
end GqlVerif
