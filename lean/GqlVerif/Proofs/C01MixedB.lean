import GqlVerif.Proofs.C01MixedA
/-!
# C01 / C03 end to end (`MixedOp`), part B: what the emitted types accept, exactly

* `conformsLooseM s q o b sels j` — the exact acceptance predicate of the type emitted for an object-level selection set of
  the class: as `conformsLooseF` (own fields `looseOwnM`, one flattened member per spread `looseMemF`, a lone spread is the
  fragment struct itself); a field of scalar / enum / interface / union type accepts what `looseFieldS` says
  (`VariantSpreadOp`: spreads at the abstract position, parts (a), (b), (c));
* `envSelM` — what the theorems need of the environment (`envSelF` at object positions, `envSelS` at the others);
* `keysOkM` — decidable side condition: **keys disjoint between a fragment and its siblings** in every object-level
  selection set (as `keysOkF`; the conditions at abstract positions are part of the class, `absOkS`);
* `bodyM_accepts_iff` — acceptance is exactly `conformsLooseM` (`accSelM` / `accSelsM` by mutual induction; object
  positions by `accStructM` — `deStructMap_flat` —, all others by `accSelS` of `C01VariantSpreadB`);
* specification: `conformsV` on `expandSels c.q sels` (the one of both classes); `conformsM_loose`: conforming ⇒ accepted.
-/
set_option linter.unusedSimpArgs false
set_option linter.unusedVariables false
set_option linter.unusedSectionVars false
set_option linter.unnecessarySimpa false

namespace GqlVerif
namespace C01M
open Serde Spec C13 C03 Codegen C01 C01.E2E

/-! ## the exact acceptance predicate -/

mutual
  def looseFieldM (s : Schema) (q : Query) (o : Options) (b : Bool) : Sel → Json → Bool
    | .field a fid sub, v =>
      match s.fields[fid]? with
      | none => false
      | some sf =>
        match sf.ty.id with
        | .object i => (match s.objects[i]? with
          | some _ => accepts (fun j =>
              match sub with
              | [.spread g] => conformsLooseV s o b (fragSels q g) j      -- type alias of the fragment struct
              | _ => match j with
                | .obj kvs' => looseOwnM s q o b sub kvs' && looseMemF s q o sub kvs'
                | .arr xs => !sub.any isSpread && looseArrM s q o b sub xs
                | _ => false) (gtyOf sf.ty.quals) v
          | none => false)
        | _ => looseFieldS s q o b (.field a fid sub) v
    | _, _ => true
  /-- the own fields of the struct (spreads contribute no own field) -/
  def looseOwnM (s : Schema) (q : Query) (o : Options) (b : Bool) : List Sel → List (String × Json) → Bool
    | [], _ => true
    | .field a fid sub :: xs, kvs =>
      (match s.fields[fid]? with
       | none => false
       | some sf =>
         decide (countKey (a.getD sf.name) kvs ≤ 1) &&
         (match Json.lookup (a.getD sf.name) kvs with
          | none => nullableQ sf.ty.quals
          | some v => looseFieldM s q o b (.field a fid sub) v)) && looseOwnM s q o b xs kvs
    | _ :: xs, kvs => looseOwnM s q o b xs kvs
  def looseArrM (s : Schema) (q : Query) (o : Options) (b : Bool) : List Sel → List Json → Bool
    | [], _ => true
    | .field a fid sub :: xs, vs =>
      (match vs with
       | [] => false
       | v :: vs' => looseFieldM s q o b (.field a fid sub) v && looseArrM s q o b xs vs')
    | _ :: xs, vs => looseArrM s q o b xs vs
end

/-- what the type emitted for an object-level selection set of `MixedOp` accepts -/
def conformsLooseM (s : Schema) (q : Query) (o : Options) (b : Bool) (sels : List Sel) (j : Json) : Bool :=
  match sels with
  | [.spread g] => conformsLooseV s o b (fragSels q g) j
  | _ => match j with
    | .obj kvs' => looseOwnM s q o b sels kvs' && looseMemF s q o sels kvs'
    | .arr xs => !sels.any isSpread && looseArrM s q o b sels xs
    | _ => false

theorem looseLambdaM (s : Schema) (q : Query) (o : Options) (b : Bool) (sub : List Sel) :
    (fun j =>
      match sub with
      | [.spread g] => conformsLooseV s o b (fragSels q g) j
      | _ => match j with
        | .obj kvs' => looseOwnM s q o b sub kvs' && looseMemF s q o sub kvs'
        | .arr xs => !sub.any isSpread && looseArrM s q o b sub xs
        | _ => false) = conformsLooseM s q o b sub := by
  funext j; unfold conformsLooseM; rfl

/-! ## environment -/

mutual
  def envSelM (e : Env) (c : Ctx) (pfx : String) : Sel → Prop
    | .field a fid sub =>
      match c.s.fields[fid]? with
      | none => True
      | some sf =>
        match sf.ty.id with
        | .object _ =>
          (match sub with
           | [.spread g] => AliasEnv e (pfx ++ c.cs.camel (a.getD sf.name)) (fragName c g) ∧ FragEnv e c g
           | _ => StructEnv e (pfx ++ c.cs.camel (a.getD sf.name)) (fieldsOfF c (pfx ++ c.cs.camel (a.getD sf.name)) sub) ∧
                  envSelsM e c (pfx ++ c.cs.camel (a.getD sf.name)) sub)
        | _ => envSelS e c pfx (.field a fid sub)
    | .spread g => FragEnv e c g
    | _ => True
  def envSelsM (e : Env) (c : Ctx) (pfx : String) : List Sel → Prop
    | [] => True
    | x :: xs => envSelM e c pfx x ∧ envSelsM e c pfx xs
end

mutual
  /-- **keys disjoint between a fragment and its siblings** (and between fragments), in every object-level selection set -/
  def keysOkM (s : Schema) (q : Query) : Sel → Bool
    | .field _ fid sub =>
      (match (s.fields[fid]?).map (fun sf => sf.ty.id) with
       | some (TypeId.object _) => EnumSpec.nodup (expKeys s q sub) && keysOksM s q sub
       | _ => true)
    | _ => true
  def keysOksM (s : Schema) (q : Query) : List Sel → Bool
    | [] => true
    | x :: xs => keysOkM s q x && keysOksM s q xs
end

/-! ## facts about the emitted fields -/

/-- every `.field` of the class yields a field; same data as for the two classes -/
theorem fieldOfSelV_m (c : Ctx) (pfx : String) (p : TypeId) (a : Option String) (fid : Nat) (sub : List Sel)
    (ht : mSel c.s c.q c.o p (.field a fid sub) = true) :
    ∃ sf ft, c.s.fields[fid]? = some sf ∧ leafNameV c pfx (a.getD sf.name) sf.ty.id = some ft ∧
      fieldOfSelV c pfx (.field a fid sub) = some (fieldOf c (a.getD sf.name) ft sf.ty.quals sf.deprecation) ∧
      wfQuals sf.ty.quals = true := by
  obtain ⟨sf, hsf⟩ := mSel_field_some ht
  by_cases hobj : ∃ i, sf.ty.id = .object i
  · obtain ⟨i, hid⟩ := hobj
    obtain ⟨hw, _, _, _⟩ := mSel_obj hsf hid ht
    exact ⟨sf, pfx ++ c.cs.camel (a.getD sf.name), hsf, by simp [leafNameV, hid], by simp [fieldOfSelV, hsf, leafNameV, hid], hw⟩
  · have hno : ∀ i, sf.ty.id ≠ .object i := fun i h => hobj ⟨i, h⟩
    exact fieldOfSelV_s c pfx false a fid sub (mSel_nonobj hsf hno ht)

/-- the own (non-flattened) fields of the struct are `fieldsOfV` of the selection set -/
theorem own_fieldsOfM (c : Ctx) (pfx : String) (p : TypeId) : ∀ (sels : List Sel), mSels c.s c.q c.o p sels = true →
    (fieldsOfF c pfx sels).filter (fun f => !f.flatten) = fieldsOfV c pfx sels
  | [], _ => rfl
  | x :: xs, ht => by
    obtain ⟨hx, hxs⟩ := mSels_cons ht
    have ih := own_fieldsOfM c pfx p xs hxs
    rw [fieldsOfF_cons, List.filter_append, ih]
    cases x with
    | field a fid sub =>
      obtain ⟨sf, ft, _, _, hf, _⟩ := fieldOfSelV_m c pfx p a fid sub hx
      rw [fieldOfSelF_field, hf, fieldsOfV_cons_field c pfx _ xs _ hf]
      simp [fieldOf]
    | spread g =>
      have hok : fragOk c.s c.q c.o p g = true := by simpa [mSel] using hx
      obtain ⟨fr, hfr, _⟩ := fragOk_parts hok
      rw [fieldsOfV_cons_none c pfx _ xs rfl]
      simp [fieldOfSelF, hfr, spreadField]
    | inline t sub => simp [mSel] at hx
    | typename => rw [fieldsOfV_cons_none c pfx _ xs rfl]; simp [fieldOfSelF, fieldOfSelV]

theorem any_flatten_fieldsOfM (c : Ctx) (pfx : String) (p : TypeId) : ∀ (sels : List Sel), mSels c.s c.q c.o p sels = true →
    (fieldsOfF c pfx sels).any (·.flatten) = sels.any isSpread
  | [], _ => rfl
  | x :: xs, ht => by
    obtain ⟨hx, hxs⟩ := mSels_cons ht
    have ih := any_flatten_fieldsOfM c pfx p xs hxs
    rw [fieldsOfF_cons, List.any_append, ih, List.any_cons]
    cases x with
    | field a fid sub =>
      obtain ⟨sf, ft, _, _, hf, _⟩ := fieldOfSelV_m c pfx p a fid sub hx
      rw [fieldOfSelF_field, hf]; simp [fieldOf, isSpread]
    | spread g =>
      have hok : fragOk c.s c.q c.o p g = true := by simpa [mSel] using hx
      obtain ⟨fr, hfr, _⟩ := fragOk_parts hok
      simp [fieldOfSelF, hfr, spreadField, isSpread]
    | inline t sub => simp [mSel] at hx
    | typename => simp [fieldOfSelF, fieldOfSelV, isSpread]

theorem envSelsM_mem {e : Env} {c : Ctx} {pfx : String} : ∀ {sels : List Sel}, envSelsM e c pfx sels →
    ∀ x ∈ sels, envSelM e c pfx x
  | [], _, _, hx => by simp at hx
  | y :: ys, h, x, hx => by
    rw [envSelsM] at h
    rcases List.mem_cons.mp hx with rfl | hx'
    · exact h.1
    · exact envSelsM_mem h.2 x hx'

theorem envSelM_spread {e : Env} {c : Ctx} {pfx : String} {g : Nat} : envSelM e c pfx (.spread g) = FragEnv e c g := by
  rw [envSelM]

/-- from "the keys of the expanded selection set are pairwise distinct" to the hypotheses of `deStructMap_flat` -/
theorem flat_hypsM (e : Env) (c : Ctx) (pfx : String) (p : TypeId) : ∀ (sels : List Sel),
    mSels c.s c.q c.o p sels = true → envSelsM e c pfx sels → (expKeys c.s c.q sels).Nodup →
    (∀ g ∈ fieldsOfF c pfx sels, g.flatten = true → MemberOk e g ∧ ∀ k ∈ memberKeys e g, k ∈ expKeys c.s c.q sels) ∧
    (∀ f ∈ fieldsOfF c pfx sels, f.flatten = false → f.wire ∈ expKeys c.s c.q sels) ∧
    (∀ g ∈ fieldsOfF c pfx sels, g.flatten = true → ∀ k ∈ memberKeys e g,
      k ∉ ((fieldsOfF c pfx sels).filter (fun f => !f.flatten)).map (·.wire)) ∧
    (fieldsOfF c pfx sels).Pairwise (fun g g' => g.flatten = true → g'.flatten = true →
      ∀ k ∈ memberKeys e g', k ∉ memberKeys e g)
  | [], _, _, _ => by simp [fieldsOfF]
  | x :: xs, ht, henv, hnd => by
    obtain ⟨hx, hxs⟩ := mSels_cons ht
    rw [envSelsM] at henv
    cases x with
    | field a fid sub =>
      obtain ⟨sf, ft, hsf, _, hf, _⟩ := fieldOfSelV_m c pfx p a fid sub hx
      have hexp : expKeys c.s c.q (.field a fid sub :: xs) = a.getD sf.name :: expKeys c.s c.q xs := by
        simp [expKeys, hsf]
      rw [hexp, List.nodup_cons] at hnd
      obtain ⟨ih1, ih2, ih3, ih4⟩ := flat_hypsM e c pfx p xs hxs henv.2 hnd.2
      have hfs : fieldsOfF c pfx (.field a fid sub :: xs) =
          fieldOf c (a.getD sf.name) ft sf.ty.quals sf.deprecation :: fieldsOfF c pfx xs := by
        rw [fieldsOfF_cons, fieldOfSelF_field, hf]; rfl
      have hnf : (fieldOf c (a.getD sf.name) ft sf.ty.quals sf.deprecation).flatten = false := rfl
      rw [hfs, hexp]
      refine ⟨?_, ?_, ?_, ?_⟩
      · intro g hg hfl
        rcases List.mem_cons.mp hg with rfl | hg'
        · rw [hnf] at hfl; cases hfl
        · exact ⟨(ih1 g hg' hfl).1, fun k hk => List.mem_cons_of_mem _ ((ih1 g hg' hfl).2 k hk)⟩
      · intro f hf' hfl
        rcases List.mem_cons.mp hf' with rfl | hf''
        · rw [fieldOf_wire]; simp
        · exact List.mem_cons_of_mem _ (ih2 f hf'' hfl)
      · intro g hg hfl k hk
        rcases List.mem_cons.mp hg with rfl | hg'
        · rw [hnf] at hfl; cases hfl
        · simp only [List.filter_cons, hnf, Bool.not_false, ↓reduceIte, List.map_cons, List.mem_cons, not_or, fieldOf_wire]
          refine ⟨?_, ih3 g hg' hfl k hk⟩
          intro heq
          exact hnd.1 (heq ▸ (ih1 g hg' hfl).2 k hk)
      · rw [List.pairwise_cons]
        exact ⟨fun g' _ hfl => (by rw [hnf] at hfl; cases hfl), ih4⟩
    | spread g =>
      have hok : fragOk c.s c.q c.o p g = true := by simpa [mSel] using hx
      obtain ⟨fr, hfr, _, _, hv, _⟩ := fragOk_parts hok
      have hexp : expKeys c.s c.q (.spread g :: xs) = fieldKeys c.s fr.sels ++ expKeys c.s c.q xs := by
        simp [expKeys, fragSels, hfr]
      rw [hexp, List.nodup_append] at hnd
      obtain ⟨hnd1, hnd2, hdisj⟩ := hnd
      obtain ⟨ih1, ih2, ih3, ih4⟩ := flat_hypsM e c pfx p xs hxs henv.2 hnd2
      have hfs : fieldsOfF c pfx (.spread g :: xs) = spreadField c fr :: fieldsOfF c pfx xs := by
        rw [fieldsOfF_cons]; simp [fieldOfSelF, hfr]
      have hfl' : (spreadField c fr).flatten = true := rfl
      obtain ⟨hmf, hmok⟩ := memberFields_spread e c g fr hfr (envSelM_spread ▸ henv.1)
      have hmk : memberKeys e (spreadField c fr) = fieldKeys c.s fr.sels := by
        unfold memberKeys; rw [hmf, wire_fieldsOfV c _ false fr.sels hv]
      rw [hfs, hexp]
      refine ⟨?_, ?_, ?_, ?_⟩
      · intro g' hg hfl
        rcases List.mem_cons.mp hg with rfl | hg'
        · exact ⟨hmok, fun k hk => List.mem_append_left _ (hmk ▸ hk)⟩
        · exact ⟨(ih1 g' hg' hfl).1, fun k hk => List.mem_append_right _ ((ih1 g' hg' hfl).2 k hk)⟩
      · intro f hf' hfl
        rcases List.mem_cons.mp hf' with rfl | hf''
        · rw [hfl'] at hfl; cases hfl
        · exact List.mem_append_right _ (ih2 f hf'' hfl)
      · intro g' hg hfl k hk
        simp only [List.filter_cons, hfl', Bool.not_true, Bool.false_eq_true, ↓reduceIte]
        rcases List.mem_cons.mp hg with rfl | hg'
        · rw [hmk] at hk
          intro hmem
          obtain ⟨f, hf', hfw⟩ := List.mem_map.mp hmem
          have hf'' := List.mem_filter.mp hf'
          have := ih2 f hf''.1 (by simpa using hf''.2)
          exact hdisj k hk k (hfw ▸ this) rfl
        · exact ih3 g' hg' hfl k hk
      · rw [List.pairwise_cons]
        refine ⟨?_, ih4⟩
        intro g' hg' _ hfl k hk
        rw [hmk]
        intro hmem
        exact hdisj k hmem k ((ih1 g' hg' hfl).2 k hk) rfl
    | inline t sub => simp [mSel] at hx
    | typename =>
      have hexp : expKeys c.s c.q (.typename :: xs) = expKeys c.s c.q xs := by simp [expKeys]
      have hfs : fieldsOfF c pfx (.typename :: xs) = fieldsOfF c pfx xs := by
        rw [fieldsOfF_cons]; simp [fieldOfSelF, fieldOfSelV]
      rw [hexp] at hnd ⊢
      rw [hfs]
      exact flat_hypsM e c pfx p xs hxs henv.2 hnd

/-! ## acceptance, exactly -/

theorem conformsLooseM_not_lone {s : Schema} {q : Query} {o : Options} {b : Bool} {sels : List Sel}
    (h : ∀ g, sels ≠ [Sel.spread g]) (j : Json) :
    conformsLooseM s q o b sels j =
      (match j with
       | .obj kvs' => looseOwnM s q o b sels kvs' && looseMemF s q o sels kvs'
       | .arr xs => !sels.any isSpread && looseArrM s q o b sels xs
       | _ => false) := by
  unfold conformsLooseM
  split
  · rename_i g; exact absurd rfl (h g)
  · rfl

section AccM
variable (e : Env) (c : Ctx)

/-- the flattened members accept exactly `looseMemF` -/
theorem accMemM (pfx : String) (p : TypeId) : ∀ (sels : List Sel), mSels c.s c.q c.o p sels = true →
    envSelsM e c pfx sels → ∀ fuel, 2 * depthsF c.q sels ≤ fuel → ∀ kvs,
    ((fieldsOfF c pfx sels).filter (·.flatten)).all
        (fun g => okB (deOwnWith (dePath e true fuel) (memberFields e g) kvs)) = looseMemF c.s c.q c.o sels kvs
  | [], _, _, _, _, _ => rfl
  | x :: xs, ht, henv, fuel, hfuel, kvs => by
    obtain ⟨hx, hxs⟩ := mSels_cons ht
    rw [envSelsM] at henv
    rw [depthsF] at hfuel
    have ih := accMemM pfx p xs hxs henv.2 fuel (by omega) kvs
    rw [fieldsOfF_cons, List.filter_append, List.all_append, ih]
    cases x with
    | field a fid sub =>
      obtain ⟨sf, ft, _, _, hf, _⟩ := fieldOfSelV_m c pfx p a fid sub hx
      rw [fieldOfSelF_field, hf]; simp [fieldOf, looseMemF]
    | spread g =>
      have hok : fragOk c.s c.q c.o p g = true := by simpa [mSel] using hx
      obtain ⟨fr, hfr, _, _, hv, _⟩ := fragOk_parts hok
      have hfe : FragEnv e c g := envSelM_spread ▸ henv.1
      obtain ⟨hmf, _⟩ := memberFields_spread e c g fr hfr hfe
      have henvV : envSelsV e c (c.cs.camel fr.name) fr.sels := by
        have := hfe; unfold FragEnv at this; rw [hfr] at this; exact this.2
      rw [depthF] at hfuel
      have hsels : fragSels c.q g = fr.sels := by simp [fragSels, hfr]
      rw [hsels] at hfuel
      have hacc := (accSelsV e c fr.sels (c.cs.camel fr.name) false hv henvV true fuel (by omega)).1 kvs
      rw [looseMemF.eq_2, hsels, ← hacc]
      have hflt : (fieldOfSelF c pfx (.spread g)).toList.filter (·.flatten) = [spreadField c fr] := by
        simp [fieldOfSelF, hfr, spreadField]
      rw [hflt]
      simp only [List.all_cons, List.all_nil, Bool.and_true, hmf, okB_deOwn' _ _ _ (plain_fieldsOfV c _ fr.sels)]
    | inline t sub => simp [mSel] at hx
    | typename => simp [fieldOfSelF, fieldOfSelV, looseMemF]

def AccSelM (pfx : String) (x : Sel) : Prop :=
  ∀ p, mSel c.s c.q c.o p x = true → envSelM e c pfx x → keysOkM c.s c.q x = true → ∀ f, fieldOfSelV c pfx x = some f →
    ∀ b fd, 2 * depthF c.q x + 1 ≤ fd → ∀ v, okB (deFieldWith (dePath e b fd) f v) = looseFieldM c.s c.q c.o b x v

def AccSelsM (pfx : String) (sels : List Sel) : Prop :=
  ∀ p, mSels c.s c.q c.o p sels = true → envSelsM e c pfx sels → keysOksM c.s c.q sels = true →
    ∀ b fd, 2 * depthsF c.q sels + 1 ≤ fd →
    (∀ kvs, (fieldsOfV c pfx sels).all (fun f => decide (countKey f.wire kvs ≤ 1) &&
        okB (readField (dePath e b fd) f kvs)) = looseOwnM c.s c.q c.o b sels kvs) ∧
    (∀ xs, (decide ((fieldsOfV c pfx sels).length ≤ xs.length) &&
        ((fieldsOfV c pfx sels).zip xs).all (fun p => okB (deFieldWith (dePath e b fd) p.1 p.2))) =
          looseArrM c.s c.q c.o b sels xs)

/-- the struct of an object-level selection set (not a lone spread) accepts exactly `conformsLooseM` -/
theorem accStructM (pfx name : String) (p : TypeId) (sels : List Sel) (H : AccSelsM e c pfx sels)
    (hnl : ∀ g, sels ≠ [Sel.spread g])
    (ht : mSels c.s c.q c.o p sels = true) (henv : envSelsM e c pfx sels) (hko : keysOksM c.s c.q sels = true)
    (hkeys : EnumSpec.nodup (expKeys c.s c.q sels) = true)
    (hs : StructEnv e name (fieldsOfF c pfx sels)) (b : Bool) (fd : Nat) (hfd : 2 * depthsF c.q sels + 2 ≤ fd) (j : Json) :
    okB (dePath e b fd name j) = conformsLooseM c.s c.q c.o b sels j := by
  obtain ⟨hp, _, n, d, cr, hfind⟩ := hs
  rw [conformsLooseM_not_lone hnl]
  have hown := own_fieldsOfM c pfx p sels ht
  have hany := any_flatten_fieldsOfM c pfx p sels ht
  have hpl := plain_fieldsOfV c pfx sels
  cases hsp : sels.any isSpread
  · -- no spread: a plain struct
    obtain ⟨fd', rfl⟩ : ∃ k, fd = k + 1 := ⟨fd - 1, by omega⟩
    obtain ⟨H1, H2⟩ := H p ht henv hko b fd' (by omega)
    have hplain : fieldsOfF c pfx sels = fieldsOfV c pfx sels := by
      rw [← hown]
      symm
      rw [List.filter_eq_self]
      intro f hf
      rw [hsp] at hany
      have := List.any_eq_false.mp hany f hf
      simpa using this
    rw [dePath_struct e b fd' name n d cr _ hp hfind, hplain]
    cases j with
    | obj kvs =>
      rw [deStruct_obj, deStructMap_plain _ _ _ _ hpl, okB_map, okB_deOwn' _ _ _ hpl, H1]
      simp [looseMemF_nospread c.s c.q c.o kvs sels hsp]
    | arr xs =>
      simp only [deStructWith, any_flatten_of_plain hpl, Bool.false_eq_true, ↓reduceIte, Bool.not_false, Bool.true_and]
      rw [← H2 xs]
      by_cases hlen : xs.length < (fieldsOfV c pfx sels).length
      · have : ¬ ((fieldsOfV c pfx sels).length ≤ xs.length) := by omega
        simp [hlen, this, okB, bad]
      · have : (fieldsOfV c pfx sels).length ≤ xs.length := by omega
        simp only [hlen, ↓reduceIte, okB_map, okB_mapM, this, decide_true, Bool.true_and]
        congr 1; funext p
        cases deFieldWith (dePath e b fd') p.1 p.2 <;> rfl
    | null => rfl
    | bool _ => rfl
    | int _ => rfl
    | num _ => rfl
    | str _ => rfl
  · -- flattened members
    obtain ⟨fd', rfl⟩ : ∃ k, fd = k + 2 := ⟨fd - 2, by omega⟩
    obtain ⟨H1, _⟩ := H p ht henv hko b (fd' + 1) (by omega)
    rw [hsp] at hany
    obtain ⟨h1, _, h3, h4⟩ := flat_hypsM e c pfx p sels ht henv (nodup_iff'.mp hkeys)
    rw [dePath_struct e b (fd' + 1) name n d cr _ hp hfind]
    cases j with
    | obj kvs =>
      rw [deStruct_obj, deStructMap_flat e fd' _ _ kvs hany (fun g hg hf => (h1 g hg hf).1) h3 h4, okB_bind2, hown,
        okB_deOwn' _ _ _ hpl, H1 kvs, okB_flatVals, accMemM e c pfx p sels ht henv fd' (by omega) kvs]
    | arr xs => simp only [deStructWith, hany, ↓reduceIte]; rfl
    | null => rfl
    | bool _ => rfl
    | int _ => rfl
    | num _ => rfl
    | str _ => rfl

end AccM

/-- what the name of an object-level selection set resolves to: the alias of the fragment struct (lone spread) or
    the struct with the flattened members -/
def BodyEnvM (e : Env) (c : Ctx) (name pfx : String) (sels : List Sel) : Prop :=
  match sels with
  | [.spread g] => AliasEnv e name (fragName c g) ∧ FragEnv e c g
  | _ => StructEnv e name (fieldsOfF c pfx sels) ∧ envSelsM e c pfx sels

theorem bodyEnvM_not_lone {e : Env} {c : Ctx} {name pfx : String} {sels : List Sel} (hnl : ∀ g, sels ≠ [Sel.spread g])
    (h : BodyEnvM e c name pfx sels) : StructEnv e name (fieldsOfF c pfx sels) ∧ envSelsM e c pfx sels := by
  unfold BodyEnvM at h
  revert h
  split
  · exact fun _ => absurd rfl (hnl _)
  · exact id

/-- an object-typed field: the parts of the side conditions -/
theorem keysOkM_obj {s : Schema} {q : Query} {a : Option String} {fid : Nat} {sub : List Sel} {sf : StoredField} {i : Nat}
    (hsf : s.fields[fid]? = some sf) (hid : sf.ty.id = .object i) (h : keysOkM s q (.field a fid sub) = true) :
    EnumSpec.nodup (expKeys s q sub) = true ∧ keysOksM s q sub = true := by
  rw [keysOkM] at h
  simp only [hsf, hid, Option.map_some, Bool.and_eq_true] at h
  exact h

theorem envSelM_obj {e : Env} {c : Ctx} {pfx : String} {a : Option String} {fid : Nat} {sub : List Sel} {sf : StoredField}
    {i : Nat} (hsf : c.s.fields[fid]? = some sf) (hid : sf.ty.id = .object i) (h : envSelM e c pfx (.field a fid sub)) :
    BodyEnvM e c (pfx ++ c.cs.camel (a.getD sf.name)) (pfx ++ c.cs.camel (a.getD sf.name)) sub := by
  rw [envSelM] at h
  simp only [hsf, hid] at h
  exact h

theorem envSelM_nonobj {e : Env} {c : Ctx} {pfx : String} {a : Option String} {fid : Nat} {sub : List Sel}
    {sf : StoredField} (hsf : c.s.fields[fid]? = some sf) (hno : ∀ i, sf.ty.id ≠ .object i)
    (h : envSelM e c pfx (.field a fid sub)) : envSelS e c pfx (.field a fid sub) := by
  rw [envSelM] at h
  simp only [hsf] at h
  cases hid : sf.ty.id with
  | object i => exact absurd hid (hno i)
  | scalar k => simpa only [hid] using h
  | «enum» k => simpa only [hid] using h
  | interface k => simpa only [hid] using h
  | union k => simpa only [hid] using h
  | input k => simpa only [hid] using h

theorem looseFieldM_nonobj {s : Schema} {q : Query} {o : Options} {b : Bool} {a : Option String} {fid : Nat}
    {sub : List Sel} {sf : StoredField} (hsf : s.fields[fid]? = some sf) (hno : ∀ i, sf.ty.id ≠ .object i) (v : Json) :
    looseFieldM s q o b (.field a fid sub) v = looseFieldS s q o b (.field a fid sub) v := by
  rw [looseFieldM]
  simp only [hsf]

section AccM2
variable (e : Env) (c : Ctx)

mutual
  theorem accSelM : ∀ (x : Sel) (pfx : String), AccSelM e c pfx x
    | .field a fid sub, pfx => by
      intro p ht henv hko f hf b fd hfd v
      have IH := accSelsM sub
      obtain ⟨sf, ft, hsf, _, hf', hw⟩ := fieldOfSelV_m c pfx p a fid sub ht
      by_cases hobj : ∃ i, sf.ty.id = .object i
      · obtain ⟨i, hid⟩ := hobj
        rw [depthF] at hfd
        have hwf : wf (gtyOf sf.ty.quals) = true := by rw [wf_gtyOf]; exact hw
        obtain ⟨_, _, hobjs, hbody⟩ := mSel_obj hsf hid ht
        have henv := envSelM_obj hsf hid henv
        have hko := keysOkM_obj hsf hid hko
        rw [looseFieldM]
        simp only [hsf, hid]
        cases hk : c.s.objects[i]? with
        | none => simp [hk] at hobjs
        | some ob =>
          simp only []
          simp only [fieldOfSelV, hsf, leafNameV, hid, Option.some.injEq] at hf
          subst hf
          rw [looseLambdaM]
          by_cases hsp : ∃ g, sub = [Sel.spread g]
          · obtain ⟨g, rfl⟩ := hsp
            unfold BodyEnvM at henv
            simp only at henv
            rw [deField_plain _ _ _ _ henv.1.2.1]
            have hdep : depthsF c.q [Sel.spread g] = selsDepth (fragSels c.q g) + 1 := by
              simp [depthsF, depthF]
            rw [hdep] at hfd
            exact (ok_iff_accepts _ _ (conformsLooseM c.s c.q c.o b [Sel.spread g])
              (accAliasF e c _ (.object i) g hbody henv.1 henv.2 b fd (by omega)) _ hwf).2 v
          · have hnl : ∀ g, sub ≠ [Sel.spread g] := fun g hg => hsp ⟨g, hg⟩
            have henv' := bodyEnvM_not_lone hnl henv
            rw [mBody_not_lone hnl] at hbody
            rw [deField_plain _ _ _ _ henv'.1.2.1]
            exact (ok_iff_accepts _ _ (conformsLooseM c.s c.q c.o b sub)
              (accStructM e c _ _ (.object i) sub (IH _) hnl hbody henv'.2 hko.2 hko.1 henv'.1 b fd (by omega)) _ hwf).2 v
      · -- scalar / enum / abstract: as in `VariantSpreadOp`
        have hno : ∀ i, sf.ty.id ≠ .object i := fun i h => hobj ⟨i, h⟩
        rw [looseFieldM_nonobj hsf hno]
        exact accSelS e c _ pfx false (mSel_nonobj hsf hno ht) (envSelM_nonobj hsf hno henv) f hf b fd hfd v
    | .spread g, pfx => by intro _ _ _ _ f hf; cases hf
    | .inline t sub, pfx => by intro _ _ _ _ f hf; cases hf
    | .typename, pfx => by intro _ _ _ _ f hf; cases hf
  theorem accSelsM : ∀ (sels : List Sel) (pfx : String), AccSelsM e c pfx sels
    | [], pfx => by
      intro _ _ _ _ b fd _
      exact ⟨fun kvs => by simp [fieldsOfV, looseOwnM], fun xs => by simp [fieldsOfV, looseArrM]⟩
    | x :: xs, pfx => by
      intro p ht henv hko b fd hfd
      obtain ⟨hx, hxs⟩ := mSels_cons ht
      rw [envSelsM] at henv
      rw [keysOksM, Bool.and_eq_true] at hko
      rw [depthsF] at hfd
      obtain ⟨I1, I2⟩ := accSelsM xs pfx p hxs henv.2 hko.2 b fd (by omega)
      have IX := accSelM x pfx p hx henv.1 hko.1
      cases x with
      | field a fid sub =>
        obtain ⟨sf, ft, hsf, _, hf, hw⟩ := fieldOfSelV_m c pfx p a fid sub hx
        have IXf := IX _ hf b fd (by omega)
        have hfs := fieldsOfV_cons_field c pfx _ xs _ hf
        refine ⟨fun kvs => ?_, fun vs => ?_⟩
        · rw [hfs, List.all_cons, I1 kvs, looseOwnM.eq_2]
          simp only [hsf, fieldOf_wire, readField]
          cases hl : Json.lookup (a.getD sf.name) kvs with
          | none => simp only [missing_fieldOf]
          | some v => simp only [IXf v]
        · rw [hfs]
          cases vs with
          | nil => rw [looseArrM.eq_2]; simp
          | cons v vs' =>
            rw [looseArrM.eq_3]
            simp only [List.length_cons, List.zip_cons_cons, List.all_cons, IXf v, ← I2 vs',
              Nat.add_le_add_iff_right]
            cases looseFieldM c.s c.q c.o b (.field a fid sub) v <;> simp
      | spread g =>
        have hfs := fieldsOfV_cons_none c pfx (.spread g) xs rfl
        refine ⟨fun kvs => ?_, fun vs => ?_⟩
        · rw [hfs, I1 kvs]; simp [looseOwnM]
        · rw [hfs, I2 vs]; simp [looseArrM]
      | inline t sub => simp [mSel] at hx
      | typename =>
        have hfs := fieldsOfV_cons_none c pfx .typename xs rfl
        refine ⟨fun kvs => ?_, fun vs => ?_⟩
        · rw [hfs, I1 kvs]; simp [looseOwnM]
        · rw [hfs, I2 vs]; simp [looseArrM]
end

end AccM2

/-- **the type emitted for an object-level selection set of `MixedOp` accepts exactly `conformsLooseM`** -/
theorem bodyM_accepts_iff (e : Env) (c : Ctx) (pfx name : String) (p : TypeId) (sels : List Sel)
    (ht : mBody c.s c.q c.o p sels = true) (henv : BodyEnvM e c name pfx sels)
    (hko : keysOksM c.s c.q sels = true) (hkeys : EnumSpec.nodup (expKeys c.s c.q sels) = true)
    (b : Bool) (fd : Nat) (hfd : 2 * depthsF c.q sels + 2 ≤ fd) (j : Json) :
    okB (dePath e b fd name j) = conformsLooseM c.s c.q c.o b sels j := by
  by_cases hsp : ∃ g, sels = [Sel.spread g]
  · obtain ⟨g, rfl⟩ := hsp
    unfold BodyEnvM at henv
    simp only at henv
    have hdep : depthsF c.q [Sel.spread g] = selsDepth (fragSels c.q g) + 1 := by simp [depthsF, depthF]
    rw [hdep] at hfd
    exact accAliasF e c _ p g ht henv.1 henv.2 b fd (by omega) j
  · have hnl : ∀ g, sels ≠ [Sel.spread g] := fun g hg => hsp ⟨g, hg⟩
    have henv' := bodyEnvM_not_lone hnl henv
    rw [mBody_not_lone hnl] at ht
    exact accStructM e c pfx name p sels (accSelsM e c sels pfx) hnl ht henv'.2 hko hkeys henv'.1 b fd hfd j


/-! ## the specification side: a spread is an inline fragment with the fragment's type condition -/

section SLM
variable (s : Schema) (q : Query) (o : Options)

def SLBodyM (sels : List Sel) : Prop :=
  ∀ b i j, mBody s q o (.object i) sels = true → conformsV s i (expandSels q sels) j = true →
    conformsLooseM s q o b sels j = true

theorem slMemM (i : Nat) (kvs : List (String × Json)) (hc : ∀ k, countKey k kvs ≤ 1) : ∀ (sels : List Sel),
    mSels s q o (.object i) sels = true → confSelsV s i (expandSels q sels) kvs = true →
    looseMemF s q o sels kvs = true
  | [], _, _ => by simp [looseMemF]
  | x :: xs, ht, h => by
    obtain ⟨hx, hxs⟩ := mSels_cons ht
    rw [expandSels, confSelsV, Bool.and_eq_true] at h
    have ih := slMemM i kvs hc xs hxs h.2
    cases x with
    | spread g =>
      have hok : fragOk s q o (.object i) g = true := by simpa [mSel] using hx
      obtain ⟨fr, hfr, hon, _, hv, _⟩ := fragOk_parts hok
      have h1 := h.1
      simp only [expandSel, hfr, confSelV, hon, fragApplies, beq_self_eq_true, Bool.not_true, Bool.false_or] at h1
      rw [looseMemF.eq_2, ih, Bool.and_true]
      have : fragSels q g = fr.sels := by simp [fragSels, hfr]
      rw [this]
      exact slSels s o fr.sels false true i kvs hv hc h1
    | field a fid sub => simpa [looseMemF] using ih
    | inline t sub => simpa [looseMemF] using ih
    | typename => simpa [looseMemF] using ih

/-- a conforming response object of the expanded selection set is accepted, given the same for the nested
    object-level selection sets -/
theorem slBodyM_of (sels : List Sel)
    (IHown : ∀ b i kvs, mSels s q o (.object i) sels = true → (∀ k, countKey k kvs ≤ 1) →
      confSelsV s i (expandSels q sels) kvs = true → looseOwnM s q o b sels kvs = true) : SLBodyM s q o sels := by
  intro b i j ht hc
  by_cases hsp : ∃ g, sels = [Sel.spread g]
  · obtain ⟨g, rfl⟩ := hsp
    have hok : fragOk s q o (.object i) g = true := ht
    obtain ⟨fr, hfr, hon, _, hv, _⟩ := fragOk_parts hok
    have hsels : fragSels q g = fr.sels := by simp [fragSels, hfr]
    simp only [conformsLooseM, hsels]
    apply conformsV_loose s o b i fr.sels j hv
    cases j with
    | obj kvs =>
      simp only [expandSels, expandSel, hfr, conformsV, keysSelsV, keysSelV, hon, fragApplies, beq_self_eq_true,
        ↓reduceIte, List.append_nil, confSelsV, confSelV, Bool.not_true, Bool.false_or, Bool.and_true] at hc ⊢
      exact hc
    | null => simp [conformsV] at hc
    | bool _ => simp [conformsV] at hc
    | int _ => simp [conformsV] at hc
    | num _ => simp [conformsV] at hc
    | str _ => simp [conformsV] at hc
    | arr _ => simp [conformsV] at hc
  · have hnl : ∀ g, sels ≠ [Sel.spread g] := fun g hg => hsp ⟨g, hg⟩
    rw [mBody_not_lone hnl] at ht
    rw [conformsLooseM_not_lone hnl]
    cases j with
    | obj kvs =>
      simp only [conformsV, Bool.and_eq_true] at hc
      have hcnt := countKey_le_one_of_nodup (nodup_iff'.mp hc.1.1)
      simp only [IHown b i kvs ht hcnt hc.2, slMemM s q o i kvs hcnt sels ht hc.2, Bool.and_self]
    | null => simp [conformsV] at hc
    | bool _ => simp [conformsV] at hc
    | int _ => simp [conformsV] at hc
    | num _ => simp [conformsV] at hc
    | str _ => simp [conformsV] at hc
    | arr _ => simp [conformsV] at hc

mutual
  theorem slFieldM : ∀ (x : Sel) (p : TypeId) (b : Bool) (v : Json), mSel s q o p x = true →
      strictFieldV s (expandSel q x) v = true → looseFieldM s q o b x v = true
    | .field a fid sub, p, b, v => by
      intro ht h
      have IH := slOwnM sub
      obtain ⟨sf, hsf⟩ := mSel_field_some ht
      by_cases hobj : ∃ i, sf.ty.id = .object i
      · obtain ⟨i, hid⟩ := hobj
        obtain ⟨_, _, hobjs, hbody⟩ := mSel_obj hsf hid ht
        simp only [expandSel, strictFieldV] at h
        rw [looseFieldM]
        simp only [hsf, hid, Bool.and_eq_true] at h ⊢
        cases ho : s.objects[i]? with
        | none => simp [ho] at hobjs
        | some ob =>
          simp only []
          rw [looseLambdaM]
          refine (accepts_mono _ _ ?_ _).2 v h
          intro j hj
          simp only [conformsAt, List.any_eq_true, List.mem_range, Bool.and_eq_true, fragApplies, beq_iff_eq] at hj
          obtain ⟨rt, _, hrt, hc⟩ := hj
          subst hrt
          exact slBodyM_of s q o sub (fun b' i' kvs h1 h2 h3 => IH (.object i') b' i' kvs h1 h2 h3) b i j hbody hc
      · have hno : ∀ i, sf.ty.id ≠ .object i := fun i h => hobj ⟨i, h⟩
        rw [looseFieldM_nonobj hsf hno]
        exact slFieldS s q o _ false b v (mSel_nonobj hsf hno ht) h
    | .spread _, _, _, _ => by intro _ _; simp [looseFieldM]
    | .inline _ _, _, _, _ => by intro ht; simp [mSel] at ht
    | .typename, _, _, _ => by intro _ _; simp [looseFieldM]
  theorem slOwnM : ∀ (sels : List Sel) (p : TypeId) (b : Bool) (i : Nat) (kvs : List (String × Json)),
      mSels s q o p sels = true → (∀ k, countKey k kvs ≤ 1) →
      confSelsV s i (expandSels q sels) kvs = true → looseOwnM s q o b sels kvs = true
    | [], _, _, _, _, _, _, _ => by simp [looseOwnM]
    | x :: xs, p, b, i, kvs, ht, hc, h => by
      obtain ⟨hx, hxs⟩ := mSels_cons ht
      rw [expandSels, confSelsV, Bool.and_eq_true] at h
      have ih := slOwnM xs p b i kvs hxs hc h.2
      cases x with
      | field a fid sub =>
        have hcx := h.1
        rw [expandSel, confSelV_field] at hcx
        rw [looseOwnM.eq_2, ih, Bool.and_true]
        cases hsf : s.fields[fid]? with
        | none => simp [hsf] at hcx
        | some sf =>
          simp only [hsf] at hcx ⊢
          cases hl : Json.lookup (a.getD sf.name) kvs with
          | none => simp [hl] at hcx
          | some v =>
            simp only [hl] at hcx ⊢
            have := slFieldM (.field a fid sub) p b v hx (by rw [expandSel]; exact hcx)
            simp [hc, this]
      | spread g => simpa [looseOwnM] using ih
      | inline t sub => simp [mSel] at hx
      | typename => simpa [looseOwnM] using ih
end

/-- every response conforming to the specification (on the expanded selection set) is accepted -/
theorem conformsM_loose (b : Bool) (i : Nat) (sels : List Sel) (j : Json)
    (ht : mBody s q o (.object i) sels = true) (h : conformsV s i (expandSels q sels) j = true) :
    conformsLooseM s q o b sels j = true :=
  slBodyM_of s q o sels (fun b' i' kvs h1 h2 h3 => slOwnM s q o sels (.object i') b' i' kvs h1 h2 h3) b i j ht h

end SLM

end C01M
end GqlVerif
