import GqlVerif.Proofs.C12Module
import GqlVerif.Model.Sdl
import GqlVerif.Model.Valid
import GqlVerif.Model.Resolve
/-!
# C12, whole module (P44) — necessity of `fixedNamesFree`, and a positive instance

Every witness is a pair (SDL document, query document) accepted by the front-end (`Sdl.fromSdl`), the resolver
(`Resolve.resolve`), the validator (`Valid.validDoc`) and the generator (`generate`), for which **every other
hypothesis** of `C12Mod.module_items_acyclic` holds (`InputsWf`, `MentionsFaithful`, `respNamesOk`), `fixedNamesFree`
is false, and the emitted module has a by-value cycle (an infinite-size Rust type):

* `input_named_Variables_cyclic` — the reviewer's witness (REVIEW_3 finding 5): `input Variables { a: Int }` used as
  `$v: Variables!`; the module has two `struct Variables` (`NoClash` is false) and the second holds `Variables`;
* `extern_enum_Variables_cyclic` — `enum Variables { A }` listed in `extern_enums`, `$v: Variables!`: **`NoClash` holds**
  (nothing is defined twice), `struct Variables { v: Variables }` — `fixedNamesFree` is not implied by `NoClash`;
* `input_field_Variables_cyclic` — `input A { v: Variables }` (same extern enum), `$a: A!`: the cycle
  `Variables → A → Variables` goes through an input item (second conjunct of `fixedNamesFree`);
* `input_named_bool_cyclic` — `input bool { b: Boolean }`, `$v: bool`: `type Boolean = bool; struct bool { b: Option<Boolean> }`
  (first conjunct: an input item named like the target of a leaf alias).

`recursive_input_and_fragment_acyclic`: one operation with a recursive input (`A`, boxed), a wrapper input around
it, a recursive fragment (`Tree`, boxed) — all four hypotheses hold and the whole module is acyclic.
-/
namespace GqlVerif
namespace C12Mod
open Codegen C12Graph C12I
open Relation (TransGen ReflTransGen)

/-- the generation context of a (schema document, query document) pair, as `generate` builds it -/
def ctxOf (sdl : SdlDoc) (doc : QDoc) (o : Options) : Option Ctx :=
  match Sdl.fromSdl sdl with
  | .ok s =>
    match Resolve.resolve s doc with
    | .ok q => some { s := s, q := q, o := o, cs := ⟨id, id⟩ }
    | .error _ => none
  | .error _ => none

/-- all the facts of a necessity witness, as one executable check -/
def witnessCheck (sdl : SdlDoc) (doc : QDoc) (o : Options) (a b : String) (noClash : Bool) : Bool :=
  match ctxOf sdl doc o with
  | some c =>
    Valid.validDoc c.s true doc && decide (InputsWf c.s) && mentionsFaithful c && respNamesOk c 0 &&
    !fixedNamesFree c 0 && (C02.NoClash c 0 == noClash) &&
    (match responseForQuery c 0 with
      | .ok items => hasTwoCycle items a b
      | .error _ => false) &&
    (match generate c.s c.cs o "" doc with
      | .ok ms => !ms.isEmpty && ms.all (fun m => hasTwoCycle m.items a b)
      | .error _ => false)
  | none => false

theorem witness_spec {sdl : SdlDoc} {doc : QDoc} {o : Options} {a b : String} {noClash : Bool}
    (h : witnessCheck sdl doc o a b noClash = true) :
    ∃ c, ctxOf sdl doc o = some c ∧ Valid.validDoc c.s true doc = true ∧
      InputsWf c.s ∧ MentionsFaithful c ∧ respNamesOk c 0 = true ∧ fixedNamesFree c 0 = false ∧
      C02.NoClash c 0 = noClash ∧
      (∃ items, responseForQuery c 0 = .ok items ∧ TransGen (containsByValue items) a a) ∧
      (∃ ms, generate c.s c.cs o "" doc = .ok ms ∧ ms ≠ [] ∧
        ∀ m ∈ ms, TransGen (containsByValue m.items) a a) := by
  unfold witnessCheck at h
  split at h
  · rename_i c hc
    simp only [Bool.and_eq_true, decide_eq_true_eq, Bool.not_eq_true', beq_iff_eq] at h
    obtain ⟨⟨⟨⟨⟨⟨⟨h1, h2⟩, h3⟩, h4⟩, h5⟩, h6⟩, h7⟩, h8⟩ := h
    refine ⟨c, hc, h1, h2, h3, h4, h5, h6, ?_, ?_⟩
    · split at h7
      · rename_i items hi
        exact ⟨items, hi, twoCycle_cycle h7⟩
      · cases h7
    · split at h8
      · rename_i ms hms
        simp only [Bool.and_eq_true, Bool.not_eq_true', List.isEmpty_eq_false_iff, List.all_eq_true] at h8
        exact ⟨ms, hms, h8.1, fun m hm => twoCycle_cycle (h8.2 m hm)⟩
      · cases h8
  · cases h

def queryX : SdlDef := .object "Query" [] [{ name := "x", ty := .named "Int", directives := [] }]

/-- `input Variables { a: Int }  type Query { x: Int }` -/
def varSdl : SdlDoc := [.input "Variables" [] [("a", .named "Int")], queryX]
/-- `query Q($v: Variables!) { x }` -/
def varDoc : QDoc :=
  [.op .query (some "Q") [{ name := "v", ty := .nonNull (.named "Variables"), default := none }] [.field none "x" []]]

/-- **`fixedNamesFree` is needed (the reviewer's witness)**: `input Variables { a: Int }` used as `$v: Variables!`
    satisfies `InputsWf`, `MentionsFaithful` and the response-side naming hypotheses; the emitted module contains
    `struct Variables { a: Option<Int> }` and `struct Variables { v: Variables }` — a by-value self-loop
    (here `NoClash` fails as well: class `schema-type-named-like-a-generated-item`) -/
theorem input_named_Variables_cyclic :
    ∃ c, ctxOf varSdl varDoc {} = some c ∧ Valid.validDoc c.s true varDoc = true ∧
      InputsWf c.s ∧ MentionsFaithful c ∧ respNamesOk c 0 = true ∧ fixedNamesFree c 0 = false ∧
      C02.NoClash c 0 = false ∧
      (∃ items, responseForQuery c 0 = .ok items ∧ TransGen (containsByValue items) "Variables" "Variables") ∧
      (∃ ms, generate c.s c.cs {} "" varDoc = .ok ms ∧ ms ≠ [] ∧
        ∀ m ∈ ms, TransGen (containsByValue m.items) "Variables" "Variables") :=
  witness_spec (b := "Variables") (by decide +kernel)

/-- `enum Variables { A }  type Query { x: Int }` -/
def extSdl : SdlDoc := [.enum "Variables" ["A"], queryX]

/-- **`fixedNamesFree` is not implied by `NoClash`**: with `extern_enums = ["Variables"]` the enum is not emitted, no
    name is defined twice, and `$v: Variables!` gives `struct Variables { v: Variables }` -/
theorem extern_enum_Variables_cyclic :
    ∃ c, ctxOf extSdl varDoc { externEnums := ["Variables"] } = some c ∧ Valid.validDoc c.s true varDoc = true ∧
      InputsWf c.s ∧ MentionsFaithful c ∧ respNamesOk c 0 = true ∧ fixedNamesFree c 0 = false ∧
      C02.NoClash c 0 = true ∧
      (∃ items, responseForQuery c 0 = .ok items ∧ TransGen (containsByValue items) "Variables" "Variables") ∧
      (∃ ms, generate c.s c.cs { externEnums := ["Variables"] } "" varDoc = .ok ms ∧ ms ≠ [] ∧
        ∀ m ∈ ms, TransGen (containsByValue m.items) "Variables" "Variables") :=
  witness_spec (b := "Variables") (by decide +kernel)

/-- `enum Variables { A }  input A { v: Variables }  type Query { x: Int }` -/
def fieldSdl : SdlDoc := [.enum "Variables" ["A"], .input "A" [] [("v", .named "Variables")], queryX]
/-- `query Q($a: A!) { x }` -/
def fieldDoc : QDoc :=
  [.op .query (some "Q") [{ name := "a", ty := .nonNull (.named "A"), default := none }] [.field none "x" []]]

/-- **the input-field conjunct of `fixedNamesFree` is needed**: `struct A { v: Option<Variables> }`,
    `struct Variables { a: A }` — a by-value cycle through an input item and `Variables` (`NoClash` holds) -/
theorem input_field_Variables_cyclic :
    ∃ c, ctxOf fieldSdl fieldDoc { externEnums := ["Variables"] } = some c ∧ Valid.validDoc c.s true fieldDoc = true ∧
      InputsWf c.s ∧ MentionsFaithful c ∧ respNamesOk c 0 = true ∧ fixedNamesFree c 0 = false ∧
      C02.NoClash c 0 = true ∧
      (∃ items, responseForQuery c 0 = .ok items ∧ TransGen (containsByValue items) "Variables" "Variables") ∧
      (∃ ms, generate c.s c.cs { externEnums := ["Variables"] } "" fieldDoc = .ok ms ∧ ms ≠ [] ∧
        ∀ m ∈ ms, TransGen (containsByValue m.items) "Variables" "Variables") :=
  witness_spec (b := "A") (by decide +kernel)

/-- `input bool { b: Boolean }  type Query { x: Int }` -/
def boolSdl : SdlDoc := [.input "bool" [] [("b", .named "Boolean")], queryX]
/-- `query Q($v: bool) { x }` -/
def boolDoc : QDoc :=
  [.op .query (some "Q") [{ name := "v", ty := .named "bool", default := none }] [.field none "x" []]]

/-- **the leaf conjunct of `fixedNamesFree` is needed**: `type Boolean = bool;` `struct bool { b: Option<Boolean> }` —
    an input item named like the target of a built-in alias closes a by-value cycle (`NoClash` holds) -/
theorem input_named_bool_cyclic :
    ∃ c, ctxOf boolSdl boolDoc {} = some c ∧ Valid.validDoc c.s true boolDoc = true ∧
      InputsWf c.s ∧ MentionsFaithful c ∧ respNamesOk c 0 = true ∧ fixedNamesFree c 0 = false ∧
      C02.NoClash c 0 = true ∧
      (∃ items, responseForQuery c 0 = .ok items ∧ TransGen (containsByValue items) "bool" "bool") ∧
      (∃ ms, generate c.s c.cs {} "" boolDoc = .ok ms ∧ ms ≠ [] ∧
        ∀ m ∈ ms, TransGen (containsByValue m.items) "bool" "bool") :=
  witness_spec (b := "Boolean") (by decide +kernel)

/-! ## a positive instance -/

/-- `input A { a: A, n: Int, w: W }  input W { k: Kind }  enum Kind { X }  type Query { node: Node }`
    `type Node { id: ID!, child: Node, kind: Kind }` -/
def posSdl : SdlDoc :=
  [.input "A" [] [("a", .named "A"), ("n", .named "Int"), ("w", .named "W")],
   .input "W" [] [("k", .named "Kind")],
   .enum "Kind" ["X"],
   .object "Query" [] [{ name := "node", ty := .named "Node", directives := [] }],
   .object "Node" [] [{ name := "id", ty := .nonNull (.named "ID"), directives := [] },
                      { name := "child", ty := .named "Node", directives := [] },
                      { name := "kind", ty := .named "Kind", directives := [] }]]

/-- `fragment Tree on Node { id child { ...Tree } }  query Q($a: A, $w: W!) { node { ...Tree kind } }` -/
def posDoc : QDoc :=
  [.frag "Tree" "Node" [.field none "id" [], .field none "child" [.spread "Tree"]],
   .op .query (some "Q") [{ name := "a", ty := .named "A", default := none },
                          { name := "w", ty := .nonNull (.named "W"), default := none }]
     [.field none "node" [.spread "Tree", .field none "kind" []]]]

def posCheck : Bool :=
  match ctxOf posSdl posDoc {} with
  | some c =>
    Valid.validDoc c.s true posDoc && decide (InputsWf c.s) && mentionsFaithful c && respNamesOk c 0 &&
    fixedNamesFree c 0 && inputIsRecursive c.s 0 && fragmentIsRecursive c.q 0 &&
    ((responseForQuery c 0).toOption.map (fun its => its.map fun (it : Item) => (it.name, byValueRefs it)) ==
      some [("Boolean", ["bool"]), ("Float", ["f64"]), ("Int", ["i64"]), ("ID", ["String"]), ("Kind", []),
            ("A", ["Int", "W"]), ("W", ["Kind"]), ("Variables", ["A", "W"]), ("<impl Variables>", []),
            ("Tree", ["ID", "Treechild"]), ("Treechild", []), ("ResponseData", ["Qnode"]), ("Qnode", ["Kind"])])
  | none => false

/-- **`module_items_acyclic` applied**: one operation with a recursive input type (`A.a : Option<Box<A>>`), an input
    held by value (`W`), a recursive fragment (`Treechild = Box<Tree>`, `Qnode.tree : Box<Tree>`): the four hypotheses
    hold (decided), the module is emitted, and no emitted item contains itself by value through any chain -/
theorem recursive_input_and_fragment_acyclic :
    ∃ c, ctxOf posSdl posDoc {} = some c ∧ Valid.validDoc c.s true posDoc = true ∧
      inputIsRecursive c.s 0 = true ∧ fragmentIsRecursive c.q 0 = true ∧
      InputsWf c.s ∧ MentionsFaithful c ∧ respNamesOk c 0 = true ∧ fixedNamesFree c 0 = true ∧
      ∃ items, responseForQuery c 0 = .ok items ∧
        items.map (fun it => (it.name, byValueRefs it)) =
          [("Boolean", ["bool"]), ("Float", ["f64"]), ("Int", ["i64"]), ("ID", ["String"]), ("Kind", []),
           ("A", ["Int", "W"]), ("W", ["Kind"]), ("Variables", ["A", "W"]), ("<impl Variables>", []),
           ("Tree", ["ID", "Treechild"]), ("Treechild", []), ("ResponseData", ["Qnode"]), ("Qnode", ["Kind"])] ∧
        ¬ ∃ a, TransGen (containsByValue items) a a := by
  have h : posCheck = true := by decide +kernel
  unfold posCheck at h
  split at h
  · rename_i c hc
    simp only [Bool.and_eq_true, decide_eq_true_eq, beq_iff_eq] at h
    obtain ⟨⟨⟨⟨⟨⟨⟨h1, h2⟩, h3⟩, h4⟩, h5⟩, h6⟩, h7⟩, h8⟩ := h
    refine ⟨c, hc, h1, h6, h7, h2, h3, h4, h5, ?_⟩
    cases hr : responseForQuery c 0 with
    | error e => rw [hr] at h8; cases h8
    | ok items =>
      rw [hr] at h8
      simp only [Except.toOption, Option.map_some, Option.some.injEq] at h8
      exact ⟨items, rfl, h8, module_items_acyclic c 0 items h2 h3 h4 h5 hr⟩
  · cases h

/-- the rich sample of `C02Response.lean` (interface, union, nested objects, fragments spread as fields, as a lone
    selection and inside inline fragments, extern enum `Ext`, custom scalar `Date`, input-typed variable) satisfies all
    four hypotheses -/
theorem rich_hyps : InputsWf C02.richCtx.s ∧ MentionsFaithful C02.richCtx ∧ respNamesOk C02.richCtx 0 = true ∧
    fixedNamesFree C02.richCtx 0 = true ∧ C02.NoClash C02.richCtx 0 = true ∧ respLeafFree C02.richCtx 0 = true := by
  refine ⟨by decide, by decide +kernel, by decide +kernel, by decide +kernel, by decide +kernel, by decide +kernel⟩

/-- the references the three lower layers of the rich sample hold by value, as `fixedNamesFree` computes them -/
example : (allUsedTypes C02.richCtx.s C02.richCtx.q 0).toOption.map
      (fun u => (leafRefs C02.richCtx u, inputRefs C02.richCtx u, varRefs C02.richCtx 0)) =
    some (["bool", "f64", "i64", "String", "super::Date"], ["Kind", "Date"], ["In"]) := by decide +kernel

example : ∀ items, responseForQuery C02.richCtx 0 = .ok items → ¬ ∃ a, TransGen (containsByValue items) a a :=
  fun items h => module_items_acyclic _ 0 items rich_hyps.1 rich_hyps.2.1 rich_hyps.2.2.1 rich_hyps.2.2.2.1 h

end C12Mod
end GqlVerif
