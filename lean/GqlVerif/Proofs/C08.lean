import GqlVerif.Model.Cache
/-!
Helper lemmas for C08: association maps, the per-map invariant `MInv` ("every entry is what the
loader returns for every path with that key"), `get_set_cached` under the invariant, path
components of `dir ++ "/" ++ name`.
-/
namespace GqlVerif
namespace C08
open Cache

section maps
variable {P K V : Type} [DecidableEq K]

/-- every entry of the map is the loader's value for every path that has the entry's key -/
def MInv (key : P → K) (load : P → Outcome V) (m : List (K × V)) : Prop :=
  ∀ p v, find m (key p) = some v → load p = .ok v

/-- the loader cannot tell two paths with the same key apart -/
def KeyFaithful (key : P → K) (load : P → Outcome V) : Prop :=
  ∀ p p', key p = key p' → load p = load p'

theorem MInv_nil (key : P → K) (load : P → Outcome V) : MInv key load [] := by
  intro p v h; simp [find] at h

theorem find_cons (m : List (K × V)) (k k' : K) (v : V) :
    find ((k, v) :: m) k' = if k = k' then some v else find m k' := by
  simp [find]

theorem insertGet_hit {m : List (K × V)} {k : K} {v v0 : V} (h : find m k = some v0) :
    insertGet m k v = (m, v0) := by simp [insertGet, h]

theorem insertGet_miss {m : List (K × V)} {k : K} {v : V} (h : find m k = none) :
    insertGet m k v = ((k, v) :: m, v) := by simp [insertGet, h]

/-- `entry(key).or_insert(value)` preserves the invariant and returns the loader's value -/
theorem insertGet_inv {key : P → K} {load : P → Outcome V} (hf : KeyFaithful key load)
    {m : List (K × V)} (hm : MInv key load m) {p : P} {v : V} (hv : load p = .ok v) :
    MInv key load (insertGet m (key p) v).1 ∧ load p = .ok (insertGet m (key p) v).2 := by
  cases h : find m (key p) with
  | some v0 =>
    rw [insertGet_hit h]
    exact ⟨hm, hm p v0 h⟩
  | none =>
    rw [insertGet_miss h]
    refine ⟨?_, hv⟩
    intro p' v' h'
    rw [find_cons] at h'
    by_cases hk : key p = key p'
    · simp [hk] at h'
      rw [← hf p p' hk, hv, h']
    · simp [hk] at h'
      exact hm p' v' h'

/-- under the invariant `get_set_cached` returns exactly what the loader returns -/
theorem getSet_result {key : P → K} {load : P → Outcome V} (hf : KeyFaithful key load)
    {m : List (K × V)} (hm : MInv key load m) (p : P) :
    (getSet m (key p) (load p)).2 = load p := by
  unfold getSet
  cases h : find m (key p) with
  | some v => simp [hm p v h]
  | none =>
    cases hl : load p with
    | error e => simp
    | ok v =>
      have := (insertGet_inv hf hm hl).2
      rw [hl] at this
      simp [← this]

theorem getSet_inv {key : P → K} {load : P → Outcome V} (hf : KeyFaithful key load)
    {m : List (K × V)} (hm : MInv key load m) (p : P) :
    MInv key load (getSet m (key p) (load p)).1 := by
  unfold getSet
  cases h : find m (key p) with
  | some v => simpa using hm
  | none =>
    cases hl : load p with
    | error e => simpa using hm
    | ok v => simpa using (insertGet_inv hf hm hl).1

/-- a failing load leaves the map exactly as it was -/
theorem getSet_error_unchanged {m : List (K × V)} {k : K} {load : Outcome V} {e : Err}
    (h : (getSet m k load).2 = .error e) : (getSet m k load).1 = m := by
  unfold getSet at h ⊢
  cases hf : find m k with
  | some v => simp
  | none =>
    cases hl : load with
    | error e => simp
    | ok v => simp [hf, hl] at h

end maps

/-! ## pointwise relation of two lists (programs / threads) -/

inductive Forall₂ {α β : Type} (r : α → β → Prop) : List α → List β → Prop
  | nil : Forall₂ r [] []
  | cons {a b as bs} : r a b → Forall₂ r as bs → Forall₂ r (a :: as) (b :: bs)

theorem Forall₂.imp {α β : Type} {r s : α → β → Prop} {as : List α} {bs : List β}
    (h : Forall₂ r as bs) (hrs : ∀ a b, r a b → s a b) : Forall₂ s as bs := by
  induction h with
  | nil => exact .nil
  | cons hab _ ih => exact .cons (hrs _ _ hab) ih

theorem Forall₂.length_eq {α β : Type} {r : α → β → Prop} {as : List α} {bs : List β}
    (h : Forall₂ r as bs) : as.length = bs.length := by
  induction h with
  | nil => rfl
  | cons _ _ ih => simp [ih]

theorem Forall₂.set {α β : Type} {r : α → β → Prop} {as : List α} {bs : List β} (h : Forall₂ r as bs)
    (i : Nat) (b : β) (hb : ∀ a, as[i]? = some a → r a b) : Forall₂ r as (bs.set i b) := by
  induction h generalizing i with
  | nil => exact .nil
  | cons hab hrest ih =>
    cases i with
    | zero => exact .cons (hb _ rfl) hrest
    | succ i => exact .cons hab (ih i (by intro a ha; exact hb a (by simpa using ha)))

theorem Forall₂.get {α β : Type} {r : α → β → Prop} {as : List α} {bs : List β} (h : Forall₂ r as bs)
    (i : Nat) (b : β) (hb : bs[i]? = some b) : ∃ a, as[i]? = some a ∧ r a b := by
  induction h generalizing i with
  | nil => simp at hb
  | cons hab _ ih =>
    cases i with
    | zero => simp at hb; subst hb; exact ⟨_, rfl, hab⟩
    | succ i => simpa using ih i (by simpa using hb)

/-! ## path components -/

theorem splitOn_ne_nil (sep : Char) (p : List Char) : splitOn sep p ≠ [] := by
  induction p with
  | nil => simp [splitOn]
  | cons c cs ih =>
    unfold splitOn
    split
    · simp
    · split <;> simp

theorem splitOn_append (sep : Char) (a b : List Char) :
    splitOn sep (a ++ sep :: b) = splitOn sep a ++ splitOn sep b := by
  induction a with
  | nil => simp [splitOn]
  | cons c cs ih =>
    by_cases hc : c = sep
    · simp [splitOn, hc] at ih ⊢
      exact ih
    · simp only [List.cons_append, splitOn, hc, if_false]
      rw [ih]
      cases h : splitOn sep cs with
      | nil => exact absurd h (splitOn_ne_nil sep cs)
      | cons s ss => simp

/-- the first segment of a non-empty directory prefix decides the leading marker -/
theorem head_splitOn_append (sep : Char) (a b : List Char) :
    (splitOn sep (a ++ sep :: b)).head? = (splitOn sep a).head? := by
  rw [splitOn_append]
  cases h : splitOn sep a with
  | nil => exact absurd h (splitOn_ne_nil sep a)
  | cons s ss => simp

/-- components of `dir/name` = components of `dir` followed by the normal segments of `name` -/
theorem components_join (d n : List Char) (hd : d ≠ []) :
    components (d ++ '/' :: n) = components d ++ (splitOn '/' n).filter isNormalSeg := by
  cases d with
  | nil => exact absurd rfl hd
  | cons c cs =>
    have hs := splitOn_append '/' (c :: cs) n
    have hh := head_splitOn_append '/' (c :: cs) n
    by_cases hc : c = '/'
    · subst hc
      simp only [components, List.cons_append] at *
      rw [hs]; simp [List.filter_append]
    · have e1 : components (c :: cs ++ '/' :: n) =
          (if (splitOn '/' (c :: cs ++ '/' :: n)).head? = some ['.'] then
            ['.'] :: (splitOn '/' (c :: cs ++ '/' :: n)).filter isNormalSeg
           else (splitOn '/' (c :: cs ++ '/' :: n)).filter isNormalSeg) := by
        simp only [components, List.cons_append]
        split
        · rename_i h; simp at h; exact absurd h.1 hc
        · rfl
      have e2 : components (c :: cs) =
          (if (splitOn '/' (c :: cs)).head? = some ['.'] then
            ['.'] :: (splitOn '/' (c :: cs)).filter isNormalSeg
           else (splitOn '/' (c :: cs)).filter isNormalSeg) := by
        simp only [components]
        split
        · rename_i h; simp at h; exact absurd h.1 hc
        · rfl
      rw [e1, e2, hh, hs, List.filter_append]
      split <;> simp

end C08
end GqlVerif
