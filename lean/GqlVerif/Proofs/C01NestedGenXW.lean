import GqlVerif.Proofs.C01NestedGenXI
/-!
# `NestedGen2Op` (stage 2), part W: the instance of the task, hypotheses evaluated

Schema `ngSchema`;

    fragment Inner on Dog { tricks }
    fragment Outer on Dog { age ...Inner }
    query Q { animal { __typename name ... on Dog { barks } ...Outer } }

* the operation is in `NestedGen2Op`, not in `NestedGenOp` (stage 1), not in `NestedAbsOp`;
* the emitted types: `struct Qanimal { name, #[serde(flatten)] on: QanimalOn }`, `enum QanimalOn { Dog(QanimalOnDog), Cat }`,
  `struct QanimalOnDog { barks, #[serde(flatten)] outer: Outer }`, `struct Outer { age, #[serde(flatten)] Inner }`,
  `struct Inner { tricks }` (no key is read twice);
* every hypothesis of `nestedgen2_accepts` / `nestedgen2_precise_iff` / `nestedgen2_roundtrip` by `decide +kernel`; the concrete
  round trip (`nx_roundtrip_canon`, `nx_roundtrip_eval`, `nx_canon_value`);
* `nestedgen2_overlap_needed`: the key condition of the class on inline fragments with fields (`bodyOk`: no field keyed as an
  interface-level field) is necessary for `accepts` — a conforming response the emitted types reject.
-/
set_option linter.unusedSimpArgs false
set_option linter.unusedVariables false

namespace GqlVerif
namespace C01NX
open Serde Spec C13 C03 Codegen C01 C01.E2E C01M C01N C01NA C01NG

/-- `animal { __typename name ... on Dog { barks } ...Outer }` -/
def nxAnimal : List Sel := [.typename, .field none 1 [], .inline (.object 1) [.field none 2 []], .spread 1]

abbrev CX : Ctx := ngCtx ngAge nxAnimal
abbrev OX : ROperation := ngOp nxAnimal

def nxItems : List Item := okOr (responseForQuery CX 0)

theorem nx_gen : responseForQuery CX 0 = .ok nxItems := gen_of_isOk (by decide +kernel)
theorem nx_class : NestedGen2Op CX OX = true := by decide +kernel
theorem nx_not_G : NestedGenOp CX OX = false := by decide +kernel
theorem nx_not_A : NestedAbsOp CX OX = false := by decide +kernel
theorem nx_not_S : VariantSpreadOp CX OX = false := by decide +kernel
theorem nx_not_M2 : MixedOp2 CX OX = false := by decide +kernel

theorem nx_names : fragNamesOk CX = true := by decide +kernel
theorem nx_keys : nestedGen2KeysOk CX OX = true := by decide +kernel
theorem nx_tag : absTagOk CX OX = true := by decide +kernel
theorem nx_ok : moduleOk CX nxItems = true := by decide +kernel
theorem nx_side : nestedGen2SideOk CX OX = true := by decide +kernel

/-- `nestedgen2_items_shape` on the instance -/
theorem nx_items : responseItems CX OX = .ok (bodyItemsA CX "ResponseData" "Q" OX.sels) :=
  nestedgen2_items_shape _ _ (by simp [ngCtx, ngQuery]) nx_class

/-- the emitted types -/
theorem nx_items_shape :
    ((moduleEnv CX nxItems).find "Qanimal" ==
      some (.struct "Qanimal" ["Deserialize"] (some "::serde")
        [{ rust := "name", ty := .path "String" },
         { rust := "on", ty := .path "QanimalOn", flatten := true }])) &&
    ((moduleEnv CX nxItems).find "QanimalOn" ==
      some (.tagged "QanimalOn" ["Deserialize"] (some "::serde") "__typename"
        [{ name := "Dog", payload := some (.path "QanimalOnDog") }, { name := "Cat" }])) &&
    ((moduleEnv CX nxItems).find "QanimalOnDog" ==
      some (.struct "QanimalOnDog" ["Deserialize"] (some "::serde")
        [{ rust := "barks", ty := .opt (.path "Boolean") },
         { rust := "Outer", ty := .path "Outer", flatten := true }])) &&
    ((moduleEnv CX nxItems).find "Outer" ==
      some (.struct "Outer" ["Deserialize"] (some "::serde")
        [{ rust := "age", ty := .opt (.path "Int") },
         { rust := "Inner", ty := .path "Inner", flatten := true }])) &&
    ((moduleEnv CX nxItems).find "Inner" ==
      some (.struct "Inner" ["Deserialize"] (some "::serde")
        [{ rust := "tricks", ty := .opt (.path "Int") }])) = true := by
  decide +kernel

def nxJson : Json :=
  .obj [("animal", .obj [("tricks", .int 3), ("__typename", .str "Dog"), ("barks", .bool true), ("name", .str "Rex"),
    ("age", .int 7)])]

set_option maxRecDepth 8000 in
theorem nx_conforms : conformsOpN CX OX nxJson = true := by
  simp only [CX, OX, nxAnimal, nxJson]; confG_eval

/-- C03 on the module: what `ResponseData` accepts, exactly -/
theorem nx_precise (j : Json) :
    okB (Serde.de (moduleEnv CX nxItems) (.path "ResponseData") j) =
      conformsLooseA (wholeN CX 2) ngSchema (ngQuery ngAge nxAnimal) {} false OX.sels j :=
  nestedgen2_precise_iff CX 0 OX nxItems rfl nx_class nx_names nx_keys nx_gen nx_ok j

/-- `nestedgen2_accepts` on the instance -/
theorem nx_accepts : ∃ v, Serde.de (moduleEnv CX nxItems) (.path "ResponseData") nxJson = .ok v :=
  nestedgen2_accepts CX 0 OX nxItems rfl nx_class nx_names nx_keys nx_tag nx_gen nx_ok nxJson nx_conforms

/-- **the concrete round trip**, by evaluation of the model: `Qanimal` writes `name`, the flattened tagged enum the tag entry,
    the variant struct its own field `barks`, then `Outer`'s entry `age`, then `Inner`'s entry `tricks` -/
theorem nx_roundtrip_eval :
    (match Serde.roundtrip (moduleEnv CX nxItems) (.path "ResponseData") nxJson with
     | .ok (.obj [("animal", .obj [("name", .str "Rex"), ("__typename", .str "Dog"), ("barks", .bool true),
         ("age", .int 7), ("tricks", .int 3)])]) => true
     | _ => false) = true := by decide +kernel

/-- `nestedgen2_roundtrip` on the instance, the canonical form still symbolic -/
theorem nx_roundtrip_canon :
    Serde.roundtrip (moduleEnv CX nxItems) (.path "ResponseData") nxJson =
      .ok (normJson (canonSelA (centN CX 2) ngSchema (ngQuery ngAge nxAnimal) {} OX.sels nxJson)) :=
  nestedgen2_roundtrip CX 0 OX nxItems rfl nx_class nx_names nx_keys nx_tag nx_side nx_gen nx_ok nxJson nx_conforms

/-- … hence the canonical form of `nestedgen2_roundtrip` is the value the model computes -/
theorem nx_canon_value :
    (match (Except.ok (normJson (canonSelA (centN CX 2) ngSchema (ngQuery ngAge nxAnimal) {} OX.sels nxJson)) : D Json) with
     | .ok (.obj [("animal", .obj [("name", .str "Rex"), ("__typename", .str "Dog"), ("barks", .bool true),
         ("age", .int 7), ("tricks", .int 3)])]) => true
     | _ => false) = true := by
  rw [← nx_roundtrip_canon]; exact nx_roundtrip_eval

/-! ## necessity of the key condition on inline fragments with fields

    query Q { animal { __typename name ... on Dog { name } } }

`Qanimal` consumes the entry `name`; the flattened `on` (and so `QanimalOnDog { name }`) never sees it. -/

def nyAnimal : List Sel := [.typename, .field none 1 [], .inline (.object 1) [.field none 1 []]]
abbrev CY : Ctx := ngCtx ngAge nyAnimal
abbrev OY : ROperation := ngOp nyAnimal
def nyItems : List Item := okOr (responseForQuery CY 0)
theorem ny_gen : responseForQuery CY 0 = .ok nyItems := gen_of_isOk (by decide +kernel)
/-- not in the class: the inline fragment reads the key of an interface-level field -/
theorem ny_class : NestedGen2Op CY OY = false := by decide +kernel
def nyJson : Json := .obj [("animal", .obj [("__typename", .str "Dog"), ("name", .str "Rex")])]

set_option maxRecDepth 8000 in
theorem ny_conforms : conformsOpN CY OY nyJson = true := by
  simp only [CY, OY, nyAnimal, nyJson]; confG_eval

/-- the response conforms, the module is generated, and the emitted `ResponseData` rejects the response -/
theorem nestedgen2_overlap_needed :
    conformsOpN CY OY nyJson = true ∧ moduleOk CY nyItems = true ∧
      okB (Serde.de (moduleEnv CY nyItems) (.path "ResponseData") nyJson) = false :=
  ⟨ny_conforms, by decide +kernel, by decide +kernel⟩

end C01NX
end GqlVerif
