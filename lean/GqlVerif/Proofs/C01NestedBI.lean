import GqlVerif.Proofs.C01NestedBH
/-!
# C01 end to end (`NestedBOp`), part I: `nestedb_lossless`, `nestedb_roundtrip`

The rank recursion of `C01NestedI` (`centN`, `rustSideN`, `fragRTN`) is about fragments only and is used as it is.

* `nestedBSideOk` (decidable): `sideOkSelsA` at the operation's own levels, Rust names of the root struct, `rustSideN` of every
  spread fragment (object positions and positions of the new kind);
* **`top_losslessA`**, **`nestedb_lossless`**, **`nestedb_roundtrip`** —
  `Serde.roundtrip (moduleEnv c items) ResponseData j = .ok (normJson (canonSelA (centN c R) … j))` for every conforming `j`.

Copy of `C01NestedGenXI` for the class `NestedBOp`.
-/
set_option linter.unusedSimpArgs false
set_option linter.unusedVariables false
set_option linter.unusedSectionVars false
set_option linter.unnecessarySimpa false

namespace GqlVerif
namespace C01NB
open Serde Spec C13 C03 Codegen C01 C01.E2E C01M C01N C01NA C01NG C01NX

/-! ## top level -/

/-- Rust field names pairwise distinct in every struct at an object position of the operation and in the structs of the
    spread fragments, recursively (decidable) -/
def nestedBSideOk (c : Ctx) (op : ROperation) : Bool :=
  sideOkSelsA (KNn c c.q.fragments.length) c op.sels && EnumSpec.nodup (rustNamesF c op.sels) &&
  (aSpreadss c.s c.q c.o op.sels).all (rustSideN c c.q.fragments.length)

/-- no key has two readers at the abstract positions with (b)-spreads of the operation (`bDisjOk`; decidable).  Not a hypothesis
    of `nestedb_roundtrip`: without it the equation still holds, `normJson` then merges the entries of the key read twice. -/
def nestedBDisjOk (c : Ctx) (op : ROperation) : Bool := disjOksA (KNn c c.q.fragments.length) c op.sels

/-- **losslessness at the top level** (generic environment) -/
theorem top_losslessA (e : Env) (c : Ctx) (op : ROperation) (ht : NestedBOp c op = true) (hnd : fragNamesOk c = true)
    (hk : nestedBKeysOk c op = true) (hr : nestedBSideOk c op = true) (he : TopEnvA e c op) (hS : SerdeFuel.EnvOKS e)
    (j : Json) (v : Val) (hc : conformsOpN c op j = true) (hd : Serde.de e (.path "ResponseData") j = .ok v) :
    Serde.ser e (.path "ResponseData") v =
      .ok (normJson (canonSelA (centN c c.q.fragments.length) c.s c.q c.o op.sels j)) := by
  obtain ⟨_, _, hsels⟩ := nestedBOp_parts ht
  simp only [nestedBKeysOk, Bool.and_eq_true, List.all_eq_true] at hk
  simp only [nestedBSideOk, Bool.and_eq_true, List.all_eq_true] at hr
  obtain ⟨⟨hko, hkeys⟩, hsub⟩ := hk
  obtain ⟨⟨hros, hrn⟩, hrsub⟩ := hr
  have hfa : ∀ p' g', fragOkN c.s c.q c.o c.q.fragments.length p' g' = true →
      (FragEnvN e c c.q.fragments.length g' ∧
        (fragSideN c c.q.fragments.length g' = true ∧ rustSideN c c.q.fragments.length g' = true)) →
      FragAcc e c (wholeN c c.q.fragments.length) (KNn c c.q.fragments.length) g' :=
    fun p' g' h1 h2 => fragAccN e c hnd _ p' g' h1 h2.1 h2.2.1
  have hfrt : ∀ p' g', fragOkN c.s c.q c.o c.q.fragments.length p' g' = true →
      (FragEnvN e c c.q.fragments.length g' ∧
        (fragSideN c c.q.fragments.length g' = true ∧ rustSideN c c.q.fragments.length g' = true)) →
      FragRT e c (exN c.q c.q.fragments.length) (centN c c.q.fragments.length) (KNn c c.q.fragments.length) g' :=
    fun p' g' h1 h2 => fragRTN e c hnd _ p' g' h1 h2.1 h2.2.1 h2.2.2 _ (Nat.le_refl _)
  obtain ⟨N, hN⟩ := bodyA_lossless e c _ (wholeN c c.q.fragments.length) (KNn c c.q.fragments.length) _
    (exN c.q c.q.fragments.length) (centN c c.q.fragments.length) (fragOkN_spec c.s c.q c.o _) hfa hfrt
    (fun g hg => exN_fragOkAny hg _) (c.cs.camel op.name) "ResponseData" op.objectId op.sels hsels
    (bodyEnvA_and (P := fun g' => fragSideN c c.q.fragments.length g' = true ∧
        rustSideN c c.q.fragments.length g' = true) he.root (fun g' hg' => ⟨hsub g' hg', hrsub g' hg'⟩))
    hko hkeys hros hrn
  rw [de_top, ← SerdeFuel.dePath_fuel_indep he.ok false "ResponseData" j (max N (deFuel e j))
    (Nat.le_max_right _ _)] at hd
  have hser := hN false _ (max N (SerdeFuel.serFuel e v)) (Nat.le_max_left _ _) (Nat.le_max_left _ _) j v hc hd
  rw [← SerdeFuel.ser_fuel_indep hS (.path "ResponseData") v (max N (SerdeFuel.serFuel e v)) (Nat.le_max_right _ _)]
  rw [show serTy e (max N (SerdeFuel.serFuel e v)) (.path "ResponseData") v =
    serPath e (max N (SerdeFuel.serFuel e v)) "ResponseData" v from rfl, hser]
  rfl

/-- **`nestedb_lossless`.**  A conforming response that was read is written back as `normJson (canonSelA … j)`. -/
theorem nestedb_lossless (c : Ctx) (opIdx : Nat) (op : ROperation) (items : List Item)
    (hop : c.q.operations[opIdx]? = some op) (ht : NestedBOp c op = true) (hnd : fragNamesOk c = true)
    (hk : nestedBKeysOk c op = true) (hr : nestedBSideOk c op = true)
    (hgen : responseForQuery c opIdx = .ok items) (hok : moduleOk c items = true)
    (j : Json) (hc : conformsOpN c op j = true) (v : Val)
    (hd : Serde.de (moduleEnv c items) (.path "ResponseData") j = .ok v) :
    Serde.ser (moduleEnv c items) (.path "ResponseData") v =
      .ok (normJson (canonSelA (centN c c.q.fragments.length) c.s c.q c.o op.sels j)) :=
  top_losslessA (moduleEnv c items) c op ht hnd hk hr
    (topEnvA_of_module hop ht hgen hok) (nestedb_module_envOK hop ht hgen hok).2 j v hc hd

/-- **`nestedb_roundtrip`**: both in one statement -/
theorem nestedb_roundtrip (c : Ctx) (opIdx : Nat) (op : ROperation) (items : List Item)
    (hop : c.q.operations[opIdx]? = some op) (ht : NestedBOp c op = true) (hnd : fragNamesOk c = true)
    (hk : nestedBKeysOk c op = true) (htag : absTagOk c op = true) (hr : nestedBSideOk c op = true)
    (hgen : responseForQuery c opIdx = .ok items) (hok : moduleOk c items = true)
    (j : Json) (hc : conformsOpN c op j = true) :
    Serde.roundtrip (moduleEnv c items) (.path "ResponseData") j =
      .ok (normJson (canonSelA (centN c c.q.fragments.length) c.s c.q c.o op.sels j)) := by
  obtain ⟨v, hv⟩ := nestedb_accepts c opIdx op items hop ht hnd hk htag hgen hok j hc
  unfold Serde.roundtrip
  rw [hv]
  exact nestedb_lossless c opIdx op items hop ht hnd hk hr hgen hok j hc v hv

end C01NB
end GqlVerif
