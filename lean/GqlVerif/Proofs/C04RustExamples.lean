import GqlVerif.Proofs.C04RustVars
import GqlVerif.Proofs.C04SurjectiveExamples
/-!
# C04 under `normalization = rust` — a concrete instance in which the input / enum / scalar names really change

```graphql
scalar date_time
enum sort_order { asc desc }
input page_input { first: Int, after: ID, order: sort_order!, since: date_time, ids: [ID!], next: page_input }
type Query { x: String }

query Q($page: page_input!, $order: sort_order, $limit: Int) { x }
```
Under `rust` the module says `PageInput`, `SortOrder { Asc, Desc, Other(String) }`, `DateTime = super::DateTime`,
`Variables { page: PageInput, order: Option<SortOrder>, limit: Option<Int> }`; `page_input.next` is a direct cycle
(`Option<Box<PageInput>>`).  Every hypothesis of `variables_expressible_rust'` / `variables_ser_valid_rust'` is
evaluated (`rx_side`, `rx_hyps`), the two modules differ (`rx_differ`), the theorems are applied to an assignment.
-/
namespace GqlVerif
namespace C04R
open Serde Codegen C09 C09N C04S
open C01.E2E (noNorm)

def rxSchema : Schema :=
  { objects := [{ name := "Query", fields := [0], implements := [] }],
    fields := [{ name := "x", ty := { id := .scalar 1, quals := [] }, parent := .object 0, deprecation := none }],
    scalars := Schema.defaultScalars ++ ["date_time"],
    enums := [{ name := "sort_order", variants := ["asc", "desc"] }],
    inputs := [{ name := "page_input", isOneOf := false,
                 fields := [("first", { id := .scalar 2, quals := [] }),
                            ("after", { id := .scalar 0, quals := [] }),
                            ("order", { id := .enum 0, quals := [.required] }),
                            ("since", { id := .scalar 5, quals := [] }),
                            ("ids", { id := .scalar 0, quals := [.list, .required] }),
                            ("next", { id := .input 0, quals := [] })] }] }

def rxQuery : Query :=
  { operations := [{ name := "Q", kind := .query, objectId := 0, sels := [.field none 0 []] }],
    variables := [{ opIdx := 0, name := "page", default := none, ty := { id := .input 0, quals := [.required] } },
                  { opIdx := 0, name := "order", default := none, ty := { id := .enum 0, quals := [] } },
                  { opIdx := 0, name := "limit", default := none, ty := { id := .scalar 2, quals := [] } }] }

def rxTbl : List (String × String) :=
  [("page_input", "PageInput"), ("sort_order", "SortOrder"), ("asc", "Asc"), ("desc", "Desc"), ("date_time", "DateTime")]

/-- the context of the task: `normalization = rust` -/
def rxC₁ : Ctx := { s := rxSchema, q := rxQuery, o := { normalization := .rust }, cs := { snake := id, camel := tblCamel rxTbl } }

/-- the module generated under `none` / under `rust` -/
def rxItems₀ : List Item := itemsOf (noNorm rxC₁)
def rxItems₁ : List Item := itemsOf rxC₁

set_option maxRecDepth 100000 in
/-- **the side conditions of the wire invariant hold** -/
theorem rx_side : RustSideV (noNorm rxC₁) rxC₁ 0 rxItems₀ rxItems₁ :=
  RustSideV.of_noNorm (by decide +kernel) (itemsOf_ok (by decide +kernel)) (itemsOf_ok (by decide +kernel))
    (by decide +kernel) (by decide +kernel) (by decide +kernel)

set_option maxRecDepth 100000 in
/-- **the two modules differ**: the input type, the enum and the scalar alias are defined under other names, and the
    `rust` module no longer knows the raw ones -/
theorem rx_differ :
    (rxItems₀.map (·.name) == ["Boolean", "Float", "Int", "ID", "date_time", "sort_order", "page_input", "Variables",
      "<impl Variables>", "ResponseData"]) = true ∧
    (rxItems₁.map (·.name) == ["Boolean", "Float", "Int", "ID", "DateTime", "SortOrder", "PageInput", "Variables",
      "<impl Variables>", "ResponseData"]) = true ∧
    ((moduleEnvN rxC₁ rxItems₁).find "page_input").isNone = true ∧
    ((moduleEnvN rxC₁ rxItems₁).find "sort_order").isNone = true ∧
    (externsFor (noNorm rxC₁) == [("super::date_time", .path "String")]) = true ∧
    (externsForN rxC₁ == [("super::DateTime", .path "String")]) = true := by
  refine ⟨by decide +kernel, by decide +kernel, by decide +kernel, by decide +kernel, by decide +kernel, by decide +kernel⟩

set_option maxRecDepth 100000 in
/-- **the hypotheses of the `none` theorems hold of `noNorm rxC₁` and its module** -/
theorem rx_hyps :
    (∀ i ∈ rxC₁.s.inputs, keywordReplace i.name = i.name) ∧
    (∀ n ∈ rxC₁.s.scalars, keywordReplace n = n) ∧
    (∀ e ∈ rxC₁.s.enums, keywordReplace e.name = e.name) ∧
    C02.OutputOnly rxC₁.s rxC₁.q = true ∧ C02.InputFieldsRelevant rxC₁.s = true ∧
    (∀ v ∈ rxC₁.q.opVariables 0, C02.Relevant v.ty.id) ∧
    (Scope.defines rxItems₀).Nodup ∧ (∀ it ∈ rxItems₀, (C02.memberIdents it).Nodup) ∧
    (∀ it ∈ rxItems₀, C01.notPrim it.name) ∧ ExternsFree (noNorm rxC₁) rxItems₀ ∧ rxC₁.q.opVariables 0 ≠ [] := by
  refine ⟨C02.hkw_of_not_keyword _ (by decide +kernel : ∀ i ∈ rxSchema.inputs, i.name ∉ Gen.keywordTable), ?_, ?_,
    (by decide : C02.OutputOnly rxSchema rxQuery = true), (by decide : C02.InputFieldsRelevant rxSchema = true),
    ?_, ?_, ?_, ?_, ?_, by decide⟩
  · intro n hn
    rw [C11.keywordReplace_spec, if_neg]
    exact (by decide +kernel : ∀ n ∈ rxSchema.scalars, n ∉ Gen.keywordTable) n hn
  · intro e he
    rw [C11.keywordReplace_spec, if_neg]
    exact (by decide +kernel : ∀ e ∈ rxSchema.enums, e.name ∉ Gen.keywordTable) e he
  · intro v hv
    have : v.ty.id = .input 0 ∨ v.ty.id = .enum 0 ∨ v.ty.id = .scalar 2 := by
      simp only [rxC₁, rxQuery, Query.opVariables, List.filter_cons, List.filter_nil] at hv
      simp at hv
      rcases hv with rfl | rfl | rfl <;> simp
    rcases this with h | h | h <;> rw [h] <;> trivial
  · decide +kernel
  · decide +kernel
  · decide +kernel
  · unfold ExternsFree
    decide +kernel

/-- `{"order": "asc", "page": {"ids": ["a", 7], "order": "desc", "next": {"order": "asc", "ids": []}, "since": "2020"}}`
    — members out of order, nullable ones missing, an integer ID, a nested value of the recursive type -/
def rxKvs : List (String × Json) :=
  [("order", .str "asc"),
   ("page", .obj [("ids", .arr [.str "a", .int 7]), ("order", .str "desc"),
                  ("next", .obj [("order", .str "asc"), ("ids", .arr [])]), ("since", .str "2020")])]

theorem rxKvs_valid : VarsValid Leaves.graphql rxC₁ 0 rxKvs :=
  varsValidB_sound _ _ _ 20 _ (by decide +kernel)

/-- the canonical form: declaration order, explicit `null`s, the ID as a string — no Rust name occurs in it -/
def rxCanon : Json :=
  .obj [("page", .obj [("first", .null), ("after", .null), ("order", .str "desc"), ("since", .str "2020"),
                       ("ids", .arr [.str "a", .str "7"]),
                       ("next", .obj [("first", .null), ("after", .null), ("order", .str "asc"), ("since", .null),
                                      ("ids", .arr []), ("next", .null)])]),
        ("order", .str "asc"), ("limit", .null)]

theorem rx_canon : canonVars rxC₁ 0 rxKvs = rxCanon := by rfl

/-- **`variables_expressible_rust'` on the instance**: some value of the `rust` module's `Variables`
    (`Variables { page: PageInput { order: SortOrder::Desc, .. }, order: Some(SortOrder::Asc), limit: None }`) is
    written as the canonical form of the assignment -/
theorem rx_expressible : ∃ x, HasTy (moduleEnvN rxC₁ rxItems₁) (.path "Variables") x ∧
    Serde.ser (moduleEnvN rxC₁ rxItems₁) (.path "Variables") x = .ok rxCanon := by
  obtain ⟨h1, h2, h3, h4, h5, h6, h7, h8, h9, h10, h11⟩ := rx_hyps
  obtain ⟨x, hx, hs, _⟩ := variables_expressible_rust' Leaves.graphql rxC₁ 0 rxItems₀ rxItems₁ rx_side h1 h2 h3 h4 h5 h6 h7
    h8 h9 h10 int32_sub_i64 h11 rxKvs rxKvs_valid
  exact ⟨x, hx, rx_canon ▸ hs⟩

/-- **`variables_ser_valid_rust'` on the instance**: what that value is written as is a valid assignment (wire leaves) -/
example : ∃ kvs, rxCanon = .obj kvs ∧ VarsValid Leaves.wire rxC₁ 0 kvs := by
  obtain ⟨h1, h2, h3, h4, h5, h6, h7, h8, h9, h10, h11⟩ := rx_hyps
  obtain ⟨x, hx, hs⟩ := rx_expressible
  exact variables_ser_valid_rust' Leaves.wire rxC₁ 0 rxItems₀ rxItems₁ rx_side h1 h2 h3 h4 h5 h6 h7 h8 h9 h10
    (fun _ h => h) rfl h11 x hx _ hs

/-- the value the theorem speaks of, spelled out with the `rust` identifiers -/
def rxVal₁ : Val :=
  .record [("page", .record [("first", .unit), ("after", .unit), ("order", .variant "Desc" none),
                             ("since", .some (.str "2020")), ("ids", .some (.list [.str "a", .str "7"])),
                             ("next", .some (.record [("first", .unit), ("after", .unit), ("order", .variant "Asc" none),
                                                      ("since", .unit), ("ids", .some (.list [])), ("next", .unit)]))]),
           ("order", .some (.variant "Asc" none)), ("limit", .unit)]

set_option maxRecDepth 100000 in
/-- the model's own `to_value` on it, in the `rust` module: the canonical object; in the `rust` module the raw
    identifier `desc` is not a variant (`unmodelled`: the value is not of the type) -/
example :
    (match Serde.ser (moduleEnvN rxC₁ rxItems₁) (.path "Variables") rxVal₁ with
     | .ok j => jsonEqB j rxCanon
     | .error _ => false) = true ∧
    (match Serde.ser (moduleEnvN rxC₁ rxItems₁) (.path "SortOrder") (.variant "desc" none) with
     | .ok _ => false
     | .error _ => true) = true := ⟨by decide +kernel, by decide +kernel⟩

mutual
  /-- structural equality test on `Val` (the derived `BEq` does not reduce in the kernel) -/
  def valEqB : Val → Val → Bool
    | .unit, .unit => true
    | .some a, .some b => valEqB a b
    | .str a, .str b => a == b
    | .int a, .int b => a == b
    | .float a, .float b => jsonEqB a b
    | .bool a, .bool b => a == b
    | .list xs, .list ys => valsEqB xs ys
    | .record xs, .record ys => fieldsEqB xs ys
    | .variant a none, .variant b none => a == b
    | .variant a (some x), .variant b (some y) => a == b && valEqB x y
    | .enumOther a, .enumOther b => a == b
    | _, _ => false
  def valsEqB : List Val → List Val → Bool
    | [], [] => true
    | x :: xs, y :: ys => valEqB x y && valsEqB xs ys
    | _, _ => false
  def fieldsEqB : List (String × Val) → List (String × Val) → Bool
    | [], [] => true
    | (k, x) :: xs, (l, y) :: ys => k == l && valEqB x y && fieldsEqB xs ys
    | _, _ => false
end

def rxJsonStrIds : Json :=
  .obj [("order", .str "asc"),
        ("page", .obj [("ids", .arr [.str "a", .str "7"]), ("order", .str "desc"),
                       ("next", .obj [("order", .str "asc"), ("ids", .arr [])]), ("since", .str "2020")])]

set_option maxRecDepth 100000 in
/-- … and its own `from_value` (IDs given as strings) reads the assignment as that value and writes the canonical
    object back, as the `de` half of `variables_expressible_rust'` says -/
example : (match Serde.de (moduleEnvN rxC₁ rxItems₁) (.path "Variables") rxJsonStrIds with
    | .ok x => valEqB x rxVal₁ && (match Serde.ser (moduleEnvN rxC₁ rxItems₁) (.path "Variables") x with
      | .ok j => jsonEqB j rxCanon
      | .error _ => false)
    | .error _ => false) = true := by decide +kernel

set_option maxRecDepth 100000 in
/-- **the bridge is needed**: read in `moduleEnv rxC₁ …` (externs under the raw names) the `rust` module rejects the
    assignment — its alias `DateTime = super::DateTime` dangles there -/
example :
    (match Serde.de (moduleEnv rxC₁ rxItems₁) (.path "Variables") rxJsonStrIds with
     | .ok _ => false
     | .error _ => true) = true := by decide +kernel

end C04R
end GqlVerif
