import GqlVerif.Proofs.C07Extensions
import GqlVerif.Model.Codegen
import GqlVerif.Proofs.CalcVariantsPushed
/-!
# C07 — a renumbering of the field ids is invisible in the generated code

`Proofs/C07Extensions.lean`: with `extend type` blocks the two schema front-ends return `Schema` values that differ
by a renumbering `σ` of the field ids.  Field ids occur in `StoredObject.fields`, `StoredInterface.fields` and, after
`Resolve.resolve`, in `Sel.field _ fid _`; nothing in the emitted IR mentions them.  This file proves:

* `FieldIso ρ s t` — `t` is `s` with the field ids renumbered by `ρ` (`getField` commutes, the field lists of objects
  and interfaces are mapped, everything else is equal; **no injectivity of `ρ` is needed**);
  `fieldIso_mapFields` — `s.mapFields σ` is such a `t`, for `ρ = σ.idxOf`;
* `resolve_iso` — `Resolve.resolve t doc = (Resolve.resolve s doc).map (mapQ ρ)`: resolution (including the three
  validation passes) commutes with the renumbering (`mapQ ρ` renumbers the `fieldId`s of a resolved query);
* **`codegen_respects_field_renumbering`** — `Codegen.generate t cs o text doc = Codegen.generate s cs o text doc`,
  for all options, case functions and documents, error outcomes included;
* **`codegen_equal_ext_of_renderings`** / `codegen_equal_ext_json` — hence C07 for schemas with `extend type`: the
  SDL file and the introspection file generate literally the same modules.

All statements are about the model's own `Resolve.*` / `Codegen.*` functions, proved function by function
(`*_iso`, `*_map`); the fuel-indexed mutual block `calcSelection` / `calcVariants` / `calcVariantSels` / `calcFields`
by simultaneous induction on the fuel (`calc_iso`).
-/
set_option linter.unusedSectionVars false

namespace GqlVerif
namespace C07
open Resolve Codegen

def mapO (ρ : Nat → Nat) (o : StoredObject) : StoredObject := { o with fields := o.fields.map ρ }
def mapI (ρ : Nat → Nat) (i : StoredInterface) : StoredInterface := { i with fields := i.fields.map ρ }

/-- `t` is `s` with the field ids renumbered by `ρ` (no injectivity needed for what follows) -/
structure FieldIso (ρ : Nat → Nat) (s t : Schema) : Prop where
  field : ∀ i, t.fields[ρ i]? = s.fields[i]?
  rest : t = { s with fields := t.fields, objects := s.objects.map (mapO ρ), interfaces := s.interfaces.map (mapI ρ) }

theorem fieldIso_mapFields (σ : List Nat) (s : Schema) (h : σ.Perm (List.range s.fields.length)) :
    FieldIso σ.idxOf s (s.mapFields σ) :=
  ⟨mapFields_getElem? σ s h, rfl⟩

mutual
  def mapSel (ρ : Nat → Nat) : Sel → Sel
    | .field a fid sub => .field a (ρ fid) (mapSels ρ sub)
    | .inline t sub => .inline t (mapSels ρ sub)
    | .spread f => .spread f
    | .typename => .typename
  def mapSels (ρ : Nat → Nat) : List Sel → List Sel
    | [] => []
    | x :: xs => mapSel ρ x :: mapSels ρ xs
end

theorem mapSels_eq_map (ρ : Nat → Nat) (l : List Sel) : mapSels ρ l = l.map (mapSel ρ) := by
  induction l with
  | nil => rfl
  | cons x l ih => rw [mapSels, ih]; rfl

def mapFrag (ρ : Nat → Nat) (f : RFragment) : RFragment := { f with sels := mapSels ρ f.sels }
def mapOp (ρ : Nat → Nat) (o : ROperation) : ROperation := { o with sels := mapSels ρ o.sels }
def mapQ (ρ : Nat → Nat) (q : Query) : Query :=
  { q with fragments := q.fragments.map (mapFrag ρ), operations := q.operations.map (mapOp ρ) }

section Acc
variable {ρ : Nat → Nat} {s t : Schema} (h : FieldIso ρ s t)
include h

theorem FieldIso.getField (i : Nat) : t.getField (ρ i) = s.getField i := by
  simp [Schema.getField, h.field]

theorem FieldIso.getObject (i : Nat) : t.getObject i = (s.getObject i).map (mapO ρ) := by
  rw [h.rest]; simp only [Schema.getObject, List.getElem?_map]
  cases s.objects[i]? <;> rfl

theorem FieldIso.getInterface (i : Nat) : t.getInterface i = (s.getInterface i).map (mapI ρ) := by
  rw [h.rest]; simp only [Schema.getInterface, List.getElem?_map]
  cases s.interfaces[i]? <;> rfl

theorem FieldIso.unions : t.unions = s.unions := by rw [h.rest]
theorem FieldIso.inputs : t.inputs = s.inputs := by rw [h.rest]
theorem FieldIso.enums : t.enums = s.enums := by rw [h.rest]
theorem FieldIso.scalars : t.scalars = s.scalars := by rw [h.rest]
theorem FieldIso.names : t.names = s.names := by rw [h.rest]
theorem FieldIso.queryType : t.queryType = s.queryType := by rw [h.rest]
theorem FieldIso.mutationType : t.mutationType = s.mutationType := by rw [h.rest]
theorem FieldIso.subscriptionType : t.subscriptionType = s.subscriptionType := by rw [h.rest]
theorem FieldIso.objects_length : t.objects.length = s.objects.length := by rw [h.rest]; simp

theorem FieldIso.getUnion (i : Nat) : t.getUnion i = s.getUnion i := by simp [Schema.getUnion, h.unions]
theorem FieldIso.getInput (i : Nat) : t.getInput i = s.getInput i := by simp [Schema.getInput, h.inputs]
theorem FieldIso.getEnum (i : Nat) : t.getEnum i = s.getEnum i := by simp [Schema.getEnum, h.enums]
theorem FieldIso.getScalar (i : Nat) : t.getScalar i = s.getScalar i := by simp [Schema.getScalar, h.scalars]
theorem FieldIso.findType (n : String) : t.findType n = s.findType n := by simp [Schema.findType, h.names]
theorem FieldIso.findTypeId (n : String) : t.findTypeId n = s.findTypeId n := by simp [Schema.findTypeId, h.findType]
theorem FieldIso.resolveFieldType (g : GTy) : resolveFieldType t g = resolveFieldType s g := by
  simp [GqlVerif.resolveFieldType, h.findTypeId]
theorem FieldIso.queryTypeOrPanic : t.queryTypeOrPanic = s.queryTypeOrPanic := by
  simp [Schema.queryTypeOrPanic, h.queryType]

theorem FieldIso.typeName (id : TypeId) : t.typeName id = s.typeName id := by
  cases id <;> simp only [Schema.typeName, h.getObject, h.getInterface, h.getUnion, h.getEnum, h.getInput, h.getScalar]
  · cases s.getObject _ <;> rfl
  · cases s.getInterface _ <;> rfl

theorem FieldIso.implementors (i : Nat) : t.implementors i = s.implementors i := by
  rw [h.rest]
  simp only [Schema.implementors]
  generalize s.objects = os
  suffices ∀ k, (List.filter (fun x => x.1.implements.contains i) ((os.map (mapO ρ)).zipIdx k)).map (·.2) =
      (List.filter (fun x => x.1.implements.contains i) (os.zipIdx k)).map (·.2) from this 0
  induction os with
  | nil => intro k; rfl
  | cons o os ih =>
    intro k
    simp only [List.map_cons, List.zipIdx_cons, List.filter_cons, mapO]
    split <;> simp only [List.map_cons, ih]

end Acc

open Resolve

theorem except_map_map {ε α β γ} (x : Except ε α) (f : α → β) (g : β → γ) : (x.map f).map g = x.map (g ∘ f) := by
  cases x <;> rfl

section Res
variable {ρ : Nat → Nat} {s t : Schema} (h : FieldIso ρ s t)
include h

theorem getFieldByName_iso (fields : List Nat) (name : String) :
    getFieldByName t (fields.map ρ) name =
      (getFieldByName s fields name).map (Option.map fun (p : Nat × StoredField) => (ρ p.1, p.2)) := by
  have hm : (fields.map ρ).mapM (fun id => do pure (id, ← t.getField id)) =
      (fields.mapM (fun id => do pure (id, ← s.getField id))).map (List.map fun (p : Nat × StoredField) => (ρ p.1, p.2)) := by
    induction fields with
    | nil => rfl
    | cons i fields ih =>
      simp only [List.map_cons, List.mapM_cons, ih, h.getField]
      generalize List.mapM (fun id => do pure (id, ← s.getField id)) fields = M
      cases s.getField i <;> cases M <;> rfl
  unfold getFieldByName
  rw [hm]
  generalize List.mapM (fun id => do pure (id, ← s.getField id)) fields = M
  cases M with
  | error e => rfl
  | ok fs =>
    simp only [Except.map, bind, Except.bind, pure, Except.pure, List.find?_map]
    rfl


theorem map_field_comp (a : Option String) (fid : Nat) (x : Outcome (List Sel)) :
    (x.map (mapSels ρ)).map (Sel.field a (ρ fid)) = (x.map (Sel.field a fid)).map (mapSel ρ) := by
  cases x <;> rfl

theorem map_inline_comp (ty : TypeId) (x : Outcome (List Sel)) :
    (x.map (mapSels ρ)).map (Sel.inline ty) = (x.map (Sel.inline ty)).map (mapSel ρ) := by
  cases x <;> rfl

mutual
  theorem objSel_iso (q q' : Query) (hq : ∀ n, q'.findFragment n = q.findFragment n) :
      ∀ (x : QSel) (pname : String) (fields : List Nat),
        resolveObjectSel t q' pname (fields.map ρ) x = (resolveObjectSel s q pname fields x).map (mapSel ρ)
    | .field a name sub, pname, fields => by
      unfold resolveObjectSel
      split
      · split <;> rfl
      · rw [getFieldByName_iso h]
        cases getFieldByName s fields name with
        | error e => rfl
        | ok r =>
          cases r with
          | none => rfl
          | some p =>
            obtain ⟨fid, sf⟩ := p
            simp only [Except.map, Option.map]
            cases hty : sf.ty.id with
            | object oid =>
              simp only [h.getObject]
              cases s.getObject oid with
              | error e => rfl
              | ok o =>
                simp only [Except.map, mapO]
                rw [objSels_iso q q' hq sub o.name o.fields]
                exact map_field_comp h a fid _
            | interface iid =>
              simp only [h.getInterface]
              cases s.getInterface iid with
              | error e => rfl
              | ok o =>
                simp only [Except.map, mapI]
                rw [objSels_iso q q' hq sub o.name o.fields]
                exact map_field_comp h a fid _
            | union uid =>
              simp only []
              rw [unionSels_iso q q' hq sub]
              exact map_field_comp h a fid _
            | scalar i => simp only []; split <;> rfl
            | «enum» i => simp only []; split <;> rfl
            | input i => simp only []; split <;> rfl
    | .inline none sub, pname, fields => by unfold resolveObjectSel; rfl
    | .inline (some on) sub, pname, fields => by
      unfold resolveObjectSel
      simp only [h.findType]
      cases s.findType on with
      | none => rfl
      | some ty =>
        cases ty with
        | object oid =>
          simp only [h.getObject]
          cases s.getObject oid with
          | error e => rfl
          | ok o =>
            simp only [Except.map, mapO]
            rw [objSels_iso q q' hq sub o.name o.fields]
            exact map_inline_comp h _ _
        | interface iid =>
          simp only [h.getInterface]
          cases s.getInterface iid with
          | error e => rfl
          | ok o =>
            simp only [Except.map, mapI]
            rw [objSels_iso q q' hq sub o.name o.fields]
            exact map_inline_comp h _ _
        | union uid =>
          simp only []
          rw [unionSels_iso q q' hq sub]
          exact map_inline_comp h _ _
        | scalar i => simp only []; split <;> rfl
        | «enum» i => simp only []; split <;> rfl
        | input i => simp only []; split <;> rfl
    | .spread n, pname, fields => by
      unfold resolveObjectSel
      rw [hq]
      cases q.findFragment n <;> rfl
  theorem objSels_iso (q q' : Query) (hq : ∀ n, q'.findFragment n = q.findFragment n) :
      ∀ (xs : List QSel) (pname : String) (fields : List Nat),
        resolveObjectSels t q' pname (fields.map ρ) xs = (resolveObjectSels s q pname fields xs).map (mapSels ρ)
    | [], pname, fields => by unfold resolveObjectSels; rfl
    | x :: xs, pname, fields => by
      unfold resolveObjectSels
      rw [objSel_iso q q' hq x pname fields, objSels_iso q q' hq xs pname fields]
      cases resolveObjectSel s q pname fields x with
      | error e => rfl
      | ok a => cases resolveObjectSels s q pname fields xs <;> rfl
  theorem unionSel_iso (q q' : Query) (hq : ∀ n, q'.findFragment n = q.findFragment n) :
      ∀ (x : QSel), resolveUnionSel t q' x = (resolveUnionSel s q x).map (mapSel ρ)
    | .field a name sub => by
      unfold resolveUnionSel
      split
      · split <;> rfl
      · rfl
    | .inline none sub => by unfold resolveUnionSel; rfl
    | .inline (some on) sub => by
      unfold resolveUnionSel
      simp only [h.findType]
      cases s.findType on with
      | none => rfl
      | some ty =>
        cases ty with
        | object oid =>
          simp only [h.getObject]
          cases s.getObject oid with
          | error e => rfl
          | ok o =>
            simp only [Except.map, mapO]
            rw [objSels_iso q q' hq sub o.name o.fields]
            exact map_inline_comp h _ _
        | interface iid =>
          simp only [h.getInterface]
          cases s.getInterface iid with
          | error e => rfl
          | ok o =>
            simp only [Except.map, mapI]
            rw [objSels_iso q q' hq sub o.name o.fields]
            exact map_inline_comp h _ _
        | union uid =>
          simp only []
          rw [unionSels_iso q q' hq sub]
          exact map_inline_comp h _ _
        | scalar i => simp only []; split <;> rfl
        | «enum» i => simp only []; split <;> rfl
        | input i => simp only []; split <;> rfl
    | .spread n => by
      unfold resolveUnionSel
      rw [hq]
      cases q.findFragment n <;> rfl
  theorem unionSels_iso (q q' : Query) (hq : ∀ n, q'.findFragment n = q.findFragment n) :
      ∀ (xs : List QSel), resolveUnionSels t q' xs = (resolveUnionSels s q xs).map (mapSels ρ)
    | [] => by unfold resolveUnionSels; rfl
    | x :: xs => by
      unfold resolveUnionSels
      rw [unionSel_iso q q' hq x, unionSels_iso q q' hq xs]
      cases resolveUnionSel s q x with
      | error e => rfl
      | ok a => cases resolveUnionSels s q xs <;> rfl
end

end Res


variable (ρ : Nat → Nat)

mutual
  theorem selDepth'_map : ∀ x : Sel, selDepth' (mapSel ρ x) = selDepth' x
    | .field a fid sub => by simp only [mapSel, selDepth', selsDepth'_map sub]
    | .inline t sub => by simp only [mapSel, selDepth', selsDepth'_map sub]
    | .spread f => rfl
    | .typename => rfl
  theorem selsDepth'_map : ∀ l : List Sel, selsDepth' (mapSels ρ l) = selsDepth' l
    | [] => rfl
    | x :: xs => by simp only [mapSels, selsDepth', selDepth'_map x, selsDepth'_map xs]
end

mutual
  theorem selDepth_map : ∀ x : Sel, selDepth (mapSel ρ x) = selDepth x
    | .field a fid sub => by simp only [mapSel, selDepth, selsDepth_map sub]
    | .inline t sub => by simp only [mapSel, selDepth, selsDepth_map sub]
    | .spread f => rfl
    | .typename => rfl
  theorem selsDepth_map : ∀ l : List Sel, selsDepth (mapSels ρ l) = selsDepth l
    | [] => rfl
    | x :: xs => by simp only [mapSels, selsDepth, selDepth_map x, selsDepth_map xs]
end

mutual
  theorem selSize_map : ∀ x : Sel, selSize (mapSel ρ x) = selSize x
    | .field a fid sub => by simp only [mapSel, selSize, selsSize_map sub]
    | .inline t sub => by simp only [mapSel, selSize, selsSize_map sub]
    | .spread f => rfl
    | .typename => rfl
  theorem selsSize_map : ∀ l : List Sel, selsSize (mapSels ρ l) = selsSize l
    | [] => rfl
    | x :: xs => by simp only [mapSels, selsSize, selSize_map x, selsSize_map xs]
end

@[simp] theorem mapQ_fragments (q : Query) : (mapQ ρ q).fragments = q.fragments.map (mapFrag ρ) := rfl
@[simp] theorem mapQ_operations (q : Query) : (mapQ ρ q).operations = q.operations.map (mapOp ρ) := rfl
@[simp] theorem mapQ_variables (q : Query) : (mapQ ρ q).variables = q.variables := rfl
@[simp] theorem mapFrag_sels (f : RFragment) : (mapFrag ρ f).sels = mapSels ρ f.sels := rfl
@[simp] theorem mapFrag_on (f : RFragment) : (mapFrag ρ f).on = f.on := rfl
@[simp] theorem mapFrag_name (f : RFragment) : (mapFrag ρ f).name = f.name := rfl
@[simp] theorem mapOp_sels (f : ROperation) : (mapOp ρ f).sels = mapSels ρ f.sels := rfl
@[simp] theorem mapOp_name (f : ROperation) : (mapOp ρ f).name = f.name := rfl
@[simp] theorem mapOp_kind (f : ROperation) : (mapOp ρ f).kind = f.kind := rfl
@[simp] theorem mapOp_objectId (f : ROperation) : (mapOp ρ f).objectId = f.objectId := rfl

theorem walkFuel_map (q : Query) : walkFuel (mapQ ρ q) = walkFuel q := by
  simp [walkFuel, List.map_map, Function.comp_def, selsDepth_map]

theorem depthFuel_map (q : Query) : depthFuel (mapQ ρ q) = depthFuel q := by
  simp [depthFuel, List.map_map, Function.comp_def, selsDepth'_map]

theorem findFragment_map (q : Query) (n : String) : (mapQ ρ q).findFragment n = q.findFragment n := by
  simp [Query.findFragment, List.findIdx?_map, Function.comp_def]

theorem findOperation_map (q : Query) (n : String) : (mapQ ρ q).findOperation n = q.findOperation n := by
  simp [Query.findOperation, List.findIdx?_map, Function.comp_def]

theorem getFragment_map (q : Query) (i : Nat) : (mapQ ρ q).getFragment i = (q.getFragment i).map (mapFrag ρ) := by
  simp only [Query.getFragment, mapQ_fragments, List.getElem?_map]
  cases q.fragments[i]? <;> rfl

theorem getOperation_map (q : Query) (i : Nat) : (mapQ ρ q).getOperation i = (q.getOperation i).map (mapOp ρ) := by
  simp only [Query.getOperation, mapQ_operations, List.getElem?_map]
  cases q.operations[i]? <;> rfl

theorem opVariables_map (q : Query) (i : Nat) : (mapQ ρ q).opVariables i = q.opVariables i := rfl


variable (ρ : Nat → Nat)

theorem any_mapSels (l : List Sel) (p p' : Sel → Bool) (h : ∀ x ∈ l, p' (mapSel ρ x) = p x) :
    (mapSels ρ l).any p' = l.any p := by
  induction l with
  | nil => rfl
  | cons x l ih =>
    simp only [mapSels, List.any_cons, h x (by simp), ih fun y hy => h y (by simp [hy])]

theorem containsTypenameAux_map (q : Query) (fuel : Nat) : ∀ (parent : TypeId) (visited : List Nat) (sels : List Sel),
    containsTypenameAux (mapQ ρ q) parent fuel visited (mapSels ρ sels) = containsTypenameAux q parent fuel visited sels := by
  induction fuel with
  | zero => intro _ _ _; rfl
  | succ fuel ih =>
    intro parent visited sels
    unfold containsTypenameAux
    apply any_mapSels
    intro x _
    cases x with
    | field a fid sub => rfl
    | inline t sub => rfl
    | typename => rfl
    | spread fid =>
      simp only [mapSel, mapQ_fragments, List.getElem?_map]
      cases q.fragments[fid]? with
      | none => rfl
      | some f => simp only [Option.map_some, mapFrag_on, mapFrag_sels, ih]

theorem containsTypename_map (q : Query) (parent : TypeId) (sels : List Sel) :
    containsTypename (mapQ ρ q) parent (mapSels ρ sels) = containsTypename q parent sels := by
  simp [containsTypename, containsTypenameAux_map]

theorem foldl_mapSels {β} (l : List Sel) (f f' : β → Sel → β) (init : β) (h : ∀ b, ∀ x ∈ l, f' b (mapSel ρ x) = f b x) :
    (mapSels ρ l).foldl f' init = l.foldl f init := by
  induction l generalizing init with
  | nil => rfl
  | cons x l ih =>
    simp only [mapSels, List.foldl_cons, h init x (by simp)]
    exact ih _ fun b y hy => h b y (by simp [hy])

theorem rootFieldCount_map (q : Query) (fuel : Nat) : ∀ (visited : List Nat) (sels : List Sel),
    rootFieldCount (mapQ ρ q) fuel visited (mapSels ρ sels) = rootFieldCount q fuel visited sels := by
  induction fuel with
  | zero => intro _ _; rfl
  | succ fuel ih =>
    intro visited sels
    unfold rootFieldCount
    apply foldl_mapSels
    intro acc x _
    cases x with
    | field a fid sub => rfl
    | typename => rfl
    | inline t sub => simp only [mapSel, ih]
    | spread fid =>
      simp only [mapSel, mapQ_fragments, List.getElem?_map]
      cases q.fragments[fid]? with
      | none => rfl
      | some f => simp only [Option.map_some, mapFrag_sels, ih]

theorem reachesFragment_map (q : Query) (target : Nat) (fuel : Nat) : ∀ (visited : List Nat) (sels : List Sel),
    reachesFragment (mapQ ρ q) target fuel visited (mapSels ρ sels) = reachesFragment q target fuel visited sels := by
  induction fuel with
  | zero => intro _ _; rfl
  | succ fuel ih =>
    intro visited sels
    unfold reachesFragment
    apply foldl_mapSels
    intro acc x _
    cases x with
    | field a fid sub => simp only [mapSel, ih]
    | typename => rfl
    | inline t sub => simp only [mapSel, ih]
    | spread fid =>
      simp only [mapSel, mapQ_fragments, List.getElem?_map]
      cases q.fragments[fid]? with
      | none => rfl
      | some f => simp only [Option.map_some, mapFrag_sels, ih]

theorem fragmentIsRecursive_map (q : Query) (fid : Nat) :
    fragmentIsRecursive (mapQ ρ q) fid = fragmentIsRecursive q fid := by
  simp only [fragmentIsRecursive, mapQ_fragments, List.getElem?_map, walkFuel_map]
  cases q.fragments[fid]? with
  | none => rfl
  | some f => simp only [Option.map_some, mapFrag_sels, reachesFragment_map]

theorem validateSubscriptions_map (q : Query) : validateSubscriptions (mapQ ρ q) = validateSubscriptions q := by
  unfold validateSubscriptions
  simp only [mapQ_operations, List.forIn_map, mapOp_kind, mapOp_sels, depthFuel_map, rootFieldCount_map]


section
variable {ρ : Nat → Nat} {s t : Schema} (h : FieldIso ρ s t)
include h

mutual
  theorem fieldsHaveTypename_iso (q : Query) : ∀ x : Sel,
      fieldsHaveTypename t (mapQ ρ q) (mapSel ρ x) = fieldsHaveTypename s q x
    | .field a fid sub => by
      simp only [mapSel, fieldsHaveTypename, h.getField, containsTypename_map, fieldsHaveTypenameList_iso q sub]
    | .inline ty sub => by simp only [mapSel, fieldsHaveTypename, fieldsHaveTypenameList_iso q sub]
    | .spread f => rfl
    | .typename => rfl
  theorem fieldsHaveTypenameList_iso (q : Query) : ∀ l : List Sel,
      fieldsHaveTypenameList t (mapQ ρ q) (mapSels ρ l) = fieldsHaveTypenameList s q l
    | [] => rfl
    | x :: xs => by
      simp only [mapSels, fieldsHaveTypenameList, fieldsHaveTypename_iso q x, fieldsHaveTypenameList_iso q xs]
end

theorem validateTypenamePresence_iso (q : Query) :
    validateTypenamePresence t (mapQ ρ q) = validateTypenamePresence s q := by
  unfold validateTypenamePresence
  simp only [mapQ_fragments, mapQ_operations, List.forIn_map, mapFrag_on, mapFrag_sels, mapFrag_name, mapOp_sels,
    containsTypename_map, fieldsHaveTypenameList_iso h]

theorem conditionOk_iso (parent selected : TypeId) : conditionOk t parent selected = conditionOk s parent selected := by
  unfold conditionOk
  split
  · rfl
  · cases parent with
    | union uid => simp only [h.getUnion]
    | interface iid => simp only [h.implementors]
    | object oid =>
      simp only [h.getObject, h.getUnion]
      cases s.getObject oid with
      | error e => rfl
      | ok o => rfl
    | scalar _ => rfl
    | «enum» _ => rfl
    | input _ => rfl

mutual
  theorem typeConditions_iso (q : Query) : ∀ (x : Sel) (parent : TypeId),
      typeConditions t (mapQ ρ q) parent (mapSel ρ x) = typeConditions s q parent x
    | .field a fid sub, parent => by
      simp only [mapSel, typeConditions, h.getField]
      cases s.getField fid with
      | error e => rfl
      | ok f => simp only [bind, Except.bind, typeConditionsList_iso q sub]
    | .inline ty sub, parent => by
      simp only [mapSel, typeConditions, conditionOk_iso h, typeConditionsList_iso q sub]
    | .spread f, parent => by
      simp only [mapSel, typeConditions, getFragment_map, conditionOk_iso h]
      cases q.getFragment f <;> rfl
    | .typename, parent => rfl
  theorem typeConditionsList_iso (q : Query) : ∀ (l : List Sel) (parent : TypeId),
      typeConditionsList t (mapQ ρ q) parent (mapSels ρ l) = typeConditionsList s q parent l
    | [], parent => rfl
    | x :: xs, parent => by
      simp only [mapSels, typeConditionsList, typeConditions_iso q x, typeConditionsList_iso q xs]
end

theorem validateTypeConditions_iso (q : Query) :
    validateTypeConditions t (mapQ ρ q) = validateTypeConditions s q := by
  unfold validateTypeConditions
  simp only [mapQ_fragments, mapQ_operations, List.forIn_map, mapFrag_on, mapFrag_sels, mapOp_sels, mapOp_objectId,
    typeConditionsList_iso h]

end

theorem mapSels_append (ρ : Nat → Nat) (a b : List Sel) : mapSels ρ (a ++ b) = mapSels ρ a ++ mapSels ρ b := by
  simp [mapSels_eq_map]

section
variable {ρ : Nat → Nat} {s t : Schema} (h : FieldIso ρ s t)
include h

theorem resolveSelection_iso (q q' : Query) (hq : ∀ n, q'.findFragment n = q.findFragment n) (on : TypeId)
    (sels : List QSel) :
    resolveSelection t q' on sels = (resolveSelection s q on sels).map (mapSels ρ) := by
  unfold resolveSelection
  cases on with
  | object oid =>
    simp only [h.getObject]
    cases s.getObject oid with
    | error e => rfl
    | ok o => exact objSels_iso h q q' hq sels o.name o.fields
  | interface iid =>
    simp only [h.getInterface]
    cases s.getInterface iid with
    | error e => rfl
    | ok o => exact objSels_iso h q q' hq sels o.name o.fields
  | union uid => exact unionSels_iso h q q' hq sels
  | scalar _ => simp only []; split <;> rfl
  | «enum» _ => simp only []; split <;> rfl
  | input _ => simp only []; split <;> rfl

theorem resolveVariables_iso (op : Nat) (vars : List VarDef) : resolveVariables t op vars = resolveVariables s op vars := by
  simp only [resolveVariables, h.resolveFieldType]

def opRoot (s : Schema) : OpKind → Outcome Nat
  | .query => s.queryTypeOrPanic
  | .mutation => match s.mutationType with
    | some m => pure m
    | none => fail' "Query contains a mutation operation, but the schema has no mutation type."
  | .subscription => match s.subscriptionType with
    | some m => pure m
    | none => fail' "Query contains a subscription operation, but the schema has no subscription type."

def opBody (s : Schema) (q : Query) (name : Option String) (vars : List VarDef) (sels : List QSel) (on : Nat) :
    Outcome Query := do
  let o ← s.getObject on
  let n ← match name with | some n => pure n | none => panic' "unwrap on operation name"
  let id ← match q.findOperation n with | some i => pure i | none => panic' "find_operation unwrap"
  let vs ← resolveVariables s id vars
  let q := { q with variables := q.variables ++ vs }
  let rs ← resolveObjectSels s q o.name o.fields sels
  match q.operations[id]? with
  | none => panic' "get operation"
  | some op => pure { q with operations := q.operations.set id { op with sels := op.sels ++ rs } }

omit h in
theorem resolveDef_op_eq (s : Schema) (q : Query) (kind : OpKind) (name : Option String) (vars : List VarDef)
    (sels : List QSel) :
    resolveDef s q (.op kind name vars sels) = opRoot s kind >>= opBody s q name vars sels := by
  cases kind
  · rfl
  · simp only [resolveDef, opRoot]; cases s.mutationType <;> rfl
  · simp only [resolveDef, opRoot]; cases s.subscriptionType <;> rfl

theorem opRoot_iso (kind : OpKind) : opRoot t kind = opRoot s kind := by
  cases kind <;> simp only [opRoot, h.queryTypeOrPanic, h.mutationType, h.subscriptionType]

theorem opBody_iso (q : Query) (name : Option String) (vars : List VarDef) (sels : List QSel) (on : Nat) :
    opBody t (mapQ ρ q) name vars sels on = (opBody s q name vars sels on).map (mapQ ρ) := by
  simp only [opBody, h.getObject, findOperation_map, resolveVariables_iso h]
  cases s.getObject on with
  | error e => rfl
  | ok o =>
    cases name with
    | none => rfl
    | some n =>
      cases hfo : q.findOperation n with
      | none => simp only [Except.map, bind, Except.bind, pure, Except.pure, hfo]; rfl
      | some id =>
        simp only [Except.map, bind, Except.bind, pure, Except.pure, hfo]
        cases resolveVariables s id vars with
        | error e => rfl
        | ok vs =>
          simp only [mapO]
          rw [objSels_iso h { q with variables := q.variables ++ vs }
            { mapQ ρ q with variables := (mapQ ρ q).variables ++ vs } (fun n => findFragment_map ρ q n) sels o.name o.fields]
          cases resolveObjectSels s { q with variables := q.variables ++ vs } o.name o.fields sels with
          | error e => rfl
          | ok rs =>
            simp only [Except.map, mapQ_operations, List.getElem?_map]
            cases q.operations[id]? with
            | none => rfl
            | some op =>
              simp only [Option.map_some, mapQ, List.map_set, mapOp, mapSels_append]

theorem resolveDef_iso (q : Query) (d : QDef) : resolveDef t (mapQ ρ q) d = (resolveDef s q d).map (mapQ ρ) := by
  cases d with
  | selset sels => rfl
  | frag name on sels =>
    simp only [resolveDef, h.findType, findFragment_map]
    cases s.findType on with
    | none => rfl
    | some ty =>
      cases q.findFragment name with
      | none => rfl
      | some id =>
        simp only []
        rw [resolveSelection_iso h q (mapQ ρ q) (findFragment_map ρ q) ty sels]
        cases resolveSelection s q ty sels with
        | error e => rfl
        | ok rs =>
          simp only [Except.map, bind, Except.bind, mapQ_fragments, List.getElem?_map]
          cases q.fragments[id]? with
          | none => rfl
          | some f =>
            simp only [Option.map_some, pure, Except.pure, mapQ, List.map_set, mapFrag, mapSels_append]
  | op kind name vars sels =>
    rw [resolveDef_op_eq, resolveDef_op_eq, opRoot_iso h]
    cases opRoot s kind with
    | error e => rfl
    | ok on => exact opBody_iso h q name vars sels on

end

section
variable {ρ : Nat → Nat} {s t : Schema} (h : FieldIso ρ s t)
include h

theorem createRoots_iso (doc : QDoc) (q : Query) :
    createRoots t doc (mapQ ρ q) = (createRoots s doc q).map (mapQ ρ) := by
  induction doc generalizing q with
  | nil => rfl
  | cons d doc ih =>
    cases d with
    | selset sels => rfl
    | frag name on sels =>
      simp only [createRoots, findFragment_map, h.findType]
      split
      · rfl
      · cases s.findType on with
        | none => rfl
        | some ty =>
          simp only []
          rw [← ih]
          congr 1; simp [mapQ, mapFrag, mapSels]
    | op kind name vars sels =>
      cases kind with
      | query =>
        simp only [createRoots, h.queryTypeOrPanic, findOperation_map]
        cases s.queryTypeOrPanic with
        | error e => rfl
        | ok on =>
          cases name with
          | none => rfl
          | some n =>
            simp only [bind, Except.bind]
            split
            · rfl
            · rw [← ih]; congr 1; simp [mapQ, mapOp, mapSels]
      | mutation =>
        simp only [createRoots, h.mutationType, findOperation_map]
        cases s.mutationType with
        | none => rfl
        | some on =>
          cases name with
          | none => rfl
          | some n =>
            simp only []
            split
            · rfl
            · rw [← ih]; congr 1; simp [mapQ, mapOp, mapSels]
      | subscription =>
        simp only [createRoots, h.subscriptionType, findOperation_map]
        cases s.subscriptionType with
        | none => rfl
        | some on =>
          simp only []
          split
          · rfl
          · cases name with
            | none => rfl
            | some n =>
              simp only []
              split
              · rfl
              · rw [← ih]; congr 1; simp [mapQ, mapOp, mapSels]

theorem foldlM_resolveDef_iso (doc : QDoc) (q : Query) :
    doc.foldlM (resolveDef t) (mapQ ρ q) = (doc.foldlM (resolveDef s) q).map (mapQ ρ) := by
  induction doc generalizing q with
  | nil => rfl
  | cons d doc ih =>
    simp only [List.foldlM_cons, resolveDef_iso h]
    cases resolveDef s q d with
    | error e => rfl
    | ok q2 => exact ih q2

/-- **`Resolve.resolve` commutes with the renumbering of the field ids** -/
theorem resolve_iso (doc : QDoc) : resolve t doc = (resolve s doc).map (mapQ ρ) := by
  unfold resolve
  have h0 := createRoots_iso h doc {}
  rw [show mapQ ρ ({} : Query) = {} from rfl] at h0
  rw [h0]
  cases createRoots s doc {} with
  | error e => rfl
  | ok q0 =>
    simp only [Except.map, bind, Except.bind, foldlM_resolveDef_iso h]
    cases List.foldlM (resolveDef s) q0 doc with
    | error e => rfl
    | ok q =>
      simp only [validateTypenamePresence_iso h, validateSubscriptions_map, validateTypeConditions_iso h]
      cases validateTypenamePresence s q with
      | error e => rfl
      | ok _ =>
        cases validateSubscriptions q with
        | error e => rfl
        | ok _ => cases validateTypeConditions s q <;> rfl

end

theorem foldlM_mapSels {β} (l : List Sel) (f f' : β → Sel → Outcome β) (init : β) (ρ : Nat → Nat)
    (h : ∀ b, ∀ x ∈ l, f' b (mapSel ρ x) = f b x) :
    (mapSels ρ l).foldlM f' init = l.foldlM f init := by
  induction l generalizing init with
  | nil => rfl
  | cons x l ih =>
    simp only [mapSels, List.foldlM_cons, h init x (by simp)]
    cases f init x with
    | error e => rfl
    | ok b => exact ih _ fun b y hy => h b y (by simp [hy])

section
variable {ρ : Nat → Nat} {s t : Schema} (h : FieldIso ρ s t)
include h

theorem usedInputIds_iso (fuel : Nat) : ∀ (u : UsedTypes) (i : StoredInput), usedInputIds t fuel u i = usedInputIds s fuel u i := by
  induction fuel with
  | zero => intro _ _; rfl
  | succ fuel ih =>
    intro u i
    simp only [usedInputIds, h.getInput, ih]

theorem collectVar_iso (u : UsedTypes) (v : RVariable) : collectVar t u v = collectVar s u v := by
  simp only [collectVar, h.getInput, h.inputs, usedInputIds_iso h]

theorem collectSel_iso (q : Query) (fuel : Nat) : ∀ (u : UsedTypes) (x : Sel),
    collectSel t (mapQ ρ q) fuel u (mapSel ρ x) = collectSel s q fuel u x := by
  induction fuel with
  | zero => intro _ _; rfl
  | succ fuel ih =>
    intro u x
    cases x with
    | field a fid sub =>
      simp only [mapSel, collectSel, h.getField]
      cases s.getField fid with
      | error e => rfl
      | ok f =>
        simp only [bind, Except.bind]
        exact foldlM_mapSels _ _ _ _ ρ fun b y _ => ih b y
    | inline ty sub =>
      simp only [mapSel, collectSel]
      exact foldlM_mapSels _ _ _ _ ρ fun b y _ => ih b y
    | spread fid =>
      simp only [mapSel, collectSel, getFragment_map]
      split
      · rfl
      · cases q.getFragment fid with
        | error e => rfl
        | ok f =>
          simp only [Except.map, bind, Except.bind, mapFrag_sels]
          exact foldlM_mapSels _ _ _ _ ρ fun b y _ => ih b y
    | typename => rfl

theorem allUsedTypes_iso (q : Query) (op : Nat) : allUsedTypes t (mapQ ρ q) op = allUsedTypes s q op := by
  simp only [allUsedTypes, getOperation_map, walkFuel_map, opVariables_map]
  cases q.getOperation op with
  | error e => rfl
  | ok o =>
    simp only [Except.map, bind, Except.bind, mapOp_sels]
    rw [foldlM_mapSels o.sels (collectSel s q (walkFuel q)) _ _ ρ fun b y _ => collectSel_iso h q _ b y]
    have : collectVar t = collectVar s := by funext u v; exact collectVar_iso h u v
    rw [this]

theorem containsWithoutIndirection_iso (target fuel : Nat) : ∀ (visited : List String) (i : StoredInput),
    containsWithoutIndirection t target fuel visited i = containsWithoutIndirection s target fuel visited i := by
  induction fuel with
  | zero => intro _ _; rfl
  | succ fuel ih =>
    intro visited i
    simp only [containsWithoutIndirection, h.inputs, ih]

theorem inputIsRecursive_iso (iid : Nat) : inputIsRecursive t iid = inputIsRecursive s iid := by
  simp only [inputIsRecursive, h.inputs, containsWithoutIndirection_iso h]

theorem variantsOf_iso (ty : TypeId) : variantsOf t ty = variantsOf s ty := by
  cases ty <;> simp only [variantsOf, h.implementors, h.getUnion]

end

def mapVSel (ρ : Nat → Nat) : VariantSel → VariantSel
  | .inline ty sub => .inline ty (mapSels ρ sub)
  | .spread fid f => .spread fid (mapFrag ρ f)

@[simp] theorem mapVSel_typeId (ρ : Nat → Nat) (v : VariantSel) : (mapVSel ρ v).typeId = v.typeId := by
  cases v <;> rfl

theorem variantSelOf_map (ρ : Nat → Nat) (q : Query) (ty : TypeId) (x : Sel) :
    variantSelOf (mapQ ρ q) ty (mapSel ρ x) = (variantSelOf q ty x).map (Option.map (mapVSel ρ)) := by
  cases x with
  | field a fid sub => rfl
  | inline t sub => rfl
  | typename => rfl
  | spread fid =>
    simp only [mapSel, variantSelOf, getFragment_map]
    cases q.getFragment fid with
    | error e => rfl
    | ok f =>
      simp only [Except.map, bind, Except.bind, pure, Except.pure]
      by_cases hb : (f.on == ty) = true
      · have hb' : ((mapFrag ρ f).on == ty) = true := hb
        rw [if_pos hb, if_pos hb']; rfl
      · have hb' : ¬ ((mapFrag ρ f).on == ty) = true := hb
        rw [if_neg hb, if_neg hb']; rfl

theorem filterMapM_variantSelOf_map (ρ : Nat → Nat) (q : Query) (ty : TypeId) (sels : List Sel) :
    (mapSels ρ sels).filterMapM (variantSelOf (mapQ ρ q) ty) =
      (sels.filterMapM (variantSelOf q ty)).map (List.map (mapVSel ρ)) := by
  induction sels with
  | nil => rfl
  | cons x xs ih =>
    rw [mapSels, List.filterMapM_cons, List.filterMapM_cons, variantSelOf_map, ih]
    cases variantSelOf q ty x with
    | error e => rfl
    | ok r =>
      cases r with
      | none => rfl
      | some v => cases List.filterMapM (variantSelOf q ty) xs <;> rfl


/-- the context with the renumbered schema and query -/
def mapC (ρ : Nat → Nat) (t : Schema) (c : Ctx) : Ctx := { c with s := t, q := mapQ ρ c.q }

@[simp] theorem mapC_s (ρ : Nat → Nat) (t : Schema) (c : Ctx) : (mapC ρ t c).s = t := rfl
@[simp] theorem mapC_q (ρ : Nat → Nat) (t : Schema) (c : Ctx) : (mapC ρ t c).q = mapQ ρ c.q := rfl
@[simp] theorem mapC_o (ρ : Nat → Nat) (t : Schema) (c : Ctx) : (mapC ρ t c).o = c.o := rfl
@[simp] theorem mapC_cs (ρ : Nat → Nat) (t : Schema) (c : Ctx) : (mapC ρ t c).cs = c.cs := rfl

theorem renderField_mapC (ρ : Nat → Nat) (t : Schema) (c : Ctx) : renderField (mapC ρ t c) = renderField c := rfl
theorem renderType_mapC (ρ : Nat → Nat) (t : Schema) (c : Ctx) : renderType (mapC ρ t c) = renderType c := rfl
theorem aliasMember_mapC (ρ : Nat → Nat) (t : Schema) (c : Ctx) : aliasMember (mapC ρ t c) = aliasMember c := rfl

theorem mapSels_single (ρ : Nat → Nat) (sub : List Sel) (g : Nat) : mapSels ρ sub = [Sel.spread g] ↔ sub = [Sel.spread g] := by
  cases sub with
  | nil => simp [mapSels]
  | cons x xs =>
    cases xs with
    | nil => cases x <;> simp [mapSels, mapSel]
    | cons y ys => simp [mapSels]

theorem filter_mapVSel (ρ : Nat → Nat) (vsels : List VariantSel) (vt : TypeId) :
    (vsels.map (mapVSel ρ)).filter (fun v => v.typeId == vt) = (vsels.filter (fun v => v.typeId == vt)).map (mapVSel ρ) := by
  rw [List.filter_map]
  congr 1
  apply List.filter_congr
  intro v _
  simp

/-- (P41) whether a selection pushes a field for the struct of type `vt` does not depend on the field ids -/
theorem selPushes_map (ρ : Nat → Nat) (q : Query) (vt : TypeId) (x : Sel) :
    selPushes (mapQ ρ q) vt (mapSel ρ x) = selPushes q vt x := by
  cases x with
  | field a fid sub => rw [mapSel]; rfl
  | spread g =>
    rw [mapSel]
    simp only [selPushes, mapQ_fragments, List.getElem?_map]
    cases q.fragments[g]? <;> rfl
  | inline t' sub => rw [mapSel]; rfl
  | typename => rfl

/-- (P41) `has_fields` of a variant struct is invariant under the renaming of field ids -/
theorem pushedAny_map (ρ : Nat → Nat) (q : Query) (vt : TypeId) : ∀ mine : List VariantSel,
    pushedAny (mapQ ρ q) vt (mine.map (mapVSel ρ)) = pushedAny q vt mine
  | [] => rfl
  | .spread g fr :: rest => by
    rw [List.map_cons, mapVSel, Pushed.pushedAny_spread, Pushed.pushedAny_spread]
  | .inline t' sub :: rest => by
    rw [List.map_cons, mapVSel]
    by_cases hsp : ∃ g, sub = [Sel.spread g]
    · obtain ⟨g, rfl⟩ := hsp
      rw [show mapSels ρ [Sel.spread g] = [Sel.spread g] from rfl, Pushed.pushedAny_inline_lone,
        Pushed.pushedAny_inline_lone, pushedAny_map ρ q vt rest]
    · rw [Pushed.pushedAny_inline _ _ _ _ (fun g hg => hsp ⟨g, (mapSels_single ρ sub g).1 hg⟩),
        Pushed.pushedAny_inline _ _ _ _ (fun g hg => hsp ⟨g, hg⟩), pushedAny_map ρ q vt rest, mapSels_eq_map,
        List.any_map]
      congr 2
      funext x
      exact selPushes_map ρ q vt x

section
variable {ρ : Nat → Nat} {t : Schema} (c : Ctx) (h : FieldIso ρ c.s t)

def I1 (fuel : Nat) : Prop := ∀ name pfx ty sels,
  calcSelection (mapC ρ t c) fuel name pfx ty (mapSels ρ sels) = calcSelection c fuel name pfx ty sels
def I2 (fuel : Nat) : Prop := ∀ name pfx vsels vts,
  calcVariants (mapC ρ t c) fuel name pfx (vsels.map (mapVSel ρ)) vts = calcVariants c fuel name pfx vsels vts
def I3 (fuel : Nat) : Prop := ∀ sname pfx vt mine,
  calcVariantSels (mapC ρ t c) fuel sname pfx vt (mine.map (mapVSel ρ)) = calcVariantSels c fuel sname pfx vt mine
def I4 (fuel : Nat) : Prop := ∀ pfx ty sels,
  calcFields (mapC ρ t c) fuel pfx ty (mapSels ρ sels) = calcFields c fuel pfx ty sels

include h

theorem istep4 (f : Nat) (H1 : I1 (ρ := ρ) (t := t) c f) (H4 : I4 (ρ := ρ) (t := t) c f) : I4 (ρ := ρ) (t := t) c (f + 1) := by
  intro pfx ty sels
  cases sels with
  | nil => rw [mapSels, calcFields.eq_2 _ _ _ _ (by omega), calcFields.eq_2 _ _ _ _ (by omega)]
  | cons x rest =>
    cases x with
    | field a fid sub =>
      rw [mapSels, mapSel, calcFields.eq_3, calcFields.eq_3]
      simp only [mapC_s, mapC_o, mapC_cs, h.getField, h.getEnum, h.getScalar, renderField_mapC, H1 _ _ _ sub, H4 _ _ rest]
    | spread g =>
      rw [mapSels, mapSel, calcFields.eq_4, calcFields.eq_4]
      simp only [mapC_q, mapC_cs, getFragment_map, renderField_mapC, H4 _ _ rest, fragmentIsRecursive_map]
      cases c.q.getFragment g with
      | error e => rfl
      | ok fr => rfl
    | inline t' sub =>
      rw [mapSels, mapSel, calcFields.eq_5 _ _ _ _ _ _ (by simp) (by simp), calcFields.eq_5 _ _ _ _ _ _ (by simp) (by simp)]
      exact H4 _ _ rest
    | typename =>
      rw [mapSels, mapSel, calcFields.eq_5 _ _ _ _ _ _ (by simp) (by simp), calcFields.eq_5 _ _ _ _ _ _ (by simp) (by simp)]
      exact H4 _ _ rest


theorem istep3 (f : Nat) (H3 : I3 (ρ := ρ) (t := t) c f) (H4 : I4 (ρ := ρ) (t := t) c f) : I3 (ρ := ρ) (t := t) c (f + 1) := by
  intro sname pfx vt mine
  cases mine with
  | nil => rw [List.map_nil, calcVariantSels.eq_2 _ _ _ _ _ (by omega), calcVariantSels.eq_2 _ _ _ _ _ (by omega)]
  | cons x rest =>
    cases x with
    | spread g fr =>
      rw [List.map_cons, mapVSel, calcVariantSels.eq_5, calcVariantSels.eq_5]
      simp only [mapC_q, mapC_cs, renderField_mapC, mapFrag_name, fragmentIsRecursive_map, H3 _ _ _ rest]
    | inline t' sub =>
      rw [List.map_cons, mapVSel]
      by_cases hsp : ∃ g, sub = [Sel.spread g]
      · obtain ⟨g, rfl⟩ := hsp
        rw [show mapSels ρ [Sel.spread g] = [Sel.spread g] from rfl, calcVariantSels.eq_3, calcVariantSels.eq_3]
        simp only [mapC_s, mapC_q, h.typeName, getFragment_map, fragmentIsRecursive_map, H3 _ _ _ rest]
        cases c.s.typeName t' with
        | error e => rfl
        | ok tn => cases c.q.getFragment g <;> rfl
      · rw [calcVariantSels.eq_4 _ _ _ _ _ _ _ _ (fun g hg => hsp ⟨g, (mapSels_single ρ sub g).1 hg⟩),
          calcVariantSels.eq_4 _ _ _ _ _ _ _ _ (fun g hg => hsp ⟨g, hg⟩)]
        simp only [mapC_s, mapC_cs, h.typeName, H3 _ _ _ rest, H4 _ _ sub]

theorem istep2 (f : Nat) (H2 : I2 (ρ := ρ) (t := t) c f) (H3 : I3 (ρ := ρ) (t := t) c f) : I2 (ρ := ρ) (t := t) c (f + 1) := by
  intro name pfx vsels vts
  cases vts with
  | nil => rw [calcVariants.eq_2 _ _ _ _ _ (by omega), calcVariants.eq_2 _ _ _ _ _ (by omega)]
  | cons vt rest =>
    rw [calcVariants.eq_3, calcVariants.eq_3]
    simp only [mapC_s, mapC_q, h.typeName, filter_mapVSel, pushedAny_map, H2 _ _ vsels rest, renderType_mapC, aliasMember_mapC]
    cases c.s.typeName vt with
    | error e => rfl
    | ok vname =>
      simp only [bind, Except.bind]
      generalize vsels.filter (fun v => v.typeId == vt) = mine
      cases mine with
      | nil => rfl
      | cons v tail =>
        cases v with
        | spread g fr =>
          cases tail with
          | nil => simp only [List.map_cons, List.map_nil, mapVSel, mapFrag_name, fragmentIsRecursive_map]
          | cons v2 tail2 =>
            have := H3 (pfx ++ "On" ++ vname) pfx vt (VariantSel.spread g fr :: v2 :: tail2)
            simp only [List.map_cons, mapVSel] at this ⊢
            simp only [this]
        | inline t' sub =>
          have := H3 (pfx ++ "On" ++ vname) pfx vt (VariantSel.inline t' sub :: tail)
          simp only [List.map_cons, mapVSel] at this ⊢
          simp only [this]


theorem istep1 (f : Nat) (H2 : I2 (ρ := ρ) (t := t) c f) (H4 : I4 (ρ := ρ) (t := t) c f) : I1 (ρ := ρ) (t := t) c (f + 1) := by
  intro name pfx ty sels
  by_cases hsp : ∃ g, sels = [Sel.spread g]
  · obtain ⟨g, rfl⟩ := hsp
    rw [show mapSels ρ [Sel.spread g] = [Sel.spread g] from rfl, calcSelection.eq_2, calcSelection.eq_2]
    simp only [mapC_q, getFragment_map, fragmentIsRecursive_map]
    cases c.q.getFragment g <;> rfl
  · rw [calcSelection.eq_3 _ _ _ _ _ _ (fun g hg => hsp ⟨g, (mapSels_single ρ sels g).1 hg⟩),
      calcSelection.eq_3 _ _ _ _ _ _ (fun g hg => hsp ⟨g, hg⟩)]
    simp only [mapC_s, mapC_q, mapC_o, variantsOf_iso h, filterMapM_variantSelOf_map, H4 _ _ sels, renderType_mapC]
    cases variantsOf c.s ty with
    | error e => rfl
    | ok variants =>
      cases variants with
      | none => rfl
      | some vts =>
        simp only [bind, Except.bind]
        cases List.filterMapM (variantSelOf c.q ty) sels with
        | error e => rfl
        | ok vsels => simp only [Except.map, H2 _ _ vsels vts]; rfl

theorem calc_iso : ∀ fuel, I1 (ρ := ρ) (t := t) c fuel ∧ I2 (ρ := ρ) (t := t) c fuel ∧
    I3 (ρ := ρ) (t := t) c fuel ∧ I4 (ρ := ρ) (t := t) c fuel := by
  intro fuel
  induction fuel with
  | zero =>
    refine ⟨?_, ?_, ?_, ?_⟩
    · intro _ _ _ _; rw [calcSelection.eq_1, calcSelection.eq_1]
    · intro _ _ _ _; rw [calcVariants.eq_1, calcVariants.eq_1]
    · intro _ _ _ _; rw [calcVariantSels.eq_1, calcVariantSels.eq_1]
    · intro _ _ _; rw [calcFields.eq_1, calcFields.eq_1]
  | succ f ih =>
    obtain ⟨H1, H2, H3, H4⟩ := ih
    exact ⟨istep1 c h f H2 H4, istep2 c h f H2 H3, istep3 c h f H3 H4, istep4 c h f H1 H4⟩

theorem calcFuel_iso : calcFuel t (mapQ ρ c.q) = calcFuel c.s c.q := by
  simp only [calcFuel, walkFuel_map, h.objects_length, h.unions, mapQ_fragments, mapQ_operations, List.map_map,
    Function.comp_def, mapFrag_sels, mapOp_sels, selsSize_map]

theorem responseItems_iso (op : ROperation) : responseItems (mapC ρ t c) (mapOp ρ op) = responseItems c op := by
  simp only [responseItems, mapC_s, mapC_q, mapC_cs, calcFuel_iso c h, mapOp_name, mapOp_objectId, mapOp_sels]
  exact (calc_iso c h _).1 _ _ _ _

theorem fragmentItems_iso (fid : Nat) : fragmentItems (mapC ρ t c) fid = fragmentItems c fid := by
  simp only [fragmentItems, mapC_s, mapC_q, mapC_cs, calcFuel_iso c h, getFragment_map]
  cases c.q.getFragment fid with
  | error e => rfl
  | ok f => exact (calc_iso c h _).1 _ _ _ _

end

section
variable {ρ : Nat → Nat} {t : Schema} (c : Ctx) (h : FieldIso ρ c.s t)
include h

theorem inputFieldType_iso (ty : FieldType) (quals : List Qual) :
    inputFieldType (mapC ρ t c) ty quals = inputFieldType c ty quals := by
  simp only [inputFieldType, mapC_s, mapC_o, mapC_cs, h.typeName, inputIsRecursive_iso h]

theorem inputItem_iso (i : StoredInput) : inputItem (mapC ρ t c) i = inputItem c i := by
  have : inputFieldType (mapC ρ t c) = inputFieldType c := by
    funext ty quals; exact inputFieldType_iso c h ty quals
  simp only [inputItem, mapC_o, mapC_cs, this]
  rfl

theorem variableType_iso (v : RVariable) : variableType (mapC ρ t c) v = variableType c v := by
  simp only [variableType, mapC_s, mapC_o, mapC_cs, h.typeName]

theorem literalOk_iso (fuel : Nat) : ∀ (v : Value) (ty : TypeId) (quals : List Qual),
    literalOk t fuel v ty quals = literalOk c.s fuel v ty quals := by
  induction fuel with
  | zero => intro _ _ _; rfl
  | succ fuel ih =>
    intro v ty quals
    cases v <;> simp only [literalOk, h.getInput, ih]

theorem variablesItems_iso (op : Nat) : variablesItems (mapC ρ t c) op = variablesItems c op := by
  have h1 : variableType (mapC ρ t c) = variableType c := by funext v; exact variableType_iso c h v
  have h2 : literalOk t = literalOk c.s := by funext f v ty quals; exact literalOk_iso c h f v ty quals
  simp only [variablesItems, mapC_s, mapC_q, mapC_o, mapC_cs, opVariables_map, h1, h2]
  rfl

theorem scalarItems_iso (u : UsedTypes) : scalarItems (mapC ρ t c) u = scalarItems c u := by
  have : t.getScalar = c.s.getScalar := by funext i; exact h.getScalar i
  simp only [scalarItems, mapC_s, mapC_o, mapC_cs, this]

theorem enumItems_iso (u : UsedTypes) : enumItems (mapC ρ t c) u = enumItems c u := by
  have : t.getEnum = c.s.getEnum := by funext i; exact h.getEnum i
  simp only [enumItems, mapC_s, mapC_o, this]
  rfl

theorem inputItems_iso (u : UsedTypes) : inputItems (mapC ρ t c) u = inputItems c u := by
  have : inputItem (mapC ρ t c) = inputItem c := by funext i; exact inputItem_iso c h i
  simp only [inputItems, mapC_s, h.inputs, this]

theorem responseForQuery_iso (op : Nat) : responseForQuery (mapC ρ t c) op = responseForQuery c op := by
  have hf : fragmentItems (mapC ρ t c) = fragmentItems c := by funext i; exact fragmentItems_iso c h i
  simp only [responseForQuery, mapC_s, mapC_q, allUsedTypes_iso h, scalarItems_iso c h, enumItems_iso c h,
    inputItems_iso c h, variablesItems_iso c h, getOperation_map, hf]
  cases allUsedTypes c.s c.q op with
  | error e => rfl
  | ok u =>
    simp only [bind, Except.bind]
    cases scalarItems c u with
    | error e => rfl
    | ok sc =>
      cases enumItems c u with
      | error e => rfl
      | ok en =>
        cases List.mapM (fragmentItems c) (sortNat u.fragments) with
        | error e => rfl
        | ok fr =>
          cases inputItems c u with
          | error e => rfl
          | ok inp =>
            cases variablesItems c op with
            | error e => rfl
            | ok vars =>
              cases c.q.getOperation op with
              | error e => rfl
              | ok o => simp only [Except.map, responseItems_iso c h]

theorem selectOperation_iso (name : String) : selectOperation (mapC ρ t c) name = selectOperation c name := by
  simp only [selectOperation, mapC_q, mapC_o, mapC_cs, mapQ_operations, List.findIdx?_map, Function.comp_def, mapOp_name]

theorem generatedModule_iso (query operation : String) :
    generatedModule (mapC ρ t c) query operation = generatedModule c query operation := by
  simp only [generatedModule, mapC_o, mapC_cs, selectOperation_iso c h, responseForQuery_iso c h]
  rfl

end

def genOne (c : Ctx) (queryText : String) (i : Nat) : Outcome Module := do
  let op ← c.q.getOperation i
  generatedModule c queryText op.name

/-- `Codegen.generate` after `Resolve.resolve` -/
def genFrom (c : Ctx) (queryText : String) : Outcome (List Module) := do
  let selected := c.o.operationName.bind (selectOperation c)
  let ops ← match selected, c.o.mode with
    | some i, _ => pure [i]
    | none, .cli => pure (List.range c.q.operations.length)
    | none, .derive =>
      fail' ("The struct name does not match any defined operation in the query file.\nStruct name: " ++
        c.o.structIdent.getD "" ++ "\nDefined operations: " ++ ", ".intercalate (c.q.operations.map (·.name)))
  ops.mapM (genOne c queryText)

theorem generate_eq (s : Schema) (cs : CaseFns) (o : Options) (queryText : String) (doc : QDoc) :
    Codegen.generate s cs o queryText doc =
      Resolve.resolve s doc >>= fun q => genFrom { s := s, q := q, o := o, cs := cs } queryText := rfl

theorem genFrom_iso {ρ : Nat → Nat} {t : Schema} (c : Ctx) (h : FieldIso ρ c.s t) (queryText : String) :
    genFrom (mapC ρ t c) queryText = genFrom c queryText := by
  have h1 : selectOperation (mapC ρ t c) = selectOperation c := by funext n; exact selectOperation_iso c h n
  have h2 : genOne (mapC ρ t c) queryText = genOne c queryText := by
    funext i
    simp only [genOne, mapC_q, getOperation_map]
    cases c.q.getOperation i with
    | error e => rfl
    | ok op => exact generatedModule_iso c h queryText op.name
  have h3 : (mapC ρ t c).q.operations.length = c.q.operations.length := by simp
  have h4 : (mapC ρ t c).q.operations.map (·.name) = c.q.operations.map (·.name) := by
    simp [List.map_map, Function.comp_def]
  unfold genFrom
  rw [h1, h2, h3, h4]
  rfl


theorem bind_map_ok {α β γ} (x : Outcome α) (f : α → β) (k : β → Outcome γ) :
    (x.map f) >>= k = x >>= fun a => k (f a) := by
  cases x <;> rfl

theorem codegen_respects_field_renumbering {ρ : Nat → Nat} {s t : Schema} (h : FieldIso ρ s t)
    (cs : CaseFns) (o : Options) (queryText : String) (doc : QDoc) :
    Codegen.generate t cs o queryText doc = Codegen.generate s cs o queryText doc := by
  rw [generate_eq, generate_eq, resolve_iso h doc, bind_map_ok]
  congr 1
  funext q
  exact genFrom_iso { s := s, q := q, o := o, cs := cs } h queryText


/-- **C07 with `extend type`, end to end**: for every well-formed abstract schema with extension blocks, every SDL
rendering and every introspection rendering of the folded schema, every query document and all options: the two
schema files generate literally the same modules (or fail with the same error). -/
theorem codegen_equal_ext_of_renderings (x : ASX) (doc : SdlDoc) (l : List (Option FullType))
    (hw : WfASX x) (hd : IsSdlOfX x doc) (hi : IsIntroOf x.fold (l.filterMap id))
    (cs : CaseFns) (o : Options) (queryText : String) (qdoc : QDoc) :
    (Sdl.fromSdl doc >>= fun s => Codegen.generate s cs o queryText qdoc) =
      (Intro.fromIntro true (some (introSchemaOf x.fold l)) >>= fun s => Codegen.generate s cs o queryText qdoc) := by
  obtain ⟨s, h1, hp, h2⟩ := frontends_iso_ext_of_renderings x doc l hw hd hi
  rw [h1, h2]
  exact (codegen_respects_field_renumbering (fieldIso_mapFields _ s hp) cs o queryText qdoc).symm

/-- the concrete renderings, at the level of the schema files -/
theorem codegen_equal_ext_json (x : ASX) (ex wrapped : Bool) (bs : List String) (hw : WfASX x)
    (hex : ex = true ∨ x.base.DefaultRoots) (hbs : ∀ b ∈ bs, b ∈ Schema.defaultScalars) (hd : x.fold.DepthOk)
    (cs : CaseFns) (o : Options) (queryText : String) (qdoc : QDoc) :
    (Sdl.fromSdl (sdlOfX ex x) >>= fun s => Codegen.generate s cs o queryText qdoc) =
      (Intro.fromJson true (jsonResponse wrapped (introOf bs x.fold)) >>= fun s =>
        Codegen.generate s cs o queryText qdoc) := by
  rw [Intro.fromJson, parseIntro_json wrapped _ (depthOk_introOf x.fold bs hd)]
  exact codegen_equal_ext_of_renderings x _ _ hw (isSdlOfX_sdlOfX x ex hex)
    (by rw [filterMap_id_map_some]; exact isIntroOf_introTypes x.fold bs (wf_fold x hw).1 hbs) cs o queryText qdoc

/-- a non-trivial instance of `FieldIso` -/
example : FieldIso exASX.sdlSchema.fieldOrder.idxOf exASX.sdlSchema exASX.sdlSchema.normFields :=
  fieldIso_mapFields _ _ (sdlSchema_fieldOrder_perm exASX (by decide))

end C07
end GqlVerif
