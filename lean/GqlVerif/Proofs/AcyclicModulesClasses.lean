import GqlVerif.Proofs.AcyclicModulesDec
/-!
# P27 part A (corollaries) — the four end-to-end classes need no acyclicity hypothesis

For an operation of `TreeOp`, `VariantOp`, `FragmentOp` or `RecFragmentOp` every fragment REACHABLE from the operation
has no spread at the top level of its body (`TreeOp` / `VariantOp`: no fragment is reachable; `FragmentOp`: bodies are
spread-free; `RecFragmentOp`: `fragBodyOk` — spreads only below fields).  Hence `ReachRanked c.q op.sels (fun _ => 0)`
and, by `module_acyclic_of_reachRanked`, the emitted module is `Acyclic`, `EnvOK`, `EnvOKS`; `Serde.de` never returns the
fuel error on it and does not depend on the fuel — with NO per-module check (`acyclicCheck`) and no hypothesis on the
unused fragments of the document.

* `reach_in_closed` — spreads reachable from `sels` stay in any set that contains the spreads of `sels` and is closed
  under the spreads of the bodies of its members;
* `reachRanked_of_no_top_spread`;
* `treeOp_reachRanked`, `variantOp_reachRanked`, `fragmentOp_reachRanked`, `recFragmentOp_reachRanked`;
* **`class_module_acyclic`**, **`class_module_envOK`**, **`class_de_never_out_of_fuel`**, **`class_de_fuel_indep`**,
  `class_roundtrip_never_out_of_fuel` for `InClass c op := TreeOp ∨ VariantOp ∨ FragmentOp ∨ RecFragmentOp`.
-/
namespace GqlVerif
namespace AcyclicM
open Codegen Serde SerdeFuel C01.E2E

theorem spreadIds_sub_of_mem {x : Sel} : ∀ {sels : List Sel}, x ∈ sels → ∀ g ∈ spreadIds x, g ∈ spreadIdss sels
  | y :: ys, hx, g, hg => by
    rw [spreadIdss, List.mem_append]
    rcases List.mem_cons.mp hx with rfl | hx
    · exact .inl hg
    · exact .inr (spreadIds_sub_of_mem hx g hg)

/-- spreads reachable from `sels` stay inside a set that contains the spreads of `sels` and is closed under the spreads
    of the bodies of its members -/
theorem reach_in_closed (q : Query) (G : Nat → Prop) (hcl : ∀ g, G g → ∀ h ∈ spreadIdss (fragSels q g), G h) :
    ∀ {sels : List Sel} {x : Sel}, C02.Reach q sels x → (∀ h ∈ spreadIdss sels, G h) → ∀ g ∈ spreadIds x, G g := by
  intro sels x hr
  induction hr with
  | here hm => exact fun h g hg => h g (spreadIds_sub_of_mem hm g hg)
  | field hm _ ih =>
    exact fun h => ih (fun g hg => h g (spreadIds_sub_of_mem hm g (by rw [spreadIds]; exact hg)))
  | inline hm _ ih =>
    exact fun h => ih (fun g hg => h g (spreadIds_sub_of_mem hm g (by rw [spreadIds]; exact hg)))
  | spread hm hf _ ih =>
    rename_i g' f x' hr'
    intro h
    have hg' : G g' := h g' (spreadIds_sub_of_mem hm g' (by simp [spreadIds]))
    refine ih (fun g hg => hcl g' hg' g ?_)
    unfold fragSels; rw [hf]; exact hg

theorem reach_spread_in_closed (q : Query) (G : Nat → Prop) (hcl : ∀ g, G g → ∀ h ∈ spreadIdss (fragSels q g), G h)
    {sels : List Sel} (h0 : ∀ h ∈ spreadIdss sels, G h) {g : Nat} (hr : C02.Reach q sels (.spread g)) : G g :=
  reach_in_closed q G hcl hr h0 g (by simp [spreadIds])

/-- reachable fragments without a top-level spread: the constant rank works -/
theorem reachRanked_of_no_top_spread {q : Query} {sels : List Sel}
    (h : ∀ g, C02.Reach q sels (.spread g) → ∀ f, q.fragments[g]? = some f → ∀ x, Sel.spread x ∉ f.sels) :
    ReachRanked q sels (fun _ => 0) := by
  intro g hg f hf x hx
  exact absurd (mem_topSpreads.mp (jumpSpreads_sub_top q f x hx)) (h g hg f hf x)

theorem no_spread_of_noSpreads {sels : List Sel} (h : noSpreads sels = true) (x : Nat) : Sel.spread x ∉ sels := by
  intro hm
  have := noSpreads_mem h _ hm
  simp [noSpread] at this

/-! ## the classes -/

theorem variantOp_reachRanked {c : Ctx} {op : ROperation} (h : VariantOp c op = true) :
    ReachRanked c.q op.sels (fun _ => 0) := by
  obtain ⟨_, _, hv, _⟩ := variantOp_parts h
  have hns := spreadIdss_noSpreads _ (noSpreads_of_vSels c.s c.o op.sels false hv)
  refine reachRanked_of_no_top_spread (fun g hg => ?_)
  exact (reach_spread_in_closed c.q (fun _ => False) (fun _ h => h.elim) (by rw [hns]; simp) hg).elim

theorem treeOp_reachRanked {c : Ctx} {op : ROperation} (h : TreeOp c op = true) :
    ReachRanked c.q op.sels (fun _ => 0) :=
  variantOp_reachRanked (variantOp_of_treeOp c op h)

theorem fragmentOp_reachRanked {c : Ctx} {op : ROperation} (h : FragmentOp c op = true) :
    ReachRanked c.q op.sels (fun _ => 0) := by
  obtain ⟨_, _, hb⟩ := fragmentOp_parts h
  refine reachRanked_of_no_top_spread (fun g hg f hf x => ?_)
  -- every reachable fragment is `fragOk` for some parent
  have hG : ∃ i, fragOk c.s c.q c.o (.object i) g = true := by
    refine reach_spread_in_closed c.q (fun g => ∃ i, fragOk c.s c.q c.o (.object i) g = true) ?_ ?_ hg
    · rintro g' ⟨i, hok⟩ x hx
      obtain ⟨f', hf', _, _, hv, _⟩ := fragOk_parts hok
      have := spreadIdss_noSpreads _ (noSpreads_of_vSels c.s c.o f'.sels false hv)
      have e : fragSels c.q g' = f'.sels := by unfold fragSels; rw [hf']
      rw [e, this] at hx
      cases hx
    · intro x hx
      unfold fBody at hb
      split at hb
      · rename_i g' heq
        rw [heq] at hx
        simp only [spreadIdss, spreadIds, List.append_nil, List.mem_singleton] at hx
        subst hx
        exact ⟨_, hb⟩
      · exact fragOk_of_spreadIdss c.s c.q c.o op.sels _ hb x hx
  obtain ⟨i, hok⟩ := hG
  obtain ⟨f', hf', _, _, hv, _⟩ := fragOk_parts hok
  rw [hf] at hf'; cases hf'
  exact no_spread_of_noSpreads (noSpreads_of_vSels c.s c.o f.sels false hv) x

theorem recFragmentOp_reachRanked {c : Ctx} {op : ROperation} (h : RecFragmentOp c op = true) :
    ReachRanked c.q op.sels (fun _ => 0) := by
  obtain ⟨_, _, _, hcl, hall⟩ := recFragmentOp_parts h
  obtain ⟨h0, hcl'⟩ := closedFrags_parts hcl
  refine reachRanked_of_no_top_spread (fun g hg f hf x hx => ?_)
  have hG : g ∈ usedFrags c.q op.sels := reach_spread_in_closed c.q (· ∈ usedFrags c.q op.sels) hcl' h0 hg
  obtain ⟨f', _, hf', _, _, hns, _⟩ := fragBodyOk_parts (hall g hG)
  rw [hf] at hf'; cases hf'
  have : f.sels.any isSpread = true := List.any_eq_true.mpr ⟨_, hx, rfl⟩
  rw [hns] at this; cases this

/-- the four end-to-end classes -/
def InClass (c : Ctx) (op : ROperation) : Prop :=
  TreeOp c op = true ∨ VariantOp c op = true ∨ FragmentOp c op = true ∨ RecFragmentOp c op = true

instance (c : Ctx) (op : ROperation) : Decidable (InClass c op) := by unfold InClass; infer_instance

theorem inClass_reachRanked {c : Ctx} {op : ROperation} (h : InClass c op) : ReachRanked c.q op.sels (fun _ => 0) := by
  rcases h with h | h | h | h
  · exact treeOp_reachRanked h
  · exact variantOp_reachRanked h
  · exact fragmentOp_reachRanked h
  · exact recFragmentOp_reachRanked h

/-- **Part A.2 for the classes** — the emitted module of an operation of any of the four classes is `Acyclic`: no
    acyclicity hypothesis, no per-module check -/
theorem class_module_acyclic {c : Ctx} {opIdx : Nat} {op : ROperation} {items : List Item}
    (hop : c.q.operations[opIdx]? = some op) (hc : InClass c op)
    (hgen : responseForQuery c opIdx = .ok items) (hok : moduleOk c items = true) :
    ∃ d, Acyclic (moduleEnv c items) d :=
  module_acyclic_of_reachRanked hgen hok hop (inClass_reachRanked hc)

theorem class_module_envOK {c : Ctx} {opIdx : Nat} {op : ROperation} {items : List Item}
    (hop : c.q.operations[opIdx]? = some op) (hc : InClass c op)
    (hgen : responseForQuery c opIdx = .ok items) (hok : moduleOk c items = true) :
    EnvOK (moduleEnv c items) ∧ EnvOKS (moduleEnv c items) := by
  obtain ⟨d, hd⟩ := class_module_acyclic hop hc hgen hok
  exact module_envOK_of_acyclic hgen hd

/-- `de` on the module of an operation of the classes is never the fuel error -/
theorem class_de_never_out_of_fuel {c : Ctx} {opIdx : Nat} {op : ROperation} {items : List Item}
    (hop : c.q.operations[opIdx]? = some op) (hc : InClass c op)
    (hgen : responseForQuery c opIdx = .ok items) (hok : moduleOk c items = true) (t : RTy) (j : Json) :
    de (moduleEnv c items) t j ≠ .error (.unmodelled "fuel") :=
  de_never_out_of_fuel (class_module_envOK hop hc hgen hok).1 t j

/-- … and is fuel independent -/
theorem class_de_fuel_indep {c : Ctx} {opIdx : Nat} {op : ROperation} {items : List Item}
    (hop : c.q.operations[opIdx]? = some op) (hc : InClass c op)
    (hgen : responseForQuery c opIdx = .ok items) (hok : moduleOk c items = true) (t : RTy) (j : Json) (fuel : Nat)
    (hf : deFuel (moduleEnv c items) j ≤ fuel) :
    deTy (moduleEnv c items) false fuel t j = de (moduleEnv c items) t j :=
  de_fuel_indep (class_module_envOK hop hc hgen hok).1 t j fuel hf

theorem class_roundtrip_never_out_of_fuel {c : Ctx} {opIdx : Nat} {op : ROperation} {items : List Item}
    (hop : c.q.operations[opIdx]? = some op) (hc : InClass c op)
    (hgen : responseForQuery c opIdx = .ok items) (hok : moduleOk c items = true) (t : RTy) (j : Json) :
    roundtrip (moduleEnv c items) t j ≠ .error (.unmodelled "fuel") :=
  roundtrip_never_out_of_fuel (class_module_envOK hop hc hgen hok).1 (class_module_envOK hop hc hgen hok).2 t j

/-- the reach-restricted form with the decidable document-level check: `SpreadAcyclic` of the whole document also covers
    operations outside the classes (e.g. same-level spread chains `F → G → H`) -/
theorem module_envOK_of_reachRanked {c : Ctx} {opIdx : Nat} {op : ROperation} {items : List Item} {r : Nat → Nat}
    (hop : c.q.operations[opIdx]? = some op) (hr : ReachRanked c.q op.sels r)
    (hgen : responseForQuery c opIdx = .ok items) (hok : moduleOk c items = true) :
    EnvOK (moduleEnv c items) ∧ EnvOKS (moduleEnv c items) := by
  obtain ⟨d, hd⟩ := module_acyclic_of_reachRanked hgen hok hop hr
  exact module_envOK_of_acyclic hgen hd

/-! ## non-vacuity -/

/-- the recursive-fragment document of `C12I` (`fragment Tree on Node { id child { ...Tree } }`,
    `fragment Wrap on Node { kind ...Tree }` — a genuine same-level spread `Wrap → Tree` —, `fragment Leaf`): it is
    `SameLevelAcyclic` (decided by evaluation), its module is emitted and passes `moduleOk`, so it is `Acyclic`, and `de`
    never runs out of fuel on it — although the operation is in none of the four classes' scope for `Wrap`
    (a spread at the top level of a fragment body) -/
example : SameLevelAcyclic C12I.cT.q := by decide

example : ¬ SameLevelRanked C12I.cT.q (fun _ => 0) := by
  intro h
  exact Nat.lt_irrefl 0 (h 1 _ rfl 0 (by decide))

example : ∃ items, responseForQuery C12I.cT 0 = .ok items ∧ moduleOk C12I.cT items = true ∧
    (∃ d, Acyclic (moduleEnv C12I.cT items) d) ∧
    ∀ t j, de (moduleEnv C12I.cT items) t j ≠ .error (.unmodelled "fuel") := by
  cases hgen : responseForQuery C12I.cT 0 with
  | error e =>
    have : (responseForQuery C12I.cT 0).toOption.isSome = true := by decide +kernel
    rw [hgen] at this; cases this
  | ok items =>
    have hok : moduleOk C12I.cT items = true := by
      have : (match responseForQuery C12I.cT 0 with
        | .ok items => moduleOk C12I.cT items
        | .error _ => false) = true := by decide +kernel
      rw [hgen] at this; exact this
    have ha : SameLevelAcyclic C12I.cT.q := by decide
    exact ⟨items, rfl, hok, module_acyclic hgen hok ha,
      module_de_never_out_of_fuel hgen hok ha.spreadAcyclic⟩

/-- **for every `n`** the same-level chain `F1 → F2 → … → Fn` (`Fn` spreads `F1` below a field) of `SerdeFuelWitness.gCtx n`
    is ranked by `i ↦ n - i` (so far only `acyclicCheck (gEnv 16)` was evaluated) -/
theorem gCtx_sameLevelRanked (n : Nat) : SameLevelRanked (gCtx n).q (fun i => n - i) := by
  intro g f hf x hx
  simp only [gCtx, gFrags] at hf
  rw [List.getElem?_append] at hf
  split at hf
  · rename_i hlt
    simp only [List.length_map, List.length_range] at hlt
    rw [List.getElem?_map, List.getElem?_range hlt] at hf
    simp only [Option.map_some, Option.some.injEq] at hf
    subst hf
    simp only [sameLevel, List.mem_singleton] at hx
    subst hx
    show n - (g + 1) < n - g
    omega
  · rename_i hge
    simp only [List.length_map, List.length_range] at hge hf
    cases hk : g - (n - 1) with
    | zero =>
      rw [hk] at hf
      simp only [List.getElem?_cons_zero, Option.some.injEq] at hf
      subst hf
      simp [sameLevel] at hx
    | succ k => rw [hk] at hf; simp at hf

/-- hence, for every `n`, whatever module the generator emits for `gCtx n` is `Acyclic` and `de` never runs out of fuel
    on it (the operation is in none of the four classes: `F1` has a spread at the top level of its body) -/
theorem gCtx_module_ok (n : Nat) (items : List Item) (hgen : responseForQuery (gCtx n) 0 = .ok items)
    (hok : moduleOk (gCtx n) items = true) :
    (∃ d, Acyclic (moduleEnv (gCtx n) items) d) ∧
    ∀ t j, de (moduleEnv (gCtx n) items) t j ≠ .error (.unmodelled "fuel") :=
  ⟨module_acyclic hgen hok ⟨_, gCtx_sameLevelRanked n⟩,
   module_de_never_out_of_fuel hgen hok (SameLevelAcyclic.spreadAcyclic ⟨_, gCtx_sameLevelRanked n⟩)⟩

example : ¬ InClass (gCtx 16) gOp := by decide +kernel

/-- `fragment F on Human { height ...G }  fragment G on Query { me { height } ...F }  query Q { me { ...F } }`: the two
    fragments spread each other at the same level, but on DIFFERENT type conditions — `calcFields` drops both members -/
def mixCtx : Ctx :=
  { s := gSchema,
    q := { operations := [gOp],
           fragments := [{ name := "F", on := .object 1, sels := [.field none 2 [], .spread 1] },
                         { name := "G", on := .object 0, sels := [.field none 0 [.field none 2 []], .spread 0] }] },
    o := {}, cs := ⟨id, id⟩ }

/-- **`SameLevelAcyclic` is sufficient, not necessary; `SpreadAcyclic` is strictly weaker**: this document is not
    `SameLevelAcyclic`, it is `SpreadAcyclic`, its module is emitted, passes `moduleOk` and is `Acyclic` -/
theorem mix_spreadAcyclic_only :
    ¬ SameLevelAcyclic mixCtx.q ∧ SpreadAcyclic mixCtx.q ∧
    ∃ items, responseForQuery mixCtx 0 = .ok items ∧ moduleOk mixCtx items = true ∧
      ∃ d, Acyclic (moduleEnv mixCtx items) d := by
  have h1 : ¬ SameLevelAcyclic mixCtx.q := by decide +kernel
  have h2 : SpreadAcyclic mixCtx.q := by decide +kernel
  refine ⟨h1, h2, ?_⟩
  cases hgen : responseForQuery mixCtx 0 with
  | error e =>
    have : (responseForQuery mixCtx 0).toOption.isSome = true := by decide +kernel
    rw [hgen] at this; cases this
  | ok items =>
    have hok : moduleOk mixCtx items = true := by
      have : (match responseForQuery mixCtx 0 with
        | .ok items => moduleOk mixCtx items
        | .error _ => false) = true := by decide +kernel
      rw [hgen] at this; exact this
    exact ⟨items, rfl, hok, module_acyclic' hgen hok h2⟩

/-- the end-to-end example of `C01EndToEnd` is in the class `TreeOp` -/
example : InClass exCtx exOp := by decide +kernel

end AcyclicM
end GqlVerif
