import GqlVerif.Proofs.C01RecursiveD
/-!
# C01 / C03 end to end, step 3 (`RecFragmentOp`): a concrete module with a recursive fragment

The hypotheses of `recfragment_items_shape`, `recfragment_accepts`, `recfragment_precise_iff`, `recfragment_lossless`
evaluated on a concrete module: a self-recursive fragment (`Box` on the alias of the lone spread inside its body and
on the flattened members), a non-recursive wrapper reaching it, payloads nested through the recursion.
-/
set_option linter.unusedSimpArgs false
set_option linter.unusedVariables false
namespace GqlVerif
namespace C01
namespace E2E
open Serde Spec C13 C03 Codegen

/-! ## a concrete module

`fragment F on Human { name friend { ...F } }` (recursive), `fragment W on Human { friend { ...F height } }` (a
non-recursive wrapper reaching `F`), `query Q { me { ...F height } w: me { ...W } }` -/

def rxSchema : Schema :=
  { objects := [{ name := "Query", fields := [0], implements := [] },
                { name := "Human", fields := [1, 2, 3], implements := [] }]
    fields := [{ name := "me", ty := { id := .object 1, quals := [] }, parent := .object 0, deprecation := none },
               { name := "name", ty := { id := .scalar 1, quals := [.required] }, parent := .object 1, deprecation := none },
               { name := "height", ty := { id := .scalar 3, quals := [] }, parent := .object 1, deprecation := none },
               { name := "friend", ty := { id := .object 1, quals := [] }, parent := .object 1, deprecation := none }]
    scalars := ["ID", "String", "Int", "Float", "Boolean"] }

def rxOp : ROperation :=
  { name := "Q", kind := .query, objectId := 0,
    sels := [.field none 0 [.spread 0, .field none 2 []], .field (some "w") 0 [.spread 1]] }

def rxQuery : Query :=
  { operations := [rxOp]
    fragments := [{ name := "F", on := .object 1, sels := [.field none 1 [], .field none 3 [.spread 0]] },
                  { name := "W", on := .object 1, sels := [.field none 3 [.spread 0, .field none 2 []]] }] }

def rxCtx : Ctx := { s := rxSchema, q := rxQuery, o := {}, cs := ⟨id, id⟩ }

theorem rx_class : RecFragmentOp rxCtx rxOp = true := by decide +kernel
theorem rx_keys : recKeysOk rxCtx rxOp = true := by decide +kernel
theorem rx_rec : fragmentIsRecursive rxQuery 0 = true ∧ fragmentIsRecursive rxQuery 1 = false := by decide +kernel


def rxUsed : UsedTypes := { types := [.scalar 3, .scalar 1, .object 1], fragments := [1, 0] }

theorem rx_used : allUsedTypes rxSchema rxQuery 0 = .ok rxUsed := by rfl

def rxF : RFragment := { name := "F", on := .object 1, sels := [.field none 1 [], .field none 3 [.spread 0]] }
def rxW : RFragment := { name := "W", on := .object 1, sels := [.field none 3 [.spread 0, .field none 2 []]] }

def rxFItems : List Item :=
  .struct "F" rxCtx.respDerives rxCtx.serdeCrate (fieldsOfR rxCtx "F" rxF.sels) :: itemsRs rxCtx "F" rxF.sels
def rxWItems : List Item :=
  .struct "W" rxCtx.respDerives rxCtx.serdeCrate (fieldsOfR rxCtx "W" rxW.sels) :: itemsRs rxCtx "W" rxW.sels

def rxItems : List Item :=
  builtinAliases ++ [] ++ [] ++ [] ++ [.unitStruct "Variables" ["Serialize"] (some "::serde")] ++
    [rxFItems, rxWItems].flatten ++ bodyItemsR rxCtx "ResponseData" "Q" rxOp.sels

theorem rx_frags : (sortNat rxUsed.fragments).mapM (fragmentItems rxCtx) = .ok [rxFItems, rxWItems] := by
  obtain ⟨f0, hf0, e0⟩ := recfragment_struct_shape rxCtx rfl 0 (by decide +kernel)
  obtain ⟨f1, hf1, e1⟩ := recfragment_struct_shape rxCtx rfl 1 (by decide +kernel)
  have : f0 = rxF := by
    have : rxCtx.q.fragments[0]? = some rxF := rfl
    rw [this] at hf0; exact (Option.some.inj hf0).symm
  subst this
  have : f1 = rxW := by
    have : rxCtx.q.fragments[1]? = some rxW := rfl
    rw [this] at hf1; exact (Option.some.inj hf1).symm
  subst this
  have hs : sortNat rxUsed.fragments = [0, 1] := by decide +kernel
  rw [hs]
  simp only [List.mapM_cons, List.mapM_nil, e0, e1, bind, Except.bind, pure, Except.pure]
  rfl

theorem rx_gen : responseForQuery rxCtx 0 = .ok rxItems := by
  have hresp := recfragment_items_shape rxCtx rxOp (by simp [rxCtx, rxQuery]) rx_class
  unfold responseForQuery
  simp only [show rxCtx.s = rxSchema from rfl, show rxCtx.q = rxQuery from rfl, rx_used, bind, Except.bind]
  rw [show scalarItems rxCtx rxUsed = .ok [] from rfl, show enumItems rxCtx rxUsed = .ok [] from rfl]
  simp only [rx_frags]
  rw [show inputItems rxCtx rxUsed = .ok [] from rfl,
    show variablesItems rxCtx 0 = .ok [.unitStruct "Variables" ["Serialize"] (some "::serde")] from rfl]
  simp only []
  rw [show rxQuery.getOperation 0 = .ok rxOp from rfl]
  simp only [hresp]
  rfl

theorem rx_ok : moduleOk rxCtx rxItems = true := by decide +kernel

/-- the emitted module (`#eval rxItems`): `F { name: String, friend: Option<Ffriend> }`, `type Ffriend = Box<F>`,
    `W { friend: Option<Wfriend> }`, `Wfriend { #[serde(flatten)] F: Box<F>, height: Option<Float> }`,
    `ResponseData { me: Option<Qme>, w: Option<Qw> }`, `Qme { #[serde(flatten)] F: Box<F>, height: Option<Float> }`,
    `type Qw = W`.  The alias of the lone recursive spread is boxed … -/
example : (match (moduleEnv rxCtx rxItems).find "Ffriend" with
    | some (.alias _ _ (.box (.path "F"))) => true | _ => false) = true := by decide +kernel
/-- … the flattened member of the recursive fragment is boxed (in the operation and in the wrapper) … -/
example : (match (moduleEnv rxCtx rxItems).find "Qme", (moduleEnv rxCtx rxItems).find "Wfriend" with
    | some (.struct _ _ _ [f, _]), some (.struct _ _ _ [g, _]) =>
      f.flatten && g.flatten && f.ty == .box (.path "F") && g.ty == .box (.path "F")
    | _, _ => false) = true := by decide +kernel
/-- … the alias of the non-recursive wrapper is not -/
example : (match (moduleEnv rxCtx rxItems).find "Qw" with
    | some (.alias _ _ (.path "W")) => true | _ => false) = true := by decide +kernel

/-- two levels of `friend` below `me`, one below `w` -/
def rxJson : Json :=
  .obj [("me", .obj [("name", .str "Luke"), ("height", .num "1.7"),
                     ("friend", .obj [("name", .str "Han"), ("friend", .null)])]),
        ("w", .obj [("friend", .obj [("name", .str "R2"), ("friend", .null), ("height", .null)])])]

set_option maxRecDepth 8000 in
theorem rx_size : jsonSize rxJson = 12 := by
  simp [rxJson, jsonSize, kvsSize]

set_option maxRecDepth 8000 in
theorem rx_conforms : conformsOpR rxCtx rxOp (2 * jsonSize rxJson) rxJson = true := by
  rw [rx_size]
  simp [conformsOpR, expandR, conformsV, confSelsV, confSelV, keysSelsV, keysSelV, fragApplies, rtName,
    rxCtx, rxSchema, rxOp, rxQuery, rxJson, Json.lookup, accepts, acceptsNN, gtyOf, scalarOk, floatOk, stringOk,
    Json.isNull, EnumSpec.nodup, List.range, List.range.loop]

/-- `recfragment_accepts` on the concrete module -/
example : ∃ v, Serde.de (moduleEnv rxCtx rxItems) (.path "ResponseData") rxJson = .ok v :=
  recfragment_accepts rxCtx 0 rxOp rxItems rfl rx_class rx_keys rx_gen rx_ok rxJson _ (Nat.le_refl _) rx_conforms

theorem rx_precise (j : Json) :
    okB (Serde.de (moduleEnv rxCtx rxItems) (.path "ResponseData") j) =
      conformsLooseR rxSchema rxQuery {} (jsonSize j) false rxOp.sels j :=
  recfragment_precise_iff rxCtx 0 rxOp rxItems rfl rx_class rx_keys rx_gen rx_ok j

macro "looseR_eval" : tactic => `(tactic|
  simp [conformsLooseR, looseBodyP, looseStructP, looseOwnP, looseMemP, looseArrP, looseFieldP, looseFieldV,
    fragSels, isSpread, rxSchema, rxOp, rxQuery, Json.lookup, accepts, acceptsNN, gtyOf, scalarOk,
    floatOk, stringOk, Json.isNull, nullableQ, countKey, jsonSize, kvsSize])

/-- rejected: the recursive fragment's non-null `name` is missing two levels down -/
example : okB (Serde.de (moduleEnv rxCtx rxItems) (.path "ResponseData")
    (.obj [("me", .obj [("name", .str "a"), ("friend", .obj [("name", .str "b"), ("friend", .obj [("friend", .null)])])])])) = false := by
  rw [rx_precise]; looseR_eval
/-- rejected: a wrong scalar kind behind the boxed flattened member of the wrapper (`w { friend { ...F height } }`) -/
example : okB (Serde.de (moduleEnv rxCtx rxItems) (.path "ResponseData")
    (.obj [("w", .obj [("friend", .obj [("name", .int 3)])])])) = false := by
  rw [rx_precise]; looseR_eval
/-- accepted: `null` ends the recursion anywhere -/
example : okB (Serde.de (moduleEnv rxCtx rxItems) (.path "ResponseData")
    (.obj [("me", .null), ("w", .obj [("friend", .null)])])) = true := by
  rw [rx_precise]; looseR_eval

theorem rx_rust : recRustOk rxCtx rxOp = true := by decide +kernel

/-- the fragment's entries at the position of the spread, at both levels of the recursion; `height` (selected after
    `...F`) last; the absent nullable `friend` of the innermost level is written as `null` -/
def rxCanon : Json :=
  .obj [("me", .obj [("name", .str "Luke"), ("friend", .obj [("name", .str "Han"), ("friend", .null)]),
                     ("height", .num "1.7")]),
        ("w", .obj [("friend", .obj [("name", .str "R2"), ("friend", .null), ("height", .null)])])]

set_option maxRecDepth 8000 in
theorem rx_canon : canonR rxCtx.s rxCtx.q rxCtx.o.skipNone (jsonSize rxJson) rxOp.sels rxJson = rxCanon := by
  rw [rx_size]
  simp [canonR, canonBodyP, canonStructP, canonEntriesP, canonOwnP, canonEntryP, canonFieldP, canonFieldV, canon,
    canonNN, gtyOf, fragSels, rxCtx, rxSchema, rxOp, rxQuery, rxJson, rxCanon, Json.lookup, skipQ, Json.isNull]

/-- `recfragment_accepts` + `recfragment_lossless` on the concrete module -/
example : Serde.roundtrip (moduleEnv rxCtx rxItems) (.path "ResponseData") rxJson = .ok rxCanon := by
  rw [← rx_canon]
  exact recfragment_roundtrip rxCtx 0 rxOp rxItems rfl rx_class rx_keys rx_rust rx_gen rx_ok rxJson _ (Nat.le_refl _)
    rx_conforms

/-- **the disjointness hypothesis `recKeysOk` is needed inside fragment bodies too**: with
    `fragment F on Human { name friend { name ...F } }` the key `name` is selected both directly and through the
    recursive fragment one level down; the class side condition fails (the mechanism is `fragment_overlap_loses_key`
    of `C01AbstractH`: the own field consumes the key before the flattened `Box<F>` sees the buffer) -/
example : recKeysOk
    { rxCtx with q := { rxQuery with fragments :=
        [{ name := "F", on := .object 1, sels := [.field none 1 [], .field none 3 [.field none 1 [], .spread 0]] }] } }
    { rxOp with sels := [.field none 0 [.spread 0]] } = false := by decide +kernel

/-! ## why a fragment body must not spread (transitively) into itself *at the same level*

`fragment F on Human { name ...F }` (no field between the fragment and its own spread) is outside the class
(`fragBodyOk`: no spread at the top level of a fragment body).  The generator accepts it and emits
`struct F { name: String, #[serde(flatten)] F: Box<F> }`; that type rejects the response object `{ "name": … }` a
server executing `CollectFields` (which visits a fragment once) would produce: the outer `F` consumes `name`, the
flattened inner `F` then misses it.  (`null` is still accepted.) -/

def cyQuery : Query :=
  { operations := [{ name := "Q", kind := .query, objectId := 0, sels := [.field none 0 [.spread 0]] }]
    fragments := [{ name := "F", on := .object 1, sels := [.field none 1 [], .spread 0] }] }

def cyCtx : Ctx := { s := rxSchema, q := cyQuery, o := {}, cs := ⟨id, id⟩ }

theorem cy_not_in_class : RecFragmentOp cyCtx { name := "Q", kind := .query, objectId := 0, sels := [.field none 0 [.spread 0]] } = false := by
  decide +kernel

/-- the module `responseForQuery` emits for it rejects `{ "me": { "name": "x" } }` with `missing field name` -/
theorem self_spread_rejects_conforming :
    (match responseForQuery cyCtx 0 with
     | .ok items =>
       (match Serde.de (moduleEnv cyCtx items) (.path "ResponseData") (.obj [("me", .obj [("name", .str "x")])]) with
        | .error (.mismatch "missing field name") => true
        | _ => false)
     | .error _ => false) = true := by decide +kernel

/-! ## mutual recursion is in the class

`fragment A on Human { name friend { ...B } }`, `fragment B on Human { height friend { ...A height } }`,
`query Q { me { ...A } }`: both fragments are recursive for the generator (boxed), the operation is in the class and
satisfies the side conditions of all four theorems. -/

def muQuery : Query :=
  { operations := [{ name := "Q", kind := .query, objectId := 0, sels := [.field none 0 [.spread 0]] }]
    fragments := [{ name := "A", on := .object 1, sels := [.field none 1 [], .field none 3 [.spread 1]] },
                  { name := "B", on := .object 1, sels := [.field none 2 [], .field none 3 [.spread 0, .field (some "h") 2 []]] }] }

def muCtx : Ctx := { s := rxSchema, q := muQuery, o := {}, cs := ⟨id, id⟩ }

example : RecFragmentOp muCtx { name := "Q", kind := .query, objectId := 0, sels := [.field none 0 [.spread 0]] } = true ∧
    recKeysOk muCtx { name := "Q", kind := .query, objectId := 0, sels := [.field none 0 [.spread 0]] } = true ∧
    recRustOk muCtx { name := "Q", kind := .query, objectId := 0, sels := [.field none 0 [.spread 0]] } = true ∧
    fragmentIsRecursive muQuery 0 = true ∧ fragmentIsRecursive muQuery 1 = true ∧
    usedFrags muQuery [.field none 0 [.spread 0]] = [0, 1] := by decide +kernel

end E2E
end C01
end GqlVerif
