import GqlVerif.Proofs.C05Body
import GqlVerif.Proofs.C02Response
import GqlVerif.Props.C12

namespace GqlVerif
namespace C04S
open Codegen Serde C13

/-! ## 1. specification -/

structure Leaves where
  intOk : Int → Bool
  idInt : Int → Bool
  enumOpen : Bool

def int32Ok (n : Int) : Bool := -2147483648 ≤ n && n ≤ 2147483647

def Leaves.graphql : Leaves := { intOk := int32Ok, idInt := fun _ => true, enumOpen := false }
def Leaves.wire : Leaves := { intOk := inI64, idInt := fun _ => false, enumOpen := true }

def scalarOk (L : Leaves) (n : String) (j : Json) : Bool :=
  if n == "Int" then (match j with | .int k => L.intOk k | _ => false)
  else if n == "Float" then Spec.floatOk j
  else if n == "Boolean" then Spec.boolOk j
  else if n == "ID" then (match j with | .str _ => true | .int k => L.idInt k | _ => false)
  else Spec.stringOk j

def ofQuals (n : String) : List Qual → GTy
  | [] => .named n
  | .list :: qs => .list (ofQuals n qs)
  | .required :: qs => .nonNull (ofQuals n qs)

theorem quals_ofQuals (n : String) : ∀ qs : List Qual, (ofQuals n qs).quals = qs
  | [] => rfl
  | .list :: qs => by simp [ofQuals, GTy.quals, quals_ofQuals n qs]
  | .required :: qs => by simp [ofQuals, GTy.quals, quals_ofQuals n qs]

def gty (ft : FieldType) : GTy := ofQuals "" ft.quals

abbrev keys (kvs : List (String × Json)) : List String := kvs.map (·.1)

inductive Valid (L : Leaves) (s : Schema) : TypeId → Bool → GTy → Json → Prop
  | null {id t} : isNN t = false → Valid L s id false t .null
  | some {id t j} : isNN t = false → Valid L s id true t j → Valid L s id false t j
  | bang {id b t j} : Valid L s id true t j → Valid L s id b (.nonNull t) j
  | list {id t xs} : (∀ x ∈ xs, Valid L s id false t x) → Valid L s id true (.list t) (.arr xs)
  | scalar {k n nm j} : s.scalars[k]? = some n → scalarOk L n j = true → Valid L s (.scalar k) true (.named nm) j
  | enum {k en nm v} : s.enums[k]? = some en → (L.enumOpen = true ∨ v ∈ en.variants) →
      Valid L s (.enum k) true (.named nm) (.str v)
  | object {k i nm kvs} : s.inputs[k]? = some i → i.isOneOf = false → (keys kvs).Nodup →
      (∀ key ∈ keys kvs, key ∈ i.fields.map (·.1)) →
      (∀ p ∈ i.fields, Json.lookup p.1 kvs = none → isNN (gty p.2) = false) →
      (∀ p ∈ i.fields, ∀ v, Json.lookup p.1 kvs = some v → Valid L s p.2.id false (gty p.2) v) →
      Valid L s (.input k) true (.named nm) (.obj kvs)
  | oneOf {k i nm p v} : s.inputs[k]? = some i → i.isOneOf = true → p ∈ i.fields →
      Valid L s p.2.id false (.nonNull (gty p.2)) v →
      Valid L s (.input k) true (.named nm) (.obj [(p.1, v)])

def elemTy : GTy → GTy
  | .nonNull t => elemTy t
  | .list t => t
  | .named n => .named n

def isID (s : Schema) : TypeId → Bool
  | .scalar k => s.scalars[k]? == some "ID"
  | _ => false

def assemble (skip : Bool) (fields : List (String × FieldType)) (kvs : List (String × Json)) : List (String × Json) :=
  fields.filterMap fun p =>
    let v := (Json.lookup p.1 kvs).getD .null
    if skip && v.isNull then none else some (p.1, v)

def inputOf (s : Schema) : TypeId → Option StoredInput
  | .input k => s.inputs[k]?
  | _ => none

mutual
  def canon (s : Schema) (skip : Bool) : TypeId → GTy → Json → Json
    | id, t, .arr xs => .arr (canonList s skip id (elemTy t) xs)
    | id, _, .obj kvs =>
      match inputOf s id with
      | some i => if i.isOneOf then .obj (canonKvs s skip i.fields kvs)
                  else .obj (assemble skip i.fields (canonKvs s skip i.fields kvs))
      | none => .obj kvs
    | id, _, .int n => if isID s id then .str (toString n) else .int n
    | _, _, .null => .null
    | _, _, .bool b => .bool b
    | _, _, .num t => .num t
    | _, _, .str v => .str v
  def canonList (s : Schema) (skip : Bool) : TypeId → GTy → List Json → List Json
    | _, _, [] => []
    | id, t, x :: xs => canon s skip id t x :: canonList s skip id t xs
  def canonKvs (s : Schema) (skip : Bool) : List (String × FieldType) → List (String × Json) → List (String × Json)
    | _, [] => []
    | fields, (k, v) :: rest =>
      (k, match fields.find? (·.1 == k) with
          | some p => canon s skip p.2.id (gty p.2) v
          | none => v) :: canonKvs s skip fields rest
end


/-! ### unfolding `canon` -/

theorem canon_arr (s skip id t xs) : canon s skip id t (.arr xs) = .arr (canonList s skip id (elemTy t) xs) := by
  rw [canon]
theorem canon_null (s skip id t) : canon s skip id t .null = .null := by
  rw [canon]
theorem canon_str (s skip id t v) : canon s skip id t (.str v) = .str v := by
  rw [canon]
theorem canon_bool (s skip id t v) : canon s skip id t (.bool v) = .bool v := by
  rw [canon]
theorem canon_num (s skip id t v) : canon s skip id t (.num v) = .num v := by
  rw [canon]
theorem canon_int (s skip id t n) : canon s skip id t (.int n) = if isID s id then .str (toString n) else .int n := by
  rw [canon]
theorem canonList_eq_map (s skip id t) : ∀ xs, canonList s skip id t xs = xs.map (canon s skip id t)
  | [] => by rw [canonList]; rfl
  | x :: xs => by rw [canonList, canonList_eq_map s skip id t xs]; rfl

theorem canon_obj_input (s skip k t kvs i) (hi : s.inputs[k]? = some i) :
    canon s skip (.input k) t (.obj kvs) =
      if i.isOneOf then .obj (canonKvs s skip i.fields kvs)
      else .obj (assemble skip i.fields (canonKvs s skip i.fields kvs)) := by
  rw [canon]; simp only [inputOf, hi]

theorem canon_isNull (s skip id t) (j : Json) : (canon s skip id t j).isNull = j.isNull := by
  cases j with
  | null => rw [canon_null]
  | bool b => rw [canon_bool]
  | num v => rw [canon_num]
  | str v => rw [canon_str]
  | int n => rw [canon_int]; split <;> rfl
  | arr xs => rw [canon_arr]; rfl
  | obj kvs =>
    rw [canon]
    cases inputOf s id with
    | none => rfl
    | some i => simp only; split <;> rfl

/-- `!` is immaterial for the canonical form (it never changes a value, only forbids `null`) -/
theorem canon_nonNull (s skip id t) (j : Json) : canon s skip id (.nonNull t) j = canon s skip id t j := by
  cases j with
  | arr xs => rw [canon_arr, canon_arr]; rfl
  | obj kvs => rw [canon, canon]
  | null => rw [canon_null, canon_null]
  | bool b => rw [canon_bool, canon_bool]
  | num v => rw [canon_num, canon_num]
  | str v => rw [canon_str, canon_str]
  | int n => rw [canon_int, canon_int]

/-! ## 2. the values of the generated types (`Val` typing) -/

/-- `x` is a value of the Rust type `t` in the module `e` (the four built-in leaf names are resolved first, as in
    `Serde.dePath`) -/
inductive HasTy (e : Env) : RTy → Val → Prop
  | none {t} : HasTy e (.opt t) .unit
  | some {t x} : HasTy e t x → HasTy e (.opt t) (.some x)
  | vec {t xs} : (∀ x ∈ xs, HasTy e t x) → HasTy e (.vec t) (.list xs)
  | box {t x} : HasTy e t x → HasTy e (.box t) x
  | string {v} : HasTy e (.path "String") (.str v)
  | i64 {n} : inI64 n = true → HasTy e (.path "i64") (.int n)
  | f64 {j} : Spec.floatOk j = true → HasTy e (.path "f64") (.float j)
  | bool {b} : HasTy e (.path "bool") (.bool b)
  | alias {p n pub t x} : C01.notPrim p → e.find p = some (.alias n pub t) → HasTy e t x → HasTy e (.path p) x
  | extern {p q t x} : C01.notPrim p → e.find p = none → e.externs.find? (·.1 == p) = some (q, t) → HasTy e t x →
      HasTy e (.path p) x
  | struct {p n d sc fs vals} : C01.notPrim p → e.find p = some (.struct n d sc fs) →
      vals.map (·.1) = fs.map (·.rust) → (∀ f ∈ fs, HasTy e f.ty (C01.valOf vals f.rust)) →
      HasTy e (.path p) (.record vals)
  | unitStruct {p n d sc} : C01.notPrim p → e.find p = some (.unitStruct n d sc) → HasTy e (.path p) .unit
  | enumVariant {p n d sp vs ser de name} : C01.notPrim p → e.find p = some (.gqlEnum n d sp vs ser de) → name ∈ vs →
      HasTy e (.path p) (.variant name Option.none)
  | enumOther {p n d sp vs ser de v} : C01.notPrim p → e.find p = some (.gqlEnum n d sp vs ser de) →
      HasTy e (.path p) (.enumOther v)
  | oneOf {p n d sc vs var t x} : C01.notPrim p → e.find p = some (.oneOf n d sc vs) → var ∈ vs →
      var.payload = Option.some t → HasTy e t x → HasTy e (.path p) (.variant var.name (Option.some x))

/-! ## 3. closed form of the emitted input items (normalization `none`) -/

/-- `Box` is put on fields whose *target* is an input type on a cycle without indirection -/
def boxed (c : Ctx) (id : TypeId) : Bool :=
  match id.asInput? with
  | some iid => inputIsRecursive c.s iid
  | none => false

/-- the Rust type of a position of type `t` over the named type `id` -/
def fieldRTy (c : Ctx) (id : TypeId) (t : GTy) : RTy :=
  if boxed c id then .box (rustOf (.path (C02.tnOf c id)) t) else rustOf (.path (C02.tnOf c id)) t

def inputField (c : Ctx) (p : String × FieldType) : RField :=
  { rust := keywordReplace (c.cs.snake p.1), rename := fieldRename p.1 (keywordReplace (c.cs.snake p.1)),
    ty := fieldRTy c p.2.id (gty p.2), skipNone := c.o.skipNone && p.2.isOptional }

def inputVariant (c : Ctx) (p : String × FieldType) : RVariant :=
  { name := keywordReplace (c.cs.camel p.1), rename := fieldRename p.1 (keywordReplace (c.cs.camel p.1)),
    payload := some (fieldRTy c p.2.id (.nonNull (gty p.2))) }

def inputItemSpec (c : Ctx) (i : StoredInput) : Item :=
  if i.isOneOf then .oneOf i.name (allVariableDerives c.o) c.serdeCrate (i.fields.map (inputVariant c))
  else .struct i.name (allVariableDerives c.o) c.serdeCrate (i.fields.map (inputField c))

theorem isNN_ofQuals (n : String) (qs : List Qual) : isNN (ofQuals n qs) = (qs.head? == some .required) := by
  cases qs with
  | nil => rfl
  | cons q qs => cases q <;> rfl

theorem isOptional_eq (ft : FieldType) : ft.isOptional = !isNN (gty ft) := by
  unfold gty FieldType.isOptional
  rw [isNN_ofQuals]
  cases ft.quals with
  | nil => rfl
  | cons q qs => cases q <;> rfl

theorem inputField_wire (c : Ctx) (p : String × FieldType) : (inputField c p).wire = p.1 :=
  C11.input_wire_is_graphql_name _ _ _ _

theorem inputVariant_wire (c : Ctx) (p : String × FieldType) : (inputVariant c p).wire = p.1 :=
  C11.oneof_wire_is_graphql_name _ _ _

/-! ## 4. what the theorems need of the module (`InputEnv`) -/

/-- the Rust identifier of an enum value -/
def variantIdent (c : Ctx) (v : String) : String := keywordReplace (c.o.normalization.enumVariant c.cs v)

/-- the module `e` resolves the names of the used (`U`) scalars, enums and input types to the items the generator
    emits for them; custom scalars and extern enums are supplied by the consumer as `String` -/
structure InputEnv (c : Ctx) (e : Env) (U : TypeId → Prop) : Prop where
  int : e.find "Int" = some (.alias "Int" false (.path "i64"))
  float : e.find "Float" = some (.alias "Float" false (.path "f64"))
  boolean : e.find "Boolean" = some (.alias "Boolean" false (.path "bool"))
  id : e.find "ID" = some (.alias "ID" false (.path "String"))
  custom : ∀ k n, U (.scalar k) → c.s.scalars[k]? = some n → n ∉ Schema.defaultScalars →
    C01.notPrim n ∧ ∃ q, C01.notPrim q ∧ e.find n = some (.alias n false (.path q)) ∧ e.find q = none ∧
      e.externs.find? (·.1 == q) = some (q, .path "String")
  enums : ∀ k en, U (.enum k) → c.s.enums[k]? = some en → C01.notPrim en.name ∧
    ((e.find en.name = some (enumItem c en) ∧ (en.variants.map (variantIdent c)).Nodup) ∨
     (e.find en.name = none ∧ e.externs.find? (·.1 == en.name) = some (en.name, .path "String")))
  inputs : ∀ k i, U (.input k) → c.s.inputs[k]? = some i →
    C01.notPrim i.name ∧ e.find i.name = some (inputItemSpec c i)
  closed : ∀ k i, U (.input k) → c.s.inputs[k]? = some i → ∀ p ∈ i.fields,
    U p.2.id ∧ C02.Relevant p.2.id ∧ wf (gty p.2) = true ∧ (i.isOneOf = true → isNN (gty p.2) = false)
  fieldNames : ∀ k i, U (.input k) → c.s.inputs[k]? = some i → (i.fields.map (·.1)).Nodup
  members : ∀ k i, U (.input k) → c.s.inputs[k]? = some i →
    (i.isOneOf = false → (i.fields.map (fun p => (inputField c p).rust)).Nodup) ∧
    (i.isOneOf = true → (i.fields.map (fun p => (inputVariant c p).name)).Nodup)

end C04S
end GqlVerif
