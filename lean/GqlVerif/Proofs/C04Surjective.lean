import GqlVerif.Proofs.C05Body
import GqlVerif.Proofs.C02Response
import GqlVerif.Props.C12

/-!
# C04 (second half) — every valid variables assignment is expressible; what is written is valid

Files: `C04Surjective.lean` (this file: specification, canonical form, `Val` typing, what is needed of a module),
`C04SurjectiveExpress.lean` (`express_core`: the induction), `C04SurjectiveModule.lean` (closed forms of the emitted
input items, `inputEnv_of_module`, **`input_expressible`**, **`variables_expressible`**),
`C04SurjectiveSerValid.lean` (**`ser_valid`**, **`variables_ser_valid`**), `C04SurjectiveExamples.lean` (what `canon`
changes, an executable checker, a concrete instance of all hypotheses, the witnesses for what cannot be strengthened).

## Specification (GraphQL spec §3.10 Input Objects, §3.5 Scalars, §3.9 Enums, §3.12 wrapping types, §5.6 values)

`Valid L s id b t j`: the JSON value `j` is valid at a position whose type expression is `t` (only the `[ ]` / `!`
structure of `t` matters) over the named type `id`; `b = true`: non-null context.
* `null` exactly at nullable positions; lists (JSON arrays, element-wise) at list positions — the specification's
  coercion of a single value to a one-element list is **not** included;
* input object: a JSON object without repeated keys, all keys declared fields, every absent field nullable
  (defaults are ignored, as the generator does: every non-null field is required), every present value valid for the
  field's type — recursive input types need no special treatment: the recursion is on the derivation, i.e. on the
  JSON value;
* `@oneOf`: an object with exactly one member, a declared field, whose value is valid at the field's type made
  non-null;
* enum: a string; with `L.enumOpen = false` one of the schema's value names (**closed**, the specification), with
  `true` any string (**open world**, what the generated `Other(String)` variant accepts);
* scalars by name: `Int` an integer with `L.intOk` (`int32Ok`: the specification; `inI64`: the generated `i64`),
  `Float` any JSON number, `Boolean`, `String`, `ID` a string or an integer with `L.idInt`, every custom scalar a
  string (the consumer's type is taken to be `String`).
`Leaves.graphql` is the specification, `Leaves.wire` what the generated types can write.

`canon s skip id t j`: the **canonical form** the generated types write: members of every input object in declaration
order, every absent nullable member an explicit `null` (`skip = false`) / every `null` member dropped (`skip = true`:
`skip_serializing_none`), an integer at an `ID` position as its decimal string; nothing else changes
(`assemble_keys`, `assemble_lookup` in the examples file make this precise).

`HasTy e r x`: `x` is a value of the Rust type `r` in the module `e` ("a `Val` of the generated type").  The four
leaf names `String`/`i64`/`f64`/`bool` are resolved first, as `Serde.dePath` does.

`InputEnv c e U`: what the theorems need of the module `e`: the names of the used (`U`) scalars, enums, input types
resolve to the items the generator emits for them (closed forms `inputItemSpec`, `enumItem`), custom scalars / extern
enums to a consumer type `String`; distinct member identifiers.  `inputEnv_of_module` proves it for the module
`responseForQuery` emits.
-/
namespace GqlVerif
namespace C04S
open Codegen Serde C13

/-! ## 1. specification -/

/-- the leaf conventions the specification is parametric in -/
structure Leaves where
  /-- integers allowed at `Int` positions -/
  intOk : Int → Bool
  /-- integers allowed at `ID` positions (strings always are) -/
  idInt : Int → Bool
  /-- `true`: any string at an enum position; `false`: only the schema's value names -/
  enumOpen : Bool

/-- GraphQL `Int`: signed 32 bits (spec §3.5.1) -/
def int32Ok (n : Int) : Bool := -2147483648 ≤ n && n ≤ 2147483647

/-- the GraphQL specification: 32-bit `Int`, `ID` from a string or any integer, closed enums -/
def Leaves.graphql : Leaves := { intOk := int32Ok, idInt := fun _ => true, enumOpen := false }
/-- what the generated types write: 64-bit `Int` (`i64`), `ID` only as a string, open-world enums -/
def Leaves.wire : Leaves := { intOk := inI64, idInt := fun _ => false, enumOpen := true }

/-- a scalar value, by the *name* of the scalar; a custom scalar is whatever the consumer's type accepts: `String` -/
def scalarOk (L : Leaves) (n : String) (j : Json) : Bool :=
  if n == "Int" then (match j with | .int k => L.intOk k | _ => false)
  else if n == "Float" then Spec.floatOk j
  else if n == "Boolean" then Spec.boolOk j
  else if n == "ID" then (match j with | .str _ => true | .int k => L.idInt k | _ => false)
  else Spec.stringOk j

/-- the type expression with qualifier list `qs` (outer to inner) over the name `n` -/
def ofQuals (n : String) : List Qual → GTy
  | [] => .named n
  | .list :: qs => .list (ofQuals n qs)
  | .required :: qs => .nonNull (ofQuals n qs)

theorem quals_ofQuals (n : String) : ∀ qs : List Qual, (ofQuals n qs).quals = qs
  | [] => rfl
  | .list :: qs => by simp [ofQuals, GTy.quals, quals_ofQuals n qs]
  | .required :: qs => by simp [ofQuals, GTy.quals, quals_ofQuals n qs]

/-- the type expression of a resolved type; the named type is carried separately as a `TypeId`, the base name of
    the expression is immaterial -/
def gty (ft : FieldType) : GTy := ofQuals "" ft.quals

abbrev keys (kvs : List (String × Json)) : List String := kvs.map (·.1)

/-- **`validInput`**: `j` is a valid input value at a position of type `t` over the named type `id`
    (`b = true`: in non-null context) — see the header -/
inductive Valid (L : Leaves) (s : Schema) : TypeId → Bool → GTy → Json → Prop
  | null {id t} : isNN t = false → Valid L s id false t .null
  | some {id t j} : isNN t = false → Valid L s id true t j → Valid L s id false t j
  | bang {id b t j} : Valid L s id true t j → Valid L s id b (.nonNull t) j
  | list {id t xs} : (∀ x ∈ xs, Valid L s id false t x) → Valid L s id true (.list t) (.arr xs)
  | scalar {k n nm j} : s.scalars[k]? = some n → scalarOk L n j = true → Valid L s (.scalar k) true (.named nm) j
  | enum {k en nm v} : s.enums[k]? = some en → (L.enumOpen = true ∨ v ∈ en.variants) →
      Valid L s (.enum k) true (.named nm) (.str v)
  | object {k i nm kvs} : s.inputs[k]? = some i → i.isOneOf = false → (keys kvs).Nodup →
      (∀ key ∈ keys kvs, key ∈ i.fields.map (·.1)) →
      (∀ p ∈ i.fields, Json.lookup p.1 kvs = none → isNN (gty p.2) = false) →
      (∀ p ∈ i.fields, ∀ v, Json.lookup p.1 kvs = some v → Valid L s p.2.id false (gty p.2) v) →
      Valid L s (.input k) true (.named nm) (.obj kvs)
  | oneOf {k i nm p v} : s.inputs[k]? = some i → i.isOneOf = true → p ∈ i.fields →
      Valid L s p.2.id false (.nonNull (gty p.2)) v →
      Valid L s (.input k) true (.named nm) (.obj [(p.1, v)])

/-- element type of a list type (through `!`) -/
def elemTy : GTy → GTy
  | .nonNull t => elemTy t
  | .list t => t
  | .named n => .named n

/-- the named type is the scalar `ID` -/
def isID (s : Schema) : TypeId → Bool
  | .scalar k => s.scalars[k]? == some "ID"
  | _ => false

/-- the members of an input object in declaration order: absent = `null`; with `skip` the `null`s are dropped -/
def assemble (skip : Bool) (fields : List (String × FieldType)) (kvs : List (String × Json)) : List (String × Json) :=
  fields.filterMap fun p =>
    let v := (Json.lookup p.1 kvs).getD .null
    if skip && v.isNull then none else some (p.1, v)

/-- the input type behind an id -/
def inputOf (s : Schema) : TypeId → Option StoredInput
  | .input k => s.inputs[k]?
  | _ => none

mutual
  /-- **`canonInput`** — structural recursion on the JSON value; the type is only used to find the field lists of
      nested input objects and the `ID` positions -/
  def canon (s : Schema) (skip : Bool) : TypeId → GTy → Json → Json
    | id, t, .arr xs => .arr (canonList s skip id (elemTy t) xs)
    | id, _, .obj kvs =>
      match inputOf s id with
      | some i => if i.isOneOf then .obj (canonKvs s skip i.fields kvs)
                  else .obj (assemble skip i.fields (canonKvs s skip i.fields kvs))
      | none => .obj kvs
    | id, _, .int n => if isID s id then .str (toString n) else .int n
    | _, _, .null => .null
    | _, _, .bool b => .bool b
    | _, _, .num t => .num t
    | _, _, .str v => .str v
  def canonList (s : Schema) (skip : Bool) : TypeId → GTy → List Json → List Json
    | _, _, [] => []
    | id, t, x :: xs => canon s skip id t x :: canonList s skip id t xs
  def canonKvs (s : Schema) (skip : Bool) : List (String × FieldType) → List (String × Json) → List (String × Json)
    | _, [] => []
    | fields, (k, v) :: rest =>
      (k, match fields.find? (·.1 == k) with
          | some p => canon s skip p.2.id (gty p.2) v
          | none => v) :: canonKvs s skip fields rest
end


/-! ### unfolding `canon` -/

theorem canon_arr (s skip id t xs) : canon s skip id t (.arr xs) = .arr (canonList s skip id (elemTy t) xs) := by
  rw [canon]
theorem canon_null (s skip id t) : canon s skip id t .null = .null := by
  rw [canon]
theorem canon_str (s skip id t v) : canon s skip id t (.str v) = .str v := by
  rw [canon]
theorem canon_bool (s skip id t v) : canon s skip id t (.bool v) = .bool v := by
  rw [canon]
theorem canon_num (s skip id t v) : canon s skip id t (.num v) = .num v := by
  rw [canon]
theorem canon_int (s skip id t n) : canon s skip id t (.int n) = if isID s id then .str (toString n) else .int n := by
  rw [canon]
theorem canonList_eq_map (s skip id t) : ∀ xs, canonList s skip id t xs = xs.map (canon s skip id t)
  | [] => by rw [canonList]; rfl
  | x :: xs => by rw [canonList, canonList_eq_map s skip id t xs]; rfl

theorem canon_obj_input (s skip k t kvs i) (hi : s.inputs[k]? = some i) :
    canon s skip (.input k) t (.obj kvs) =
      if i.isOneOf then .obj (canonKvs s skip i.fields kvs)
      else .obj (assemble skip i.fields (canonKvs s skip i.fields kvs)) := by
  rw [canon]; simp only [inputOf, hi]

theorem canon_isNull (s skip id t) (j : Json) : (canon s skip id t j).isNull = j.isNull := by
  cases j with
  | null => rw [canon_null]
  | bool b => rw [canon_bool]
  | num v => rw [canon_num]
  | str v => rw [canon_str]
  | int n => rw [canon_int]; split <;> rfl
  | arr xs => rw [canon_arr]; rfl
  | obj kvs =>
    rw [canon]
    cases inputOf s id with
    | none => rfl
    | some i => simp only; split <;> rfl

/-- `!` is immaterial for the canonical form (it never changes a value, only forbids `null`) -/
theorem canon_nonNull (s skip id t) (j : Json) : canon s skip id (.nonNull t) j = canon s skip id t j := by
  cases j with
  | arr xs => rw [canon_arr, canon_arr]; rfl
  | obj kvs => rw [canon, canon]
  | null => rw [canon_null, canon_null]
  | bool b => rw [canon_bool, canon_bool]
  | num v => rw [canon_num, canon_num]
  | str v => rw [canon_str, canon_str]
  | int n => rw [canon_int, canon_int]

/-! ## 2. the values of the generated types (`Val` typing) -/

/-- `x` is a value of the Rust type `t` in the module `e` (the four built-in leaf names are resolved first, as in
    `Serde.dePath`) -/
inductive HasTy (e : Env) : RTy → Val → Prop
  | none {t} : HasTy e (.opt t) .unit
  | some {t x} : HasTy e t x → HasTy e (.opt t) (.some x)
  | vec {t xs} : (∀ x ∈ xs, HasTy e t x) → HasTy e (.vec t) (.list xs)
  | box {t x} : HasTy e t x → HasTy e (.box t) x
  | string {v} : HasTy e (.path "String") (.str v)
  | i64 {n} : inI64 n = true → HasTy e (.path "i64") (.int n)
  | f64 {j} : Spec.floatOk j = true → HasTy e (.path "f64") (.float j)
  | bool {b} : HasTy e (.path "bool") (.bool b)
  | alias {p n pub t x} : C01.notPrim p → e.find p = some (.alias n pub t) → HasTy e t x → HasTy e (.path p) x
  | extern {p q t x} : C01.notPrim p → e.find p = none → e.externs.find? (·.1 == p) = some (q, t) → HasTy e t x →
      HasTy e (.path p) x
  | struct {p n d sc fs vals} : C01.notPrim p → e.find p = some (.struct n d sc fs) →
      vals.map (·.1) = fs.map (·.rust) → (∀ f ∈ fs, HasTy e f.ty (C01.valOf vals f.rust)) →
      HasTy e (.path p) (.record vals)
  | unitStruct {p n d sc} : C01.notPrim p → e.find p = some (.unitStruct n d sc) → HasTy e (.path p) .unit
  | enumVariant {p n d sp vs ser de name} : C01.notPrim p → e.find p = some (.gqlEnum n d sp vs ser de) → name ∈ vs →
      HasTy e (.path p) (.variant name Option.none)
  | enumOther {p n d sp vs ser de v} : C01.notPrim p → e.find p = some (.gqlEnum n d sp vs ser de) →
      HasTy e (.path p) (.enumOther v)
  | oneOf {p n d sc vs var t x} : C01.notPrim p → e.find p = some (.oneOf n d sc vs) → var ∈ vs →
      var.payload = Option.some t → HasTy e t x → HasTy e (.path p) (.variant var.name (Option.some x))

/-! ## 3. closed form of the emitted input items (normalization `none`) -/

/-- `Box` is put on fields whose *target* is an input type on a cycle without indirection -/
def boxed (c : Ctx) (id : TypeId) : Bool :=
  match id.asInput? with
  | some iid => inputIsRecursive c.s iid
  | none => false

/-- the Rust type of a position of type `t` over the named type `id` -/
def fieldRTy (c : Ctx) (id : TypeId) (t : GTy) : RTy :=
  if boxed c id then .box (rustOf (.path (C02.tnOf c id)) t) else rustOf (.path (C02.tnOf c id)) t

def inputField (c : Ctx) (p : String × FieldType) : RField :=
  { rust := keywordReplace (c.cs.snake p.1), rename := fieldRename p.1 (keywordReplace (c.cs.snake p.1)),
    ty := fieldRTy c p.2.id (gty p.2), skipNone := c.o.skipNone && p.2.isOptional }

def inputVariant (c : Ctx) (p : String × FieldType) : RVariant :=
  { name := keywordReplace (c.cs.camel p.1), rename := fieldRename p.1 (keywordReplace (c.cs.camel p.1)),
    payload := some (fieldRTy c p.2.id (.nonNull (gty p.2))) }

def inputItemSpec (c : Ctx) (i : StoredInput) : Item :=
  if i.isOneOf then .oneOf i.name (allVariableDerives c.o) c.serdeCrate (i.fields.map (inputVariant c))
  else .struct i.name (allVariableDerives c.o) c.serdeCrate (i.fields.map (inputField c))

theorem isNN_ofQuals (n : String) (qs : List Qual) : isNN (ofQuals n qs) = (qs.head? == some .required) := by
  cases qs with
  | nil => rfl
  | cons q qs => cases q <;> rfl

theorem isOptional_eq (ft : FieldType) : ft.isOptional = !isNN (gty ft) := by
  unfold gty FieldType.isOptional
  rw [isNN_ofQuals]
  cases ft.quals with
  | nil => rfl
  | cons q qs => cases q <;> rfl

theorem inputField_wire (c : Ctx) (p : String × FieldType) : (inputField c p).wire = p.1 :=
  C11.input_wire_is_graphql_name _ _ _ _

theorem inputVariant_wire (c : Ctx) (p : String × FieldType) : (inputVariant c p).wire = p.1 :=
  C11.oneof_wire_is_graphql_name _ _ _

/-! ## 4. what the theorems need of the module (`InputEnv`) -/

/-- the Rust identifier of an enum value -/
def variantIdent (c : Ctx) (v : String) : String := enumVariantIdent c.o.normalization c.cs v

/-- the module `e` resolves the names of the used (`U`) scalars, enums and input types to the items the generator
    emits for them; custom scalars and extern enums are supplied by the consumer as `String` -/
structure InputEnv (c : Ctx) (e : Env) (U : TypeId → Prop) : Prop where
  int : e.find "Int" = some (.alias "Int" false (.path "i64"))
  float : e.find "Float" = some (.alias "Float" false (.path "f64"))
  boolean : e.find "Boolean" = some (.alias "Boolean" false (.path "bool"))
  id : e.find "ID" = some (.alias "ID" false (.path "String"))
  custom : ∀ k n, U (.scalar k) → c.s.scalars[k]? = some n → n ∉ Schema.defaultScalars →
    C01.notPrim n ∧ ∃ q, C01.notPrim q ∧ e.find n = some (.alias n false (.path q)) ∧ e.find q = none ∧
      e.externs.find? (·.1 == q) = some (q, .path "String")
  enums : ∀ k en, U (.enum k) → c.s.enums[k]? = some en → C01.notPrim en.name ∧
    ((e.find en.name = some (enumItem c en) ∧ (en.variants.map (variantIdent c)).Nodup) ∨
     (e.find en.name = none ∧ e.externs.find? (·.1 == en.name) = some (en.name, .path "String")))
  inputs : ∀ k i, U (.input k) → c.s.inputs[k]? = some i →
    C01.notPrim i.name ∧ e.find i.name = some (inputItemSpec c i)
  closed : ∀ k i, U (.input k) → c.s.inputs[k]? = some i → ∀ p ∈ i.fields,
    U p.2.id ∧ C02.Relevant p.2.id ∧ wf (gty p.2) = true ∧ (i.isOneOf = true → isNN (gty p.2) = false) ∧
    ∃ tn, c.s.typeName p.2.id = .ok tn
  fieldNames : ∀ k i, U (.input k) → c.s.inputs[k]? = some i → (i.fields.map (·.1)).Nodup
  members : ∀ k i, U (.input k) → c.s.inputs[k]? = some i →
    (i.isOneOf = false → (i.fields.map (fun p => (inputField c p).rust)).Nodup) ∧
    (i.isOneOf = true → (i.fields.map (fun p => (inputVariant c p).name)).Nodup)

end C04S
end GqlVerif
