import GqlVerif.Proofs.C14GeneratedFrag
/-!
# P26 (3/4, part 5) — `FragOpD`, part B: the emitted module and `KeyFree` through flattened fragment structs

* `responseForQuery_partsF` — the module is `builtinAliases ++ … ++ frags.flatten ++ resp` with
  `(sortNat u.fragments).mapM (fragmentItems c) = .ok frags`;
* `NodeF` — the nodes of the operation's selection tree (struct **or** type alias); `nodeF_env`: what the node's name
  resolves to in `moduleEnv c items` (the struct with members `fieldsOfFD`, or the alias to the fragment), and — for every
  fragment spread at the node — that the fragment's struct is in the module with members `fieldsOfD` of its body
  (`C02.spread_fragments_used`: a reachable spread is a used fragment);
* `collectedKept c sels` — the kept keys of the selection set **and of the bodies of the fragments spread in it** (the
  field set GraphQL's CollectFields gives);
* `keyFree_of_struct_flat`, `keyFree_of_alias` — `KeyFree` at a struct with flatten members / at an alias, from its parts;
* **`fragnode_keyFree`** — `FragOpD`, `responseForQuery = .ok items`, names distinct, a node of the operation's tree:
  every key outside `collectedKept c sels` is `KeyFree` at the node's name — a struct with `#[serde(flatten)]` members
  or a type alias: `KeyFree` is *not* "not an own wire name" here;
  **`denied_field_keyFree_frag`** — in particular the key of a field denied in the selection set itself **or in the body
  of a fragment spread in it**, if no kept selection of the collected set has that key;
  `collected_key_not_keyFree` — the side condition is needed (a collected kept key is read);
* `fragbody_node` — the nodes *inside* a spread fragment's body are `TreeOpD` nodes: `keyFree_of_struct` applies.
-/
set_option linter.unusedSimpArgs false
set_option linter.unusedSectionVars false
set_option linter.unusedVariables false

namespace GqlVerif
namespace C14G
open Serde Composed SerdeFuel Codegen C13 C01 C01.E2E

/-! ## `KeyFree` from the parts of an item -/

theorem keyFree_of_struct_flat {e : Env} {k p n : String} {d : List String} {sc : Option String} {fs : List RField}
    (hfind : e.find p = some (.struct n d sc fs)) (hown : ∀ f ∈ fs, f.flatten = false → f.wire ≠ k)
    (hflat : ∀ f ∈ fs, f.flatten = true → KeyFree e k (Scope.leaf f.ty)) : KeyFree e k p := by
  intro q hq it hf
  cases hq with
  | refl =>
    rw [hfind] at hf
    cases hf
    simp only [itemOK, List.all_eq_true, Bool.or_eq_true, bne_iff_ne, ne_eq]
    intro f hf'
    cases hfl : f.flatten
    · exact .inr (hown f hf' hfl)
    · exact .inl rfl
  | item hf' hq' hr =>
    rw [hfind] at hf'
    cases hf'
    simp only [sameLevel, List.mem_map, List.mem_filter] at hq'
    obtain ⟨f, ⟨hm, hfl⟩, rfl⟩ := hq'
    exact hflat f hm hfl q hr it hf
  | extern hn _ _ => rw [hfind] at hn; cases hn

theorem keyFree_of_alias {e : Env} {k p n : String} {pub : Bool} {t : RTy}
    (hfind : e.find p = some (.alias n pub t)) (ht : KeyFree e k (Scope.leaf t)) : KeyFree e k p := by
  intro q hq it hf
  cases hq with
  | refl => rw [hfind] at hf; cases hf; rfl
  | item hf' hq' hr =>
    rw [hfind] at hf'
    cases hf'
    simp only [sameLevel, List.mem_singleton] at hq'
    subst hq'
    exact ht q hr it hf
  | extern hn _ _ => rw [hfind] at hn; cases hn

/-! ## the emitted module -/

theorem responseForQuery_partsF {c : Ctx} {opIdx : Nat} {items : List Item}
    (h : responseForQuery c opIdx = .ok items) :
    ∃ u pre frags o resp, allUsedTypes c.s c.q opIdx = .ok u ∧
      (sortNat u.fragments).mapM (fragmentItems c) = .ok frags ∧
      c.q.operations[opIdx]? = some o ∧ responseItems c o = .ok resp ∧
      items = builtinAliases ++ pre ++ frags.flatten ++ resp := by
  unfold responseForQuery at h
  obtain ⟨u, hu, h⟩ := C02.bind_ok h
  obtain ⟨S, _, h⟩ := C02.bind_ok h
  obtain ⟨E, _, h⟩ := C02.bind_ok h
  obtain ⟨F, hF, h⟩ := C02.bind_ok h
  obtain ⟨I, _, h⟩ := C02.bind_ok h
  obtain ⟨V, _, h⟩ := C02.bind_ok h
  obtain ⟨o, ho, h⟩ := C02.bind_ok h
  obtain ⟨resp, hresp, h⟩ := C02.bind_ok h
  simp only [pure, Except.pure, Except.ok.injEq] at h
  exact ⟨u, S ++ E ++ I ++ V, F, o, resp, hu, hF, C02.getOperation_ok ho, hresp, by rw [← h]; simp⟩

/-! ## nodes of the operation's selection tree -/

/-- `name` / `pfx` / `i` / `sels`: name, path prefix, object type and selection set of a node below the node
    `root` / `pfx₀` / `i₀` / `sels₀` (through object-typed field selections) -/
inductive NodeF (c : Ctx) : String → String → Nat → List Sel → String → String → Nat → List Sel → Prop
  | here (name pfx : String) (i : Nat) (sels : List Sel) : NodeF c name pfx i sels name pfx i sels
  | step {root pfx₀ : String} {i₀ : Nat} {sels₀ : List Sel} {a : Option String} {fid : Nat} {sub : List Sel} {sf : StoredField}
      {j : Nat} {name pfx : String} {i : Nat} {sels : List Sel} :
      Sel.field a fid sub ∈ sels₀ → c.s.fields[fid]? = some sf → sf.ty.id = .object j →
      NodeF c (pfx₀ ++ c.cs.camel (a.getD sf.name)) (pfx₀ ++ c.cs.camel (a.getD sf.name)) j sub name pfx i sels →
      NodeF c root pfx₀ i₀ sels₀ name pfx i sels

theorem itemsFsD_mem {c : Ctx} {pfx : String} {x : Sel} {it : Item} : ∀ {xs : List Sel}, x ∈ xs →
    it ∈ itemsFD c pfx x → it ∈ itemsFsD c pfx xs
  | [], h, _ => by simp at h
  | y :: ys, h, hit => by
    rw [itemsFsD]
    rcases List.mem_cons.mp h with rfl | h
    · exact List.mem_append_left _ hit
    · exact List.mem_append_right _ (itemsFsD_mem h hit)

theorem mem_not_lone {a : Option String} {fid : Nat} {sub sels : List Sel} (h : Sel.field a fid sub ∈ sels) :
    ∀ g, sels ≠ [Sel.spread g] := by
  intro g hg
  rw [hg] at h
  simp at h

/-- a node's own items are among the items of the root body, its selection set is a body of the class, and every
    selection reachable from the node is reachable from the root -/
theorem nodeF_item {c : Ctx} {root pfx₀ name pfx : String} {i₀ i : Nat} {sels₀ sels : List Sel}
    (h : NodeF c root pfx₀ i₀ sels₀ name pfx i sels) (ht : fBodyD c (.object i₀) sels₀ = true) :
    (∀ it ∈ bodyItemsFD c name pfx sels, it ∈ bodyItemsFD c root pfx₀ sels₀) ∧
    fBodyD c (.object i) sels = true ∧ (∀ x, C02.Reach c.q sels x → C02.Reach c.q sels₀ x) := by
  induction h with
  | here name pfx i sels => exact ⟨fun _ h => h, ht, fun _ h => h⟩
  | @step root pfx₀ i₀ sels₀ a fid sub sf j name pfx i sels hmem hsf hid _ ih =>
    have hnl := mem_not_lone hmem
    rw [fBodyD_not_lone hnl, Bool.and_eq_true] at ht
    have hx := fSelD_of_mem ht.1 hmem
    obtain ⟨h1, h2, h3⟩ := ih (fSelD_object hsf hid hx).2
    refine ⟨fun it hit => ?_, h2, fun x hx' => ?_⟩
    · rw [bodyItemsFD_not_lone c root pfx₀ hnl]
      refine List.mem_cons_of_mem _ (itemsFsD_mem hmem ?_)
      rw [itemsFD_object hsf hid]
      exact h1 it hit
    · have := h3 x hx'
      -- a selection reachable from the sub-selection is reachable through the field
      clear h1 h2 h3 ih
      induction this with
      | here hm => exact .field hmem (.here hm)
      | field hm _ ih' => exact .field hmem (.field hm ‹_›)
      | inline hm _ ih' => exact .field hmem (.inline hm ‹_›)
      | spread hm hf _ ih' => exact .field hmem (.spread hm hf ‹_›)

/-! ## the collected field set -/

/-- the fragments spread in a selection set -/
def spreadFrags (c : Ctx) (sels : List Sel) : List RFragment :=
  sels.filterMap (fun x => match x with | .spread g => c.q.fragments[g]? | _ => none)

/-- the kept keys of the selection set and of the bodies of the fragments spread in it -/
def collectedKept (c : Ctx) (sels : List Sel) : List String :=
  keptKeys c sels ++ (spreadFrags c sels).flatMap (fun f => keptKeys c f.sels)

/-- the denied keys of the selection set and of the bodies of the fragments spread in it -/
def collectedDenied (c : Ctx) (sels : List Sel) : List String :=
  deniedKeys c sels ++ (spreadFrags c sels).flatMap (fun f => deniedKeys c f.sels)

theorem mem_spreadFrags {c : Ctx} {sels : List Sel} {f : RFragment} :
    f ∈ spreadFrags c sels ↔ ∃ g, Sel.spread g ∈ sels ∧ c.q.fragments[g]? = some f := by
  unfold spreadFrags
  rw [List.mem_filterMap]
  constructor
  · rintro ⟨x, hx, hfx⟩
    cases x with
    | spread g => exact ⟨g, hx, hfx⟩
    | field a fid sub => simp at hfx
    | inline t sub => simp at hfx
    | typename => simp at hfx
  · rintro ⟨g, hg, hf⟩
    exact ⟨_, hg, hf⟩

/-! ## members of the struct of a node -/

theorem fieldOfSelFD_cases {c : Ctx} {pfx : String} {x : Sel} {f : RField} (h : fieldOfSelFD c pfx x = some f) :
    (f.flatten = false ∧ keptKey c x = some f.wire) ∨
    (∃ g fr, x = .spread g ∧ c.q.fragments[g]? = some fr ∧ f = spreadField c fr) := by
  cases x with
  | spread g =>
    right
    simp only [fieldOfSelFD, Option.map_eq_some_iff] at h
    obtain ⟨fr, hfr, rfl⟩ := h
    exact ⟨g, fr, rfl, hfr, rfl⟩
  | field a fid sub =>
    left
    have h' : fieldOfSelD c pfx (.field a fid sub) = some f := h
    obtain ⟨h1, h2⟩ := fieldOfSelD_wire h'
    exact ⟨h2, h1⟩
  | inline t sub => simp [fieldOfSelFD, fieldOfSelD] at h
  | typename => simp [fieldOfSelFD, fieldOfSelD] at h

/-- a member of the struct of a node: an own kept field (its wire name is a kept key), or the flattened member of a spread -/
theorem mem_fieldsOfFD {c : Ctx} {pfx : String} {sels : List Sel} {f : RField} (h : f ∈ fieldsOfFD c pfx sels) :
    (f.flatten = false ∧ f.wire ∈ keptKeys c sels) ∨
    (f.flatten = true ∧ ∃ fr ∈ spreadFrags c sels, f.ty = .path fr.name) := by
  obtain ⟨x, hx, hfx⟩ := List.mem_filterMap.mp h
  rcases fieldOfSelFD_cases hfx with ⟨h1, h2⟩ | ⟨g, fr, rfl, hfr, rfl⟩
  · exact .inl ⟨h1, List.mem_filterMap.mpr ⟨x, hx, h2⟩⟩
  · exact .inr ⟨rfl, fr, mem_spreadFrags.mpr ⟨g, hx, hfr⟩, rfl⟩

/-! ## what the names of a node resolve to in the emitted module -/

/-- the facts about the module that the `KeyFree` link and the eraser need, for one node of the operation's tree -/
structure NodeEnv (e : Env) (c : Ctx) (name pfx : String) (i : Nat) (sels : List Sel) : Prop where
  /-- the node itself: a struct with members `fieldsOfFD`, or — for a lone spread — an alias to the fragment -/
  self : (∀ g, sels ≠ [Sel.spread g]) → e.find name = some (.struct name c.respDerives c.serdeCrate (fieldsOfFD c pfx sels))
  lone : ∀ g, sels = [Sel.spread g] → e.find name = some (aliasItem name (fragName c g) false)
  /-- every spread names a fragment of the document -/
  known : ∀ g, Sel.spread g ∈ sels → ∃ f, c.q.fragments[g]? = some f
  /-- every fragment spread at the node: its struct, with the members of the `TreeOpD` closed form of its body -/
  frag : ∀ f ∈ spreadFrags c sels, f.on = .object i ∧ treeSelsD c f.sels = true ∧ EnumSpec.nodup (keptKeys c f.sels) = true ∧
    e.find f.name = some (.struct f.name c.respDerives c.serdeCrate (fieldsOfD c (c.cs.camel f.name) f.sels)) ∧
    ∀ it ∈ itemsOfSelsD c (c.cs.camel f.name) f.sels, it ∈ e.items

theorem spread_fragOkD {c : Ctx} {i : Nat} {sels : List Sel} (hb : fBodyD c (.object i) sels = true) {g : Nat}
    (hg : Sel.spread g ∈ sels) : fragOkD c (.object i) g = true := by
  by_cases hl : ∃ g', sels = [Sel.spread g']
  · obtain ⟨g', rfl⟩ := hl
    simp only [List.mem_singleton, Sel.spread.injEq] at hg
    subst hg
    exact hb
  · rw [fBodyD_not_lone (fun g' h => hl ⟨g', h⟩), Bool.and_eq_true] at hb
    have := fSelD_of_mem hb.1 hg
    simpa [fSelD] using this

/-- **the names of a node of the operation's tree in the environment of the emitted module** -/
theorem nodeF_env (c : Ctx) (opIdx : Nat) (op : ROperation) (items : List Item)
    (hop : c.q.operations[opIdx]? = some op) (ht : FragOpD c op = true)
    (hgen : responseForQuery c opIdx = .ok items) (hnd : EnumSpec.nodup (items.map (·.name)) = true)
    {name pfx : String} {i : Nat} {sels : List Sel}
    (hnode : NodeF c "ResponseData" (c.cs.camel op.name) op.objectId op.sels name pfx i sels) :
    NodeEnv (moduleEnv c items) c name pfx i sels ∧ fBodyD c (.object i) sels = true := by
  obtain ⟨hn, hbody⟩ := fragOpD_parts ht
  obtain ⟨u, pre, frags, o, resp, hu, hF, ho, hresp, hitems⟩ := responseForQuery_partsF hgen
  rw [hop] at ho; cases ho
  rw [frag_items_shapeD c op (List.mem_of_getElem? hop) ht] at hresp
  cases hresp
  have hnd' := nodup_iff'.mp hnd
  obtain ⟨hsub, hb, hreach⟩ := nodeF_item hnode hbody
  have hin : ∀ it ∈ bodyItemsFD c name pfx sels, it ∈ items := by
    intro it hit; rw [hitems]; exact List.mem_append_right _ (hsub it hit)
  refine ⟨⟨fun hnl => ?_, fun g hg => ?_, fun g hg => ?_, fun f hf => ?_⟩, hb⟩
  · have := hin _ (by rw [bodyItemsFD_not_lone c name pfx hnl]; exact List.mem_cons_self)
    exact find_of_mem (customExterns c) hnd' this
  · have := hin (aliasItem name (fragName c g) false) (by rw [hg]; simp [bodyItemsFD])
    exact find_of_mem (customExterns c) hnd' this
  · obtain ⟨f, hf, _⟩ := fragOkD_parts (spread_fragOkD hb hg)
    exact ⟨f, hf⟩
  · obtain ⟨g, hg, hfr⟩ := mem_spreadFrags.mp hf
    have hok := spread_fragOkD hb hg
    obtain ⟨f', hf', hon, _, hv, hk⟩ := fragOkD_parts hok
    rw [hfr] at hf'; cases hf'
    obtain ⟨f'', hf'', hshape⟩ := frag_struct_shapeD c hn i g hok
    rw [hfr] at hf''; cases hf''
    have hused : g ∈ u.fragments :=
      C02.spread_fragments_used c.s c.q opIdx u hu op hop g (hreach _ (.here hg))
    obtain ⟨its, hits, hgi⟩ := C02.mapM_ok_of_mem hF g ((C02.mem_sortNat _ _).mpr hused)
    rw [hshape] at hgi
    cases hgi
    have hinF : ∀ it ∈ structItemsD c f.name (c.cs.camel f.name) f.sels, it ∈ items := by
      intro it hit
      rw [hitems]
      exact List.mem_append_left _ (List.mem_append_right _ (List.mem_flatten.mpr ⟨_, hits, hit⟩))
    refine ⟨hon, hv, hk, ?_, fun it hit => hinF it (by simp [structItemsD, hit])⟩
    exact find_of_mem (customExterns c) hnd' (hinF _ (by unfold structItemsD; exact List.mem_cons_self))

/-! ## `KeyFree` at a node -/

/-- `KeyFree` at the struct of a spread fragment (no flatten member there): "not a kept key of its body" -/
theorem frag_struct_keyFree {e : Env} {c : Ctx} {name pfx : String} {i : Nat} {sels : List Sel}
    (henv : NodeEnv e c name pfx i sels) {f : RFragment} (hf : f ∈ spreadFrags c sels) {k : String}
    (hk : k ∉ keptKeys c f.sels) : KeyFree e k f.name := by
  obtain ⟨_, _, _, hfind, _⟩ := henv.frag f hf
  exact keyFree_of_struct hfind (fun m hm => (wire_mem_keptKeys hm).2)
    (fun m hm hw => hk (hw ▸ (wire_mem_keptKeys hm).1))

/-- **`KeyFree` at a node of the class, through the flattened fragment structs**: every key outside the collected kept
    keys -/
theorem nodeEnv_keyFree {e : Env} {c : Ctx} {name pfx : String} {i : Nat} {sels : List Sel}
    (henv : NodeEnv e c name pfx i sels) {k : String} (hk : k ∉ collectedKept c sels) : KeyFree e k name := by
  simp only [collectedKept, List.mem_append, List.mem_flatMap, not_or, not_exists, not_and] at hk
  by_cases hl : ∃ g, sels = [Sel.spread g]
  · obtain ⟨g, hg⟩ := hl
    have hfind := henv.lone g hg
    obtain ⟨fr, hfr⟩ := henv.known g (by rw [hg]; simp)
    have hmem : fr ∈ spreadFrags c sels := mem_spreadFrags.mpr ⟨g, by rw [hg]; simp, hfr⟩
    refine keyFree_of_alias hfind ?_
    simp only [fragName, hfr, Bool.false_eq_true, ↓reduceIte, Scope.leaf]
    exact frag_struct_keyFree henv hmem (hk.2 fr hmem)
  · have hfind := henv.self (fun g h => hl ⟨g, h⟩)
    refine keyFree_of_struct_flat hfind (fun f hf hfl hw => ?_) (fun f hf hfl => ?_)
    · rcases mem_fieldsOfFD hf with ⟨_, h2⟩ | ⟨h1, _⟩
      · exact hk.1 (hw ▸ h2)
      · rw [hfl] at h1; cases h1
    · rcases mem_fieldsOfFD hf with ⟨h1, _⟩ | ⟨_, fr, hfr, hty⟩
      · rw [hfl] at h1; cases h1
      · rw [hty]
        exact frag_struct_keyFree henv hfr (hk.2 fr hfr)

/-! ## the generator link for `FragOpD` -/

/-- **every key outside the collected kept keys is `KeyFree` at a node of the operation's tree** — a struct with
    `#[serde(flatten)]` members, or a type alias to a fragment struct -/
theorem fragnode_keyFree (c : Ctx) (opIdx : Nat) (op : ROperation) (items : List Item)
    (hop : c.q.operations[opIdx]? = some op) (ht : FragOpD c op = true)
    (hgen : responseForQuery c opIdx = .ok items) (hnd : EnumSpec.nodup (items.map (·.name)) = true)
    {name pfx : String} {i : Nat} {sels : List Sel}
    (hnode : NodeF c "ResponseData" (c.cs.camel op.name) op.objectId op.sels name pfx i sels)
    {k : String} (hk : k ∉ collectedKept c sels) : KeyFree (moduleEnv c items) k name :=
  nodeEnv_keyFree (nodeF_env c opIdx op items hop ht hgen hnd hnode).1 hk

theorem denied_mem_collected {c : Ctx} {sels body : List Sel}
    (hbody : body = sels ∨ ∃ f ∈ spreadFrags c sels, body = f.sels)
    {a : Option String} {fid : Nat} {sub : List Sel} {sf : StoredField}
    (hsel : Sel.field a fid sub ∈ body) (hsf : c.s.fields[fid]? = some sf)
    (hdep : sf.deprecation.isSome = true) (hdeny : c.o.deprecation = .deny) :
    a.getD sf.name ∈ collectedDenied c sels := by
  have := denied_mem_deniedKeys hsel hsf hdep hdeny
  simp only [collectedDenied, List.mem_append, List.mem_flatMap]
  rcases hbody with rfl | ⟨f, hf, rfl⟩
  · exact .inl this
  · exact .inr ⟨f, hf, this⟩

/-- **the generator link through flattened fragment structs** (reviewer finding 5, `FragmentOp` part): under `deny`, a
    deprecated field with response key `k` selected in the selection set of a node **or in the body of a fragment spread
    there** is omitted, and `k` is `KeyFree` at the node's name (struct with flattened members / alias) — provided no
    kept selection of the collected field set has the key `k` -/
theorem denied_field_keyFree_frag (c : Ctx) (opIdx : Nat) (op : ROperation) (items : List Item)
    (hop : c.q.operations[opIdx]? = some op) (ht : FragOpD c op = true)
    (hgen : responseForQuery c opIdx = .ok items) (hnd : EnumSpec.nodup (items.map (·.name)) = true)
    {name pfx : String} {i : Nat} {sels : List Sel}
    (hnode : NodeF c "ResponseData" (c.cs.camel op.name) op.objectId op.sels name pfx i sels)
    {body : List Sel} (hbody : body = sels ∨ ∃ f ∈ spreadFrags c sels, body = f.sels)
    {a : Option String} {fid : Nat} {sub : List Sel} {sf : StoredField}
    (hsel : Sel.field a fid sub ∈ body) (hsf : c.s.fields[fid]? = some sf)
    (hdep : sf.deprecation.isSome = true) (hdeny : c.o.deprecation = .deny)
    (hsib : a.getD sf.name ∉ collectedKept c sels) :
    a.getD sf.name ∈ collectedDenied c sels ∧ KeyFree (moduleEnv c items) (a.getD sf.name) name :=
  ⟨denied_mem_collected hbody hsel hsf hdep hdeny, fragnode_keyFree c opIdx op items hop ht hgen hnd hnode hsib⟩

/-! ### the side condition is needed: a collected kept key is read -/

theorem kept_member {c : Ctx} {p : TypeId} {pfx : String} {x : Sel} {k : String} (hx : fSelD c p x = true)
    (hk : keptKey c x = some k) : ∃ f, fieldOfSelD c pfx x = some f ∧ f.wire = k ∧ f.flatten = false := by
  cases x with
  | field a fid sub =>
    rw [fSelD] at hx
    simp only [keptKey] at hk
    cases hsf : c.s.fields[fid]? with
    | none => simp [hsf] at hx
    | some sf =>
      simp only [hsf, Bool.and_eq_true] at hx hk
      by_cases hd : isDenied c sf = true
      · simp [hd] at hk
      · simp only [hd, Bool.false_eq_true, ↓reduceIte, Option.some.injEq] at hk
        have hty := hx.2
        have key : ∀ ft, leafName c pfx (a.getD sf.name) sf.ty.id = some ft →
            ∃ f, fieldOfSelD c pfx (.field a fid sub) = some f ∧ f.wire = k ∧ f.flatten = false := by
          intro ft hft
          refine ⟨fieldOf c (a.getD sf.name) ft sf.ty.quals sf.deprecation, ?_, ?_, rfl⟩
          · simp [fieldOfSelD, hsf, hd, hft]
          · rw [fieldOf_wire]; exact hk
        cases hid : sf.ty.id with
        | scalar j =>
          simp only [hid, Bool.and_eq_true] at hty
          cases hj : c.s.scalars[j]? with
          | none => simp [hj] at hty
          | some sn => exact key sn (by simp [leafName, hid, hj])
        | enum j =>
          simp only [hid, Bool.and_eq_true] at hty
          cases hj : c.s.enums[j]? with
          | none => simp [hj] at hty
          | some en => exact key en.name (by simp [leafName, hid, hj])
        | object j => exact key (pfx ++ c.cs.camel (a.getD sf.name)) (by simp [leafName, hid])
        | interface j => simp [hid] at hty
        | union j => simp [hid] at hty
        | input j => simp [hid] at hty
  | spread g => simp [keptKey] at hk
  | inline t sub => simp [keptKey] at hk
  | typename => simp [keptKey] at hk

/-- a kept key of a `TreeOpD` selection set is the wire name of a member of its struct -/
theorem kept_member_tree {c : Ctx} {pfx : String} {sels : List Sel} (ht : treeSelsD c sels = true) {k : String}
    (hk : k ∈ keptKeys c sels) : ∃ f ∈ fieldsOfD c pfx sels, f.wire = k ∧ f.flatten = false := by
  rw [← fieldsOfD_wires c pfx sels ht] at hk
  obtain ⟨f, hf, hw⟩ := List.mem_map.mp hk
  exact ⟨f, hf, hw, (wire_mem_keptKeys hf).2⟩

/-- **a collected kept key is read at the node** (so the side condition of `denied_field_keyFree_frag` cannot be dropped):
    by an own member of the struct, or by a member of a fragment struct flattened into it / aliased by it -/
theorem collected_key_not_keyFree (c : Ctx) (opIdx : Nat) (op : ROperation) (items : List Item)
    (hop : c.q.operations[opIdx]? = some op) (ht : FragOpD c op = true)
    (hgen : responseForQuery c opIdx = .ok items) (hnd : EnumSpec.nodup (items.map (·.name)) = true)
    {name pfx : String} {i : Nat} {sels : List Sel}
    (hnode : NodeF c "ResponseData" (c.cs.camel op.name) op.objectId op.sels name pfx i sels)
    {k : String} (hk : k ∈ collectedKept c sels) : ¬ KeyFree (moduleEnv c items) k name := by
  obtain ⟨henv, hb⟩ := nodeF_env c opIdx op items hop ht hgen hnd hnode
  simp only [collectedKept, List.mem_append, List.mem_flatMap] at hk
  intro hkf
  -- the fragment struct reached from the node, for a spread fragment
  have reachFrag : ∀ fr ∈ spreadFrags c sels, Composed.Reach (moduleEnv c items) name fr.name := by
    intro fr hfr
    obtain ⟨g, hg, hfrg⟩ := mem_spreadFrags.mp hfr
    by_cases hl : ∃ g', sels = [Sel.spread g']
    · obtain ⟨g', hg'⟩ := hl
      have : g = g' := by rw [hg'] at hg; simpa using hg
      subst this
      refine .item (henv.lone g hg') ?_ (.refl _)
      simp [sameLevel, aliasItem, fragName, hfrg, Scope.leaf]
    · refine .item (henv.self (fun g' h => hl ⟨g', h⟩)) ?_ (.refl _)
      simp only [sameLevel, List.mem_map, List.mem_filter]
      refine ⟨spreadField c fr, ⟨List.mem_filterMap.mpr ⟨.spread g, hg, by simp [fieldOfSelFD, hfrg]⟩, rfl⟩, rfl⟩
  rcases hk with hk | ⟨fr, hfr, hk⟩
  · -- an own kept key
    obtain ⟨x, hx, hkx⟩ := List.mem_filterMap.mp hk
    have hnl : ∀ g, sels ≠ [Sel.spread g] := by
      intro g hg; rw [hg] at hx; simp only [List.mem_singleton] at hx; subst hx; simp [keptKey] at hkx
    rw [fBodyD_not_lone hnl, Bool.and_eq_true] at hb
    obtain ⟨f, hf, hw, hfl⟩ := kept_member (pfx := pfx) (fSelD_of_mem hb.1 hx) hkx
    have hmem : f ∈ fieldsOfFD c pfx sels := by
      refine List.mem_filterMap.mpr ⟨x, hx, ?_⟩
      cases x with
      | spread g => simp [keptKey] at hkx
      | field a fid sub => exact hf
      | inline t sub => exact hf
      | typename => exact hf
    exact not_keyFree_of_member (henv.self hnl) hmem hfl hw hkf
  · -- a kept key of a spread fragment's body
    obtain ⟨_, hv, _, hfind, _⟩ := henv.frag fr hfr
    obtain ⟨f, hf, hw, hfl⟩ := kept_member_tree (pfx := c.cs.camel fr.name) hv hk
    have := hkf fr.name (reachFrag fr hfr) _ hfind
    simp only [itemOK, List.all_eq_true, Bool.or_eq_true, bne_iff_ne, ne_eq] at this
    rcases this f hf with h | h
    · rw [hfl] at h; cases h
    · exact h hw

/-! ### nodes inside a fragment body are `TreeOpD` nodes -/

/-- a node inside the body of a fragment spread at a node of the operation's tree: its struct in the module, and
    `KeyFree` there is "not a kept key" (no flatten member below a fragment in this class) -/
theorem fragbody_node (c : Ctx) (opIdx : Nat) (op : ROperation) (items : List Item)
    (hop : c.q.operations[opIdx]? = some op) (ht : FragOpD c op = true)
    (hgen : responseForQuery c opIdx = .ok items) (hnd : EnumSpec.nodup (items.map (·.name)) = true)
    {name pfx : String} {i : Nat} {sels : List Sel}
    (hnode : NodeF c "ResponseData" (c.cs.camel op.name) op.objectId op.sels name pfx i sels)
    {fr : RFragment} (hfr : fr ∈ spreadFrags c sels) {name' pfx' : String} {sels' : List Sel}
    (hn' : Node c fr.name (c.cs.camel fr.name) fr.sels name' pfx' sels') :
    (moduleEnv c items).find name' = some (.struct name' c.respDerives c.serdeCrate (fieldsOfD c pfx' sels')) ∧
    ∀ k, k ∉ keptKeys c sels' → KeyFree (moduleEnv c items) k name' := by
  obtain ⟨henv, _⟩ := nodeF_env c opIdx op items hop ht hgen hnd hnode
  obtain ⟨_, hv, hk, hfind, hsub⟩ := henv.frag fr hfr
  obtain ⟨hmem, _, _⟩ := node_item hn' hv hk
  have hin : Item.struct name' c.respDerives c.serdeCrate (fieldsOfD c pfx' sels') ∈ items := by
    simp only [structItemsD, List.mem_cons] at hmem
    rcases hmem with h | h
    · have := List.mem_of_find?_eq_some hfind
      rw [h]; exact this
    · exact hsub _ h
  have hfind' := find_of_mem (customExterns c) (nodup_iff'.mp hnd) hin
  exact ⟨hfind', fun k hk' => keyFree_of_struct hfind' (fun f hf => (wire_mem_keptKeys hf).2)
    (fun f hf hw => hk' (hw ▸ (wire_mem_keptKeys hf).1))⟩

end C14G
end GqlVerif
