import GqlVerif.Proofs.C01RecursiveE
/-!
# C01 / C03, spreads at abstract positions (part 2 of the task): what the model does on concrete shapes

No universally quantified `variantspread_*` theorems are proved here (see the report of task P12).  This file records, on
the model's own functions and a concrete schema (`vxSchema` of `C01Abstract`: `interface Character { name }`,
`Human implements Character { name height }`, `Droid implements Character { name primaryFunction }`):

* **the formerly false statement, now positive** — `variantspread_alias_keeps_sibling`: when one of the selections on a
  variant is an inline fragment whose body is a lone spread (`... on Human { ...HF }`) *together with other members*
  (here the sibling spread `...HG` on `Human`), the variant struct used to become a type alias of `HF` and every other
  selection on the same variant was dropped.  After the fix of `calcVariants` (`aliasMember`) the variant struct keeps
  the ordinary members and gets one more `#[serde(flatten)]` member for the aliased fragment (`vsBad_items`): the
  round trip of a *conforming* response keeps `height` (`variantspread_alias_keeps_sibling`, C01) and a response whose
  `height` (selected through `HG`) has the wrong scalar kind is rejected (`variantspread_alias_rejects_wrong_kind`, C03).
* the three shapes that worked before, evaluated on the model (`decide +kernel`, no general theorem): a lone spread on a
  possible type (variant payload = type alias of the fragment struct), two spreads on the same possible type (variant
  struct with two flattened members), a spread on the abstract type itself (flattened next to the `on` enum; both the
  fragment's own `on` enum and the outer one read `__typename` — tagged enums borrow — and after
  `serde_json::to_value` normalisation it is written once).
-/
set_option linter.unusedSimpArgs false
set_option linter.unusedVariables false
namespace GqlVerif
namespace C01
namespace E2E
open Serde Spec C13 C03 Codegen

/-- `HF on Human { name }`, `HG on Human { height }`, `CF on Character { name __typename }`;
    `query Q { hero { <sels> } }` -/
def vsQuery (sels : List Sel) : Query :=
  { operations := [{ name := "Q", kind := .query, objectId := 0, sels := [.field none 0 sels] }]
    fragments := [{ name := "HF", on := .object 1, sels := [.field none 1 []] },
                  { name := "HG", on := .object 1, sels := [.field none 2 []] },
                  { name := "CF", on := .interface 0, sels := [.field none 1 [], .typename] }] }

def vsCtx (sels : List Sel) : Ctx := { s := vxSchema, q := vsQuery sels, o := {}, cs := ⟨id, id⟩ }

/-- `hero { __typename ... on Human { ...HF } ...HG }` -/
def vsBad : List Sel := [.typename, .inline (.object 1) [.spread 0], .spread 1]

/-- the variant struct of `Human` is a struct with two flattened members: the ordinary member `HG` followed by the
    member made from the aliased fragment `HF` (no longer the alias `type QheroOnHuman = HF`) -/
theorem vsBad_items :
    (match responseForQuery (vsCtx vsBad) 0 with
     | .ok items =>
       (match (moduleEnv (vsCtx vsBad) items).find "QheroOnHuman" with
        | some (.struct _ _ _ [f, g]) => f.flatten && g.flatten && f.ty == .path "HG" && g.ty == .path "HF"
        | _ => false)
     | .error _ => false) = true := by decide +kernel

/-- a response that conforms to the specification (Human: `name` through `HF`, `height` through `HG`) -/
def vsJson : Json := .obj [("hero", .obj [("__typename", .str "Human"), ("name", .str "x"), ("height", .num "1.8")])]

set_option maxRecDepth 8000 in
theorem vsBad_conforms :
    conformsV vxSchema 0 ([Sel.field none 0 vsBad].map (expandR (vsQuery vsBad) 4)) vsJson = true := by
  simp [vsQuery, vsBad, expandR, conformsV, confSelsV, confSelV, keysSelsV, keysSelV, fragApplies, rtName,
    vxSchema, vsJson, Json.lookup, accepts, acceptsNN, gtyOf, scalarOk, floatOk, stringOk,
    Json.isNull, EnumSpec.nodup, List.range, List.range.loop, conformsAt]

/-- (C01, formerly the negative witness `variantspread_alias_drops_sibling`) the round trip of the conforming
    response keeps `height`: the sibling `...HG` is no longer dropped (members in struct order: `HG`, then `HF`) -/
theorem variantspread_alias_keeps_sibling :
    (match responseForQuery (vsCtx vsBad) 0 with
     | .ok items =>
       (match Serde.roundtrip (moduleEnv (vsCtx vsBad) items) (.path "ResponseData") vsJson with
        | .ok (.obj [("hero", .obj [("__typename", .str "Human"), ("height", .num "1.8"), ("name", .str "x")])]) => true
        | _ => false)
     | .error _ => false) = true := by decide +kernel

/-- (C03, formerly `variantspread_alias_accepts_wrong_kind`) a string under the `Float` key `height` is rejected -/
theorem variantspread_alias_rejects_wrong_kind :
    (match responseForQuery (vsCtx vsBad) 0 with
     | .ok items =>
       !okB (Serde.de (moduleEnv (vsCtx vsBad) items) (.path "ResponseData")
         (.obj [("hero", .obj [("__typename", .str "Human"), ("name", .str "x"), ("height", .str "tall")])]))
     | .error _ => false) = true := by decide +kernel

/-! ## the shapes that worked before the fix, on the model -/

/-- `hero { __typename ...HF }`: the variant payload is the alias `type QheroOnHuman = HF`; round trip exact -/
example :
    (match responseForQuery (vsCtx [.typename, .spread 0]) 0 with
     | .ok items =>
       (match (moduleEnv (vsCtx []) items).find "QheroOnHuman" with
        | some (.alias _ _ (.path "HF")) => true
        | _ => false) &&
       (match Serde.roundtrip (moduleEnv (vsCtx []) items) (.path "ResponseData")
          (.obj [("hero", .obj [("__typename", .str "Human"), ("name", .str "x")])]) with
        | .ok (.obj [("hero", .obj [("__typename", .str "Human"), ("name", .str "x")])]) => true
        | _ => false)
     | .error _ => false) = true := by decide +kernel

/-- `hero { __typename ...HF ...HG }`: the variant struct has two flattened members; round trip exact; a wrong scalar
    kind under `height` is rejected -/
example :
    (match responseForQuery (vsCtx [.typename, .spread 0, .spread 1]) 0 with
     | .ok items =>
       (match (moduleEnv (vsCtx []) items).find "QheroOnHuman" with
        | some (.struct _ _ _ [f, g]) => f.flatten && g.flatten && f.ty == .path "HF" && g.ty == .path "HG"
        | _ => false) &&
       (match Serde.roundtrip (moduleEnv (vsCtx []) items) (.path "ResponseData")
          (.obj [("hero", .obj [("__typename", .str "Human"), ("name", .str "x"), ("height", .num "1.8")])]) with
        | .ok (.obj [("hero", .obj [("__typename", .str "Human"), ("name", .str "x"), ("height", .num "1.8")])]) => true
        | _ => false) &&
       !okB (Serde.de (moduleEnv (vsCtx []) items) (.path "ResponseData")
          (.obj [("hero", .obj [("__typename", .str "Human"), ("name", .str "x"), ("height", .str "tall")])]))
     | .error _ => false) = true := by decide +kernel

/-- `hero { __typename ...CF }` (`CF` on the interface itself): `Qhero { #[flatten] CF: CF, #[flatten] on: QheroOn }`,
    `CF { name, #[flatten] on: CFOn }`; both tagged enums read `__typename`; it is written once -/
example :
    (match responseForQuery (vsCtx [.typename, .spread 2]) 0 with
     | .ok items =>
       (match (moduleEnv (vsCtx []) items).find "Qhero" with
        | some (.struct _ _ _ [f, g]) => f.flatten && g.flatten && f.ty == .path "CF" && g.ty == .path "QheroOn"
        | _ => false) &&
       (match Serde.roundtrip (moduleEnv (vsCtx []) items) (.path "ResponseData")
          (.obj [("hero", .obj [("__typename", .str "Human"), ("name", .str "x")])]) with
        | .ok (.obj [("hero", .obj [("name", .str "x"), ("__typename", .str "Human")])]) => true
        | _ => false)
     | .error _ => false) = true := by decide +kernel

end E2E
end C01
end GqlVerif
