import GqlVerif.Proofs.C01AbstractI
/-!
# C01 / C03 end to end: fragment spreads at abstract positions (`VariantSpreadOp`), part A: class, closed form

`VariantSpreadOp` extends `VariantOp`: in a selection set on an interface / union typed field, besides `__typename`,
interface-level fields and inline fragments on possible types, two kinds of named fragment spreads are allowed.

**(a) spreads of fragments on a possible (object) type** `T` — a variant selection like an inline fragment on `T`:
* a variant whose only selection is one such spread is the type alias `type …On<T> = F`;
* several selections on one variant (any number of inline fragments and of spreads) contribute to one struct
  `…On<T>`: the inline fragments' fields as own members, every spread as a `#[serde(flatten)]` member `snake(F): F`,
  in selection order.
  Fragment bodies: spread-free object-level selection sets of the class `VariantOp` (`fragOk`, as for `FragmentOp`).

**(b) spreads of fragments on the abstract type itself** — one more `#[serde(flatten)]` member
`keyword_replace(snake(F)): F` of the interface-level struct, in selection order among the own fields, before the flattened
`on`; the variants are unaffected.  Fragment bodies: spread-free abstract-level selection sets of `VariantOp` on the same
type (`fragOkB`): the fragment's own type(s) are those of an abstract position (struct + tagged enum, or tagged enum).

**(c) a selection set on an abstract type that is a lone spread of a fragment on the type itself** (`hero { ...CF }`,
`loneB`): the position is the type alias `type … = CF`; `__typename` comes from the fragment.

The class is closed under nesting: the sub-selections of fields and the bodies of inline fragments are selection sets
of the class again.  Decidable side conditions at an abstract position (`absOkL`: `loneB`, or `absOkS`): those of `absOk`
without "at most one inline fragment per type" (`absOk2`; so `__typename` is selected at the position itself); every spread
`spreadOkA` — `fragOk` on a possible type and **no field key of the fragment is an interface-level response key** — or
`spreadOkB` — `fragOkB` and **no field key of the fragment (those inside its inline fragments included) is an
interface-level field key**; **the field keys of the selections on one variant are pairwise distinct** (`varKeys`); **for
every possible type, the field keys selected through the fragments on the abstract type itself and on the variant are
pairwise distinct** (`bKeys ++ varKeys`): no field key has two readers — neither the emitted types nor the specification
`conformsOpS` merge fields.  All exclusions are necessary, see `C01VariantSpread.lean` / `C01VariantSpreadE.lean`
(`variantspread_overlap_*`, `variantspread_b_overlap_loses_key`, `variantspread_b_merge_loses_fields`).

* `itemsS` / `fieldsB` / `variantHead` / `varFields` / `varItems` — closed form of the emitted items;
* `variantspread_items_shape` — `responseItems c op = .ok (structItemsS …)` for every operation of the class.

Out of scope here: inline fragments whose body is a lone spread next to other selections (class `VariantSpreadOp2` of
`C01VariantSpreadF` / `G`), a lone spread of a fragment on a *possible* type (`hero { ...HF }`: the emitted alias rejects
the other types' responses, `variantspread_lone_possible_type_rejects`), spreads inside fragment bodies (recursive
fragments).
-/
set_option linter.unusedSimpArgs false
set_option linter.unusedVariables false
set_option linter.unusedSectionVars false

namespace GqlVerif
namespace C01
namespace E2E
open Serde Spec C13 C03 Codegen

/-! ## the class -/

/-- the type condition of a variant selection (inline fragment or spread) -/
def selOn (q : Query) : Sel → Option TypeId
  | .inline t _ => some t
  | .spread g => (q.fragments[g]?).map (·.on)
  | _ => none

/-- the field keys selected on the variant `vt`: those of the inline fragment on `vt` and of every fragment on `vt`
    that is spread, in selection order -/
def varKeys (s : Schema) (q : Query) (vt : TypeId) : List Sel → List String
  | [] => []
  | .inline t isub :: xs => (if t == vt then fieldKeys s isub else []) ++ varKeys s q vt xs
  | .spread g :: xs =>
    (match q.fragments[g]? with
     | some f => if f.on == vt then fieldKeys s f.sels else []
     | none => []) ++ varKeys s q vt xs
  | _ :: xs => varKeys s q vt xs

/-- a spread at an abstract position of type `ty` with selection set `sub`: the fragment is `fragOk` on a possible
    type, and none of its field keys is an interface-level response key -/
def spreadOkA (s : Schema) (q : Query) (o : Options) (ty : TypeId) (sub : List Sel) (g : Nat) : Bool :=
  (vtsOfTy s ty).any (fun vt => fragOk s q o vt g) &&
  (fieldKeys s (fragSels q g)).all (fun k => !(respKeys s sub).contains k)

mutual
  /-- every field key of a selection set, those inside its inline fragments included -/
  def deepKey (s : Schema) : Sel → List String
    | .field a fid _ => (match s.fields[fid]? with | some sf => [a.getD sf.name] | none => [])
    | .inline _ isub => deepKeys s isub
    | _ => []
  def deepKeys (s : Schema) : List Sel → List String
    | [] => []
    | x :: xs => deepKey s x ++ deepKeys s xs
end

/-- a fragment **on the abstract type `ty` itself** that may be spread at a position of type `ty` (part (b)): it exists,
    is on `ty`, is not named `ID`, and its body is a spread-free abstract-level selection set of the class `VariantOp` -/
def fragOkB (s : Schema) (q : Query) (o : Options) (ty : TypeId) (g : Nat) : Bool :=
  match q.fragments[g]? with
  | some f => f.on == ty && f.name != "ID" && vSels s o true f.sels && absOk s o ty f.sels
  | none => false

/-- a spread of a fragment on the abstract type itself: `fragOkB`, and none of its field keys (those inside its inline
    fragments included) is an interface-level **field** key of the position (`__typename` is shared) -/
def spreadOkB (s : Schema) (q : Query) (o : Options) (ty : TypeId) (sub : List Sel) (g : Nat) : Bool :=
  fragOkB s q o ty g && (deepKeys s (fragSels q g)).all (fun k => !(fieldKeys s sub).contains k)

/-- `absOk` without "at most one inline fragment per possible type" (several inline fragments on one type contribute to one
    variant struct; `varKeys` below keeps their keys apart) -/
def absOk2 (s : Schema) (o : Options) (ty : TypeId) (sub : List Sel) : Bool :=
  sub.any isTypename &&
  EnumSpec.nodup (respKeys s sub) &&
  (vtsOfTy s ty).all (fun t => match t with | .object i => (s.objects[i]?).isSome | _ => false) &&
  !(variantNames s o ty).isEmpty &&
  EnumSpec.nodup (variantNames s o ty) &&
  (sub.filterMap inlineTy).all (fun t => (vtsOfTy s ty).contains t) &&
  sub.all (fun x => match x with
    | .inline _ isub => (fieldKeys s isub).all (fun k => !(respKeys s sub).contains k)
    | _ => true)

/-- the parts of `absOk2`, in the shape of `absOk_parts` (the seventh is vacuous) -/
theorem absOk2_parts {s : Schema} {o : Options} {ty : TypeId} {sub : List Sel} (h : absOk2 s o ty sub = true) :
    sub.any isTypename = true ∧ EnumSpec.nodup (respKeys s sub) = true ∧
    (∀ t ∈ vtsOfTy s ty, ∃ i, t = .object i ∧ (s.objects[i]?).isSome = true) ∧
    (variantNames s o ty) ≠ [] ∧ (variantNames s o ty).Nodup ∧
    (∀ t ∈ sub.filterMap inlineTy, t ∈ vtsOfTy s ty) ∧ True ∧
    (∀ t isub, Sel.inline t isub ∈ sub → ∀ k ∈ fieldKeys s isub, k ∉ respKeys s sub) := by
  simp only [absOk2, Bool.and_eq_true, List.all_eq_true, decide_eq_true_eq, Bool.not_eq_true',
    List.isEmpty_eq_false_iff, List.contains_iff_mem] at h
  obtain ⟨⟨⟨⟨⟨⟨h1, h2⟩, h3⟩, h4⟩, h5⟩, h6⟩, h8⟩ := h
  refine ⟨h1, h2, ?_, h4, nodup_iff'.mp h5, h6, trivial, ?_⟩
  · intro t ht
    have := h3 t ht
    cases t <;> simp only [Bool.false_eq_true] at this
    exact ⟨_, rfl, this⟩
  · intro t isub hm k hk
    have := h8 _ hm
    simp only [List.all_eq_true] at this
    simpa using this k hk

theorem absOk2_of_absOk {s : Schema} {o : Options} {ty : TypeId} {sub : List Sel} (h : absOk s o ty sub = true) :
    absOk2 s o ty sub = true := by
  simp only [absOk, Bool.and_eq_true] at h
  simp only [absOk2, Bool.and_eq_true]
  obtain ⟨⟨⟨⟨⟨⟨⟨h1, h2⟩, h3⟩, h4⟩, h5⟩, h6⟩, _⟩, h8⟩ := h
  exact ⟨⟨⟨⟨⟨⟨h1, h2⟩, h3⟩, h4⟩, h5⟩, h6⟩, h8⟩

/-- the field keys a selection set on the abstract type selects for the possible type `vt`: its fields and the fields of
    its inline fragments on `vt` -/
def keysOn (s : Schema) (vt : TypeId) : List Sel → List String
  | [] => []
  | .field a fid _ :: xs => (match s.fields[fid]? with | some sf => [a.getD sf.name] | none => []) ++ keysOn s vt xs
  | .inline t isub :: xs => (if t == vt then fieldKeys s isub else []) ++ keysOn s vt xs
  | _ :: xs => keysOn s vt xs

/-- the field keys selected, for the possible type `vt`, through the spreads of fragments on the abstract type `ty` itself -/
def bKeys (s : Schema) (q : Query) (ty vt : TypeId) : List Sel → List String
  | [] => []
  | .spread g :: xs =>
    (match q.fragments[g]? with
     | some f => if f.on == ty then keysOn s vt f.sels else []
     | none => []) ++ bKeys s q ty vt xs
  | _ :: xs => bKeys s q ty vt xs

/-- conditions at an abstract position: those of `absOk2`; every spread `spreadOkA` (part (a)) or `spreadOkB`
    (part (b)); the field keys selected on one variant pairwise distinct; **no field key has two readers**: for every
    possible type, the field keys selected through the fragments on the abstract type itself (part (b)) and those selected
    on the variant (inline fragments, part (a) spreads) are pairwise distinct — fields are not merged by the emitted types
    (known finding `C01-overlap`), and the specification `conformsOpS` does not merge them either -/
def absOkS (s : Schema) (q : Query) (o : Options) (ty : TypeId) (sub : List Sel) : Bool :=
  absOk2 s o ty sub &&
  sub.all (fun x => match x with
    | .spread g => spreadOkA s q o ty sub g || spreadOkB s q o ty sub g
    | _ => true) &&
  (vtsOfTy s ty).all (fun vt => EnumSpec.nodup (varKeys s q vt sub)) &&
  (vtsOfTy s ty).all (fun vt => EnumSpec.nodup (bKeys s q ty vt sub ++ varKeys s q vt sub))

/-- a selection set that is a lone spread -/
def loneG : List Sel → Option Nat
  | [.spread g] => some g
  | _ => none

/-- a selection set on the abstract type `ty` that is a lone spread of a fragment on `ty` itself (`hero { ...CF }`): the
    position is a type alias of the fragment's type; `__typename` comes from the fragment -/
def loneB (s : Schema) (q : Query) (o : Options) (ty : TypeId) (sub : List Sel) : Bool :=
  match loneG sub with
  | some g => fragOkB s q o ty g
  | none => false

/-- an abstract position of the class: `absOkS`, or a lone spread of a fragment on the type itself -/
def absOkL (s : Schema) (q : Query) (o : Options) (ty : TypeId) (sub : List Sel) : Bool :=
  absOkS s q o ty sub || loneB s q o ty sub

mutual
  /-- one selection of the class; `abs`: the selection set it belongs to is on an abstract type (there, inline
      fragments on object types and fragment spreads are allowed) -/
  def sSel (s : Schema) (q : Query) (o : Options) : Bool → Sel → Bool
    | _, .field _ fid sub =>
      match s.fields[fid]? with
      | none => false
      | some sf =>
        wfQuals sf.ty.quals && !(sf.deprecation.isSome && o.deprecation == .deny) &&
        (match sf.ty.id with
         | .scalar k => (s.scalars[k]?).isSome && sub.isEmpty
         | .enum k => (s.enums[k]?).isSome && sub.isEmpty
         | .object i => (s.objects[i]?).isSome && sSels s q o false sub && EnumSpec.nodup (respKeys s sub)
         | .interface k => (s.interfaces[k]?).isSome && sSels s q o true sub && absOkL s q o (.interface k) sub
         | .union u => (s.unions[u]?).isSome && sSels s q o true sub && absOkL s q o (.union u) sub
         | .input _ => false)
    | _, .typename => true
    | abs, .inline t sub =>
      abs && (match t with | .object i => (s.objects[i]?).isSome | _ => false) &&
        sSels s q o false sub && EnumSpec.nodup (respKeys s sub)
    | abs, .spread _ => abs
  def sSels (s : Schema) (q : Query) (o : Options) : Bool → List Sel → Bool
    | _, [] => true
    | abs, x :: xs => sSel s q o abs x && sSels s q o abs xs
end

/-- **the class** (decidable) -/
def VariantSpreadOp (c : Ctx) (op : ROperation) : Bool :=
  c.o.normalization == .none && (c.s.objects[op.objectId]?).isSome &&
  sSels c.s c.q c.o false op.sels && EnumSpec.nodup (respKeys c.s op.sels)

/-! ## closed form of the emitted items -/

/-- the flattened member emitted for a spread of `f` on a variant (`calcVariantSels`: no `keyword_replace`) -/
def memberField (c : Ctx) (f : RFragment) : RField :=
  { rust := c.cs.snake f.name, ty := .path f.name, flatten := true }

/-- the fields of the variant struct of `vt`: the own fields of the inline fragment on `vt`, one flattened member per
    spread of a fragment on `vt`, in selection order -/
def varFields (c : Ctx) (pfx : String) (vt : TypeId) : List Sel → List RField
  | [] => []
  | .inline t isub :: xs =>
    (if t == vt then fieldsOfV c (pfx ++ "On" ++ c.cs.camel (objName c.s t)) isub else []) ++ varFields c pfx vt xs
  | .spread g :: xs =>
    (match c.q.fragments[g]? with
     | some f => if f.on == vt then [memberField c f] else []
     | none => []) ++ varFields c pfx vt xs
  | _ :: xs => varFields c pfx vt xs

/-- the fields of the struct at a position of type `ty`: own fields and, **for every spread of a fragment on `ty`
    itself, a flattened member**, in selection order (`calcFields`; at an object-level selection set of the class there
    is no spread: `fieldsOfV`) -/
def fieldOfSelB (c : Ctx) (pfx : String) (ty : TypeId) : Sel → Option RField
  | .spread g => (match c.q.fragments[g]? with
    | some f => if f.on == ty then some (spreadField c f) else none
    | none => none)
  | x => fieldOfSelV c pfx x

def fieldsB (c : Ctx) (pfx : String) (ty : TypeId) (sels : List Sel) : List RField :=
  sels.filterMap (fieldOfSelB c pfx ty)

def onVt (q : Query) (vt : TypeId) (x : Sel) : Bool := selOn q x == some vt

/-- the selections attached to the variant `vt` -/
def mineOf (q : Query) (vt : TypeId) (sub : List Sel) : List Sel := sub.filter (onVt q vt)

/-- the item named `…On<T>`: nothing (unit variant), the alias of the fragment struct (a lone spread), or the struct -/
def variantHead (c : Ctx) (pfx : String) (vt : TypeId) (sub : List Sel) : List Item :=
  match mineOf c.q vt sub with
  | [] => []
  | [.spread g] => [aliasItem (pfx ++ "On" ++ objName c.s vt) (fragName c g) false]
  | _ => [.struct (pfx ++ "On" ++ objName c.s vt) c.respDerives c.serdeCrate (varFields c pfx vt sub)]

/-- a spread seen as (the marker of) a variant selection: `variantOf` only looks at the type conditions -/
def markSel (q : Query) : Sel → Sel
  | .spread g => (match q.fragments[g]? with | some f => .inline f.on [] | none => .spread g)
  | x => x

def marks (q : Query) (sub : List Sel) : List Sel := sub.map (markSel q)

mutual
  def itemsS (c : Ctx) (pfx : String) : Sel → List Item
    | .field a fid sub =>
      match c.s.fields[fid]? with
      | none => []
      | some sf =>
        match sf.ty.id with
        | .object _ =>
          .struct (pfx ++ c.cs.camel (a.getD sf.name)) c.respDerives c.serdeCrate
              (fieldsOfV c (pfx ++ c.cs.camel (a.getD sf.name)) sub) ::
            itemsSs c (pfx ++ c.cs.camel (a.getD sf.name)) sub
        | .interface k =>
          (match loneG sub with
           | some g => [aliasItem (pfx ++ c.cs.camel (a.getD sf.name)) (fragName c g) false]
           | none =>
             renderType c (pfx ++ c.cs.camel (a.getD sf.name)) (fieldsB c (pfx ++ c.cs.camel (a.getD sf.name)) (.interface k) sub)
                 (variantsV c (pfx ++ c.cs.camel (a.getD sf.name)) (.interface k) (marks c.q sub)) ++
               (vtsOfTy c.s (.interface k)).flatMap (fun vt =>
                 variantHead c (pfx ++ c.cs.camel (a.getD sf.name)) vt sub ++
                   varItems c (pfx ++ c.cs.camel (a.getD sf.name)) vt sub) ++
               itemsSs c (pfx ++ c.cs.camel (a.getD sf.name)) sub)
        | .union u =>
          (match loneG sub with
           | some g => [aliasItem (pfx ++ c.cs.camel (a.getD sf.name)) (fragName c g) false]
           | none =>
             renderType c (pfx ++ c.cs.camel (a.getD sf.name)) (fieldsB c (pfx ++ c.cs.camel (a.getD sf.name)) (.union u) sub)
                 (variantsV c (pfx ++ c.cs.camel (a.getD sf.name)) (.union u) (marks c.q sub)) ++
               (vtsOfTy c.s (.union u)).flatMap (fun vt =>
                 variantHead c (pfx ++ c.cs.camel (a.getD sf.name)) vt sub ++
                   varItems c (pfx ++ c.cs.camel (a.getD sf.name)) vt sub) ++
               itemsSs c (pfx ++ c.cs.camel (a.getD sf.name)) sub)
        | _ => []
    | _ => []
  def itemsSs (c : Ctx) (pfx : String) : List Sel → List Item
    | [] => []
    | x :: xs => itemsS c pfx x ++ itemsSs c pfx xs
  /-- the nested items of the inline fragment on `vt` -/
  def varItem (c : Ctx) (pfx : String) (vt : TypeId) : Sel → List Item
    | .inline t isub => if t == vt then itemsSs c (pfx ++ "On" ++ c.cs.camel (objName c.s t)) isub else []
    | _ => []
  def varItems (c : Ctx) (pfx : String) (vt : TypeId) : List Sel → List Item
    | [] => []
    | x :: xs => varItem c pfx vt x ++ varItems c pfx vt xs
end

/-- **closed form**: the struct `name` of an object-level selection set, followed by the items of its nested
    selection sets -/
def structItemsS (c : Ctx) (name pfx : String) (sels : List Sel) : List Item :=
  .struct name c.respDerives c.serdeCrate (fieldsOfV c pfx sels) :: itemsSs c pfx sels

/-- closed form at an abstract position: the struct / tagged enum, then per possible type the variant's item and the
    nested items of its inline fragment, then the items of the interface-level fields -/
def absItemsS (c : Ctx) (name pfx : String) (ty : TypeId) (sels : List Sel) : List Item :=
  renderType c name (fieldsB c pfx ty sels) (variantsV c pfx ty (marks c.q sels)) ++
    (vtsOfTy c.s ty).flatMap (fun vt => variantHead c pfx vt sels ++ varItems c pfx vt sels) ++ itemsSs c pfx sels

/-- … or the type alias of the fragment's type, for a lone spread of a fragment on the abstract type itself -/
def absItemsL (c : Ctx) (name pfx : String) (ty : TypeId) (sels : List Sel) : List Item :=
  match loneG sels with
  | some g => [aliasItem name (fragName c g) false]
  | none => absItemsS c name pfx ty sels

/-! ## basic facts -/

theorem loneG_some {sub : List Sel} {g : Nat} (h : loneG sub = some g) : sub = [.spread g] := by
  unfold loneG at h
  split at h
  · simp only [Option.some.injEq] at h; subst h; rfl
  · cases h

theorem loneG_lone (g : Nat) : loneG [Sel.spread g] = some g := rfl

theorem loneG_none_of_ne {sub : List Sel} (h : ∀ g, sub ≠ [Sel.spread g]) : loneG sub = none := by
  cases hl : loneG sub with
  | none => rfl
  | some g => exact absurd (loneG_some hl) (h g)

theorem loneG_none_of_typename {sub : List Sel} (h : sub.any isTypename = true) : loneG sub = none := by
  apply loneG_none_of_ne
  intro g hg; subst hg; simp [isTypename] at h

theorem sSels_cons {s : Schema} {q : Query} {o : Options} {abs : Bool} {x : Sel} {xs : List Sel}
    (h : sSels s q o abs (x :: xs) = true) : sSel s q o abs x = true ∧ sSels s q o abs xs = true := by
  simpa [sSels] using h

theorem sSels_mem {s : Schema} {q : Query} {o : Options} {abs : Bool} : ∀ {sels : List Sel}, sSels s q o abs sels = true →
    ∀ x ∈ sels, sSel s q o abs x = true
  | [], _, _, hx => by simp at hx
  | y :: ys, h, x, hx => by
    obtain ⟨h1, h2⟩ := sSels_cons h
    rcases List.mem_cons.mp hx with rfl | hx'
    · exact h1
    · exact sSels_mem h2 x hx'

theorem no_spread_of_sSels {s : Schema} {q : Query} {o : Options} : ∀ {sels : List Sel}, sSels s q o false sels = true →
    ∀ g, Sel.spread g ∉ sels
  | [], _, g, h => by simp at h
  | x :: xs, h, g, hm => by
    obtain ⟨hx, hxs⟩ := sSels_cons h
    rcases List.mem_cons.mp hm with rfl | hm'
    · simp [sSel] at hx
    · exact no_spread_of_sSels hxs g hm'

theorem not_lone_spread_S {s : Schema} {q : Query} {o : Options} {sels : List Sel} (h : sSels s q o false sels = true) :
    ∀ g, sels = [Sel.spread g] → False := by
  intro g hg; subst hg; simp [sSels, sSel] at h

theorem fragOkB_parts {s : Schema} {q : Query} {o : Options} {ty : TypeId} {g : Nat}
    (h : fragOkB s q o ty g = true) :
    ∃ f, q.fragments[g]? = some f ∧ f.on = ty ∧ f.name ≠ "ID" ∧ vSels s o true f.sels = true ∧
      absOk s o ty f.sels = true := by
  unfold fragOkB at h
  cases hf : q.fragments[g]? with
  | none => simp [hf] at h
  | some f =>
    simp only [hf, Bool.and_eq_true, beq_iff_eq, bne_iff_ne] at h
    exact ⟨f, rfl, h.1.1.1, h.1.1.2, h.1.2, h.2⟩

theorem not_recursive_of_fragOkB {s : Schema} {q : Query} {o : Options} {ty : TypeId} {g : Nat}
    (h : fragOkB s q o ty g = true) : fragmentIsRecursive q g = false := by
  obtain ⟨f, hf, _, _, hv, _⟩ := fragOkB_parts h
  unfold fragmentIsRecursive
  rw [hf]
  simp only [reaches_noSpreads q g _ [] f.sels (noSpreads_of_vSels s o f.sels true hv)]

theorem absOkS_parts {s : Schema} {q : Query} {o : Options} {ty : TypeId} {sub : List Sel}
    (h : absOkS s q o ty sub = true) :
    absOk2 s o ty sub = true ∧
    (∀ g, Sel.spread g ∈ sub →
      (∃ vt f, vt ∈ vtsOfTy s ty ∧ fragOk s q o vt g = true ∧ q.fragments[g]? = some f ∧
        f.on = vt ∧ ∀ k ∈ fieldKeys s f.sels, k ∉ respKeys s sub) ∨
      (∃ f, fragOkB s q o ty g = true ∧ q.fragments[g]? = some f ∧ f.on = ty ∧
        ∀ k ∈ deepKeys s f.sels, k ∉ fieldKeys s sub)) ∧
    (∀ vt ∈ vtsOfTy s ty, (varKeys s q vt sub).Nodup) := by
  simp only [absOkS, Bool.and_eq_true, List.all_eq_true] at h
  obtain ⟨⟨⟨h1, h2⟩, h3⟩, _⟩ := h
  refine ⟨h1, ?_, fun vt hvt => nodup_iff'.mp (h3 vt hvt)⟩
  intro g hg
  have := h2 _ hg
  simp only [Bool.or_eq_true] at this
  rcases this with this | this
  · simp only [spreadOkA, Bool.and_eq_true, List.any_eq_true, List.all_eq_true] at this
    obtain ⟨⟨vt, hvt, hok⟩, hk⟩ := this
    obtain ⟨f, hf, hon, _⟩ := fragOk_parts hok
    refine .inl ⟨vt, f, hvt, hok, hf, hon, ?_⟩
    intro k hk'
    have hs : fragSels q g = f.sels := by simp [fragSels, hf]
    rw [hs] at hk
    simpa using hk k hk'
  · simp only [spreadOkB, Bool.and_eq_true, List.all_eq_true] at this
    obtain ⟨hok, hk⟩ := this
    obtain ⟨f, hf, hon, _⟩ := fragOkB_parts hok
    refine .inr ⟨f, hok, hf, hon, ?_⟩
    intro k hk'
    have hs : fragSels q g = f.sels := by simp [fragSels, hf]
    rw [hs] at hk
    simpa using hk k hk'

/-- the fourth part of `absOkS`: for every possible type, no field key is selected twice through the fragments on the
    abstract type itself and the selections on the variant -/
theorem absOkS_disjoint {s : Schema} {q : Query} {o : Options} {ty : TypeId} {sub : List Sel}
    (h : absOkS s q o ty sub = true) :
    ∀ vt ∈ vtsOfTy s ty, (bKeys s q ty vt sub ++ varKeys s q vt sub).Nodup := by
  simp only [absOkS, Bool.and_eq_true, List.all_eq_true] at h
  exact fun vt hvt => nodup_iff'.mp (h.2 vt hvt)

/-! ### variant selections -/

/-- the selections of a selection set on the abstract type `ty` as the generator's `VariantSel`s (a spread is one unless
    its fragment is on `ty` itself) -/
def vselOfS (q : Query) (ty : TypeId) : Sel → Option VariantSel
  | .inline t sub => some (.inline t sub)
  | .spread g => (match q.fragments[g]? with
    | some f => if f.on == ty then none else some (.spread g f)
    | none => none)
  | _ => none

theorem absOkL_cases {s : Schema} {q : Query} {o : Options} {ty : TypeId} {sub : List Sel}
    (h : absOkL s q o ty sub = true) :
    (absOkS s q o ty sub = true ∧ loneG sub = none) ∨ (∃ g, sub = [Sel.spread g] ∧ fragOkB s q o ty g = true) := by
  simp only [absOkL, Bool.or_eq_true] at h
  rcases h with h | h
  · obtain ⟨h1, _, _⟩ := absOkS_parts h
    obtain ⟨htn, _⟩ := absOk2_parts h1
    exact .inl ⟨h, loneG_none_of_typename htn⟩
  · unfold loneB at h
    cases hl : loneG sub with
    | none => simp [hl] at h
    | some g => simp only [hl] at h; exact .inr ⟨g, loneG_some hl, h⟩

theorem absOkL_of_absOkS {s : Schema} {q : Query} {o : Options} {ty : TypeId} {sub : List Sel}
    (h : absOkS s q o ty sub = true) : absOkL s q o ty sub = true := by
  simp [absOkL, h]

theorem absOkL_lone {s : Schema} {q : Query} {o : Options} {ty : TypeId} {g : Nat} :
    absOkL s q o ty [Sel.spread g] = fragOkB s q o ty g := by
  have : absOkS s q o ty [Sel.spread g] = false := by
    cases h : absOkS s q o ty [Sel.spread g] with
    | false => rfl
    | true =>
      obtain ⟨h1, _, _⟩ := absOkS_parts h
      obtain ⟨htn, _⟩ := absOk2_parts h1
      simp [isTypename] at htn
  simp [absOkL, this, loneB, loneG]

def vselsOfS (q : Query) (ty : TypeId) (sels : List Sel) : List VariantSel := sels.filterMap (vselOfS q ty)

theorem filterMapM_variantSelS (q : Query) (ty : TypeId) : ∀ (sels : List Sel),
    (∀ g, Sel.spread g ∈ sels → ∃ f, q.fragments[g]? = some f) →
    sels.filterMapM (variantSelOf q ty) = .ok (vselsOfS q ty sels)
  | [], _ => rfl
  | x :: xs, h => by
    have ih := filterMapM_variantSelS q ty xs (fun g hm => h g (List.mem_cons_of_mem _ hm))
    rw [List.filterMapM_cons]
    cases x with
    | field a fid sub => simp [variantSelOf, ih, vselsOfS, vselOfS, List.filterMap_cons, bind, Except.bind, pure, Except.pure]
    | inline t sub => simp [variantSelOf, ih, vselsOfS, vselOfS, List.filterMap_cons, bind, Except.bind, pure, Except.pure]
    | spread g =>
      obtain ⟨f, hf⟩ := h g (by simp)
      by_cases hne : f.on = ty
      · have hne' : (f.on == ty) = true := by simpa using hne
        simp [variantSelOf, ih, vselsOfS, vselOfS, List.filterMap_cons, bind, Except.bind, pure, Except.pure,
          getFragment_of hf, hf, hne']
      · have hne' : (f.on == ty) = false := by simpa using hne
        simp [variantSelOf, ih, vselsOfS, vselOfS, List.filterMap_cons, bind, Except.bind, pure, Except.pure,
          getFragment_of hf, hf, hne']
    | typename => simp [variantSelOf, ih, vselsOfS, vselOfS, List.filterMap_cons, bind, Except.bind, pure, Except.pure]

theorem typeId_vselOfS (q : Query) (ty : TypeId) (x : Sel) (v : VariantSel) (h : vselOfS q ty x = some v) :
    selOn q x = some v.typeId := by
  cases x with
  | inline t sub => simp only [vselOfS, Option.some.injEq] at h; subst h; rfl
  | spread g =>
    simp only [vselOfS] at h
    cases hf : q.fragments[g]? with
    | none => simp [hf] at h
    | some f =>
      simp only [hf] at h
      split at h
      · cases h
      · simp only [Option.some.injEq] at h; subst h; simp [selOn, hf, VariantSel.typeId]
  | field a fid sub => cases h
  | typename => cases h

/-- a selection on a type other than `ty` that yields no variant selection is not on any type -/
theorem vselOfS_none (q : Query) (ty vt : TypeId) (hne : vt ≠ ty) (x : Sel) (h : vselOfS q ty x = none) :
    onVt q vt x = false := by
  cases x with
  | inline t sub => simp [vselOfS] at h
  | spread g =>
    simp only [vselOfS] at h
    cases hf : q.fragments[g]? with
    | none => simp [onVt, selOn, hf]
    | some f =>
      simp only [hf] at h
      split at h
      · rename_i heq
        have : f.on = ty := by simpa using heq
        simp only [onVt, selOn, hf, Option.map_some, this]
        simpa using fun h' => hne h'.symm
      · cases h
  | field a fid sub => rfl
  | typename => rfl

theorem filter_vselsOfS (q : Query) (ty vt : TypeId) (hne : vt ≠ ty) : ∀ (sels : List Sel),
    (vselsOfS q ty sels).filter (fun v => v.typeId == vt) = vselsOfS q ty (mineOf q vt sels)
  | [] => rfl
  | x :: xs => by
    have ih := filter_vselsOfS q ty vt hne xs
    unfold vselsOfS mineOf at ih ⊢
    rw [List.filterMap_cons, List.filter_cons]
    cases hv : vselOfS q ty x with
    | none =>
      simp only [vselOfS_none q ty vt hne x hv, Bool.false_eq_true, ↓reduceIte]
      exact ih
    | some v =>
      have := typeId_vselOfS q ty x v hv
      simp only [List.filter_cons]
      by_cases hon : onVt q vt x = true
      · have hv' : (v.typeId == vt) = true := by
          unfold onVt at hon; rw [this] at hon; simpa using hon
        simp only [hon, hv', ↓reduceIte, List.filterMap_cons, hv, ih]
      · have hv' : (v.typeId == vt) = false := by
          unfold onVt at hon; rw [this] at hon; simpa using hon
        simp only [hon, hv', Bool.false_eq_true, ↓reduceIte, ih]

theorem marks_inlineTy (q : Query) : ∀ (sels : List Sel), (marks q sels).filterMap inlineTy = sels.filterMap (selOn q)
  | [] => rfl
  | x :: xs => by
    have ih := marks_inlineTy q xs
    unfold marks at ih ⊢
    rw [List.map_cons, List.filterMap_cons, List.filterMap_cons, ih]
    cases x with
    | spread g =>
      cases hf : q.fragments[g]? <;> simp [markSel, hf, inlineTy, selOn]
    | inline t sub => rfl
    | field a fid sub => rfl
    | typename => rfl

theorem mineOf_nil_iff (q : Query) (vt : TypeId) (sels : List Sel) :
    mineOf q vt sels = [] ↔ vt ∉ sels.filterMap (selOn q) := by
  unfold mineOf
  rw [List.filter_eq_nil_iff]
  constructor
  · intro h hm
    obtain ⟨x, hx, hxv⟩ := List.mem_filterMap.mp hm
    exact h x hx (by simp [onVt, hxv])
  · intro h x hx hon
    apply h
    unfold onVt at hon
    exact List.mem_filterMap.mpr ⟨x, hx, by simpa using hon⟩

theorem mem_mineOf {q : Query} {vt : TypeId} {sels : List Sel} {x : Sel} (h : x ∈ mineOf q vt sels) :
    x ∈ sels ∧ selOn q x = some vt := by
  unfold mineOf at h
  obtain ⟨h1, h2⟩ := List.mem_filter.mp h
  exact ⟨h1, by simpa [onVt] using h2⟩

/-- `varFields` only looks at the selections on `vt` -/
theorem varFields_mineOf (c : Ctx) (pfx : String) (vt : TypeId) : ∀ (sels : List Sel),
    varFields c pfx vt (mineOf c.q vt sels) = varFields c pfx vt sels
  | [] => rfl
  | x :: xs => by
    have ih := varFields_mineOf c pfx vt xs
    unfold mineOf at ih ⊢
    rw [List.filter_cons]
    cases x with
    | inline t isub =>
      by_cases htv : t = vt
      · subst htv; simp [onVt, selOn, varFields, ih]
      · have hne : (t == vt) = false := by simpa using htv
        simp [onVt, selOn, varFields, ih, htv, hne]
    | spread g =>
      cases hf : c.q.fragments[g]? with
      | none => simp [onVt, selOn, varFields, ih, hf]
      | some f =>
        by_cases htv : f.on = vt
        · simp [onVt, selOn, varFields, ih, hf, htv]
        · have hne : (f.on == vt) = false := by simpa using htv
          simp [onVt, selOn, varFields, ih, hf, htv, hne]
    | field a fid sub => simp [onVt, selOn, varFields, ih]
    | typename => simp [onVt, selOn, varFields, ih]

theorem varItems_mineOf (c : Ctx) (pfx : String) (vt : TypeId) : ∀ (sels : List Sel),
    varItems c pfx vt (mineOf c.q vt sels) = varItems c pfx vt sels
  | [] => rfl
  | x :: xs => by
    have ih := varItems_mineOf c pfx vt xs
    unfold mineOf at ih ⊢
    rw [List.filter_cons]
    cases x with
    | inline t isub =>
      by_cases htv : t = vt
      · subst htv; simp [onVt, selOn, varItems, varItem, ih]
      · have hne : (t == vt) = false := by simpa using htv
        simp [onVt, selOn, varItems, varItem, ih, htv, hne]
    | spread g =>
      by_cases hon : onVt c.q vt (.spread g) = true
      · simp [hon, varItems, varItem, ih]
      · simp [hon, varItems, varItem, ih]
    | field a fid sub => simp [onVt, selOn, varItems, varItem, ih]
    | typename => simp [onVt, selOn, varItems, varItem, ih]

theorem renderField_member (c : Ctx) (f : RFragment) (hid : f.name ≠ "ID") :
    renderField c none (c.cs.snake f.name) f.name [.required] true false none = .ok (some (memberField c f)) := by
  unfold renderField
  simp [decorateType, decorateStep, bind, Except.bind, pure, Except.pure, hid, memberField, Option.bind]


/-! ## Theorem 1 -/

/-- every spread of the selection set is `fragOk` on a type other than `ty` (part (a)) or `fragOkB` on `ty` itself
    (part (b)); at an object-level selection set of the class: vacuous, there is no spread -/
def SpreadsA (c : Ctx) (ty : TypeId) (sels : List Sel) : Prop :=
  ∀ g, Sel.spread g ∈ sels →
    (∃ vt f, fragOk c.s c.q c.o vt g = true ∧ c.q.fragments[g]? = some f ∧ f.on = vt ∧ vt ≠ ty) ∨
    (∃ f, fragOkB c.s c.q c.o ty g = true ∧ c.q.fragments[g]? = some f ∧ f.on = ty)

theorem SpreadsA.tail {c : Ctx} {ty : TypeId} {x : Sel} {xs : List Sel} (h : SpreadsA c ty (x :: xs)) :
    SpreadsA c ty xs := fun g hg => h g (List.mem_cons_of_mem _ hg)

theorem SpreadsA.frag {c : Ctx} {ty : TypeId} {sels : List Sel} (h : SpreadsA c ty sels) :
    ∀ g, Sel.spread g ∈ sels → ∃ f, c.q.fragments[g]? = some f := by
  intro g hg
  rcases h g hg with ⟨_, f, _, hf, _⟩ | ⟨f, _, hf, _⟩ <;> exact ⟨f, hf⟩

theorem spreadsA_obj {c : Ctx} {ty : TypeId} {sels : List Sel} (h : sSels c.s c.q c.o false sels = true) :
    SpreadsA c ty sels := fun g hg => absurd hg (no_spread_of_sSels h g)

theorem obj_ne_abs {s : Schema} {ty : TypeId} (hty : absHyp s ty) (i : Nat) : TypeId.object i ≠ ty := by
  intro heq; subst heq; exact hty

theorem spreadsA_abs {c : Ctx} {ty : TypeId} {sels : List Sel} (hty : absHyp c.s ty)
    (hok : absOkS c.s c.q c.o ty sels = true) : SpreadsA c ty sels := by
  intro g hg
  obtain ⟨hok1, hsp, _⟩ := absOkS_parts hok
  rcases hsp g hg with ⟨vt, f, hvt, hfok, hf, hon, _⟩ | ⟨f, hfok, hf, hon, _⟩
  · obtain ⟨_, _, hobj, _⟩ := absOk2_parts hok1
    obtain ⟨i, rfl, _⟩ := hobj vt hvt
    exact .inl ⟨_, f, hfok, hf, hon, obj_ne_abs hty i⟩
  · exact .inr ⟨f, hfok, hf, hon⟩

/-- a selection on the possible type `vt` of `ty` is not a spread of a fragment on `ty` -/
theorem SpreadsA.onVt {c : Ctx} {ty vt : TypeId} {sels : List Sel} (h : SpreadsA c ty sels) (hne : vt ≠ ty)
    {g : Nat} (hg : Sel.spread g ∈ sels) (hon : selOn c.q (.spread g) = some vt) :
    ∃ f, fragOk c.s c.q c.o vt g = true ∧ c.q.fragments[g]? = some f ∧ f.on = vt := by
  rcases h g hg with ⟨vt', f, hok, hf, hfon, _⟩ | ⟨f, _, hf, hfon⟩
  · simp only [selOn, hf, Option.map_some, Option.some.injEq] at hon
    rw [hfon] at hon; subst hon
    exact ⟨f, hok, hf, hfon⟩
  · simp only [selOn, hf, Option.map_some, Option.some.injEq] at hon
    rw [hfon] at hon
    exact absurd hon.symm hne

theorem fieldsB_noSpread (c : Ctx) (pfx : String) (ty : TypeId) : ∀ (sels : List Sel), (∀ g, Sel.spread g ∉ sels) →
    fieldsB c pfx ty sels = fieldsOfV c pfx sels
  | [], _ => rfl
  | x :: xs, h => by
    have ih := fieldsB_noSpread c pfx ty xs (fun g hg => h g (List.mem_cons_of_mem _ hg))
    unfold fieldsB fieldsOfV at ih ⊢
    rw [List.filterMap_cons, List.filterMap_cons, ih]
    cases x with
    | spread g => exact absurd (List.mem_cons_self) (h g)
    | field a fid sub => rfl
    | inline t sub => rfl
    | typename => rfl

section CalcS
variable (c : Ctx) (hn : c.o.normalization = .none) (N M : Nat)

def Q1o (fuel : Nat) : Prop := ∀ name pfx i sels e, selsDepth sels ≤ e → selsSize sels ≤ N →
  C02.Sb N M e ≤ fuel → sSels c.s c.q c.o false sels = true →
  calcSelection c fuel name pfx (.object i) sels = .ok (structItemsS c name pfx sels)
def Q1a (fuel : Nat) : Prop := ∀ name pfx ty sels e, selsDepth sels ≤ e → selsSize sels ≤ N →
  C02.Sb N M e ≤ fuel → absHyp c.s ty → sSels c.s c.q c.o true sels = true → absOkL c.s c.q c.o ty sels = true →
  calcSelection c fuel name pfx ty sels = .ok (absItemsL c name pfx ty sels)
def Q2 (fuel : Nat) : Prop := ∀ name pfx ty sels vts e, InlB N e sels →
  vts.length + 1 + sels.length + 1 + C02.Fneed N M e N ≤ fuel →
  absHyp c.s ty → sSels c.s c.q c.o true sels = true → SpreadsA c ty sels →
  (∀ t ∈ vts, ∃ i, t = .object i ∧ (c.s.objects[i]?).isSome = true) →
  calcVariants c fuel name pfx (vselsOfS c.q ty sels) vts =
    .ok (vts.map (variantOf c pfx (marks c.q sels)),
         vts.flatMap (fun vt => variantHead c pfx vt sels ++ varItems c pfx vt sels))
def Q3 (fuel : Nat) : Prop := ∀ sname pfx ty vt ms e, InlB N e ms →
  ms.length + 1 + C02.Fneed N M e N ≤ fuel →
  absHyp c.s ty → sSels c.s c.q c.o true ms = true → SpreadsA c ty ms → (∀ x ∈ ms, selOn c.q x = some vt) →
  (∃ i, vt = .object i ∧ (c.s.objects[i]?).isSome = true) →
  calcVariantSels c fuel sname pfx vt (vselsOfS c.q ty ms) = .ok (varFields c pfx vt ms, varItems c pfx vt ms, [])
def Q4 (fuel : Nat) : Prop := ∀ pfx ty sels e abs, selsDepth sels ≤ e → selsSize sels ≤ N →
  C02.Fneed N M e sels.length ≤ fuel → sSels c.s c.q c.o abs sels = true → SpreadsA c ty sels →
  calcFields c fuel pfx ty sels = .ok (fieldsB c pfx ty sels, itemsSs c pfx sels)

theorem stepQ1o (f : Nat) (H4 : Q4 c N M f) : Q1o c N M (f + 1) := by
  intro name pfx i sels e hD hS hF ht
  rw [calcSelection.eq_3 _ _ _ _ _ _ (not_lone_spread_S ht)]
  have hv : variantsOf c.s (.object i) = .ok none := rfl
  have hL := C02.length_le_selsSize sels
  have hfields := H4 pfx (.object i) sels e false hD hS (by
    cases e with
    | zero => simp only [C02.Fneed]; unfold C02.Sb at hF; omega
    | succ e' => simp only [C02.Fneed]; rw [C02.Sb_succ] at hF; omega) ht (spreadsA_obj ht)
  simp only [hv, bind, Except.bind, pure, Except.pure, hfields, fieldsB_noSpread c pfx _ sels (no_spread_of_sSels ht)]
  simp [renderType, structItemsS]

include hn in
theorem stepQ4 (f : Nat) (H1o : Q1o c N M f) (H1a : Q1a c N M f) (H4 : Q4 c N M f) : Q4 c N M (f + 1) := by
  intro pfx ty sels e abs hD hS hF ht hsp
  cases sels with
  | nil => rw [calcFields.eq_2 _ _ _ _ (by omega)]; rfl
  | cons x rest =>
    cases e with
    | zero => have := C02.selsDepth_cons_pos x rest; omega
    | succ e =>
      obtain ⟨hx, hrest⟩ := sSels_cons ht
      rw [selsDepth.eq_2] at hD
      rw [selsSize.eq_2] at hS
      simp only [C02.Fneed, List.length_cons] at hF
      have hR := H4 pfx ty rest (e + 1) abs (by omega) (by omega) (by simp only [C02.Fneed]; omega) hrest hsp.tail
      cases x with
      | field a fid sub =>
        rw [selDepth.eq_1] at hD
        rw [selSize.eq_1] at hS
        rw [calcFields.eq_3]
        rw [sSel] at hx
        cases hsf : c.s.fields[fid]? with
        | none => simp [hsf] at hx
        | some sf =>
          simp only [hsf, Bool.and_eq_true] at hx
          obtain ⟨⟨hw, hdep⟩, hty⟩ := hx
          have hdep' : (sf.deprecation.isSome && c.o.deprecation == .deny) = false := by
            cases hd : (sf.deprecation.isSome && c.o.deprecation == .deny) with
            | false => rfl
            | true => simp [hd] at hdep
          simp only [getField_of hsf, bind, Except.bind]
          cases hid : sf.ty.id with
          | scalar k =>
            simp only [hid, Bool.and_eq_true] at hty
            cases hk : c.s.scalars[k]? with
            | none => simp [hk] at hty
            | some sn =>
              simp only [getScalar_of hk, hn, C02.fieldType_none, renderField_tree c _ _ _ _ hw hdep', hR,
                pure, Except.pure]
              simp [fieldsB, fieldOfSelB, itemsSs, itemsS, fieldOfSelV, hsf, hid, leafNameV, hk]
          | «enum» k =>
            simp only [hid, Bool.and_eq_true] at hty
            cases hk : c.s.enums[k]? with
            | none => simp [hk] at hty
            | some en =>
              simp only [getEnum_of hk, hn, C02.fieldType_none, renderField_tree c _ _ _ _ hw hdep', hR,
                pure, Except.pure]
              simp [fieldsB, fieldOfSelB, itemsSs, itemsS, fieldOfSelV, hsf, hid, leafNameV, hk]
          | object i =>
            simp only [hid, Bool.and_eq_true] at hty
            have hS' := H1o (pfx ++ c.cs.camel (a.getD sf.name)) (pfx ++ c.cs.camel (a.getD sf.name)) i sub e
              (by omega) (by omega) (by omega) hty.1.2
            simp only [renderField_tree c _ _ _ _ hw hdep', hS', hR, pure, Except.pure]
            simp [fieldsB, fieldOfSelB, itemsSs, itemsS, fieldOfSelV, hsf, hid, leafNameV, structItemsS]
          | interface k =>
            simp only [hid, Bool.and_eq_true] at hty
            have hS' := H1a (pfx ++ c.cs.camel (a.getD sf.name)) (pfx ++ c.cs.camel (a.getD sf.name)) (.interface k) sub e
              (by omega) (by omega) (by omega) hty.1.1 hty.1.2 hty.2
            simp only [renderField_tree c _ _ _ _ hw hdep', hS', hR, pure, Except.pure]
            simp [fieldsB, fieldOfSelB, itemsSs, itemsS, fieldOfSelV, hsf, hid, leafNameV, absItemsS, absItemsL]
          | union k =>
            simp only [hid, Bool.and_eq_true] at hty
            have hS' := H1a (pfx ++ c.cs.camel (a.getD sf.name)) (pfx ++ c.cs.camel (a.getD sf.name)) (.union k) sub e
              (by omega) (by omega) (by omega) hty.1.1 hty.1.2 hty.2
            simp only [renderField_tree c _ _ _ _ hw hdep', hS', hR, pure, Except.pure]
            simp [fieldsB, fieldOfSelB, itemsSs, itemsS, fieldOfSelV, hsf, hid, leafNameV, absItemsS, absItemsL]
          | input k => simp [hid] at hty
      | spread g =>
        rw [calcFields.eq_4]
        have h2 : itemsS c pfx (.spread g) = [] := by simp [itemsS]
        rcases hsp g (by simp) with ⟨vt, fr, _, hfr, hon, hne⟩ | ⟨fr, hokB, hfr, hon⟩
        · have hne' : (fr.on != ty) = true := by rw [hon]; simpa using hne
          have hne2 : (fr.on == ty) = false := by rw [hon]; simpa using hne
          simp only [getFragment_of hfr, bind, Except.bind, hR, hne', ↓reduceIte, pure, Except.pure]
          simp [fieldsB, fieldOfSelB, hfr, hne2, itemsSs, h2]
        · obtain ⟨fr', hfr', _, hname, _, _⟩ := fragOkB_parts hokB
          rw [hfr] at hfr'; cases hfr'
          have hne' : (fr.on != ty) = false := by simp [hon]
          simp only [getFragment_of hfr, bind, Except.bind, hR, hne', Bool.false_eq_true, ↓reduceIte,
            not_recursive_of_fragOkB hokB, renderField_spread c fr hname, pure, Except.pure]
          simp [fieldsB, fieldOfSelB, hfr, hon, itemsSs, h2]
      | inline t sub =>
        rw [calcFields.eq_5 _ _ _ _ _ _ (by simp) (by simp), hR]
        have h2 : itemsS c pfx (.inline t sub) = [] := by simp [itemsS]
        have h1 : fieldOfSelB c pfx ty (.inline t sub) = none := rfl
        simp [fieldsB, List.filterMap_cons, h1, itemsSs, h2]
      | typename =>
        rw [calcFields.eq_5 _ _ _ _ _ _ (by simp) (by simp), hR]
        have h2 : itemsS c pfx .typename = [] := by simp [itemsS]
        have h1 : fieldOfSelB c pfx ty .typename = none := rfl
        simp [fieldsB, List.filterMap_cons, h1, itemsSs, h2]

theorem sSels_filter {s : Schema} {q : Query} {o : Options} {abs : Bool} (p : Sel → Bool) : ∀ {sels : List Sel},
    sSels s q o abs sels = true → sSels s q o abs (sels.filter p) = true
  | [], _ => rfl
  | x :: xs, h => by
    obtain ⟨hx, hxs⟩ := sSels_cons h
    have ih := sSels_filter p hxs
    rw [List.filter_cons]
    split
    · rw [sSels, hx, ih]; rfl
    · exact ih

theorem stepQ3 (f : Nat) (H3 : Q3 c N M f) (H4 : Q4 c N M f) : Q3 c N M (f + 1) := by
  intro sname pfx ty vt ms e hI hF hty ht hsp hon hobj
  cases ms with
  | nil => rw [show vselsOfS c.q ty [] = [] from rfl, calcVariantSels.eq_2 _ _ _ _ _ (by omega)]; rfl
  | cons x rest =>
    simp only [List.length_cons] at hF
    obtain ⟨hx, hrest⟩ := sSels_cons ht
    have hR := H3 sname pfx ty vt rest e (fun t sub hm => hI t sub (List.mem_cons_of_mem _ hm)) (by omega) hty hrest hsp.tail
      (fun y hy => hon y (List.mem_cons_of_mem _ hy)) hobj
    have honx := hon x (by simp)
    cases x with
    | inline t isub =>
      simp only [selOn, Option.some.injEq] at honx
      subst honx
      obtain ⟨i, rfl, hi⟩ := hobj
      obtain ⟨hd, hs⟩ := hI _ _ (List.mem_cons_self)
      simp only [sSel, Bool.and_eq_true] at hx
      have hsub := hx.1.2
      have hfields := H4 (pfx ++ "On" ++ c.cs.camel (objName c.s (.object i))) (.object i) isub e false hd hs (by
        have := C02.Fneed_mono N M e (Nat.le_trans (C02.length_le_selsSize isub) hs)
        omega) hsub (spreadsA_obj hsub)
      rw [fieldsB_noSpread c _ _ isub (no_spread_of_sSels hsub)] at hfields
      rw [show vselsOfS c.q ty (Sel.inline (.object i) isub :: rest) = .inline (.object i) isub :: vselsOfS c.q ty rest from rfl,
        calcVariantSels.eq_4 _ _ _ _ _ _ _ _ (not_lone_spread_S hsub)]
      simp only [typeName_obj hi, bind, Except.bind, pure, Except.pure, hfields, hR]
      simp [varFields, varItems, varItem]
    | spread g =>
      obtain ⟨i, rfl, hi⟩ := hobj
      obtain ⟨fr, hok, hfr, hfon⟩ := hsp.onVt (obj_ne_abs hty i) (List.mem_cons_self) honx
      obtain ⟨fr', hfr', _, hname, _, _⟩ := fragOk_parts hok
      rw [hfr] at hfr'; cases hfr'
      have hne2 : (fr.on == ty) = false := by rw [hfon]; simpa using obj_ne_abs hty i
      rw [show vselsOfS c.q ty (Sel.spread g :: rest) = .spread g fr :: vselsOfS c.q ty rest from by
        simp [vselsOfS, vselOfS, hfr, hne2, List.filterMap_cons], calcVariantSels.eq_5]
      simp only [not_recursive_of_fragOk hok, renderField_member c fr hname, bind, Except.bind, pure, Except.pure, hR]
      simp [varFields, varItems, varItem, hfr, hfon]
    | field a fid sub => simp [selOn] at honx
    | typename => simp [selOn] at honx

theorem vselsOfS_cons_of_on (q : Query) (ty vt : TypeId) (hne : vt ≠ ty) (x : Sel) (rest : List Sel)
    (hfr : ∀ g, Sel.spread g ∈ x :: rest → ∃ f, q.fragments[g]? = some f) (hon : selOn q x = some vt) :
    ∃ v, vselsOfS q ty (x :: rest) = v :: vselsOfS q ty rest ∧
      (∀ t isub, x = .inline t isub → v = .inline t isub) ∧ (∀ g, x = .spread g → ∃ f, v = .spread g f) := by
  cases x with
  | inline t isub => exact ⟨.inline t isub, rfl, fun _ _ h => (by cases h; rfl), fun _ h => (by cases h)⟩
  | spread g =>
    obtain ⟨f, hf⟩ := hfr g (by simp)
    have hfon : f.on = vt := by simpa [selOn, hf] using hon
    have hne2 : (f.on == ty) = false := by rw [hfon]; simpa using hne
    exact ⟨.spread g f, by simp [vselsOfS, vselOfS, hf, hne2, List.filterMap_cons], fun _ _ h => (by cases h),
      fun _ h => (by cases h; exact ⟨f, rfl⟩)⟩
  | field a fid sub => simp [selOn] at hon
  | typename => simp [selOn] at hon

theorem vselsOfS_shape (q : Query) (ty vt : TypeId) (hne' : vt ≠ ty) (ms : List Sel)
    (hfr : ∀ g, Sel.spread g ∈ ms → ∃ f, q.fragments[g]? = some f) (hon : ∀ x ∈ ms, selOn q x = some vt)
    (hne : ms ≠ []) (hns : ∀ g, ms ≠ [Sel.spread g]) :
    ∃ v vs, vselsOfS q ty ms = v :: vs ∧ ∀ fid f, v :: vs ≠ [VariantSel.spread fid f] := by
  cases ms with
  | nil => exact absurd rfl hne
  | cons x rest =>
    obtain ⟨v, hv, hvi, hvs⟩ := vselsOfS_cons_of_on q ty vt hne' x rest hfr (hon x (by simp))
    refine ⟨v, _, hv, ?_⟩
    intro fid f heq
    cases rest with
    | nil =>
      cases x with
      | inline t isub => rw [hvi t isub rfl] at heq; cases heq
      | spread g => exact hns g rfl
      | field a fid' sub => have := hon _ (List.mem_cons_self); simp [selOn] at this
      | typename => have := hon _ (List.mem_cons_self); simp [selOn] at this
    | cons y rest' =>
      obtain ⟨v', hv', _, _⟩ := vselsOfS_cons_of_on q ty vt hne' y rest' (fun g hg => hfr g (List.mem_cons_of_mem _ hg))
        (hon y (by simp))
      rw [hv'] at heq
      cases heq

theorem stepQ2 (f : Nat) (H2 : Q2 c N M f) (H3 : Q3 c N M f) : Q2 c N M (f + 1) := by
  intro name pfx ty sels vts e hI hF hty ht hsp hobj
  cases vts with
  | nil => rw [calcVariants.eq_2 _ _ _ _ _ (by omega)]; rfl
  | cons vt rest =>
    simp only [List.length_cons] at hF
    have hrest := H2 name pfx ty sels rest e hI (by omega) hty ht hsp (fun t h => hobj t (List.mem_cons_of_mem _ h))
    obtain ⟨i, rfl, hi⟩ := hobj vt (by simp)
    rw [calcVariants.eq_3]
    have hvne : TypeId.object i ≠ ty := obj_ne_abs hty i
    simp only [typeName_obj hi, bind, Except.bind, filter_vselsOfS c.q ty _ hvne]
    have hmem : ∀ x ∈ mineOf c.q (.object i) sels, x ∈ sels ∧ selOn c.q x = some (.object i) := fun x hx => mem_mineOf hx
    have hcont : (List.filterMap inlineTy (marks c.q sels)).contains (TypeId.object i) =
        !(mineOf c.q (.object i) sels).isEmpty := by
      rw [marks_inlineTy]
      by_cases hm : mineOf c.q (.object i) sels = []
      · have := (mineOf_nil_iff c.q _ sels).mp hm
        simp [hm, this]
      · have : TypeId.object i ∈ sels.filterMap (selOn c.q) := by
          by_cases hcon : TypeId.object i ∈ sels.filterMap (selOn c.q)
          · exact hcon
          · exact absurd ((mineOf_nil_iff c.q _ sels).mpr hcon) hm
        have h2 : (mineOf c.q (.object i) sels).isEmpty = false := by simpa using hm
        simp [this, h2]
    have hvo : variantOf c pfx (marks c.q sels) (.object i) =
        if (mineOf c.q (.object i) sels).isEmpty then { name := objName c.s (.object i) }
        else { name := objName c.s (.object i), payload := some (.path (pfx ++ "On" ++ objName c.s (.object i))) } := by
      unfold variantOf; rw [hcont]; cases (mineOf c.q (.object i) sels).isEmpty <;> rfl
    rw [List.map_cons, List.flatMap_cons, hvo, ← varItems_mineOf c pfx (.object i) sels]
    by_cases hm : mineOf c.q (.object i) sels = []
    · -- unit variant
      simp only [hm, show vselsOfS c.q ty [] = [] from rfl, hrest, pure, Except.pure]
      simp [variantHead, hm, varItems]
    · by_cases hs : ∃ g, mineOf c.q (.object i) sels = [Sel.spread g]
      · -- a lone spread: the type alias
        obtain ⟨g, hg⟩ := hs
        have hgm := hmem (.spread g) (by rw [hg]; simp)
        obtain ⟨fr, hok, hfr, hfon⟩ := hsp.onVt hvne hgm.1 hgm.2
        have hne2 : (fr.on == ty) = false := by rw [hfon]; simpa using hvne
        have hv : vselsOfS c.q ty [Sel.spread g] = [.spread g fr] := by simp [vselsOfS, vselOfS, hfr, hne2]
        simp only [hg, hv, hrest, pure, Except.pure, not_recursive_of_fragOk hok]
        simp [variantHead, hg, varItems, varItem, fragName, hfr]
      · -- the variant struct
        have hs' : ∀ g, mineOf c.q (.object i) sels ≠ [Sel.spread g] := fun g hg => hs ⟨g, hg⟩
        have hfrs : ∀ g, Sel.spread g ∈ mineOf c.q (.object i) sels → ∃ f, c.q.fragments[g]? = some f :=
          fun g hg => hsp.frag g (hmem _ hg).1
        obtain ⟨v, vs, hvs, hnot⟩ := vselsOfS_shape c.q ty (.object i) hvne _ hfrs (fun x hx => (hmem x hx).2) hm hs'
        have hlen : (mineOf c.q (.object i) sels).length ≤ sels.length := List.length_filter_le _ _
        have h3 := H3 (pfx ++ "On" ++ objName c.s (.object i)) pfx ty (.object i) (mineOf c.q (.object i) sels) e
          (fun t sub hmm => hI t sub (hmem _ hmm).1) (by omega) hty (sSels_filter _ ht)
          (fun g hg => hsp g (hmem _ hg).1) (fun x hx => (hmem x hx).2) ⟨i, rfl, hi⟩
        rw [hvs] at h3
        simp only [hvs, h3, hrest, pure, Except.pure]
        have hemp : (mineOf c.q (.object i) sels).isEmpty = false := by simpa using hm
        have hhead : variantHead c pfx (.object i) sels =
            [.struct (pfx ++ "On" ++ objName c.s (.object i)) c.respDerives c.serdeCrate
              (varFields c pfx (.object i) sels)] := by
          unfold variantHead
          split
          · rename_i h; exact absurd h hm
          · rename_i g h; exact absurd h (hs' g)
          · rfl
        rw [hhead, hemp, varFields_mineOf]
        split
        · rename_i h1 h2; cases h2
        · simp [renderType, pure, Except.pure]

theorem stepQ1a (hM : ∀ ty vts, variantsOf c.s ty = .ok (some vts) → vts.length ≤ M)
    (f : Nat) (H2 : Q2 c N M f) (H4 : Q4 c N M f) : Q1a c N M (f + 1) := by
  intro name pfx ty sels e hD hS hF hty ht hokL
  rcases absOkL_cases hokL with ⟨hok, hlg⟩ | ⟨g, rfl, hokB⟩
  rotate_left
  · -- a lone spread of a fragment on the abstract type itself: the type alias
    rw [calcSelection.eq_2]
    obtain ⟨fr, hfr, _, _, _, _⟩ := fragOkB_parts hokB
    simp only [getFragment_of hfr, bind, Except.bind, pure, Except.pure, not_recursive_of_fragOkB hokB]
    simp [absItemsL, loneG, fragName, hfr]
  have hns : ∀ g, sels = [Sel.spread g] → False := by
    intro g hg
    subst hg
    obtain ⟨hok1, _, _⟩ := absOkS_parts hok
    obtain ⟨htn, _⟩ := absOk2_parts hok1
    simp [isTypename] at htn
  rw [calcSelection.eq_3 _ _ _ _ _ _ hns]
  have hv : variantsOf c.s ty = .ok (some (vtsOfTy c.s ty)) := by
    apply variantsOf_abs
    cases ty <;> simp only [absHyp] at hty ⊢ <;> first | trivial | exact hty
  obtain ⟨hok1, _, _⟩ := absOkS_parts hok
  obtain ⟨_, _, hobj, _, _, _, hnd, _⟩ := absOk2_parts hok1
  have hspA := spreadsA_abs hty hok
  have hL := C02.length_le_selsSize sels
  have hvl := hM ty _ hv
  have hfields := H4 pfx ty sels e true hD hS (by
    cases e with
    | zero => simp only [C02.Fneed]; unfold C02.Sb at hF; omega
    | succ e' => simp only [C02.Fneed]; rw [C02.Sb_succ] at hF; omega) ht hspA
  have hvar : calcVariants c f name pfx (vselsOfS c.q ty sels) (vtsOfTy c.s ty) =
      .ok ((vtsOfTy c.s ty).map (variantOf c pfx (marks c.q sels)),
        (vtsOfTy c.s ty).flatMap (fun vt => variantHead c pfx vt sels ++ varItems c pfx vt sels)) := by
    cases e with
    | zero =>
      have : sels = [] := by
        cases sels with
        | nil => rfl
        | cons x xs => have := C02.selsDepth_cons_pos x xs; omega
      subst this
      apply H2 name pfx ty [] _ 0 (fun t sub hm => by simp at hm) _ hty ht hspA hobj
      simp only [C02.Fneed, List.length_nil]; unfold C02.Sb at hF; omega
    | succ e' =>
      have hI : InlB N e' sels := by
        intro t sub hm
        have h1 := C02.selDepth_le_of_mem hm
        have h2 := C02.selSize_le_of_mem hm
        rw [selDepth.eq_2] at h1
        rw [selSize.eq_2] at h2
        omega
      apply H2 name pfx ty sels _ e' hI _ hty ht hspA hobj
      cases e' with
      | zero => simp only [C02.Fneed]; rw [C02.Sb_succ] at hF; unfold C02.Sb at hF; omega
      | succ e'' => simp only [C02.Fneed]; rw [C02.Sb_succ, C02.Sb_succ] at hF; omega
  have hfm := filterMapM_variantSelS c.q ty sels hspA.frag
  simp only [hv, bind, Except.bind, pure, Except.pure, hfm, hvar, hfields]
  simp [absItemsL, hlg, absItemsS, variantsV, otherVariants]

include hn in
theorem calc_variantspread (hM : ∀ ty vts, variantsOf c.s ty = .ok (some vts) → vts.length ≤ M) :
    ∀ fuel, Q1o c N M fuel ∧ Q1a c N M fuel ∧ Q2 c N M fuel ∧ Q3 c N M fuel ∧ Q4 c N M fuel := by
  intro fuel
  induction fuel with
  | zero =>
    refine ⟨?_, ?_, ?_, ?_, ?_⟩
    · intro _ _ _ _ e _ _ h; unfold C02.Sb at h; omega
    · intro _ _ _ _ e _ _ h; unfold C02.Sb at h; omega
    · intro _ _ _ _ _ e _ h; omega
    · intro _ _ _ _ _ e _ h; omega
    · intro _ _ sels e _ _ _ h; have := C02.Fneed_pos N M e sels.length; omega
  | succ f ih =>
    obtain ⟨H1o, H1a, H2, H3, H4⟩ := ih
    exact ⟨stepQ1o c N M f H4, stepQ1a c N M hM f H2 H4, stepQ2 c N M f H2 H3, stepQ3 c N M f H3 H4,
      stepQ4 c hn N M f H1o H1a H4⟩

end CalcS

theorem variantSpreadOp_parts {c : Ctx} {op : ROperation} (h : VariantSpreadOp c op = true) :
    c.o.normalization = .none ∧ (c.s.objects[op.objectId]?).isSome = true ∧
      sSels c.s c.q c.o false op.sels = true ∧ EnumSpec.nodup (respKeys c.s op.sels) = true := by
  simp only [VariantSpreadOp, Bool.and_eq_true, beq_iff_eq] at h
  exact ⟨h.1.1.1, h.1.1.2, h.1.2, h.2⟩

/-- **Theorem 1 (`variantspread_items_shape`).**  For an operation of the class `VariantSpreadOp` the response items are,
    in closed form: as `variant_items_shape`, and at an abstract position, per possible type `T`: no item (unit variant,
    nothing selected on `T`), the type alias `…On<T> = F` (a lone spread of `F`), or the struct `…On<T>` with the own
    fields of the inline fragment on `T` and one `#[serde(flatten)]` member per spread of a fragment on `T`. -/
theorem variantspread_items_shape (c : Ctx) (op : ROperation) (hop : op ∈ c.q.operations)
    (ht : VariantSpreadOp c op = true) :
    responseItems c op = .ok (structItemsS c "ResponseData" (c.cs.camel op.name) op.sels) := by
  obtain ⟨hn, _, hsels, _⟩ := variantSpreadOp_parts ht
  have H := (calc_variantspread c hn (C02.totalSize c.q) (c.s.objects.length + C02.maxUnion c.s)
    (C02.variants_length_le c.s) (calcFuel c.s c.q)).1
  apply H _ _ _ _ (C02.maxDepth c.q) (C02.op_depth_le c.q op hop) _ (calcFuel_Sb c) hsels
  apply C02.le_foldl_add
  left
  simp only [List.mem_append, List.mem_map]
  exact .inr ⟨op, hop, rfl⟩

end E2E
end C01
end GqlVerif
