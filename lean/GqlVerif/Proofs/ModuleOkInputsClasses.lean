import GqlVerif.Proofs.ModuleOkInputs
import GqlVerif.Proofs.C01Abstract
import GqlVerif.Proofs.C01AbstractI
import GqlVerif.Proofs.C01MixedD
import GqlVerif.Proofs.C01MixedG
import GqlVerif.Proofs.C01VariantSpreadE
import GqlVerif.Proofs.C01VariantSpreadH
import GqlVerif.Proofs.AcyclicModulesClasses
import GqlVerif.Proofs.C14GeneratedAcyclic
/-!
# the headline end-to-end theorems with the side condition on the INPUT

Each theorem below is the theorem of the same name without `_inputs`, with `moduleOk c items = true` (a condition on
the emitted module) replaced by `MOK.ModuleOkIn c opIdx = true` (`Proofs/ModuleOkInputs.lean`: a decidable condition on
schema, resolved query, options and case functions), through `MOK.moduleOk_of_inputs`.  `ModuleOkIn` is class-free: no
`*_items_shape` theorem is used.  `with_inputs` is the same composition for any other statement.
-/
set_option linter.unusedSectionVars false
set_option linter.unusedSimpArgs false

namespace GqlVerif
namespace MOK
open Codegen C02 C01 C01.E2E C01M C03 Serde Spec C13

/-- any consequence of `moduleOk` on the emitted module is a consequence of `ModuleOkIn` on the input -/
theorem with_inputs {P : Prop} {c : Ctx} {opIdx : Nat} {items : List Item}
    (hgen : responseForQuery c opIdx = .ok items) (hok : ModuleOkIn c opIdx = true)
    (k : moduleOk c items = true → P) : P :=
  k (moduleOk_of_inputs c opIdx items hgen hok)

/-! ## C01: round trips -/

/-- **`variant_roundtrip` with the side condition on the input** -/
theorem variant_roundtrip_inputs (c : Ctx) (opIdx : Nat) (op : ROperation) (items : List Item)
    (hop : c.q.operations[opIdx]? = some op) (ht : VariantOp c op = true)
    (hgen : responseForQuery c opIdx = .ok items) (hok : ModuleOkIn c opIdx = true)
    (hro : rustOkSelsV c op.sels = true) (hrn : EnumSpec.nodup (rustNames c op.sels) = true)
    (j : Json) (hc : conformsOpV c op j = true) :
    Serde.roundtrip (moduleEnv c items) (.path "ResponseData") j = .ok (canonSelV c.s c.o.skipNone op.sels j) :=
  variant_roundtrip c opIdx op items hop ht hgen (moduleOk_of_inputs c opIdx items hgen hok) hro hrn j hc

/-- **`fragment_roundtrip` with the side condition on the input** -/
theorem fragment_roundtrip_inputs (c : Ctx) (opIdx : Nat) (op : ROperation) (items : List Item)
    (hop : c.q.operations[opIdx]? = some op) (ht : FragmentOp c op = true) (hk : fragKeysOk c op = true)
    (hr : fragRustOk c op = true)
    (hgen : responseForQuery c opIdx = .ok items) (hok : ModuleOkIn c opIdx = true)
    (j : Json) (hc : conformsOpF c op j = true) :
    Serde.roundtrip (moduleEnv c items) (.path "ResponseData") j = .ok (canonSelF c.s c.q c.o.skipNone op.sels j) :=
  fragment_roundtrip c opIdx op items hop ht hk hr hgen (moduleOk_of_inputs c opIdx items hgen hok) j hc

/-- **`C01M.mixed_roundtrip` with the side condition on the input** -/
theorem mixed_roundtrip_inputs (c : Ctx) (opIdx : Nat) (op : ROperation) (items : List Item)
    (hop : c.q.operations[opIdx]? = some op) (ht : MixedOp c op = true) (hk : mixedKeysOk c op = true)
    (hr : mixedRustOk c op = true)
    (hgen : responseForQuery c opIdx = .ok items) (hok : ModuleOkIn c opIdx = true)
    (j : Json) (hc : conformsOpM c op j = true) :
    Serde.roundtrip (moduleEnv c items) (.path "ResponseData") j =
      .ok (normJson (canonSelM c.s c.q c.o.skipNone op.sels j)) :=
  mixed_roundtrip c opIdx op items hop ht hk hr hgen (moduleOk_of_inputs c opIdx items hgen hok) j hc

/-- **`variantspread_roundtrip` with the side condition on the input** -/
theorem variantspread_roundtrip_inputs (c : Ctx) (opIdx : Nat) (op : ROperation) (items : List Item)
    (hop : c.q.operations[opIdx]? = some op) (ht : VariantSpreadOp c op = true)
    (hgen : responseForQuery c opIdx = .ok items) (hok : ModuleOkIn c opIdx = true)
    (hr : spreadRustOkD c op = true) (j : Json) (hc : conformsOpS c op j = true) :
    Serde.roundtrip (moduleEnv c items) (.path "ResponseData") j =
      .ok (normJson (canonSelD c.s c.q c.o.skipNone op.sels j)) :=
  variantspread_roundtrip c opIdx op items hop ht hgen (moduleOk_of_inputs c opIdx items hgen hok) hr j hc

/-- `variantspread_roundtrip_content` with the side condition on the input -/
theorem variantspread_roundtrip_content_inputs (c : Ctx) (opIdx : Nat) (op : ROperation) (items : List Item)
    (hop : c.q.operations[opIdx]? = some op) (ht : VariantSpreadOp c op = true)
    (hgen : responseForQuery c opIdx = .ok items) (hok : ModuleOkIn c opIdx = true)
    (hr : spreadRustOkD c op = true) (j : Json) (hc : conformsOpS c op j = true) :
    ∃ j', Serde.roundtrip (moduleEnv c items) (.path "ResponseData") j = .ok j' ∧ SameContent c.o.skipNone j j' :=
  variantspread_roundtrip_content c opIdx op items hop ht hgen (moduleOk_of_inputs c opIdx items hgen hok) hr j hc

/-- `mixed_roundtrip_on_F'` with the side condition on the input -/
theorem mixed_roundtrip_on_F_inputs (c : Ctx) (opIdx : Nat) (op : ROperation) (items : List Item)
    (hop : c.q.operations[opIdx]? = some op) (ht : FragmentOp c op = true) (hk : fragKeysOk c op = true)
    (hr : fragRustOk c op = true)
    (hgen : responseForQuery c opIdx = .ok items) (hok : ModuleOkIn c opIdx = true)
    (j : Json) (hc : conformsOpF c op j = true) :
    Serde.roundtrip (moduleEnv c items) (.path "ResponseData") j =
        .ok (normJson (canonSelM c.s c.q c.o.skipNone op.sels j)) ∧
      normJson (canonSelM c.s c.q c.o.skipNone op.sels j) = canonSelF c.s c.q c.o.skipNone op.sels j :=
  mixed_roundtrip_on_F' c opIdx op items hop ht hk hr hgen (moduleOk_of_inputs c opIdx items hgen hok) j hc

/-! ## C03: exact acceptance -/

theorem variant_precise_iff_inputs (c : Ctx) (opIdx : Nat) (op : ROperation) (items : List Item)
    (hop : c.q.operations[opIdx]? = some op) (ht : VariantOp c op = true)
    (hgen : responseForQuery c opIdx = .ok items) (hok : ModuleOkIn c opIdx = true) (j : Json) :
    okB (Serde.de (moduleEnv c items) (.path "ResponseData") j) = conformsLooseV c.s c.o false op.sels j :=
  variant_precise_iff c opIdx op items hop ht hgen (moduleOk_of_inputs c opIdx items hgen hok) j

theorem fragment_precise_iff_inputs (c : Ctx) (opIdx : Nat) (op : ROperation) (items : List Item)
    (hop : c.q.operations[opIdx]? = some op) (ht : FragmentOp c op = true) (hk : fragKeysOk c op = true)
    (hgen : responseForQuery c opIdx = .ok items) (hok : ModuleOkIn c opIdx = true) (j : Json) :
    okB (Serde.de (moduleEnv c items) (.path "ResponseData") j) = conformsLooseF c.s c.q c.o false op.sels j :=
  fragment_precise_iff c opIdx op items hop ht hk hgen (moduleOk_of_inputs c opIdx items hgen hok) j

theorem mixed_precise_iff_inputs (c : Ctx) (opIdx : Nat) (op : ROperation) (items : List Item)
    (hop : c.q.operations[opIdx]? = some op) (ht : MixedOp c op = true) (hk : mixedKeysOk c op = true)
    (hgen : responseForQuery c opIdx = .ok items) (hok : ModuleOkIn c opIdx = true) (j : Json) :
    okB (Serde.de (moduleEnv c items) (.path "ResponseData") j) = conformsLooseM c.s c.q c.o false op.sels j :=
  mixed_precise_iff c opIdx op items hop ht hk hgen (moduleOk_of_inputs c opIdx items hgen hok) j

theorem variantspread_precise_iff_inputs (c : Ctx) (opIdx : Nat) (op : ROperation) (items : List Item)
    (hop : c.q.operations[opIdx]? = some op) (ht : VariantSpreadOp c op = true)
    (hgen : responseForQuery c opIdx = .ok items) (hok : ModuleOkIn c opIdx = true) (j : Json) :
    okB (Serde.de (moduleEnv c items) (.path "ResponseData") j) = conformsLooseS c.s c.q c.o false op.sels j :=
  variantspread_precise_iff c opIdx op items hop ht hgen (moduleOk_of_inputs c opIdx items hgen hok) j

/-! ## C17 / C14 (docs/REVIEW_3.md, finding 3: the statements that "had no hypothesis left") -/

/-- `AcyclicM.class_module_envOK` with the side condition on the input -/
theorem class_module_envOK_inputs {c : Ctx} {opIdx : Nat} {op : ROperation} {items : List Item}
    (hop : c.q.operations[opIdx]? = some op) (hc : AcyclicM.InClass c op)
    (hgen : responseForQuery c opIdx = .ok items) (hok : ModuleOkIn c opIdx = true) :
    SerdeFuel.EnvOK (moduleEnv c items) ∧ SerdeFuel.EnvOKS (moduleEnv c items) :=
  AcyclicM.class_module_envOK hop hc hgen (moduleOk_of_inputs c opIdx items hgen hok)

/-- `AcyclicM.class_de_never_out_of_fuel` with the side condition on the input -/
theorem class_de_never_out_of_fuel_inputs {c : Ctx} {opIdx : Nat} {op : ROperation} {items : List Item}
    (hop : c.q.operations[opIdx]? = some op) (hc : AcyclicM.InClass c op)
    (hgen : responseForQuery c opIdx = .ok items) (hok : ModuleOkIn c opIdx = true) (t : RTy) (j : Json) :
    Serde.de (moduleEnv c items) t j ≠ .error (.unmodelled "fuel") :=
  AcyclicM.class_de_never_out_of_fuel hop hc hgen (moduleOk_of_inputs c opIdx items hgen hok) t j

/-- `AcyclicM.class_de_fuel_indep` with the side condition on the input -/
theorem class_de_fuel_indep_inputs {c : Ctx} {opIdx : Nat} {op : ROperation} {items : List Item}
    (hop : c.q.operations[opIdx]? = some op) (hc : AcyclicM.InClass c op)
    (hgen : responseForQuery c opIdx = .ok items) (hok : ModuleOkIn c opIdx = true) (t : RTy) (j : Json) (fuel : Nat)
    (hf : deFuel (moduleEnv c items) j ≤ fuel) :
    deTy (moduleEnv c items) false fuel t j = Serde.de (moduleEnv c items) t j :=
  AcyclicM.class_de_fuel_indep hop hc hgen (moduleOk_of_inputs c opIdx items hgen hok) t j fuel hf

/-- `AcyclicM.class_roundtrip_never_out_of_fuel` with the side condition on the input -/
theorem class_roundtrip_never_out_of_fuel_inputs {c : Ctx} {opIdx : Nat} {op : ROperation} {items : List Item}
    (hop : c.q.operations[opIdx]? = some op) (hc : AcyclicM.InClass c op)
    (hgen : responseForQuery c opIdx = .ok items) (hok : ModuleOkIn c opIdx = true) (t : RTy) (j : Json) :
    Serde.roundtrip (moduleEnv c items) t j ≠ .error (.unmodelled "fuel") :=
  AcyclicM.class_roundtrip_never_out_of_fuel hop hc hgen (moduleOk_of_inputs c opIdx items hgen hok) t j

/-- `C14G.denied_field_payload_same'` with the side condition on the input -/
theorem denied_field_payload_same_inputs (c : Ctx) (opIdx : Nat) (op : ROperation) (items : List Item)
    (hop : c.q.operations[opIdx]? = some op) (ht : C14G.TreeOpD c op = true)
    (hgen : responseForQuery c opIdx = .ok items) (hok : ModuleOkIn c opIdx = true) (j : Json) :
    Serde.de (moduleEnv c items) (.path "ResponseData") j =
      Serde.de (moduleEnv c items) (.path "ResponseData") (C14G.eraseDenied c op j) :=
  C14G.denied_field_payload_same' c opIdx op items hop ht hgen (moduleOk_of_inputs c opIdx items hgen hok) j

/-! ## a non-trivial instance: nested selections, an enum, a fragment

`enum Mood { HAPPY SAD type }  type Human { name: String!  height: Float  friend: Human  mood: Mood }
 type Query { hero: Human }`, identity case functions, default options. -/

def pxSchema : Schema :=
  { objects := [{ name := "Query", fields := [0], implements := [] },
                { name := "Human", fields := [1, 2, 3, 4], implements := [] }]
    fields := [{ name := "hero", ty := { id := .object 1, quals := [] }, parent := .object 0, deprecation := none },
               { name := "name", ty := { id := .scalar 1, quals := [.required] }, parent := .object 1, deprecation := none },
               { name := "height", ty := { id := .scalar 3, quals := [] }, parent := .object 1, deprecation := none },
               { name := "friend", ty := { id := .object 1, quals := [] }, parent := .object 1, deprecation := none },
               { name := "mood", ty := { id := .enum 0, quals := [] }, parent := .object 1, deprecation := none }]
    scalars := ["ID", "String", "Int", "Float", "Boolean"]
    enums := [{ name := "Mood", variants := ["HAPPY", "SAD", "type"] }] }

/-- `query Q { hero { ...Basics friend { height best: friend { mood } ...Basics } } }` -/
def pxOp : ROperation :=
  { name := "Q", kind := .query, objectId := 0,
    sels := [.field none 0 [.spread 0,
      .field none 3 [.field none 2 [], .field (some "best") 3 [.field none 4 []], .spread 0]]] }

/-- `fragment Basics on Human { name mood __typename }` -/
def pxQuery : Query :=
  { operations := [pxOp]
    fragments := [{ name := "Basics", on := .object 1, sels := [.field none 1 [], .field none 4 [], .typename] }] }

def pxCtx : Ctx := { s := pxSchema, q := pxQuery, o := {}, cs := ⟨id, id⟩ }

/-- the class and its decidable side conditions -/
theorem px_class : FragmentOp pxCtx pxOp = true ∧ fragKeysOk pxCtx pxOp = true ∧ fragRustOk pxCtx pxOp = true := by
  refine ⟨?_, ?_, ?_⟩ <;> decide +kernel

/-- **the input-level predicate holds** (evaluated on schema + query, not on the module) -/
theorem px_in : ModuleOkIn pxCtx 0 = true := by decide +kernel

/-- the item names it examines -/
example : (allUsedTypes pxCtx.s pxCtx.q 0).toOption.map (fun u => itemNames pxCtx u pxOp 0) =
    some ["Boolean", "Float", "Int", "ID", "Mood", "Variables", "Basics", "ResponseData", "Qhero", "Qherofriend",
      "Qherofriendbest"] := by
  decide +kernel

theorem px_gen : (responseForQuery pxCtx 0).toOption.isSome = true := by decide +kernel

def pxJson : Json :=
  .obj [("hero", .obj [("__typename", .str "Human"), ("name", .str "Luke"), ("mood", .str "HAPPY"),
      ("friend", .obj [("height", .num "1.7"), ("best", .obj [("mood", .str "GRUMPY")]), ("name", .str "Han"),
                       ("mood", .null), ("__typename", .str "Human")])])]

theorem px_conforms : conformsOpF pxCtx pxOp pxJson = true := by
  simp [conformsOpF, expandSels, expandSel, conformsV, confSelsV, confSelV, keysSelsV, keysSelV, fragApplies, rtName,
    pxCtx, pxSchema, pxOp, pxQuery, pxJson, Json.lookup, accepts, acceptsNN, gtyOf, scalarOk, floatOk, stringOk,
    Json.isNull, EnumSpec.nodup, List.range, List.range.loop]

def pxCanon : Json :=
  .obj [("hero", .obj [("name", .str "Luke"), ("mood", .str "HAPPY"),
      ("friend", .obj [("height", .num "1.7"), ("best", .obj [("mood", .str "GRUMPY")]), ("name", .str "Han"),
                       ("mood", .null)])])]

theorem px_canon : canonSelF pxCtx.s pxCtx.q pxCtx.o.skipNone pxOp.sels pxJson = pxCanon := by
  simp [canonSelF, canonEntriesF, canonFieldF, canonSelV, canonEntriesV, canonFieldV, canon, canonNN, gtyOf, fragSels,
    pxCtx, pxSchema, pxOp, pxQuery, pxJson, pxCanon, Json.lookup, skipQ, Json.isNull]

/-- **`fragment_roundtrip_inputs` applies**: whatever module `responseForQuery` emits for the operation, the response
    (unknown enum value `GRUMPY`, `null` enum, `__typename` at two depths) round-trips to `pxCanon`; the module is never
    inspected — the side condition is `px_in` -/
theorem px_roundtrip (items : List Item) (hgen : responseForQuery pxCtx 0 = .ok items) :
    Serde.roundtrip (moduleEnv pxCtx items) (.path "ResponseData") pxJson = .ok pxCanon := by
  rw [← px_canon]
  exact fragment_roundtrip_inputs pxCtx 0 pxOp items rfl px_class.1 px_class.2.1 px_class.2.2 hgen px_in pxJson
    px_conforms

/-- … and generation does succeed -/
example : ∃ items, responseForQuery pxCtx 0 = .ok items ∧ moduleOk pxCtx items = true ∧
    Serde.roundtrip (moduleEnv pxCtx items) (.path "ResponseData") pxJson = .ok pxCanon := by
  cases hgen : responseForQuery pxCtx 0 with
  | error e =>
    have := px_gen
    rw [hgen] at this; cases this
  | ok items => exact ⟨items, rfl, moduleOk_of_inputs pxCtx 0 items hgen px_in, px_roundtrip items hgen⟩

/-- the same operation with the alias `best` replaced by a second path to the same name
    (`query Q { hero { ...Basics friend { height friend { mood } } herofriend: hero { friend { name } } } }`): still in the
    class, generation succeeds, `ModuleOkIn` is false (`Qherofriendfriend` twice) -/
example :
    let op : ROperation := { pxOp with sels :=
      [.field none 0 [.spread 0, .field none 3 [.field none 2 [], .field none 3 [.field none 4 []]]],
       .field (some "herofriend") 0 [.field none 3 [.field none 1 []]]] }
    let c : Ctx := { pxCtx with q := { pxQuery with operations := [op] } }
    FragmentOp c op = true ∧ (responseForQuery c 0).toOption.isSome = true ∧ ModuleOkIn c 0 = false := by
  refine ⟨?_, ?_, ?_⟩ <;> decide +kernel

end MOK
end GqlVerif
