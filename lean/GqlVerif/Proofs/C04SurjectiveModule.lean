import GqlVerif.Proofs.C04SurjectiveExpress
/-!
# C04 — `input_expressible` for the module `responseForQuery` emits

* `decorateType_inv`, `inputFieldType_inv`, **`inputItem_inv`**, `variableType_inv`, **`variablesItems_head`**: closed
  forms (normalization `none`): a successful `inputItem c i` *is* `inputItemSpec c i`, the first `Variables` item *is*
  `variablesSpec c op`; success alone gives `wf` (no `!!`) and nullable `@oneOf` fields.
* **`inputEnv_of_module`**: the emitted module, completed by `externsFor c` (consumer types: `String` for every custom
  scalar path and extern enum), satisfies `InputEnv` for the used set of `allUsedTypes`.
* **`input_expressible`** (per declared variable) and **`variables_expressible`** (whole assignment, `VarsValid`,
  `canonVars`), `no_variables_expressible` (`struct Variables;`).

Hypotheses of the module-level theorems (all decidable on a concrete instance, see `ex_hyps`):
`hnorm`, `hkwI/S/E`, `hwf : OutputOnly`, `hrel : InputFieldsRelevant`, `hvars` — those of
`C02.module_well_scoped_partial`; `hdef : (Scope.defines items).Nodup` and `hmem : ∀ it ∈ items, (memberIdents it).Nodup`
— the other components of `Scope.wellScoped` (the module compiles: no duplicate definition — equivalently
`C02.NoClash`, `C02.defines_nodup_iff` — and no duplicate member); `hprim`: no item is named `String`/`i64`/`f64`/`bool`
(the model resolves these names first, Rust would let the item shadow them); `hfree : ExternsFree`: the paths the
consumer supplies are not shadowed by an item; `hint : L.intOk n → inI64 n` (true for 32- and 64-bit).
-/
namespace GqlVerif
namespace C04S
open Codegen Serde C13

/-! ## 11. closed forms of what the generator emits (normalization `none`) -/

/-- `decorate_type` succeeds only on type expressions without `!!`, and then computes `rustOf` -/
theorem decorate_ok_wf (b : RTy) : ∀ (t : GTy) (st : RTy × Bool),
    (GTy.quals t).reverse.foldlM decorateStep (b, false) = .ok st → wf t = true
  | .named _, _, _ => rfl
  | .list t, st, h => by
    simp only [GTy.quals, List.reverse_cons, C13.foldlM_snoc] at h
    obtain ⟨st', h', _⟩ := C02.bind_ok h
    simpa [wf] using decorate_ok_wf b t st' h'
  | .nonNull t, st, h => by
    simp only [GTy.quals, List.reverse_cons, C13.foldlM_snoc] at h
    obtain ⟨st', h', hs⟩ := C02.bind_ok h
    have hw := decorate_ok_wf b t st' h'
    rw [C13.fold_state b t hw] at h'
    cases h'
    cases hnn : isNN t
    · cases t <;> simp_all [wf, isNN]
    · simp [decorateStep, hnn, panic'] at hs

theorem decorateType_inv {b : RTy} {n : String} {quals : List Qual} {r : RTy}
    (h : decorateType b quals = .ok r) : wf (ofQuals n quals) = true ∧ r = rustOf b (ofQuals n quals) := by
  have hq := quals_ofQuals n quals
  have h' := h
  unfold decorateType at h'
  obtain ⟨st, hst, _⟩ := C02.bind_ok h'
  rw [← hq] at hst
  have hw := decorate_ok_wf b _ st hst
  refine ⟨hw, ?_⟩
  have := C13.decorate_spec b (ofQuals n quals) hw
  rw [hq, h] at this
  cases this; rfl

theorem inputFieldType_inv {c : Ctx} (hnorm : c.o.normalization = .none) {ty : FieldType} {quals : List Qual} {r : RTy}
    (h : inputFieldType c ty quals = .ok r) :
    wf (ofQuals "" quals) = true ∧ r = fieldRTy c ty.id (ofQuals "" quals) ∧ ∃ tn, c.s.typeName ty.id = .ok tn := by
  unfold inputFieldType at h
  obtain ⟨tn, htn, h⟩ := C02.bind_ok h
  obtain ⟨t0, ht0, h⟩ := C02.bind_ok h
  simp only [pure, Except.pure, Except.ok.injEq] at h
  obtain ⟨hw, rfl⟩ := decorateType_inv (n := "") ht0
  refine ⟨hw, ?_, tn, htn⟩
  rw [← h, hnorm, C02.fieldType_none]
  unfold fieldRTy boxed
  rw [C02.tnOf_ok htn]
  rfl

theorem mapM_eq_map {ε α β : Type} {f : α → Except ε β} (g : α → β) : ∀ {l : List α} {r : List β},
    l.mapM f = .ok r → (∀ x ∈ l, ∀ y, f x = .ok y → y = g x) → r = l.map g
  | [], r, h, _ => by cases h; rfl
  | a :: l, r, h, hg => by
    rw [List.mapM_cons] at h
    obtain ⟨b, hb, h⟩ := C02.bind_ok h
    obtain ⟨r', hr', h⟩ := C02.bind_ok h
    simp only [pure, Except.pure, Except.ok.injEq] at h
    subst h
    rw [List.map_cons, hg a (by simp) b hb, mapM_eq_map g hr' (fun x hx => hg x (by simp [hx]))]

/-- **closed form of `inputItem`** -/
theorem inputItem_inv {c : Ctx} (hnorm : c.o.normalization = .none) {i : StoredInput} {it : Item}
    (hkw : keywordReplace i.name = i.name) (h : inputItem c i = .ok it) :
    it = inputItemSpec c i ∧
    ∀ p ∈ i.fields, wf (gty p.2) = true ∧ (i.isOneOf = true → isNN (gty p.2) = false) ∧
      ∃ tn, c.s.typeName p.2.id = .ok tn := by
  rw [inputItem.eq_1] at h
  have hname : keywordReplace (c.o.normalization.inputName c.cs i.name) = i.name := by
    rw [hnorm]; exact hkw
  simp only [hname] at h
  unfold inputItemSpec
  split at h
  · rename_i hone
    obtain ⟨vs, hvs, h⟩ := C02.bind_ok h
    simp only [pure, Except.pure, Except.ok.injEq] at h
    have hfield : ∀ p ∈ i.fields, ∀ y, (do
          let t ← inputFieldType c p.2 (.required :: p.2.quals)
          pure ({ name := keywordReplace (c.cs.camel p.1), rename := fieldRename p.1 (keywordReplace (c.cs.camel p.1)),
                  payload := some t } : RVariant)) = Except.ok y →
        y = inputVariant c p ∧ wf (.nonNull (gty p.2)) = true ∧ ∃ tn, c.s.typeName p.2.id = .ok tn := by
      intro p _ y hy
      obtain ⟨t, ht, hy⟩ := C02.bind_ok hy
      simp only [pure, Except.pure, Except.ok.injEq] at hy
      obtain ⟨hw, rfl, htn⟩ := inputFieldType_inv hnorm ht
      exact ⟨hy.symm, hw, htn⟩
    refine ⟨?_, ?_⟩
    · rw [if_pos hone, ← h]
      congr 1
      exact mapM_eq_map (inputVariant c) hvs (fun p hp y hy => (hfield p hp y hy).1)
    · intro p hp
      obtain ⟨y, _, hy⟩ := C02.mapM_ok_of_mem hvs p hp
      have hw := (hfield p hp y hy).2.1
      refine ⟨wf_nonNull hw, fun _ => ?_, (hfield p hp y hy).2.2⟩
      cases hg : gty p.2 <;> simp_all [wf, isNN]
  · rename_i hone
    obtain ⟨fs, hfs, h⟩ := C02.bind_ok h
    simp only [pure, Except.pure, Except.ok.injEq] at h
    have hfield : ∀ p ∈ i.fields, ∀ y, (do
          let t ← inputFieldType c p.2 p.2.quals
          pure ({ rust := keywordReplace (c.cs.snake p.1), rename := fieldRename p.1 (keywordReplace (c.cs.snake p.1)),
                  ty := t, skipNone := c.o.skipNone && p.2.isOptional } : RField)) = Except.ok y →
        y = inputField c p ∧ wf (gty p.2) = true ∧ ∃ tn, c.s.typeName p.2.id = .ok tn := by
      intro p _ y hy
      obtain ⟨t, ht, hy⟩ := C02.bind_ok hy
      simp only [pure, Except.pure, Except.ok.injEq] at hy
      obtain ⟨hw, rfl, htn⟩ := inputFieldType_inv hnorm ht
      exact ⟨hy.symm, hw, htn⟩
    refine ⟨?_, ?_⟩
    · rw [if_neg hone, ← h]
      congr 1
      exact mapM_eq_map (inputField c) hfs (fun p hp y hy => (hfield p hp y hy).1)
    · intro p hp
      obtain ⟨y, _, hy⟩ := C02.mapM_ok_of_mem hfs p hp
      exact ⟨(hfield p hp y hy).2.1, fun h => absurd h hone, (hfield p hp y hy).2.2⟩


/-! ### `Variables` -/

/-- the declared variables of the operation as a field list (name, resolved type) -/
def varFields (c : Ctx) (op : Nat) : List (String × FieldType) := (c.q.opVariables op).map fun v => (v.name, v.ty)

def varMember (c : Ctx) (p : String × FieldType) : RField :=
  { rust := keywordReplace (c.cs.snake p.1), rename := fieldRename p.1 (keywordReplace (c.cs.snake p.1)),
    ty := R c p.2.id false (gty p.2), skipNone := c.o.skipNone && !isNN (gty p.2) }

def variablesSpec (c : Ctx) (op : Nat) : Item :=
  .struct "Variables" (allVariableDerives c.o) c.serdeCrate ((varFields c op).map (varMember c))

theorem kw_typeName {c : Ctx}
    (hkwI : ∀ i ∈ c.s.inputs, keywordReplace i.name = i.name)
    (hkwS : ∀ n ∈ c.s.scalars, keywordReplace n = n)
    (hkwE : ∀ e ∈ c.s.enums, keywordReplace e.name = e.name)
    {id : TypeId} (hr : C02.Relevant id) {tn : String} (h : c.s.typeName id = .ok tn) : keywordReplace tn = tn := by
  cases id with
  | scalar k => exact hkwS tn (List.mem_of_getElem? (C02.getScalar_ok h))
  | «enum» k =>
    simp only [Schema.typeName] at h
    cases hg : c.s.getEnum k with
    | error err => simp [hg, Functor.map, Except.map] at h
    | ok en =>
      simp only [hg, Functor.map, Except.map, Except.ok.injEq] at h
      rw [← h]; exact hkwE en (List.mem_of_getElem? (C02.getEnum_ok hg))
  | input k =>
    simp only [Schema.typeName] at h
    cases hg : c.s.getInput k with
    | error err => simp [hg, Functor.map, Except.map] at h
    | ok i =>
      simp only [hg, Functor.map, Except.map, Except.ok.injEq] at h
      rw [← h]; exact hkwI i (List.mem_of_getElem? (C02.getInput_ok hg))
  | object k => exact absurd hr (by simp [C02.Relevant])
  | interface k => exact absurd hr (by simp [C02.Relevant])
  | union k => exact absurd hr (by simp [C02.Relevant])

theorem variableType_inv {c : Ctx} (hnorm : c.o.normalization = .none) {v : RVariable} {t : RTy}
    (hkw : ∀ tn, c.s.typeName v.ty.id = .ok tn → keywordReplace tn = tn) (h : variableType c v = .ok t) :
    wf (gty v.ty) = true ∧ t = R c v.ty.id false (gty v.ty) := by
  unfold variableType at h
  obtain ⟨tn, htn, h⟩ := C02.bind_ok h
  rw [hnorm, C02.fieldType_none, hkw tn htn] at h
  obtain ⟨hw, rfl⟩ := decorateType_inv (n := "") h
  refine ⟨hw, ?_⟩
  simp [R, C02.tnOf_ok htn, gty]

theorem all2_eq_map {α β} (g : α → β) : ∀ {xs : List α} {ys : List β}, C01.All2 (fun x y => y = g x) xs ys → ys = xs.map g
  | _, _, .nil => rfl
  | _, _, .cons h rest => by rw [List.map_cons, h, all2_eq_map g rest]

theorem all2_left_mem {α β} {R : α → β → Prop} : ∀ {xs : List α} {ys : List β}, C01.All2 R xs ys →
    ∀ x ∈ xs, ∃ y, R x y
  | _, _, .nil, x, hx => by simp at hx
  | _, _, .cons h rest, x, hx => by
    rcases List.mem_cons.mp hx with rfl | hx
    · exact ⟨_, h⟩
    · exact all2_left_mem rest x hx

/-- **closed form of the `Variables` struct** -/
theorem variablesItems_head {c : Ctx} {op : Nat} {V : List Item} (hnorm : c.o.normalization = .none)
    (hkw : ∀ v ∈ c.q.opVariables op, ∀ tn, c.s.typeName v.ty.id = .ok tn → keywordReplace tn = tn)
    (hV : variablesItems c op = .ok V) (hne : c.q.opVariables op ≠ []) :
    V.head? = some (variablesSpec c op) ∧ ∀ p ∈ varFields c op, wf (gty p.2) = true := by
  obtain ⟨fs, hhead, hall⟩ := C04Keys.variables_struct c op V hV hne
  have hall' : C01.All2 (fun v f => (f = varMember c (v.name, v.ty)) ∧ wf (gty v.ty) = true) (c.q.opVariables op) fs := by
    refine C01.All2.imp_mem ?_ hall
    intro v hv f ⟨t, ht, hf⟩
    obtain ⟨hw, rfl⟩ := variableType_inv hnorm (hkw v hv) ht
    refine ⟨?_, hw⟩
    rw [hf]
    simp only [C04Keys.varField, varMember, C04Keys.memberName, C04Keys.nullable, gty, isNN_ofQuals]
    rfl
  refine ⟨?_, ?_⟩
  · rw [hhead, variablesSpec, varFields, List.map_map]
    congr 2
    exact all2_eq_map _ (hall'.imp (fun _ _ h => h.1))
  · intro p hp
    obtain ⟨v, hv, rfl⟩ := List.mem_map.mp hp
    obtain ⟨_, h⟩ := all2_left_mem hall' v hv
    exact h.2


/-! ## 12. the module `responseForQuery` emits satisfies `InputEnv` -/

def customScalars (s : Schema) : List String := s.scalars.filter (fun n => !Schema.defaultScalars.contains n)

/-- the path the alias of a custom scalar points to -/
def scalarPath (c : Ctx) (n : String) : String := (c.o.scalarsModule.getD "super") ++ "::" ++ n

/-- what the consumer supplies: a type for every custom scalar and every extern enum — here `String` -/
def externsFor (c : Ctx) : List (String × RTy) :=
  (customScalars c.s).map (fun n => (scalarPath c n, .path "String")) ++
  c.o.externEnums.map (fun n => (n, .path "String"))

/-- the module together with the consumer's types -/
def moduleEnv (c : Ctx) (items : List Item) : Env := { items := items, externs := externsFor c }

/-- the paths the consumer supplies are not one of the four leaf names and not shadowed by an item -/
def ExternsFree (c : Ctx) (items : List Item) : Prop :=
  ∀ q ∈ (externsFor c).map (·.1), C01.notPrim q ∧ ∀ it ∈ items, it.name ≠ q

theorem find_const_snd {T : RTy} : ∀ (l : List (String × RTy)), (∀ x ∈ l, x.2 = T) → ∀ q ∈ l.map (·.1),
    l.find? (·.1 == q) = some (q, T)
  | [], _, q, hq => by simp at hq
  | (k, t) :: l, hT, q, hq => by
    simp only [List.find?_cons]
    by_cases hk : k = q
    · subst hk
      have := hT (k, t) (by simp)
      simp only at this
      simp [this]
    · have : (k == q) = false := by simpa using hk
      simp only [this]
      refine find_const_snd l (fun x hx => hT x (by simp [hx])) q ?_
      simp only [List.map_cons, List.mem_cons] at hq
      rcases hq with rfl | hq
      · exact absurd rfl hk
      · exact hq

theorem externs_find (c : Ctx) (q : String) (hq : q ∈ (externsFor c).map (·.1)) :
    (externsFor c).find? (·.1 == q) = some (q, .path "String") := by
  refine find_const_snd _ ?_ q hq
  intro x hx
  simp only [externsFor, List.mem_append, List.mem_map] at hx
  rcases hx with ⟨n, _, rfl⟩ | ⟨n, _, rfl⟩ <;> rfl

theorem find_none_of_free {items : List Item} {q : String} (h : ∀ it ∈ items, it.name ≠ q) :
    items.find? (·.name == q) = none := by
  rw [List.find?_eq_none]
  intro x hx
  simpa using h x hx

theorem find_in_prefix (pre post : List Item) (it : Item)
    (hdef : ∀ x ∈ pre, Scope.itemDefines x = some x.name) (hnd : (Scope.defines pre).Nodup) (hit : it ∈ pre) :
    (pre ++ post).find? (·.name == it.name) = some it := by
  rw [C02.defines_eq_map_name hdef] at hnd
  rw [List.find?_append, find_by_key Item.name pre hnd it hit]
  rfl

theorem enumItem_mem {c : Ctx} {u : UsedTypes} {E : List Item} (h : enumItems c u = .ok E)
    {k : Nat} {en : StoredEnum} (hk : .enum k ∈ u.types) (he : c.s.enums[k]? = some en)
    (hne : en.name ∉ c.o.externEnums) : enumItem c en ∈ E := by
  unfold enumItems at h
  obtain ⟨es, hes, h⟩ := C02.bind_ok h
  simp only [pure, Except.pure, Except.ok.injEq] at h
  subst h
  have hmem : k ∈ sortNat (u.types.filterMap TypeId.asEnum?) := by
    rw [C02.mem_sortNat, List.mem_filterMap]
    exact ⟨_, hk, rfl⟩
  obtain ⟨e', he', hget⟩ := C02.mapM_ok_of_mem hes k hmem
  have := C02.getEnum_ok hget
  rw [he] at this; cases this
  exact List.mem_map.mpr ⟨en, List.mem_filter.mpr ⟨he', by simpa using hne⟩, rfl⟩

theorem scalarItem_mem {c : Ctx} {u : UsedTypes} {S : List Item} (h : scalarItems c u = .ok S)
    (hnorm : c.o.normalization = .none)
    {k : Nat} {n : String} (hk : .scalar k ∈ u.types) (hn : c.s.scalars[k]? = some n)
    (hnd : n ∉ Schema.defaultScalars) : Item.alias n false (.path (scalarPath c n)) ∈ S := by
  unfold scalarItems at h
  obtain ⟨names, hnames, h⟩ := C02.bind_ok h
  simp only [pure, Except.pure, Except.ok.injEq] at h
  subst h
  have hmem : k ∈ sortNat (u.types.filterMap TypeId.asScalar?) := by
    rw [C02.mem_sortNat, List.mem_filterMap]
    exact ⟨_, hk, rfl⟩
  obtain ⟨n', hn', hget⟩ := C02.mapM_ok_of_mem hnames k hmem
  have := C02.getScalar_ok hget
  rw [hn] at this; cases this
  refine List.mem_map.mpr ⟨n, List.mem_filter.mpr ⟨hn', by simpa using hnd⟩, ?_⟩
  simp only [hnorm, scalarPath]
  rfl

theorem nodup_of_map {α β} (f : α → β) : ∀ {l : List α}, (l.map f).Nodup → l.Nodup
  | [], _ => List.nodup_nil
  | a :: l, h => by
    simp only [List.map_cons, List.nodup_cons] at h ⊢
    exact ⟨fun ha => h.1 (List.mem_map_of_mem ha), nodup_of_map f h.2⟩

theorem nodup_fst_of_comp {α} (g : String → String) (key : α → String) {l : List α}
    (h : (l.map fun p => g (key p)).Nodup) : (l.map key).Nodup := by
  have : l.map (fun p => g (key p)) = (l.map key).map g := by rw [List.map_map]; rfl
  rw [this] at h
  exact nodup_of_map g h

/-- **the emitted module resolves the used input-side names as `InputEnv` demands.**  Hypotheses: those of
    `C02.module_well_scoped_partial` for the input side (normalization `none`, no keyword clash in type names,
    input types only in input positions); the module has no duplicate definition and no item with two members
    of the same identifier (the remaining components of `Scope.wellScoped`: it compiles); no item is named like
    one of the four Rust leaf types; the consumer's paths are free. -/
theorem inputEnv_of_module (c : Ctx) (op : Nat) (items : List Item)
    (hnorm : c.o.normalization = .none)
    (hkwI : ∀ i ∈ c.s.inputs, keywordReplace i.name = i.name)
    (hwf : C02.OutputOnly c.s c.q = true) (hrel : C02.InputFieldsRelevant c.s = true)
    (hdef : (Scope.defines items).Nodup) (hmem : ∀ it ∈ items, (C02.memberIdents it).Nodup)
    (hprim : ∀ it ∈ items, C01.notPrim it.name) (hfree : ExternsFree c items)
    (h : responseForQuery c op = .ok items) :
    ∃ u, allUsedTypes c.s c.q op = .ok u ∧ InputEnv c (moduleEnv c items) (· ∈ u.types) := by
  obtain ⟨u, S, E, F, I, V, o, R', hu, hS, hE, hF, hI, hV, ho, hR, hitems⟩ := C02.responseForQuery_ok_full h
  refine ⟨u, hu, ?_⟩
  have hsplit : items = (builtinAliases ++ S ++ E ++ I) ++ (V ++ F.flatten ++ R') := by
    rw [hitems]; simp [List.append_assoc]
  have hpre_def : ∀ x ∈ builtinAliases ++ S ++ E ++ I, Scope.itemDefines x = some x.name := by
    intro x hx
    simp only [List.mem_append] at hx
    rcases hx with ((hx | hx) | hx) | hx
    · simp only [builtinAliases, List.mem_cons, List.not_mem_nil, or_false] at hx
      rcases hx with rfl | rfl | rfl | rfl <;> rfl
    · exact C02.scalarItems_itemDefines hS x hx
    · exact C02.enumItems_itemDefines hE x hx
    · exact C02.inputItems_itemDefines hI x hx
  have hpre_nd : (Scope.defines (builtinAliases ++ S ++ E ++ I)).Nodup := by
    rw [hsplit, C02.defines_append] at hdef
    exact (List.nodup_append.mp hdef).1
  have hfind : ∀ it ∈ builtinAliases ++ S ++ E ++ I, (moduleEnv c items).find it.name = some it := by
    intro it hit
    show items.find? (·.name == it.name) = some it
    rw [hsplit]
    exact find_in_prefix _ _ it hpre_def hpre_nd hit
  have hpre_sub : ∀ it ∈ builtinAliases ++ S ++ E ++ I, it ∈ items := by
    intro it hit; rw [hsplit]; exact List.mem_append_left _ hit
  have hnone : ∀ q ∈ (externsFor c).map (·.1), (moduleEnv c items).find q = none :=
    fun q hq => find_none_of_free (hfree q hq).2
  -- facts about a used input type
  have hinput : ∀ k i, .input k ∈ u.types → c.s.inputs[k]? = some i →
      inputItemSpec c i ∈ builtinAliases ++ S ++ E ++ I ∧
      ∀ p ∈ i.fields, wf (gty p.2) = true ∧ (i.isOneOf = true → isNN (gty p.2) = false) ∧
        ∃ tn, c.s.typeName p.2.id = .ok tn := by
    intro k i hk hi
    obtain ⟨it, hit, hfit⟩ := C02.inputItems_defines hI hk hi
    obtain ⟨rfl, hq⟩ := inputItem_inv hnorm (hkwI i (List.mem_of_getElem? hi)) hfit
    exact ⟨List.mem_append_right _ hit, hq⟩
  have hname : ∀ i, (inputItemSpec c i).name = i.name := by
    intro i; unfold inputItemSpec; split <;> rfl
  have hmembers : ∀ k i, .input k ∈ u.types → c.s.inputs[k]? = some i →
      (i.isOneOf = false → (i.fields.map (fun p => (inputField c p).rust)).Nodup) ∧
      (i.isOneOf = true → (i.fields.map (fun p => (inputVariant c p).name)).Nodup) := by
    intro k i hk hi
    have := hmem _ (hpre_sub _ (hinput k i hk hi).1)
    unfold inputItemSpec at this
    constructor
    · intro hone
      rw [if_neg (by simp [hone])] at this
      simpa [C02.memberIdents, List.map_map, Function.comp_def] using this
    · intro hone
      rw [if_pos hone] at this
      simpa [C02.memberIdents, List.map_map, Function.comp_def] using this
  refine
    { int := hfind (.alias "Int" false (.path "i64")) (by simp [builtinAliases])
      float := hfind (.alias "Float" false (.path "f64")) (by simp [builtinAliases])
      boolean := hfind (.alias "Boolean" false (.path "bool")) (by simp [builtinAliases])
      id := hfind (.alias "ID" false (.path "String")) (by simp [builtinAliases])
      custom := ?_, enums := ?_, inputs := ?_, closed := ?_, fieldNames := ?_, members := hmembers }
  · intro k n hk hn hnd
    have hit : Item.alias n false (.path (scalarPath c n)) ∈ builtinAliases ++ S ++ E ++ I :=
      List.mem_append_left _ (List.mem_append_left _ (List.mem_append_right _ (scalarItem_mem hS hnorm hk hn hnd)))
    have hq : scalarPath c n ∈ (externsFor c).map (·.1) := by
      simp only [externsFor, List.map_append, List.map_map, List.mem_append, List.mem_map]
      refine .inl ⟨n, ?_, rfl⟩
      exact List.mem_filter.mpr ⟨List.mem_of_getElem? hn, by simpa using hnd⟩
    exact ⟨hprim _ (hpre_sub _ hit), scalarPath c n, (hfree _ hq).1, hfind _ hit, hnone _ hq, externs_find c _ hq⟩
  · intro k en hk hen
    by_cases hx : en.name ∈ c.o.externEnums
    · have hq : en.name ∈ (externsFor c).map (·.1) := by
        simp only [externsFor, List.map_append, List.map_map, List.mem_append, List.mem_map]
        exact .inr ⟨en.name, hx, rfl⟩
      exact ⟨(hfree _ hq).1, .inr ⟨hnone _ hq, externs_find c _ hq⟩⟩
    · have hit : enumItem c en ∈ builtinAliases ++ S ++ E ++ I :=
        List.mem_append_left _ (List.mem_append_right _ (enumItem_mem hE hk hen hx))
      have hn : (enumItem c en).name = en.name := by rw [enumItem_eq, hnorm]; rfl
      refine ⟨hn ▸ hprim _ (hpre_sub _ hit), .inl ⟨hn ▸ hfind _ hit, ?_⟩⟩
      have := hmem _ (hpre_sub _ hit)
      rw [enumItem_eq] at this
      exact (List.nodup_append.mp this).1
  · intro k i hk hi
    have hit := (hinput k i hk hi).1
    exact ⟨hname i ▸ hprim _ (hpre_sub _ hit), hname i ▸ hfind _ hit⟩
  · intro k i hk hi p hp
    have hr : C02.Relevant p.2.id := C02.InputFieldsRelevant.spec hrel i (List.mem_of_getElem? hi) p hp
    have hq := (hinput k i hk hi).2 p hp
    exact ⟨C02.used_inputs_closed c.s c.q op u hwf hu k hk i hi p hp hr, hr, hq.1, hq.2.1, hq.2.2⟩
  · intro k i hk hi
    cases hone : i.isOneOf
    · exact nodup_fst_of_comp (fun n => keywordReplace (c.cs.snake n)) (fun p : String × FieldType => p.1)
        ((hmembers k i hk hi).1 hone)
    · exact nodup_fst_of_comp (fun n => keywordReplace (c.cs.camel n)) (fun p : String × FieldType => p.1)
        ((hmembers k i hk hi).2 hone)


/-! ## 13. `input_expressible` -/

/-- from the fuel-indexed statement to `serde_json::to_value` / `from_value` -/
theorem expr_top {L : Leaves} {e : Env} {r : RTy} {j out : Json} {x : Val} (h : Expr L e r j out x) :
    Serde.ser e r x = .ok out ∧ ((∀ n, L.idInt n = false) → Serde.de e r j = .ok x) := by
  constructor
  · unfold Serde.ser serTy
    rw [h.ser _ (Nat.le_trans (by omega : valSize x ≤ valSize x + 2) (Nat.le_mul_of_pos_right _ (by omega)))]
    show Except.ok (normJson out) = _
    rw [h.norm]
  · intro hno
    unfold Serde.de deTy deFuel
    exact h.de hno false _ (Nat.le_trans (Nat.le_mul_of_pos_right _ (by omega)) (Nat.le_mul_of_pos_left _ (by omega)))

/-- a whole variables assignment (GraphQL spec §6.1.2 CoerceVariableValues, defaults ignored): an object without
    repeated keys, whose keys are declared variables, carrying every variable of non-null type, each value valid
    for the variable's declared type -/
structure VarsValid (L : Leaves) (c : Ctx) (op : Nat) (kvs : List (String × Json)) : Prop where
  nodup : (keys kvs).Nodup
  declared : ∀ key ∈ keys kvs, key ∈ (varFields c op).map (·.1)
  required : ∀ p ∈ varFields c op, Json.lookup p.1 kvs = none → isNN (gty p.2) = false
  valid : ∀ p ∈ varFields c op, ∀ v, Json.lookup p.1 kvs = some v → Valid L c.s p.2.id false (gty p.2) v

/-- canonical form of an assignment: declared order; absent nullable variables explicit `null` (`skip` off) /
    `null` variables dropped (`skip` on); values in canonical form -/
def canonVars (c : Ctx) (op : Nat) (kvs : List (String × Json)) : Json :=
  .obj (assemble c.o.skipNone (varFields c op) (canonKvs c.s c.o.skipNone (varFields c op) kvs))

/-- **`input_expressible`.**  In the module emitted for an operation, for every declared variable `v` and every
    JSON value `j` that is valid for `v`'s declared type: there is a value `x` of the Rust type of the member
    (`HasTy`) that `serde_json::to_value` writes as the canonical form of `j`; and — when integer IDs are excluded —
    `x` is what `serde_json::from_value` reads `j` as. -/
theorem input_expressible (L : Leaves) (c : Ctx) (op : Nat) (items : List Item)
    (hnorm : c.o.normalization = .none)
    (hkwI : ∀ i ∈ c.s.inputs, keywordReplace i.name = i.name)
    (hkwS : ∀ n ∈ c.s.scalars, keywordReplace n = n)
    (hkwE : ∀ e ∈ c.s.enums, keywordReplace e.name = e.name)
    (hwf : C02.OutputOnly c.s c.q = true) (hrel : C02.InputFieldsRelevant c.s = true)
    (hvars : ∀ v ∈ c.q.opVariables op, C02.Relevant v.ty.id)
    (hdef : (Scope.defines items).Nodup) (hmem : ∀ it ∈ items, (C02.memberIdents it).Nodup)
    (hprim : ∀ it ∈ items, C01.notPrim it.name) (hfree : ExternsFree c items)
    (hint : ∀ n, L.intOk n = true → inI64 n = true)
    (h : responseForQuery c op = .ok items)
    (v : RVariable) (hv : v ∈ c.q.opVariables op) (j : Json)
    (hj : Valid L c.s v.ty.id false (gty v.ty) j) :
    ∃ t x, variableType c v = .ok t ∧ HasTy (moduleEnv c items) t x ∧
      Serde.ser (moduleEnv c items) t x = .ok (canon c.s c.o.skipNone v.ty.id (gty v.ty) j) ∧
      ((∀ n, L.idInt n = false) → Serde.de (moduleEnv c items) t j = .ok x) := by
  obtain ⟨u, hu, env⟩ := inputEnv_of_module c op items hnorm hkwI hwf hrel hdef hmem hprim hfree h
  obtain ⟨_, _, _, _, _, V, _, _, _, _, _, _, _, hV, _, _, _⟩ := C02.responseForQuery_ok_full h
  have hne : c.q.opVariables op ≠ [] := fun hnil => by rw [hnil] at hv; cases hv
  obtain ⟨fs, _, hall⟩ := C04Keys.variables_struct c op V hV hne
  obtain ⟨f, t, ht, _⟩ := all2_left_mem hall v hv
  obtain ⟨hw, rfl⟩ := variableType_inv hnorm (fun tn htn => kw_typeName hkwI hkwS hkwE (hvars v hv) htn) ht
  have hU : v.ty.id ∈ u.types := C02.variable_types_used c.s c.q op u hu v hv (hvars v hv)
  obtain ⟨x, hx⟩ := express_core L c (moduleEnv c items) (· ∈ u.types) env hint hj hU hw
  exact ⟨_, x, ht, hx.ty, (expr_top hx).1, (expr_top hx).2⟩

theorem assemble_canonKvs (s : Schema) (skip : Bool) (fields : List (String × FieldType))
    (hn : (fields.map (·.1)).Nodup) (kvs : List (String × Json)) :
    assemble skip fields (canonKvs s skip fields kvs) =
      fields.filterMap (fun p => if skip && ((Json.lookup p.1 kvs).getD .null).isNull then none
        else some (p.1, canon s skip p.2.id (gty p.2) ((Json.lookup p.1 kvs).getD .null))) := by
  unfold assemble
  apply filterMap_congr'
  intro p hpm
  rw [lookup_canonKvs s skip fields hn p hpm]
  cases Json.lookup p.1 kvs with
  | none => simp [canon_null]
  | some v => simp [canon_isNull]

/-- `Variables` resolves to the item `variablesItems` emitted -/
theorem find_variables (c : Ctx) (op : Nat) (items : List Item) (hdef : (Scope.defines items).Nodup)
    (h : responseForQuery c op = .ok items) (V : List Item) (it : Item) (hV : variablesItems c op = .ok V) (hhead : V.head? = some it)
    (hname : it.name = "Variables") : (moduleEnv c items).find "Variables" = some it := by
  obtain ⟨u, S, E, F, I, V', o, R', hu, hS, hE, hF, hI, hV', ho, hR, hitems⟩ := C02.responseForQuery_ok_full h
  rw [hV] at hV'; cases hV'
  cases V with
  | nil => simp at hhead
  | cons a rest =>
    simp only [List.head?_cons, Option.some.injEq] at hhead
    subst hhead
    have hsplit : items = (builtinAliases ++ S ++ E ++ I) ++ (a :: (rest ++ F.flatten ++ R')) := by
      rw [hitems]; simp [List.append_assoc]
    have hadef : Scope.itemDefines a = some "Variables" := by
      have := C02.variablesItems_names hV
      rw [C02.defines_cons] at this
      cases ha : Scope.itemDefines a with
      | none =>
        exfalso
        cases a <;> simp_all [Scope.itemDefines, Item.name]
      | some n =>
        cases a <;> simp_all [Scope.itemDefines, Item.name]
    show items.find? (·.name == "Variables") = some a
    rw [hsplit, List.find?_append]
    have hpre : (builtinAliases ++ S ++ E ++ I).find? (·.name == "Variables") = none := by
      rw [List.find?_eq_none]
      intro x hx hxn
      have hxn : x.name = "Variables" := by simpa using hxn
      have hxd : Scope.itemDefines x = some x.name := by
        simp only [List.mem_append] at hx
        rcases hx with ((hx | hx) | hx) | hx
        · simp only [builtinAliases, List.mem_cons, List.not_mem_nil, or_false] at hx
          rcases hx with rfl | rfl | rfl | rfl <;> rfl
        · exact C02.scalarItems_itemDefines hS x hx
        · exact C02.enumItems_itemDefines hE x hx
        · exact C02.inputItems_itemDefines hI x hx
      rw [hsplit, C02.defines_append, C02.defines_cons, hadef] at hdef
      have hdis := (List.nodup_append.mp hdef).2.2
      refine hdis "Variables" ?_ "Variables" (by simp) rfl
      unfold Scope.defines
      rw [List.mem_filterMap]
      exact ⟨x, hx, by rw [hxd, hxn]⟩
    rw [hpre]
    simp [hname]

/-- **`variables_expressible`** — the whole assignment at once: every valid assignment of the operation's
    variables is the serialization of a `Variables` value (keys in declaration order; absent nullable variables as
    explicit `null`, or — with `skip_serializing_none` — `null` variables omitted), and is read back as that value. -/
theorem variables_expressible (L : Leaves) (c : Ctx) (op : Nat) (items : List Item)
    (hnorm : c.o.normalization = .none)
    (hkwI : ∀ i ∈ c.s.inputs, keywordReplace i.name = i.name)
    (hkwS : ∀ n ∈ c.s.scalars, keywordReplace n = n)
    (hkwE : ∀ e ∈ c.s.enums, keywordReplace e.name = e.name)
    (hwf : C02.OutputOnly c.s c.q = true) (hrel : C02.InputFieldsRelevant c.s = true)
    (hvars : ∀ v ∈ c.q.opVariables op, C02.Relevant v.ty.id)
    (hdef : (Scope.defines items).Nodup) (hmem : ∀ it ∈ items, (C02.memberIdents it).Nodup)
    (hprim : ∀ it ∈ items, C01.notPrim it.name) (hfree : ExternsFree c items)
    (hint : ∀ n, L.intOk n = true → inI64 n = true)
    (h : responseForQuery c op = .ok items)
    (hne : c.q.opVariables op ≠ []) (kvs : List (String × Json))
    (hvalid : VarsValid L c op kvs) :
    ∃ x, HasTy (moduleEnv c items) (.path "Variables") x ∧
      Serde.ser (moduleEnv c items) (.path "Variables") x = .ok (canonVars c op kvs) ∧
      ((∀ n, L.idInt n = false) → Serde.de (moduleEnv c items) (.path "Variables") (.obj kvs) = .ok x) := by
  obtain ⟨u, hu, env⟩ := inputEnv_of_module c op items hnorm hkwI hwf hrel hdef hmem hprim hfree h
  obtain ⟨_, _, _, _, _, V, _, _, hu', _, _, _, _, hV, _, _, hitems⟩ := C02.responseForQuery_ok_full h
  obtain ⟨hhead, hwfv⟩ := variablesItems_head hnorm
    (fun v hv tn htn => kw_typeName hkwI hkwS hkwE (hvars v hv) htn) hV hne
  have hfind := find_variables c op items hdef h V _ hV hhead rfl
  have hin : variablesSpec c op ∈ items := by
    cases V with
    | nil => simp at hhead
    | cons a rest =>
      simp only [List.head?_cons, Option.some.injEq] at hhead
      rw [hitems, hhead]; simp
  have hrust : ((varFields c op).map fun p => (varMember c p).rust).Nodup := by
    have := hmem _ hin
    simpa [variablesSpec, C02.memberIdents, List.map_map, Function.comp_def] using this
  have hnames : ((varFields c op).map (·.1)).Nodup :=
    nodup_fst_of_comp (fun n => keywordReplace (c.cs.snake n)) (fun p : String × FieldType => p.1) hrust
  have hUv : ∀ p ∈ varFields c op, p.2.id ∈ u.types := by
    intro p hp
    obtain ⟨v, hv, rfl⟩ := List.mem_map.mp hp
    exact C02.variable_types_used c.s c.q op u hu v hv (hvars v hv)
  obtain ⟨x, hx⟩ := express_struct L (moduleEnv c items) c.o.skipNone (varFields c op) (varMember c) "Variables"
    "Variables" _ _ (by decide) hfind
    (fun p _ => ⟨C11.input_wire_is_graphql_name _ _ _ _, rfl, rfl, rfl, rfl⟩) hrust hnames kvs hvalid.nodup
    (fun p => canon c.s c.o.skipNone p.2.id (gty p.2) ((Json.lookup p.1 kvs).getD .null))
    (by
      intro p hpm
      cases hl : Json.lookup p.1 kvs with
      | none =>
        refine ⟨.unit, ?_⟩
        simp only [Option.getD_none, canon_null]
        show Expr L _ (R c p.2.id false (gty p.2)) _ _ _
        rw [R, if_neg (by simp), rustOf_opt _ (hvalid.required p hpm hl)]
        exact expr_null L _ _
      | some v => exact express_core L c _ _ env hint (hvalid.valid p hpm v hl) (hUv p hpm) (hwfv p hpm))
    (by
      intro p hpm hl
      show isOption (R c p.2.id false (gty p.2)) = true
      rw [R, if_neg (by simp), rustOf_opt _ (hvalid.required p hpm hl)]
      rfl)
    (by
      intro p hpm hnn
      cases hl : Json.lookup p.1 kvs with
      | none => rw [hvalid.required p hpm hl] at hnn; cases hnn
      | some v => exact valid_nonnull (hvalid.valid p hpm v hl) (.inr hnn))
  refine ⟨x, hx.ty, ?_, (expr_top hx).2⟩
  rw [(expr_top hx).1, canonVars, assemble_canonKvs c.s c.o.skipNone _ hnames]

/-- an operation without variables: `struct Variables;`, its only value is written as `null` -/
theorem no_variables_expressible (c : Ctx) (op : Nat) (items : List Item) (hdef : (Scope.defines items).Nodup)
    (h : responseForQuery c op = .ok items) (hnil : c.q.opVariables op = []) :
    HasTy (moduleEnv c items) (.path "Variables") .unit ∧
    Serde.ser (moduleEnv c items) (.path "Variables") .unit = .ok .null := by
  obtain ⟨_, _, _, _, _, V, _, _, _, _, _, _, _, hV, _, _, _⟩ := C02.responseForQuery_ok_full h
  have hV' := hV
  rw [C04.unit_variables_null c op hnil] at hV'
  cases hV'
  have hfind := find_variables c op items hdef h _ _ hV rfl rfl
  refine ⟨.unitStruct (by decide) hfind, ?_⟩
  exact C04Keys.variables_unit c op _ (moduleEnv c items) hV hnil hfind

end C04S
end GqlVerif
