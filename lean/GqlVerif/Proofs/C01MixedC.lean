import GqlVerif.Proofs.C01MixedB
/-!
# C01 / C03 end to end (`MixedOp`), part C: top level over `Codegen.responseForQuery`, acceptance

* `depthM_sels` — fuel: the depth of the selection tree *through spreads* is below the number of items of the module;
* `envSelM_of` / `topEnvM_of_module` — the environment hypotheses of part B hold for the module `responseForQuery` emits
  (the items of every spread fragment — on an object type or on an abstract type — are in the module: `FragsIn`,
  `FragsInB`, from `C02.selected_types_used`, `fragment_struct_shape`, `fragment_abs_shape`);
* **`mixed_accepts`**: `conformsOpM c op j → ∃ v, Serde.de (moduleEnv c items) ResponseData j = .ok v`, where `conformsOpM`
  is the specification `conformsV` on the root selection set with every spread replaced by the inline fragment
  `... on T { body }` (`expandSels`, GraphQL §6.4.3) — **the same predicate as `conformsOpF` and `conformsOpS`**
  (`conformsOpM_eq_F`, `conformsOpM_eq_S`: by `rfl`);
* **`mixed_precise_iff` / `mixed_precise`** (C03): `Serde.de … j` succeeds **iff** `conformsLooseM c.s c.q c.o false op.sels j`.

Hypotheses (decidable): `MixedOp c op`, `mixedKeysOk c op` (keys disjoint between a fragment spread at an object position
and its siblings, at every object level; needed: `fragment_overlap_loses_key`), `moduleOk c items`.
-/
set_option linter.unusedSimpArgs false
set_option linter.unusedVariables false
set_option linter.unusedSectionVars false
set_option linter.unnecessarySimpa false

namespace GqlVerif
namespace C01M
open Serde Spec C13 C03 Codegen C01 C01.E2E

/-! ## fuel: depth (through spreads) vs. number of emitted items -/

theorem mem_itemsMs {c : Ctx} {pfx : String} {it : Item} : ∀ {sels : List Sel} {x : Sel}, x ∈ sels →
    it ∈ itemsM c pfx x → it ∈ itemsMs c pfx sels
  | [], _, h, _ => by simp at h
  | y :: ys, x, h, hit => by
    rw [itemsMs, List.mem_append]
    rcases List.mem_cons.mp h with rfl | h'
    · exact .inl hit
    · exact .inr (mem_itemsMs h' hit)

mutual
  theorem depthM_sel (c : Ctx) (K : Nat) : ∀ (x : Sel) (pfx : String) (p : TypeId), mSel c.s c.q c.o p x = true →
      (∀ g ∈ spreadIds x, selsDepth (fragSels c.q g) ≤ K) → depthF c.q x ≤ (itemsM c pfx x).length + K + 1
    | .field a fid sub, pfx, p => by
      intro ht hK
      have IH := depthM_sels c K sub
      obtain ⟨sf, hsf⟩ := mSel_field_some ht
      by_cases hobj : ∃ i, sf.ty.id = .object i
      · obtain ⟨i, hid⟩ := hobj
        obtain ⟨_, _, _, hbody⟩ := mSel_obj hsf hid ht
        rw [spreadIds] at hK
        rw [depthF, itemsM]
        simp only [hsf, hid]
        by_cases hsp : ∃ g, sub = [Sel.spread g]
        · obtain ⟨g, rfl⟩ := hsp
          have := hK g (by simp [spreadIdss, spreadIds])
          simp only [depthsF, depthF, List.length_cons, List.length_nil]
          omega
        · have hnl : ∀ g, sub ≠ [Sel.spread g] := fun g hg => hsp ⟨g, hg⟩
          rw [mBody_not_lone hnl] at hbody
          have := IH (pfx ++ c.cs.camel (a.getD sf.name)) (.object i) hbody hK
          split
          · exact absurd rfl (hnl _)
          · simp only [List.length_cons]; omega
      · have hno : ∀ i, sf.ty.id ≠ .object i := fun i h => hobj ⟨i, h⟩
        have hs := mSel_nonobj hsf hno ht
        rw [itemsM_nonobj c pfx a fid sub sf hsf hno]
        have := depthS_sel c K _ pfx false hs hK
        simp only [allItemsS, inlBonus] at this
        omega
    | .spread g, pfx, p => by
      intro _ hK
      have := hK g (by simp [spreadIds])
      rw [depthF]; omega
    | .inline t sub, _, _ => by intro ht; simp [mSel] at ht
    | .typename, _, _ => by intro _ _; simp [depthF]
  theorem depthM_sels (c : Ctx) (K : Nat) : ∀ (sels : List Sel) (pfx : String) (p : TypeId),
      mSels c.s c.q c.o p sels = true → (∀ g ∈ spreadIdss sels, selsDepth (fragSels c.q g) ≤ K) →
      depthsF c.q sels ≤ (itemsMs c pfx sels).length + K + 1
    | [], _, _ => by intro _ _; simp [depthsF]
    | x :: xs, pfx, p => by
      intro ht hK
      obtain ⟨hx, hxs⟩ := mSels_cons ht
      rw [spreadIdss] at hK
      have h1 := depthM_sel c K x pfx p hx (fun g hg => hK g (by simp [hg]))
      have h2 := depthM_sels c K xs pfx p hxs (fun g hg => hK g (by simp [hg]))
      rw [depthsF, itemsMs, List.length_append]
      omega
end

mutual
  /-- every spread of the tree is `fragOk` on an object type or `fragOkB` on an abstract type -/
  theorem fragOk_of_spreadIdM (s : Schema) (q : Query) (o : Options) : ∀ (x : Sel) (p : Nat),
      mSel s q o (.object p) x = true → ∀ g ∈ spreadIds x, FragOkAny s q o g
    | .field a fid sub, p => by
      intro ht g hg
      have IH := fragOk_of_spreadIdsM s q o sub
      obtain ⟨sf, hsf⟩ := mSel_field_some ht
      by_cases hobj : ∃ i, sf.ty.id = .object i
      · obtain ⟨i, hid⟩ := hobj
        obtain ⟨_, _, _, hbody⟩ := mSel_obj hsf hid ht
        rw [spreadIds] at hg
        by_cases hsp : ∃ g', sub = [Sel.spread g']
        · obtain ⟨g', rfl⟩ := hsp
          simp only [spreadIdss, spreadIds, List.append_nil, List.mem_singleton] at hg
          subst hg
          exact .inl ⟨i, hbody⟩
        · have hnl : ∀ g, sub ≠ [Sel.spread g] := fun g hg => hsp ⟨g, hg⟩
          rw [mBody_not_lone hnl] at hbody
          exact IH i hbody g hg
      · have hno : ∀ i, sf.ty.id ≠ .object i := fun i h => hobj ⟨i, h⟩
        exact fragOk_of_spreadIdS s q o _ false (mSel_nonobj hsf hno ht) g hg (by simp)
    | .spread g', p => by
      intro ht g hg
      simp only [spreadIds, List.mem_singleton] at hg
      subst hg
      exact .inl ⟨p, by simpa [mSel] using ht⟩
    | .inline _ _, _ => by intro ht; simp [mSel] at ht
    | .typename, _ => by intro _ g hg; simp [spreadIds] at hg
  theorem fragOk_of_spreadIdsM (s : Schema) (q : Query) (o : Options) : ∀ (sels : List Sel) (p : Nat),
      mSels s q o (.object p) sels = true → ∀ g ∈ spreadIdss sels, FragOkAny s q o g
    | [], _ => by intro _ g hg; simp [spreadIdss] at hg
    | x :: xs, p => by
      intro ht g hg
      obtain ⟨hx, hxs⟩ := mSels_cons ht
      rw [spreadIdss, List.mem_append] at hg
      rcases hg with hg | hg
      · exact fragOk_of_spreadIdM s q o x p hx g hg
      · exact fragOk_of_spreadIdsM s q o xs p hxs g hg
end

/-! ## the environment of an emitted module -/

section EnvOfM
variable {c : Ctx} {items : List Item} {u : UsedTypes} {root : List Sel} (M : ModFacts c items u root)
  (hfr : FragsIn c items root) (hfrB : FragsInB c items root)
include M hfr hfrB

mutual
  theorem envSelM_of : ∀ (x : Sel) (pfx : String) (p : Nat), mSel c.s c.q c.o (.object p) x = true →
      (∀ it ∈ itemsM c pfx x, it ∈ items) → C02.Reach c.q root x → envSelM (moduleEnv c items) c pfx x
    | .field a fid sub, pfx, p => by
      intro ht hit hr
      have IH := envSelsM_of sub
      obtain ⟨sf, hsf⟩ := mSel_field_some ht
      by_cases hobj : ∃ i, sf.ty.id = .object i
      · obtain ⟨i, hid⟩ := hobj
        obtain ⟨_, _, _, hbody⟩ := mSel_obj hsf hid ht
        rw [itemsM] at hit
        rw [envSelM]
        simp only [hsf, hid] at hit ⊢
        by_cases hsp : ∃ g, sub = [Sel.spread g]
        · obtain ⟨g, rfl⟩ := hsp
          simp only at hit ⊢
          have hok : fragOk c.s c.q c.o (.object i) g = true := hbody
          exact ⟨aliasEnv_of M hfr _ _ (hit _ (by simp)),
            fragEnv_of M hfr g i (reach_step hr (by simp)) hok⟩
        · have hnl : ∀ g, sub ≠ [Sel.spread g] := fun g hg => hsp ⟨g, hg⟩
          rw [mBody_not_lone hnl] at hbody
          have hit' : ∀ it ∈ (Item.struct (pfx ++ c.cs.camel (a.getD sf.name)) c.respDerives c.serdeCrate
              (fieldsOfF c (pfx ++ c.cs.camel (a.getD sf.name)) sub) ::
              itemsMs c (pfx ++ c.cs.camel (a.getD sf.name)) sub), it ∈ items := by
            revert hit
            split
            · exact absurd rfl (hnl _)
            · exact id
          split
          · exact absurd rfl (hnl _)
          · exact ⟨structEnv_of M _ _ (hit' _ (by simp)),
              IH _ i hbody (fun x hx it h => hit' it (by simp [mem_itemsMs hx h]))
                (fun y hy => reach_step hr hy)⟩
      · have hno : ∀ i, sf.ty.id ≠ .object i := fun i h => hobj ⟨i, h⟩
        have hs := mSel_nonobj hsf hno ht
        rw [itemsM_nonobj c pfx a fid sub sf hsf hno] at hit
        have := envSelS_of M hfr hfrB _ pfx false hs (by simpa [allItemsS] using hit) hr (fun g hg => by cases hg)
        rw [envSelM]
        simp only [hsf]
        cases hid : sf.ty.id with
        | object i => exact absurd hid (hno i)
        | scalar k => simpa only [hid] using this
        | «enum» k => simpa only [hid] using this
        | interface k => simpa only [hid] using this
        | union k => simpa only [hid] using this
        | input k => simpa only [hid] using this
    | .spread g, pfx, p => by
      intro ht _ hr
      have hok : fragOk c.s c.q c.o (.object p) g = true := by simpa [mSel] using ht
      rw [envSelM]
      exact fragEnv_of M hfr g p hr hok
    | .inline _ _, _, _ => by intro ht; simp [mSel] at ht
    | .typename, _, _ => by intro _ _ _; simp [envSelM]
  theorem envSelsM_of : ∀ (sels : List Sel) (pfx : String) (p : Nat), mSels c.s c.q c.o (.object p) sels = true →
      (∀ x ∈ sels, ∀ it ∈ itemsM c pfx x, it ∈ items) → (∀ x ∈ sels, C02.Reach c.q root x) →
      envSelsM (moduleEnv c items) c pfx sels
    | [], _, _ => by intro _ _ _; simp [envSelsM]
    | x :: xs, pfx, p => by
      intro ht hit hr
      obtain ⟨hx, hxs⟩ := mSels_cons ht
      rw [envSelsM]
      exact ⟨envSelM_of x pfx p hx (hit x (by simp)) (hr x (by simp)),
        envSelsM_of xs pfx p hxs (fun y hy => hit y (by simp [hy])) (fun y hy => hr y (by simp [hy]))⟩
end

end EnvOfM

/-! ## top level -/

/-- keys disjoint between every fragment spread at an object position and its siblings, at every object level
    (decidable) -/
def mixedKeysOk (c : Ctx) (op : ROperation) : Bool :=
  keysOksM c.s c.q op.sels && EnumSpec.nodup (expKeys c.s c.q op.sels)

structure TopEnvM (e : Env) (c : Ctx) (op : ROperation) : Prop where
  root : BodyEnvM e c "ResponseData" (c.cs.camel op.name) op.sels
  size : depthsF c.q op.sels ≤ e.items.length

/-- **`ResponseData` accepts exactly `conformsLooseM … false`** (generic environment) -/
theorem top_accepts_iffM (e : Env) (c : Ctx) (op : ROperation) (ht : MixedOp c op = true)
    (hk : mixedKeysOk c op = true) (he : TopEnvM e c op) (j : Json) :
    okB (Serde.de e (.path "ResponseData") j) = conformsLooseM c.s c.q c.o false op.sels j := by
  obtain ⟨_, _, hsels⟩ := mixedOp_parts ht
  simp only [mixedKeysOk, Bool.and_eq_true] at hk
  rw [de_top]
  exact bodyM_accepts_iff e c _ _ _ op.sels hsels he.root hk.1 hk.2 false _ (deFuel_depthS e c op he.size j) j

/-- the environment of the emitted module, from the closed form of the response items for a selection set `sels'` of the
    class (the operation's own selection set, or its normalization: part F) -/
theorem topEnvM_of_shape {c : Ctx} {opIdx : Nat} {op : ROperation} {items : List Item} (sels' : List Sel)
    (hop : c.q.operations[opIdx]? = some op) (hn : c.o.normalization = .none)
    (hsels : mBody c.s c.q c.o (.object op.objectId) sels' = true)
    (hshape : responseItems c op = .ok (bodyItemsM c "ResponseData" (c.cs.camel op.name) sels'))
    (hused : ∀ u, allUsedTypes c.s c.q opIdx = .ok u → ∀ x, C02.Reach c.q sels' x → C02.Direct c.s u x)
    (hgen : responseForQuery c opIdx = .ok items) (hok : moduleOk c items = true) :
    BodyEnvM (moduleEnv c items) c "ResponseData" (c.cs.camel op.name) sels' ∧
      depthsF c.q sels' ≤ (moduleEnv c items).items.length := by
  obtain ⟨u, S, E, F, I, V, o, resp, hu, hS, hE, hF, ho, hresp, hitems⟩ := responseForQuery_parts_full hgen
  rw [hop] at ho; cases ho
  rw [hshape] at hresp
  cases hresp
  simp only [moduleOk, Bool.and_eq_true, List.all_eq_true, decide_eq_true_eq, List.isEmpty_iff] at hok
  obtain ⟨⟨⟨⟨hnd, hnp⟩, hext⟩, htab⟩, hnoext⟩ := hok
  have hsub : ∀ it ∈ bodyItemsM c "ResponseData" (c.cs.camel op.name) sels', it ∈ items := by
    intro it h; rw [hitems]; simp [h]
  have M : ModFacts c items u sels' := {
    hn := hn
    nodup := nodup_iff'.mp hnd
    np := hnp
    ext := fun x hx => ⟨(hext x hx).1, fun it hit => by simpa using (hext x hx).2 it hit⟩
    tables := fun n d sp vs ser de hm => by simpa using htab _ hm
    builtin := fun it h => by rw [hitems]; simp [h]
    scalars := fun k n hk hn' hnd' => by
      have := scalarItems_mem hS hk hn' hnd'
      simp only [hn, Normalization.scalarName, Normalization.camelCase] at this
      rw [hitems]; simp [this]
    enums := fun k en hk hen => by
      have := enumItems_mem hE hk hen (by simp [hnoext])
      rw [hitems]; simp [this]
    used := hused u hu }
  -- the items of every spread fragment are in the module
  have hfragmem : ∀ g i, C02.Reach c.q sels' (.spread g) → fragOk c.s c.q c.o (.object i) g = true →
      ∀ f, c.q.fragments[g]? = some f → structItemsV c f.name (c.cs.camel f.name) f.sels ∈ F := by
    intro g i hr hokg f hf
    have hused : g ∈ u.fragments := M.used _ hr
    obtain ⟨its, hits, hfi⟩ := C02.mapM_ok_of_mem hF g ((C02.mem_sortNat _ _).mpr hused)
    obtain ⟨f', hf', hshape⟩ := fragment_struct_shape c hn (.object i) g i rfl hokg
    rw [hf] at hf'; cases hf'
    rw [hshape] at hfi; cases hfi
    exact hits
  have hfragmemB : ∀ g ty, C02.Reach c.q sels' (.spread g) → absHyp c.s ty → fragOkB c.s c.q c.o ty g = true →
      ∀ f, c.q.fragments[g]? = some f → absItemsV c f.name (c.cs.camel f.name) ty f.sels ∈ F := by
    intro g ty hr hty hokg f hf
    have hused : g ∈ u.fragments := M.used _ hr
    obtain ⟨its, hits, hfi⟩ := C02.mapM_ok_of_mem hF g ((C02.mem_sortNat _ _).mpr hused)
    obtain ⟨f', hf', hshape⟩ := fragment_abs_shape c hn ty g hty hokg
    rw [hf] at hf'; cases hf'
    rw [hshape] at hfi; cases hfi
    exact hits
  have hfr : FragsIn c items sels' := by
    intro g i hr hokg f hf it hit
    rw [hitems]
    have : it ∈ F.flatten := List.mem_flatten.mpr ⟨_, hfragmem g i hr hokg f hf, hit⟩
    simp [this]
  have hfrB : FragsInB c items sels' := by
    intro g ty hr hty hokg f hf it hit
    rw [hitems]
    have : it ∈ F.flatten := List.mem_flatten.mpr ⟨_, hfragmemB g ty hr hty hokg f hf, hit⟩
    simp [this]
  have hK : ∀ g, C02.Reach c.q sels' (.spread g) → FragOkAny c.s c.q c.o g →
      selsDepth (fragSels c.q g) ≤ F.flatten.length := by
    intro g hr hokg
    rcases hokg with ⟨i, hokg⟩ | ⟨ty, hty, hokg⟩
    · obtain ⟨f, hf, _, _, hv, _⟩ := fragOk_parts hokg
      have h1 := length_le_flatten (hfragmem g i hr hokg f hf)
      have h2 := (depthV_sels c f.sels (c.cs.camel f.name) false hv).1 rfl
      have : fragSels c.q g = f.sels := by simp [fragSels, hf]
      rw [this]
      simp only [structItemsV, List.length_cons] at h1
      omega
    · obtain ⟨f, hf, _, _, hv, hokf⟩ := fragOkB_parts hokg
      obtain ⟨_, _, _, _, _, hin, _, _⟩ := absOk_parts hokf
      have h1 := length_le_flatten (hfragmemB g ty hr hty hokg f hf)
      have h2 := (depthV_sels c f.sels (c.cs.camel f.name) true hv).2 _ hin
      have h3 := renderType_length_pos c f.name (fieldsOfV c (c.cs.camel f.name) f.sels)
        (variantsV c (c.cs.camel f.name) ty f.sels)
      have : fragSels c.q g = f.sels := by simp [fragSels, hf]
      rw [this]
      simp only [absItemsV, List.length_append] at h1
      omega
  by_cases hsp : ∃ g, sels' = [Sel.spread g]
  · obtain ⟨g, hg⟩ := hsp
    have hokg : fragOk c.s c.q c.o (.object op.objectId) g = true := by rw [hg] at hsels; exact hsels
    have hr : C02.Reach c.q sels' (.spread g) := .here (by rw [hg]; simp)
    refine ⟨?_, ?_⟩
    · unfold BodyEnvM
      rw [hg]
      simp only
      refine ⟨aliasEnv_of M hfr _ _ (hsub _ (by rw [hg]; simp [bodyItemsM])), fragEnv_of M hfr g _ hr hokg⟩
    · have := hK g hr (.inl ⟨_, hokg⟩)
      have h4 : builtinAliases.length = 4 := rfl
      rw [hg]
      simp only [depthsF, depthF, hitems, moduleEnv, List.length_append]
      omega
  · have hnl : ∀ g, sels' ≠ [Sel.spread g] := fun g hg => hsp ⟨g, hg⟩
    have hsels' := hsels
    rw [mBody_not_lone hnl] at hsels'
    have hbody := bodyItemsM_not_lone c "ResponseData" (c.cs.camel op.name) hnl
    rw [hbody] at hsub
    refine ⟨?_, ?_⟩
    · unfold BodyEnvM
      split
      · exact absurd rfl (hnl _)
      · exact ⟨structEnv_of M _ _ (hsub _ (by simp)),
          envSelsM_of M hfr hfrB sels' _ op.objectId hsels' (fun x hx it h => hsub it (by simp [mem_itemsMs hx h]))
            (fun x hx => .here hx)⟩
    · have hd := depthM_sels c F.flatten.length sels' (c.cs.camel op.name) _ hsels' (by
        intro g hg
        have hr := reach_spreadIdss c.q sels' sels' (fun y hy => .here hy) g hg
        exact hK g hr (fragOk_of_spreadIdsM c.s c.q c.o sels' _ hsels' g hg))
      rw [hitems, hbody]
      simp only [moduleEnv, List.length_append, List.length_cons]
      omega

theorem topEnvM_of_module {c : Ctx} {opIdx : Nat} {op : ROperation} {items : List Item}
    (hop : c.q.operations[opIdx]? = some op) (ht : MixedOp c op = true)
    (hgen : responseForQuery c opIdx = .ok items) (hok : moduleOk c items = true) :
    TopEnvM (moduleEnv c items) c op := by
  obtain ⟨hn, _, hsels⟩ := mixedOp_parts ht
  obtain ⟨h1, h2⟩ := topEnvM_of_shape op.sels hop hn hsels (mixed_items_shape c op (List.mem_of_getElem? hop) ht)
    (fun u hu => C02.selected_types_used c.s c.q opIdx u hu op hop) hgen hok
  exact ⟨h1, h2⟩

/-- a response conforms to the operation: the response object of the root selection set, every spread read as the
    inline fragment `... on T { body }` (GraphQL §6.4.3 CollectFields treats both alike), executed on the root object
    type (specification `conformsV` of `C01AbstractA`) -/
def conformsOpM (c : Ctx) (op : ROperation) (j : Json) : Bool :=
  conformsV c.s op.objectId (expandSels c.q op.sels) j

/-- the specification is the one of `FragmentOp` … -/
theorem conformsOpM_eq_F (c : Ctx) (op : ROperation) (j : Json) : conformsOpM c op j = conformsOpF c op j := rfl
/-- … and the one of `VariantSpreadOp` -/
theorem conformsOpM_eq_S (c : Ctx) (op : ROperation) (j : Json) : conformsOpM c op j = conformsOpS c op j := rfl

/-- **`mixed_accepts`.**  Every conforming response is accepted by the emitted `ResponseData`. -/
theorem mixed_accepts (c : Ctx) (opIdx : Nat) (op : ROperation) (items : List Item)
    (hop : c.q.operations[opIdx]? = some op) (ht : MixedOp c op = true) (hk : mixedKeysOk c op = true)
    (hgen : responseForQuery c opIdx = .ok items) (hok : moduleOk c items = true)
    (j : Json) (hc : conformsOpM c op j = true) :
    ∃ v, Serde.de (moduleEnv c items) (.path "ResponseData") j = .ok v := by
  have he := topEnvM_of_module hop ht hgen hok
  have := top_accepts_iffM (moduleEnv c items) c op ht hk he j
  rw [conformsM_loose c.s c.q c.o false _ _ _ (mixedOp_parts ht).2.2 hc] at this
  exact (okB_iff _).mp this

/-- **`mixed_precise` (C03), as an equivalence.** -/
theorem mixed_precise_iff (c : Ctx) (opIdx : Nat) (op : ROperation) (items : List Item)
    (hop : c.q.operations[opIdx]? = some op) (ht : MixedOp c op = true) (hk : mixedKeysOk c op = true)
    (hgen : responseForQuery c opIdx = .ok items) (hok : moduleOk c items = true) (j : Json) :
    okB (Serde.de (moduleEnv c items) (.path "ResponseData") j) = conformsLooseM c.s c.q c.o false op.sels j :=
  top_accepts_iffM (moduleEnv c items) c op ht hk (topEnvM_of_module hop ht hgen hok) j

theorem mixed_precise (c : Ctx) (opIdx : Nat) (op : ROperation) (items : List Item)
    (hop : c.q.operations[opIdx]? = some op) (ht : MixedOp c op = true) (hk : mixedKeysOk c op = true)
    (hgen : responseForQuery c opIdx = .ok items) (hok : moduleOk c items = true) (j : Json) (v : Val)
    (hd : Serde.de (moduleEnv c items) (.path "ResponseData") j = .ok v) :
    conformsLooseM c.s c.q c.o false op.sels j = true := by
  rw [← mixed_precise_iff c opIdx op items hop ht hk hgen hok j, hd]; rfl

/-! ## the side condition on the two classes -/

/-- without spreads the expanded keys are the field keys -/
theorem expKeys_noSpread (s : Schema) (q : Query) : ∀ (sels : List Sel), (∀ g, Sel.spread g ∉ sels) →
    expKeys s q sels = fieldKeys s sels
  | [], _ => rfl
  | x :: xs, h => by
    have ih := expKeys_noSpread s q xs (fun g hm => h g (List.mem_cons_of_mem _ hm))
    cases x with
    | field a fid sub =>
      simp only [expKeys, fieldKeys, List.filterMap_cons, fieldKey] at ih ⊢
      cases hsf : s.fields[fid]? <;> simp [ih]
    | spread g => exact absurd List.mem_cons_self (h g)
    | inline t sub => simpa [expKeys, fieldKeys, List.filterMap_cons, fieldKey] using ih
    | typename => simpa [expKeys, fieldKeys, List.filterMap_cons, fieldKey] using ih

mutual
  theorem keysOkM_of_sSel (s : Schema) (q : Query) (o : Options) : ∀ (x : Sel) (abs : Bool), sSel s q o abs x = true →
      keysOkM s q x = true
    | .field a fid sub, abs => by
      intro h
      have IH := keysOksM_of_sSels s q o sub
      rw [keysOkM]
      cases hsf : s.fields[fid]? with
      | none => rfl
      | some sf =>
        simp only [Option.map_some]
        cases hid : sf.ty.id with
        | object i =>
          rw [sSel] at h
          simp only [hsf, hid, Bool.and_eq_true] at h ⊢
          refine ⟨?_, IH false h.2.1.2⟩
          rw [expKeys_noSpread s q sub (no_spread_of_sSels h.2.1.2)]
          exact nodup_iff'.mpr ((fieldKeys_sublist s sub).nodup (nodup_iff'.mp h.2.2))
        | scalar k => rfl
        | «enum» k => rfl
        | interface k => rfl
        | union k => rfl
        | input k => rfl
    | .spread _, _ => by intro _; rfl
    | .inline _ _, _ => by intro _; rfl
    | .typename, _ => by intro _; rfl
  theorem keysOksM_of_sSels (s : Schema) (q : Query) (o : Options) : ∀ (sels : List Sel) (abs : Bool),
      sSels s q o abs sels = true → keysOksM s q sels = true
    | [], _ => by intro _; rfl
    | x :: xs, abs => by
      intro h
      obtain ⟨hx, hxs⟩ := sSels_cons h
      rw [keysOksM, keysOkM_of_sSel s q o x abs hx, keysOksM_of_sSels s q o xs abs hxs]; rfl
end

/-- on `VariantSpreadOp` the side condition `mixedKeysOk` holds (it is part of that class) -/
theorem mixedKeysOk_of_variantSpreadOp (c : Ctx) (op : ROperation) (h : VariantSpreadOp c op = true) :
    mixedKeysOk c op = true := by
  obtain ⟨_, _, hs, hnd⟩ := variantSpreadOp_parts h
  simp only [mixedKeysOk, Bool.and_eq_true]
  refine ⟨keysOksM_of_sSels c.s c.q c.o op.sels false hs, ?_⟩
  rw [expKeys_noSpread c.s c.q op.sels (no_spread_of_sSels hs)]
  exact nodup_iff'.mpr ((fieldKeys_sublist c.s op.sels).nodup (nodup_iff'.mp hnd))

mutual
  theorem keysOkM_of_F (s : Schema) (q : Query) : ∀ (x : Sel), keysOkF s q x = true → keysOkM s q x = true
    | .field a fid sub => by
      intro h
      have IH := keysOksM_of_F s q sub
      rw [keysOkF, Bool.and_eq_true] at h
      rw [keysOkM]
      cases hsf : s.fields[fid]? with
      | none => rfl
      | some sf =>
        simp only [Option.map_some]
        cases hid : sf.ty.id with
        | object i => simp only [Bool.and_eq_true]; exact ⟨h.1, IH h.2⟩
        | scalar k => rfl
        | «enum» k => rfl
        | interface k => rfl
        | union k => rfl
        | input k => rfl
    | .spread _ => by intro _; rfl
    | .inline _ _ => by intro _; rfl
    | .typename => by intro _; rfl
  theorem keysOksM_of_F (s : Schema) (q : Query) : ∀ (sels : List Sel), keysOksF s q sels = true → keysOksM s q sels = true
    | [] => by intro _; rfl
    | x :: xs => by
      intro h
      rw [keysOksF, Bool.and_eq_true] at h
      rw [keysOksM, keysOkM_of_F s q x h.1, keysOksM_of_F s q xs h.2]; rfl
end

/-- on `FragmentOp` the side condition `mixedKeysOk` follows from `fragKeysOk` (the side condition of `fragment_accepts`) -/
theorem mixedKeysOk_of_fragKeysOk (c : Ctx) (op : ROperation) (h : fragKeysOk c op = true) : mixedKeysOk c op = true := by
  simp only [fragKeysOk, Bool.and_eq_true] at h
  simp only [mixedKeysOk, Bool.and_eq_true]
  exact ⟨keysOksM_of_F c.s c.q op.sels h.1, h.2⟩

end C01M
end GqlVerif
