import GqlVerif.Proofs.C01DenyFragLossless
import GqlVerif.Proofs.C14GeneratedFragWitness
/-!
# P33 — `FragOpD` under `deny`: a concrete module with every hypothesis evaluated; `loneOkOp` is necessary

The module of `C14GeneratedFragWitness`:
`fragment AF on Animal { name when owner { id since } }`, `query Q { animal { ...AF friends { ...AF } } when }`, strategy
`deny`, `when` / `since` deprecated.

* `fd_prune`, `fd_keys`, `fd_rust`, `fd_lone`, `fd_tn`, `fd_moduleOk` (+ P26's `f_class`, `f_keys`, `f_gen`) — every
  hypothesis of `fragD_roundtrip` / `fragD_precise_iff`, by evaluation;
* `fd_roundtrip` — a payload conforming to the operation as written (all denied fields present, at the root, in the object
  read through the flattened fragment struct, in the aliased one inside a list, two levels down) is read and written back
  as `fdCanon`; `fd_precise` and accepted / rejected payloads;
* **`lone_spread_matters`** — `query Q { animal { when ...AF } }`: every hypothesis of `fragD_precise_iff` but
  `loneOkOp` holds, and the statement is false: the generator emits `struct Qanimal { #[serde(flatten)] af: AF }`, which
  rejects a JSON array, while the pruned operation `animal { ...AF }` would get the alias `type Qanimal = AF`, which reads
  it positionally.
-/
set_option linter.unusedSimpArgs false
namespace GqlVerif
namespace C01
namespace Deny
open Serde Spec C13 C03 Codegen C01.E2E C14G C14G.Witness C14G.FragWitness

theorem fd_prune : FragmentOp (pruneCtx fCtx) (pruneOp fCtx fOp) = true := by decide +kernel
theorem fd_keys : fragKeysOk (pruneCtx fCtx) (pruneOp fCtx fOp) = true := by decide +kernel
theorem fd_lone : loneOkOp fCtx fOp = true := by decide +kernel
theorem fd_tn : tnOkOpF fCtx fOp = true := by decide +kernel
theorem fd_moduleOk : moduleOk fCtx fItems = true := by decide +kernel
theorem fd_rust : fragRustOk (pruneCtx fCtx) (pruneOp fCtx fOp) = true := by decide +kernel

def fdFull : Json :=
  .obj [("when", .str "root"),
        ("animal", .obj [("when", .str "2020"), ("name", .str "Rex"),
                         ("owner", .obj [("since", .str "2019"), ("id", .int 7)]),
                         ("friends", .arr [.obj [("name", .str "Tom"), ("when", .str "2020"), ("owner", .null)]])])]

def fdCanon : Json :=
  .obj [("animal", .obj [("name", .str "Rex"), ("owner", .obj [("id", .str "7")]),
                         ("friends", .arr [.obj [("name", .str "Tom"), ("owner", .null)]])])]

theorem fd_conforms : conformsOpF fCtx fOp fdFull = true := by
  simp [conformsOpF, expandSels, expandSel, conformsV, confSelsV, confSelV, keysSelsV, keysSelV, fragApplies,
    fCtx, wSchema, fOp, fQuery, fdFull, Json.lookup, accepts, acceptsNN, gtyOf, scalarOk, idOk, i64Ok, stringOk,
    Json.isNull, EnumSpec.nodup, List.range, List.range.loop, Schema.defaultScalars]


def fdErased : Json :=
  .obj [("animal", .obj [("name", .str "Rex"), ("owner", .obj [("id", .int 7)]),
                         ("friends", .arr [.obj [("name", .str "Tom"), ("owner", .null)]])])]

theorem fd_erase : eraseDeniedF fCtx fOp fdFull = fdErased := by
  simp [eraseDeniedF, eraseObjF, eraseInSelF, eraseEntryF, eraseFragEntry, eraseInSel, eraseEntry, thruQuals, eraseKeys,
    dropKeysF, dropKeys, collectedDenied, collectedKept, spreadFrags, deniedKeys, keptKeys, deniedKey, keptKey, isDenied,
    fCtx, fOp, fQuery, wSchema, fdFull, fdErased, Schema.defaultScalars]

def fdPrunedSels : List Sel := [.field none 0 [.spread 0, .field none 5 [.spread 0]]]
def fdPrunedQ : Query :=
  { fragments := [{ name := "AF", on := .object 1, sels := [.field none 1 [], .field none 3 [.field none 4 []]] }],
    operations := [fOp] }

theorem fd_pruneSels : pruneSels fCtx fOp.sels = fdPrunedSels := by
  simp [pruneSels, pruneSel, fCtx, fOp, wSchema, isDenied, fdPrunedSels]

theorem fd_pruneQ : (pruneCtx fCtx).q = fdPrunedQ := by
  simp [pruneCtx, pruneFrag, pruneSels, pruneSel, fCtx, fQuery, wSchema, isDenied, fdPrunedQ]

theorem fd_canon : canonSelF fCtx.s (pruneCtx fCtx).q fCtx.o.skipNone (pruneSels fCtx fOp.sels)
    (eraseDeniedF fCtx fOp fdFull) = fdCanon := by
  rw [fd_erase, fd_pruneSels, fd_pruneQ]
  simp [canonSelF, canonEntriesF, canonFieldF, canonSelV, canonEntriesV, canonFieldV, canon, canonNN, idCanon, gtyOf,
    fragSels, fCtx, wSchema, fdPrunedSels, fdPrunedQ, fdErased, fdCanon, Json.lookup, skipQ, Json.isNull,
    Schema.defaultScalars]
  decide

theorem fd_roundtrip : Serde.roundtrip fEnv (.path "ResponseData") fdFull = .ok fdCanon := by
  rw [← fd_canon]
  exact fragD_roundtrip fCtx 0 fOp fItems rfl f_class f_keys fd_prune fd_keys fd_rust fd_lone fd_tn f_gen fd_moduleOk
    fdFull fd_conforms

theorem fd_precise (j : Json) :
    okB (Serde.de fEnv (.path "ResponseData") j) = conformsLooseF wSchema fdPrunedQ fCtx.o false fdPrunedSels j := by
  have := fragD_precise_iff fCtx 0 fOp fItems rfl f_class fd_prune fd_keys fd_lone f_gen fd_moduleOk j
  rw [fd_pruneSels, fd_pruneQ] at this
  exact this

/-! necessity of `loneOkOp` -/
/-- `query Q { animal { when ...AF } }`, `when` denied: pruning leaves the lone spread `animal { ...AF }` -/
def lOp : ROperation :=
  { name := "Q", kind := .query, objectId := 0, sels := [.field none 0 [.field none 2 [], .spread 0]] }
def lQuery : Query :=
  { fragments := [{ name := "AF", on := .object 1, sels := [.field none 1 []] }], operations := [lOp] }
def lCtx : Ctx := { s := wSchema, q := lQuery, o := { deprecation := .deny }, cs := ⟨id, id⟩ }
def lItems : List Item := (responseForQuery lCtx 0).toOption.getD []
def lEnv : Env := moduleEnv lCtx lItems
def lJson : Json := .obj [("animal", .arr [.null])]

macro "fd_eval" : tactic => `(tactic|
  simp [conformsLooseF, looseOwnF, looseMemF, looseArrF, looseFieldF, conformsLooseV, looseSelsV, looseArrV,
    looseFieldV, fragSels, isSpread, wSchema, fdPrunedSels, fdPrunedQ, Json.lookup, accepts, acceptsNN, gtyOf, scalarOk,
    idOk, i64Ok, stringOk, Json.isNull, nullableQ, countKey, Schema.defaultScalars])

/-- accepted: P26's payload with the denied keys (one of the wrong type) -/
example : okB (Serde.de fEnv (.path "ResponseData") fWith) = true := by rw [fd_precise]; unfold fWith; fd_eval
/-- rejected: a wrong scalar kind for a kept field read through the flattened fragment struct -/
example : okB (Serde.de fEnv (.path "ResponseData")
    (.obj [("animal", .obj [("name", .int 3), ("when", .str "x")])])) = false := by rw [fd_precise]; fd_eval
/-- rejected: the kept non-null `id` missing two levels down, whatever the denied `since` -/
example : okB (Serde.de fEnv (.path "ResponseData")
    (.obj [("animal", .obj [("owner", .obj [("since", .str "x")])])])) = false := by rw [fd_precise]; fd_eval

theorem lone_spread_matters :
    FragOpD lCtx lOp = true ∧ FragKeysOkD lCtx lOp = true ∧
    FragmentOp (pruneCtx lCtx) (pruneOp lCtx lOp) = true ∧ fragKeysOk (pruneCtx lCtx) (pruneOp lCtx lOp) = true ∧
    responseForQuery lCtx 0 = .ok lItems ∧ moduleOk lCtx lItems = true ∧
    loneOkOp lCtx lOp = false ∧
    okB (Serde.de lEnv (.path "ResponseData") lJson) = false ∧
    conformsLooseF lCtx.s (pruneCtx lCtx).q lCtx.o false (pruneSels lCtx lOp.sels) lJson = true ∧
    lItems.filterMap (fun | .struct n _ _ fs => some (n, fs.map (fun f => (f.wire, f.flatten))) | _ => none) =
      [("AF", [("name", false)]), ("ResponseData", [("animal", false)]), ("Qanimal", [("AF", true)])] := by
  refine ⟨by decide +kernel, by decide +kernel, by decide +kernel, by decide +kernel,
    except_ok_of_isSome (by decide +kernel), by decide +kernel, by decide +kernel, by decide +kernel, ?_,
    by decide +kernel⟩
  have hp : pruneSels lCtx lOp.sels = [.field none 0 [.spread 0]] := by
    simp [pruneSels, pruneSel, lCtx, lOp, wSchema, isDenied]
  have hq : (pruneCtx lCtx).q = lQuery := by
    simp [pruneCtx, pruneFrag, pruneSels, pruneSel, lCtx, lQuery, wSchema, isDenied]
  rw [hp, hq]
  simp [conformsLooseF, looseOwnF, looseMemF, looseArrF, looseFieldF, conformsLooseV, looseSelsV, looseArrV,
    looseFieldV, fragSels, isSpread, lCtx, wSchema, lQuery, lJson, Json.lookup, accepts, acceptsNN, gtyOf, scalarOk,
    stringOk, Json.isNull, nullableQ, countKey, Schema.defaultScalars]

end Deny
end C01
end GqlVerif
