import GqlVerif.Proofs.C01NestedB
/-!
# C01 / C03 end to end (`NestedOp`), part C: what the emitted types accept, exactly (generic environment)

Everything here is parametric in

* `ok parent g` — which fragments may be spread (`OkSpec`: they exist, are on the parent type, …),
* `whole g b j` — what the struct of the fragment `g` accepts (`b`: buffered content),
* `KN name` — the response keys the struct named `name` reads at its own object level (through its flattened members),
* `fenv g` — what is known of the environment about the fragment `g`,

tied together by `FragAcc e c whole KN g`: the fragment's name resolves to a struct item whose own keys are in `KN`, read by
`dePath` (for every large enough fuel) exactly when `whole g` holds, and `whole g` ignores entries whose key is outside `KN`.
Part D instantiates them by recursion on the rank.

* `conformsLooseN whole s q o b sels j` — the exact acceptance predicate of the type emitted for an object-level selection
  set: the own fields (`looseOwnN`), and **every spread fragment accepts the whole object** (`looseMemN`); a lone spread is
  the fragment struct itself;
* `expKeysN`, `keysOkN` — side condition: the keys of a fragment (`KN`) are disjoint from those of its siblings;
* **`bodyN_accepts_iff`** — for every large enough fuel, `dePath` on the emitted name succeeds iff `conformsLooseN`
  (`accSelN` / `accSelsN` by mutual induction; structs by `okB_deStructMapN` of part B; fields of scalar / enum / interface /
  union type by `accSelS` of `C01VariantSpreadB`).  No depth function: the statements are "for all fuel from some `N` on",
  and `SerdeFuel.de_fuel_indep` turns that into a statement about `Serde.de` (part D).
-/
set_option linter.unusedSimpArgs false
set_option linter.unusedVariables false
set_option linter.unusedSectionVars false
set_option linter.unnecessarySimpa false

namespace GqlVerif
namespace C01N
open Serde Spec C13 C03 Codegen C01 C01.E2E C01M

/-! ## the exact acceptance predicate -/

/-- every spread fragment accepts the whole object -/
def looseMemN (whole : Nat → Bool → Json → Bool) : List Sel → List (String × Json) → Bool
  | [], _ => true
  | .spread g :: xs, kvs => whole g true (.obj kvs) && looseMemN whole xs kvs
  | _ :: xs, kvs => looseMemN whole xs kvs

mutual
  def looseFieldN (whole : Nat → Bool → Json → Bool) (s : Schema) (q : Query) (o : Options) (b : Bool) : Sel → Json → Bool
    | .field a fid sub, v =>
      match s.fields[fid]? with
      | none => false
      | some sf =>
        match sf.ty.id with
        | .object i => (match s.objects[i]? with
          | some _ => accepts (fun j =>
              match sub with
              | [.spread g] => whole g b j      -- type alias of the fragment struct
              | _ => match j with
                | .obj kvs' => looseOwnN whole s q o b sub kvs' && looseMemN whole sub kvs'
                | .arr xs => !sub.any isSpread && looseArrN whole s q o b sub xs
                | _ => false) (gtyOf sf.ty.quals) v
          | none => false)
        | _ => looseFieldS s q o b (.field a fid sub) v
    | _, _ => true
  /-- the own fields of the struct (spreads contribute no own field) -/
  def looseOwnN (whole : Nat → Bool → Json → Bool) (s : Schema) (q : Query) (o : Options) (b : Bool) :
      List Sel → List (String × Json) → Bool
    | [], _ => true
    | .field a fid sub :: xs, kvs =>
      (match s.fields[fid]? with
       | none => false
       | some sf =>
         decide (countKey (a.getD sf.name) kvs ≤ 1) &&
         (match Json.lookup (a.getD sf.name) kvs with
          | none => nullableQ sf.ty.quals
          | some v => looseFieldN whole s q o b (.field a fid sub) v)) && looseOwnN whole s q o b xs kvs
    | _ :: xs, kvs => looseOwnN whole s q o b xs kvs
  def looseArrN (whole : Nat → Bool → Json → Bool) (s : Schema) (q : Query) (o : Options) (b : Bool) :
      List Sel → List Json → Bool
    | [], _ => true
    | .field a fid sub :: xs, vs =>
      (match vs with
       | [] => false
       | v :: vs' => looseFieldN whole s q o b (.field a fid sub) v && looseArrN whole s q o b xs vs')
    | _ :: xs, vs => looseArrN whole s q o b xs vs
end

/-- what the type emitted for an object-level selection set of `NestedOp` accepts -/
def conformsLooseN (whole : Nat → Bool → Json → Bool) (s : Schema) (q : Query) (o : Options) (b : Bool) (sels : List Sel)
    (j : Json) : Bool :=
  match sels with
  | [.spread g] => whole g b j
  | _ => match j with
    | .obj kvs' => looseOwnN whole s q o b sels kvs' && looseMemN whole sels kvs'
    | .arr xs => !sels.any isSpread && looseArrN whole s q o b sels xs
    | _ => false

theorem looseLambdaN (whole : Nat → Bool → Json → Bool) (s : Schema) (q : Query) (o : Options) (b : Bool) (sub : List Sel) :
    (fun j =>
      match sub with
      | [.spread g] => whole g b j
      | _ => match j with
        | .obj kvs' => looseOwnN whole s q o b sub kvs' && looseMemN whole sub kvs'
        | .arr xs => !sub.any isSpread && looseArrN whole s q o b sub xs
        | _ => false) = conformsLooseN whole s q o b sub := by
  funext j; unfold conformsLooseN; rfl

theorem conformsLooseN_not_lone {whole : Nat → Bool → Json → Bool} {s : Schema} {q : Query} {o : Options} {b : Bool}
    {sels : List Sel} (h : ∀ g, sels ≠ [Sel.spread g]) (j : Json) :
    conformsLooseN whole s q o b sels j =
      (match j with
       | .obj kvs' => looseOwnN whole s q o b sels kvs' && looseMemN whole sels kvs'
       | .arr xs => !sels.any isSpread && looseArrN whole s q o b sels xs
       | _ => false) := by
  unfold conformsLooseN
  split
  · rename_i g; exact absurd rfl (h g)
  · rfl

theorem looseMemN_nospread (whole : Nat → Bool → Json → Bool) (kvs : List (String × Json)) :
    ∀ (sels : List Sel), sels.any isSpread = false → looseMemN whole sels kvs = true
  | [], _ => rfl
  | x :: xs, h => by
    simp only [List.any_cons, Bool.or_eq_false_iff] at h
    have ih := looseMemN_nospread whole kvs xs h.2
    cases x with
    | spread g => have := h.1; simp [isSpread] at this
    | field a fid sub => simpa [looseMemN] using ih
    | inline t sub => simpa [looseMemN] using ih
    | typename => simpa [looseMemN] using ih

/-! ## environment, keys -/

mutual
  def envSelN (fenv : Nat → Prop) (e : Env) (c : Ctx) (pfx : String) : Sel → Prop
    | .field a fid sub =>
      match c.s.fields[fid]? with
      | none => True
      | some sf =>
        match sf.ty.id with
        | .object _ =>
          (match sub with
           | [.spread g] => AliasEnv e (pfx ++ c.cs.camel (a.getD sf.name)) (fragName c g) ∧ fenv g
           | _ => StructEnv e (pfx ++ c.cs.camel (a.getD sf.name)) (fieldsOfF c (pfx ++ c.cs.camel (a.getD sf.name)) sub) ∧
                  envSelsN fenv e c (pfx ++ c.cs.camel (a.getD sf.name)) sub)
        | _ => envSelS e c pfx (.field a fid sub)
    | .spread g => fenv g
    | _ => True
  def envSelsN (fenv : Nat → Prop) (e : Env) (c : Ctx) (pfx : String) : List Sel → Prop
    | [] => True
    | x :: xs => envSelN fenv e c pfx x ∧ envSelsN fenv e c pfx xs
end

/-- what the name of an object-level selection set resolves to -/
def BodyEnvN (fenv : Nat → Prop) (e : Env) (c : Ctx) (name pfx : String) (sels : List Sel) : Prop :=
  match sels with
  | [.spread g] => AliasEnv e name (fragName c g) ∧ fenv g
  | _ => StructEnv e name (fieldsOfF c pfx sels) ∧ envSelsN fenv e c pfx sels

/-- the response keys read at the object level of a selection set: its own keys and, for a spread, the keys of the
    fragment struct (`KN`, by name) -/
def expKeysN (KN : String → List String) (c : Ctx) : List Sel → List String
  | [] => []
  | .field a fid _ :: xs => (match c.s.fields[fid]? with | some sf => [a.getD sf.name] | none => []) ++ expKeysN KN c xs
  | .spread g :: xs => KN (fragName c g) ++ expKeysN KN c xs
  | _ :: xs => expKeysN KN c xs

mutual
  /-- **keys disjoint between a fragment and its siblings** (and between fragments), in every object-level selection set -/
  def keysOkN (KN : String → List String) (c : Ctx) : Sel → Bool
    | .field _ fid sub =>
      (match (c.s.fields[fid]?).map (fun sf => sf.ty.id) with
       | some (TypeId.object _) => EnumSpec.nodup (expKeysN KN c sub) && keysOksN KN c sub
       | _ => true)
    | _ => true
  def keysOksN (KN : String → List String) (c : Ctx) : List Sel → Bool
    | [] => true
    | x :: xs => keysOkN KN c x && keysOksN KN c xs
end

/-- the keys of the struct a member points to -/
def kOf (KN : String → List String) (g : RField) : List String :=
  match g.ty with
  | .path q => KN q
  | _ => []

/-- **what the theorems need of a spread fragment**: its name resolves to a struct item, own keys inside `KN`; `dePath`
    accepts exactly `whole g` from some fuel on; entries with keys outside `KN` do not matter -/
structure FragAcc (e : Env) (c : Ctx) (whole : Nat → Bool → Json → Bool) (KN : String → List String) (g : Nat) : Prop where
  str : ∃ n d cr G, notPrim (fragName c g) ∧ e.find (fragName c g) = some (.struct n d cr G) ∧
    ∀ f ∈ G, f.flatten = false → f.wire ∈ KN (fragName c g)
  acc : ∃ N, ∀ fd, N ≤ fd → ∀ b j, okB (dePath e b fd (fragName c g) j) = whole g b j
  irr : ∀ L : List String, (∀ k ∈ L, k ∉ KN (fragName c g)) → ∀ b kvs,
    whole g b (.obj (kvs.filter (fun kv => !L.contains kv.1))) = whole g b (.obj kvs)

/-! ## facts about the emitted fields -/

section Fields
variable {ok : TypeId → Nat → Bool} {c : Ctx} (hok : OkSpec c.q ok)

theorem fieldOfSelV_n (pfx : String) (p : TypeId) (a : Option String) (fid : Nat) (sub : List Sel)
    (ht : nSel ok c.s c.q c.o p (.field a fid sub) = true) :
    ∃ sf ft, c.s.fields[fid]? = some sf ∧ leafNameV c pfx (a.getD sf.name) sf.ty.id = some ft ∧
      fieldOfSelV c pfx (.field a fid sub) = some (fieldOf c (a.getD sf.name) ft sf.ty.quals sf.deprecation) ∧
      wfQuals sf.ty.quals = true := by
  obtain ⟨sf, hsf⟩ := nSel_field_some ht
  by_cases hobj : ∃ i, sf.ty.id = .object i
  · obtain ⟨i, hid⟩ := hobj
    obtain ⟨hw, _, _, _⟩ := nSel_obj hsf hid ht
    exact ⟨sf, pfx ++ c.cs.camel (a.getD sf.name), hsf, by simp [leafNameV, hid], by simp [fieldOfSelV, hsf, leafNameV, hid], hw⟩
  · have hno : ∀ i, sf.ty.id ≠ .object i := fun i h => hobj ⟨i, h⟩
    exact fieldOfSelV_s c pfx false a fid sub (nSel_nonobj hsf hno ht)

include hok in
theorem own_fieldsOfN (pfx : String) (p : TypeId) : ∀ (sels : List Sel), nSels ok c.s c.q c.o p sels = true →
    (fieldsOfF c pfx sels).filter (fun f => !f.flatten) = fieldsOfV c pfx sels
  | [], _ => rfl
  | x :: xs, ht => by
    obtain ⟨hx, hxs⟩ := nSels_cons ht
    have ih := own_fieldsOfN pfx p xs hxs
    rw [fieldsOfF_cons, List.filter_append, ih]
    cases x with
    | field a fid sub =>
      obtain ⟨sf, ft, _, _, hf, _⟩ := fieldOfSelV_n pfx p a fid sub hx
      rw [fieldOfSelF_field, hf, fieldsOfV_cons_field c pfx _ xs _ hf]
      simp [fieldOf]
    | spread g =>
      have hokg : ok p g = true := by simpa [nSel] using hx
      obtain ⟨fr, hfr, _⟩ := hok _ _ hokg
      rw [fieldsOfV_cons_none c pfx _ xs rfl]
      simp [fieldOfSelF, hfr, spreadField]
    | inline t sub => simp [nSel] at hx
    | typename => rw [fieldsOfV_cons_none c pfx _ xs rfl]; simp [fieldOfSelF, fieldOfSelV]

include hok in
theorem any_flatten_fieldsOfN (pfx : String) (p : TypeId) : ∀ (sels : List Sel), nSels ok c.s c.q c.o p sels = true →
    (fieldsOfF c pfx sels).any (·.flatten) = sels.any isSpread
  | [], _ => rfl
  | x :: xs, ht => by
    obtain ⟨hx, hxs⟩ := nSels_cons ht
    have ih := any_flatten_fieldsOfN pfx p xs hxs
    rw [fieldsOfF_cons, List.any_append, ih, List.any_cons]
    cases x with
    | field a fid sub =>
      obtain ⟨sf, ft, _, _, hf, _⟩ := fieldOfSelV_n pfx p a fid sub hx
      rw [fieldOfSelF_field, hf]; simp [fieldOf, isSpread]
    | spread g =>
      have hokg : ok p g = true := by simpa [nSel] using hx
      obtain ⟨fr, hfr, _⟩ := hok _ _ hokg
      simp [fieldOfSelF, hfr, spreadField, isSpread]
    | inline t sub => simp [nSel] at hx
    | typename => simp [fieldOfSelF, fieldOfSelV, isSpread]

include hok in
/-- from "the keys of the selection set (through spreads) are pairwise distinct" to the hypotheses of `okB_deStructMapN` -/
theorem flat_hypsN (KN : String → List String) (pfx : String) (p : TypeId) : ∀ (sels : List Sel),
    nSels ok c.s c.q c.o p sels = true → (expKeysN KN c sels).Nodup →
    (∀ g ∈ fieldsOfF c pfx sels, g.flatten = true → ∀ k ∈ kOf KN g, k ∈ expKeysN KN c sels) ∧
    (∀ f ∈ fieldsOfF c pfx sels, f.flatten = false → f.wire ∈ expKeysN KN c sels) ∧
    (∀ g ∈ fieldsOfF c pfx sels, g.flatten = true → ∀ k ∈ kOf KN g,
      k ∉ ((fieldsOfF c pfx sels).filter (fun f => !f.flatten)).map (·.wire)) ∧
    (fieldsOfF c pfx sels).Pairwise (fun g g' => g.flatten = true → g'.flatten = true →
      ∀ k ∈ kOf KN g', k ∉ kOf KN g)
  | [], _, _ => by simp [fieldsOfF]
  | x :: xs, ht, hnd => by
    obtain ⟨hx, hxs⟩ := nSels_cons ht
    cases x with
    | field a fid sub =>
      obtain ⟨sf, ft, hsf, _, hf, _⟩ := fieldOfSelV_n pfx p a fid sub hx
      have hexp : expKeysN KN c (.field a fid sub :: xs) = a.getD sf.name :: expKeysN KN c xs := by
        simp [expKeysN, hsf]
      rw [hexp, List.nodup_cons] at hnd
      obtain ⟨ih1, ih2, ih3, ih4⟩ := flat_hypsN KN pfx p xs hxs hnd.2
      have hfs : fieldsOfF c pfx (.field a fid sub :: xs) =
          fieldOf c (a.getD sf.name) ft sf.ty.quals sf.deprecation :: fieldsOfF c pfx xs := by
        rw [fieldsOfF_cons, fieldOfSelF_field, hf]; rfl
      have hnf : (fieldOf c (a.getD sf.name) ft sf.ty.quals sf.deprecation).flatten = false := rfl
      rw [hfs, hexp]
      refine ⟨?_, ?_, ?_, ?_⟩
      · intro g hg hfl
        rcases List.mem_cons.mp hg with rfl | hg'
        · rw [hnf] at hfl; cases hfl
        · exact fun k hk => List.mem_cons_of_mem _ (ih1 g hg' hfl k hk)
      · intro f hf' hfl
        rcases List.mem_cons.mp hf' with rfl | hf''
        · rw [fieldOf_wire]; simp
        · exact List.mem_cons_of_mem _ (ih2 f hf'' hfl)
      · intro g hg hfl k hk
        rcases List.mem_cons.mp hg with rfl | hg'
        · rw [hnf] at hfl; cases hfl
        · simp only [List.filter_cons, hnf, Bool.not_false, ↓reduceIte, List.map_cons, List.mem_cons, not_or, fieldOf_wire]
          refine ⟨?_, ih3 g hg' hfl k hk⟩
          intro heq
          exact hnd.1 (heq ▸ ih1 g hg' hfl k hk)
      · rw [List.pairwise_cons]
        exact ⟨fun g' _ hfl => (by rw [hnf] at hfl; cases hfl), ih4⟩
    | spread g =>
      have hokg : ok p g = true := by simpa [nSel] using hx
      obtain ⟨fr, hfr, _⟩ := hok _ _ hokg
      have hname : fragName c g = fr.name := by simp [fragName, hfr]
      have hexp : expKeysN KN c (.spread g :: xs) = KN fr.name ++ expKeysN KN c xs := by
        simp [expKeysN, hname]
      rw [hexp, List.nodup_append] at hnd
      obtain ⟨hnd1, hnd2, hdisj⟩ := hnd
      obtain ⟨ih1, ih2, ih3, ih4⟩ := flat_hypsN KN pfx p xs hxs hnd2
      have hfs : fieldsOfF c pfx (.spread g :: xs) = spreadField c fr :: fieldsOfF c pfx xs := by
        rw [fieldsOfF_cons]; simp [fieldOfSelF, hfr]
      have hfl' : (spreadField c fr).flatten = true := rfl
      have hmk : kOf KN (spreadField c fr) = KN fr.name := rfl
      rw [hfs, hexp]
      refine ⟨?_, ?_, ?_, ?_⟩
      · intro g' hg hfl
        rcases List.mem_cons.mp hg with rfl | hg'
        · exact fun k hk => List.mem_append_left _ (hmk ▸ hk)
        · exact fun k hk => List.mem_append_right _ (ih1 g' hg' hfl k hk)
      · intro f hf' hfl
        rcases List.mem_cons.mp hf' with rfl | hf''
        · rw [hfl'] at hfl; cases hfl
        · exact List.mem_append_right _ (ih2 f hf'' hfl)
      · intro g' hg hfl k hk
        simp only [List.filter_cons, hfl', Bool.not_true, Bool.false_eq_true, ↓reduceIte]
        rcases List.mem_cons.mp hg with rfl | hg'
        · rw [hmk] at hk
          intro hmem
          obtain ⟨f, hf', hfw⟩ := List.mem_map.mp hmem
          have hf'' := List.mem_filter.mp hf'
          have := ih2 f hf''.1 (by simpa using hf''.2)
          exact hdisj k hk k (hfw ▸ this) rfl
        · exact ih3 g' hg' hfl k hk
      · rw [List.pairwise_cons]
        refine ⟨?_, ih4⟩
        intro g' hg' _ hfl k hk
        rw [hmk]
        intro hmem
        exact hdisj k hmem k (ih1 g' hg' hfl k hk) rfl
    | inline t sub => simp [nSel] at hx
    | typename =>
      have hexp : expKeysN KN c (.typename :: xs) = expKeysN KN c xs := by simp [expKeysN]
      have hfs : fieldsOfF c pfx (.typename :: xs) = fieldsOfF c pfx xs := by
        rw [fieldsOfF_cons]; simp [fieldOfSelF, fieldOfSelV]
      rw [hexp] at hnd ⊢
      rw [hfs]
      exact flat_hypsN KN pfx p xs hxs hnd

end Fields

theorem envSelsN_mem {fenv : Nat → Prop} {e : Env} {c : Ctx} {pfx : String} : ∀ {sels : List Sel},
    envSelsN fenv e c pfx sels → ∀ x ∈ sels, envSelN fenv e c pfx x
  | [], _, _, hx => by simp at hx
  | y :: ys, h, x, hx => by
    rw [envSelsN] at h
    rcases List.mem_cons.mp hx with rfl | hx'
    · exact h.1
    · exact envSelsN_mem h.2 x hx'

theorem envSelN_spread {fenv : Nat → Prop} {e : Env} {c : Ctx} {pfx : String} {g : Nat} :
    envSelN fenv e c pfx (.spread g) = fenv g := by
  rw [envSelN]

theorem bodyEnvN_not_lone {fenv : Nat → Prop} {e : Env} {c : Ctx} {name pfx : String} {sels : List Sel}
    (hnl : ∀ g, sels ≠ [Sel.spread g]) (h : BodyEnvN fenv e c name pfx sels) :
    StructEnv e name (fieldsOfF c pfx sels) ∧ envSelsN fenv e c pfx sels := by
  unfold BodyEnvN at h
  revert h
  split
  · exact fun _ => absurd rfl (hnl _)
  · exact id

theorem keysOkN_obj {KN : String → List String} {c : Ctx} {a : Option String} {fid : Nat} {sub : List Sel}
    {sf : StoredField} {i : Nat}
    (hsf : c.s.fields[fid]? = some sf) (hid : sf.ty.id = .object i) (h : keysOkN KN c (.field a fid sub) = true) :
    EnumSpec.nodup (expKeysN KN c sub) = true ∧ keysOksN KN c sub = true := by
  rw [keysOkN] at h
  simp only [hsf, hid, Option.map_some, Bool.and_eq_true] at h
  exact h

theorem envSelN_obj {fenv : Nat → Prop} {e : Env} {c : Ctx} {pfx : String} {a : Option String} {fid : Nat}
    {sub : List Sel} {sf : StoredField}
    {i : Nat} (hsf : c.s.fields[fid]? = some sf) (hid : sf.ty.id = .object i) (h : envSelN fenv e c pfx (.field a fid sub)) :
    BodyEnvN fenv e c (pfx ++ c.cs.camel (a.getD sf.name)) (pfx ++ c.cs.camel (a.getD sf.name)) sub := by
  rw [envSelN] at h
  simp only [hsf, hid] at h
  exact h

theorem envSelN_nonobj {fenv : Nat → Prop} {e : Env} {c : Ctx} {pfx : String} {a : Option String} {fid : Nat}
    {sub : List Sel}
    {sf : StoredField} (hsf : c.s.fields[fid]? = some sf) (hno : ∀ i, sf.ty.id ≠ .object i)
    (h : envSelN fenv e c pfx (.field a fid sub)) : envSelS e c pfx (.field a fid sub) := by
  rw [envSelN] at h
  simp only [hsf] at h
  cases hid : sf.ty.id with
  | object i => exact absurd hid (hno i)
  | scalar k => simpa only [hid] using h
  | «enum» k => simpa only [hid] using h
  | interface k => simpa only [hid] using h
  | union k => simpa only [hid] using h
  | input k => simpa only [hid] using h

theorem looseFieldN_nonobj {whole : Nat → Bool → Json → Bool} {s : Schema} {q : Query} {o : Options} {b : Bool}
    {a : Option String} {fid : Nat}
    {sub : List Sel} {sf : StoredField} (hsf : s.fields[fid]? = some sf) (hno : ∀ i, sf.ty.id ≠ .object i) (v : Json) :
    looseFieldN whole s q o b (.field a fid sub) v = looseFieldS s q o b (.field a fid sub) v := by
  rw [looseFieldN]
  simp only [hsf]

/-! ## acceptance, exactly -/

section AccN
variable (e : Env) (c : Ctx) (ok : TypeId → Nat → Bool) (whole : Nat → Bool → Json → Bool) (KN : String → List String)
  (fenv : Nat → Prop) (hok : OkSpec c.q ok) (hfa : ∀ p g, ok p g = true → fenv g → FragAcc e c whole KN g)

include hok hfa in
/-- the flattened members: struct items, keys, irrelevance of other keys, and what they accept -/
theorem accMemN (pfx : String) (p : TypeId) : ∀ (sels : List Sel), nSels ok c.s c.q c.o p sels = true →
    envSelsN fenv e c pfx sels → ∃ N, ∀ fuel, N ≤ fuel →
    (∀ g ∈ fieldsOfF c pfx sels, g.flatten = true → MemberOkN e g ∧
      (∀ f ∈ memberFields e g, f.flatten = false → f.wire ∈ kOf KN g) ∧
      (∀ L' : List String, (∀ k ∈ L', k ∉ kOf KN g) → ∀ kvs,
        okB (memberVal e fuel g (kvs.filter (fun kv => !L'.contains kv.1))) = okB (memberVal e fuel g kvs))) ∧
    (∀ kvs, ((fieldsOfF c pfx sels).filter (·.flatten)).all (fun g => okB (memberVal e fuel g kvs)) =
      looseMemN whole sels kvs)
  | [], _, _ => ⟨0, fun _ _ => ⟨by simp [fieldsOfF], fun _ => rfl⟩⟩
  | x :: xs, ht, henv => by
    obtain ⟨hx, hxs⟩ := nSels_cons ht
    rw [envSelsN] at henv
    obtain ⟨N, ih⟩ := accMemN pfx p xs hxs henv.2
    cases x with
    | field a fid sub =>
      obtain ⟨sf, ft, _, _, hf, _⟩ := fieldOfSelV_n pfx p a fid sub hx
      refine ⟨N, fun fuel hfuel => ?_⟩
      obtain ⟨i1, i2⟩ := ih fuel hfuel
      have hfs : fieldsOfF c pfx (.field a fid sub :: xs) =
          fieldOf c (a.getD sf.name) ft sf.ty.quals sf.deprecation :: fieldsOfF c pfx xs := by
        rw [fieldsOfF_cons, fieldOfSelF_field, hf]; rfl
      have hnf : (fieldOf c (a.getD sf.name) ft sf.ty.quals sf.deprecation).flatten = false := rfl
      rw [hfs]
      refine ⟨?_, fun kvs => ?_⟩
      · intro g hg hfl
        rcases List.mem_cons.mp hg with rfl | hg'
        · rw [hnf] at hfl; cases hfl
        · exact i1 g hg' hfl
      · simp only [List.filter_cons, hnf, Bool.false_eq_true, ↓reduceIte, i2 kvs, looseMemN]
    | spread g =>
      have hokg : ok p g = true := by simpa [nSel] using hx
      obtain ⟨fr, hfr, _⟩ := hok _ _ hokg
      have hname : fragName c g = fr.name := by simp [fragName, hfr]
      have hfg : fenv g := by have := henv.1; rwa [envSelN] at this
      have fa := hfa p g hokg hfg
      obtain ⟨n, d, cr, G, hnp, hfind, hG⟩ := fa.str
      obtain ⟨Ng, hacc⟩ := fa.acc
      rw [hname] at hnp hfind hG hacc
      have hirr := fa.irr
      rw [hname] at hirr
      have hfs : fieldsOfF c pfx (.spread g :: xs) = spreadField c fr :: fieldsOfF c pfx xs := by
        rw [fieldsOfF_cons]; simp [fieldOfSelF, hfr]
      have hfl' : (spreadField c fr).flatten = true := rfl
      have hmf : memberFields e (spreadField c fr) = G := by
        simp [memberFields, spreadField, hfind]
      have hmv : ∀ fuel kvs, memberVal e fuel (spreadField c fr) kvs = dePath e true (fuel + 1) fr.name (.obj kvs) :=
        fun fuel kvs => memberVal_eq_dePath e fuel _ fr.name n d cr rfl hnp (by rw [hmf]; exact hfind) kvs
      refine ⟨max N Ng, fun fuel hfuel => ?_⟩
      obtain ⟨i1, i2⟩ := ih fuel (by omega)
      rw [hfs]
      refine ⟨?_, fun kvs => ?_⟩
      · intro g' hg hfl
        rcases List.mem_cons.mp hg with rfl | hg'
        · refine ⟨⟨fr.name, n, d, cr, rfl, hnp, by rw [hmf]; exact hfind⟩, ?_, ?_⟩
          · rw [hmf]; exact hG
          · intro L' hL' kvs
            rw [hmv, hmv, hacc (fuel + 1) (by omega), hacc (fuel + 1) (by omega)]
            exact hirr L' hL' true kvs
        · exact i1 g' hg' hfl
      · simp only [List.filter_cons, hfl', ↓reduceIte, List.all_cons, i2 kvs, looseMemN, hmv,
          hacc (fuel + 1) (by omega)]
    | inline t sub => simp [nSel] at hx
    | typename =>
      refine ⟨N, fun fuel hfuel => ?_⟩
      have hfs : fieldsOfF c pfx (.typename :: xs) = fieldsOfF c pfx xs := by
        rw [fieldsOfF_cons]; simp [fieldOfSelF, fieldOfSelV]
      rw [hfs]
      exact ⟨(ih fuel hfuel).1, fun kvs => by rw [(ih fuel hfuel).2 kvs]; rfl⟩

def AccSelN (pfx : String) (x : Sel) : Prop :=
  ∀ p, nSel ok c.s c.q c.o p x = true → envSelN fenv e c pfx x → keysOkN KN c x = true →
    ∀ f, fieldOfSelV c pfx x = some f →
    ∃ N, ∀ b fd, N ≤ fd → ∀ v, okB (deFieldWith (dePath e b fd) f v) = looseFieldN whole c.s c.q c.o b x v

def AccSelsN (pfx : String) (sels : List Sel) : Prop :=
  ∀ p, nSels ok c.s c.q c.o p sels = true → envSelsN fenv e c pfx sels → keysOksN KN c sels = true →
    ∃ N, ∀ b fd, N ≤ fd →
    (∀ kvs, (fieldsOfV c pfx sels).all (fun f => decide (countKey f.wire kvs ≤ 1) &&
        okB (readField (dePath e b fd) f kvs)) = looseOwnN whole c.s c.q c.o b sels kvs) ∧
    (∀ xs, (decide ((fieldsOfV c pfx sels).length ≤ xs.length) &&
        ((fieldsOfV c pfx sels).zip xs).all (fun p => okB (deFieldWith (dePath e b fd) p.1 p.2))) =
          looseArrN whole c.s c.q c.o b sels xs)

include hok hfa in
/-- the struct of an object-level selection set (not a lone spread) accepts exactly `conformsLooseN` -/
theorem accStructN (pfx name : String) (p : TypeId) (sels : List Sel) (H : AccSelsN e c ok whole KN fenv pfx sels)
    (hnl : ∀ g, sels ≠ [Sel.spread g])
    (ht : nSels ok c.s c.q c.o p sels = true) (henv : envSelsN fenv e c pfx sels) (hko : keysOksN KN c sels = true)
    (hkeys : EnumSpec.nodup (expKeysN KN c sels) = true)
    (hs : StructEnv e name (fieldsOfF c pfx sels)) :
    ∃ N, ∀ b fd, N ≤ fd → ∀ j, okB (dePath e b fd name j) = conformsLooseN whole c.s c.q c.o b sels j := by
  obtain ⟨hp, _, n, d, cr, hfind⟩ := hs
  obtain ⟨N0, H0⟩ := H p ht henv hko
  obtain ⟨N1, H1⟩ := accMemN e c ok whole KN fenv hok hfa pfx p sels ht henv
  refine ⟨max N0 N1 + 2, fun b fd hfd j => ?_⟩
  obtain ⟨fd', rfl⟩ : ∃ k, fd = k + 2 := ⟨fd - 2, by omega⟩
  rw [conformsLooseN_not_lone hnl]
  have hown := own_fieldsOfN hok pfx p sels ht
  have hany := any_flatten_fieldsOfN hok pfx p sels ht
  have hpl := plain_fieldsOfV c pfx sels
  obtain ⟨A1, A2⟩ := H0 b (fd' + 1) (by omega)
  rw [dePath_struct e b (fd' + 1) name n d cr _ hp hfind]
  cases hsp : sels.any isSpread
  · -- no spread: a plain struct
    have hplain : fieldsOfF c pfx sels = fieldsOfV c pfx sels := by
      rw [← hown]
      symm
      rw [List.filter_eq_self]
      intro f hf
      rw [hsp] at hany
      have := List.any_eq_false.mp hany f hf
      simpa using this
    rw [hplain]
    cases j with
    | obj kvs =>
      rw [deStruct_obj, deStructMap_plain _ _ _ _ hpl, okB_map, okB_deOwn' _ _ _ hpl, A1]
      simp [looseMemN_nospread whole kvs sels hsp]
    | arr xs =>
      simp only [deStructWith, any_flatten_of_plain hpl, Bool.false_eq_true, ↓reduceIte, Bool.not_false, Bool.true_and]
      rw [← A2 xs]
      by_cases hlen : xs.length < (fieldsOfV c pfx sels).length
      · have : ¬ ((fieldsOfV c pfx sels).length ≤ xs.length) := by omega
        simp [hlen, this, okB, bad]
      · have : (fieldsOfV c pfx sels).length ≤ xs.length := by omega
        simp only [hlen, ↓reduceIte, okB_map, okB_mapM, this, decide_true, Bool.true_and]
        congr 1; funext p
        cases deFieldWith (dePath e b (fd' + 1)) p.1 p.2 <;> rfl
    | null => rfl
    | bool _ => rfl
    | int _ => rfl
    | num _ => rfl
    | str _ => rfl
  · -- flattened members
    rw [hsp] at hany
    obtain ⟨M1, M2⟩ := H1 fd' (by omega)
    obtain ⟨_, _, h3, h4⟩ := flat_hypsN hok KN pfx p sels ht (nodup_iff'.mp hkeys)
    cases j with
    | obj kvs =>
      rw [deStruct_obj, okB_deStructMapN e fd' _ _ kvs (kOf KN) hany (fun g hg hf => (M1 g hg hf).1)
        (fun g hg hf => (M1 g hg hf).2.1) (fun g hg hf k hk hkK => h3 g hg hf k hkK hk)
        (fun g hg hf _ L' hL' => (M1 g hg hf).2.2 L' hL' kvs) h4, hown, okB_deOwn' _ _ _ hpl, A1 kvs, M2 kvs]
    | arr xs => simp only [deStructWith, hany, ↓reduceIte]; rfl
    | null => rfl
    | bool _ => rfl
    | int _ => rfl
    | num _ => rfl
    | str _ => rfl

include hfa in
/-- a lone spread: the alias of the fragment struct accepts what the fragment struct accepts -/
theorem accAliasN (name : String) (p : TypeId) (g : Nat) (hokg : ok p g = true)
    (ha : AliasEnv e name (fragName c g)) (hf : fenv g) :
    ∃ N, ∀ b fd, N ≤ fd → ∀ j, okB (dePath e b fd name j) = whole g b j := by
  obtain ⟨Ng, hacc⟩ := (hfa p g hokg hf).acc
  obtain ⟨hp, _, n, pub, hfind⟩ := ha
  refine ⟨Ng + 1, fun b fd hfd j => ?_⟩
  obtain ⟨fd', rfl⟩ : ∃ k, fd = k + 1 := ⟨fd - 1, by omega⟩
  have : dePath e b (fd' + 1) name j = dePath e b fd' (fragName c g) j := by
    rw [dePath]; simp only [dePrim_none hp, hfind, deTyWith]
  rw [this]
  exact hacc fd' (by omega) b j

mutual
  theorem accSelN : ∀ (x : Sel) (pfx : String), OkSpec c.q ok →
      (∀ p g, ok p g = true → fenv g → FragAcc e c whole KN g) → AccSelN e c ok whole KN fenv pfx x
    | .field a fid sub, pfx => by
      intro hok hfa p ht henv hko f hf
      have IH := accSelsN sub
      obtain ⟨sf, ft, hsf, _, hf', hw⟩ := fieldOfSelV_n pfx p a fid sub ht
      by_cases hobj : ∃ i, sf.ty.id = .object i
      · obtain ⟨i, hid⟩ := hobj
        have hwf : wf (gtyOf sf.ty.quals) = true := by rw [wf_gtyOf]; exact hw
        obtain ⟨_, _, hobjs, hbody⟩ := nSel_obj hsf hid ht
        have henv := envSelN_obj hsf hid henv
        have hko := keysOkN_obj hsf hid hko
        simp only [fieldOfSelV, hsf, leafNameV, hid, Option.some.injEq] at hf
        subst hf
        have hleaf : ∃ N, ∀ b fd, N ≤ fd → ∀ j, okB (dePath e b fd (pfx ++ c.cs.camel (a.getD sf.name)) j) =
            conformsLooseN whole c.s c.q c.o b sub j := by
          by_cases hsp : ∃ g, sub = [Sel.spread g]
          · obtain ⟨g, rfl⟩ := hsp
            unfold BodyEnvN at henv
            simp only at henv
            exact accAliasN e c ok whole KN fenv hfa _ (.object i) g hbody henv.1 henv.2
          · have hnl : ∀ g, sub ≠ [Sel.spread g] := fun g hg => hsp ⟨g, hg⟩
            have henv' := bodyEnvN_not_lone hnl henv
            rw [nBody_not_lone hnl] at hbody
            exact accStructN e c ok whole KN fenv hok hfa _ _ (.object i) sub (IH _ hok hfa) hnl hbody henv'.2 hko.2
              hko.1 henv'.1
        have hID : pfx ++ c.cs.camel (a.getD sf.name) ≠ "ID" := by
          unfold BodyEnvN at henv
          split at henv
          · exact henv.1.2.1
          · exact henv.1.2.1
        obtain ⟨N, hN⟩ := hleaf
        refine ⟨N, fun b fd hfd v => ?_⟩
        rw [looseFieldN]
        simp only [hsf, hid]
        cases hk : c.s.objects[i]? with
        | none => simp [hk] at hobjs
        | some ob =>
          simp only []
          rw [looseLambdaN, deField_plain _ _ _ _ hID]
          exact (ok_iff_accepts _ _ (conformsLooseN whole c.s c.q c.o b sub) (hN b fd hfd) _ hwf).2 v
      · -- scalar / enum / abstract: as in `VariantSpreadOp`
        have hno : ∀ i, sf.ty.id ≠ .object i := fun i h => hobj ⟨i, h⟩
        refine ⟨2 * depthF c.q (.field a fid sub) + 1, fun b fd hfd v => ?_⟩
        rw [looseFieldN_nonobj hsf hno]
        exact accSelS e c _ pfx false (nSel_nonobj hsf hno ht) (envSelN_nonobj hsf hno henv) f hf b fd hfd v
    | .spread g, pfx => by intro _ _ _ _ _ _ f hf; cases hf
    | .inline t sub, pfx => by intro _ _ _ _ _ _ f hf; cases hf
    | .typename, pfx => by intro _ _ _ _ _ _ f hf; cases hf
  theorem accSelsN : ∀ (sels : List Sel) (pfx : String), OkSpec c.q ok →
      (∀ p g, ok p g = true → fenv g → FragAcc e c whole KN g) → AccSelsN e c ok whole KN fenv pfx sels
    | [], pfx => by
      intro _ _ _ _ _ _
      exact ⟨0, fun b fd _ => ⟨fun kvs => by simp [fieldsOfV, looseOwnN], fun xs => by simp [fieldsOfV, looseArrN]⟩⟩
    | x :: xs, pfx => by
      intro hok hfa p ht henv hko
      obtain ⟨hx, hxs⟩ := nSels_cons ht
      rw [envSelsN] at henv
      rw [keysOksN, Bool.and_eq_true] at hko
      obtain ⟨N2, I⟩ := accSelsN xs pfx hok hfa p hxs henv.2 hko.2
      have IX := accSelN x pfx hok hfa p hx henv.1 hko.1
      cases x with
      | field a fid sub =>
        obtain ⟨sf, ft, hsf, _, hf, hw⟩ := fieldOfSelV_n pfx p a fid sub hx
        obtain ⟨N1, IXf⟩ := IX _ hf
        have hfs := fieldsOfV_cons_field c pfx _ xs _ hf
        refine ⟨max N1 N2, fun b fd hfd => ?_⟩
        obtain ⟨I1, I2⟩ := I b fd (by omega)
        have IXf := IXf b fd (by omega)
        refine ⟨fun kvs => ?_, fun vs => ?_⟩
        · rw [hfs, List.all_cons, I1 kvs, looseOwnN.eq_2]
          simp only [hsf, fieldOf_wire, readField]
          cases hl : Json.lookup (a.getD sf.name) kvs with
          | none => simp only [missing_fieldOf]
          | some v => simp only [IXf v]
        · rw [hfs]
          cases vs with
          | nil => rw [looseArrN.eq_2]; simp
          | cons v vs' =>
            rw [looseArrN.eq_3]
            simp only [List.length_cons, List.zip_cons_cons, List.all_cons, IXf v, ← I2 vs',
              Nat.add_le_add_iff_right]
            cases looseFieldN whole c.s c.q c.o b (.field a fid sub) v <;> simp
      | spread g =>
        have hfs := fieldsOfV_cons_none c pfx (.spread g) xs rfl
        refine ⟨N2, fun b fd hfd => ?_⟩
        obtain ⟨I1, I2⟩ := I b fd hfd
        refine ⟨fun kvs => ?_, fun vs => ?_⟩
        · rw [hfs, I1 kvs]; simp [looseOwnN]
        · rw [hfs, I2 vs]; simp [looseArrN]
      | inline t sub => simp [nSel] at hx
      | typename =>
        have hfs := fieldsOfV_cons_none c pfx .typename xs rfl
        refine ⟨N2, fun b fd hfd => ?_⟩
        obtain ⟨I1, I2⟩ := I b fd hfd
        refine ⟨fun kvs => ?_, fun vs => ?_⟩
        · rw [hfs, I1 kvs]; simp [looseOwnN]
        · rw [hfs, I2 vs]; simp [looseArrN]
end

include hok hfa in
/-- **the type emitted for an object-level selection set accepts exactly `conformsLooseN`** (from some fuel on) -/
theorem bodyN_accepts_iff (pfx name : String) (p : TypeId) (sels : List Sel)
    (ht : nBody ok c.s c.q c.o p sels = true) (henv : BodyEnvN fenv e c name pfx sels)
    (hko : keysOksN KN c sels = true) (hkeys : EnumSpec.nodup (expKeysN KN c sels) = true) :
    ∃ N, ∀ b fd, N ≤ fd → ∀ j, okB (dePath e b fd name j) = conformsLooseN whole c.s c.q c.o b sels j := by
  by_cases hsp : ∃ g, sels = [Sel.spread g]
  · obtain ⟨g, rfl⟩ := hsp
    unfold BodyEnvN at henv
    simp only at henv
    exact accAliasN e c ok whole KN fenv hfa _ p g ht henv.1 henv.2
  · have hnl : ∀ g, sels ≠ [Sel.spread g] := fun g hg => hsp ⟨g, hg⟩
    have henv' := bodyEnvN_not_lone hnl henv
    rw [nBody_not_lone hnl] at ht
    exact accStructN e c ok whole KN fenv hok hfa pfx name p sels (accSelsN e c ok whole KN fenv sels pfx hok hfa) hnl ht
      henv'.2 hko hkeys henv'.1

end AccN

end C01N
end GqlVerif
