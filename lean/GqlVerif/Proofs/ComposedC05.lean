import GqlVerif.Proofs.C05Body
/-!
# Composed C05 — operation selection on `Codegen.generate` (reviewer findings 10, 24)

* `selectOperation_none_iff` — "no operation matches under the normalization";
* **`cli_unmatched_name_generates_all_eq`** / **`cli_unmatched_name_generates_all`** — what the model (and
  `generate_module_token_stream_inner`) does in CLI / library mode when `operationName = some n` and no operation's
  normalized name equals `n`: it is **not** an error; exactly as without a selection, one module per operation of the
  document is generated, in document order (the code's `.or_else(|| all operations)` fallback; contrast
  `C05.derive_no_fallback`).  Note that `n` is compared *as given* with the *normalized* operation names;
  `cli_unmatched_witness` (kernel-evaluated): `--selected-operation Nope` on the two-operation document of
  `C05Body.clash_witness` yields both modules;
* **`derive_uses_struct_ident`** — derive mode under the hypothesis the real derive always establishes
  (`operationName = structIdent = some ident`): success means exactly one module, generated for the first operation whose
  normalized name is the struct's identifier, with `impl GraphQLQuery for <ident>`, no struct declaration, the
  operation's own name as `OPERATION_NAME` and the document text as `QUERY`;
* **`derive_struct_no_fallback`** — same hypothesis, no operation normalizes to the identifier: the error that names
  the struct and lists the defined operations (never another operation's module).
-/
namespace GqlVerif
namespace Composed
open Codegen

theorem selectOperation_none_iff (c : Ctx) (name : String) :
    selectOperation c name = none ↔ ∀ op ∈ c.q.operations, c.o.normalization.operation c.cs op.name ≠ name := by
  unfold selectOperation
  rw [List.findIdx?_eq_none_iff]
  simp

/-- everything `generatedModule` fixes besides the items -/
theorem generatedModule_fields (c : Ctx) (text operation : String) (m : Module)
    (h : generatedModule c text operation = .ok m) :
    m.operationName = operation ∧ m.query = text ∧ m.implFor = c.o.normalization.operation c.cs operation ∧
    m.structDecl = (if c.o.mode == .cli then some (c.o.normalization.operation c.cs operation) else none) ∧
    m.modName = c.cs.snake operation ∧
    ∃ root, selectOperation c (c.o.normalization.operation c.cs operation) = some root ∧
      responseForQuery c root = .ok m.items := by
  unfold generatedModule at h
  simp only [bind, Except.bind] at h
  cases hs : selectOperation c (c.o.normalization.operation c.cs operation) with
  | none => simp [hs, fail'] at h
  | some root =>
    simp only [hs, pure, Except.pure] at h
    cases hr : responseForQuery c root with
    | error e => simp [hr] at h
    | ok items =>
      simp only [hr, Except.ok.injEq] at h
      subst h
      exact ⟨rfl, rfl, rfl, rfl, rfl, root, rfl, hr⟩

/-- **CLI / library mode, explicit name that matches nothing — the exact behaviour**: the same computation as without
    a selection (all operations, document order); no error is raised for the unmatched name -/
theorem cli_unmatched_name_generates_all_eq (s : Schema) (cs : CaseFns) (o : Options) (text : String) (d : QDoc)
    (q : Query) (n : String) (hmode : o.mode = .cli) (hq : Resolve.resolve s d = .ok q)
    (hname : o.operationName = some n) (hsel : selectOperation { s, q, o, cs } n = none) :
    generate s cs o text d =
      (List.range q.operations.length).mapM (fun i => do
        let op ← q.getOperation i
        generatedModule { s, q, o, cs } text op.name) := by
  unfold generate
  simp only [hq, bind, Except.bind, hname, Option.bind, hsel, hmode, pure, Except.pure]

/-- … hence one module per operation, the `i`-th for the `i`-th operation of the document -/
theorem cli_unmatched_name_generates_all (s : Schema) (cs : CaseFns) (o : Options) (text : String) (d : QDoc)
    (q : Query) (n : String) (ms : List Module) (hmode : o.mode = .cli) (hq : Resolve.resolve s d = .ok q)
    (hname : o.operationName = some n)
    (hnomatch : ∀ op ∈ q.operations, o.normalization.operation cs op.name ≠ n)
    (h : generate s cs o text d = .ok ms) :
    ms.length = q.operations.length ∧
    ∀ (i : Nat) (m : Module), ms[i]? = some m →
      ∃ op : ROperation, q.operations[i]? = some op ∧ m.operationName = op.name ∧ m.query = text ∧
        m.implFor = o.normalization.operation cs op.name := by
  have hsel : selectOperation { s, q, o, cs } n = none := (selectOperation_none_iff _ n).mpr hnomatch
  rw [cli_unmatched_name_generates_all_eq s cs o text d q n hmode hq hname hsel] at h
  obtain ⟨hlen, hall⟩ := C05.mapM_spec _ _ ms h
  refine ⟨by simpa using hlen, ?_⟩
  intro i m hi
  obtain ⟨j, hj, hfj⟩ := hall i m hi
  have hij : j = i := by
    obtain ⟨_, heq⟩ := List.getElem?_eq_some_iff.mp hj
    simpa using heq.symm
  subst hij
  cases hop : Query.getOperation q j with
  | error e => simp [hop, bind, Except.bind] at hfj
  | ok op =>
    simp only [hop, bind, Except.bind] at hfj
    obtain ⟨h1, h2, h3, _⟩ := generatedModule_fields _ _ _ _ hfj
    exact ⟨op, C05Body.getOperation_ok hop, h1, h2, h3⟩

/-- the same inputs in derive mode are an error (`C05.derive_no_fallback`): the fallback is specific to CLI / library mode -/
theorem derive_unmatched_is_error (s : Schema) (cs : CaseFns) (o : Options) (text : String) (d : QDoc)
    (q : Query) (n : String) (hmode : o.mode = .derive) (hq : Resolve.resolve s d = .ok q)
    (hname : o.operationName = some n) (hsel : selectOperation { s, q, o, cs } n = none) :
    ∃ msg, generate s cs o text d = .error (.error msg) :=
  ⟨_, C05.derive_no_fallback s cs o text d q hmode hq (by simp [hname, hsel])⟩

/-- kernel-evaluated instance: the document `query getA { a } query GetA { b }`, no normalization, CLI mode,
    `--selected-operation Nope`: both operations are generated, in order; with `getA` only the first -/
theorem cli_unmatched_witness :
    (match Sdl.fromSdl C05Body.clashSdl with
     | .ok s =>
       decide ((match generate s C05Body.clashCs { operationName := some "Nope" } "TEXT" C05Body.clashDoc with
        | .ok ms => ms.map (·.operationName)
        | .error _ => []) = ["getA", "GetA"]) &&
       decide ((match generate s C05Body.clashCs { operationName := some "getA" } "TEXT" C05Body.clashDoc with
        | .ok ms => ms.map (·.operationName)
        | .error _ => []) = ["getA"]) &&
       (match generate s C05Body.clashCs { mode := .derive, operationName := some "Nope", structIdent := some "Nope" } "TEXT"
            C05Body.clashDoc with
        | .ok _ => false
        | .error _ => true)
     | .error _ => false) = true := by decide +kernel

/-! ## derive mode: the statement is about the struct's identifier -/

/-- **derive, success**: under `operationName = structIdent = some ident` (what `#[derive(GraphQLQuery)]` passes),
    a successful generation is exactly one module: for the first operation whose normalized name is the struct's
    identifier; the trait is implemented for that identifier and no struct is declared -/
theorem derive_uses_struct_ident (s : Schema) (cs : CaseFns) (o : Options) (text : String) (d : QDoc) (q : Query)
    (ms : List Module) (ident : String) (hmode : o.mode = .derive) (hq : Resolve.resolve s d = .ok q)
    (hident : o.structIdent = some ident) (hsame : o.operationName = o.structIdent)
    (h : generate s cs o text d = .ok ms) :
    ∃ (i : Nat) (op : ROperation) (m : Module), ms = [m] ∧ q.operations[i]? = some op ∧
      o.normalization.operation cs op.name = ident ∧
      (∀ j, j < i → ∀ opj, q.operations[j]? = some opj → o.normalization.operation cs opj.name ≠ ident) ∧
      m.operationName = op.name ∧ m.query = text ∧ m.implFor = ident ∧ m.structDecl = none := by
  obtain ⟨name, i, op, m, hname, hi, hget, rfl, _, _⟩ := C05.derive_selects_named s cs o text d q ms hmode hq h
  have hn : name = ident := by
    rw [hsame, hident] at hname
    exact (Option.some.inj hname).symm
  subst hn
  obtain ⟨op', hget', hnorm, hfirst⟩ := C05.selectOperation_spec { s, q, o, cs } name i hi
  have : op' = op := by
    have h1 : q.operations[i]? = some op' := hget'
    rw [hget] at h1
    exact (Option.some.inj h1).symm
  subst this
  -- the module
  unfold generate at h
  simp only [hq, bind, Except.bind, hname, Option.bind, hi, pure, Except.pure] at h
  rw [List.mapM_cons, List.mapM_nil] at h
  simp only [bind, Except.bind, pure, Except.pure] at h
  cases hop : Query.getOperation q i with
  | error e => simp [hop] at h
  | ok op'' =>
    have : op'' = op' := by
      have h1 := C05Body.getOperation_ok hop
      rw [hget] at h1
      exact (Option.some.inj h1).symm
    subst this
    simp only [hop] at h
    cases hm : generatedModule { s, q, o, cs } text op''.name with
    | error e => simp [hm] at h
    | ok m' =>
      simp only [hm, Except.ok.injEq, List.cons.injEq, and_true] at h
      subst h
      obtain ⟨h1, h2, h3, h4, _⟩ := generatedModule_fields _ _ _ _ hm
      refine ⟨i, op'', m', rfl, hget, hnorm, hfirst, h1, h2, ?_, ?_⟩
      · rw [h3]; exact hnorm
      · rw [h4]; simp [hmode]

/-- **derive, no match**: under the same hypothesis, when no operation's normalized name is the struct's identifier
    generation fails with the error that names the struct and lists the defined operations — no module of another
    operation is ever produced -/
theorem derive_struct_no_fallback (s : Schema) (cs : CaseFns) (o : Options) (text : String) (d : QDoc) (q : Query)
    (ident : String) (hmode : o.mode = .derive) (hq : Resolve.resolve s d = .ok q)
    (hident : o.structIdent = some ident) (hsame : o.operationName = o.structIdent)
    (hnomatch : ∀ op ∈ q.operations, o.normalization.operation cs op.name ≠ ident) :
    generate s cs o text d = .error (.error
      ("The struct name does not match any defined operation in the query file.\nStruct name: " ++
        ident ++ "\nDefined operations: " ++ ", ".intercalate (q.operations.map (·.name)))) := by
  have hsel : selectOperation { s, q, o, cs } ident = none := (selectOperation_none_iff _ ident).mpr hnomatch
  have := C05.derive_no_fallback s cs o text d q hmode hq (by rw [hsame, hident]; simp [hsel])
  rw [this, hident]
  rfl

/-- derive: generation succeeds **iff**… only-if half as a contrapositive of the above — if an operation normalizes to
    the identifier, the selected one is the first such (no error from selection; later stages may still fail) -/
theorem derive_struct_selects_first (s : Schema) (cs : CaseFns) (o : Options) (q : Query) (ident : String) (op : ROperation)
    (hident : o.structIdent = some ident) (hsame : o.operationName = o.structIdent)
    (hop : op ∈ q.operations) (hnorm : o.normalization.operation cs op.name = ident) :
    ∃ i, o.operationName.bind (selectOperation { s, q, o, cs }) = some i := by
  rw [hsame, hident]
  simp only [Option.bind]
  cases hsel : selectOperation { s, q, o, cs } ident with
  | some i => exact ⟨i, rfl⟩
  | none => exact absurd hnorm ((selectOperation_none_iff _ ident).mp hsel op hop)

end Composed
end GqlVerif
