import GqlVerif.Proofs.C14GeneratedAcyclic
/-!
# P33 (1/4) — C01 / C03 end to end under `deny`, object-tree operations (`TreeOpD`): acceptance, exact acceptance

`C01.E2E.TreeOp` excludes a selection of a deprecated field while the strategy is `deny`.  `C14G.TreeOpD` (P26) allows
it: the field has **no member** in the generated struct, the server still sends its key.

* `pruneSel(s) c` / `pruneOp c op` — the operation with the denied selections removed at every depth of the *kept* tree
  (this is what the generated types are the types of);
* `fieldsOf_prune` — the members the generator emits for `sels` under `deny` (`fieldsOfD`, closed form of P26) are
  the members of the `TreeOp` closed form of the pruned selection; `itemsOfSels_prune_sublist` — the structs of the pruned
  tree are among the emitted ones (the emitted module has MORE items: the struct of the sub-selection of a denied
  object-typed field is dead code, `C14G.Witness.dead_struct_emitted` — so the module under `deny` is NOT the module
  under `allow` for the pruned operation; the transfer goes through the generic `TopEnv` theorems instead);
* `topEnvD_of_module` — `TopEnv (moduleEnv c items) c (pruneOp c op)` for the module emitted for `op` itself;
* **`treeD_precise_iff`** (C03): `okB (Serde.de … ResponseData j) = conformsSelLoose c.s (pruneSels c op.sels) j`,
  and the `eraseDenied` form `treeD_precise_iff_erased`;
* **`treeD_accepts`** (C01, acceptance): a payload conforming to the selection AS WRITTEN (`conformsOp c op j`, the
  denied keys present) is accepted;  `conformsSel_loose_prune` — strict on the full selection ⟹ loose on the pruned one.

Hypotheses: `TreeOpD c op` (P26), `TreeOp c (pruneOp c op)` (the pruned operation is in the old class: this adds to
`TreeOpD` only that the response keys of the kept selections *and `__typename`* are pairwise distinct — inherited from
`TreeOp`), `responseForQuery c i = .ok items`, `moduleOk c items`.
-/
set_option linter.unusedSimpArgs false
set_option linter.unusedSectionVars false
set_option linter.unusedVariables false

namespace GqlVerif
namespace C01
namespace Deny
open Serde Spec C13 C03 Codegen C01.E2E C14G

/-! ## the pruned selection -/

mutual
  /-- a selection with the denied field selections removed (at every depth below kept fields) -/
  def pruneSel (c : Ctx) : Sel → List Sel
    | .field a fid sub =>
      match c.s.fields[fid]? with
      | some sf => if isDenied c sf then [] else [.field a fid (pruneSels c sub)]
      | none => [.field a fid (pruneSels c sub)]
    | .inline t sub => [.inline t (pruneSels c sub)]
    | .spread g => [.spread g]
    | .typename => [.typename]
  def pruneSels (c : Ctx) : List Sel → List Sel
    | [] => []
    | x :: xs => pruneSel c x ++ pruneSels c xs
end

/-- **the operation the generated types are the types of**: the denied selections removed -/
def pruneOp (c : Ctx) (op : ROperation) : ROperation := { op with sels := pruneSels c op.sels }

theorem pruneSel_kept {c : Ctx} {a : Option String} {fid : Nat} {sub : List Sel} {sf : StoredField}
    (hsf : c.s.fields[fid]? = some sf) (hd : isDenied c sf = false) :
    pruneSel c (.field a fid sub) = [.field a fid (pruneSels c sub)] := by
  rw [pruneSel]; simp [hsf, hd]

theorem pruneSel_denied {c : Ctx} {a : Option String} {fid : Nat} {sub : List Sel} {sf : StoredField}
    (hsf : c.s.fields[fid]? = some sf) (hd : isDenied c sf = true) :
    pruneSel c (.field a fid sub) = [] := by
  rw [pruneSel]; simp [hsf, hd]

theorem pruneSel_typename (c : Ctx) : pruneSel c .typename = [.typename] := by rw [pruneSel]

/-- nothing is denied ⟹ nothing is pruned -/
theorem isDenied_false_of {c : Ctx} (h : c.o.deprecation ≠ .deny) (sf : StoredField) : isDenied c sf = false := by
  simp [isDenied, h]

/-! ## members: `fieldsOf` of the pruned selection = `fieldsOfD` of the selection -/

theorem fieldsOf_pruneSel (c : Ctx) (pfx : String) (x : Sel) :
    fieldsOf c pfx (pruneSel c x) = (fieldOfSelD c pfx x).toList := by
  cases x with
  | field a fid sub =>
    cases hsf : c.s.fields[fid]? with
    | none => rw [pruneSel]; simp [hsf, fieldsOf, fieldOfSel, fieldOfSelD]
    | some sf =>
      by_cases hd : isDenied c sf = true
      · rw [pruneSel_denied hsf hd]; simp [fieldsOf, fieldOfSelD, hsf, hd]
      · have hd' : isDenied c sf = false := by simpa using hd
        rw [pruneSel_kept hsf hd']
        simp only [fieldsOf, List.filterMap_cons, List.filterMap_nil, fieldOfSel, fieldOfSelD, hsf, hd',
          Bool.false_eq_true, ↓reduceIte]
        cases leafName c pfx (a.getD sf.name) sf.ty.id <;> rfl
  | inline t sub => rw [pruneSel]; simp [fieldsOf, fieldOfSel, fieldOfSelD]
  | spread g => rw [pruneSel]; simp [fieldsOf, fieldOfSel, fieldOfSelD]
  | typename => rw [pruneSel]; simp [fieldsOf, fieldOfSel, fieldOfSelD]

theorem fieldsOf_append (c : Ctx) (pfx : String) (xs ys : List Sel) :
    fieldsOf c pfx (xs ++ ys) = fieldsOf c pfx xs ++ fieldsOf c pfx ys := by
  simp [fieldsOf]

/-- **the members emitted under `deny` are the members of the pruned selection** -/
theorem fieldsOf_prune (c : Ctx) (pfx : String) : ∀ sels : List Sel,
    fieldsOf c pfx (pruneSels c sels) = fieldsOfD c pfx sels
  | [] => by rw [pruneSels]; rfl
  | x :: xs => by
    rw [pruneSels, fieldsOf_append, fieldsOf_pruneSel, fieldsOf_prune c pfx xs]
    simp only [fieldsOfD, List.filterMap_cons]
    cases fieldOfSelD c pfx x <;> rfl

/-! ## items: the structs of the pruned tree are among the emitted structs -/

theorem itemsOfSels_append (c : Ctx) (pfx : String) : ∀ xs ys : List Sel,
    itemsOfSels c pfx (xs ++ ys) = itemsOfSels c pfx xs ++ itemsOfSels c pfx ys
  | [], ys => by simp [itemsOfSels]
  | x :: xs, ys => by
    rw [List.cons_append, itemsOfSels, itemsOfSels, itemsOfSels_append c pfx xs ys, List.append_assoc]

mutual
  theorem itemsOfSel_prune_sublist (c : Ctx) : ∀ (x : Sel) (pfx : String),
      (itemsOfSels c pfx (pruneSel c x)).Sublist (itemsOfSelD c pfx x)
    | .field a fid sub, pfx => by
      have IH := itemsOfSels_prune_sublist c sub
      cases hsf : c.s.fields[fid]? with
      | none => rw [pruneSel]; simp [hsf, itemsOfSels, itemsOfSel, itemsOfSelD]
      | some sf =>
        by_cases hd : isDenied c sf = true
        · rw [pruneSel_denied hsf hd]; simp [itemsOfSels]
        · have hd' : isDenied c sf = false := by simpa using hd
          rw [pruneSel_kept hsf hd', itemsOfSels, itemsOfSels, List.append_nil, itemsOfSel, itemsOfSelD]
          simp only [hsf]
          cases hid : sf.ty.id with
          | object i =>
            simp only []
            rw [fieldsOf_prune]
            exact List.Sublist.cons_cons _ (IH _)
          | scalar k => simp
          | «enum» k => simp
          | interface k => simp
          | union k => simp
          | input k => simp
    | .inline t sub, pfx => by rw [pruneSel]; simp [itemsOfSels, itemsOfSel, itemsOfSelD]
    | .spread g, pfx => by rw [pruneSel]; simp [itemsOfSels, itemsOfSel, itemsOfSelD]
    | .typename, pfx => by rw [pruneSel]; simp [itemsOfSels, itemsOfSel, itemsOfSelD]
  theorem itemsOfSels_prune_sublist (c : Ctx) : ∀ (xs : List Sel) (pfx : String),
      (itemsOfSels c pfx (pruneSels c xs)).Sublist (itemsOfSelsD c pfx xs)
    | [], _ => by rw [pruneSels]; simp [itemsOfSels, itemsOfSelsD]
    | x :: xs, pfx => by
      rw [pruneSels, itemsOfSels_append, itemsOfSelsD]
      exact List.Sublist.append (itemsOfSel_prune_sublist c x pfx) (itemsOfSels_prune_sublist c xs pfx)
end

/-! ## the environment of the module emitted for `op`, seen from the pruned operation -/

theorem treeSels_append {s : Schema} {o : Options} : ∀ {xs ys : List Sel},
    treeSels s o (xs ++ ys) = true ↔ treeSels s o xs = true ∧ treeSels s o ys = true
  | [], ys => by simp [treeSels]
  | x :: xs, ys => by
    rw [List.cons_append, treeSels, treeSels, Bool.and_eq_true, Bool.and_eq_true, treeSels_append (xs := xs), and_assoc]

theorem envSels_append {e : Env} {c : Ctx} {pfx : String} : ∀ {xs ys : List Sel},
    envSels e c pfx xs → envSels e c pfx ys → envSels e c pfx (xs ++ ys)
  | [], _, _, h => h
  | x :: xs, ys, h1, h2 => by
    rw [envSels] at h1
    rw [List.cons_append, envSels]
    exact ⟨h1.1, envSels_append h1.2 h2⟩

section EnvP
variable {c : Ctx} {items : List Item} {u : UsedTypes} {root : List Sel} (M : ModFacts c items u root)
include M

mutual
  theorem envSelP_of : ∀ (x : Sel) (pfx : String), treeSels c.s c.o (pruneSel c x) = true →
      (∀ it ∈ itemsOfSelD c pfx x, it ∈ items) → C02.Reach c.q root x →
      envSels (moduleEnv c items) c pfx (pruneSel c x)
    | .field a fid sub, pfx => by
      intro ht hit hr
      have IH := envSelsP_of sub
      have hdir := M.used _ hr
      cases hsf : c.s.fields[fid]? with
      | none =>
        rw [pruneSel] at ht
        simp only [hsf] at ht
        rw [treeSels, treeSel] at ht
        simp [hsf] at ht
      | some sf =>
        by_cases hd : isDenied c sf = true
        · rw [pruneSel_denied hsf hd]; simp [envSels]
        · have hd' : isDenied c sf = false := by simpa using hd
          rw [pruneSel_kept hsf hd'] at ht ⊢
          rw [treeSels, treeSel] at ht
          rw [itemsOfSelD] at hit
          rw [envSels, envSel]
          simp only [hsf, Bool.and_eq_true] at ht hit ⊢
          refine ⟨?_, by simp [envSels]⟩
          have hty := ht.1.2
          have hused : sf.ty.id ∈ u.types := hdir sf hsf
          cases hid : sf.ty.id with
          | scalar k =>
            simp only [hid] at hused ⊢
            cases hk : c.s.scalars[k]? with
            | none => trivial
            | some sn => exact scalarEnv_of M k sn hk hused
          | «enum» k =>
            simp only [hid] at hused ⊢
            cases hk : c.s.enums[k]? with
            | none => trivial
            | some en => exact enumEnv_of M k en hk hused
          | object i =>
            simp only [hid, Bool.and_eq_true] at hty hit ⊢
            refine ⟨?_, ?_⟩
            · rw [fieldsOf_prune]
              exact structEnv_of M _ _ (hit _ (by simp))
            · exact IH _ hty.1.2 (fun it h => hit it (by simp [h])) (fun y hy => reach_step hr hy)
          | interface k => simp [hid] at hty
          | union k => simp [hid] at hty
          | input k => simp [hid] at hty
    | .inline t sub, _ => by
      intro ht; rw [pruneSel] at ht; simp [treeSels, treeSel] at ht
    | .spread g, _ => by
      intro ht; rw [pruneSel] at ht; simp [treeSels, treeSel] at ht
    | .typename, _ => by
      intro _ _ _; rw [pruneSel]; simp [envSels, envSel]
  theorem envSelsP_of : ∀ (sels : List Sel) (pfx : String), treeSels c.s c.o (pruneSels c sels) = true →
      (∀ it ∈ itemsOfSelsD c pfx sels, it ∈ items) → (∀ x ∈ sels, C02.Reach c.q root x) →
      envSels (moduleEnv c items) c pfx (pruneSels c sels)
    | [], _ => by intro _ _ _; rw [pruneSels]; simp [envSels]
    | x :: xs, pfx => by
      intro ht hit hr
      rw [pruneSels] at ht ⊢
      obtain ⟨hx, hxs⟩ := treeSels_append.mp ht
      rw [itemsOfSelsD] at hit
      exact envSels_append (envSelP_of x pfx hx (fun it h => hit it (by simp [h])) (hr x (by simp)))
        (envSelsP_of xs pfx hxs (fun it h => hit it (by simp [h])) (fun y hy => hr y (by simp [hy])))
end

end EnvP

theorem pruneOp_name (c : Ctx) (op : ROperation) : (pruneOp c op).name = op.name := rfl
theorem pruneOp_sels (c : Ctx) (op : ROperation) : (pruneOp c op).sels = pruneSels c op.sels := rfl
theorem pruneOp_objectId (c : Ctx) (op : ROperation) : (pruneOp c op).objectId = op.objectId := rfl

/-- **the module emitted for `op` under `deny` is an environment for the pruned operation** (`TopEnv` of the `TreeOp`
    theorems): `ResponseData` and the struct of every kept selection set resolve to the `TreeOp` closed form of the
    pruned selection -/
theorem topEnvD_of_module {c : Ctx} {opIdx : Nat} {op : ROperation} {items : List Item}
    (hop : c.q.operations[opIdx]? = some op) (ht : TreeOpD c op = true) (hp : TreeOp c (pruneOp c op) = true)
    (hgen : responseForQuery c opIdx = .ok items) (hok : moduleOk c items = true) :
    TopEnv (moduleEnv c items) c (pruneOp c op) := by
  obtain ⟨u, S, E, I, V, F, o, resp, hu, hS, hE, ho, hresp, hitems⟩ := responseForQuery_parts hgen
  rw [hop] at ho; cases ho
  obtain ⟨hn, _, hsels, _⟩ := treeOp_parts hp
  rw [tree_items_shapeD c op (List.mem_of_getElem? hop) ht] at hresp
  cases hresp
  simp only [moduleOk, Bool.and_eq_true, List.all_eq_true, decide_eq_true_eq, List.isEmpty_iff] at hok
  obtain ⟨⟨⟨⟨hnd, hnp⟩, hext⟩, htab⟩, hnoext⟩ := hok
  have hsub : ∀ it ∈ structItemsD c "ResponseData" (c.cs.camel op.name) op.sels, it ∈ items := by
    intro it h; rw [hitems]; simp [h]
  have M : ModFacts c items u op.sels := {
    hn := hn
    nodup := nodup_iff'.mp hnd
    np := hnp
    ext := fun x hx => ⟨(hext x hx).1, fun it hit => by simpa using (hext x hx).2 it hit⟩
    tables := fun n d sp vs ser de hm => by simpa using htab _ hm
    builtin := fun it h => by rw [hitems]; simp [h]
    scalars := fun k n hk hn' hnd' => by
      have := scalarItems_mem hS hk hn' hnd'
      simp only [hn, Normalization.scalarName, Normalization.camelCase] at this
      rw [hitems]; simp [this]
    enums := fun k en hk hen => by
      have := enumItems_mem hE hk hen (by simp [hnoext])
      rw [hitems]; simp [this]
    used := C02.selected_types_used c.s c.q opIdx u hu op hop }
  rw [pruneOp_sels] at hsels
  refine ⟨?_, ?_, ?_⟩
  · rw [pruneOp_name, pruneOp_sels, fieldsOf_prune]
    exact structEnv_of M _ _ (hsub _ (by simp [structItemsD]))
  · rw [pruneOp_name, pruneOp_sels]
    exact envSelsP_of M op.sels _ hsels (fun it h => hsub it (by simp [structItemsD, h])) (fun x hx => .here hx)
  · rw [pruneOp_name, pruneOp_sels, hitems]
    have := (itemsOfSels_prune_sublist c op.sels (c.cs.camel op.name)).length_le
    simp only [moduleEnv, List.length_append, structItemsD, List.length_cons]
    omega

/-! ## exact acceptance (C03) -/

/-- **`treeD_precise_iff` (C03 under `deny`).**  The `ResponseData` emitted for `op` accepts `j` **iff** `j` conforms
    loosely to the selection with the denied fields removed: the denied keys — like every unselected key — are
    unconstrained (present or not, any value, any number of times), everything else as in `tree_precise_iff`. -/
theorem treeD_precise_iff (c : Ctx) (opIdx : Nat) (op : ROperation) (items : List Item)
    (hop : c.q.operations[opIdx]? = some op) (ht : TreeOpD c op = true) (hp : TreeOp c (pruneOp c op) = true)
    (hgen : responseForQuery c opIdx = .ok items) (hok : moduleOk c items = true) (j : Json) :
    okB (Serde.de (moduleEnv c items) (.path "ResponseData") j) = conformsSelLoose c.s (pruneSels c op.sels) j :=
  top_accepts_iff (moduleEnv c items) c (pruneOp c op) hp (topEnvD_of_module hop ht hp hgen hok) j

/-- the same, in the form of the task statement: … iff the payload **with the denied keys erased at every depth**
    (`C14G.eraseDenied`) conforms loosely to the pruned selection -/
theorem treeD_precise_iff_erased (c : Ctx) (opIdx : Nat) (op : ROperation) (items : List Item)
    (hop : c.q.operations[opIdx]? = some op) (ht : TreeOpD c op = true) (hp : TreeOp c (pruneOp c op) = true)
    (hgen : responseForQuery c opIdx = .ok items) (hok : moduleOk c items = true) (j : Json) :
    okB (Serde.de (moduleEnv c items) (.path "ResponseData") j) =
      conformsSelLoose c.s (pruneSels c op.sels) (eraseDenied c op j) := by
  rw [denied_field_payload_same' c opIdx op items hop ht hgen hok j]
  exact treeD_precise_iff c opIdx op items hop ht hp hgen hok _

/-- so erasing the denied keys does not change loose conformance to the pruned selection (a fact about the two
    specification-side functions, obtained through the generated module) -/
theorem conformsSelLoose_eraseDenied (c : Ctx) (opIdx : Nat) (op : ROperation) (items : List Item)
    (hop : c.q.operations[opIdx]? = some op) (ht : TreeOpD c op = true) (hp : TreeOp c (pruneOp c op) = true)
    (hgen : responseForQuery c opIdx = .ok items) (hok : moduleOk c items = true) (j : Json) :
    conformsSelLoose c.s (pruneSels c op.sels) (eraseDenied c op j) = conformsSelLoose c.s (pruneSels c op.sels) j := by
  rw [← treeD_precise_iff_erased c opIdx op items hop ht hp hgen hok j,
    treeD_precise_iff c opIdx op items hop ht hp hgen hok j]

theorem treeD_precise (c : Ctx) (opIdx : Nat) (op : ROperation) (items : List Item)
    (hop : c.q.operations[opIdx]? = some op) (ht : TreeOpD c op = true) (hp : TreeOp c (pruneOp c op) = true)
    (hgen : responseForQuery c opIdx = .ok items) (hok : moduleOk c items = true) (j : Json) (v : Val)
    (hd : Serde.de (moduleEnv c items) (.path "ResponseData") j = .ok v) :
    conformsSelLoose c.s (pruneSels c op.sels) j = true := by
  rw [← treeD_precise_iff c opIdx op items hop ht hp hgen hok j, hd]; rfl

/-! ## acceptance (C01): strict on the selection as written ⟹ loose on the pruned selection -/

theorem looseSels_append (s : Schema) (kvs : List (String × Json)) : ∀ xs ys : List Sel,
    looseSels s (xs ++ ys) kvs = (looseSels s xs kvs && looseSels s ys kvs)
  | [], ys => by simp [looseSels]
  | x :: xs, ys => by
    have ih := looseSels_append s kvs xs ys
    cases x with
    | field a fid sub => rw [List.cons_append, looseSels.eq_2, looseSels.eq_2, ih, Bool.and_assoc]
    | inline t sub => rw [List.cons_append]; simpa [looseSels] using ih
    | spread g => rw [List.cons_append]; simpa [looseSels] using ih
    | typename => rw [List.cons_append]; simpa [looseSels] using ih

mutual
  /-- the value of a kept field: strict for the selection as written ⟹ loose for the pruned selection -/
  theorem strict_loose_prune_field (c : Ctx) : ∀ (a : Option String) (fid : Nat) (sub : List Sel) (v : Json),
      strictField c.s (.field a fid sub) v = true → looseField c.s (.field a fid (pruneSels c sub)) v = true
    | a, fid, sub, v => by
      intro h
      have IH := strict_loose_prune_sels c sub
      simp only [strictField] at h
      rw [looseField]
      cases hsf : c.s.fields[fid]? with
      | none => simp [hsf] at h
      | some sf =>
        simp only [hsf] at h ⊢
        cases hid : sf.ty.id <;> simp only [hid] at h ⊢ <;> try exact h
        rename_i i
        cases ho : c.s.objects[i]? with
        | none => simp [ho] at h
        | some o =>
          simp only [ho] at h ⊢
          rw [looseLambda]
          refine (accepts_mono _ _ ?_ _).2 v h
          intro j hj
          cases j with
          | obj kvs =>
            simp only [conformsSel, Bool.and_eq_true] at hj
            exact IH o.name kvs (countKey_le_one_of_nodup (nodup_iff'.mp hj.1.1)) hj.2
          | null => simp [conformsSel] at hj
          | bool _ => simp [conformsSel] at hj
          | int _ => simp [conformsSel] at hj
          | num _ => simp [conformsSel] at hj
          | str _ => simp [conformsSel] at hj
          | arr _ => simp [conformsSel] at hj
  theorem strict_loose_prune_sels (c : Ctx) : ∀ (sels : List Sel) (tn : String) (kvs : List (String × Json)),
      (∀ k, countKey k kvs ≤ 1) → confSels c.s tn sels kvs = true → looseSels c.s (pruneSels c sels) kvs = true
    | [], _, _, _, _ => by rw [pruneSels]; simp [looseSels]
    | x :: xs, tn, kvs, hc, h => by
      rw [confSels, Bool.and_eq_true] at h
      have ih := strict_loose_prune_sels c xs tn kvs hc h.2
      rw [pruneSels, looseSels_append, ih, Bool.and_true]
      cases x with
      | field a fid sub =>
        have hx := h.1
        rw [confSel_field] at hx
        cases hsf : c.s.fields[fid]? with
        | none => simp [hsf] at hx
        | some sf =>
          by_cases hd : isDenied c sf = true
          · rw [pruneSel_denied hsf hd]; simp [looseSels]
          · have hd' : isDenied c sf = false := by simpa using hd
            rw [pruneSel_kept hsf hd', looseSels.eq_2]
            simp only [hsf] at hx ⊢
            cases hl : Json.lookup (a.getD sf.name) kvs with
            | none => simp [hl] at hx
            | some v =>
              simp only [hl] at hx ⊢
              simp [hc, strict_loose_prune_field c a fid sub v hx, looseSels]
      | spread g => simp [confSel] at h
      | inline t sub => simp [confSel] at h
      | typename => rw [pruneSel_typename]; simp [looseSels]
end

/-- **a response conforming to the selection as written conforms loosely to the pruned selection** (no hypothesis) -/
theorem conformsSel_loose_prune (c : Ctx) (tn : String) (sels : List Sel) (j : Json)
    (h : conformsSel c.s tn sels j = true) : conformsSelLoose c.s (pruneSels c sels) j = true := by
  cases j with
  | obj kvs =>
    simp only [conformsSel, Bool.and_eq_true] at h
    exact strict_loose_prune_sels c sels tn kvs (countKey_le_one_of_nodup (nodup_iff'.mp h.1.1)) h.2
  | null => simp [conformsSel] at h
  | bool _ => simp [conformsSel] at h
  | int _ => simp [conformsSel] at h
  | num _ => simp [conformsSel] at h
  | str _ => simp [conformsSel] at h
  | arr _ => simp [conformsSel] at h

/-- **`treeD_accepts` (C01 under `deny`, acceptance).**  Every response that conforms to the operation AS WRITTEN
    (`conformsOp`: one entry per selected response key — the denied fields included, the server sends them) is
    accepted by the `ResponseData` emitted under `deny`. -/
theorem treeD_accepts (c : Ctx) (opIdx : Nat) (op : ROperation) (items : List Item)
    (hop : c.q.operations[opIdx]? = some op) (ht : TreeOpD c op = true) (hp : TreeOp c (pruneOp c op) = true)
    (hgen : responseForQuery c opIdx = .ok items) (hok : moduleOk c items = true)
    (j : Json) (hc : conformsOp c op j = true) :
    ∃ v, Serde.de (moduleEnv c items) (.path "ResponseData") j = .ok v := by
  have := treeD_precise_iff c opIdx op items hop ht hp hgen hok j
  rw [conformsSel_loose_prune c _ _ _ hc] at this
  exact (okB_iff _).mp this

/-- … and so is the payload a server sends that already omits the denied fields (conforming to the pruned operation) -/
theorem treeD_accepts_pruned (c : Ctx) (opIdx : Nat) (op : ROperation) (items : List Item)
    (hop : c.q.operations[opIdx]? = some op) (ht : TreeOpD c op = true) (hp : TreeOp c (pruneOp c op) = true)
    (hgen : responseForQuery c opIdx = .ok items) (hok : moduleOk c items = true)
    (j : Json) (hc : conformsOp c (pruneOp c op) j = true) :
    ∃ v, Serde.de (moduleEnv c items) (.path "ResponseData") j = .ok v := by
  have := treeD_precise_iff c opIdx op items hop ht hp hgen hok j
  have hl : conformsSelLoose c.s (pruneSels c op.sels) j = true := conforms_loose _ _ _ _ hc
  rw [hl] at this
  exact (okB_iff _).mp this

end Deny
end C01
end GqlVerif
