import GqlVerif.Proofs.C01NestedW
import GqlVerif.Proofs.C01NestedL
/-!
# C01 end to end: nested fragments spread at ABSTRACT positions (`NestedAbsOp`), part A: class, closed form

`NestedOp` (C01NestedA..W) allows nested fragments (`fragOkN`: bodies that spread further fragments on the same object type,
to any depth) at object positions only; a field of interface / union type is a field of `VariantSpreadOp` (`sSel`: the
fragments spread there have spread-free bodies).  `NestedAbsOp` adds, for a field of interface / union type, the selection
sets that consist of

  `__typename` (at least once), and **any number of (a)-spreads** `...F` / aliased inline fragments `... on T { ...F }`,
  `F` a fragment of `fragOkN` on a possible type `T` (of any rank: **its body may spread further fragments on `T`**)

(`absSubA`; no interface-level fields, no inline fragments with fields of their own, no spreads of fragments on the abstract
type itself).  At such a position the generator emits the tagged enum and, per possible type `T`: nothing (unit variant),
the type alias `type …On<T> = F` (one selection), or the struct `…On<T>` with one `#[serde(flatten)]` member per selected
fragment — the direct spreads in selection order, then the aliased inline fragments (`memFrags`).

* `aSel ok` / `aSels ok` / `aBody ok` — the class of selection sets, parametric in `ok` as `nSel`; at a field of abstract type:
  `sSel … || absFieldA ok …`;
* `NestedAbsOp c op` (decidable) ⊇ `NestedOp c op` (`nestedAbsOp_of_nestedOp`);
* `itemsA` / `bodyItemsA` — closed form; on a field of the old class (`sSel`) the items of `itemsS`; `bodyItemsA_eq_M`: on
  `NestedOp` it is the closed form of `nested_items_shape`;
* `calcFields_special`, `calcVariantSels_special`, `calcVariants_special`, `calcSelection_special` — the generator at a
  position of the new kind (for every large enough fuel);
* **`nestedabs_items_shape`** — `responseItems c op = .ok (bodyItemsA …)`.

Parts: A class / closed form, C exact acceptance (parametric), D top level of C, E acyclicity from the class + the emitted
module + `nestedabs_precise_iff`, F specification + `nestedabs_accepts`, H losslessness (parametric), I `nestedabs_lossless` /
`nestedabs_roundtrip`, J agreement with `C01Nested*` on `NestedOp`, W instances and necessity witnesses.  The rank recursion
about fragments (`wholeN`, `KNn`, `centN`, `fragAccN`, `fragRTN`, `specN` of `C01NestedD/F/I`) is used as it is.
-/
set_option linter.unusedSimpArgs false
set_option linter.unusedVariables false
set_option linter.unusedSectionVars false
set_option linter.unnecessarySimpa false

namespace GqlVerif
namespace C01NA
open Serde Spec C13 C03 Codegen C01 C01.E2E C01M C01N

/-! ## the class -/

/-- the fragment of a variant selection: `...F` or `... on T { ...F }` -/
def selFrag : Sel → Option Nat
  | .spread g => some g
  | .inline _ sub => (match sub with | [.spread g] => some g | _ => none)
  | _ => none

/-- the fragment of a direct spread -/
def spreadId : Sel → Option Nat
  | .spread g => some g
  | _ => none

/-- **the fragments whose structs make up the variant of `vt`**: those spread directly, in selection order, then those of
    the aliased inline fragments `... on T { ...F }` (the generator appends these) -/
def memFrags (q : Query) (vt : TypeId) (sub : List Sel) : List Nat :=
  (mineOf q vt sub).filterMap spreadId ++ (mineOf q vt sub).filterMap aliasInl

/-- one selection at an abstract position of the new kind -/
def absSelA (ok : TypeId → Nat → Bool) (vts : List TypeId) : Sel → Bool
  | .typename => true
  | .spread g => vts.any (fun vt => ok vt g)
  | .inline t sub => (match sub with | [.spread g] => vts.contains t && ok t g | _ => false)
  | .field .. => false

/-- a selection set on the abstract type `ty` of the new kind -/
def absSubA (ok : TypeId → Nat → Bool) (s : Schema) (q : Query) (o : Options) (ty : TypeId) (sub : List Sel) : Bool :=
  sub.any isTypename && sub.all (absSelA ok (vtsOfTy s ty)) &&
  (vtsOfTy s ty).all (fun t => match t with | .object i => (s.objects[i]?).isSome | _ => false) &&
  !(variantNames s o ty).isEmpty && EnumSpec.nodup (variantNames s o ty)

def absTyOk (s : Schema) : TypeId → Bool
  | .interface k => (s.interfaces[k]?).isSome
  | .union u => (s.unions[u]?).isSome
  | _ => false

/-- a field of interface / union type with a selection set of the new kind -/
def absFieldA (ok : TypeId → Nat → Bool) (s : Schema) (q : Query) (o : Options) (sf : StoredField) (sub : List Sel) : Bool :=
  wfQuals sf.ty.quals && !(sf.deprecation.isSome && o.deprecation == .deny) && absTyOk s sf.ty.id &&
    absSubA ok s q o sf.ty.id sub

mutual
  /-- one selection of an object-level selection set on `parent` -/
  def aSel (ok : TypeId → Nat → Bool) (s : Schema) (q : Query) (o : Options) (parent : TypeId) : Sel → Bool
    | .field a fid sub =>
      match s.fields[fid]? with
      | none => false
      | some sf =>
        match sf.ty.id with
        | .object i =>
          wfQuals sf.ty.quals && !(sf.deprecation.isSome && o.deprecation == .deny) && (s.objects[i]?).isSome &&
            (match sub with
             | [.spread g] => ok (.object i) g
             | _ => aSels ok s q o (.object i) sub)
        | _ => sSel s q o false (.field a fid sub) || absFieldA ok s q o sf sub
    | .typename => true
    | .spread g => ok parent g
    | .inline _ _ => false
  def aSels (ok : TypeId → Nat → Bool) (s : Schema) (q : Query) (o : Options) (parent : TypeId) : List Sel → Bool
    | [] => true
    | x :: xs => aSel ok s q o parent x && aSels ok s q o parent xs
end

def aBody (ok : TypeId → Nat → Bool) (s : Schema) (q : Query) (o : Options) (parent : TypeId) (sels : List Sel) : Bool :=
  match sels with
  | [.spread g] => ok parent g
  | _ => aSels ok s q o parent sels

/-- **the class `NestedAbsOp`** (decidable): `NestedOp`, and nested fragments (`fragOkN`) as variant selections at
    abstract positions -/
def NestedAbsOp (c : Ctx) (op : ROperation) : Bool :=
  c.o.normalization == .none && (c.s.objects[op.objectId]?).isSome &&
  aBody (fragOkN c.s c.q c.o c.q.fragments.length) c.s c.q c.o (.object op.objectId) op.sels

/-! ## closed form -/

/-- the flattened member for the struct of the fragment `g` in a variant struct (`calcVariantSels` / `aliasMember`: no
    `keyword_replace`) -/
def memField (c : Ctx) (g : Nat) : RField :=
  { rust := c.cs.snake (fragName c g), ty := .path (fragName c g), flatten := true }

/-- the item `…On<T>`: nothing (unit variant), the alias of the fragment struct (one selection), or the struct with one
    `#[serde(flatten)]` member per selected fragment -/
def variantHeadA (c : Ctx) (pfx : String) (vt : TypeId) (sub : List Sel) : List Item :=
  match memFrags c.q vt sub with
  | [] => []
  | [g] => [aliasItem (pfx ++ "On" ++ objName c.s vt) (fragName c g) false]
  | gs => [.struct (pfx ++ "On" ++ objName c.s vt) c.respDerives c.serdeCrate (gs.map (memField c))]

/-- the items of an abstract position of the new kind: the tagged enum, then per selected possible type the alias -/
def absItemsA (c : Ctx) (name pfx : String) (ty : TypeId) (sub : List Sel) : List Item :=
  renderType c name [] (variantsV c pfx ty (marks c.q sub)) ++
    (vtsOfTy c.s ty).flatMap (fun vt => variantHeadA c pfx vt sub)

mutual
  def itemsA (c : Ctx) (pfx : String) : Sel → List Item
    | .field a fid sub =>
      match c.s.fields[fid]? with
      | none => []
      | some sf =>
        match sf.ty.id with
        | .object _ =>
          (match sub with
           | [.spread g] => [aliasItem (pfx ++ c.cs.camel (a.getD sf.name)) (fragName c g) false]
           | _ => .struct (pfx ++ c.cs.camel (a.getD sf.name)) c.respDerives c.serdeCrate
                    (fieldsOfF c (pfx ++ c.cs.camel (a.getD sf.name)) sub) ::
                  itemsAs c (pfx ++ c.cs.camel (a.getD sf.name)) sub)
        | ty =>
          if sSel c.s c.q c.o false (.field a fid sub) then itemsS c pfx (.field a fid sub)
          else absItemsA c (pfx ++ c.cs.camel (a.getD sf.name)) (pfx ++ c.cs.camel (a.getD sf.name)) ty sub
    | _ => []
  def itemsAs (c : Ctx) (pfx : String) : List Sel → List Item
    | [] => []
    | x :: xs => itemsA c pfx x ++ itemsAs c pfx xs
end

/-- **closed form** of the items of an object-level selection set -/
def bodyItemsA (c : Ctx) (name pfx : String) (sels : List Sel) : List Item :=
  match sels with
  | [.spread g] => [aliasItem name (fragName c g) false]
  | _ => .struct name c.respDerives c.serdeCrate (fieldsOfF c pfx sels) :: itemsAs c pfx sels

/-! ## basic facts -/

section Basic
variable {ok : TypeId → Nat → Bool} {s : Schema} {q : Query} {o : Options}

theorem aSels_cons {p : TypeId} {x : Sel} {xs : List Sel}
    (h : aSels ok s q o p (x :: xs) = true) : aSel ok s q o p x = true ∧ aSels ok s q o p xs = true := by
  simpa [aSels] using h

theorem aSels_mem {p : TypeId} : ∀ {sels : List Sel}, aSels ok s q o p sels = true →
    ∀ x ∈ sels, aSel ok s q o p x = true
  | [], _, _, hx => by simp at hx
  | y :: ys, h, x, hx => by
    obtain ⟨h1, h2⟩ := aSels_cons h
    rcases List.mem_cons.mp hx with rfl | hx'
    · exact h1
    · exact aSels_mem h2 x hx'

theorem aBody_not_lone {p : TypeId} {sels : List Sel}
    (h : ∀ g, sels ≠ [Sel.spread g]) : aBody ok s q o p sels = aSels ok s q o p sels := by
  unfold aBody
  split
  · rename_i g; exact absurd rfl (h g)
  · rfl

theorem aBody_lone {p : TypeId} {g : Nat} : aBody ok s q o p [Sel.spread g] = ok p g := rfl

theorem bodyItemsA_not_lone (c : Ctx) (name pfx : String) {sels : List Sel} (h : ∀ g, sels ≠ [Sel.spread g]) :
    bodyItemsA c name pfx sels =
      .struct name c.respDerives c.serdeCrate (fieldsOfF c pfx sels) :: itemsAs c pfx sels := by
  unfold bodyItemsA
  split
  · rename_i g; exact absurd rfl (h g)
  · rfl

theorem aSel_obj {p : TypeId} {a : Option String} {fid : Nat} {sub : List Sel}
    {sf : StoredField} {i : Nat} (hsf : s.fields[fid]? = some sf) (hid : sf.ty.id = .object i)
    (h : aSel ok s q o p (.field a fid sub) = true) :
    wfQuals sf.ty.quals = true ∧ (sf.deprecation.isSome && o.deprecation == .deny) = false ∧
      (s.objects[i]?).isSome = true ∧ aBody ok s q o (.object i) sub = true := by
  rw [aSel] at h
  simp only [hsf, hid, Bool.and_eq_true] at h
  obtain ⟨⟨⟨hw, hdep⟩, hobj⟩, hb⟩ := h
  refine ⟨hw, ?_, hobj, hb⟩
  cases hd : (sf.deprecation.isSome && o.deprecation == .deny) with
  | false => rfl
  | true => simp [hd] at hdep

/-- a field of the class that is not object-typed: a field of `VariantSpreadOp`, or of the new kind -/
theorem aSel_nonobj {p : TypeId} {a : Option String} {fid : Nat} {sub : List Sel}
    {sf : StoredField} (hsf : s.fields[fid]? = some sf) (hno : ∀ i, sf.ty.id ≠ .object i)
    (h : aSel ok s q o p (.field a fid sub) = true) :
    sSel s q o false (.field a fid sub) = true ∨
      (sSel s q o false (.field a fid sub) = false ∧ absFieldA ok s q o sf sub = true) := by
  rw [aSel] at h
  simp only [hsf] at h
  have h' : (sSel s q o false (.field a fid sub) || absFieldA ok s q o sf sub) = true := by
    cases hid : sf.ty.id with
    | object i => exact absurd hid (hno i)
    | scalar k => simpa [hid] using h
    | «enum» k => simpa [hid] using h
    | interface k => simpa [hid] using h
    | union k => simpa [hid] using h
    | input k => simpa [hid] using h
  cases hs : sSel s q o false (.field a fid sub) with
  | true => exact .inl rfl
  | false => rw [hs] at h'; exact .inr ⟨rfl, by simpa using h'⟩

theorem aSel_field_some {p : TypeId} {a : Option String} {fid : Nat} {sub : List Sel}
    (h : aSel ok s q o p (.field a fid sub) = true) : ∃ sf, s.fields[fid]? = some sf := by
  rw [aSel] at h
  cases hsf : s.fields[fid]? with
  | none => simp [hsf] at h
  | some sf => exact ⟨sf, rfl⟩

theorem absTyOk_absHyp {ty : TypeId} (h : absTyOk s ty = true) : absHyp s ty := by
  cases ty <;> simp_all [absTyOk, absHyp]

theorem absFieldA_parts {sf : StoredField} {sub : List Sel} (h : absFieldA ok s q o sf sub = true) :
    wfQuals sf.ty.quals = true ∧ (sf.deprecation.isSome && o.deprecation == .deny) = false ∧
      absHyp s sf.ty.id ∧ absSubA ok s q o sf.ty.id sub = true := by
  simp only [absFieldA, Bool.and_eq_true] at h
  obtain ⟨⟨⟨hw, hdep⟩, hty⟩, hsub⟩ := h
  refine ⟨hw, ?_, absTyOk_absHyp hty, hsub⟩
  cases hd : (sf.deprecation.isSome && o.deprecation == .deny) with
  | false => rfl
  | true => simp [hd] at hdep

end Basic

/-- what `absSubA` says, as propositions -/
structure SpecialAbs (ok : TypeId → Nat → Bool) (s : Schema) (q : Query) (o : Options) (ty : TypeId) (sub : List Sel) :
    Prop where
  tn : sub.any isTypename = true
  sel : ∀ x ∈ sub, absSelA ok (vtsOfTy s ty) x = true
  obj : ∀ t ∈ vtsOfTy s ty, ∃ i, t = .object i ∧ (s.objects[i]?).isSome = true
  ne : variantNames s o ty ≠ []
  nd : (variantNames s o ty).Nodup

theorem absSubA_parts {ok : TypeId → Nat → Bool} {s : Schema} {q : Query} {o : Options} {ty : TypeId} {sub : List Sel}
    (h : absSubA ok s q o ty sub = true) : SpecialAbs ok s q o ty sub := by
  simp only [absSubA, Bool.and_eq_true, List.all_eq_true, decide_eq_true_eq, Bool.not_eq_true',
    List.isEmpty_eq_false_iff] at h
  obtain ⟨⟨⟨⟨h1, h2⟩, h3⟩, h4⟩, h5⟩ := h
  refine ⟨h1, h2, ?_, h4, nodup_iff'.mp h5⟩
  intro t ht
  have := h3 t ht
  cases t <;> simp only [Bool.false_eq_true] at this
  exact ⟨_, rfl, this⟩

/-- a variant selection of the new kind on `vt` -/
def IsMem (ok : TypeId → Nat → Bool) (vt : TypeId) (x : Sel) : Prop :=
  (∃ g, x = Sel.spread g ∧ ok vt g = true) ∨ (∃ g, x = Sel.inline vt [Sel.spread g] ∧ ok vt g = true)

/-- the selections on a possible type: spreads or aliased inline fragments — of fragments of the class on it -/
theorem SpecialAbs.mine {ok : TypeId → Nat → Bool} {s : Schema} {q : Query} {o : Options} {ty : TypeId} {sub : List Sel}
    (h : SpecialAbs ok s q o ty sub) (hok : OkSpec q ok) {vt : TypeId} (hvt : vt ∈ vtsOfTy s ty) :
    ∀ x ∈ mineOf q vt sub, IsMem ok vt x := by
  intro x hxm
  obtain ⟨hx, hon⟩ := mem_mineOf hxm
  have hsel := h.sel x hx
  cases x with
  | typename => simp [selOn] at hon
  | field a fid sub' => simp [selOn] at hon
  | spread g =>
    simp only [absSelA, List.any_eq_true] at hsel
    obtain ⟨vt', _, hokg⟩ := hsel
    obtain ⟨f, hf, hfon, _⟩ := hok _ _ hokg
    simp only [selOn, hf, Option.map_some, Option.some.injEq] at hon
    have : vt' = vt := hfon.symm.trans hon
    subst this
    exact .inl ⟨g, rfl, hokg⟩
  | inline t isub =>
    simp only [selOn, Option.some.injEq] at hon
    subst hon
    simp only [absSelA] at hsel
    split at hsel
    · rename_i g
      simp only [Bool.and_eq_true] at hsel
      exact .inr ⟨g, rfl, hsel.2⟩
    · cases hsel

/-- the members: each selection contributes exactly one -/
theorem length_members {ok : TypeId → Nat → Bool} {vt : TypeId} : ∀ (ms : List Sel), (∀ x ∈ ms, IsMem ok vt x) →
    (ms.filterMap spreadId ++ ms.filterMap aliasInl).length = ms.length
  | [], _ => rfl
  | x :: xs, h => by
    have ih := length_members xs (fun y hy => h y (List.mem_cons_of_mem _ hy))
    rw [List.length_append] at ih ⊢
    rcases h x (List.mem_cons_self) with ⟨g, rfl, _⟩ | ⟨g, rfl, _⟩
    · simp only [List.filterMap_cons, spreadId, aliasInl, List.length_cons]; omega
    · simp only [List.filterMap_cons, spreadId, aliasInl, List.length_cons]; omega

theorem mem_members {ok : TypeId → Nat → Bool} {vt : TypeId} {ms : List Sel} (h : ∀ x ∈ ms, IsMem ok vt x) {g : Nat}
    (hg : g ∈ ms.filterMap spreadId ++ ms.filterMap aliasInl) :
    ok vt g = true ∧ (Sel.spread g ∈ ms ∨ Sel.inline vt [Sel.spread g] ∈ ms) := by
  rcases List.mem_append.mp hg with hg | hg
  · obtain ⟨x, hx, hxg⟩ := List.mem_filterMap.mp hg
    rcases h x hx with ⟨g', rfl, hokg⟩ | ⟨g', rfl, hokg⟩
    · simp only [spreadId, Option.some.injEq] at hxg; subst hxg; exact ⟨hokg, .inl hx⟩
    · simp [spreadId] at hxg
  · obtain ⟨x, hx, hxg⟩ := List.mem_filterMap.mp hg
    rcases h x hx with ⟨g', rfl, hokg⟩ | ⟨g', rfl, hokg⟩
    · simp [aliasInl] at hxg
    · simp only [aliasInl, Option.some.injEq] at hxg; subst hxg; exact ⟨hokg, .inr hx⟩

/-- every member fragment of the variant of `vt` is of the class on `vt`, and selected in `sub` -/
theorem SpecialAbs.mem {ok : TypeId → Nat → Bool} {s : Schema} {q : Query} {o : Options} {ty : TypeId} {sub : List Sel}
    (h : SpecialAbs ok s q o ty sub) (hok : OkSpec q ok) {vt : TypeId} (hvt : vt ∈ vtsOfTy s ty) {g : Nat}
    (hg : g ∈ memFrags q vt sub) :
    ok vt g = true ∧ (Sel.spread g ∈ sub ∨ Sel.inline vt [Sel.spread g] ∈ sub) := by
  obtain ⟨h1, h2⟩ := mem_members (h.mine hok hvt) hg
  refine ⟨h1, ?_⟩
  rcases h2 with h2 | h2
  · exact .inl (mem_mineOf h2).1
  · exact .inr (mem_mineOf h2).1

theorem memFrags_mem_selFrag {q : Query} {vt : TypeId} {sub : List Sel} {g : Nat} (hg : g ∈ memFrags q vt sub) :
    g ∈ sub.filterMap selFrag := by
  unfold memFrags at hg
  rcases List.mem_append.mp hg with hg | hg
  · obtain ⟨x, hx, hxg⟩ := List.mem_filterMap.mp hg
    refine List.mem_filterMap.mpr ⟨x, (mem_mineOf hx).1, ?_⟩
    cases x <;> simp_all [spreadId, selFrag]
  · obtain ⟨x, hx, hxg⟩ := List.mem_filterMap.mp hg
    refine List.mem_filterMap.mpr ⟨x, (mem_mineOf hx).1, ?_⟩
    cases x with
    | inline t isub =>
      obtain ⟨t', hx'⟩ := aliasInl_some hxg
      cases hx'
      simp [selFrag]
    | spread g' => simp [aliasInl] at hxg
    | field a fid sub' => simp [aliasInl] at hxg
    | typename => simp [aliasInl] at hxg

theorem memFrags_nil {q : Query} {vt : TypeId} {sub : List Sel} (h : mineOf q vt sub = []) : memFrags q vt sub = [] := by
  unfold memFrags; rw [h]; rfl

theorem memFrags_length {ok : TypeId → Nat → Bool} {s : Schema} {q : Query} {o : Options} {ty : TypeId} {sub : List Sel}
    (h : SpecialAbs ok s q o ty sub) (hok : OkSpec q ok) {vt : TypeId} (hvt : vt ∈ vtsOfTy s ty) :
    (memFrags q vt sub).length = (mineOf q vt sub).length :=
  length_members _ (h.mine hok hvt)

/-- every spread of such a selection set is of a fragment on a possible type -/
theorem SpecialAbs.spread {ok : TypeId → Nat → Bool} {s : Schema} {q : Query} {o : Options} {ty : TypeId} {sub : List Sel}
    (h : SpecialAbs ok s q o ty sub) (hok : OkSpec q ok) (hty : absHyp s ty) {g : Nat} (hg : Sel.spread g ∈ sub) :
    ∃ f, q.fragments[g]? = some f ∧ f.on ≠ ty := by
  have hsel := h.sel _ hg
  simp only [absSelA, List.any_eq_true] at hsel
  obtain ⟨vt, hvt, hokg⟩ := hsel
  obtain ⟨f, hf, hfon, _⟩ := hok _ _ hokg
  obtain ⟨i, rfl, _⟩ := h.obj vt hvt
  exact ⟨f, hf, by rw [hfon]; exact obj_ne_abs hty i⟩

/-! ## Theorem 1: the items of an abstract position of the new kind -/

section CalcAbs
variable (c : Ctx) (ok : TypeId → Nat → Bool) (hok : OkSpec c.q ok)

/-- the field loop contributes nothing -/
theorem calcFields_special (pfx : String) (ty : TypeId) : ∀ (sub : List Sel) (fuel : Nat), sub.length + 1 ≤ fuel →
    (∀ x ∈ sub, ∀ a fid sub', x ≠ Sel.field a fid sub') →
    (∀ g, Sel.spread g ∈ sub → ∃ f, c.q.fragments[g]? = some f ∧ f.on ≠ ty) →
    calcFields c fuel pfx ty sub = .ok ([], [])
  | [], fuel, hf, _, _ => by
    obtain ⟨f, rfl⟩ : ∃ f, fuel = f + 1 := ⟨fuel - 1, by omega⟩
    rw [calcFields.eq_2 _ _ _ _ (by omega)]; rfl
  | x :: xs, fuel, hf, hnf, hsp => by
    simp only [List.length_cons] at hf
    obtain ⟨f, rfl⟩ : ∃ f, fuel = f + 1 := ⟨fuel - 1, by omega⟩
    have ih := calcFields_special pfx ty xs f (by omega) (fun y hy => hnf y (List.mem_cons_of_mem _ hy))
      (fun g hg => hsp g (List.mem_cons_of_mem _ hg))
    cases x with
    | field a fid sub' => exact absurd rfl (hnf _ (List.mem_cons_self) a fid sub')
    | spread g =>
      obtain ⟨fr, hfr, hne⟩ := hsp g (List.mem_cons_self)
      have hne' : (fr.on != ty) = true := by simpa using hne
      rw [calcFields.eq_4]
      simp only [getFragment_of hfr, bind, Except.bind, ih, hne', ↓reduceIte, pure, Except.pure]
    | inline t sub' => rw [calcFields.eq_5 _ _ _ _ _ _ (by simp) (by simp), ih]
    | typename => rw [calcFields.eq_5 _ _ _ _ _ _ (by simp) (by simp), ih]

theorem memField_eq (c : Ctx) {g : Nat} {fr : RFragment} (hfr : c.q.fragments[g]? = some fr) :
    memField c g = memberField c fr := by
  simp [memField, memberField, fragName, hfr]

include hok in
/-- the contributions of the selections on one variant: one flattened member per direct spread, one alias item per aliased
    inline fragment -/
theorem calcVariantSels_special (sname pfx : String) (ty : TypeId) (i : Nat) (hne : TypeId.object i ≠ ty) :
    ∀ (ms : List Sel) (fuel : Nat), ms.length + 1 ≤ fuel → (∀ x ∈ ms, IsMem ok (.object i) x) →
    (c.s.objects[i]?).isSome = true →
    calcVariantSels c fuel sname pfx (.object i) (vselsOfS c.q ty ms) =
      .ok ((ms.filterMap spreadId).map (memField c), [],
        (ms.filterMap aliasInl).map (fun g => aliasItem sname (fragName c g) false))
  | [], fuel, hf, _, _ => by
    obtain ⟨f, rfl⟩ : ∃ f, fuel = f + 1 := ⟨fuel - 1, by omega⟩
    rw [show vselsOfS c.q ty [] = [] from rfl, calcVariantSels.eq_2 _ _ _ _ _ (by omega)]; rfl
  | x :: rest, fuel, hf, hms, hi => by
    simp only [List.length_cons] at hf
    obtain ⟨f, rfl⟩ : ∃ f, fuel = f + 1 := ⟨fuel - 1, by omega⟩
    have hR := calcVariantSels_special sname pfx ty i hne rest f (by omega)
      (fun y hy => hms y (List.mem_cons_of_mem _ hy)) hi
    rcases hms x (List.mem_cons_self) with ⟨g, rfl, hokg⟩ | ⟨g, rfl, hokg⟩
    · obtain ⟨fr, hfr, hfon, hname, hrec⟩ := hok _ _ hokg
      have hne2 : (fr.on == ty) = false := by rw [hfon]; simpa using hne
      rw [show vselsOfS c.q ty (Sel.spread g :: rest) = .spread g fr :: vselsOfS c.q ty rest from by
        simp [vselsOfS, vselOfS, hfr, hne2, List.filterMap_cons], calcVariantSels.eq_5]
      simp only [hrec, renderField_member c fr hname, bind, Except.bind, pure, Except.pure, hR]
      simp [List.filterMap_cons, spreadId, aliasInl, memField_eq c hfr]
    · obtain ⟨fr, hfr, hfon, hname, hrec⟩ := hok _ _ hokg
      rw [show vselsOfS c.q ty (Sel.inline (.object i) [.spread g] :: rest) =
        .inline (.object i) [.spread g] :: vselsOfS c.q ty rest from rfl, calcVariantSels.eq_3]
      simp only [typeName_obj hi, getFragment_of hfr, hrec, bind, Except.bind, pure, Except.pure, hR]
      simp [List.filterMap_cons, spreadId, aliasInl, fragName, hfr]

include hok in
theorem pushedAny_special (ty : TypeId) (i : Nat) (hne : TypeId.object i ≠ ty) : ∀ (ms : List Sel),
    (∀ x ∈ ms, IsMem ok (.object i) x) →
    pushedAny c.q (.object i) (vselsOfS c.q ty ms) = !(ms.filterMap spreadId).isEmpty
  | [], _ => rfl
  | x :: rest, hms => by
    have ih := pushedAny_special ty i hne rest (fun y hy => hms y (List.mem_cons_of_mem _ hy))
    rcases hms x (List.mem_cons_self) with ⟨g, rfl, hokg⟩ | ⟨g, rfl, hokg⟩
    · obtain ⟨fr, hfr, hfon, _, _⟩ := hok _ _ hokg
      have hne2 : (fr.on == ty) = false := by rw [hfon]; simpa using hne
      rw [show vselsOfS c.q ty (Sel.spread g :: rest) = .spread g fr :: vselsOfS c.q ty rest from by
        simp [vselsOfS, vselOfS, hfr, hne2, List.filterMap_cons]]
      simp [pushedAny, List.filterMap_cons, spreadId]
    · rw [show vselsOfS c.q ty (Sel.inline (.object i) [.spread g] :: rest) =
        .inline (.object i) [.spread g] :: vselsOfS c.q ty rest from rfl]
      simp [pushedAny, ih, List.filterMap_cons, spreadId]

include hok in
/-- every aliased fragment is one more flattened member -/
theorem aliasMembers_special (sname : String) (vt : TypeId) : ∀ (gs : List Nat), (∀ g ∈ gs, ok vt g = true) →
    (gs.map (fun g => aliasItem sname (fragName c g) false)).mapM (aliasMember c) = .ok (gs.map (fun g => [memField c g]))
  | [], _ => rfl
  | g :: gs, h => by
    have ih := aliasMembers_special sname vt gs (fun g' hg' => h g' (List.mem_cons_of_mem _ hg'))
    obtain ⟨fr, hfr, _, hname, _⟩ := hok _ _ (h g (List.mem_cons_self))
    have hn : fragName c g = fr.name := by simp [fragName, hfr]
    rw [List.map_cons, List.mapM_cons, ih, hn]
    simp only [aliasItem, Bool.false_eq_true, ↓reduceIte, aliasMember, renderField_member c fr hname, bind,
      Except.bind, pure, Except.pure, Option.toList, List.map_cons, memField_eq c hfr]

theorem flatten_map_singleton {α β : Type} (f : α → β) (l : List α) : (l.map (fun a => [f a])).flatten = l.map f := by
  induction l with
  | nil => rfl
  | cons a l ih => simp [ih]

theorem variantHeadA_nil {c : Ctx} {pfx : String} {vt : TypeId} {sub : List Sel} (h : memFrags c.q vt sub = []) :
    variantHeadA c pfx vt sub = [] := by
  unfold variantHeadA; rw [h]

theorem variantHeadA_alias {c : Ctx} {pfx : String} {vt : TypeId} {sub : List Sel} {g : Nat}
    (h : memFrags c.q vt sub = [g]) :
    variantHeadA c pfx vt sub = [aliasItem (pfx ++ "On" ++ objName c.s vt) (fragName c g) false] := by
  unfold variantHeadA; rw [h]

theorem variantHeadA_struct {c : Ctx} {pfx : String} {vt : TypeId} {sub : List Sel}
    (h : 2 ≤ (memFrags c.q vt sub).length) :
    variantHeadA c pfx vt sub =
      [.struct (pfx ++ "On" ++ objName c.s vt) c.respDerives c.serdeCrate ((memFrags c.q vt sub).map (memField c))] := by
  unfold variantHeadA
  match hm : memFrags c.q vt sub, h with
  | a :: b :: gs, _ => rfl

include hok in
/-- the per-variant loop: unit variants, type aliases, structs of flattened members -/
theorem calcVariants_special (name pfx : String) (ty : TypeId) (sub : List Sel) (hty : absHyp c.s ty)
    (h : SpecialAbs ok c.s c.q c.o ty sub) : ∀ (vts : List TypeId) (fuel : Nat), vts.length + sub.length + 3 ≤ fuel →
    (∀ t ∈ vts, t ∈ vtsOfTy c.s ty) →
    calcVariants c fuel name pfx (vselsOfS c.q ty sub) vts =
      .ok (vts.map (variantOf c pfx (marks c.q sub)), vts.flatMap (fun vt => variantHeadA c pfx vt sub))
  | [], fuel, hf, _ => by
    obtain ⟨f, rfl⟩ : ∃ f, fuel = f + 1 := ⟨fuel - 1, by omega⟩
    rw [calcVariants.eq_2 _ _ _ _ _ (by omega)]; rfl
  | vt :: rest, fuel, hf, hsub => by
    simp only [List.length_cons] at hf
    obtain ⟨f, rfl⟩ : ∃ f, fuel = f + 1 := ⟨fuel - 1, by omega⟩
    have hrest := calcVariants_special name pfx ty sub hty h rest f (by omega)
      (fun t ht => hsub t (List.mem_cons_of_mem _ ht))
    have hvt := hsub vt (List.mem_cons_self)
    obtain ⟨i, rfl, hi⟩ := h.obj vt hvt
    have hvne : TypeId.object i ≠ ty := obj_ne_abs hty i
    rw [calcVariants.eq_3]
    simp only [typeName_obj hi, bind, Except.bind, filter_vselsOfS c.q ty _ hvne]
    have hvo : variantOf c pfx (marks c.q sub) (.object i) =
        if (mineOf c.q (.object i) sub).isEmpty then { name := objName c.s (.object i) }
        else { name := objName c.s (.object i), payload := some (.path (pfx ++ "On" ++ objName c.s (.object i))) } := by
      unfold variantOf; rw [marks_contains]; cases (mineOf c.q (.object i) sub).isEmpty <;> rfl
    rw [List.map_cons, List.flatMap_cons, hvo]
    have hmine := h.mine hok hvt
    have hmlen : (mineOf c.q (.object i) sub).length ≤ sub.length := List.length_filter_le _ _
    have hmf : memFrags c.q (.object i) sub =
        (mineOf c.q (.object i) sub).filterMap spreadId ++ (mineOf c.q (.object i) sub).filterMap aliasInl := rfl
    have hlen := length_members _ hmine
    have hsels := calcVariantSels_special c ok hok (pfx ++ "On" ++ objName c.s (.object i)) pfx ty i hvne
      (mineOf c.q (.object i) sub) f (by omega) hmine hi
    have hpush := pushedAny_special c ok hok ty i hvne (mineOf c.q (.object i) sub) hmine
    have hals := aliasMembers_special c ok hok (pfx ++ "On" ++ objName c.s (.object i)) (.object i)
      ((mineOf c.q (.object i) sub).filterMap aliasInl)
      (fun g' hg' => (mem_members hmine (List.mem_append_right _ hg')).1)
    revert hmf hlen hsels hpush hals hmine
    cases hm : mineOf c.q (.object i) sub with
    | nil =>
      intro hmine hmf _ _ _ _
      simp only [show vselsOfS c.q ty [] = [] from rfl, hrest, pure, Except.pure]
      simp [variantHeadA_nil hmf]
    | cons x rest' =>
      intro hmine hmf hlen hsels hpush hals
      cases rest' with
      | nil =>
        rcases hmine x (List.mem_cons_self) with ⟨g, rfl, hokg⟩ | ⟨g, rfl, hokg⟩
        · obtain ⟨fr, hfr, hfon, _, hrec⟩ := hok _ _ hokg
          have hne2 : (fr.on == ty) = false := by rw [hfon]; simpa using hvne
          have hv : vselsOfS c.q ty [Sel.spread g] = [.spread g fr] := by simp [vselsOfS, vselOfS, hfr, hne2]
          have hmf' : memFrags c.q (.object i) sub = [g] := by rw [hmf]; simp [List.filterMap_cons, spreadId, aliasInl]
          simp only [hv, hrest, pure, Except.pure, hrec]
          simp [variantHeadA_alias hmf', fragName, hfr]
        · have hv : vselsOfS c.q ty [Sel.inline (.object i) [Sel.spread g]] = [.inline (.object i) [.spread g]] := rfl
          have hmf' : memFrags c.q (.object i) sub = [g] := by rw [hmf]; simp [List.filterMap_cons, spreadId, aliasInl]
          rw [hv] at hsels hpush
          simp only [hv, hsels, hpush, hrest, pure, Except.pure]
          simp [List.filterMap_cons, spreadId, aliasInl, variantHeadA_alias hmf']
      | cons y rest'' =>
        have hl2 : 2 ≤ (memFrags c.q (.object i) sub).length := by rw [hmf, hlen]; simp
        obtain ⟨v1, v2, vs, hv⟩ : ∃ v1 v2 vs, vselsOfS c.q ty (x :: y :: rest'') = v1 :: v2 :: vs := by
          have h1 : ∀ z, IsMem ok (.object i) z → ∀ l, ∃ v, vselsOfS c.q ty (z :: l) = v :: vselsOfS c.q ty l := by
            intro z hz l
            rcases hz with ⟨g', rfl, hokg'⟩ | ⟨g', rfl, hokg'⟩
            · obtain ⟨fr', hfr', hfon', _, _⟩ := hok _ _ hokg'
              have hne3 : (fr'.on == ty) = false := by rw [hfon']; simpa using hvne
              exact ⟨.spread g' fr', by simp [vselsOfS, vselOfS, hfr', hne3, List.filterMap_cons]⟩
            · exact ⟨.inline (.object i) [.spread g'], rfl⟩
          obtain ⟨v1, e1⟩ := h1 x (hmine x (by simp)) (y :: rest'')
          obtain ⟨v2, e2⟩ := h1 y (hmine y (by simp)) rest''
          exact ⟨v1, v2, _, by rw [e1, e2]⟩
        rw [hv] at hsels hpush
        simp only [hv, hsels, hpush]
        cases hd : (List.filterMap spreadId (x :: y :: rest'')).isEmpty with
        | false =>
          simp only [Bool.not_false, hals, pure, Except.pure, hrest]
          rw [flatten_map_singleton, ← List.map_append, ← hmf, variantHeadA_struct hl2]
          simp [renderType]
        | true =>
          have hdn : List.filterMap spreadId (x :: y :: rest'') = [] := by simpa using hd
          rw [hdn, List.nil_append] at hlen
          revert hals hlen
          cases hal : List.filterMap aliasInl (x :: y :: rest'') with
          | nil => intro hlen _; simp at hlen
          | cons g0 gs0 =>
            cases gs0 with
            | nil => intro hlen _; simp at hlen
            | cons g1 gs1 =>
              intro hlen hals
              simp only [Bool.not_true, List.map_cons, pure, Except.pure, hrest]
              simp only [List.map_cons] at hals
              simp only [hals, pure, Except.pure]
              rw [variantHeadA_struct hl2, hmf, hdn, hal]
              simp [renderType, flatten_map_singleton]

include hok in
/-- **the items of an abstract position of the new kind** -/
theorem calcSelection_special (name pfx : String) (ty : TypeId) (sub : List Sel) (hty : absHyp c.s ty)
    (h : SpecialAbs ok c.s c.q c.o ty sub) (fuel : Nat) (hf : (vtsOfTy c.s ty).length + sub.length + 5 ≤ fuel) :
    calcSelection c fuel name pfx ty sub = .ok (absItemsA c name pfx ty sub) := by
  obtain ⟨f, rfl⟩ : ∃ f, fuel = f + 1 := ⟨fuel - 1, by omega⟩
  have hns : ∀ g, sub = [Sel.spread g] → False := by
    intro g hg
    have := h.tn
    subst hg
    simp [isTypename] at this
  rw [calcSelection.eq_3 _ _ _ _ _ _ hns]
  have hv : variantsOf c.s ty = .ok (some (vtsOfTy c.s ty)) := by
    apply variantsOf_abs
    cases ty <;> simp only [absHyp] at hty ⊢ <;> first | trivial | exact hty
  have hsp : ∀ g, Sel.spread g ∈ sub → ∃ fr, c.q.fragments[g]? = some fr ∧ fr.on ≠ ty :=
    fun g hg => h.spread hok hty hg
  have hfm := filterMapM_variantSelS c.q ty sub (fun g hg => (hsp g hg).imp fun _ hx => hx.1)
  have hvar := calcVariants_special c ok hok name pfx ty sub hty h (vtsOfTy c.s ty) f (by omega) (fun _ ht => ht)
  have hnf : ∀ x ∈ sub, ∀ a fid sub', x ≠ Sel.field a fid sub' := by
    intro x hx a fid sub' heq
    have := h.sel x hx
    rw [heq] at this
    simp [absSelA] at this
  have hfields := calcFields_special c pfx ty sub f (by omega) hnf hsp
  simp only [hv, bind, Except.bind, pure, Except.pure, hfm, hvar, hfields]
  simp [absItemsA, variantsV, otherVariants]

end CalcAbs

/-! ## Theorem 1 for `NestedAbsOp` -/

section CalcA
variable (c : Ctx) (hn : c.o.normalization = .none) (N M : Nat) (ok : TypeId → Nat → Bool) (hok : OkSpec c.q ok)

def A1 (fuel : Nat) : Prop := ∀ name pfx i sels e, selsDepth sels ≤ e → selsSize sels ≤ N →
  C02.Sb N M e ≤ fuel → aBody ok c.s c.q c.o (.object i) sels = true →
  calcSelection c fuel name pfx (.object i) sels = .ok (bodyItemsA c name pfx sels)
def A4 (fuel : Nat) : Prop := ∀ pfx i sels e, selsDepth sels ≤ e → selsSize sels ≤ N →
  C02.Fneed N M e sels.length ≤ fuel → aSels ok c.s c.q c.o (.object i) sels = true →
  calcFields c fuel pfx (.object i) sels = .ok (fieldsOfF c pfx sels, itemsAs c pfx sels)

include hok in
theorem stepA1 (f : Nat) (H4 : A4 c N M ok f) : A1 c N M ok (f + 1) := by
  intro name pfx i sels e hD hS hF ht
  by_cases hsp : ∃ g, sels = [Sel.spread g]
  · obtain ⟨g, rfl⟩ := hsp
    rw [calcSelection.eq_2]
    have hokg : ok (.object i) g = true := ht
    obtain ⟨fr, hfr, _, _, hrec⟩ := hok _ _ hokg
    simp only [getFragment_of hfr, bind, Except.bind, pure, Except.pure, hrec]
    simp [bodyItemsA, fragName, hfr]
  · have hsp' : ∀ g, sels ≠ [Sel.spread g] := fun g hg => hsp ⟨g, hg⟩
    rw [calcSelection.eq_3 _ _ _ _ _ _ (fun g hg => hsp ⟨g, hg⟩)]
    rw [aBody_not_lone hsp'] at ht
    have hv : variantsOf c.s (.object i) = .ok none := rfl
    have hL := C02.length_le_selsSize sels
    have hfields := H4 pfx i sels e hD hS (by
      cases e with
      | zero => simp only [C02.Fneed]; unfold C02.Sb at hF; omega
      | succ e' => simp only [C02.Fneed]; rw [C02.Sb_succ] at hF; omega) ht
    simp only [hv, bind, Except.bind, pure, Except.pure, hfields]
    rw [bodyItemsA_not_lone c name pfx hsp']
    simp [renderType]

theorem itemsA_old (pfx : String) (a : Option String) (fid : Nat) (sub : List Sel) (sf : StoredField)
    (hsf : c.s.fields[fid]? = some sf) (hno : ∀ i, sf.ty.id ≠ .object i)
    (hs : sSel c.s c.q c.o false (.field a fid sub) = true) :
    itemsA c pfx (.field a fid sub) = itemsS c pfx (.field a fid sub) := by
  rw [itemsA]
  simp only [hsf]
  cases hid : sf.ty.id with
  | object i => exact absurd hid (hno i)
  | scalar k => simp [hs]
  | «enum» k => simp [hs]
  | interface k => simp [hs]
  | union k => simp [hs]
  | input k => simp [hs]

theorem itemsA_new (pfx : String) (a : Option String) (fid : Nat) (sub : List Sel) (sf : StoredField)
    (hsf : c.s.fields[fid]? = some sf) (hno : ∀ i, sf.ty.id ≠ .object i)
    (hs : sSel c.s c.q c.o false (.field a fid sub) = false) :
    itemsA c pfx (.field a fid sub) =
      absItemsA c (pfx ++ c.cs.camel (a.getD sf.name)) (pfx ++ c.cs.camel (a.getD sf.name)) sf.ty.id sub := by
  rw [itemsA]
  simp only [hsf]
  cases hid : sf.ty.id with
  | object i => exact absurd hid (hno i)
  | scalar k => simp [hs]
  | «enum» k => simp [hs]
  | interface k => simp [hs]
  | union k => simp [hs]
  | input k => simp [hs]

include hn hok in
theorem stepA4 (hM : ∀ ty vts, variantsOf c.s ty = .ok (some vts) → vts.length ≤ M)
    (f : Nat) (H1 : A1 c N M ok f) (H4 : A4 c N M ok f) : A4 c N M ok (f + 1) := by
  intro pfx i sels e hD hS hF ht
  have H1a := (calc_variantspread c hn N M hM f).2.1
  cases sels with
  | nil => rw [calcFields.eq_2 _ _ _ _ (by omega)]; rfl
  | cons x rest =>
    cases e with
    | zero => have := C02.selsDepth_cons_pos x rest; omega
    | succ e =>
      obtain ⟨hx, hrest⟩ := aSels_cons ht
      rw [selsDepth.eq_2] at hD
      rw [selsSize.eq_2] at hS
      simp only [C02.Fneed, List.length_cons] at hF
      have hR := H4 pfx i rest (e + 1) (by omega) (by omega) (by simp only [C02.Fneed]; omega) hrest
      rw [fieldsOfF_cons, itemsAs]
      cases x with
      | field a fid sub =>
        rw [selDepth.eq_1] at hD
        rw [selSize.eq_1] at hS
        obtain ⟨sf, hsf⟩ := aSel_field_some hx
        by_cases hobj : ∃ j, sf.ty.id = .object j
        · rw [calcFields.eq_3]
          simp only [getField_of hsf, bind, Except.bind]
          obtain ⟨j, hid⟩ := hobj
          obtain ⟨hw, hdep', _, hbody⟩ := aSel_obj hsf hid hx
          have hS' := H1 (pfx ++ c.cs.camel (a.getD sf.name)) (pfx ++ c.cs.camel (a.getD sf.name)) j sub e
            (by omega) (by omega) (by omega) hbody
          simp only [hid, renderField_tree c _ _ _ _ hw hdep', hS', hR, pure, Except.pure]
          have hitems : itemsA c pfx (.field a fid sub) =
              bodyItemsA c (pfx ++ c.cs.camel (a.getD sf.name)) (pfx ++ c.cs.camel (a.getD sf.name)) sub := by
            rw [itemsA]; simp only [hsf, hid]; rfl
          rw [hitems]
          simp [fieldOfSelF, fieldOfSelV, hsf, hid, leafNameV]
        · have hno : ∀ j, sf.ty.id ≠ .object j := fun j h => hobj ⟨j, h⟩
          rcases aSel_nonobj hsf hno hx with hs | ⟨hs, hnew⟩
          · -- a field of `VariantSpreadOp`
            rw [calcFields.eq_3]
            simp only [getField_of hsf, bind, Except.bind]
            rw [itemsA_old c pfx a fid sub sf hsf hno hs]
            rw [sSel] at hs
            simp only [hsf, Bool.and_eq_true] at hs
            obtain ⟨⟨hw, hdep⟩, hty⟩ := hs
            have hdep' : (sf.deprecation.isSome && c.o.deprecation == .deny) = false := by
              cases hd : (sf.deprecation.isSome && c.o.deprecation == .deny) with
              | false => rfl
              | true => simp [hd] at hdep
            cases hid : sf.ty.id with
            | object j => exact absurd hid (hno j)
            | scalar k =>
              simp only [hid, Bool.and_eq_true] at hty
              cases hk : c.s.scalars[k]? with
              | none => simp [hk] at hty
              | some sn =>
                simp only [getScalar_of hk, hn, C02.fieldType_none, renderField_tree c _ _ _ _ hw hdep', hR,
                  pure, Except.pure]
                simp [itemsS, fieldOfSelF, fieldOfSelV, hsf, hid, leafNameV, hk]
            | «enum» k =>
              simp only [hid, Bool.and_eq_true] at hty
              cases hk : c.s.enums[k]? with
              | none => simp [hk] at hty
              | some en =>
                simp only [getEnum_of hk, hn, C02.fieldType_none, renderField_tree c _ _ _ _ hw hdep', hR,
                  pure, Except.pure]
                simp [itemsS, fieldOfSelF, fieldOfSelV, hsf, hid, leafNameV, hk]
            | interface k =>
              simp only [hid, Bool.and_eq_true] at hty
              have hS' := H1a (pfx ++ c.cs.camel (a.getD sf.name)) (pfx ++ c.cs.camel (a.getD sf.name)) (.interface k) sub e
                (by omega) (by omega) (by omega) hty.1.1 hty.1.2 hty.2
              simp only [renderField_tree c _ _ _ _ hw hdep', hS', hR, pure, Except.pure]
              simp [itemsS, fieldOfSelF, fieldOfSelV, hsf, hid, leafNameV, absItemsS, absItemsL]
            | union k =>
              simp only [hid, Bool.and_eq_true] at hty
              have hS' := H1a (pfx ++ c.cs.camel (a.getD sf.name)) (pfx ++ c.cs.camel (a.getD sf.name)) (.union k) sub e
                (by omega) (by omega) (by omega) hty.1.1 hty.1.2 hty.2
              simp only [renderField_tree c _ _ _ _ hw hdep', hS', hR, pure, Except.pure]
              simp [itemsS, fieldOfSelF, fieldOfSelV, hsf, hid, leafNameV, absItemsS, absItemsL]
            | input k => simp [hid] at hty
          · -- a field of abstract type of the new kind
            rw [calcFields.eq_3]
            simp only [getField_of hsf, bind, Except.bind]
            rw [itemsA_new c pfx a fid sub sf hsf hno hs]
            obtain ⟨hw, hdep', hty, hsubA⟩ := absFieldA_parts hnew
            have hsp := absSubA_parts hsubA
            have hvl : (vtsOfTy c.s sf.ty.id).length ≤ M := by
              apply hM sf.ty.id
              apply variantsOf_abs
              revert hty
              cases sf.ty.id <;> simp only [absHyp] <;> intro hty <;> first | trivial | exact hty
            have hsubpos : 1 ≤ selsDepth sub := by
              have := hsp.tn
              cases sub with
              | nil => simp at this
              | cons y ys => exact C02.selsDepth_cons_pos y ys
            have hL := C02.length_le_selsSize sub
            have hfuel : (vtsOfTy c.s sf.ty.id).length + sub.length + 5 ≤ f := by
              obtain ⟨e', rfl⟩ : ∃ e', e = e' + 1 := ⟨e - 1, by omega⟩
              rw [C02.Sb_succ] at hF
              unfold C02.Sb at hF
              omega
            have hS' := calcSelection_special c ok hok (pfx ++ c.cs.camel (a.getD sf.name))
              (pfx ++ c.cs.camel (a.getD sf.name)) sf.ty.id sub hty hsp f hfuel
            cases hid : sf.ty.id with
            | object j => exact absurd hid (hno j)
            | scalar k => rw [hid] at hty; exact absurd hty (by simp [absHyp])
            | «enum» k => rw [hid] at hty; exact absurd hty (by simp [absHyp])
            | input k => rw [hid] at hty; exact absurd hty (by simp [absHyp])
            | interface k =>
              rw [hid] at hS'
              simp only [renderField_tree c _ _ _ _ hw hdep', hS', hR, pure, Except.pure]
              simp [fieldOfSelF, fieldOfSelV, hsf, hid, leafNameV]
            | union k =>
              rw [hid] at hS'
              simp only [renderField_tree c _ _ _ _ hw hdep', hS', hR, pure, Except.pure]
              simp [fieldOfSelF, fieldOfSelV, hsf, hid, leafNameV]
      | spread g =>
        rw [calcFields.eq_4]
        have hokg : ok (.object i) g = true := by simpa [aSel] using hx
        obtain ⟨fr, hfr, hon, hname, hrec⟩ := hok _ _ hokg
        have hne : (fr.on != TypeId.object i) = false := by simp [hon]
        simp only [getFragment_of hfr, bind, Except.bind, hR, hne, Bool.false_eq_true, ↓reduceIte,
          hrec, renderField_spread c fr hname, pure, Except.pure]
        simp [fieldOfSelF, hfr, itemsA]
      | inline t sub => simp [aSel] at hx
      | typename =>
        rw [calcFields.eq_5 _ _ _ _ _ _ (by simp) (by simp), hR]
        simp [fieldOfSelF, fieldOfSelV, itemsA]


include hn hok in
theorem calc_nestedabs (hM : ∀ ty vts, variantsOf c.s ty = .ok (some vts) → vts.length ≤ M) :
    ∀ fuel, A1 c N M ok fuel ∧ A4 c N M ok fuel := by
  intro fuel
  induction fuel with
  | zero =>
    refine ⟨?_, ?_⟩
    · intro _ _ _ _ e _ _ h; unfold C02.Sb at h; omega
    · intro _ _ sels e _ _ h; have := C02.Fneed_pos N M e sels.length; omega
  | succ f ih => exact ⟨stepA1 c N M ok hok f ih.2, stepA4 c hn N M ok hok hM f ih.1 ih.2⟩

end CalcA

theorem nestedAbsOp_parts {c : Ctx} {op : ROperation} (h : NestedAbsOp c op = true) :
    c.o.normalization = .none ∧ (c.s.objects[op.objectId]?).isSome = true ∧
      aBody (fragOkN c.s c.q c.o c.q.fragments.length) c.s c.q c.o (.object op.objectId) op.sels = true := by
  simp only [NestedAbsOp, Bool.and_eq_true, beq_iff_eq] at h
  exact ⟨h.1.1, h.1.2, h.2⟩

/-- the items of an object-level selection set of the class (any rank), anywhere in the document -/
theorem bodyA_items_shape (c : Ctx) (hn : c.o.normalization = .none) (r : Nat) (name pfx : String) (i : Nat)
    (sels : List Sel) (hD : selsDepth sels ≤ C02.maxDepth c.q) (hS : selsSize sels ≤ C02.totalSize c.q)
    (ht : aBody (fragOkN c.s c.q c.o r) c.s c.q c.o (.object i) sels = true) :
    calcSelection c (calcFuel c.s c.q) name pfx (.object i) sels = .ok (bodyItemsA c name pfx sels) :=
  (calc_nestedabs c hn (C02.totalSize c.q) (c.s.objects.length + C02.maxUnion c.s) _ (fragOkN_spec c.s c.q c.o r)
    (C02.variants_length_le c.s) (calcFuel c.s c.q)).1 name pfx i sels (C02.maxDepth c.q) hD hS (calcFuel_Sb c) ht

/-- **Theorem 1 (`nestedabs_items_shape`).**  For an operation of the class `NestedAbsOp` the response items are, in closed
    form, `bodyItemsA`: those of `nested_items_shape`, and at a field of abstract type of the new kind the tagged enum and,
    per selected possible type `T`, the type alias `…On<T> = F` of the (nested) fragment's struct. -/
theorem nestedabs_items_shape (c : Ctx) (op : ROperation) (hop : op ∈ c.q.operations) (ht : NestedAbsOp c op = true) :
    responseItems c op = .ok (bodyItemsA c "ResponseData" (c.cs.camel op.name) op.sels) := by
  obtain ⟨hn, _, hsels⟩ := nestedAbsOp_parts ht
  apply bodyA_items_shape c hn _ _ _ _ _ (C02.op_depth_le c.q op hop) _ hsels
  apply C02.le_foldl_add
  left
  simp only [List.mem_append, List.mem_map]
  exact .inr ⟨op, hop, rfl⟩

/-! ## `NestedOp ⊆ NestedAbsOp`; the closed form agrees -/

mutual
  theorem aSel_of_nSel {ok : TypeId → Nat → Bool} (s : Schema) (q : Query) (o : Options) : ∀ (x : Sel) (p : TypeId),
      nSel ok s q o p x = true → aSel ok s q o p x = true
    | .field a fid sub, p => by
      intro h
      have IH := aSels_of_nSels (ok := ok) s q o sub
      obtain ⟨sf, hsf⟩ := nSel_field_some h
      by_cases hobj : ∃ i, sf.ty.id = .object i
      · obtain ⟨i, hid⟩ := hobj
        obtain ⟨hw, hdep, ho, hb⟩ := nSel_obj hsf hid h
        rw [aSel]
        simp only [hsf, hid, hw, hdep, ho, Bool.not_false, Bool.and_self, Bool.true_and]
        by_cases hsp : ∃ g, sub = [Sel.spread g]
        · obtain ⟨g, rfl⟩ := hsp; exact hb
        · have hnl : ∀ g, sub ≠ [Sel.spread g] := fun g hg => hsp ⟨g, hg⟩
          rw [nBody_not_lone hnl] at hb
          split
          · exact absurd rfl (hnl _)
          · exact IH _ hb
      · have hno : ∀ i, sf.ty.id ≠ .object i := fun i h => hobj ⟨i, h⟩
        have hs := nSel_nonobj hsf hno h
        rw [aSel]
        simp only [hsf]
        cases hid : sf.ty.id with
        | object i => exact absurd hid (hno i)
        | scalar k => simp [hs]
        | «enum» k => simp [hs]
        | interface k => simp [hs]
        | union k => simp [hs]
        | input k => simp [hs]
    | .spread g, p => by intro h; rw [nSel] at h; rw [aSel]; exact h
    | .inline _ _, _ => by intro h; simp [nSel] at h
    | .typename, _ => by intro _; simp [aSel]
  theorem aSels_of_nSels {ok : TypeId → Nat → Bool} (s : Schema) (q : Query) (o : Options) : ∀ (sels : List Sel) (p : TypeId),
      nSels ok s q o p sels = true → aSels ok s q o p sels = true
    | [], _ => by intro _; rfl
    | x :: xs, p => by
      intro h
      obtain ⟨hx, hxs⟩ := nSels_cons h
      rw [aSels, aSel_of_nSel s q o x p hx, aSels_of_nSels s q o xs p hxs]; rfl
end

theorem aBody_of_nBody {ok : TypeId → Nat → Bool} {s : Schema} {q : Query} {o : Options} {p : TypeId} {sels : List Sel}
    (h : nBody ok s q o p sels = true) : aBody ok s q o p sels = true := by
  by_cases hsp : ∃ g, sels = [Sel.spread g]
  · obtain ⟨g, rfl⟩ := hsp; exact h
  · have hnl : ∀ g, sels ≠ [Sel.spread g] := fun g hg => hsp ⟨g, hg⟩
    rw [nBody_not_lone hnl] at h
    rw [aBody_not_lone hnl]
    exact aSels_of_nSels s q o sels p h

/-- **`NestedOp ⊆ NestedAbsOp`** -/
theorem nestedAbsOp_of_nestedOp (c : Ctx) (op : ROperation) (h : NestedOp c op = true) : NestedAbsOp c op = true := by
  obtain ⟨hn, ho, hb⟩ := nestedOp_parts h
  simp only [NestedAbsOp, Bool.and_eq_true, beq_iff_eq]
  exact ⟨⟨hn, ho⟩, aBody_of_nBody hb⟩

mutual
  theorem itemsA_eq_M {ok : TypeId → Nat → Bool} (c : Ctx) : ∀ (x : Sel) (p : TypeId) (pfx : String),
      nSel ok c.s c.q c.o p x = true → itemsA c pfx x = itemsM c pfx x
    | .field a fid sub, p, pfx => by
      intro h
      have IH := itemsAs_eq_M (ok := ok) c sub
      obtain ⟨sf, hsf⟩ := nSel_field_some h
      by_cases hobj : ∃ i, sf.ty.id = .object i
      · obtain ⟨i, hid⟩ := hobj
        obtain ⟨_, _, _, hb⟩ := nSel_obj hsf hid h
        rw [itemsA, itemsM]
        simp only [hsf, hid]
        by_cases hsp : ∃ g, sub = [Sel.spread g]
        · obtain ⟨g, rfl⟩ := hsp; rfl
        · have hnl : ∀ g, sub ≠ [Sel.spread g] := fun g hg => hsp ⟨g, hg⟩
          rw [nBody_not_lone hnl] at hb
          have e1 := IH (.object i) (pfx ++ c.cs.camel (a.getD sf.name)) hb
          split
          · exact absurd rfl (hnl _)
          · split
            · exact absurd rfl (hnl _)
            · rw [e1]
      · have hno : ∀ i, sf.ty.id ≠ .object i := fun i h => hobj ⟨i, h⟩
        rw [itemsA_old c pfx a fid sub sf hsf hno (nSel_nonobj hsf hno h), itemsM_nonobj c pfx a fid sub sf hsf hno]
    | .spread g, _, _ => by intro _; simp [itemsA, itemsM]
    | .inline _ _, _, _ => by intro _; simp [itemsA, itemsM]
    | .typename, _, _ => by intro _; simp [itemsA, itemsM]
  theorem itemsAs_eq_M {ok : TypeId → Nat → Bool} (c : Ctx) : ∀ (sels : List Sel) (p : TypeId) (pfx : String),
      nSels ok c.s c.q c.o p sels = true → itemsAs c pfx sels = itemsMs c pfx sels
    | [], _, _ => by intro _; rfl
    | x :: xs, p, pfx => by
      intro h
      obtain ⟨hx, hxs⟩ := nSels_cons h
      rw [itemsAs, itemsMs, itemsA_eq_M c x p pfx hx, itemsAs_eq_M c xs p pfx hxs]
end

/-- on `NestedOp` the closed form is the one of `nested_items_shape` -/
theorem bodyItemsA_eq_M (c : Ctx) (op : ROperation) (h : NestedOp c op = true) (name pfx : String) :
    bodyItemsA c name pfx op.sels = bodyItemsM c name pfx op.sels := by
  obtain ⟨_, _, hb⟩ := nestedOp_parts h
  by_cases hsp : ∃ g, op.sels = [Sel.spread g]
  · obtain ⟨g, hg⟩ := hsp; rw [hg]; rfl
  · have hnl : ∀ g, op.sels ≠ [Sel.spread g] := fun g hg => hsp ⟨g, hg⟩
    rw [nBody_not_lone hnl] at hb
    rw [bodyItemsA_not_lone c name pfx hnl, bodyItemsM_not_lone c name pfx hnl, itemsAs_eq_M c op.sels _ pfx hb]

end C01NA
end GqlVerif
