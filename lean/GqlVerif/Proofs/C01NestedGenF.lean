import GqlVerif.Proofs.C01NestedGenE
/-!
# C01 end to end (`NestedGenOp`), part F: the specification side; `nestedgen_accepts`

The specification is the one of `NestedOp`: `C01N.conformsOpN c op j` — `conformsV` on the root selection set with every
spread expanded, recursively (`exN`); it does not depend on the class.

* `aPays` — the fragments selected at abstract positions of the new kind; `absTagOk` (decidable): none of them reads the key
  `__typename` (the tagged enum consumes that entry: the payload is read from the other entries);
* `wholeN_irr` — entries whose key the fragment struct does not read do not matter (pure form of `FragAcc.irr` for `wholeN`);
* `slTagG`, `slFieldA` / `slOwnA`, `conformsOpA_loose` — conforming ⇒ accepted;
* **`nestedgen_accepts`** — every conforming response is accepted by the emitted `ResponseData`.
-/
set_option linter.unusedSimpArgs false
set_option linter.unusedVariables false
set_option linter.unusedSectionVars false
set_option linter.unnecessarySimpa false

namespace GqlVerif
namespace C01NG
open Serde Spec C13 C03 Codegen C01 C01.E2E C01M C01N C01NA

/-- the keys the type(s) of a position of the general kind consume before the variant payloads are read: the tag and the
    interface-level fields -/
def posKeys (s : Schema) (sub : List Sel) : List String := "__typename" :: fieldKeys s (ownSels sub)

mutual
  /-- the fragments selected at the abstract positions of the general kind, each with the keys consumed at its position -/
  def aPays (s : Schema) (q : Query) (o : Options) : Sel → List (Nat × List String)
    | .field a fid sub =>
      match s.fields[fid]? with
      | none => []
      | some sf =>
        match sf.ty.id with
        | .object _ => aPayss s q o sub
        | _ => if sSel s q o false (.field a fid sub) then []
               else (sub.filterMap selFrag).map (fun g => (g, posKeys s sub))
    | _ => []
  def aPayss (s : Schema) (q : Query) (o : Options) : List Sel → List (Nat × List String)
    | [] => []
    | x :: xs => aPays s q o x ++ aPayss s q o xs
end

/-- the entries with a key in `L` do not matter to the struct of the fragment `g` -/
def IrrL (whole : Nat → Bool → Json → Bool) (g : Nat) (L : List String) : Prop :=
  ∀ kvs, whole g true (.obj (kvs.filter (fun kv => !L.contains kv.1))) = whole g true (.obj kvs)

/-! ## conforming ⇒ accepted, parametric -/

section SLA
variable (s : Schema) (q : Query) (o : Options) (ok : TypeId → Nat → Bool) (whole : Nat → Bool → Json → Bool)
  (ex : Nat → Sel)
  (hexA : ∀ g, FragOkAny s q o g → ex g = expandSel q (.spread g))
  (hmem : ∀ i g, ok (.object i) g = true → ∀ kvs, (∀ k, countKey k kvs ≤ 1) → confSelV s i (ex g) kvs = true →
    whole g true (.obj kvs) = true)
  (hali : ∀ i g, ok (.object i) g = true → ∀ b j, conformsV s i [ex g] j = true → whole g b j = true)
  (hokS : OkSpec q ok)

omit hexA hmem hali hokS in
/-- the interface-level fields of a conforming response object are accepted -/
theorem slLeafs (b : Bool) (rt : Nat) (kvs : List (String × Json)) (hc : ∀ k, countKey k kvs ≤ 1) : ∀ (sub : List Sel),
    (∀ x ∈ sub, leafSel s q o x = true) → confSelsV s rt (expandSelsW ex sub) kvs = true →
    looseSelsS s q o b (ownSels sub) kvs = true
  | [], _, _ => by simp [ownSels, looseSelsS]
  | x :: xs, hl, h => by
    rw [expandSelsW, confSelsV, Bool.and_eq_true] at h
    have ih := slLeafs b rt kvs hc xs (fun y hy => hl y (List.mem_cons_of_mem _ hy)) h.2
    cases x with
    | field a fid sub' =>
      have hlf := hl _ (List.mem_cons_self)
      obtain ⟨sf, hsf, _, _, hnil, _⟩ := leafSel_field hlf
      subst hnil
      have hcx := h.1
      rw [expandSelW, confSelV_field] at hcx
      rw [ownSels_cons_field, looseSelsS.eq_2, ih, Bool.and_true]
      simp only [hsf] at hcx ⊢
      cases hl' : Json.lookup (a.getD sf.name) kvs with
      | none => simp [hl'] at hcx
      | some v =>
        simp only [hl'] at hcx ⊢
        have hs : sSel s q o true (.field a fid []) = true := by
          simp only [leafSel, Bool.and_eq_true] at hlf
          exact hlf.1
        have := slFieldS s q o (.field a fid []) true b v hs (by simpa [expandSel, expandSels, expandSelsW] using hcx)
        simp [hc, this]
    | spread g => rw [ownSels_cons_other rfl]; exact ih
    | inline t sub' => rw [ownSels_cons_other rfl]; exact ih
    | typename => rw [ownSels_cons_other rfl]; exact ih

include hmem hokS in
/-- a response object conforming at an abstract position of the general kind (spreads expanded) is accepted by the emitted
    type(s): the interface-level fields by the struct, the rest by the tagged enum -/
theorem slTagG (ty : TypeId) (sub : List Sel) (hty : absHyp s ty) (hsg : SpecialGen ok s q o ty sub)
    (hirr : ∀ g ∈ sub.filterMap selFrag, ∀ i, ok (.object i) g = true → IrrL whole g (posKeys s sub)) (b : Bool) (j : Json)
    (h : conformsAt s ty (expandSelsW ex sub) j = true) : looseTagG whole s q o b ty sub j = true := by
  have hsp := hsg.abs
  simp only [conformsAt, List.any_eq_true, List.mem_range, Bool.and_eq_true] at h
  obtain ⟨rt, hrt, happ, hc⟩ := h
  cases j with
  | obj kvs =>
    simp only [conformsV, Bool.and_eq_true] at hc
    obtain ⟨⟨hnd, _⟩, hconf⟩ := hc
    have hnd' := nodup_iff'.mp hnd
    have hcnt := countKey_le_one_of_nodup hnd'
    have htn : Sel.typename ∈ expandSelsW ex sub := by
      have := C01NA.expandSelsW_mem ex (typename_mem hsg.tn)
      simpa [expandSelW] using this
    have htag : Json.lookup "__typename" kvs = some (.str (rtName s rt)) := by
      have := confSelsV_mem hconf _ htn
      simp only [confSelV] at this
      split at this
      · rename_i n hl; rw [hl]; simp only [beq_iff_eq] at this; rw [this]
      · cases this
    have hc1 : countKey "__typename" kvs = 1 := by
      have := countKey_pos_of_lookup htag
      have := hcnt "__typename"
      omega
    have hmemv := mem_vtsOfTy happ hrt hty
    have hfind : (vtsOfTy s ty).find? (fun vt => objName s vt == rtName s rt) = some (.object rt) := by
      have hnd'' : ((vtsOfTy s ty).map (objName s)).Nodup := by
        have := hsp.nd
        unfold variantNames at this
        exact (List.nodup_append.mp this).1
      exact find_by_name s _ hnd'' _ hmemv
    -- the tag survives the interface-level fields
    have hT : "__typename" ∉ fieldKeys s (ownSels sub) := (List.nodup_cons.mp (nodup_iff'.mp hsg.nd)).1
    have hq : ∀ v : Json, (fun kv : String × Json => !(fieldKeys s (ownSels sub)).contains kv.1) ("__typename", v) = true := by
      intro v; simp [hT]
    have htagR : Json.lookup "__typename" (restG s sub kvs) = some (.str (rtName s rt)) := by
      unfold restG; rw [lookup_filter _ _ hq]; exact htag
    have hc1R : countKey "__typename" (restG s sub kvs) = 1 := by
      unfold restG; rw [countKey_filter _ _ hq]; exact hc1
    -- the payload: every selected fragment's struct accepts what the tag and the fields left
    have hP : ∀ g ∈ memFrags q (.object rt) (strip sub),
        whole g true (.obj ((restG s sub kvs).filter (·.1 != "__typename"))) = true := by
      intro g hg
      obtain ⟨hokg, hm⟩ := hsp.mem hokS hmemv hg
      have hfe : (restG s sub kvs).filter (·.1 != "__typename") =
          kvs.filter (fun kv => !(posKeys s sub).contains kv.1) := by
        unfold restG posKeys
        rw [List.filter_filter]
        congr 1
        funext kv
        by_cases hkv : kv.1 = "__typename" <;> simp [hkv, List.contains_cons, Bool.and_comm]
      rw [hfe, hirr g (selFrag_strip_mem (memFrags_mem_selFrag hg)) rt hokg kvs]
      apply hmem rt g hokg kvs hcnt
      rcases hm with hx | hx
      · have := confSelsV_mem hconf _ (C01NA.expandSelsW_mem ex (mem_strip.mp hx).1)
        simpa [expandSelW] using this
      · have := confSelsV_mem hconf _ (C01NA.expandSelsW_mem ex (mem_strip.mp hx).1)
        simpa [expandSelW, expandSelsW, confSelV, confSelsV, fragApplies] using this
    simp only [looseTagG]
    cases hown : (ownSels sub).isEmpty with
    | true =>
      have hr : restG s sub kvs = kvs := by
        have : ownSels sub = [] := by simpa using hown
        simp [restG, this, fieldKeys]
      rw [hr] at hP
      simp only [if_true]
      unfold tagOkV
      simp only [hc1, hfind, htag]
      unfold payA memSels
      exact looseMemN_spreads_of hP
    | false =>
      simp only [Bool.false_eq_true, if_false, Bool.and_eq_true]
      refine ⟨slLeafs s q o ex b rt kvs hcnt sub hsg.leaf hconf, ?_⟩
      unfold tagOkV
      simp only [hc1R, hfind, htagR]
      unfold payA memSels
      exact looseMemN_spreads_of hP
  | null => simp [conformsV] at hc
  | bool _ => simp [conformsV] at hc
  | int _ => simp [conformsV] at hc
  | num _ => simp [conformsV] at hc
  | str _ => simp [conformsV] at hc
  | arr _ => simp [conformsV] at hc

include hmem in
theorem slMemA (i : Nat) (kvs : List (String × Json)) (hc : ∀ k, countKey k kvs ≤ 1) : ∀ (sels : List Sel),
    aSels ok s q o (.object i) sels = true → confSelsV s i (expandSelsW ex sels) kvs = true →
    looseMemN whole sels kvs = true
  | [], _, _ => by simp [looseMemN]
  | x :: xs, ht, h => by
    obtain ⟨hx, hxs⟩ := aSels_cons ht
    rw [expandSelsW, confSelsV, Bool.and_eq_true] at h
    have ih := slMemA i kvs hc xs hxs h.2
    cases x with
    | spread g =>
      have hokg : ok (.object i) g = true := by simpa [aSel] using hx
      rw [looseMemN, ih, Bool.and_true]
      exact hmem i g hokg kvs hc (by simpa [expandSelW] using h.1)
    | field a fid sub => simpa [looseMemN] using ih
    | inline t sub => simpa [looseMemN] using ih
    | typename => simpa [looseMemN] using ih

include hmem hali in
theorem slBodyA_of (sels : List Sel)
    (IHown : ∀ b i kvs, aSels ok s q o (.object i) sels = true → (∀ k, countKey k kvs ≤ 1) →
      confSelsV s i (expandSelsW ex sels) kvs = true → looseOwnA whole s q o b sels kvs = true) :
    ∀ b i j, aBody ok s q o (.object i) sels = true → conformsV s i (expandSelsW ex sels) j = true →
      conformsLooseA whole s q o b sels j = true := by
  intro b i j ht hc
  by_cases hsp : ∃ g, sels = [Sel.spread g]
  · obtain ⟨g, rfl⟩ := hsp
    have hokg : ok (.object i) g = true := ht
    simp only [conformsLooseA]
    exact hali i g hokg b j (by simpa [expandSelsW, expandSelW] using hc)
  · have hnl : ∀ g, sels ≠ [Sel.spread g] := fun g hg => hsp ⟨g, hg⟩
    rw [aBody_not_lone hnl] at ht
    rw [conformsLooseA_not_lone hnl]
    cases j with
    | obj kvs =>
      simp only [conformsV, Bool.and_eq_true] at hc
      have hcnt := countKey_le_one_of_nodup (nodup_iff'.mp hc.1.1)
      simp only [IHown b i kvs ht hcnt hc.2, slMemA s q o ok whole ex hmem i kvs hcnt sels ht hc.2, Bool.and_self]
    | null => simp [conformsV] at hc
    | bool _ => simp [conformsV] at hc
    | int _ => simp [conformsV] at hc
    | num _ => simp [conformsV] at hc
    | str _ => simp [conformsV] at hc
    | arr _ => simp [conformsV] at hc

mutual
  theorem slFieldA : ∀ (x : Sel) (p : TypeId) (b : Bool) (v : Json),
      (∀ g, FragOkAny s q o g → ex g = expandSel q (.spread g)) →
      (∀ i g, ok (.object i) g = true → ∀ kvs, (∀ k, countKey k kvs ≤ 1) → confSelV s i (ex g) kvs = true →
        whole g true (.obj kvs) = true) →
      (∀ i g, ok (.object i) g = true → ∀ b j, conformsV s i [ex g] j = true → whole g b j = true) →
      OkSpec q ok → (∀ gl ∈ aPays s q o x, ∀ i, ok (.object i) gl.1 = true → IrrL whole gl.1 gl.2) →
      aSel ok s q o p x = true →
      strictFieldV s (expandSelW ex x) v = true → looseFieldA whole s q o b x v = true
    | .field a fid sub, p, b, v => by
      intro hexA hmem hali hokS hirr ht h
      have IH := slOwnA sub
      obtain ⟨sf, hsf⟩ := aSel_field_some ht
      by_cases hobj : ∃ i, sf.ty.id = .object i
      · obtain ⟨i, hid⟩ := hobj
        obtain ⟨_, _, hobjs, hbody⟩ := aSel_obj hsf hid ht
        simp only [expandSelW, strictFieldV] at h
        rw [looseFieldA]
        simp only [hsf, hid, Bool.and_eq_true] at h ⊢
        cases ho : s.objects[i]? with
        | none => simp [ho] at hobjs
        | some ob =>
          simp only []
          rw [looseLambdaA]
          refine (accepts_mono _ _ ?_ _).2 v h
          intro j hj
          simp only [conformsAt, List.any_eq_true, List.mem_range, Bool.and_eq_true, fragApplies, beq_iff_eq] at hj
          obtain ⟨rt, _, hrt, hc⟩ := hj
          subst hrt
          exact slBodyA_of s q o ok whole ex hmem hali sub
            (fun b' i' kvs h1 h2 h3 => IH (.object i') b' i' kvs hexA hmem hali hokS
              (fun g hg => hirr g (by rw [aPays]; simp only [hsf, hid]; exact hg)) h1 h2 h3) b i j hbody hc
      · have hno : ∀ i, sf.ty.id ≠ .object i := fun i h => hobj ⟨i, h⟩
        rcases aSel_nonobj hsf hno ht with hs | ⟨hs, hnew⟩
        · rw [looseFieldA_old hsf hno hs]
          have hexp : expandSelW ex (.field a fid sub) = expandSel q (.field a fid sub) :=
            expandSelW_congr q ex _ (fun g hg => hexA g (fragOk_of_spreadIdS s q o _ false hs g hg (by simp)))
          rw [hexp] at h
          exact slFieldS s q o _ false b v hs h
        · rw [looseFieldA_new hsf hno hs]
          obtain ⟨_, _, hty, hsubA⟩ := absFieldG_parts hnew
          have hsp := absSubG_parts hsubA
          simp only [expandSelW, strictFieldV, hsf] at h
          have hirr' : ∀ g ∈ sub.filterMap selFrag, ∀ i, ok (.object i) g = true → IrrL whole g (posKeys s sub) := by
            intro g hg0
            have hg : (g, posKeys s sub) ∈ (sub.filterMap selFrag).map (fun g => (g, posKeys s sub)) :=
              List.mem_map.mpr ⟨g, hg0, rfl⟩
            apply hirr (g, posKeys s sub)
            rw [aPays]
            simp only [hsf]
            cases hid : sf.ty.id with
            | object i => exact absurd hid (hno i)
            | scalar k => simpa only [hs, Bool.false_eq_true, if_false] using hg
            | «enum» k => simpa only [hs, Bool.false_eq_true, if_false] using hg
            | interface k => simpa only [hs, Bool.false_eq_true, if_false] using hg
            | union k => simpa only [hs, Bool.false_eq_true, if_false] using hg
            | input k => simpa only [hs, Bool.false_eq_true, if_false] using hg
          have h' : accepts (conformsAt s sf.ty.id (expandSelsW ex sub)) (gtyOf sf.ty.quals) v = true := by
            cases hid : sf.ty.id with
            | object i => exact absurd hid (hno i)
            | scalar k => rw [hid] at hty; exact absurd hty (by simp [absHyp])
            | «enum» k => rw [hid] at hty; exact absurd hty (by simp [absHyp])
            | input k => rw [hid] at hty; exact absurd hty (by simp [absHyp])
            | interface k => simp only [hid] at h; exact h
            | union k => simp only [hid] at h; exact h
          unfold looseAbsG
          refine (accepts_mono _ _ ?_ _).2 v h'
          intro j hj
          exact slTagG s q o ok whole ex hmem hokS sf.ty.id sub hty hsp hirr' b j hj
    | .spread _, _, _, _ => by intro _ _ _ _ _ _ _; simp [looseFieldA]
    | .inline _ _, _, _, _ => by intro _ _ _ _ _ ht; simp [aSel] at ht
    | .typename, _, _, _ => by intro _ _ _ _ _ _ _; simp [looseFieldA]
  theorem slOwnA : ∀ (sels : List Sel) (p : TypeId) (b : Bool) (i : Nat) (kvs : List (String × Json)),
      (∀ g, FragOkAny s q o g → ex g = expandSel q (.spread g)) →
      (∀ i g, ok (.object i) g = true → ∀ kvs, (∀ k, countKey k kvs ≤ 1) → confSelV s i (ex g) kvs = true →
        whole g true (.obj kvs) = true) →
      (∀ i g, ok (.object i) g = true → ∀ b j, conformsV s i [ex g] j = true → whole g b j = true) →
      OkSpec q ok → (∀ gl ∈ aPayss s q o sels, ∀ i, ok (.object i) gl.1 = true → IrrL whole gl.1 gl.2) →
      aSels ok s q o p sels = true → (∀ k, countKey k kvs ≤ 1) →
      confSelsV s i (expandSelsW ex sels) kvs = true → looseOwnA whole s q o b sels kvs = true
    | [], _, _, _, _, _, _, _, _, _, _, _, _ => by simp [looseOwnA]
    | x :: xs, p, b, i, kvs, hexA, hmem, hali, hokS, hirr, ht, hc, h => by
      obtain ⟨hx, hxs⟩ := aSels_cons ht
      rw [expandSelsW, confSelsV, Bool.and_eq_true] at h
      have ih := slOwnA xs p b i kvs hexA hmem hali hokS
        (fun g hg => hirr g (by rw [aPayss]; exact List.mem_append_right _ hg)) hxs hc h.2
      cases x with
      | field a fid sub =>
        have hcx := h.1
        rw [expandSelW, confSelV_field] at hcx
        rw [looseOwnA.eq_2, ih, Bool.and_true]
        cases hsf : s.fields[fid]? with
        | none => simp [hsf] at hcx
        | some sf =>
          simp only [hsf] at hcx ⊢
          cases hl : Json.lookup (a.getD sf.name) kvs with
          | none => simp [hl] at hcx
          | some v =>
            simp only [hl] at hcx ⊢
            have := slFieldA (.field a fid sub) p b v hexA hmem hali hokS
              (fun g hg => hirr g (by rw [aPayss]; exact List.mem_append_left _ hg)) hx (by rw [expandSelW]; exact hcx)
            simp [hc, this]
      | spread g => simpa [looseOwnA] using ih
      | inline t sub => simp [aSel] at hx
      | typename => simpa [looseOwnA] using ih
end

include hexA hmem hali hokS in
/-- every response conforming to the specification (on the expanded selection set) is accepted -/
theorem conformsA_loose (b : Bool) (i : Nat) (sels : List Sel) (j : Json)
    (hirr : ∀ gl ∈ aPayss s q o sels, ∀ i, ok (.object i) gl.1 = true → IrrL whole gl.1 gl.2)
    (ht : aBody ok s q o (.object i) sels = true) (h : conformsV s i (expandSelsW ex sels) j = true) :
    conformsLooseA whole s q o b sels j = true :=
  slBodyA_of s q o ok whole ex hmem hali sels
    (fun b' i' kvs h1 h2 h3 => slOwnA s q o ok whole ex sels (.object i') b' i' kvs hexA hmem hali hokS hirr h1 h2 h3) b i j ht h

end SLA


/-! ## entries with other keys do not matter to `wholeN` -/

theorem wholeN_irr (c : Ctx) (hnd : fragNamesOk c = true) : ∀ (r : Nat) (p : TypeId) (g : Nat),
    fragOkN c.s c.q c.o r p g = true → ∀ L : List String, (∀ k ∈ L, k ∉ KNn c r (fragName c g)) → ∀ b kvs,
    wholeN c r g b (.obj (kvs.filter (fun kv => !L.contains kv.1))) = wholeN c r g b (.obj kvs)
  | 0, p, g => by
    intro h L hL b kvs
    rw [fragOkN] at h
    obtain ⟨fr, hfr, hon, _, hv, _⟩ := fragOk_parts h
    have hname : fragName c g = fr.name := by simp [fragName, hfr]
    have hsels : fragSels c.q g = fr.sels := by simp [fragSels, hfr]
    have hid : idOf c.q fr.name = g := idOf_name hnd hfr
    have hKN : KNn c 0 fr.name = fieldKeys c.s fr.sels := by rw [KNn, hid, hsels]
    rw [hname, hKN] at hL
    simp only [wholeN, hsels, conformsLooseV]
    exact looseSelsV_filter c.s c.o b L kvs fr.sels (fun k hk hkL => hL k hkL hk)
  | r + 1, p, g => by
    intro h L hL b kvs
    have IH := wholeN_irr c hnd r
    by_cases hold : fragOkN c.s c.q c.o r p g = true
    · obtain ⟨fr, hfr, hon, _, _⟩ := fragOkN_spec c.s c.q c.o r p g hold
      have hfon : fragOn c.q g = p := by simp [fragOn, hfr, hon]
      have hname : fragName c g = fr.name := by simp [fragName, hfr]
      have hid : idOf c.q fr.name = g := idOf_name hnd hfr
      rw [hname, KNn, hid, hfon, if_pos hold] at hL
      have e : ∀ j, wholeN c (r + 1) g b j = wholeN c r g b j := by
        intro j; rw [wholeN, hfon, if_pos hold]
      rw [e, e]
      exact IH p g hold L (by rw [hname]; exact hL) b kvs
    · have holdf : fragOkN c.s c.q c.o r p g = false := by simpa using hold
      rw [fragOkN, holdf, Bool.false_or] at h
      obtain ⟨fr, hfr, hon, _, _, hnl, hb⟩ := fragNew_parts h
      have hfon : fragOn c.q g = p := by simp [fragOn, hfr, hon]
      have hname : fragName c g = fr.name := by simp [fragName, hfr]
      have hsels : fragSels c.q g = fr.sels := by simp [fragSels, hfr]
      have hid : idOf c.q fr.name = g := idOf_name hnd hfr
      have hKN : KNn c (r + 1) fr.name = expKeysN (KNn c r) c fr.sels := by
        rw [KNn, hid, hfon, if_neg hold, hsels]
      have hwh : ∀ b j, wholeN c (r + 1) g b j = conformsLooseN (wholeN c r) c.s c.q c.o b fr.sels j := by
        intro b j; rw [wholeN, hfon, if_neg hold, hsels]
      rw [hname, hKN] at hL
      rw [hwh, hwh, conformsLooseN_not_lone hnl, conformsLooseN_not_lone hnl]
      simp only
      rw [looseOwnN_filter _ _ _ _ _ L kvs fr.sels
          (fun k hk hkL => hL k hkL (fieldKeys_sub_expKeysN (KNn c r) c fr.sels k hk)),
        looseMemN_filter _ L kvs fr.sels (fun g' hg' => by
          have hokg' : fragOkN c.s c.q c.o r fr.on g' = true := by
            simpa [nSel] using nSels_mem hb _ hg'
          exact IH fr.on g' hokg' L
            (fun k hkL hk => hL k hkL (spreadKeys_sub_expKeysN (KNn c r) c fr.sels g' hg' k hk)) true kvs)]

/-- none of the fragments selected at an abstract position of the general kind reads the key `__typename` or the key of an
    interface-level field of that position (decidable) -/
def absTagOk (c : Ctx) (op : ROperation) : Bool :=
  (aPayss c.s c.q c.o op.sels).all (fun gl =>
    gl.2.all (fun k => !(KNn c c.q.fragments.length (fragName c gl.1)).contains k))

/-- conforming ⇒ `conformsLooseA`, at the top level -/
theorem conformsOpA_loose (c : Ctx) (op : ROperation) (ht : NestedGenOp c op = true) (hnd : fragNamesOk c = true)
    (htag : absTagOk c op = true) (b : Bool) (j : Json) (h : conformsOpN c op j = true) :
    conformsLooseA (wholeN c c.q.fragments.length) c.s c.q c.o b op.sels j = true := by
  obtain ⟨_, _, hsels⟩ := nestedGenOp_parts ht
  refine conformsA_loose c.s c.q c.o _ (wholeN c c.q.fragments.length) (exN c.q c.q.fragments.length)
    (fun g hg => exN_fragOkAny hg _)
    (fun i g hg => (specN c _ i g hg _ (Nat.le_refl _)).1)
    (fun i g hg => (specN c _ i g hg _ (Nat.le_refl _)).2) (fragOkN_spec c.s c.q c.o _) b op.objectId op.sels j ?_ hsels h
  intro gl hg i hokg kvs
  simp only [absTagOk, List.all_eq_true, Bool.not_eq_true'] at htag
  have hk := htag gl hg
  exact wholeN_irr c hnd _ (.object i) gl.1 hokg gl.2 (by
    intro k hk' hmem'
    rw [← List.contains_iff_mem] at hmem'
    rw [hk k hk'] at hmem'
    cases hmem') true kvs

/-- **`nestedgen_accepts`.**  Every conforming response is accepted by the emitted `ResponseData`. -/
theorem nestedgen_accepts (c : Ctx) (opIdx : Nat) (op : ROperation) (items : List Item)
    (hop : c.q.operations[opIdx]? = some op) (ht : NestedGenOp c op = true) (hnd : fragNamesOk c = true)
    (hk : nestedGenKeysOk c op = true) (htag : absTagOk c op = true)
    (hgen : responseForQuery c opIdx = .ok items) (hok : moduleOk c items = true)
    (j : Json) (hc : conformsOpN c op j = true) :
    ∃ v, Serde.de (moduleEnv c items) (.path "ResponseData") j = .ok v := by
  have := nestedgen_precise_iff c opIdx op items hop ht hnd hk hgen hok j
  rw [conformsOpA_loose c op ht hnd htag false j hc] at this
  exact (okB_iff _).mp this

end C01NG
end GqlVerif
