import GqlVerif.Proofs.C01NestedI
/-!
# C01 end to end (`NestedOp`), part J: on `MixedOp` everything is what `C01Mixed*` proves

* `conformsOpN_eq_M` — the specification is the one of `mixed_accepts` (`conformsOpM`);
* `conformsLooseN_eq_M` — the acceptance predicate is `conformsLooseM`;
* **`canonSelN_eq_M`** — the canonical form is `canonSelM`;
* `nestedKeysOk_of_mixed`-style transfer is not needed: the theorems of `C01Mixed*` apply to `MixedOp` directly.
-/
set_option linter.unusedSimpArgs false
set_option linter.unusedVariables false
set_option linter.unusedSectionVars false
set_option linter.unnecessarySimpa false

namespace GqlVerif
namespace C01N
open Serde Spec C13 C03 Codegen C01 C01.E2E C01M

/-- a spread-free fragment keeps its rank-`0` values at every rank -/
theorem rank0_stable (c : Ctx) {p : TypeId} {g : Nat} (h : fragOk c.s c.q c.o p g = true) : ∀ r,
    (∀ b j, wholeN c r g b j = conformsLooseV c.s c.o b (fragSels c.q g) j) ∧
    (∀ kvs, centN c r g kvs = canonEntriesV c.s c.o.skipNone (fragSels c.q g) kvs)
  | 0 => ⟨fun b j => by rw [wholeN], fun kvs => by rw [centN]⟩
  | r + 1 => by
    obtain ⟨f, hf, hon, _⟩ := fragOk_parts h
    have hfon : fragOn c.q g = p := by simp [fragOn, hf, hon]
    have hr : fragOkN c.s c.q c.o r p g = true := fragOkN_zero h
    obtain ⟨i1, i2⟩ := rank0_stable c h r
    exact ⟨fun b j => by rw [wholeN, hfon, if_pos hr, i1], fun kvs => by rw [centN, hfon, if_pos hr, i2]⟩

theorem exN_fragOk (c : Ctx) {p : TypeId} {g : Nat} (h : fragOk c.s c.q c.o p g = true) (r : Nat) :
    exN c.q r g = expandSel c.q (.spread g) := by
  obtain ⟨f, hf, _, _, hv, _⟩ := fragOk_parts h
  rw [exN_spreadfree c.q r g f hf (noSpreads_of_vSels c.s c.o f.sels false hv)]
  simp [expandSel, hf]

/-- **the specification is the one of `MixedOp`** -/
theorem conformsOpN_eq_M (c : Ctx) (op : ROperation) (h : MixedOp c op = true) (j : Json) :
    conformsOpN c op j = conformsOpM c op j := by
  obtain ⟨_, _, hb⟩ := mixedOp_parts h
  unfold conformsOpN conformsOpM
  congr 1
  apply expandSelsW_congr
  intro g hg
  by_cases hsp : ∃ g', op.sels = [Sel.spread g']
  · obtain ⟨g', hg'⟩ := hsp
    rw [hg'] at hg hb
    simp only [spreadIdss, spreadIds, List.append_nil, List.mem_singleton] at hg
    subst hg
    exact exN_fragOk c (p := .object op.objectId) hb _
  · have hnl : ∀ g', op.sels ≠ [Sel.spread g'] := fun g' hg' => hsp ⟨g', hg'⟩
    rw [mBody_not_lone hnl] at hb
    exact exN_fragOkAny (fragOk_of_spreadIdsM c.s c.q c.o op.sels _ hb g hg) _

section EqM
variable (c : Ctx) (whole : Nat → Bool → Json → Bool) (cent : Nat → List (String × Json) → List (String × Json))
  (hw : ∀ p g, fragOk c.s c.q c.o p g = true → ∀ b j, whole g b j = conformsLooseV c.s c.o b (fragSels c.q g) j)
  (hc : ∀ p g, fragOk c.s c.q c.o p g = true → ∀ kvs,
    cent g kvs = canonEntriesV c.s c.o.skipNone (fragSels c.q g) kvs)

include hw in
theorem looseMemN_eq_M (p : TypeId) : ∀ (sels : List Sel), mSels c.s c.q c.o p sels = true → ∀ kvs,
    looseMemN whole sels kvs = looseMemF c.s c.q c.o sels kvs
  | [], _, _ => rfl
  | x :: xs, ht, kvs => by
    obtain ⟨hx, hxs⟩ := mSels_cons ht
    have ih := looseMemN_eq_M p xs hxs kvs
    cases x with
    | spread g =>
      have hok : fragOk c.s c.q c.o p g = true := by simpa [mSel] using hx
      rw [looseMemN, looseMemF.eq_2, ih, hw p g hok]; rfl
    | field a fid sub => simpa [looseMemN, looseMemF] using ih
    | inline t sub => simp [mSel] at hx
    | typename => simpa [looseMemN, looseMemF] using ih

mutual
  theorem looseFieldN_eq_M : ∀ (x : Sel) (p : TypeId) (b : Bool) (v : Json),
      (∀ p g, fragOk c.s c.q c.o p g = true → ∀ b j, whole g b j = conformsLooseV c.s c.o b (fragSels c.q g) j) →
      mSel c.s c.q c.o p x = true → looseFieldN whole c.s c.q c.o b x v = looseFieldM c.s c.q c.o b x v
    | .field a fid sub, p, b, v => by
      intro hw ht
      have IH1 := looseOwnN_eq_M sub
      have IH2 := looseArrN_eq_M sub
      obtain ⟨sf, hsf⟩ := mSel_field_some ht
      rw [looseFieldN, looseFieldM]
      simp only [hsf]
      cases hid : sf.ty.id with
      | object i =>
        obtain ⟨_, _, _, hbody⟩ := mSel_obj hsf hid ht
        simp only []
        cases c.s.objects[i]? with
        | none => rfl
        | some ob =>
          simp only []
          rw [looseLambdaN, looseLambdaM]
          congr 1
          funext j
          by_cases hsp : ∃ g, sub = [Sel.spread g]
          · obtain ⟨g, rfl⟩ := hsp
            simp only [conformsLooseN, conformsLooseM]
            exact hw _ g hbody b j
          · have hnl : ∀ g, sub ≠ [Sel.spread g] := fun g hg => hsp ⟨g, hg⟩
            rw [mBody_not_lone hnl] at hbody
            rw [conformsLooseN_not_lone hnl, conformsLooseM_not_lone hnl]
            cases j with
            | obj kvs =>
              simp only [IH1 _ b kvs hw hbody, looseMemN_eq_M c whole hw _ sub hbody kvs]
            | arr xs => simp only [IH2 _ b xs hw hbody]
            | null => rfl
            | bool _ => rfl
            | int _ => rfl
            | num _ => rfl
            | str _ => rfl
      | scalar k => rfl
      | «enum» k => rfl
      | interface k => rfl
      | union k => rfl
      | input k => rfl
    | .spread g, _, _, _ => by intro _ _; simp [looseFieldN, looseFieldM]
    | .inline t sub, _, _, _ => by intro _ _; simp [looseFieldN, looseFieldM]
    | .typename, _, _, _ => by intro _ _; simp [looseFieldN, looseFieldM]
  theorem looseOwnN_eq_M : ∀ (sels : List Sel) (p : TypeId) (b : Bool) (kvs : List (String × Json)),
      (∀ p g, fragOk c.s c.q c.o p g = true → ∀ b j, whole g b j = conformsLooseV c.s c.o b (fragSels c.q g) j) →
      mSels c.s c.q c.o p sels = true → looseOwnN whole c.s c.q c.o b sels kvs = looseOwnM c.s c.q c.o b sels kvs
    | [], _, _, _ => by intro _ _; rw [looseOwnN, looseOwnM]
    | x :: xs, p, b, kvs => by
      intro hw ht
      obtain ⟨hx, hxs⟩ := mSels_cons ht
      have ih := looseOwnN_eq_M xs p b kvs hw hxs
      cases x with
      | field a fid sub =>
        rw [looseOwnN.eq_2, looseOwnM.eq_2, ih]
        cases hsf : c.s.fields[fid]? with
        | none => rfl
        | some sf =>
          simp only []
          cases Json.lookup (a.getD sf.name) kvs with
          | none => rfl
          | some v => simp only [looseFieldN_eq_M (.field a fid sub) p b v hw hx]
      | spread g => simpa [looseOwnN, looseOwnM] using ih
      | inline t sub => simp [mSel] at hx
      | typename => simpa [looseOwnN, looseOwnM] using ih
  theorem looseArrN_eq_M : ∀ (sels : List Sel) (p : TypeId) (b : Bool) (vs : List Json),
      (∀ p g, fragOk c.s c.q c.o p g = true → ∀ b j, whole g b j = conformsLooseV c.s c.o b (fragSels c.q g) j) →
      mSels c.s c.q c.o p sels = true → looseArrN whole c.s c.q c.o b sels vs = looseArrM c.s c.q c.o b sels vs
    | [], _, _, _ => by intro _ _; rw [looseArrN, looseArrM]
    | x :: xs, p, b, vs => by
      intro hw ht
      obtain ⟨hx, hxs⟩ := mSels_cons ht
      cases x with
      | field a fid sub =>
        cases vs with
        | nil => rw [looseArrN.eq_2, looseArrM.eq_2]
        | cons v vs' =>
          rw [looseArrN.eq_3, looseArrM.eq_3, looseFieldN_eq_M (.field a fid sub) p b v hw hx,
            looseArrN_eq_M xs p b vs' hw hxs]
      | spread g => simpa [looseArrN, looseArrM] using looseArrN_eq_M xs p b vs hw hxs
      | inline t sub => simp [mSel] at hx
      | typename => simpa [looseArrN, looseArrM] using looseArrN_eq_M xs p b vs hw hxs
end

mutual
  theorem canonFieldN_eq_M : ∀ (x : Sel) (p : TypeId) (v : Json),
      (∀ p g, fragOk c.s c.q c.o p g = true → ∀ kvs,
        cent g kvs = canonEntriesV c.s c.o.skipNone (fragSels c.q g) kvs) →
      mSel c.s c.q c.o p x = true →
      canonFieldN cent c.s c.q c.o.skipNone x v = canonFieldM c.s c.q c.o.skipNone x v
    | .field a fid sub, p, v => by
      intro hc ht
      have IH := canonEntriesN_eq_M sub
      obtain ⟨sf, hsf⟩ := mSel_field_some ht
      rw [canonFieldN, canonFieldM]
      simp only [hsf]
      cases hid : sf.ty.id with
      | object i =>
        obtain ⟨_, _, _, hbody⟩ := mSel_obj hsf hid ht
        simp only []
        rw [canonLambdaN, canonLambdaM]
        congr 1
        funext j
        by_cases hsp : ∃ g, sub = [Sel.spread g]
        · obtain ⟨g, rfl⟩ := hsp
          simp only [canonSelN, canonSelM]
          cases j with
          | obj kvs => simp only [cwhole, canonSelV, hc _ g hbody kvs]
          | arr xs => rfl
          | null => rfl
          | bool _ => rfl
          | int _ => rfl
          | num _ => rfl
          | str _ => rfl
        · have hnl : ∀ g, sub ≠ [Sel.spread g] := fun g hg => hsp ⟨g, hg⟩
          rw [mBody_not_lone hnl] at hbody
          rw [canonSelN_not_lone hnl, canonSelM_not_lone hnl]
          cases j with
          | obj kvs => simp only [IH _ kvs hc hbody]
          | arr xs => rfl
          | null => rfl
          | bool _ => rfl
          | int _ => rfl
          | num _ => rfl
          | str _ => rfl
      | scalar k => rfl
      | «enum» k => rfl
      | interface k => rfl
      | union k => rfl
      | input k => rfl
    | .spread g, _, _ => by intro _ _; simp [canonFieldN, canonFieldM]
    | .inline t sub, _, _ => by intro _ _; simp [canonFieldN, canonFieldM]
    | .typename, _, _ => by intro _ _; simp [canonFieldN, canonFieldM]
  theorem canonEntriesN_eq_M : ∀ (sels : List Sel) (p : TypeId) (kvs : List (String × Json)),
      (∀ p g, fragOk c.s c.q c.o p g = true → ∀ kvs,
        cent g kvs = canonEntriesV c.s c.o.skipNone (fragSels c.q g) kvs) →
      mSels c.s c.q c.o p sels = true →
      canonEntriesN cent c.s c.q c.o.skipNone sels kvs = canonEntriesM c.s c.q c.o.skipNone sels kvs
    | [], _, _ => by intro _ _; rw [canonEntriesN, canonEntriesM]
    | x :: xs, p, kvs => by
      intro hc ht
      obtain ⟨hx, hxs⟩ := mSels_cons ht
      have ih := canonEntriesN_eq_M xs p kvs hc hxs
      cases x with
      | field a fid sub =>
        rw [canonEntriesN.eq_2, canonEntriesM.eq_2, ih]
        cases hsf : c.s.fields[fid]? with
        | none => rfl
        | some sf =>
          simp only []
          cases Json.lookup (a.getD sf.name) kvs with
          | none => rfl
          | some v => simp only [canonFieldN_eq_M (.field a fid sub) p v hc hx]
      | spread g =>
        have hok : fragOk c.s c.q c.o p g = true := by simpa [mSel] using hx
        rw [canonEntriesN.eq_3, canonEntriesM.eq_3, ih, hc p g hok]
      | inline t sub => simp [mSel] at hx
      | typename => simpa [canonEntriesN, canonEntriesM] using ih
end

end EqM

/-- **on `MixedOp` the acceptance predicate is `conformsLooseM`** -/
theorem conformsLooseN_eq_M (c : Ctx) (op : ROperation) (h : MixedOp c op = true) (b : Bool) (j : Json) :
    conformsLooseN (wholeN c c.q.fragments.length) c.s c.q c.o b op.sels j = conformsLooseM c.s c.q c.o b op.sels j := by
  obtain ⟨_, _, hb⟩ := mixedOp_parts h
  have hw : ∀ p g, fragOk c.s c.q c.o p g = true → ∀ b j,
      wholeN c c.q.fragments.length g b j = conformsLooseV c.s c.o b (fragSels c.q g) j :=
    fun p g hg => (rank0_stable c hg _).1
  by_cases hsp : ∃ g, op.sels = [Sel.spread g]
  · obtain ⟨g, hg⟩ := hsp
    rw [hg] at hb ⊢
    simp only [conformsLooseN, conformsLooseM]
    exact hw _ g hb b j
  · have hnl : ∀ g, op.sels ≠ [Sel.spread g] := fun g hg => hsp ⟨g, hg⟩
    rw [mBody_not_lone hnl] at hb
    rw [conformsLooseN_not_lone hnl, conformsLooseM_not_lone hnl]
    cases j with
    | obj kvs => simp only [looseOwnN_eq_M c _ op.sels _ b kvs hw hb, looseMemN_eq_M c _ hw _ op.sels hb kvs]
    | arr xs => simp only [looseArrN_eq_M c _ op.sels _ b xs hw hb]
    | null => rfl
    | bool _ => rfl
    | int _ => rfl
    | num _ => rfl
    | str _ => rfl

/-- **`canonSelN_eq_M`: on `MixedOp` the canonical form is `canonSelM`** -/
theorem canonSelN_eq_M (c : Ctx) (op : ROperation) (h : MixedOp c op = true) (j : Json) :
    canonSelN (centN c c.q.fragments.length) c.s c.q c.o.skipNone op.sels j =
      canonSelM c.s c.q c.o.skipNone op.sels j := by
  obtain ⟨_, _, hb⟩ := mixedOp_parts h
  have hc : ∀ p g, fragOk c.s c.q c.o p g = true → ∀ kvs,
      centN c c.q.fragments.length g kvs = canonEntriesV c.s c.o.skipNone (fragSels c.q g) kvs :=
    fun p g hg => (rank0_stable c hg _).2
  by_cases hsp : ∃ g, op.sels = [Sel.spread g]
  · obtain ⟨g, hg⟩ := hsp
    rw [hg] at hb ⊢
    simp only [canonSelN, canonSelM]
    cases j with
    | obj kvs => simp only [cwhole, canonSelV, hc _ g hb kvs]
    | arr xs => rfl
    | null => rfl
    | bool _ => rfl
    | int _ => rfl
    | num _ => rfl
    | str _ => rfl
  · have hnl : ∀ g, op.sels ≠ [Sel.spread g] := fun g hg => hsp ⟨g, hg⟩
    rw [mBody_not_lone hnl] at hb
    rw [canonSelN_not_lone hnl, canonSelM_not_lone hnl]
    cases j with
    | obj kvs => simp only [canonEntriesN_eq_M c _ op.sels _ kvs hc hb]
    | arr xs => rfl
    | null => rfl
    | bool _ => rfl
    | int _ => rfl
    | num _ => rfl
    | str _ => rfl

end C01N
end GqlVerif
