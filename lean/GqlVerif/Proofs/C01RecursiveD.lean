import GqlVerif.Proofs.C01RecursiveC
/-!
# C01 end to end, step 3 (`RecFragmentOp`), part D: losslessness

* `leaf_roundtrip_on_size` — L1 of `C01Layers` relative to a bound on the size of the *value* (the serializer's fuel
  is a function of the value, not of the payload);
* serde, reading found again by name with boxed members: `flatValsR_find`, `deStruct_flat_findsR`;
* `canonR s q skip n sels j` — the allowed differences (as `canonSelF`: the entries of a spread fragment at the
  position of the spread, at every level of the recursion), by recursion on the size bound `n` of the payload;
* `rtStructR_core` (a struct with own fields and possibly boxed flattened members, from the round trips of its fields
  and members), `rtFieldR`, `rtPlainR`, `rtStructR`, `rtR` — the round trip, by induction on the size of the
  payload, for every size of the value;
* `norm_canonR` — the canonical form is a `serde_json::to_value` normal form;
* **`recfragment_lossless`** / `recfragment_roundtrip` — over `moduleEnv c items` for the module `responseForQuery`
  emits;
* `conformsLooseR_stable`, `canonR_stable` — the size bound is not an artefact: any bound `≥ jsonSize j` gives the
  same verdict / canonical form.

Additional decidable side condition: `recRustOk` (Rust field names — own fields and flattened members — pairwise
distinct in every struct of the operation and of the reachable fragments).
-/
set_option linter.unusedSimpArgs false
set_option linter.unusedVariables false
set_option linter.unusedSectionVars false
set_option linter.unnecessarySimpa false
namespace GqlVerif
namespace C01
namespace E2E
open Serde Spec C13 C03 Codegen

/-! ## the size of a Rust value -/

theorem valSize_mem : ∀ {vs : List Val} {v : Val}, v ∈ vs → valSize v ≤ valsSize vs
  | [], _, h => by simp at h
  | y :: ys, v, h => by
    rw [valsSize]
    rcases List.mem_cons.mp h with rfl | h'
    · omega
    · have := valSize_mem h'; omega

theorem valSize_field : ∀ {vals : List (String × Val)} {n : String} {v : Val}, (n, v) ∈ vals →
    valSize v ≤ fieldsSize vals
  | [], _, _, h => by simp at h
  | (n', v') :: rest, n, v, h => by
    rw [fieldsSize]
    rcases List.mem_cons.mp h with h' | h'
    · cases h'; omega
    · have := valSize_field h'; omega

theorem valSize_find {vals : List (String × Val)} {r : String} {p : String × Val}
    (h : vals.find? (·.1 == r) = some p) : valSize p.2 ≤ fieldsSize vals :=
  valSize_field (n := p.1) (List.mem_of_find?_eq_some h)

theorem valSize_pos : ∀ v : Val, 1 ≤ valSize v
  | .some v => by rw [valSize]; omega
  | .list vs => by rw [valSize]; omega
  | .record fs => by rw [valSize]; omega
  | .variant _ (some v) => by rw [valSize]; omega
  | .variant _ none => by simp [valSize]
  | .unit => by simp [valSize]
  | .str _ => by simp [valSize]
  | .int _ => by simp [valSize]
  | .float _ => by simp [valSize]
  | .bool _ => by simp [valSize]
  | .enumOther _ => by simp [valSize]

theorem valSize_some (x : Val) : valSize (.some x) = 1 + valSize x := by rw [valSize]
theorem valSize_list (vs : List Val) : valSize (.list vs) = 1 + valsSize vs := by rw [valSize]
theorem valSize_record (fs : List (String × Val)) : valSize (.record fs) = 1 + fieldsSize fs := by rw [valSize]

/-! ## L1 of `C01Layers`, relative to a bound on the size of the value -/

theorem leaf_roundtrip_on_size (pathD : String → Json → D Val) (pathS : String → Val → D Json) (base : String)
    (leafOk : Json → Bool) (leafCanon : Json → Json) (m : Nat)
    (hleaf : ∀ j v, leafOk j = true → valSize v ≤ m → pathD base j = .ok v → pathS base v = .ok (leafCanon j)) :
    ∀ t : GTy, wf t = true →
      (∀ j v, acceptsNN leafOk t j = true → valSize v ≤ m → deTyWith pathD (rustOfNN (.path base) t) j = .ok v →
        serTyWith pathS (rustOfNN (.path base) t) v = .ok (canonNN leafCanon t j)) ∧
      (∀ j v, accepts leafOk t j = true → valSize v ≤ m → deTyWith pathD (rustOf (.path base) t) j = .ok v →
        serTyWith pathS (rustOf (.path base) t) v = .ok (canon leafCanon t j)) := by
  intro t
  have lift : ∀ (r : RTy) (c : Json → Json) (A : Json → Bool),
      (∀ j v, A j = true → valSize v ≤ m → deTyWith pathD r j = .ok v → serTyWith pathS r v = .ok (c j)) →
      ∀ j v, (j.isNull || A j) = true → valSize v ≤ m → deTyWith pathD (.opt r) j = .ok v →
        serTyWith pathS (.opt r) v = .ok (if j.isNull then .null else c j) := by
    intro r c A hnn j v ha hm h
    rcases de_opt_ok pathD r j v h with ⟨hj, rfl⟩ | ⟨hj, x, hx, rfl⟩
    · simp [hj, serTyWith, pure, Except.pure]
    · simp only [hj, Bool.false_eq_true, ↓reduceIte]
      rw [show serTyWith pathS (RTy.opt r) (.some x) = serTyWith pathS r x from rfl]
      rw [valSize_some] at hm
      exact hnn j x (by simpa [hj] using ha) (by omega) hx
  induction t with
  | named n =>
    intro _
    have hnn : ∀ j v, acceptsNN leafOk (.named n) j = true → valSize v ≤ m →
        deTyWith pathD (rustOfNN (.path base) (.named n)) j = .ok v →
        serTyWith pathS (rustOfNN (.path base) (.named n)) v = .ok (canonNN leafCanon (.named n) j) := by
      intro j v ha hm h
      simp only [rustOfNN, deTyWith, serTyWith, canonNN, acceptsNN] at h ha ⊢
      exact hleaf j v ha hm h
    exact ⟨hnn, fun j v ha hm h => by simp only [rustOf, canon, accepts] at h ha ⊢; exact lift _ _ _ hnn j v ha hm h⟩
  | list t ih =>
    intro hw
    obtain ⟨_, ih2⟩ := ih (by simpa [wf] using hw)
    have hnn : ∀ j v, acceptsNN leafOk (.list t) j = true → valSize v ≤ m →
        deTyWith pathD (rustOfNN (.path base) (.list t)) j = .ok v →
        serTyWith pathS (rustOfNN (.path base) (.list t)) v = .ok (canonNN leafCanon (.list t) j) := by
      intro j v ha hm h
      simp only [rustOfNN] at h ⊢
      obtain ⟨xs, vs, rfl, rfl, hall⟩ := de_vec_ok pathD _ j v h
      simp only [canonNN]
      simp only [acceptsNN, List.all_eq_true] at ha
      rw [valSize_list] at hm
      exact ser_list_ok pathS _ _ xs vs (hall.imp_mem2 (fun x hx y hy hxy => ih2 x y (ha x hx)
        (by have := valSize_mem hy; omega) hxy))
    exact ⟨hnn, fun j v ha hm h => by simp only [rustOf, canon, accepts] at h ha ⊢; exact lift _ _ _ hnn j v ha hm h⟩
  | nonNull t ih =>
    intro hw
    obtain ⟨ih1, _⟩ := ih (by cases t <;> simp_all [wf])
    exact ⟨fun j v ha hm h => by simp only [rustOfNN, canonNN, acceptsNN] at h ha ⊢; exact ih1 j v ha hm h,
           fun j v ha hm h => by simp only [rustOf, canon, accepts] at h ha ⊢; exact ih1 j v ha hm h⟩

/-! ## serde: what a struct with (possibly boxed) flattened members read, found again by name -/

theorem flatValsR_find (e : Env) (fuel : Nat) (kvs : List (String × Json)) : ∀ (fs : List RField) (fl : List (String × Val)),
    flatValsR e fuel kvs fs = .ok fl → (fs.map (·.rust)).Nodup →
    (∀ n, n ∉ fs.map (·.rust) → fl.find? (·.1 == n) = none) ∧
    ∀ g ∈ fs, g.flatten = true → ∃ own, deOwnWith (dePath e true (fuel - boxCost g.ty)) (memberFieldsR e g) kvs = .ok own ∧
      fl.find? (·.1 == g.rust) = some (g.rust, .record own)
  | [], fl, h, _ => by
    simp only [flatValsR, pure, Except.pure, Except.ok.injEq] at h
    subst h; simp
  | g :: gs, fl, h, hnd => by
    simp only [List.map_cons, List.nodup_cons] at hnd
    cases hg : g.flatten
    · simp only [flatValsR, hg, Bool.not_false, ↓reduceIte] at h
      obtain ⟨ih1, ih2⟩ := flatValsR_find e fuel kvs gs fl h hnd.2
      refine ⟨fun n hn => ih1 n (fun hm => hn (List.mem_cons_of_mem _ hm)), ?_⟩
      intro g' hg' hfl
      rcases List.mem_cons.mp hg' with rfl | hg''
      · rw [hg] at hfl; cases hfl
      · exact ih2 g' hg'' hfl
    · simp only [flatValsR, hg, Bool.not_true, Bool.false_eq_true, ↓reduceIte] at h
      obtain ⟨own, hown, h⟩ := C02.bind_ok h
      obtain ⟨rest, hrest, h⟩ := C02.bind_ok h
      simp only [pure, Except.pure, Except.ok.injEq] at h
      subst h
      obtain ⟨ih1, ih2⟩ := flatValsR_find e fuel kvs gs rest hrest hnd.2
      constructor
      · intro n hn
        simp only [List.map_cons, List.mem_cons, not_or] at hn
        have : (g.rust == n) = false := by simpa using fun h => hn.1 h.symm
        simp only [List.find?_cons, this]
        exact ih1 n hn.2
      · intro g' hg' hfl
        rcases List.mem_cons.mp hg' with rfl | hg''
        · exact ⟨own, hown, by simp⟩
        · obtain ⟨own', h1, h2⟩ := ih2 g' hg'' hfl
          have hne : g.rust ≠ g'.rust := fun heq => hnd.1 (heq ▸ List.mem_map_of_mem hg'')
          have : (g.rust == g'.rust) = false := by simpa using hne
          exact ⟨own', h1, by simp only [List.find?_cons, this]; exact h2⟩

theorem deStruct_flat_findsR (e : Env) (fuel : Nat) (pathD : String → Json → D Val) (fields : List RField)
    (kvs : List (String × Json)) (hcnt : ∀ k, countKey k kvs ≤ 1) (hrust : (fields.map (·.rust)).Nodup)
    (hok : ∀ g ∈ fields, g.flatten = true → MemberOkR e g)
    (hown : ∀ g ∈ fields, g.flatten = true → ∀ k ∈ memberKeysR e g,
      k ∉ (fields.filter (fun f => !f.flatten)).map (·.wire))
    (hpw : fields.Pairwise (fun g g' => g.flatten = true → g'.flatten = true →
      ∀ k ∈ memberKeysR e g', k ∉ memberKeysR e g))
    (v : Val) (hd : deStructMapWith pathD (deFlat e (fuel + 2)) fields kvs = .ok v) :
    ∃ vals, v = .record vals ∧
      (∀ f ∈ fields, f.flatten = false → ∃ x, vals.find? (·.1 == f.rust) = some (f.rust, x) ∧
        readField pathD f kvs = .ok x) ∧
      (∀ g ∈ fields, g.flatten = true → ∃ own,
        deOwnWith (dePath e true (fuel + 1 - boxCost g.ty)) (memberFieldsR e g) kvs = .ok own ∧
        vals.find? (·.1 == g.rust) = some (g.rust, .record own)) := by
  have hownpl : plain (fields.filter (fun f => !f.flatten)) = true := by
    simp only [plain, List.all_eq_true, List.mem_filter]
    intro f hf; exact hf.2
  have hsub : (fields.filter (fun f => !f.flatten)).Sublist fields := List.filter_sublist
  have hownnd : ((fields.filter (fun f => !f.flatten)).map (·.rust)).Nodup := (hsub.map _).nodup hrust
  cases hany : fields.any (·.flatten)
  · have hpl : plain fields = true := by
      simp only [plain, List.all_eq_true]
      intro f hf
      have := List.any_eq_false.mp hany f hf
      simpa using this
    rw [deStructMap_plain _ _ _ _ hpl, map_ok] at hd
    obtain ⟨own, hown', rfl⟩ := hd
    have hall := (deOwn_ok_iff pathD kvs hcnt fields own hpl).mp hown'
    refine ⟨own, rfl, fun f hf _ => find_of_all2 (R := fun f x => readField pathD f kvs = .ok x) hall hrust f hf, ?_⟩
    intro g hg hfl
    have := List.any_eq_false.mp hany g hg
    simp [hfl] at this
  · rw [deStructMap_flatR e fuel pathD fields kvs hany hok hown hpw] at hd
    obtain ⟨own, hown', hd⟩ := C02.bind_ok hd
    obtain ⟨fl, hfl, hd⟩ := C02.bind_ok hd
    simp only [pure, Except.pure, Except.ok.injEq] at hd
    have hall := (deOwn_ok_iff pathD kvs hcnt _ own hownpl).mp hown'
    have hownnames : own.map (·.1) = (fields.filter (fun f => !f.flatten)).map (·.rust) :=
      All2.map_fst (fun _ _ hh => hh.1) hall
    obtain ⟨hfl1, hfl2⟩ := flatValsR_find e (fuel + 1) kvs fields fl hfl hrust
    refine ⟨_, hd.symm, ?_, ?_⟩
    · intro f hf hfl'
      rw [find_filterMap_rust _ fields hrust f hf]
      obtain ⟨x, hx, hR⟩ := find_of_all2 (R := fun f x => readField pathD f kvs = .ok x) hall hownnd f
        (List.mem_filter.mpr ⟨hf, by simp [hfl']⟩)
      exact ⟨x, by rw [List.find?_append, hx]; rfl, hR⟩
    · intro g hg hfl'
      rw [find_filterMap_rust _ fields hrust g hg]
      obtain ⟨owng, h1, h2⟩ := hfl2 g hg hfl'
      refine ⟨owng, h1, ?_⟩
      have hnone : own.find? (·.1 == g.rust) = none := by
        apply find_none_of_not_mem
        rw [hownnames]
        intro hm
        obtain ⟨f, hf, hfr⟩ := List.mem_map.mp hm
        have hf' := List.mem_filter.mp hf
        have : f = g := eq_of_nodup_rust hrust hf'.1 hg hfr
        subst this
        simp [hfl'] at hf'
      rw [List.find?_append, hnone]
      simpa using h2

/-! ## the allowed differences for `RecFragmentOp` -/

section CanonDefs
variable (s : Schema) (q : Query) (skip : Bool)

/-- the value of a selected field; `crec sub`: the canonical form of the response object of the sub-selection
    `sub` of an object-typed field -/
def canonFieldP (crec : List Sel → Json → Json) : Sel → Json → Json
  | .field a fid sub, v =>
    match s.fields[fid]? with
    | none => v
    | some sf =>
      match sf.ty.id with
      | .object _ => canon (crec sub) (gtyOf sf.ty.quals) v
      | _ => canonFieldV s skip (.field a fid sub) v
  | _, v => v

/-- the entry written for one selected field -/
def canonEntryP (crec : List Sel → Json → Json) (a : Option String) (fid : Nat) (sub : List Sel)
    (kvs : List (String × Json)) : List (String × Json) :=
  match s.fields[fid]? with
  | none => []
  | some sf =>
    match Json.lookup (a.getD sf.name) kvs with
    | some v =>
      if skip && skipQ sf.ty.quals && v.isNull then []
      else [(a.getD sf.name, canonFieldP s skip crec (.field a fid sub) v)]
    | none => if skip && skipQ sf.ty.quals then [] else [(a.getD sf.name, Json.null)]

/-- the entries of the fields of a fragment body (no spread at its top level) -/
def canonOwnP (crec : List Sel → Json → Json) : List Sel → List (String × Json) → List (String × Json)
  | [], _ => []
  | .field a fid sub :: xs, kvs => canonEntryP s skip crec a fid sub kvs ++ canonOwnP crec xs kvs
  | _ :: xs, kvs => canonOwnP crec xs kvs

/-- own entries and, **at the position of each spread**, the entries of the fragment, in selection order -/
def canonEntriesP (crec : List Sel → Json → Json) : List Sel → List (String × Json) → List (String × Json)
  | [], _ => []
  | .field a fid sub :: xs, kvs => canonEntryP s skip crec a fid sub kvs ++ canonEntriesP crec xs kvs
  | .spread g :: xs, kvs => canonOwnP s skip crec (fragSels q g) kvs ++ canonEntriesP crec xs kvs
  | _ :: xs, kvs => canonEntriesP crec xs kvs

def canonStructP (crec : List Sel → Json → Json) (sels : List Sel) : Json → Json
  | .obj kvs => .obj (canonEntriesP s q skip crec sels kvs)
  | j => j

def canonBodyP (crec : List Sel → Json → Json) (sels : List Sel) (j : Json) : Json :=
  match sels with
  | [.spread g] => canonStructP s q skip crec (fragSels q g) j
  | _ => canonStructP s q skip crec sels j

/-- **`canonR`**: the allowed differences (as `canonSelF`: key order = selection order with the entries of a spread
    fragment at the position of the spread, integer ID → string, `__typename` dropped on object selections, absent
    nullable → `null` / skipped), for payloads of size `≤ n` -/
def canonR : Nat → List Sel → Json → Json
  | 0 => fun _ j => j
  | n + 1 => canonBodyP s q skip (canonR n)

end CanonDefs

theorem canonEntriesP_noTop (s : Schema) (q : Query) (skip : Bool) (crec : List Sel → Json → Json)
    (kvs : List (String × Json)) : ∀ (sels : List Sel), sels.any isSpread = false →
    canonEntriesP s q skip crec sels kvs = canonOwnP s skip crec sels kvs
  | [], _ => rfl
  | x :: xs, h => by
    simp only [List.any_cons, Bool.or_eq_false_iff] at h
    have ih := canonEntriesP_noTop s q skip crec kvs xs h.2
    cases x with
    | spread g => have := h.1; simp [isSpread] at this
    | field a fid sub => simp only [canonEntriesP, canonOwnP, ih]
    | inline t sub => simp only [canonEntriesP, canonOwnP, ih]
    | typename => simp only [canonEntriesP, canonOwnP, ih]

/-! ## Rust field names -/

mutual
  /-- Rust field names (own fields and flattened members) pairwise distinct in every struct below -/
  def rustOkSelR (c : Ctx) : Sel → Bool
    | .field a fid sub =>
      (match (c.s.fields[fid]?).map (fun sf => sf.ty.id) with
       | some (TypeId.object _) =>
         (match sub with
          | [.spread _] => true
          | _ => EnumSpec.nodup (rustNamesF c sub) && rustOkSelsR c sub)
       | _ => rustOkSelV c (.field a fid sub))
    | _ => true
  def rustOkSelsR (c : Ctx) : List Sel → Bool
    | [] => true
    | x :: xs => rustOkSelR c x && rustOkSelsR c xs
end

theorem rustOkSelsR_mem {c : Ctx} : ∀ {sels : List Sel}, rustOkSelsR c sels = true →
    ∀ x ∈ sels, rustOkSelR c x = true
  | [], _, _, hx => by simp at hx
  | y :: ys, h, x, hx => by
    rw [rustOkSelsR, Bool.and_eq_true] at h
    rcases List.mem_cons.mp hx with rfl | hx'
    · exact h.1
    · exact rustOkSelsR_mem h.2 x hx'

theorem rust_fieldsOfR (c : Ctx) (pfx : String) (p : TypeId) : ∀ (sels : List Sel), rSels c.s c.q c.o p sels = true →
    (fieldsOfR c pfx sels).map (·.rust) = rustNamesF c sels
  | [], _ => rfl
  | x :: xs, ht => by
    obtain ⟨hx, hxs⟩ := rSels_cons ht
    have ih := rust_fieldsOfR c pfx p xs hxs
    rw [fieldsOfR_cons, List.map_append, ih]
    cases x with
    | field a fid sub =>
      obtain ⟨sf, ft, hsf, _, hf, _⟩ := fieldOfSelV_r c pfx p a fid sub hx
      rw [fieldOfSelR_field, hf]
      simp [rustNamesF, List.filterMap_cons, rustNameF, rustName, hsf, fieldOf]
    | spread g =>
      have hok : spreadOk c.q p g = true := by simpa [rSel] using hx
      obtain ⟨fr, hfr, _⟩ := spreadOk_parts hok
      simp [fieldOfSelR, hfr, spreadFieldR, rustNamesF, List.filterMap_cons, rustNameF, fragName]
    | inline t sub => simp [rSel] at hx
    | typename => simp [fieldOfSelR, fieldOfSelV, rustNamesF, List.filterMap_cons, rustNameF, rustName]

/-- the entries the struct writes are `canonEntriesP` -/
theorem flatMap_entriesR_canon (c : Ctx) (pfx : String) (p : TypeId) (fc : RField → Json → Json)
    (mc : RField → List (String × Json)) (kvs : List (String × Json)) (crec : List Sel → Json → Json) :
    ∀ (sels : List Sel), rSels c.s c.q c.o p sels = true →
    (∀ a fid sub, Sel.field a fid sub ∈ sels → ∀ f, fieldOfSelV c pfx (.field a fid sub) = some f →
      ∀ v, fc f v = canonFieldP c.s c.o.skipNone crec (.field a fid sub) v) →
    (∀ g fr, Sel.spread g ∈ sels → c.q.fragments[g]? = some fr →
      mc (spreadFieldR c g fr) = canonOwnP c.s c.o.skipNone crec fr.sels kvs) →
    (fieldsOfR c pfx sels).flatMap (entriesF fc mc kvs) = canonEntriesP c.s c.q c.o.skipNone crec sels kvs
  | [], _, _, _ => by simp [fieldsOfR, canonEntriesP]
  | x :: xs, ht, hfc, hmc => by
    obtain ⟨hx, hxs⟩ := rSels_cons ht
    have ih := flatMap_entriesR_canon c pfx p fc mc kvs crec xs hxs
      (fun a fid sub hm => hfc a fid sub (List.mem_cons_of_mem _ hm))
      (fun g fr hm => hmc g fr (List.mem_cons_of_mem _ hm))
    rw [fieldsOfR_cons, List.flatMap_append, ih]
    cases x with
    | field a fid sub =>
      obtain ⟨sf, ft, hsf, _, hf, _⟩ := fieldOfSelV_r c pfx p a fid sub hx
      rw [fieldOfSelR_field, hf, canonEntriesP, canonEntryP]
      simp only [Option.toList, List.flatMap_cons, List.flatMap_nil, List.append_nil, entriesF, fieldOf,
        Bool.false_eq_true, ↓reduceIte]
      have := expectOut_cons fc (fieldOf c (a.getD sf.name) ft sf.ty.quals sf.deprecation) [] kvs
      simp only [fieldOf] at this
      rw [this]
      simp only [hsf, expectOut, List.filterMap_nil, List.append_nil]
      have hw := fieldOf_wire c (a.getD sf.name) ft sf.ty.quals sf.deprecation
      simp only [fieldOf] at hw
      simp only [hw, Bool.and_assoc]
      have hfc' := hfc a fid sub (by simp) _ hf
      simp only [fieldOf] at hfc'
      cases Json.lookup (a.getD sf.name) kvs with
      | none => rfl
      | some v => simp only [hfc' v]
    | spread g =>
      have hok : spreadOk c.q p g = true := by simpa [rSel] using hx
      obtain ⟨fr, hfr, _⟩ := spreadOk_parts hok
      have hsels : fragSels c.q g = fr.sels := by simp [fragSels, hfr]
      rw [canonEntriesP, hsels, ← hmc g fr (by simp) hfr]
      have hfl : (spreadFieldR c g fr).flatten = true := rfl
      simp [fieldOfSelR, hfr, entriesF, hfl]
    | inline t sub => simp [rSel] at hx
    | typename => simp [fieldOfSelR, fieldOfSelV, canonEntriesP]

/-- the canonical form of the value of the own field whose wire name is `f.wire` -/
def fcanonOfR (s : Schema) (skip : Bool) (crec : List Sel → Json → Json) (sels : List Sel) (f : RField) (v : Json) : Json :=
  match sels.find? (fun x => fieldKey s x == some f.wire) with
  | some x => canonFieldP s skip crec x v
  | none => v

theorem mem_fieldsOfV_r {c : Ctx} {pfx : String} {p : TypeId} {sels : List Sel} {f : RField}
    (hf : f ∈ fieldsOfV c pfx sels) (ht : rSels c.s c.q c.o p sels = true) :
    ∃ a fid sub sf ft, Sel.field a fid sub ∈ sels ∧ c.s.fields[fid]? = some sf ∧
      fieldOfSelV c pfx (.field a fid sub) = some f ∧
      f = fieldOf c (a.getD sf.name) ft sf.ty.quals sf.deprecation ∧ wfQuals sf.ty.quals = true := by
  obtain ⟨x, hx, hfx⟩ := List.mem_filterMap.mp hf
  cases x with
  | field a fid sub =>
    obtain ⟨sf, ft, hsf, _, hf', hw⟩ := fieldOfSelV_r c pfx p a fid sub (rSels_mem ht _ hx)
    rw [hf'] at hfx
    exact ⟨a, fid, sub, sf, ft, hx, hsf, by rw [hf', hfx], (Option.some.inj hfx).symm, hw⟩
  | spread g => cases hfx
  | inline t sub => cases hfx
  | typename => cases hfx

theorem mem_fieldsOfR_flatten {c : Ctx} {pfx : String} {p : TypeId} : ∀ {sels : List Sel} {g : RField},
    g ∈ fieldsOfR c pfx sels → rSels c.s c.q c.o p sels = true → g.flatten = true →
    ∃ gid fr, Sel.spread gid ∈ sels ∧ c.q.fragments[gid]? = some fr ∧ g = spreadFieldR c gid fr
  | [], g, hg, _, _ => by simp [fieldsOfR] at hg
  | x :: xs, g, hg, ht, hfl => by
    obtain ⟨hx, hxs⟩ := rSels_cons ht
    rw [fieldsOfR_cons, List.mem_append] at hg
    rcases hg with hg | hg
    · cases x with
      | field a fid sub =>
        obtain ⟨sf, ft, _, _, hf, _⟩ := fieldOfSelV_r c pfx p a fid sub hx
        rw [fieldOfSelR_field, hf] at hg
        simp only [Option.toList, List.mem_singleton] at hg
        subst hg; simp [fieldOf] at hfl
      | spread gid =>
        have hok : spreadOk c.q p gid = true := by simpa [rSel] using hx
        obtain ⟨fr, hfr, _⟩ := spreadOk_parts hok
        simp only [fieldOfSelR, hfr, Option.map_some, Option.toList, List.mem_singleton] at hg
        exact ⟨gid, fr, by simp, hfr, hg⟩
      | inline t sub => simp [rSel] at hx
      | typename => simp [fieldOfSelR, fieldOfSelV] at hg
    · obtain ⟨gid, fr, h1, h2, h3⟩ := mem_fieldsOfR_flatten hg hxs hfl
      exact ⟨gid, fr, List.mem_cons_of_mem _ h1, h2, h3⟩

theorem serTy_spreadFieldR (c : Ctx) (g : Nat) (fr : RFragment) (pathS : String → Val → D Json) (x : Val) :
    serTyWith pathS (spreadFieldR c g fr).ty x = pathS fr.name x := by
  unfold spreadFieldR
  cases fragmentIsRecursive c.q g <;> simp [serTyWith]

section RTR
variable {e : Env} {c : Ctx} {G : List Nat} {D : Nat} (W : RWorld e c G D)
include W

/-- **round trip of the struct of an object-level selection set with (possibly boxed) flattened members**, from
    the round trips of its fields (`HF`) and of its members (`HM`) -/
theorem rtStructR_core (crec : List Sel → Json → Json) (mm : Nat) (pfx name : String) (i : Nat) (sels : List Sel)
    (ht : rSels c.s c.q c.o (.object i) sels = true) (hGs : ∀ g, Sel.spread g ∈ sels → g ∈ G)
    (hkeys : EnumSpec.nodup (expKeys c.s c.q sels) = true) (hrn : EnumSpec.nodup (rustNamesF c sels) = true)
    (hs : StructEnv e name (fieldsOfR c pfx sels)) (b : Bool) (fd fs : Nat) (kvs : List (String × Json))
    (hnd : (kvs.map (·.1)).Nodup)
    (HF : ∀ a fid sub, Sel.field a fid sub ∈ sels → ∀ f, fieldOfSelV c pfx (.field a fid sub) = some f →
      ∀ j x, Json.lookup f.wire kvs = some j → deFieldWith (dePath e b (fd + 2)) f j = .ok x → valSize x ≤ mm →
        serTyWith (serPath e fs) f.ty x = .ok (canonFieldP c.s c.o.skipNone crec (.field a fid sub) j))
    (HM : ∀ g fr, Sel.spread g ∈ sels → c.q.fragments[g]? = some fr → ∀ own,
      deOwnWith (dePath e true (fd + 1 - boxCost (spreadFieldR c g fr).ty))
        (fieldsOfV c (c.cs.camel fr.name) fr.sels) kvs = .ok own → valSize (.record own) ≤ mm →
      serPath e fs fr.name (.record own) = .ok (.obj (canonOwnP c.s c.o.skipNone crec fr.sels kvs)))
    (v : Val) (hvs : valSize v ≤ mm + 1) (hd : dePath e b (fd + 3) name (.obj kvs) = .ok v) :
    serPath e (fs + 1) name v = .ok (.obj (canonEntriesP c.s c.q c.o.skipNone crec sels kvs)) := by
  obtain ⟨hp, _, nm, d, cr, hfind⟩ := hs
  have hcnt := countKey_le_one_of_nodup hnd
  obtain ⟨h1, _, h3, h4⟩ := flat_hypsR W pfx (.object i) sels ht hGs (nodup_iff'.mp hkeys)
  have hrust : ((fieldsOfR c pfx sels).map (·.rust)).Nodup := by
    rw [rust_fieldsOfR c pfx _ sels ht]; exact nodup_iff'.mp hrn
  rw [dePath_struct e b (fd + 2) name nm d cr _ hp hfind, deStruct_obj] at hd
  obtain ⟨vals, rfl, hownf, hmemf⟩ := deStruct_flat_findsR e fd _ _ kvs hcnt hrust (fun g hg hf => (h1 g hg hf).1) h3 h4 v hd
  rw [valSize_record] at hvs
  have hfk : (fieldKeys c.s sels).Nodup := (fieldKeys_sublist_expKeys c.s c.q sels).nodup (nodup_iff'.mp hkeys)
  -- the members
  have hmemrt : ∀ gid fr, Sel.spread gid ∈ sels → c.q.fragments[gid]? = some fr →
      ∃ x, vals.find? (·.1 == (spreadFieldR c gid fr).rust) = some ((spreadFieldR c gid fr).rust, x) ∧
        serTyWith (serPath e fs) (spreadFieldR c gid fr).ty x =
          .ok (.obj (canonOwnP c.s c.o.skipNone crec fr.sels kvs)) := by
    intro gid fr hm hfr
    obtain ⟨fr', _, hfr', _, _, _, _, _, hsenv, _⟩ := world_frag W (hGs gid hm)
    rw [hfr] at hfr'; cases hfr'
    have hgmem : spreadFieldR c gid fr ∈ fieldsOfR c pfx sels :=
      List.mem_filterMap.mpr ⟨_, hm, by simp [fieldOfSelR, hfr]⟩
    obtain ⟨own, hown, hfindg⟩ := hmemf _ hgmem rfl
    rw [(memberFieldsR_spread e c gid fr hsenv).1] at hown
    refine ⟨_, hfindg, ?_⟩
    rw [serTy_spreadFieldR]
    have hsz := valSize_find hfindg
    exact HM gid fr hm hfr own hown (by simp only at hsz; omega)
  let mc : RField → List (String × Json) := fun g =>
    match vals.find? (·.1 == g.rust) with
    | some (_, x) => (match serTyWith (serPath e fs) g.ty x with | .ok (.obj o) => o | _ => [])
    | none => []
  have hmc : ∀ gid fr, Sel.spread gid ∈ sels → c.q.fragments[gid]? = some fr →
      mc (spreadFieldR c gid fr) = canonOwnP c.s c.o.skipNone crec fr.sels kvs := by
    intro gid fr hm hfr
    obtain ⟨x, hf, hser⟩ := hmemrt gid fr hm hfr
    simp only [mc, hf, hser]
  rw [serPath_struct e fs name nm d cr _ hfind,
    ser_flat (dePath e b (fd + 2)) (serPath e fs) (fcanonOfR c.s c.o.skipNone crec sels) mc kvs vals
      (fieldsOfR c pfx sels) hownf ?_ ?_ ?_ ?_]
  · rw [flatMap_entriesR_canon c pfx (.object i) _ mc kvs crec sels ht ?_ hmc]
    · rfl
    · intro a fid sub hx f hfx v
      obtain ⟨sf, ft, hsf, _, hf', _⟩ := fieldOfSelV_r c pfx _ a fid sub (rSels_mem ht _ hx)
      rw [hf'] at hfx
      cases hfx
      unfold fcanonOfR
      rw [fieldOf_wire, find_fieldKey c.s _ sels hfk _ hx (by simp [fieldKey, hsf])]
  · intro f hf hfl j x hl hdx
    have hfV : f ∈ fieldsOfV c pfx sels := by
      rw [← own_fieldsOfR c pfx _ sels ht]; exact List.mem_filter.mpr ⟨hf, by simp [hfl]⟩
    obtain ⟨x', hfind', hread⟩ := hownf f hf hfl
    have hxx : x' = x := by
      unfold readField at hread
      rw [hl] at hread
      simp only [hdx] at hread
      exact (Except.ok.inj hread).symm
    subst hxx
    have hsz := valSize_find hfind'
    obtain ⟨a, fid, sub, sf, ft, hx, hsf, hfx, rfl, _⟩ := mem_fieldsOfV_r hfV ht
    have hfc : fcanonOfR c.s c.o.skipNone crec sels (fieldOf c (a.getD sf.name) ft sf.ty.quals sf.deprecation) j =
        canonFieldP c.s c.o.skipNone crec (.field a fid sub) j := by
      unfold fcanonOfR
      rw [fieldOf_wire, find_fieldKey c.s _ sels hfk _ hx (by simp [fieldKey, hsf])]
    rw [hfc]
    exact HF a fid sub hx _ hfx j x' hl hdx (by simp only at hsz; omega)
  · intro f hf hfl hskip j x _ hdx
    have hfV : f ∈ fieldsOfV c pfx sels := by
      rw [← own_fieldsOfR c pfx _ sels ht]; exact List.mem_filter.mpr ⟨hf, by simp [hfl]⟩
    obtain ⟨a, fid, sub, sf, ft, _, _, _, rfl, _⟩ := mem_fieldsOfV_r hfV ht
    refine field_unit_iff _ _ (.inr ?_) j x hdx
    rw [fieldOf_skipNone, Bool.and_eq_true] at hskip
    exact (isOption_rustOf ft sf.ty.quals).trans (skipQ_nullable hskip.2)
  · intro f hf hfl hdef
    have hfV : f ∈ fieldsOfV c pfx sels := by
      rw [← own_fieldsOfR c pfx _ sels ht]; exact List.mem_filter.mpr ⟨hf, by simp [hfl]⟩
    obtain ⟨a, fid, sub, sf, ft, _, _, _, rfl, _⟩ := mem_fieldsOfV_r hfV ht
    have : (decide (ft = "ID") && nullableQ sf.ty.quals) = true := hdef
    rw [Bool.and_eq_true] at this
    exact (isOption_rustOf ft sf.ty.quals).trans this.2
  · intro g hg hfl
    obtain ⟨gid, fr, hm, hfr, rfl⟩ := mem_fieldsOfR_flatten hg ht hfl
    obtain ⟨x, hf, hser⟩ := hmemrt gid fr hm hfr
    exact ⟨x, hf, by rw [hser, hmc gid fr hm hfr]⟩

end RTR


/-! ## the round trip, by induction on the size of the payload -/

/-- Rust field names pairwise distinct in every struct of the reachable fragments -/
def RustW (c : Ctx) (G : List Nat) : Prop :=
  ∀ g ∈ G, rustOkSelsR c (fragSels c.q g) = true ∧ EnumSpec.nodup (rustNamesF c (fragSels c.q g)) = true

/-- the induction hypothesis: a conforming payload of size `≤ n`, read into a value of size `≤ m`, is written back
    as `canonR n` -/
def RtR (e : Env) (c : Ctx) (G : List Nat) (D : Nat) (n : Nat) : Prop :=
  ∀ (m i : Nat) (sels : List Sel) (name pfx : String), rBody c.s c.q c.o (.object i) sels = true →
    (∀ g ∈ spreadIdss sels, g ∈ G) → BodyEnvR e c name pfx sels → keysOksF c.s c.q sels = true →
    EnumSpec.nodup (expKeys c.s c.q sels) = true → selsDepth sels ≤ D → rustOkSelsR c sels = true →
    EnumSpec.nodup (rustNamesF c sels) = true →
    ∀ b fd fs k, 4 * n + 2 * D + 4 ≤ fd → 4 * m + 2 * D + 4 ≤ fs → 2 * n ≤ k →
    ∀ j v, jsonSize j ≤ n → valSize v ≤ m → conformsV c.s i (sels.map (expandR c.q k)) j = true →
      dePath e b fd name j = .ok v → serPath e fs name v = .ok (canonR c.s c.q c.o.skipNone n sels j)

section RTR2
variable {e : Env} {c : Ctx} {G : List Nat} {D : Nat} (W : RWorld e c G D) (hR : RustW c G)
variable {n : Nat} (IH : RtR e c G D n)
include IH

/-- one own field -/
theorem rtFieldR (pfx : String) (p : TypeId) (a : Option String) (fid : Nat) (sub : List Sel)
    (ht : rSel c.s c.q c.o p (.field a fid sub) = true) (henv : envSelR e c pfx (.field a fid sub))
    (hko : keysOkF c.s c.q (.field a fid sub) = true) (hro : rustOkSelR c (.field a fid sub) = true)
    (hG : ∀ g ∈ spreadIdss sub, g ∈ G) (hD : selDepth (.field a fid sub) ≤ D)
    (f : RField) (hf : fieldOfSelV c pfx (.field a fid sub) = some f) (b : Bool) (fd fs k m : Nat)
    (hfd : 4 * n + 2 * D + 4 ≤ fd) (hfs : 4 * m + 2 * D + 4 ≤ fs) (hk : 2 * n ≤ k) (v : Json) (y : Val)
    (hv : jsonSize v ≤ n) (hy : valSize y ≤ m)
    (hst : strictFieldV c.s (expandR c.q (k + 1) (.field a fid sub)) v = true)
    (hd : deFieldWith (dePath e b fd) f v = .ok y) :
    serTyWith (serPath e fs) f.ty y =
      .ok (canonFieldP c.s c.o.skipNone (canonR c.s c.q c.o.skipNone n) (.field a fid sub) v) := by
  obtain ⟨sf, ft, hsf, _, hf', hw⟩ := fieldOfSelV_r c pfx p a fid sub ht
  rw [selDepth] at hD
  by_cases hobj : ∃ i, sf.ty.id = .object i
  · obtain ⟨i, hid⟩ := hobj
    have hwf : wf (gtyOf sf.ty.quals) = true := by rw [wf_gtyOf]; exact hw
    rw [rSel] at ht
    rw [envSelR] at henv
    rw [keysOkF, Bool.and_eq_true] at hko
    simp only [expandR, strictFieldV] at hst
    rw [canonFieldP]
    simp only [hsf, hid, Bool.and_eq_true, Option.map_some] at ht henv hst ⊢
    simp only [fieldOfSelV, hsf, leafNameV, hid, Option.some.injEq] at hf
    subst hf
    have hbody : rBody c.s c.q c.o (.object i) sub = true := ht.2.2
    have henvB : BodyEnvR e c (pfx ++ c.cs.camel (a.getD sf.name)) (pfx ++ c.cs.camel (a.getD sf.name)) sub := henv
    have hroB : rustOkSelsR c sub = true ∧ EnumSpec.nodup (rustNamesF c sub) = true := by
      by_cases hsp : ∃ g, sub = [Sel.spread g]
      · obtain ⟨g, rfl⟩ := hsp
        exact ⟨by simp [rustOkSelsR, rustOkSelR], by simp [rustNamesF, rustNameF, EnumSpec.nodup]⟩
      · have hnl : ∀ g, sub ≠ [Sel.spread g] := fun g hg => hsp ⟨g, hg⟩
        unfold rustOkSelR at hro
        simp only [hsf, hid, Option.map_some] at hro
        have : (EnumSpec.nodup (rustNamesF c sub) && rustOkSelsR c sub) = true := by
          first
            | exact hro
            | (revert hro; split <;> first | exact fun _ => absurd rfl (hnl _) | exact id)
        rw [Bool.and_eq_true] at this
        exact ⟨this.2, this.1⟩
    rw [deField_plain _ _ _ _ (bodyEnvR_ne_ID henvB)] at hd
    let L : Json → Bool := fun j =>
      conformsAt c.s (.object i) (sub.map (expandR c.q k)) j && decide (jsonSize j ≤ n)
    have hacc : accepts L (gtyOf sf.ty.quals) v = true := by
      refine accepts_mono_size _ L n ?_ _ v hv hst
      intro j hj h
      simp only [L, h, hj, decide_true, Bool.and_self]
    refine (leaf_roundtrip_on_size (dePath e b fd) (serPath e fs) _ L
      (canonR c.s c.q c.o.skipNone n sub) m ?_ _ hwf).2 v y hacc hy hd
    intro j w hL hw' hdw
    simp only [L, Bool.and_eq_true, decide_eq_true_eq] at hL
    obtain ⟨hc, hjs⟩ := hL
    simp only [conformsAt, List.any_eq_true, List.mem_range, Bool.and_eq_true, fragApplies, beq_iff_eq] at hc
    obtain ⟨rt, _, hrt, hcv⟩ := hc
    subst hrt
    exact IH m i sub _ _ hbody hG henvB hko.2 hko.1 (by omega) hroB.1 hroB.2 b fd fs k hfd hfs hk j w hjs hw' hcv hdw
  · have hno : ∀ i, sf.ty.id ≠ .object i := fun i h => hobj ⟨i, h⟩
    have hvs := vSel_of_rSel_nonobj ht hsf hno
    have henv' : envSelV e c pfx (.field a fid sub) := by
      rw [envSelR] at henv
      simp only [hsf] at henv
      cases hid : sf.ty.id with
      | object i => exact absurd hid (hno i)
      | scalar k => simpa [hid] using henv
      | «enum» k => simpa [hid] using henv
      | interface k => simpa [hid] using henv
      | union k => simpa [hid] using henv
      | input k => simpa [hid] using henv
    have hro' : rustOkSelV c (.field a fid sub) = true := by
      unfold rustOkSelR at hro
      simp only [hsf, Option.map_some] at hro
      cases hid : sf.ty.id with
      | object i => exact absurd hid (hno i)
      | scalar k => simpa [hid] using hro
      | «enum» k => simpa [hid] using hro
      | interface k => simpa [hid] using hro
      | union k => simpa [hid] using hro
      | input k => simpa [hid] using hro
    have hl : canonFieldP c.s c.o.skipNone (canonR c.s c.q c.o.skipNone n) (.field a fid sub) v =
        canonFieldV c.s c.o.skipNone (.field a fid sub) v := by
      rw [canonFieldP]
      simp only [hsf]
    rw [hl]
    rw [expandR_noSpread c.q _ _ (noSpread_of_vSel c.s c.o _ false hvs)] at hst
    exact (rtSelV e c _ pfx).1 false hvs henv' hro' f hf b fd fs (by rw [selDepth]; omega) (by rw [selDepth]; omega)
      v y hst hd

include W in
/-- round trip of a struct with members, given the round trip of the members -/
theorem rtStructR_gen (mm : Nat) (pfx name : String) (i : Nat) (sels : List Sel)
    (ht : rSels c.s c.q c.o (.object i) sels = true) (henv : envSelsR e c pfx sels)
    (hko : keysOksF c.s c.q sels = true) (hkeys : EnumSpec.nodup (expKeys c.s c.q sels) = true)
    (hG : ∀ g ∈ spreadIdss sels, g ∈ G) (hD : selsDepth sels ≤ D)
    (hro : rustOkSelsR c sels = true) (hrn : EnumSpec.nodup (rustNamesF c sels) = true)
    (hs : StructEnv e name (fieldsOfR c pfx sels)) (b : Bool) (fd fs k : Nat)
    (hfd : 4 * n + 2 * D + 4 ≤ fd + 2) (hfs : 4 * mm + 2 * D + 4 ≤ fs) (hk : 2 * n ≤ k)
    (kvs : List (String × Json)) (hsz : kvsSize kvs ≤ n) (hnd : (kvs.map (·.1)).Nodup)
    (hconf : confSelsV c.s i (sels.map (expandR c.q (k + 1))) kvs = true)
    (HM : ∀ g fr, Sel.spread g ∈ sels → c.q.fragments[g]? = some fr → ∀ own,
      deOwnWith (dePath e true (fd + 1 - boxCost (spreadFieldR c g fr).ty))
        (fieldsOfV c (c.cs.camel fr.name) fr.sels) kvs = .ok own → valSize (.record own) ≤ mm →
      serPath e fs fr.name (.record own) =
        .ok (.obj (canonOwnP c.s c.o.skipNone (canonR c.s c.q c.o.skipNone n) fr.sels kvs)))
    (v : Val) (hvs : valSize v ≤ mm + 1) (hd : dePath e b (fd + 3) name (.obj kvs) = .ok v) :
    serPath e (fs + 1) name v =
      .ok (.obj (canonEntriesP c.s c.q c.o.skipNone (canonR c.s c.q c.o.skipNone n) sels kvs)) := by
  refine rtStructR_core W _ mm pfx name i sels ht (fun g hg => hG g (mem_spreadIdss_spread hg)) hkeys hrn hs b fd fs
    kvs hnd ?_ HM v hvs hd
  intro a fid sub hx f hfx j x hl hdx hxs
  obtain ⟨sf, ft, hsf, _, hf', _⟩ := fieldOfSelV_r c pfx _ a fid sub (rSels_mem ht _ hx)
  rw [hf'] at hfx
  cases hfx
  rw [fieldOf_wire] at hl
  have hst : strictFieldV c.s (expandR c.q (k + 1) (.field a fid sub)) j = true := by
    have := confSelsV_mem hconf _ (List.mem_map_of_mem hx)
    have hexp : expandR c.q (k + 1) (.field a fid sub) = .field a fid (sub.map (expandR c.q k)) := rfl
    rw [hexp, confSelV_field] at this
    rw [hexp]
    simpa [hsf, hl] using this
  have hjs := jsonSize_lookup hl
  exact rtFieldR IH pfx _ a fid sub (rSels_mem ht _ hx) (envSelsR_mem henv _ hx) (keysOksF_mem hko _ hx)
    (rustOkSelsR_mem hro _ hx) (fun g hg => hG g (mem_spreadIdss_field hx hg))
    (by have := C02.selDepth_le_of_mem hx; omega) _ hf' b (fd + 2) fs k mm hfd hfs hk j x (by omega) hxs hst hdx

end RTR2

theorem not_mem_spread_of_noTop {sels : List Sel} (h : sels.any isSpread = false) (g : Nat) : Sel.spread g ∉ sels := by
  intro hm
  have := List.any_eq_false.mp h _ hm
  simp [isSpread] at this

theorem serPath_aliasR (e : Env) (name target n : String) (pub bx : Bool)
    (hfind : e.find name = some (.alias n pub (if bx then .box (.path target) else .path target)))
    (fs : Nat) (v : Val) : serPath e (fs + 2) name v = serPath e (fs + 1) target v := by
  rw [serPath, serPath]
  cases hp : serPrim v with
  | some j => rfl
  | none =>
    simp only [hfind]
    cases bx <;> simp only [serTyWith, Bool.false_eq_true, ↓reduceIte] <;> rw [serPath] <;> simp only [hp]

section RTR3
variable {e : Env} {c : Ctx} {G : List Nat} {D : Nat} (W : RWorld e c G D) (hR : RustW c G)
variable {n : Nat} (IH : RtR e c G D n)
include W IH

/-- round trip of a struct without members (the struct of a fragment) -/
theorem rtPlainR (mm : Nat) (pfx name : String) (i : Nat) (sels : List Sel)
    (ht : rSels c.s c.q c.o (.object i) sels = true) (hnt : sels.any isSpread = false)
    (henv : envSelsR e c pfx sels)
    (hko : keysOksF c.s c.q sels = true) (hkeys : EnumSpec.nodup (expKeys c.s c.q sels) = true)
    (hG : ∀ g ∈ spreadIdss sels, g ∈ G) (hD : selsDepth sels ≤ D)
    (hro : rustOkSelsR c sels = true) (hrn : EnumSpec.nodup (rustNamesF c sels) = true)
    (hs : StructEnv e name (fieldsOfR c pfx sels)) (b : Bool) (fd fs k : Nat)
    (hfd : 4 * n + 2 * D + 4 ≤ fd + 2) (hfs : 4 * mm + 2 * D + 4 ≤ fs) (hk : 2 * n ≤ k)
    (kvs : List (String × Json)) (hsz : kvsSize kvs ≤ n) (hnd : (kvs.map (·.1)).Nodup)
    (hconf : confSelsV c.s i (sels.map (expandR c.q (k + 1))) kvs = true)
    (v : Val) (hvs : valSize v ≤ mm + 1) (hd : dePath e b (fd + 3) name (.obj kvs) = .ok v) :
    serPath e (fs + 1) name v =
      .ok (.obj (canonEntriesP c.s c.q c.o.skipNone (canonR c.s c.q c.o.skipNone n) sels kvs)) :=
  rtStructR_gen W IH mm pfx name i sels ht henv hko hkeys hG hD hro hrn hs b fd fs k hfd hfs hk kvs hsz hnd hconf
    (fun g fr hm => absurd hm (not_mem_spread_of_noTop hnt g)) v hvs hd

include hR in
/-- **round trip of the struct of an object-level selection set with (possibly boxed) flattened members** -/
theorem rtStructR (mm : Nat) (pfx name : String) (i : Nat) (sels : List Sel)
    (ht : rSels c.s c.q c.o (.object i) sels = true) (henv : envSelsR e c pfx sels)
    (hko : keysOksF c.s c.q sels = true) (hkeys : EnumSpec.nodup (expKeys c.s c.q sels) = true)
    (hG : ∀ g ∈ spreadIdss sels, g ∈ G) (hD : selsDepth sels ≤ D)
    (hro : rustOkSelsR c sels = true) (hrn : EnumSpec.nodup (rustNamesF c sels) = true)
    (hs : StructEnv e name (fieldsOfR c pfx sels)) (b : Bool) (fd fs k : Nat)
    (hfd : 4 * n + 2 * D + 4 ≤ fd) (hfs : 4 * mm + 2 * D + 4 ≤ fs) (hk : 2 * n ≤ k)
    (kvs : List (String × Json)) (hsz : kvsSize kvs ≤ n) (hnd : (kvs.map (·.1)).Nodup)
    (hconf : confSelsV c.s i (sels.map (expandR c.q (k + 2))) kvs = true)
    (v : Val) (hvs : valSize v ≤ mm + 1) (hd : dePath e b (fd + 3) name (.obj kvs) = .ok v) :
    serPath e (fs + 1) name v =
      .ok (.obj (canonEntriesP c.s c.q c.o.skipNone (canonR c.s c.q c.o.skipNone n) sels kvs)) := by
  refine rtStructR_gen W IH mm pfx name i sels ht henv hko hkeys hG hD hro hrn hs b fd fs (k + 1) (by omega) hfs
    (by omega) kvs hsz hnd hconf ?_ v hvs hd
  intro g fr hm hfr own hown hosz
  have hgG : g ∈ G := hG g (mem_spreadIdss_spread hm)
  obtain ⟨fr', i', hfr', hon', hsels, _, hnt, hr, hsenv, henvs, hko', hkeys', hcl, hdep⟩ := world_frag W hgG
  rw [hfr] at hfr'; cases hfr'
  have hsok : spreadOk c.q (.object i) g = true := by simpa [rSel] using rSels_mem ht _ hm
  obtain ⟨fr'', hfr'', hon, _⟩ := spreadOk_parts hsok
  rw [hfr] at hfr''; cases hfr''
  have hii : i' = i := by rw [hon] at hon'; cases hon'; rfl
  subst hii
  have hRg := hR g hgG
  rw [hsels] at hRg
  have hbc := boxCost_spreadFieldR c g fr
  -- the member's own conformance
  have hconfg : confSelsV c.s i' (fr.sels.map (expandR c.q (k + 1))) kvs = true := by
    have := confSelsV_mem hconf _ (List.mem_map_of_mem hm)
    have hexp : expandR c.q (k + 2) (.spread g) = .inline fr.on (fr.sels.map (expandR c.q (k + 1))) := by
      simp [expandR, hfr]
    rw [hexp] at this
    simpa [confSelV, hon, fragApplies] using this
  obtain ⟨F, hF⟩ : ∃ F, fd + 1 - boxCost (spreadFieldR c g fr).ty = F + 2 := ⟨fd + 1 - boxCost (spreadFieldR c g fr).ty - 2, by omega⟩
  rw [hF] at hown
  obtain ⟨hp, _, nm, d, cr, hfind⟩ := hsenv
  have hs' : StructEnv e fr.name (fieldsOfR c (c.cs.camel fr.name) fr.sels) := by
    rw [fieldsOfR_noTop c _ fr.sels hnt]; exact ⟨hp, by assumption, nm, d, cr, hfind⟩
  have hd' : dePath e true (F + 3) fr.name (.obj kvs) = .ok (.record own) := by
    rw [dePath_struct e true (F + 2) fr.name nm d cr _ hp hfind, deStruct_obj,
      deStructMap_plain _ _ _ _ (plain_fieldsOfV c _ fr.sels), hown]; rfl
  have hmm : 1 ≤ mm := by rw [valSize_record] at hosz; omega
  obtain ⟨fs', rfl⟩ : ∃ fs', fs = fs' + 1 := ⟨fs - 1, by omega⟩
  have := rtPlainR W IH (mm - 1) (c.cs.camel fr.name) fr.name i' fr.sels hr hnt henvs hko' hkeys' hcl hdep hRg.1 hRg.2
    hs' true F fs' k (by omega) (by omega) hk kvs hsz hnd hconfg (.record own) (by omega) hd'
  rw [this, canonEntriesP_noTop c.s c.q c.o.skipNone _ kvs fr.sels hnt]

end RTR3

section RTR4
variable {e : Env} {c : Ctx} {G : List Nat} {D : Nat} (W : RWorld e c G D) (hR : RustW c G)
include W hR

theorem rtR_succ {n : Nat} (IH : RtR e c G D n) : RtR e c G D (n + 1) := by
  intro m i sels name pfx ht hG henv hko hkeys hD hro hrn b fd fs k hfd hfs hk j v hj hv hc hd
  cases j with
  | obj kvs =>
    rw [jsonSize_obj] at hj
    simp only [conformsV, Bool.and_eq_true] at hc
    have hnd := nodup_iff'.mp hc.1.1
    obtain ⟨k', rfl⟩ : ∃ k', k = k' + 2 := ⟨k - 2, by omega⟩
    have hvpos := valSize_pos v
    obtain ⟨mm, rfl⟩ : ∃ mm, m = mm + 1 := ⟨m - 1, by omega⟩
    by_cases hsp : ∃ g, sels = [Sel.spread g]
    · obtain ⟨g, rfl⟩ := hsp
      have hgG : g ∈ G := hG g (by simp [spreadIdss, spreadIds])
      obtain ⟨fr, i', hfr, hon', hsels, hname, hnt, hr, hsenv, henvs, hko', hkeys', hcl, hdep⟩ := world_frag W hgG
      have hsok : spreadOk c.q (.object i) g = true := ht
      obtain ⟨fr'', hfr'', hon, _⟩ := spreadOk_parts hsok
      rw [hfr] at hfr''; cases hfr''
      have hii : i' = i := by rw [hon] at hon'; cases hon'; rfl
      subst hii
      have hRg := hR g hgG
      rw [hsels] at hRg
      obtain ⟨hp, _, nm, pub, bx, hfind⟩ := (henv : AliasEnvR e name (fragName c g))
      rw [hname] at hfind
      obtain ⟨fd', rfl⟩ : ∃ fd', fd = fd' + 4 := ⟨fd - 4, by omega⟩
      obtain ⟨fs', rfl⟩ : ∃ fs', fs = fs' + 2 := ⟨fs - 2, by omega⟩
      have hstep : dePath e b (fd' + 3 + 1) name (.obj kvs) = dePath e b (fd' + 3) fr.name (.obj kvs) := by
        rw [dePath]; simp only [dePrim_none hp, hfind]
        cases bx <;> simp [deTyWith]
      rw [hstep] at hd
      rw [serPath_aliasR e name fr.name nm pub bx hfind]
      have hconfg : confSelsV c.s i' (fr.sels.map (expandR c.q (k' + 1))) kvs = true := by
        have h2 := hc.2
        have hexp : expandR c.q (k' + 2) (.spread g) = .inline fr.on (fr.sels.map (expandR c.q (k' + 1))) := by
          simp [expandR, hfr]
        simp only [List.map_cons, List.map_nil, hexp, confSelsV, confSelV, hon, fragApplies, beq_self_eq_true,
          Bool.not_true, Bool.false_or, Bool.and_true] at h2
        exact h2
      have hs' : StructEnv e fr.name (fieldsOfR c (c.cs.camel fr.name) fr.sels) := by
        rw [fieldsOfR_noTop c _ fr.sels hnt]; exact hsenv
      have := rtPlainR W IH mm (c.cs.camel fr.name) fr.name i' fr.sels hr hnt henvs hko' hkeys' hcl hdep hRg.1 hRg.2
        hs' b fd' fs' k' (by omega) (by omega) (by omega) kvs (by omega) hnd hconfg v hv hd
      rw [this]
      simp only [canonR, canonBodyP, canonStructP, hsels]
    · have hnl : ∀ g, sels ≠ [Sel.spread g] := fun g hg => hsp ⟨g, hg⟩
      have henv' : StructEnv e name (fieldsOfR c pfx sels) ∧ envSelsR e c pfx sels := by
        unfold BodyEnvR at henv
        revert henv
        split
        · exact fun _ => absurd rfl (hnl _)
        · exact id
      rw [rBody_not_lone hnl] at ht
      obtain ⟨fd', rfl⟩ : ∃ fd', fd = fd' + 3 := ⟨fd - 3, by omega⟩
      obtain ⟨fs', rfl⟩ : ∃ fs', fs = fs' + 1 := ⟨fs - 1, by omega⟩
      have := rtStructR W hR IH mm pfx name i sels ht henv'.2 hko hkeys hG hD hro hrn henv'.1 b fd' fs' k'
        (by omega) (by omega) (by omega) kvs (by omega) hnd hc.2 v hv hd
      rw [this]
      simp only [canonR, canonBodyP, canonStructP]
  | null => simp [conformsV] at hc
  | bool _ => simp [conformsV] at hc
  | int _ => simp [conformsV] at hc
  | num _ => simp [conformsV] at hc
  | str _ => simp [conformsV] at hc
  | arr _ => simp [conformsV] at hc

/-- **round trip of the type emitted for an object-level selection set of `RecFragmentOp`** -/
theorem rtR : ∀ n, RtR e c G D n
  | 0 => by
    intro _ _ _ _ _ _ _ _ _ _ _ _ _ _ _ _ _ _ _ _ j _ hj
    have := jsonSize_pos j; omega
  | n + 1 => rtR_succ W hR (rtR n)

end RTR4


/-! ## `serde_json::to_value` normalisation leaves the canonical form alone -/

theorem canonEntryP_keys (s : Schema) (skip : Bool) (crec : List Sel → Json → Json) (a : Option String) (fid : Nat)
    (sub : List Sel) (kvs : List (String × Json)) :
    ((canonEntryP s skip crec a fid sub kvs).map (·.1)).Sublist
      (match s.fields[fid]? with | some sf => [a.getD sf.name] | none => []) := by
  unfold canonEntryP
  cases hsf : s.fields[fid]? with
  | none => simp
  | some sf =>
    simp only []
    cases Json.lookup (a.getD sf.name) kvs with
    | none => simp only []; split <;> simp
    | some v => simp only []; split <;> simp

theorem canonOwnP_keys (s : Schema) (q : Query) (skip : Bool) (crec : List Sel → Json → Json) (kvs : List (String × Json)) :
    ∀ sels : List Sel, ((canonOwnP s skip crec sels kvs).map (·.1)).Sublist (fieldKeys s sels)
  | [] => by simp [canonOwnP, fieldKeys]
  | x :: xs => by
    have ih := canonOwnP_keys s q skip crec kvs xs
    cases x with
    | field a fid sub =>
      rw [canonOwnP, List.map_append]
      have h1 := canonEntryP_keys s skip crec a fid sub kvs
      have : fieldKeys s (.field a fid sub :: xs) =
          (match s.fields[fid]? with | some sf => [a.getD sf.name] | none => []) ++ fieldKeys s xs := by
        simp only [fieldKeys, List.filterMap_cons, fieldKey]
        cases s.fields[fid]? <;> simp
      rw [this]
      exact h1.append ih
    | spread g => simpa [canonOwnP, fieldKeys, List.filterMap_cons, fieldKey] using ih
    | inline t sub => simpa [canonOwnP, fieldKeys, List.filterMap_cons, fieldKey] using ih
    | typename => simpa [canonOwnP, fieldKeys, List.filterMap_cons, fieldKey] using ih

theorem canonEntriesP_keys (s : Schema) (q : Query) (skip : Bool) (crec : List Sel → Json → Json)
    (kvs : List (String × Json)) :
    ∀ sels : List Sel, ((canonEntriesP s q skip crec sels kvs).map (·.1)).Sublist (expKeys s q sels)
  | [] => by simp [canonEntriesP, expKeys]
  | x :: xs => by
    have ih := canonEntriesP_keys s q skip crec kvs xs
    cases x with
    | field a fid sub =>
      rw [canonEntriesP, List.map_append]
      simp only [expKeys]
      exact (canonEntryP_keys s skip crec a fid sub kvs).append ih
    | spread g =>
      rw [canonEntriesP, List.map_append]
      simp only [expKeys]
      exact (canonOwnP_keys s q skip crec kvs (fragSels q g)).append ih
    | inline t sub => simpa [canonEntriesP, expKeys] using ih
    | typename => simpa [canonEntriesP, expKeys] using ih

section NormR
variable (s : Schema) (q : Query) (o : Options) (skip : Bool) (G : List Nat)
  (hok : ∀ g ∈ G, fragBodyOk s q o g = true)
  (hcl : ∀ g ∈ G, ∀ g' ∈ spreadIdss (fragSels q g), g' ∈ G)
  (hkG : ∀ g ∈ G, keysOksF s q (fragSels q g) = true ∧ EnumSpec.nodup (expKeys s q (fragSels q g)) = true)

def NormR (n : Nat) : Prop :=
  ∀ k, 2 * n ≤ k → ∀ i sels j, jsonSize j ≤ n → rBody s q o (.object i) sels = true →
    (∀ g ∈ spreadIdss sels, g ∈ G) → keysOksF s q sels = true → EnumSpec.nodup (expKeys s q sels) = true →
    conformsV s i (sels.map (expandR q k)) j = true →
    normJson (canonR s q skip n sels j) = canonR s q skip n sels j

variable {n : Nat} (IH : NormR s q o skip G n)
include IH

theorem normFieldR (p : TypeId) (a : Option String) (fid : Nat) (sub : List Sel)
    (ht : rSel s q o p (.field a fid sub) = true) (hko : keysOkF s q (.field a fid sub) = true)
    (hG : ∀ g ∈ spreadIdss sub, g ∈ G) (k : Nat) (hk : 2 * n ≤ k) (v : Json) (hv : jsonSize v ≤ n)
    (hst : strictFieldV s (expandR q (k + 1) (.field a fid sub)) v = true) :
    normJson (canonFieldP s skip (canonR s q skip n) (.field a fid sub) v) =
      canonFieldP s skip (canonR s q skip n) (.field a fid sub) v := by
  cases hsf : s.fields[fid]? with
  | none => rw [rSel] at ht; simp [hsf] at ht
  | some sf =>
    by_cases hobj : ∃ i, sf.ty.id = .object i
    · obtain ⟨i, hid⟩ := hobj
      rw [rSel] at ht
      rw [keysOkF, Bool.and_eq_true] at hko
      simp only [expandR, strictFieldV] at hst
      rw [canonFieldP]
      simp only [hsf, hid, Bool.and_eq_true] at ht hst ⊢
      let L : Json → Bool := fun j =>
        conformsAt s (.object i) (sub.map (expandR q k)) j && decide (jsonSize j ≤ n)
      have hacc : accepts L (gtyOf sf.ty.quals) v = true := by
        refine accepts_mono_size _ L n ?_ _ v hv hst
        intro j hj h
        simp only [L, h, hj, decide_true, Bool.and_self]
      refine (norm_canon L (canonR s q skip n sub) ?_ _).2 v hacc
      intro j hL
      simp only [L, Bool.and_eq_true, decide_eq_true_eq] at hL
      obtain ⟨hc, hjs⟩ := hL
      simp only [conformsAt, List.any_eq_true, List.mem_range, Bool.and_eq_true, fragApplies, beq_iff_eq] at hc
      obtain ⟨rt, _, hrt, hcv⟩ := hc
      subst hrt
      exact IH k hk i sub j hjs ht.2.2 hG hko.2 hko.1 hcv
    · have hno : ∀ i, sf.ty.id ≠ .object i := fun i h => hobj ⟨i, h⟩
      have hv' := vSel_of_rSel_nonobj ht hsf hno
      have hl : canonFieldP s skip (canonR s q skip n) (.field a fid sub) v = canonFieldV s skip (.field a fid sub) v := by
        rw [canonFieldP]
        simp only [hsf]
      rw [hl]
      rw [expandR_noSpread q _ _ (noSpread_of_vSel s o _ false hv')] at hst
      exact normFieldV s o skip _ false v hv' hst

theorem normEntryR (p : TypeId) (i : Nat) (a : Option String) (fid : Nat) (sub : List Sel)
    (ht : rSel s q o p (.field a fid sub) = true) (hko : keysOkF s q (.field a fid sub) = true)
    (hG : ∀ g ∈ spreadIdss sub, g ∈ G) (k : Nat) (hk : 2 * n ≤ k) (kvs : List (String × Json)) (hsz : kvsSize kvs ≤ n)
    (hc : confSelV s i (expandR q (k + 1) (.field a fid sub)) kvs = true) :
    ∀ kv ∈ canonEntryP s skip (canonR s q skip n) a fid sub kvs, normJson kv.2 = kv.2 := by
  have hexp : expandR q (k + 1) (.field a fid sub) = .field a fid (sub.map (expandR q k)) := rfl
  rw [hexp, confSelV_field] at hc
  unfold canonEntryP
  cases hsf : s.fields[fid]? with
  | none => simp
  | some sf =>
    simp only [hsf] at hc ⊢
    cases hl : Json.lookup (a.getD sf.name) kvs with
    | none => simp [hl] at hc
    | some v =>
      simp only [hl] at hc ⊢
      intro kv hkv
      split at hkv
      · simp at hkv
      · simp only [List.mem_singleton] at hkv
        subst hkv
        have := jsonSize_lookup hl
        exact normFieldR s q o skip G IH p a fid sub ht hko hG k hk v (by omega) (by rw [hexp]; exact hc)

theorem normOwnR : ∀ (sels : List Sel) (p : TypeId) (i : Nat) (kvs : List (String × Json)) (k : Nat),
    rSels s q o p sels = true → keysOksF s q sels = true → (∀ g ∈ spreadIdss sels, g ∈ G) → 2 * n ≤ k →
    kvsSize kvs ≤ n → confSelsV s i (sels.map (expandR q (k + 1))) kvs = true →
    ∀ kv ∈ canonOwnP s skip (canonR s q skip n) sels kvs, normJson kv.2 = kv.2
  | [], _, _, _, _, _, _, _, _, _, _ => by simp [canonOwnP]
  | x :: xs, p, i, kvs, k, ht, hko, hG, hk, hsz, hc => by
    obtain ⟨hx, hxs⟩ := rSels_cons ht
    rw [keysOksF, Bool.and_eq_true] at hko
    rw [List.map_cons, confSelsV, Bool.and_eq_true] at hc
    rw [spreadIdss] at hG
    have ih := normOwnR xs p i kvs k hxs hko.2 (fun g hg => hG g (by simp [hg])) hk hsz hc.2
    cases x with
    | field a fid sub =>
      rw [canonOwnP]
      intro kv hkv
      rcases List.mem_append.mp hkv with hkv | hkv
      · exact normEntryR s q o skip G IH p i a fid sub hx hko.1
          (fun g hg => hG g (by rw [spreadIds]; simp [hg])) k hk kvs hsz hc.1 kv hkv
      · exact ih kv hkv
    | spread g => simpa [canonOwnP] using ih
    | inline t sub => simp [rSel] at hx
    | typename => simpa [canonOwnP] using ih

include hok hcl hkG in
theorem normEntriesR (i : Nat) (kvs : List (String × Json)) (hsz : kvsSize kvs ≤ n) :
    ∀ (sels : List Sel) (k : Nat), rSels s q o (.object i) sels = true → keysOksF s q sels = true →
    (∀ g ∈ spreadIdss sels, g ∈ G) → 2 * n ≤ k → confSelsV s i (sels.map (expandR q (k + 2))) kvs = true →
    ∀ kv ∈ canonEntriesP s q skip (canonR s q skip n) sels kvs, normJson kv.2 = kv.2
  | [], _, _, _, _, _, _ => by simp [canonEntriesP]
  | x :: xs, k, ht, hko, hG, hk, hc => by
    obtain ⟨hx, hxs⟩ := rSels_cons ht
    rw [keysOksF, Bool.and_eq_true] at hko
    rw [List.map_cons, confSelsV, Bool.and_eq_true] at hc
    rw [spreadIdss] at hG
    have ih := normEntriesR i kvs hsz xs k hxs hko.2 (fun g hg => hG g (by simp [hg])) hk hc.2
    cases x with
    | field a fid sub =>
      rw [canonEntriesP]
      intro kv hkv
      rcases List.mem_append.mp hkv with hkv | hkv
      · exact normEntryR s q o skip G IH (.object i) i a fid sub hx hko.1
          (fun g hg => hG g (by rw [spreadIds]; simp [hg])) (k + 1) (by omega) kvs hsz hc.1 kv hkv
      · exact ih kv hkv
    | spread g =>
      have hsok : spreadOk q (.object i) g = true := by simpa [rSel] using hx
      obtain ⟨fr, hfr, hon, _⟩ := spreadOk_parts hsok
      have hgG := hG g (by simp [spreadIds])
      obtain ⟨fr', i', hfr', hon', _, _, hr⟩ := fragBodyOk_parts (hok g hgG)
      rw [hfr] at hfr'; cases hfr'
      have hsels : fragSels q g = fr.sels := by simp [fragSels, hfr]
      have hii : i' = i := by rw [hon] at hon'; cases hon'; rfl
      subst hii
      have h1 := hc.1
      have hexp : expandR q (k + 2) (.spread g) = .inline fr.on (fr.sels.map (expandR q (k + 1))) := by
        simp [expandR, hfr]
      rw [hexp] at h1
      simp only [confSelV, hon, fragApplies, beq_self_eq_true, Bool.not_true, Bool.false_or] at h1
      have hclg := hcl g hgG
      have hkg := hkG g hgG
      rw [hsels] at hclg hkg
      rw [canonEntriesP, hsels]
      intro kv hkv
      rcases List.mem_append.mp hkv with hkv | hkv
      · exact normOwnR s q o skip G IH fr.sels (.object i') i' kvs k hr hkg.1 hclg hk hsz h1 kv hkv
      · exact ih kv hkv
    | inline t sub => simp [rSel] at hx
    | typename => simpa [canonEntriesP] using ih

end NormR

section NormR2
variable (s : Schema) (q : Query) (o : Options) (skip : Bool) (G : List Nat)
  (hok : ∀ g ∈ G, fragBodyOk s q o g = true)
  (hcl : ∀ g ∈ G, ∀ g' ∈ spreadIdss (fragSels q g), g' ∈ G)
  (hkG : ∀ g ∈ G, keysOksF s q (fragSels q g) = true ∧ EnumSpec.nodup (expKeys s q (fragSels q g)) = true)
include hok hcl hkG

theorem normR_succ {n : Nat} (IH : NormR s q o skip G n) : NormR s q o skip G (n + 1) := by
  intro k hk i sels j hj ht hG hko hkeys hc
  cases j with
  | obj kvs =>
    rw [jsonSize_obj] at hj
    simp only [conformsV, Bool.and_eq_true] at hc
    obtain ⟨k', rfl⟩ : ∃ k', k = k' + 2 := ⟨k - 2, by omega⟩
    by_cases hsp : ∃ g, sels = [Sel.spread g]
    · obtain ⟨g, rfl⟩ := hsp
      have hsok : spreadOk q (.object i) g = true := ht
      obtain ⟨fr, hfr, hon, _⟩ := spreadOk_parts hsok
      have hgG := hG g (by simp [spreadIdss, spreadIds])
      obtain ⟨fr', i', hfr', hon', _, hnt, hr⟩ := fragBodyOk_parts (hok g hgG)
      rw [hfr] at hfr'; cases hfr'
      have hsels : fragSels q g = fr.sels := by simp [fragSels, hfr]
      have hii : i' = i := by rw [hon] at hon'; cases hon'; rfl
      subst hii
      have h2 := hc.2
      have hexp : expandR q (k' + 2) (.spread g) = .inline fr.on (fr.sels.map (expandR q (k' + 1))) := by
        simp [expandR, hfr]
      simp only [List.map_cons, List.map_nil, hexp, confSelsV, confSelV, hon, fragApplies, beq_self_eq_true,
        Bool.not_true, Bool.false_or, Bool.and_true] at h2
      have hclg := hcl g hgG
      have hkg := hkG g hgG
      rw [hsels] at hclg hkg
      simp only [canonR, canonBodyP, canonStructP, hsels]
      refine normJson_obj_fixed _ ((canonEntriesP_keys s q skip _ kvs fr.sels).nodup (nodup_iff'.mp hkg.2)) ?_
      rw [canonEntriesP_noTop s q skip _ kvs fr.sels hnt]
      exact normOwnR s q o skip G IH fr.sels (.object i') i' kvs k' hr hkg.1 hclg (by omega) (by omega) h2
    · have hnl : ∀ g, sels ≠ [Sel.spread g] := fun g hg => hsp ⟨g, hg⟩
      rw [rBody_not_lone hnl] at ht
      simp only [canonR, canonBodyP, canonStructP]
      exact normJson_obj_fixed _ ((canonEntriesP_keys s q skip _ kvs sels).nodup (nodup_iff'.mp hkeys))
        (normEntriesR s q o skip G hok hcl hkG IH i kvs (by omega) sels k' ht hko hG (by omega) hc.2)
  | null => simp [conformsV] at hc
  | bool _ => simp [conformsV] at hc
  | int _ => simp [conformsV] at hc
  | num _ => simp [conformsV] at hc
  | str _ => simp [conformsV] at hc
  | arr _ => simp [conformsV] at hc

/-- the canonical form of a conforming response is a `serde_json::to_value` normal form -/
theorem norm_canonR : ∀ n, NormR s q o skip G n
  | 0 => by
    intro _ _ _ _ j hj
    have := jsonSize_pos j; omega
  | n + 1 => normR_succ s q o skip G hok hcl hkG (norm_canonR n)

end NormR2


/-! ## top level -/

/-- Rust field names (own fields and flattened members) pairwise distinct in every struct of the operation and of
    every reachable fragment (decidable; otherwise the module does not compile) -/
def recRustOk (c : Ctx) (op : ROperation) : Bool :=
  rustOkSelsR c op.sels && EnumSpec.nodup (rustNamesF c op.sels) &&
  (usedFrags c.q op.sels).all (fun g =>
    rustOkSelsR c (fragSels c.q g) && EnumSpec.nodup (rustNamesF c (fragSels c.q g)))

theorem serFuel_R (e : Env) (v : Val) (h2 : 2 ≤ e.items.length) :
    4 * valSize v + 2 * e.items.length + 4 ≤ (valSize v + 2) * (e.items.length + e.externs.length + 2) := by
  rw [Nat.add_mul]
  have h1 : valSize v * 4 ≤ valSize v * (e.items.length + e.externs.length + 2) :=
    Nat.mul_le_mul_left _ (by omega)
  omega

/-- **losslessness at the top level** (generic environment) -/
theorem top_losslessR (e : Env) (c : Ctx) (op : ROperation) (ht : RecFragmentOp c op = true)
    (hk : recKeysOk c op = true) (hr : recRustOk c op = true) (he : TopEnvR e c op)
    (j : Json) (k : Nat) (hkj : 2 * jsonSize j ≤ k) (v : Val) (hc : conformsOpR c op k j = true)
    (hd : Serde.de e (.path "ResponseData") j = .ok v) :
    Serde.ser e (.path "ResponseData") v = .ok (canonR c.s c.q c.o.skipNone (jsonSize j) op.sels j) := by
  obtain ⟨_, _, hsels, hcl, hfok⟩ := recFragmentOp_parts ht
  obtain ⟨hcl1, hcl2⟩ := closedFrags_parts hcl
  simp only [recKeysOk, fragKeysOk, Bool.and_eq_true, List.all_eq_true] at hk
  simp only [recRustOk, Bool.and_eq_true, List.all_eq_true] at hr
  have hR : RustW c (usedFrags c.q op.sels) := fun g hg => hr.2 g hg
  rw [de_top] at hd
  have hser := rtR he.world hR (jsonSize j) (valSize v) op.objectId op.sels "ResponseData" (c.cs.camel op.name) hsels
    hcl1 he.root hk.1.1 hk.1.2 he.depth hr.1.1 hr.1.2 false (deFuel e j)
    ((valSize v + 2) * (e.items.length + e.externs.length + 2)) k (deFuel_R e j he.two) (serFuel_R e v he.two) hkj
    j v (Nat.le_refl _) (Nat.le_refl _) hc hd
  unfold Serde.ser serTy
  rw [show serTyWith (serPath e ((valSize v + 2) * (e.items.length + e.externs.length + 2))) (.path "ResponseData") v =
    serPath e ((valSize v + 2) * (e.items.length + e.externs.length + 2)) "ResponseData" v from rfl, hser]
  rw [show (normJson <$> (Except.ok (canonR c.s c.q c.o.skipNone (jsonSize j) op.sels j) : D Json)) =
    .ok (normJson (canonR c.s c.q c.o.skipNone (jsonSize j) op.sels j)) from rfl,
    norm_canonR c.s c.q c.o c.o.skipNone _ hfok hcl2 (fun g hg => hk.2 g hg) (jsonSize j) k hkj op.objectId op.sels j
      (Nat.le_refl _) hsels hcl1 hk.1.1 hk.1.2 hc]

/-- **`recfragment_lossless`.**  A conforming response is written back as `canonR … (jsonSize j) op.sels j`: key order =
    selection order with the entries of a spread fragment at the position of the spread, at every level of the
    recursion; integer IDs as strings; `__typename` dropped on object selections; absent nullable keys as `null`. -/
theorem recfragment_lossless (c : Ctx) (opIdx : Nat) (op : ROperation) (items : List Item)
    (hop : c.q.operations[opIdx]? = some op) (ht : RecFragmentOp c op = true) (hk : recKeysOk c op = true)
    (hr : recRustOk c op = true)
    (hgen : responseForQuery c opIdx = .ok items) (hok : moduleOk c items = true)
    (j : Json) (k : Nat) (hkj : 2 * jsonSize j ≤ k) (hc : conformsOpR c op k j = true) (v : Val)
    (hd : Serde.de (moduleEnv c items) (.path "ResponseData") j = .ok v) :
    Serde.ser (moduleEnv c items) (.path "ResponseData") v =
      .ok (canonR c.s c.q c.o.skipNone (jsonSize j) op.sels j) :=
  top_losslessR (moduleEnv c items) c op ht hk hr (topEnvR_of_module hop ht hk hgen hok) j k hkj v hc hd

/-- both in one statement: `roundtrip j = canonR j` -/
theorem recfragment_roundtrip (c : Ctx) (opIdx : Nat) (op : ROperation) (items : List Item)
    (hop : c.q.operations[opIdx]? = some op) (ht : RecFragmentOp c op = true) (hk : recKeysOk c op = true)
    (hr : recRustOk c op = true)
    (hgen : responseForQuery c opIdx = .ok items) (hok : moduleOk c items = true)
    (j : Json) (k : Nat) (hkj : 2 * jsonSize j ≤ k) (hc : conformsOpR c op k j = true) :
    Serde.roundtrip (moduleEnv c items) (.path "ResponseData") j =
      .ok (canonR c.s c.q c.o.skipNone (jsonSize j) op.sels j) := by
  obtain ⟨v, hv⟩ := recfragment_accepts c opIdx op items hop ht hk hgen hok j k hkj hc
  unfold Serde.roundtrip
  rw [hv]
  exact recfragment_lossless c opIdx op items hop ht hk hr hgen hok j k hkj hc v hv

/-! ## the size bound is not an artefact: any bound `≥ jsonSize j` gives the same verdict / canonical form -/

section Stable
variable (s : Schema) (q : Query) (o : Options)

theorem looseFieldP_congr (rec rec' : Bool → List Sel → Json → Bool) (N : Nat)
    (h : ∀ b sels j, jsonSize j ≤ N → rec b sels j = rec' b sels j) (b : Bool) (x : Sel) (v : Json)
    (hv : jsonSize v ≤ N) : looseFieldP s o rec b x v = looseFieldP s o rec' b x v := by
  cases x with
  | field a fid sub =>
    rw [looseFieldP, looseFieldP]
    cases s.fields[fid]? with
    | none => rfl
    | some sf =>
      simp only []
      split
      · split
        · exact (accepts_congr_size _ _ N (fun j hj => h b sub j hj) _).2 v hv
        · rfl
      · rfl
  | spread g => rfl
  | inline t sub => rfl
  | typename => rfl

theorem looseOwnP_congr (rec rec' : Bool → List Sel → Json → Bool) (N : Nat)
    (h : ∀ b sels j, jsonSize j ≤ N → rec b sels j = rec' b sels j) (b : Bool) (kvs : List (String × Json))
    (hk : kvsSize kvs ≤ N) : ∀ sels, looseOwnP s o rec b sels kvs = looseOwnP s o rec' b sels kvs
  | [] => rfl
  | x :: xs => by
    have ih := looseOwnP_congr rec rec' N h b kvs hk xs
    cases x with
    | field a fid sub =>
      rw [looseOwnP, looseOwnP, ih]
      cases s.fields[fid]? with
      | none => rfl
      | some sf =>
        simp only []
        cases hl : Json.lookup (a.getD sf.name) kvs with
        | none => rfl
        | some v =>
          have := jsonSize_lookup hl
          simp only [looseFieldP_congr s o rec rec' N h b _ v (by omega)]
    | spread g => simpa [looseOwnP] using ih
    | inline t sub => simpa [looseOwnP] using ih
    | typename => simpa [looseOwnP] using ih

theorem looseArrP_congr (rec rec' : Bool → List Sel → Json → Bool) (N : Nat)
    (h : ∀ b sels j, jsonSize j ≤ N → rec b sels j = rec' b sels j) (b : Bool) :
    ∀ sels (xs : List Json), jsonsSize xs ≤ N → looseArrP s o rec b sels xs = looseArrP s o rec' b sels xs
  | [], _, _ => rfl
  | x :: sels, xs, hx => by
    cases x with
    | field a fid sub =>
      cases xs with
      | nil => rfl
      | cons v vs =>
        rw [jsonsSize] at hx
        rw [looseArrP, looseArrP, looseArrP_congr rec rec' N h b sels vs (by omega),
          looseFieldP_congr s o rec rec' N h b _ v (by omega)]
    | spread g => simpa [looseArrP] using looseArrP_congr rec rec' N h b sels xs hx
    | inline t sub => simpa [looseArrP] using looseArrP_congr rec rec' N h b sels xs hx
    | typename => simpa [looseArrP] using looseArrP_congr rec rec' N h b sels xs hx

theorem looseMemP_congr (rec rec' : Bool → List Sel → Json → Bool) (N : Nat)
    (h : ∀ b sels j, jsonSize j ≤ N → rec b sels j = rec' b sels j) (kvs : List (String × Json))
    (hk : kvsSize kvs ≤ N) : ∀ sels, looseMemP s q o rec sels kvs = looseMemP s q o rec' sels kvs
  | [] => rfl
  | x :: xs => by
    have ih := looseMemP_congr rec rec' N h kvs hk xs
    cases x with
    | spread g => rw [looseMemP, looseMemP, ih, looseOwnP_congr s o rec rec' N h true kvs hk]
    | field a fid sub => simpa [looseMemP] using ih
    | inline t sub => simpa [looseMemP] using ih
    | typename => simpa [looseMemP] using ih

theorem looseStructP_congr (rec rec' : Bool → List Sel → Json → Bool) (N : Nat)
    (h : ∀ b sels j, jsonSize j ≤ N → rec b sels j = rec' b sels j) (b : Bool) (sels : List Sel) (j : Json)
    (hj : jsonSize j ≤ N + 1) : looseStructP s q o rec b sels j = looseStructP s q o rec' b sels j := by
  cases j with
  | obj kvs =>
    rw [jsonSize_obj] at hj
    simp only [looseStructP, looseOwnP_congr s o rec rec' N h b kvs (by omega),
      looseMemP_congr s q o rec rec' N h kvs (by omega)]
  | arr xs =>
    rw [jsonSize_arr] at hj
    simp only [looseStructP, looseArrP_congr s o rec rec' N h b sels xs (by omega)]
  | null => rfl
  | bool _ => rfl
  | int _ => rfl
  | num _ => rfl
  | str _ => rfl

/-- **`conformsLooseR` does not depend on the bound**, as long as it is at least the size of the payload -/
theorem conformsLooseR_stable : ∀ (n m : Nat) (b : Bool) (sels : List Sel) (j : Json), jsonSize j ≤ n → jsonSize j ≤ m →
    conformsLooseR s q o n b sels j = conformsLooseR s q o m b sels j
  | 0, _, _, _, j, h, _ => by have := jsonSize_pos j; omega
  | _, 0, _, _, j, _, h => by have := jsonSize_pos j; omega
  | n + 1, m + 1, b, sels, j, hn, hm => by
    have hpos := jsonSize_pos j
    obtain ⟨N, hN⟩ : ∃ N, jsonSize j = N + 1 := ⟨jsonSize j - 1, by omega⟩
    have hrec : ∀ b sels j', jsonSize j' ≤ N → conformsLooseR s q o n b sels j' = conformsLooseR s q o m b sels j' :=
      fun b sels j' hj' => conformsLooseR_stable n m b sels j' (by omega) (by omega)
    simp only [conformsLooseR, looseBodyP]
    split <;> exact looseStructP_congr s q o _ _ N hrec b _ j (by omega)

end Stable

theorem map_congr_mem {α β} {f g : α → β} : ∀ {l : List α}, (∀ x ∈ l, f x = g x) → l.map f = l.map g
  | [], _ => rfl
  | a :: l, h => by
    rw [List.map_cons, List.map_cons, h a (by simp), map_congr_mem (fun x hx => h x (by simp [hx]))]

theorem canon_congr_size (f g : Json → Json) (n : Nat) (h : ∀ j, jsonSize j ≤ n → f j = g j) :
    ∀ t : GTy, (∀ j, jsonSize j ≤ n → canonNN f t j = canonNN g t j) ∧
               (∀ j, jsonSize j ≤ n → canon f t j = canon g t j) := by
  intro t
  induction t with
  | named nm =>
    have hnn : ∀ j, jsonSize j ≤ n → canonNN f (.named nm) j = canonNN g (.named nm) j := by
      intro j hj; simp only [canonNN]; exact h j hj
    exact ⟨hnn, fun j hj => by simp only [canon, hnn j hj]⟩
  | list t ih =>
    have hnn : ∀ j, jsonSize j ≤ n → canonNN f (.list t) j = canonNN g (.list t) j := by
      intro j hj
      cases j with
      | arr xs =>
        simp only [canonNN]
        congr 1
        apply map_congr_mem
        intro x hx
        have := jsonSize_mem hx
        rw [jsonSize_arr] at hj
        exact ih.2 x (by omega)
      | null => simp only [canonNN]
      | bool _ => simp only [canonNN]
      | int _ => simp only [canonNN]
      | num _ => simp only [canonNN]
      | str _ => simp only [canonNN]
      | obj _ => simp only [canonNN]
    exact ⟨hnn, fun j hj => by simp only [canon, hnn j hj]⟩
  | nonNull t ih =>
    exact ⟨fun j hj => by simp only [canonNN]; exact ih.1 j hj, fun j hj => by simp only [canon]; exact ih.1 j hj⟩

section StableC
variable (s : Schema) (q : Query) (skip : Bool)

theorem canonFieldP_congr (cr cr' : List Sel → Json → Json) (N : Nat)
    (h : ∀ sels j, jsonSize j ≤ N → cr sels j = cr' sels j) (x : Sel) (v : Json) (hv : jsonSize v ≤ N) :
    canonFieldP s skip cr x v = canonFieldP s skip cr' x v := by
  cases x with
  | field a fid sub =>
    rw [canonFieldP, canonFieldP]
    cases s.fields[fid]? with
    | none => rfl
    | some sf =>
      simp only []
      split
      · exact (canon_congr_size _ _ N (fun j hj => h sub j hj) _).2 v hv
      · rfl
  | spread g => rfl
  | inline t sub => rfl
  | typename => rfl

theorem canonEntryP_congr (cr cr' : List Sel → Json → Json) (N : Nat)
    (h : ∀ sels j, jsonSize j ≤ N → cr sels j = cr' sels j) (a : Option String) (fid : Nat) (sub : List Sel)
    (kvs : List (String × Json)) (hk : kvsSize kvs ≤ N) :
    canonEntryP s skip cr a fid sub kvs = canonEntryP s skip cr' a fid sub kvs := by
  unfold canonEntryP
  cases s.fields[fid]? with
  | none => rfl
  | some sf =>
    simp only []
    cases hl : Json.lookup (a.getD sf.name) kvs with
    | none => rfl
    | some v =>
      have := jsonSize_lookup hl
      simp only [canonFieldP_congr s skip cr cr' N h _ v (by omega)]

theorem canonOwnP_congr (cr cr' : List Sel → Json → Json) (N : Nat)
    (h : ∀ sels j, jsonSize j ≤ N → cr sels j = cr' sels j) (kvs : List (String × Json)) (hk : kvsSize kvs ≤ N) :
    ∀ sels, canonOwnP s skip cr sels kvs = canonOwnP s skip cr' sels kvs
  | [] => rfl
  | x :: xs => by
    have ih := canonOwnP_congr cr cr' N h kvs hk xs
    cases x with
    | field a fid sub => rw [canonOwnP, canonOwnP, ih, canonEntryP_congr s skip cr cr' N h a fid sub kvs hk]
    | spread g => simpa [canonOwnP] using ih
    | inline t sub => simpa [canonOwnP] using ih
    | typename => simpa [canonOwnP] using ih

theorem canonEntriesP_congr (cr cr' : List Sel → Json → Json) (N : Nat)
    (h : ∀ sels j, jsonSize j ≤ N → cr sels j = cr' sels j) (kvs : List (String × Json)) (hk : kvsSize kvs ≤ N) :
    ∀ sels, canonEntriesP s q skip cr sels kvs = canonEntriesP s q skip cr' sels kvs
  | [] => rfl
  | x :: xs => by
    have ih := canonEntriesP_congr cr cr' N h kvs hk xs
    cases x with
    | field a fid sub =>
      rw [canonEntriesP, canonEntriesP, ih, canonEntryP_congr s skip cr cr' N h a fid sub kvs hk]
    | spread g => rw [canonEntriesP, canonEntriesP, ih, canonOwnP_congr s skip cr cr' N h kvs hk]
    | inline t sub => simpa [canonEntriesP] using ih
    | typename => simpa [canonEntriesP] using ih

theorem canonStructP_congr (cr cr' : List Sel → Json → Json) (N : Nat)
    (h : ∀ sels j, jsonSize j ≤ N → cr sels j = cr' sels j) (sels : List Sel) (j : Json) (hj : jsonSize j ≤ N + 1) :
    canonStructP s q skip cr sels j = canonStructP s q skip cr' sels j := by
  cases j with
  | obj kvs =>
    rw [jsonSize_obj] at hj
    simp only [canonStructP, canonEntriesP_congr s q skip cr cr' N h kvs (by omega)]
  | arr xs => rfl
  | null => rfl
  | bool _ => rfl
  | int _ => rfl
  | num _ => rfl
  | str _ => rfl

/-- **`canonR` does not depend on the bound**, as long as it is at least the size of the payload -/
theorem canonR_stable : ∀ (n m : Nat) (sels : List Sel) (j : Json), jsonSize j ≤ n → jsonSize j ≤ m →
    canonR s q skip n sels j = canonR s q skip m sels j
  | 0, _, _, j, h, _ => by have := jsonSize_pos j; omega
  | _, 0, _, j, _, h => by have := jsonSize_pos j; omega
  | n + 1, m + 1, sels, j, hn, hm => by
    have hpos := jsonSize_pos j
    obtain ⟨N, hN⟩ : ∃ N, jsonSize j = N + 1 := ⟨jsonSize j - 1, by omega⟩
    have hrec : ∀ sels j', jsonSize j' ≤ N → canonR s q skip n sels j' = canonR s q skip m sels j' :=
      fun sels j' hj' => canonR_stable n m sels j' (by omega) (by omega)
    simp only [canonR, canonBodyP]
    split <;> exact canonStructP_congr s q skip _ _ N hrec _ j (by omega)

end StableC

end E2E
end C01
end GqlVerif
