import GqlVerif.Model.Codegen
/-!
# P41 — the alias-or-struct decision of a variant struct follows `has_fields` (fields PUSHED, not rendered)

Rust `ExpandedSelection::render` (`codegen/selection.rs:587`): `has_fields = self.fields.iter().any(|f| f.struct_id == type_id)`
counts the `ExpandedField`s pushed by `calculate_selection`; the strategy `deny` acts only later
(`ExpandedField::render`, through `filter_map`).  The model's `calcVariants` now decides with `pushedAny c.q vt mine`
(`Model/Codegen.lean`) instead of testing the rendered fields `r.1` of `calcVariantSels`.

* `pushedAny_false_fields` (a): `pushedAny = false → r.1 = []`, for every successful `calcVariantSels` call;
* `noDeniedV` (decidable): no field selected directly inside an inline fragment of `mine` is deprecated while the strategy
  is `deny`; `fields_nil_pushedAny_false` (b): under `noDeniedV`, `r.1 = [] → pushedAny = false`;
  `pushedAny_eq_of_noDenied`: so `pushedAny = !r.1.isEmpty` there, and the new decision is the old one
  (`decision_eq_old`); `noDeniedV_of_not_deny`, `noDeniedV_of_fields` give the hypothesis from the two forms the
  existing classes carry (strategy ≠ deny; no selected field deprecated);
* in general (any strategy) the rendered fields are empty iff there is no spread and
  every pushing selection is a denied field (`fields_nil_iff`);
* (c) the witness of the review: `deny_variant_struct_keeps_flatten`, `allow_variant_struct_two_members`,
  and what the old decision gave (`old_decision_alias`).
-/
set_option linter.unusedVariables false
namespace GqlVerif
namespace Pushed
open Codegen

theorem bind_ok {ε α β} {x : Except ε α} {f : α → Except ε β} {b : β} (h : x >>= f = .ok b) :
    ∃ a, x = .ok a ∧ f a = .ok b := by
  cases x with
  | error e => cases h
  | ok a => exact ⟨a, rfl, h⟩

theorem getFragment_ok {q : Query} {i : Nat} {f : RFragment} (h : q.getFragment i = .ok f) : q.fragments[i]? = some f := by
  unfold Query.getFragment at h
  split at h
  · rename_i f' hf
    cases h
    exact hf
  · cases h

theorem getField_ok {s : Schema} {i : Nat} {f : StoredField} (h : s.getField i = .ok f) : s.fields[i]? = some f := by
  unfold Schema.getField at h
  split at h
  · rename_i f' hf
    cases h
    exact hf
  · cases h

/-! ## `renderField` keeps the field unless it is deprecated under `deny` -/

/-- is a field with this deprecation omitted by `ExpandedField::render`? -/
def denied (c : Ctx) (dep : Option (Option String)) : Bool := dep.isSome && c.o.deprecation == .deny

theorem renderField_isSome {c : Ctx} {g : Option String} {r ft : String} {quals : List Qual} {fl bx : Bool}
    {dep : Option (Option String)} {o : Option RField} (h : renderField c g r ft quals fl bx dep = .ok o) :
    o.isSome = !denied c dep := by
  unfold renderField at h
  obtain ⟨ty, _, h⟩ := bind_ok h
  simp only [] at h
  cases dep with
  | none =>
    cases hs : c.o.deprecation <;> simp only [pure, Except.pure, Except.ok.injEq] at h <;>
      (subst h; simp [denied])
  | some m =>
    cases hs : c.o.deprecation <;> simp only [hs, pure, Except.pure, Except.ok.injEq] at h <;>
      (subst h; simp [denied, hs])

theorem renderField_nodep_cons {c : Ctx} {g : Option String} {r ft : String} {quals : List Qual} {fl bx : Bool}
    {o : Option RField} (h : renderField c g r ft quals fl bx none = .ok o) : ∃ x, o.toList = [x] := by
  have := renderField_isSome h
  cases o with
  | none => simp [denied] at this
  | some x => exact ⟨x, rfl⟩

/-! ## the field loop -/

/-- is this selection a field that `ExpandedField::render` omits (deprecated, strategy `deny`)? -/
def selDenied (c : Ctx) : Sel → Bool
  | .field _ fid _ => (match c.s.fields[fid]? with | some sf => denied c sf.deprecation | none => false)
  | _ => false

/-- the rendered field of a field selection is there iff the field is not denied -/
theorem calcFields_field_head {c : Ctx} {f : Nat} {pfx : String} {ty : TypeId} {alias : Option String} {fid : Nat}
    {sub rest : List Sel} {r : List RField × List Item}
    (h : calcFields c (f + 1) pfx ty (.field alias fid sub :: rest) = .ok r) :
    ∃ (fld : Option RField) (r' : List RField × List Item), calcFields c f pfx ty rest = .ok r' ∧
      r.1 = fld.toList ++ r'.1 ∧ fld.isSome = !selDenied c (.field alias fid sub) := by
  rw [calcFields.eq_3] at h
  obtain ⟨sf, hsf, h⟩ := bind_ok h
  simp only [] at h
  have hsd : selDenied c (.field alias fid sub) = denied c sf.deprecation := by
    simp only [selDenied, getField_ok hsf]
  have fin : ∀ {fld : Option RField} {its : List Item},
      (do let x ← calcFields c f pfx ty rest
          (pure (fld.toList ++ x.fst, its ++ x.snd) : Outcome _)) = .ok r →
      ∃ r', calcFields c f pfx ty rest = .ok r' ∧ r.1 = fld.toList ++ r'.1 := by
    intro fld its h
    obtain ⟨r', hr, h⟩ := bind_ok h
    simp only [pure, Except.pure, Except.ok.injEq] at h
    subst h
    exact ⟨r', hr, rfl⟩
  split at h
  · obtain ⟨en, _, h⟩ := bind_ok h
    obtain ⟨fld, hfld, h⟩ := bind_ok h
    simp only [pure_bind] at h
    obtain ⟨r', hr, h1⟩ := fin h
    exact ⟨fld, r', hr, h1, by rw [hsd]; exact renderField_isSome hfld⟩
  · obtain ⟨sn, _, h⟩ := bind_ok h
    obtain ⟨fld, hfld, h⟩ := bind_ok h
    simp only [pure_bind] at h
    obtain ⟨r', hr, h1⟩ := fin h
    exact ⟨fld, r', hr, h1, by rw [hsd]; exact renderField_isSome hfld⟩
  · obtain ⟨x, hx, _⟩ := bind_ok h
    cases hx
  · obtain ⟨fld, hfld, h⟩ := bind_ok h
    obtain ⟨its, _, h⟩ := bind_ok h
    simp only [pure_bind] at h
    obtain ⟨r', hr, h1⟩ := fin h
    exact ⟨fld, r', hr, h1, by rw [hsd]; exact renderField_isSome hfld⟩

/-- **the rendered fields of the field loop are empty iff every pushing selection is a denied field** -/
theorem calcFields_nil_iff {c : Ctx} : ∀ {sels : List Sel} {fuel : Nat} {pfx : String} {ty : TypeId}
    {r : List RField × List Item}, calcFields c fuel pfx ty sels = .ok r →
    (r.1 = [] ↔ ∀ x ∈ sels, selPushes c.q ty x = true → selDenied c x = true)
  | sels, 0, pfx, ty, r, h => by rw [calcFields.eq_1] at h; cases h
  | [], f + 1, pfx, ty, r, h => by
    rw [calcFields.eq_2 _ _ _ _ (by omega)] at h
    simp only [pure, Except.pure, Except.ok.injEq] at h
    subst h
    simp
  | .field a fid sub :: rest, f + 1, pfx, ty, r, h => by
    obtain ⟨fld, r', hr, h1, hs⟩ := calcFields_field_head h
    have ih := calcFields_nil_iff hr
    rw [h1, List.append_eq_nil_iff, ih]
    constructor
    · rintro ⟨hf, hrest⟩ x hx hp
      rcases List.mem_cons.mp hx with rfl | hx
      · cases fld with
        | none => simpa using hs
        | some y => simp at hf
      · exact hrest x hx hp
    · intro hall
      refine ⟨?_, fun x hx => hall x (List.mem_cons_of_mem _ hx)⟩
      have := hall _ List.mem_cons_self rfl
      rw [this] at hs
      cases fld with
      | none => rfl
      | some y => simp at hs
  | .spread g :: rest, f + 1, pfx, ty, r, h => by
    rw [calcFields.eq_4] at h
    obtain ⟨fr, hfr, h⟩ := bind_ok h
    obtain ⟨r', hr, h⟩ := bind_ok h
    have ih := calcFields_nil_iff hr
    have hp : selPushes c.q ty (.spread g) = (fr.on == ty) := by
      simp only [selPushes, getFragment_ok hfr]
    simp only [] at h
    split at h
    · rename_i hc
      simp only [pure, Except.pure, Except.ok.injEq] at h
      subst h
      have hc' : (fr.on == ty) = false := by simpa using hc
      rw [ih]
      constructor
      · intro hrest x hx hpx
        rcases List.mem_cons.mp hx with rfl | hx
        · rw [hp, hc'] at hpx; cases hpx
        · exact hrest x hx hpx
      · exact fun hall x hx => hall x (List.mem_cons_of_mem _ hx)
    · rename_i hc
      obtain ⟨fld, hfld, h⟩ := bind_ok h
      simp only [pure, Except.pure, Except.ok.injEq] at h
      subst h
      obtain ⟨y, hy⟩ := renderField_nodep_cons hfld
      have hc' : (fr.on == ty) = true := by simpa using hc
      constructor
      · intro hnil
        simp [hy] at hnil
      · intro hall
        have := hall _ List.mem_cons_self (by rw [hp, hc'])
        simp [selDenied] at this
  | .inline t sub :: rest, f + 1, pfx, ty, r, h => by
    rw [calcFields.eq_5 _ _ _ _ _ _ (by simp) (by simp)] at h
    rw [calcFields_nil_iff h]
    constructor
    · intro hrest x hx hpx
      rcases List.mem_cons.mp hx with rfl | hx
      · simp [selPushes] at hpx
      · exact hrest x hx hpx
    · exact fun hall x hx => hall x (List.mem_cons_of_mem _ hx)
  | .typename :: rest, f + 1, pfx, ty, r, h => by
    rw [calcFields.eq_5 _ _ _ _ _ _ (by simp) (by simp)] at h
    rw [calcFields_nil_iff h]
    constructor
    · intro hrest x hx hpx
      rcases List.mem_cons.mp hx with rfl | hx
      · simp [selPushes] at hpx
      · exact hrest x hx hpx
    · exact fun hall x hx => hall x (List.mem_cons_of_mem _ hx)

/-- nothing pushed by the field loop ⇒ nothing rendered -/
theorem calcFields_nil_of_not_pushed {c : Ctx} {sels : List Sel} {fuel : Nat} {pfx : String} {ty : TypeId}
    {r : List RField × List Item} (h : calcFields c fuel pfx ty sels = .ok r)
    (hp : sels.any (selPushes c.q ty) = false) : r.1 = [] := by
  rw [calcFields_nil_iff h]
  intro x hx hpx
  have : sels.any (selPushes c.q ty) = true := List.any_eq_true.mpr ⟨x, hx, hpx⟩
  rw [hp] at this; cases this

/-- nothing rendered and nothing denied ⇒ nothing pushed -/
theorem calcFields_not_pushed_of_nil {c : Ctx} {sels : List Sel} {fuel : Nat} {pfx : String} {ty : TypeId}
    {r : List RField × List Item} (h : calcFields c fuel pfx ty sels = .ok r)
    (hd : sels.any (selDenied c) = false) (hnil : r.1 = []) : sels.any (selPushes c.q ty) = false := by
  cases hp : sels.any (selPushes c.q ty) with
  | false => rfl
  | true =>
    obtain ⟨x, hx, hpx⟩ := List.any_eq_true.mp hp
    have := (calcFields_nil_iff h).mp hnil x hx hpx
    have : sels.any (selDenied c) = true := List.any_eq_true.mpr ⟨x, hx, this⟩
    rw [hd] at this; cases this

/-! ## the selections on one variant -/

theorem pushedAny_inline_lone (q : Query) (vt t : TypeId) (g : Nat) (rest : List VariantSel) :
    pushedAny q vt (.inline t [.spread g] :: rest) = pushedAny q vt rest := by
  rw [pushedAny.eq_2]; rfl

theorem pushedAny_inline (q : Query) (vt t : TypeId) {sub : List Sel} (rest : List VariantSel)
    (h : ∀ g, sub ≠ [Sel.spread g]) :
    pushedAny q vt (.inline t sub :: rest) = (sub.any (selPushes q vt) || pushedAny q vt rest) :=
  pushedAny.eq_3 _ _ _ _ _ (fun g hg => h g hg)

theorem pushedAny_spread (q : Query) (vt : TypeId) (g : Nat) (fr : RFragment) (rest : List VariantSel) :
    pushedAny q vt (.spread g fr :: rest) = true := pushedAny.eq_4 ..

theorem pushedAny_cons (q : Query) (vt : TypeId) (v : VariantSel) (rest : List VariantSel) :
    pushedAny q vt (v :: rest) = (pushedAny q vt [v] || pushedAny q vt rest) := by
  cases v with
  | spread g fr => rw [pushedAny_spread, pushedAny_spread]; rfl
  | inline t sub =>
    by_cases h : ∃ g, sub = [Sel.spread g]
    · obtain ⟨g, rfl⟩ := h
      rw [pushedAny_inline_lone, pushedAny_inline_lone]; rfl
    · have h' : ∀ g, sub ≠ [Sel.spread g] := fun g hg => h ⟨g, hg⟩
      rw [pushedAny_inline _ _ _ _ h', pushedAny_inline _ _ _ _ h']
      simp [pushedAny]

theorem pushedAny_append (q : Query) (vt : TypeId) : ∀ (xs ys : List VariantSel),
    pushedAny q vt (xs ++ ys) = (pushedAny q vt xs || pushedAny q vt ys)
  | [], ys => rfl
  | x :: xs, ys => by
    rw [List.cons_append, pushedAny_cons, pushedAny_append q vt xs ys, pushedAny_cons q vt x xs, Bool.or_assoc]

/-- no field selected directly inside an inline fragment of `mine` is deprecated while the strategy is `deny`
    (the condition under which `has_fields` and "some field is rendered" coincide) -/
def noDeniedV (c : Ctx) (mine : List VariantSel) : Bool :=
  mine.all (fun v => match v with
    | .inline _ sub => !sub.any (selDenied c)
    | .spread _ _ => true)

/-- one-step decomposition of `calcVariantSels` at an inline fragment, first component only -/
theorem calcVariantSels_inline_fields {c : Ctx} {f : Nat} {sname pfx : String} {vt t : TypeId} {sub : List Sel}
    {rest : List VariantSel} {r : List RField × List Item × List Item}
    (h : calcVariantSels c (f + 1) sname pfx vt (.inline t sub :: rest) = .ok r) :
    ∃ (fs0 : List RField) (r' : List RField × List Item × List Item),
      calcVariantSels c f sname pfx vt rest = .ok r' ∧ r.1 = fs0 ++ r'.1 ∧
      ((∃ g, sub = [.spread g] ∧ fs0 = []) ∨
       ((∀ g, sub ≠ [Sel.spread g]) ∧ ∃ pfx' items0, calcFields c f pfx' vt sub = .ok (fs0, items0))) := by
  have fin : ∀ {fs0 : List RField} {items0 al0 : List Item},
      (do let x ← calcVariantSels c f sname pfx vt rest
          (pure (fs0 ++ x.fst, items0 ++ x.snd.fst, al0 ++ x.snd.snd) : Outcome _)) = .ok r →
      ∃ r', calcVariantSels c f sname pfx vt rest = .ok r' ∧ r.1 = fs0 ++ r'.1 := by
    intro fs0 items0 al0 h
    obtain ⟨r', hr, h⟩ := bind_ok h
    simp only [pure, Except.pure, Except.ok.injEq] at h
    subst h
    exact ⟨r', hr, rfl⟩
  by_cases hsp : ∃ g, sub = [Sel.spread g]
  · obtain ⟨g, rfl⟩ := hsp
    rw [calcVariantSels.eq_3] at h
    obtain ⟨tn, _, h⟩ := bind_ok h
    simp only [] at h
    obtain ⟨fr, _, h⟩ := bind_ok h
    simp only [pure_bind] at h
    obtain ⟨r', hr, h1⟩ := fin h
    exact ⟨[], r', hr, h1, .inl ⟨g, rfl, rfl⟩⟩
  · rw [calcVariantSels.eq_4 _ _ _ _ _ _ _ _ (fun g hg => hsp ⟨g, hg⟩)] at h
    obtain ⟨tn, _, h⟩ := bind_ok h
    simp only [] at h
    obtain ⟨⟨fs0, items0⟩, hfl, h⟩ := bind_ok h
    simp only [pure_bind] at h
    obtain ⟨r', hr, h1⟩ := fin h
    exact ⟨fs0, r', hr, h1, .inr ⟨fun g hg => hsp ⟨g, hg⟩, _, items0, hfl⟩⟩

theorem calcVariantSels_spread_fields {c : Ctx} {f : Nat} {sname pfx : String} {vt : TypeId} {g : Nat} {fr : RFragment}
    {rest : List VariantSel} {r : List RField × List Item × List Item}
    (h : calcVariantSels c (f + 1) sname pfx vt (.spread g fr :: rest) = .ok r) : ∃ y ys, r.1 = y :: ys := by
  rw [calcVariantSels.eq_5] at h
  obtain ⟨fld, hfld, h⟩ := bind_ok h
  obtain ⟨r', _, h⟩ := bind_ok h
  simp only [pure, Except.pure, Except.ok.injEq] at h
  subst h
  obtain ⟨y, hy⟩ := renderField_nodep_cons hfld
  exact ⟨y, r'.1, by simp [hy]⟩

/-- **(a) nothing pushed for the variant struct ⇒ no rendered field**: wherever the new decision takes the alias, the
    old one did too -/
theorem pushedAny_false_fields {c : Ctx} : ∀ {mine : List VariantSel} {fuel : Nat} {sname pfx : String} {vt : TypeId}
    {r : List RField × List Item × List Item}, calcVariantSels c fuel sname pfx vt mine = .ok r →
    pushedAny c.q vt mine = false → r.1 = []
  | mine, 0, sname, pfx, vt, r, h, _ => by rw [calcVariantSels.eq_1] at h; cases h
  | [], f + 1, sname, pfx, vt, r, h, _ => by
    rw [calcVariantSels.eq_2 _ _ _ _ _ (by omega)] at h
    simp only [pure, Except.pure, Except.ok.injEq] at h
    subst h; rfl
  | .inline t sub :: rest, f + 1, sname, pfx, vt, r, h, hp => by
    obtain ⟨fs0, r', hr, h1, hstep⟩ := calcVariantSels_inline_fields h
    rcases hstep with ⟨g, rfl, rfl⟩ | ⟨hns, pfx', items0, hfl⟩
    · rw [pushedAny_inline_lone] at hp
      rw [h1, pushedAny_false_fields hr hp]; rfl
    · rw [pushedAny_inline _ _ _ _ hns, Bool.or_eq_false_iff] at hp
      have h0 : fs0 = [] := calcFields_nil_of_not_pushed hfl hp.1
      rw [h1, pushedAny_false_fields hr hp.2, h0]; rfl
  | .spread g fr :: rest, f + 1, sname, pfx, vt, r, h, hp => by
    rw [pushedAny_spread] at hp; cases hp

/-- **(b) no rendered field and nothing denied ⇒ nothing pushed**: on every class that excludes denied fields, wherever
    the old decision took the alias, the new one does too -/
theorem fields_nil_pushedAny_false {c : Ctx} : ∀ {mine : List VariantSel} {fuel : Nat} {sname pfx : String} {vt : TypeId}
    {r : List RField × List Item × List Item}, calcVariantSels c fuel sname pfx vt mine = .ok r →
    noDeniedV c mine = true → r.1 = [] → pushedAny c.q vt mine = false
  | mine, 0, sname, pfx, vt, r, h, _, _ => by rw [calcVariantSels.eq_1] at h; cases h
  | [], f + 1, sname, pfx, vt, r, h, _, _ => rfl
  | .inline t sub :: rest, f + 1, sname, pfx, vt, r, h, hd, hnil => by
    obtain ⟨fs0, r', hr, h1, hstep⟩ := calcVariantSels_inline_fields h
    rw [h1, List.append_eq_nil_iff] at hnil
    simp only [noDeniedV, List.all_cons, Bool.and_eq_true] at hd
    have ih := fields_nil_pushedAny_false hr hd.2 hnil.2
    rcases hstep with ⟨g, rfl, rfl⟩ | ⟨hns, pfx', items0, hfl⟩
    · rw [pushedAny_inline_lone]; exact ih
    · rw [pushedAny_inline _ _ _ _ hns, ih, Bool.or_false]
      exact calcFields_not_pushed_of_nil hfl (by simpa using hd.1) hnil.1
  | .spread g fr :: rest, f + 1, sname, pfx, vt, r, h, _, hnil => by
    obtain ⟨y, ys, hy⟩ := calcVariantSels_spread_fields h
    rw [hy] at hnil; cases hnil

/-- under `noDeniedV`: `has_fields` is "some field is rendered" -/
theorem pushedAny_eq_of_noDenied {c : Ctx} {mine : List VariantSel} {fuel : Nat} {sname pfx : String} {vt : TypeId}
    {r : List RField × List Item × List Item} (h : calcVariantSels c fuel sname pfx vt mine = .ok r)
    (hd : noDeniedV c mine = true) : pushedAny c.q vt mine = !r.1.isEmpty := by
  cases hr : r.1 with
  | nil => rw [fields_nil_pushedAny_false h hd hr]; rfl
  | cons y ys =>
    cases hp : pushedAny c.q vt mine with
    | true => rfl
    | false => rw [pushedAny_false_fields h hp] at hr; cases hr

/-- **the old and the new decision coincide** wherever nothing selected on the variant is denied: the `match` of
    `calcVariants` on `pushedAny c.q vt mine, r.2.2` is the former `match` on `r.1, r.2.2` -/
theorem decision_eq_old {c : Ctx} {mine : List VariantSel} {fuel : Nat} {sname pfx : String} {vt : TypeId}
    {r : List RField × List Item × List Item} (h : calcVariantSels c fuel sname pfx vt mine = .ok r)
    (hd : noDeniedV c mine = true) {β : Type} (alias : Item → β) (struct : List Item → β) :
    (match pushedAny c.q vt mine, r.2.2 with
     | false, [a] => alias a
     | _, als => struct als) =
    (match r.1, r.2.2 with
     | [], [a] => alias a
     | _, als => struct als) := by
  rw [pushedAny_eq_of_noDenied h hd]
  obtain ⟨r1, r2, r3⟩ := r
  cases r1 <;> cases r3 with
  | nil => rfl
  | cons a t => cases t <;> rfl

/-- the strategy is not `deny` ⇒ nothing is denied -/
theorem noDeniedV_of_not_deny {c : Ctx} (h : c.o.deprecation ≠ .deny) (mine : List VariantSel) : noDeniedV c mine = true := by
  have hden : ∀ x, selDenied c x = false := by
    intro x
    cases x with
    | field a fid sub =>
      simp only [selDenied]
      cases c.s.fields[fid]? with
      | none => rfl
      | some sf => simp [denied, h]
    | _ => rfl
  simp only [noDeniedV, List.all_eq_true]
  intro v _
  cases v with
  | spread g fr => rfl
  | inline t sub =>
    simp only [Bool.not_eq_true', List.any_eq_false]
    intro x _
    simp [hden x]

/-- no field selected directly inside an inline fragment of `mine` is deprecated ⇒ nothing is denied -/
theorem noDeniedV_of_fields {c : Ctx} {mine : List VariantSel}
    (h : ∀ t sub, VariantSel.inline t sub ∈ mine → ∀ a fid sub', Sel.field a fid sub' ∈ sub →
      ∀ sf, c.s.fields[fid]? = some sf → sf.deprecation = none) : noDeniedV c mine = true := by
  simp only [noDeniedV, List.all_eq_true]
  intro v hv
  cases v with
  | spread g fr => rfl
  | inline t sub =>
    simp only [Bool.not_eq_true', List.any_eq_false]
    intro x hx
    cases x with
    | field a fid sub' =>
      simp only [selDenied]
      cases hsf : c.s.fields[fid]? with
      | none => simp
      | some sf => simp [denied, h t sub hv a fid sub' hx sf hsf]
    | _ => simp [selDenied]

/-! ## the general picture (any strategy) -/

/-- **`has_fields` and the rendered fields in general**: the rendered fields of the variant struct are empty iff there is
    no spread among the selections and every pushing selection inside their (non-aliased) inline fragments is a denied
    field.  (`pushedAny = true` with `r.1 = []` — the case in which the old model took the alias and the generator does
    not — is: something pushed, all of it denied.) -/
theorem fields_nil_iff {c : Ctx} : ∀ {mine : List VariantSel} {fuel : Nat} {sname pfx : String} {vt : TypeId}
    {r : List RField × List Item × List Item}, calcVariantSels c fuel sname pfx vt mine = .ok r →
    (r.1 = [] ↔ ∀ v ∈ mine, match v with
      | .spread _ _ => False
      | .inline _ sub => (∃ g, sub = [Sel.spread g]) ∨ ∀ x ∈ sub, selPushes c.q vt x = true → selDenied c x = true)
  | mine, 0, sname, pfx, vt, r, h => by rw [calcVariantSels.eq_1] at h; cases h
  | [], f + 1, sname, pfx, vt, r, h => by
    rw [calcVariantSels.eq_2 _ _ _ _ _ (by omega)] at h
    simp only [pure, Except.pure, Except.ok.injEq] at h
    subst h; simp
  | .inline t sub :: rest, f + 1, sname, pfx, vt, r, h => by
    obtain ⟨fs0, r', hr, h1, hstep⟩ := calcVariantSels_inline_fields h
    rw [h1, List.append_eq_nil_iff, fields_nil_iff hr, List.forall_mem_cons]
    apply and_congr_left'
    rcases hstep with ⟨g, rfl, rfl⟩ | ⟨hns, pfx', items0, hfl⟩
    · exact ⟨fun _ => .inl ⟨g, rfl⟩, fun _ => rfl⟩
    · rw [calcFields_nil_iff hfl]
      exact ⟨fun h => .inr h, fun h => h.elim (fun ⟨g, hg⟩ => absurd hg (hns g)) id⟩
  | .spread g fr :: rest, f + 1, sname, pfx, vt, r, h => by
    obtain ⟨y, ys, hy⟩ := calcVariantSels_spread_fields h
    rw [hy, List.forall_mem_cons]
    simp

/-! ## (c) the witness of the review

`interface I { x: String @deprecated }  type O implements I { x: String @deprecated }  type Query { i: I }`,
`fragment F on O { __typename }`, `query Q { i { __typename ... on O { x } ... on O { ...F } } }`. -/

def wCtx (strategy : DepStrategy) : Ctx :=
  { s := { objects := [{ name := "Query", fields := [0], implements := [] }, { name := "O", fields := [2], implements := [0] }],
           fields := [{ name := "i", ty := { id := .interface 0, quals := [] }, parent := .object 0, deprecation := none },
                      { name := "x", ty := { id := .scalar 1, quals := [] }, parent := .interface 0, deprecation := some none },
                      { name := "x", ty := { id := .scalar 1, quals := [] }, parent := .object 1, deprecation := some none }],
           interfaces := [{ name := "I", fields := [1] }],
           scalars := Schema.defaultScalars },
    q := { fragments := [{ name := "F", on := .object 1, sels := [.typename] }],
           operations := [{ name := "Q", kind := .query, objectId := 0,
                            sels := [.field none 0 [.typename, .inline (.object 1) [.field none 2 []],
                                                    .inline (.object 1) [.spread 0]]] }] },
    o := { deprecation := strategy },
    cs := ⟨fun s => if s = "F" then "f" else s, fun s => if s = "i" then "I" else s⟩ }

def wOp : ROperation :=
  { name := "Q", kind := .query, objectId := 0,
    sels := [.field none 0 [.typename, .inline (.object 1) [.field none 2 []], .inline (.object 1) [.spread 0]]] }

def fMember : RField := { rust := "f", ty := .path "F", flatten := true }

/-- **under `deny` the variant struct keeps the flattened fragment member** (the real generator:
    `pub struct QIOnO { #[serde(flatten)] pub f: F }`; the model before P41: `type QIOnO = F`) -/
theorem deny_variant_struct_keeps_flatten :
    (match responseItems (wCtx .deny) wOp with
     | .ok items => items ==
        [.struct "ResponseData" ["Deserialize"] (some "::serde") [{ rust := "i", ty := .opt (.path "QI") }],
         .tagged "QI" ["Deserialize"] (some "::serde") "__typename" [{ name := "O", payload := some (.path "QIOnO") }],
         .struct "QIOnO" ["Deserialize"] (some "::serde") [fMember]]
     | .error _ => false) = true := by
  decide +kernel

/-- under `allow`: the two-member struct (`x`, then the flattened member) -/
theorem allow_variant_struct_two_members :
    (match responseItems (wCtx .allow) wOp with
     | .ok items => items ==
        [.struct "ResponseData" ["Deserialize"] (some "::serde") [{ rust := "i", ty := .opt (.path "QI") }],
         .tagged "QI" ["Deserialize"] (some "::serde") "__typename" [{ name := "O", payload := some (.path "QIOnO") }],
         .struct "QIOnO" ["Deserialize"] (some "::serde") [{ rust := "x", ty := .opt (.path "String") }, fMember]]
     | .error _ => false) = true := by
  decide +kernel

/-- the selections on the variant `O` of the witness -/
def wMine : List VariantSel := [.inline (.object 1) [.field none 2 []], .inline (.object 1) [.spread 0]]

/-- on the witness under `deny`: a field is pushed, none is rendered, one alias is contributed — the former decision
    (`r.1 = []`, `r.2.2 = [a]`) took the alias; `noDeniedV` fails, as it must -/
theorem old_decision_alias :
    pushedAny (wCtx .deny).q (.object 1) wMine = true ∧ noDeniedV (wCtx .deny) wMine = false ∧
    (match calcVariantSels (wCtx .deny) 8 "QIOnO" "QI" (.object 1) wMine with
     | .ok r => r.1.isEmpty && r.2.2 == [aliasItem "QIOnO" "F" false]
     | .error _ => false) = true := by
  refine ⟨?_, ?_, ?_⟩ <;> decide +kernel

end Pushed
end GqlVerif
