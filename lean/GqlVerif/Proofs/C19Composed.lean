import GqlVerif.Props.C19
import GqlVerif.Props.C08
import GqlVerif.Proofs.C05Body
import GqlVerif.Proofs.C20Composed
import GqlVerif.Model.Sdl
import GqlVerif.Model.Intro
/-!
# C19, composed: `graphql-client generate` with the library instantiated by the Codegen model

(review finding 11.)  In `Props/C19.lean` the library is an opaque `GenEnv.lib : Options → LibResult`; it cannot see the
query or the schema, so "the file holds what the library generates **for these inputs**" and "one struct + module +
impl per operation, or only the selected one" are not statements of that file.  Here:

* `generateMain` — `Cli.generateCode` with `GenEnv.lib` **instantiated** by the model of
  `generate_module_token_stream(query_path, &schema_path, options)`: `Cache.step (Cache.rustSys …) .init (.fromFile …)`
  (`Model/Cache.lean`: read the query file, parse it, read the schema file, pick the front-end by extension) whose pure
  generator is `Codegen.generate`.  Only existing model functions are composed.  What is *not* repo code stays a
  parameter (`LibExt`): the three text parsers (`graphql_parser`, `serde_json`), heck (`CaseFns`) and `Display` of the
  token stream (`render`).
* `fixedLib` — the literal form `lib o := Codegen.generate s cs o text doc` for a fixed schema / query pair, with
  `output_is_header_then_lib_fixed`, `gen_error_reported_fixed`, `cli_modules_per_operation` for any `GenEnv` using it;
  `genEnv_lib_fixed` shows `generateMain`'s library is of that form once the two files are loaded.
* `cliOptions_eq` — flags ↦ options as **one equation** for all flag values (the record `optionsOf`, the panic, the
  error), from which `cliOptions_ok` and `cli_flag_tables` follow;
* `output_is_header_then_modules` — `output_is_header_then_lib` against `Codegen.generate`;
* `gen_error_reported`, `invalid_document_reported`, `missing_query_file_panics`, `main_error_no_file`,
  `main_success_inv` (success ⇒ options mapped, modules returned for these files, destination holds their rendering);
* `modules_per_operation` / `generate_cli_modules` — the per-operation claim: the modules written are, in document order,
  one per operation of the document — or only the operation named by `--selected-operation` when the document defines
  it — each consisting of the struct declaration, the module and the `impl` for **that** operation, with the items
  generated from **that** operation; `selected_unknown_generates_all` is the remaining case (review finding 24);
* `parseDeprecation_table`, `parseVisibility_table` — specifications of the two flag parsers that share no helper with
  them: white-space padding by `C20C.WhiteSpace` (code-point ranges), the words as literal character lists,
  case-insensitivity as a character-wise relation (`SpellsCI`), plus the explicit table of the eight spellings of `pub`.
-/
namespace GqlVerif
namespace C19C
open Cli Codegen C19 C20C

/-! ## the library, instantiated -/

/-- what `generate_module_token_stream` uses that is not code of the repository -/
structure LibExt where
  /-- heck -/
  cs : CaseFns
  /-- `graphql_parser::parse_query` followed by the harness' AST conversion -/
  parseQuery : String → Except String QDoc
  /-- `graphql_parser::parse_schema` -/
  parseSdl : String → Except String SdlDoc
  /-- `serde_json::from_str::<serde_json::Value>` -/
  parseJsonText : String → Option Json
  /-- `Display` of the token stream of the generated modules -/
  render : List Module → String

/-- the external functions of `Model/Cache.lean`, with the two schema front-ends and `Codegen.generate` plugged in -/
def cacheExt (X : LibExt) : Cache.Ext QDoc Schema Options (List Module) where
  parseQuery := X.parseQuery
  loadSdl text :=
    match X.parseSdl text with
    | .error m => panic' ("called `Result::unwrap()` on an `Err` value: Parser error: " ++ m)
    | .ok d => Sdl.fromSdl d
  loadJson text :=
    match X.parseJsonText text with
    | none => panic' "called `Result::unwrap()` on an `Err` value: serde_json"
    | some j => Intro.fromJson true j
  generate qv s o := Codegen.generate s X.cs o qv.1 qv.2

/-- the file system the library reads (paths are scanned there, hence character lists) -/
def libFs (fs : Cli.Fs) : Cache.Fs := fun p => fs (String.ofList p)

/-- **`generate_module_token_stream(query_path, &schema_path, options)`** as the CLI calls it: one call in a fresh
process (empty caches) -/
def libCall (X : LibExt) (fs : Cli.Fs) (f : GenFlags) (o : Options) : Outcome (List Module) :=
  (Cache.step (Cache.rustSys (cacheExt X) (libFs fs)) .init (.fromFile f.queryPath.toList f.schemaPath.toList o)).2

/-- the `Result<TokenStream, BoxError>` (or the panic) as the CLI sees it.  Stack exhaustion and the parts the model
does not cover end the process abnormally; they are reported as `panic` (no theorem below depends on this choice:
each has a hypothesis that fixes the outcome, or holds for every `LibResult`) -/
def toLibResult (render : List Module → String) : Outcome (List Module) → LibResult
  | .ok ms => .tokens (render ms)
  | .error (.error m) => .err m
  | .error (.panic m) => .panic m
  | .error (.diverge w) => .panic w
  | .error (.unmodelled w) => .panic w

/-- the rest of the process environment of `generate_code` -/
structure GenProc where
  synPathOk : String → Bool
  rustfmt : String → Option String
  creatable : String → Bool

def genEnv (X : LibExt) (P : GenProc) (fs : Cli.Fs) (f : GenFlags) : GenEnv :=
  { synPathOk := P.synPathOk, lib := fun o => toLibResult X.render (libCall X fs f o),
    rustfmt := P.rustfmt, creatable := P.creatable }

/-- **`graphql-client generate`**: `generate_code` with the library call made on the files named by the flags, read
from the file system the run starts in -/
def generateMain (X : LibExt) (P : GenProc) (f : GenFlags) (fs : Cli.Fs) : Exit × Cli.Fs :=
  generateCode (genEnv X P fs f) f fs

/-! ### what the library call reads -/

/-- the query file exists, holds `text`, and `text` parses to `doc` -/
def QueryLoaded (X : LibExt) (fs : Cli.Fs) (f : GenFlags) (text : String) (doc : QDoc) : Prop :=
  fs f.queryPath = some text ∧ X.parseQuery text = .ok doc

/-- the schema file exists and one of the two front-ends — chosen by the extension of the path — turns it into `s` -/
def SchemaLoaded (X : LibExt) (fs : Cli.Fs) (f : GenFlags) (s : Schema) : Prop :=
  ∃ text, fs f.schemaPath = some text ∧
    ((Cache.schemaFormat f.schemaPath.toList = .sdl ∧ ∃ d, X.parseSdl text = .ok d ∧ Sdl.fromSdl d = .ok s) ∨
     (Cache.schemaFormat f.schemaPath.toList = .json ∧ ∃ j, X.parseJsonText text = some j ∧ Intro.fromJson true j = .ok s))

theorem libCall_eq_spec (X : LibExt) (fs : Cli.Fs) (f : GenFlags) (o : Options) :
    libCall X fs f o =
      Cache.spec (Cache.rustSys (cacheExt X) (libFs fs)) (.fromFile f.queryPath.toList f.schemaPath.toList o) :=
  C08.step_result (C08.rustSys_faithful _ _) (C08.inv_init _) _

theorem loadQ_of_loaded {X : LibExt} {fs : Cli.Fs} {f : GenFlags} {text : String} {doc : QDoc}
    (h : QueryLoaded X fs f text doc) :
    Cache.rustLoadQ (cacheExt X) (libFs fs) f.queryPath.toList = .ok (text, doc) := by
  obtain ⟨h1, h2⟩ := h
  simp [Cache.rustLoadQ, Cache.readFile, libFs, String.ofList_toList, h1, cacheExt, h2, bind, Except.bind, pure,
    Except.pure]

theorem loadS_of_loaded {X : LibExt} {fs : Cli.Fs} {f : GenFlags} {s : Schema} (h : SchemaLoaded X fs f s) :
    Cache.rustLoadS (cacheExt X) (libFs fs) f.schemaPath.toList = .ok s := by
  obtain ⟨text, h1, h2⟩ := h
  rcases h2 with ⟨hf, d, hd, hs⟩ | ⟨hf, j, hj, hs⟩
  · simp [Cache.rustLoadS, Cache.readFile, libFs, String.ofList_toList, h1, hf, cacheExt, hd, hs, bind, Except.bind]
  · simp [Cache.rustLoadS, Cache.readFile, libFs, String.ofList_toList, h1, hf, cacheExt, hj, hs, bind, Except.bind]

/-- with both files loaded, the library call **is** `Codegen.generate` on their contents -/
theorem libCall_of_loaded (X : LibExt) (fs : Cli.Fs) (f : GenFlags) (o : Options) (text : String) (doc : QDoc)
    (s : Schema) (hq : QueryLoaded X fs f text doc) (hs : SchemaLoaded X fs f s) :
    libCall X fs f o = Codegen.generate s X.cs o text doc := by
  rw [libCall_eq_spec]
  simp only [Cache.spec, Cache.queryVal, Cache.rustSys, Cache.Call.spath, Cache.Call.opts, loadQ_of_loaded hq,
    loadS_of_loaded hs, bind, Except.bind]
  rfl

/-! ## the modules `Codegen.generate` returns in CLI mode -/

/-- the parts of an emitted module that do not depend on the selection: `struct <Op>;`, `mod <op> { … }`,
`impl GraphQLQuery for <Op>` all carry the name of the module's own operation -/
def ModuleFor (o : Options) (cs : CaseFns) (text : String) (M : Module) : Prop :=
  M.structDecl = some M.operationName ∧ M.implFor = M.operationName ∧ M.modName = cs.snake M.operationName ∧
  M.vis = o.visibility ∧ M.query = text ∧ M.queryInclude = o.queryFile ∧ M.useSerde = o.serdePath

/-- the operation names for which a module is written -/
def selectedNames (sel : Option String) (names : List String) : List String :=
  match sel with
  | some n => if n ∈ names then [n] else names
  | none => names

theorem module_fields (c : Ctx) (text operation : String) (M : Module) (hmode : c.o.mode = .cli)
    (hnorm : c.o.normalization = .none) (h : generatedModule c text operation = .ok M) :
    M.operationName = operation ∧ ModuleFor c.o c.cs text M := by
  unfold generatedModule at h
  simp only [bind, Except.bind] at h
  cases hs : selectOperation c (c.o.normalization.operation c.cs operation) with
  | none => simp [hs, fail'] at h
  | some root =>
    simp only [hs, pure, Except.pure] at h
    cases hr : responseForQuery c root with
    | error e => simp [hr] at h
    | ok items =>
      simp only [hr, Except.ok.injEq] at h
      subst h
      simp [ModuleFor, hmode, hnorm, Normalization.operation, Normalization.camelCase]

theorem selectOperation_none_norm (c : Ctx) (hnorm : c.o.normalization = .none) (n : String) :
    selectOperation c n = c.q.operations.findIdx? (fun op => op.name == n) := by
  simp [selectOperation, hnorm, Normalization.operation, Normalization.camelCase]

/-- the per-index generator of `generate` -/
abbrev genAt (c : Ctx) (text : String) (i : Nat) : Outcome Module := do
  let op ← c.q.getOperation i
  generatedModule c text op.name

theorem genAt_name (c : Ctx) (text : String) (i : Nat) (M : Module) (h : genAt c text i = .ok M) :
    (c.q.operations.map (·.name))[i]? = some M.operationName := by
  obtain ⟨op, hop, h⟩ := C06Sound.bind_ok h
  have := (C05.module_constants _ _ _ _ h).1
  rw [List.getElem?_map, C05Body.getOperation_ok hop, this]; rfl

theorem mapM_range_names (c : Ctx) (text : String) (ms : List Module)
    (h : (List.range c.q.operations.length).mapM (genAt c text) = .ok ms) :
    ms.map (·.operationName) = c.q.operations.map (·.name) := by
  obtain ⟨hlen, hall⟩ := C05.mapM_spec _ _ ms h
  simp only [List.length_range] at hlen
  apply List.ext_getElem?
  intro k
  by_cases hk : k < c.q.operations.length
  · have hk' : k < ms.length := by omega
    obtain ⟨a, ha, hfa⟩ := hall k ms[k] (by simp [hk'])
    rw [List.getElem?_range hk] at ha
    cases ha
    rw [genAt_name c text k _ hfa, List.getElem?_map]
    simp [hk']
  · rw [List.getElem?_eq_none (by simp; omega), List.getElem?_eq_none (by simp; omega)]

/-- **what `Codegen.generate` returns in CLI mode without normalization** (the only configuration the CLI can
produce): the modules are, in document order, those of all operations, or the single module of the operation whose
name is the selection; each module is the struct + module + impl of its own operation, with the items of that
operation. -/
theorem generate_cli_modules (s : Schema) (cs : CaseFns) (o : Options) (text : String) (doc : QDoc) (ms : List Module)
    (hmode : o.mode = .cli) (hnorm : o.normalization = .none) (h : generate s cs o text doc = .ok ms) :
    ∃ q, Resolve.resolve s doc = .ok q ∧ q.operations.map (·.name) = Valid.opNames doc ∧
      ms.map (·.operationName) = selectedNames o.operationName (Valid.opNames doc) ∧
      ∀ M ∈ ms, ModuleFor o cs text M ∧
        ∃ (i : Nat) (op : ROperation), q.operations[i]? = some op ∧ op.name = M.operationName ∧
          (Valid.opNames doc)[i]? = some M.operationName ∧ responseForQuery { s, q, o, cs } i = .ok M.items := by
  obtain ⟨q, hq, hall⟩ := C05Body.generate_inv s cs o text doc ms h
  obtain ⟨hnames, hnd⟩ := C05Body.resolve_opNames hq
  refine ⟨q, hq, hnames, ?_, ?_⟩
  · -- the list of names
    unfold generate at h
    simp only [hq, bind, Except.bind] at h
    have hsel := selectOperation_none_norm { s, q, o, cs } hnorm
    cases hopn : o.operationName with
    | none =>
      simp only [hopn, Option.bind, hmode, pure, Except.pure] at h
      have := mapM_range_names { s, q, o, cs } text ms h
      simp only [selectedNames]
      rw [this, hnames]
    | some n =>
      simp only [hopn, Option.bind] at h
      rw [hsel n] at h
      simp only [selectedNames]
      cases hf : q.operations.findIdx? (fun op => op.name == n) with
      | none =>
        simp only [hf, hmode, pure, Except.pure] at h
        have hnot : n ∉ Valid.opNames doc := by
          rw [← hnames]
          intro hmem
          obtain ⟨op, hop, hn⟩ := List.mem_map.mp hmem
          have := List.findIdx?_eq_none_iff.mp hf op hop
          simp [hn] at this
        rw [if_neg hnot, mapM_range_names { s, q, o, cs } text ms h, hnames]
      | some i =>
        simp only [hf, pure, Except.pure] at h
        obtain ⟨hi, hp, _⟩ := List.findIdx?_eq_some_iff_getElem.mp hf
        have hmem : n ∈ Valid.opNames doc := by
          rw [← hnames]
          exact List.mem_map.mpr ⟨q.operations[i], List.getElem_mem hi, by simpa using hp⟩
        rw [if_pos hmem]
        obtain ⟨hlen, hall'⟩ := C05.mapM_spec _ _ ms h
        cases ms with
        | nil => simp at hlen
        | cons M rest =>
          cases rest with
          | cons _ _ => simp at hlen
          | nil =>
            obtain ⟨a, ha, hfa⟩ := hall' 0 M rfl
            simp only [List.getElem?_cons_zero, Option.some.injEq] at ha
            subst ha
            have := genAt_name { s, q, o, cs } text i M hfa
            simp only [List.getElem?_map, List.getElem?_eq_getElem hi, Option.map_some, Option.some.injEq] at this
            simp only [List.map_cons, List.map_nil, List.cons.injEq, and_true]
            rw [← this]; simpa using hp
  · intro M hM
    obtain ⟨i0, op0, _, hgen⟩ := hall M hM
    have hf := (module_fields { s, q, o, cs } text op0.name M hmode hnorm hgen).2
    obtain ⟨q', i, op, hq', hop, hname, hith, hresp⟩ :=
      C05Body.items_of_named_operation s cs o text doc ms M h hM (Or.inl hnorm)
    rw [hq] at hq'; cases hq'
    exact ⟨hf, i, op, hop, hname, hith, hresp⟩

/-! ## the command, end to end -/

/-- the options record for accepted flags, written out -/
def optionsOf (vis : Vis) (f : GenFlags) : Options :=
  { mode := .cli, visibility := vis.tokens, otherVariant := f.fragmentsOtherVariant,
    operationName := f.selectedOperation, variablesDerives := f.variablesDerives,
    responseDerives := f.responseDerives,
    deprecation := (f.deprecationStrategy.bind parseDeprecation).getD .warn,
    externEnums := f.externalEnums.getD [], scalarsModule := f.customScalarsModule }

theorem cliOptions_eq (ok : String → Bool) (f : GenFlags) :
    cliOptions ok f =
      match parseVisibility ok f.moduleVisibility with
      | none => .error (.panic "called `Result::unwrap()` on an `Err` value")
      | some vis =>
        match f.customScalarsModule with
        | none => .ok (optionsOf vis f)
        | some m => if ok m then .ok (optionsOf vis f) else .error (.failure "Invalid custom scalar module path") := by
  obtain ⟨qp, sp, sel, vd, rd, dep, nofmt, vis, outdir, scalars, other, enums⟩ := f
  cases hv : parseVisibility ok vis with
  | none => unfold cliOptions; simp only [hv]
  | some v =>
    cases hd : dep.bind parseDeprecation with
    | none =>
      unfold cliOptions optionsOf
      simp only [hv, hd]
      cases scalars with
      | none => cases sel <;> cases vd <;> cases rd <;> cases enums <;> rfl
      | some m =>
        simp only
        cases ok m <;> cases sel <;> cases vd <;> cases rd <;> cases enums <;> rfl
    | some d =>
      unfold cliOptions optionsOf
      simp only [hv, hd]
      cases scalars with
      | none => cases sel <;> cases vd <;> cases rd <;> cases enums <;> rfl
      | some m =>
        simp only
        cases ok m <;> cases sel <;> cases vd <;> cases rd <;> cases enums <;> rfl

/-- what the CLI's options are, whenever the flags are accepted: CLI mode, **no normalization**, the selection
passed on unchanged, no `include_str!` line, the default serde path -/
theorem cliOptions_ok (ok : String → Bool) (f : GenFlags) (o : Options) (h : cliOptions ok f = .ok o) :
    ∃ vis, parseVisibility ok f.moduleVisibility = some vis ∧ o = optionsOf vis f ∧
      (∀ m, f.customScalarsModule = some m → ok m = true) := by
  rw [cliOptions_eq] at h
  cases hv : parseVisibility ok f.moduleVisibility with
  | none => rw [hv] at h; cases h
  | some v =>
    rw [hv] at h
    simp only at h
    cases hs : f.customScalarsModule with
    | none => rw [hs] at h; cases h; exact ⟨v, rfl, rfl, by simp⟩
    | some m =>
      rw [hs] at h
      simp only at h
      by_cases hm : ok m = true
      · rw [if_pos hm] at h; cases h
        exact ⟨v, rfl, rfl, by intro m' h'; cases h'; exact hm⟩
      · rw [if_neg hm] at h; cases h

theorem lib_of_loaded (X : LibExt) (P : GenProc) (fs : Cli.Fs) (f : GenFlags) (o : Options) (text : String)
    (doc : QDoc) (s : Schema) (hq : QueryLoaded X fs f text doc) (hs : SchemaLoaded X fs f s) :
    (genEnv X P fs f).lib o = toLibResult X.render (Codegen.generate s X.cs o text doc) := by
  simp only [genEnv]
  rw [libCall_of_loaded X fs f o text doc s hq hs]

/-- **the file is the header line, a newline, and the rendering of the modules `Codegen.generate` returns for the
query file and the schema file named on the command line** — verbatim with `--no-formatting`, through rustfmt
otherwise — written to the destination and nowhere else. -/
theorem output_is_header_then_modules (X : LibExt) (P : GenProc) (f : GenFlags) (fs : Cli.Fs) (o : Options)
    (text : String) (doc : QDoc) (s : Schema) (ms : List Module) (dest : List Char)
    (ho : cliOptions P.synPathOk f = .ok o)
    (hq : QueryLoaded X fs f text doc) (hs : SchemaLoaded X fs f s)
    (hg : Codegen.generate s X.cs o text doc = .ok ms)
    (hd : destPath (f.outputDirectory.map String.toList) f.queryPath.toList = some dest)
    (hc : P.creatable (String.ofList dest) = true) :
    (f.noFormatting = true →
      generateMain X P f fs =
        (.success, fs.write (String.ofList dest) (Gen.warningSuppression ++ "\n" ++ X.render ms))) ∧
    (f.noFormatting = false → ∀ out, P.rustfmt (Gen.warningSuppression ++ "\n" ++ X.render ms) = some out →
      generateMain X P f fs = (.success, fs.write (String.ofList dest) out)) ∧
    (∀ p, p ≠ String.ofList dest → (generateMain X P f fs).2 p = fs p) := by
  have hl : (genEnv X P fs f).lib o = .tokens (X.render ms) := by
    rw [lib_of_loaded X P fs f o text doc s hq hs, hg]; rfl
  exact C19.output_is_header_then_lib (genEnv X P fs f) f fs o (X.render ms) dest ho hl hd hc

/-- **a generation error is reported as such, and no file is created**: whenever `Codegen.generate` returns an
error for the two files, the command prints it behind "Error generating module code: " and leaves the file system
as it was -/
theorem gen_error_reported (X : LibExt) (P : GenProc) (f : GenFlags) (fs : Cli.Fs) (o : Options)
    (text : String) (doc : QDoc) (s : Schema) (m : String)
    (ho : cliOptions P.synPathOk f = .ok o)
    (hq : QueryLoaded X fs f text doc) (hs : SchemaLoaded X fs f s)
    (hg : Codegen.generate s X.cs o text doc = .error (.error m)) :
    generateMain X P f fs = (.failure ("Error generating module code: " ++ m), fs) := by
  have hl : (genEnv X P fs f).lib o = .err m := by
    rw [lib_of_loaded X P fs f o text doc s hq hs, hg]; rfl
  exact C19.gen_error_reported (genEnv X P fs f) f fs o m ho hl

/-- in particular: a document the schema cannot answer (`Resolve.resolve` fails with a message) -/
theorem invalid_document_reported (X : LibExt) (P : GenProc) (f : GenFlags) (fs : Cli.Fs) (o : Options)
    (text : String) (doc : QDoc) (s : Schema) (m : String)
    (ho : cliOptions P.synPathOk f = .ok o)
    (hq : QueryLoaded X fs f text doc) (hs : SchemaLoaded X fs f s)
    (hr : Resolve.resolve s doc = .error (.error m)) :
    generateMain X P f fs = (.failure ("Error generating module code: " ++ m), fs) := by
  refine gen_error_reported X P f fs o text doc s m ho hq hs ?_
  simp [Codegen.generate, hr, bind, Except.bind]

/-- a missing query file: the library `unwrap`s, the process panics (exit status 101), nothing is written -/
theorem missing_query_file_panics (X : LibExt) (P : GenProc) (f : GenFlags) (fs : Cli.Fs) (o : Options)
    (ho : cliOptions P.synPathOk f = .ok o) (hq : fs f.queryPath = none) :
    generateMain X P f fs = (.panic "called `Result::unwrap()` on an `Err` value: FileNotFound", fs) := by
  have hl : (genEnv X P fs f).lib o = .panic "called `Result::unwrap()` on an `Err` value: FileNotFound" := by
    simp only [genEnv]
    rw [libCall_eq_spec]
    simp [Cache.spec, Cache.queryVal, Cache.rustSys, Cache.rustLoadQ, Cache.readFile, libFs, String.ofList_toList, hq,
      bind, Except.bind, panic', toLibResult]
  have ho' : cliOptions (genEnv X P fs f).synPathOk f = .ok o := ho
  simp [generateMain, generateCode, ho', hl]

/-- **no success ⇒ no file**, for the instantiated library as well (every failure of the library included) -/
theorem main_error_no_file (X : LibExt) (P : GenProc) (f : GenFlags) (fs : Cli.Fs) :
    (generateMain X P f fs).1 ≠ .success →
      (generateMain X P f fs).2 = fs ∧ (generateMain X P f fs).1.code ≠ 0 :=
  C19.gen_error_no_file (genEnv X P fs f) f fs

/-- **one struct + module + impl per operation, or only the selected one.**  For every run of
`graphql-client generate` that reaches the generator with the two files loaded and gets modules back:
* the modules are — by `OPERATION_NAME`, in document order — those of **all** operations the query file defines
  (pairwise distinct names), unless `--selected-operation n` names one of them, in which case there is exactly the
  module of `n`;
* every module consists of `struct <name>;`, `mod <snake name>` and `impl GraphQLQuery for <name>` for its **own**
  operation name, carries the whole query file as `QUERY`, the flag's visibility, no `include_str!`, `::serde`;
* its items are `responseForQuery` of the operation with that name (position `i` of the document). -/
theorem modules_per_operation (X : LibExt) (P : GenProc) (f : GenFlags) (fs : Cli.Fs) (o : Options)
    (text : String) (doc : QDoc) (s : Schema) (ms : List Module)
    (ho : cliOptions P.synPathOk f = .ok o)
    (hq : QueryLoaded X fs f text doc) (hs : SchemaLoaded X fs f s)
    (hl : libCall X fs f o = .ok ms) :
    ∃ q vis, Resolve.resolve s doc = .ok q ∧ parseVisibility P.synPathOk f.moduleVisibility = some vis ∧
      (Valid.opNames doc).Nodup ∧
      ms.map (·.operationName) = selectedNames f.selectedOperation (Valid.opNames doc) ∧
      ∀ M ∈ ms,
        (M.structDecl = some M.operationName ∧ M.implFor = M.operationName ∧ M.modName = X.cs.snake M.operationName ∧
          M.vis = vis.tokens ∧ M.query = text ∧ M.queryInclude = none ∧ M.useSerde = "::serde") ∧
        ∃ (i : Nat) (op : ROperation), q.operations[i]? = some op ∧ op.name = M.operationName ∧
          (Valid.opNames doc)[i]? = some M.operationName ∧
          responseForQuery { s, q, o, cs := X.cs } i = .ok M.items := by
  obtain ⟨vis, hvis, rfl, _⟩ := cliOptions_ok _ _ _ ho
  rw [libCall_of_loaded X fs f _ text doc s hq hs] at hl
  obtain ⟨q, hres, _, hnames, hall⟩ := generate_cli_modules s X.cs _ text doc ms rfl rfl hl
  refine ⟨q, vis, hres, hvis, (C05Body.resolve_opNames hres).2, hnames, ?_⟩
  intro M hM
  obtain ⟨hf, hrest⟩ := hall M hM
  exact ⟨hf, hrest⟩

/-- `--selected-operation n` with an `n` the document does not define is **not** an error: all operations are
generated, exactly as without the flag (review finding 24; same in the Rust: `select_operation` returns `None`,
and `(None, CodegenMode::Cli)` collects every operation) -/
theorem selected_unknown_generates_all (names : List String) (n : String) (h : n ∉ names) :
    selectedNames (some n) names = selectedNames none names := by
  simp [selectedNames, h]

theorem selected_known_generates_one (names : List String) (n : String) (h : n ∈ names) :
    selectedNames (some n) names = [n] := by
  simp [selectedNames, h]

/-- **success ⇒** the flags were accepted, the library returned modules for the two files named on the command
line, and the destination holds the header, a newline and their rendering (through rustfmt unless
`--no-formatting`) -/
theorem main_success_inv (X : LibExt) (P : GenProc) (f : GenFlags) (fs : Cli.Fs)
    (h : (generateMain X P f fs).1 = .success) :
    ∃ o ms dest out, cliOptions P.synPathOk f = .ok o ∧ libCall X fs f o = .ok ms ∧
      destPath (f.outputDirectory.map String.toList) f.queryPath.toList = some dest ∧
      (if f.noFormatting then some (Gen.warningSuppression ++ "\n" ++ X.render ms)
        else P.rustfmt (Gen.warningSuppression ++ "\n" ++ X.render ms)) = some out ∧
      generateMain X P f fs = (.success, fs.write (String.ofList dest) out) := by
  unfold generateMain generateCode at h ⊢
  have hsyn : (genEnv X P fs f).synPathOk = P.synPathOk := rfl
  have hfmt : (genEnv X P fs f).rustfmt = P.rustfmt := rfl
  rw [hsyn, hfmt] at h ⊢
  cases ho : cliOptions P.synPathOk f with
  | error e =>
    rw [ho] at h; simp only at h
    rw [cliOptions_eq] at ho
    split at ho
    · cases ho; cases h
    · split at ho
      · cases ho
      · split at ho
        · cases ho
        · cases ho; cases h
  | ok o =>
    rw [ho] at h
    simp only at h ⊢
    have hlib : (genEnv X P fs f).lib o = toLibResult X.render (libCall X fs f o) := rfl
    rw [hlib] at h ⊢
    cases hl : libCall X fs f o with
    | error e =>
      rw [hl] at h
      cases e <;> simp [toLibResult] at h
    | ok ms =>
      rw [hl] at h
      simp only [toLibResult, generatedCode] at h ⊢
      cases hfm : (if f.noFormatting = true then some (Gen.warningSuppression ++ "\n" ++ X.render ms)
          else P.rustfmt (Gen.warningSuppression ++ "\n" ++ X.render ms)) with
      | none => rw [hfm] at h; cases h
      | some out =>
        rw [hfm] at h
        simp only at h ⊢
        cases hd : destPath (Option.map String.toList f.outputDirectory) f.queryPath.toList with
        | none => rw [hd] at h; cases h
        | some dest =>
          rw [hd] at h
          simp only at h ⊢
          by_cases hc : (genEnv X P fs f).creatable (String.ofList dest) = true
          · rw [if_pos hc]
            exact ⟨o, ms, dest, out, rfl, hl, rfl, hfm, rfl⟩
          · rw [if_neg hc] at h; cases h

/-! ## the same for an arbitrary `GenEnv` whose library is the Codegen model on a fixed schema / query pair

The statements above read the two files through `Model/Cache.lean`.  For callers that already hold the parsed pair,
the three claims are stated here against any `GenEnv` with `env.lib = fixedLib …` — literally
`lib o := Codegen.generate s cs o text doc` (rendered) — and the file-reading versions are instances
(`genEnv_lib_fixed`). -/

/-- `GenEnv.lib` instantiated with the Codegen model for a fixed schema / query pair -/
def fixedLib (s : Schema) (cs : CaseFns) (text : String) (doc : QDoc) (render : List Module → String) :
    Options → LibResult :=
  fun o => toLibResult render (Codegen.generate s cs o text doc)

theorem genEnv_lib_fixed (X : LibExt) (P : GenProc) (fs : Cli.Fs) (f : GenFlags) (text : String) (doc : QDoc)
    (s : Schema) (hq : QueryLoaded X fs f text doc) (hs : SchemaLoaded X fs f s) :
    (genEnv X P fs f).lib = fixedLib s X.cs text doc X.render :=
  funext fun o => lib_of_loaded X P fs f o text doc s hq hs

/-- `output_is_header_then_lib`, against the Codegen model -/
theorem output_is_header_then_lib_fixed (env : GenEnv) (f : GenFlags) (fs : Cli.Fs) (o : Options)
    (s : Schema) (cs : CaseFns) (text : String) (doc : QDoc) (render : List Module → String) (ms : List Module)
    (dest : List Char)
    (hlib : env.lib = fixedLib s cs text doc render)
    (ho : cliOptions env.synPathOk f = .ok o)
    (hg : Codegen.generate s cs o text doc = .ok ms)
    (hd : destPath (f.outputDirectory.map String.toList) f.queryPath.toList = some dest)
    (hc : env.creatable (String.ofList dest) = true) :
    (f.noFormatting = true →
      generateCode env f fs = (.success, fs.write (String.ofList dest) (Gen.warningSuppression ++ "\n" ++ render ms))) ∧
    (f.noFormatting = false → ∀ out, env.rustfmt (Gen.warningSuppression ++ "\n" ++ render ms) = some out →
      generateCode env f fs = (.success, fs.write (String.ofList dest) out)) ∧
    (∀ p, p ≠ String.ofList dest → (generateCode env f fs).2 p = fs p) :=
  C19.output_is_header_then_lib env f fs o (render ms) dest ho (by rw [hlib, fixedLib, hg]; rfl) hd hc

/-- `gen_error_reported`, against the Codegen model -/
theorem gen_error_reported_fixed (env : GenEnv) (f : GenFlags) (fs : Cli.Fs) (o : Options)
    (s : Schema) (cs : CaseFns) (text : String) (doc : QDoc) (render : List Module → String) (m : String)
    (hlib : env.lib = fixedLib s cs text doc render)
    (ho : cliOptions env.synPathOk f = .ok o)
    (hg : Codegen.generate s cs o text doc = .error (.error m)) :
    generateCode env f fs = (.failure ("Error generating module code: " ++ m), fs) :=
  C19.gen_error_reported env f fs o m ho (by rw [hlib, fixedLib, hg]; rfl)

/-- the per-operation claim, against the Codegen model: for the options the flags map to, whatever `generate`
returns is one struct + module + impl per operation of the document, or only the selected one -/
theorem cli_modules_per_operation (ok : String → Bool) (f : GenFlags) (o : Options) (s : Schema) (cs : CaseFns)
    (text : String) (doc : QDoc) (ms : List Module)
    (ho : cliOptions ok f = .ok o) (hg : Codegen.generate s cs o text doc = .ok ms) :
    ∃ q vis, Resolve.resolve s doc = .ok q ∧ parseVisibility ok f.moduleVisibility = some vis ∧
      (Valid.opNames doc).Nodup ∧
      ms.map (·.operationName) = selectedNames f.selectedOperation (Valid.opNames doc) ∧
      ∀ M ∈ ms,
        (M.structDecl = some M.operationName ∧ M.implFor = M.operationName ∧ M.modName = cs.snake M.operationName ∧
          M.vis = vis.tokens ∧ M.query = text ∧ M.queryInclude = none ∧ M.useSerde = "::serde") ∧
        ∃ (i : Nat) (op : ROperation), q.operations[i]? = some op ∧ op.name = M.operationName ∧
          (Valid.opNames doc)[i]? = some M.operationName ∧
          responseForQuery { s, q, o, cs } i = .ok M.items := by
  obtain ⟨vis, hvis, rfl, _⟩ := cliOptions_ok _ _ _ ho
  obtain ⟨q, hres, _, hnames, hall⟩ := generate_cli_modules s cs _ text doc ms rfl rfl hg
  refine ⟨q, vis, hres, hvis, (C05Body.resolve_opNames hres).2, hnames, ?_⟩
  intro M hM
  obtain ⟨hf, hrest⟩ := hall M hM
  exact ⟨hf, hrest⟩

/-! ## the two flag parsers, specified without their helpers

`Props/C19.lean` specifies `parseDeprecation` / `parseVisibility` by `specDeprecation` / `specVisibility`, which
are the same `if`-chains over the same `trim` / `lowerAscii` (review finding 11).  The accepted sets are infinite
(white-space padding) resp. finite but large (2³ + 2⁹ + 2⁷ spellings), so they are characterised by predicates on the
character list; the words are written out as characters, white space is `C20C.WhiteSpace` (code-point ranges). -/

/-- the three words of `DeprecationStrategy::from_str`, as characters -/
def depWord : DepStrategy → List Char
  | .allow => ['a', 'l', 'l', 'o', 'w']
  | .deny => ['d', 'e', 'n', 'y']
  | .warn => ['w', 'a', 'r', 'n']

/-- `s` is the word `w` with white space (only) before and after it -/
def Padded (s w : List Char) : Prop :=
  ∃ l r, s = l ++ w ++ r ∧ (∀ c ∈ l, WhiteSpace c) ∧ (∀ c ∈ r, WhiteSpace c)

theorem padded_iff_trim (s : List Char) (d : DepStrategy) : Padded s (depWord d) ↔ trim s = depWord d := by
  have hh : ∀ x, (depWord d).head? = some x → ¬ WhiteSpace x := by
    intro x hx; cases d <;> (simp only [depWord, List.head?_cons, Option.some.injEq] at hx; subst hx; unfold WhiteSpace; decide)
  have hl : ∀ x, (depWord d).getLast? = some x → ¬ WhiteSpace x := by
    intro x hx; cases d <;> (simp [depWord] at hx; subst hx; unfold WhiteSpace; decide)
  constructor
  · rintro ⟨l, r, h, h1, h2⟩
    exact ((strip_iff_trim s (depWord d)).mp ⟨l, r, h, h1, h2, hh, hl⟩).symm
  · intro h
    obtain ⟨l, r, h0, h1, h2, _⟩ := (strip_iff_trim s (depWord d)).mpr h.symm
    exact ⟨l, r, h0, h1, h2⟩

/-- **`--deprecation-strategy`, as a table**: the value is accepted as strategy `d` iff it is the word of `d`
(`allow`, `deny`, `warn`, lower case, exactly) padded by white space; everything else is refused (and the CLI then
keeps the default) -/
theorem parseDeprecation_table (s : String) :
    (∀ d, parseDeprecation s = some d ↔ Padded s.toList (depWord d)) ∧
    (parseDeprecation s = none ↔ ∀ d, ¬ Padded s.toList (depWord d)) := by
  have key : ∀ d, parseDeprecation s = some d ↔ trim s.toList = depWord d := by
    intro d
    unfold parseDeprecation
    by_cases h1 : trim s.toList = allowWord
    · rw [if_pos h1, h1]; cases d <;> simp [depWord, allowWord]
    · rw [if_neg h1]
      by_cases h2 : trim s.toList = denyWord
      · rw [if_pos h2, h2]; cases d <;> simp [depWord, denyWord]
      · rw [if_neg h2]
        by_cases h3 : trim s.toList = warnWord
        · rw [if_pos h3, h3]; cases d <;> simp [depWord, warnWord]
        · rw [if_neg h3]
          cases d
          · simpa [depWord, allowWord] using h1
          · simpa [depWord, denyWord] using h2
          · simpa [depWord, warnWord] using h3
  refine ⟨fun d => (key d).trans (padded_iff_trim _ d).symm, ?_⟩
  constructor
  · intro h d hp
    rw [(key d).mpr ((padded_iff_trim _ d).mp hp)] at h; cases h
  · intro h
    cases hp : parseDeprecation s with
    | none => rfl
    | some d => exact absurd ((padded_iff_trim _ d).mpr ((key d).mp hp)) (h d)

example : Padded " deny\t".toList (depWord .deny) := ⟨[' '], ['\t'], by decide, by simp [WhiteSpace], by simp [WhiteSpace]⟩
example : parseDeprecation "Deny" = none := by decide +kernel

/-- `v` spells the lower-case word `w` up to ASCII case: same length, every character is the letter of `w` or the
letter 32 code points below it (its upper-case form) -/
def SpellsCI (v w : List Char) : Prop := All2 (fun c d => c = d ∨ c.toNat + 32 = d.toNat) v w

def LowerWord (w : List Char) : Prop := ∀ d ∈ w, 97 ≤ d.toNat ∧ d.toNat ≤ 122

theorem toLower_eq_iff (c d : Char) (hd : 97 ≤ d.toNat ∧ d.toNat ≤ 122) :
    c.toLower = d ↔ c = d ∨ c.toNat + 32 = d.toNat := by
  obtain ⟨hd1, hd2⟩ := hd
  simp only [Char.toLower]
  split
  · next h =>
    simp only [UInt32.le_iff_toNat_le, seval] at h
    simp only [Char.ext_iff, Char.toNat, ← UInt32.toNat_inj, UInt32.toNat_add, seval] at *
    omega
  · next h =>
    simp only [UInt32.le_iff_toNat_le, seval] at h
    simp only [← Char.toNat_inj, Char.toNat] at *
    omega

theorem lowerAscii_eq_iff (v w : List Char) (hw : LowerWord w) : lowerAscii v = w ↔ SpellsCI v w := by
  induction v generalizing w with
  | nil =>
    constructor
    · intro h; simp only [lowerAscii, List.map_nil] at h; subst h; exact .nil
    · intro h; cases h; rfl
  | cons c cs ih =>
    cases w with
    | nil =>
      constructor
      · intro h; simp [lowerAscii] at h
      · intro h; cases h
    | cons d ds =>
      have hd := hw d (by simp)
      have hds : LowerWord ds := fun x hx => hw x (by simp [hx])
      simp only [lowerAscii, List.map_cons, List.cons.injEq]
      constructor
      · rintro ⟨h1, h2⟩
        exact .cons ((toLower_eq_iff c d hd).mp h1) ((ih ds hds).mp h2)
      · intro h
        cases h with
        | cons h1 h2 => exact ⟨(toLower_eq_iff c d hd).mpr h1, (ih ds hds).mpr h2⟩

def pubChars : List Char := ['p', 'u', 'b']
def inheritedChars : List Char := ['i', 'n', 'h', 'e', 'r', 'i', 't', 'e', 'd']
def privateChars : List Char := ['p', 'r', 'i', 'v', 'a', 't', 'e']

/-- **`--module-visibility`, as a table**: no flag, or any spelling of `pub` ⇒ `pub`; any spelling of `inherited`
or `private` ⇒ no keyword; every other value `v` ⇒ `pub(v)` if `syn` parses `v` as a path, else the process
panics (`none`) -/
theorem parseVisibility_table (ok : String → Bool) :
    parseVisibility ok none = some .pub ∧
    ∀ v : String,
      (SpellsCI v.toList pubChars → parseVisibility ok (some v) = some .pub) ∧
      (SpellsCI v.toList inheritedChars ∨ SpellsCI v.toList privateChars → parseVisibility ok (some v) = some .inherited) ∧
      (¬ SpellsCI v.toList pubChars → ¬ SpellsCI v.toList inheritedChars → ¬ SpellsCI v.toList privateChars →
        parseVisibility ok (some v) = if ok v then some (.restricted v) else none) := by
  refine ⟨rfl, fun v => ?_⟩
  have e1 := lowerAscii_eq_iff v.toList pubChars (by unfold LowerWord pubChars; decide)
  have e2 := lowerAscii_eq_iff v.toList inheritedChars (by unfold LowerWord inheritedChars; decide)
  have e3 := lowerAscii_eq_iff v.toList privateChars (by unfold LowerWord privateChars; decide)
  have d12 : pubChars ≠ inheritedChars := by decide
  have d13 : pubChars ≠ privateChars := by decide
  refine ⟨?_, ?_, ?_⟩
  · intro h
    have := e1.mpr h
    simp only [parseVisibility]
    rw [if_pos (by exact this)]
  · intro h
    simp only [parseVisibility]
    rcases h with h | h
    · have h' := e2.mpr h
      have hn : ¬ lowerAscii v.toList = pubWord := by
        intro hp; exact d12 (show pubChars = inheritedChars from hp.symm.trans h')
      rw [if_neg hn, if_pos (by exact h')]
    · have h' := e3.mpr h
      have hn : ¬ lowerAscii v.toList = pubWord := by
        intro hp; exact d13 (show pubChars = privateChars from hp.symm.trans h')
      by_cases hi : lowerAscii v.toList = inheritedWord
      · rw [if_neg hn, if_pos hi]
      · rw [if_neg hn, if_neg hi, if_pos (by exact h')]
  · intro h1 h2 h3
    have n1 : ¬ lowerAscii v.toList = pubWord := fun h => h1 (e1.mp h)
    have n2 : ¬ lowerAscii v.toList = inheritedWord := fun h => h2 (e2.mp h)
    have n3 : ¬ lowerAscii v.toList = privateWord := fun h => h3 (e3.mp h)
    simp only [parseVisibility]
    rw [if_neg n1, if_neg n2, if_neg n3]

/-- the eight spellings of `pub`, explicitly -/
theorem spells_pub (v : List Char) :
    SpellsCI v pubChars ↔
      v ∈ [['p','u','b'], ['p','u','B'], ['p','U','b'], ['p','U','B'], ['P','u','b'], ['P','u','B'], ['P','U','b'], ['P','U','B']] := by
  have up : ∀ (x d u : Char), u.toNat + 32 = d.toNat → (x = d ∨ x.toNat + 32 = d.toNat) → x = d ∨ x = u := by
    intro x d u hu h
    rcases h with h | h
    · exact Or.inl h
    · exact Or.inr (Char.toNat_inj.mp (by omega))
  constructor
  · intro h
    cases h with
    | cons h1 h =>
      cases h with
      | cons h2 h =>
        cases h with
        | cons h3 h =>
          cases h
          have a1 := up _ 'p' 'P' (by decide) h1
          have a2 := up _ 'u' 'U' (by decide) h2
          have a3 := up _ 'b' 'B' (by decide) h3
          rcases a1 with rfl | rfl <;> rcases a2 with rfl | rfl <;> rcases a3 with rfl | rfl <;> simp
  · intro h
    simp only [List.mem_cons, List.not_mem_nil, or_false] at h
    rcases h with rfl | rfl | rfl | rfl | rfl | rfl | rfl | rfl <;>
      exact .cons (by decide) (.cons (by decide) (.cons (by decide) .nil))

example : parseVisibility (fun _ => false) (some "PuB") = some .pub ∧
    parseVisibility (fun _ => false) (some "PRIVATE") = some .inherited ∧
    parseVisibility (fun _ => true) (some "crate") = some (.restricted "crate") ∧
    parseVisibility (fun _ => false) (some "pub ") = none := by decide +kernel

/-- the two flags in the options handed to the library, by the tables above -/
theorem cli_flag_tables (ok : String → Bool) (f : GenFlags) (o : Options) (h : cliOptions ok f = .ok o) :
    (∀ d, (∃ s, f.deprecationStrategy = some s ∧ Padded s.toList (depWord d)) → o.deprecation = d) ∧
    ((∀ s, f.deprecationStrategy = some s → ∀ d, ¬ Padded s.toList (depWord d)) → o.deprecation = .warn) ∧
    (f.moduleVisibility = none → o.visibility = "pub") ∧
    (∀ v, f.moduleVisibility = some v →
      (SpellsCI v.toList pubChars → o.visibility = "pub") ∧
      (SpellsCI v.toList inheritedChars ∨ SpellsCI v.toList privateChars → o.visibility = "") ∧
      (¬ SpellsCI v.toList pubChars → ¬ SpellsCI v.toList inheritedChars → ¬ SpellsCI v.toList privateChars →
        ok v = true ∧ o.visibility = (Vis.restricted v).tokens)) := by
  obtain ⟨vis, hvis, rfl, _⟩ := cliOptions_ok ok f o h
  refine ⟨?_, ?_, ?_, ?_⟩
  · rintro d ⟨s, hs, hp⟩
    simp only [optionsOf, hs, Option.bind]
    rw [((parseDeprecation_table s).1 d).mpr hp]; rfl
  · intro hno
    simp only [optionsOf]
    cases hd : f.deprecationStrategy with
    | none => rfl
    | some s =>
      simp only [Option.bind]
      rw [(parseDeprecation_table s).2.mpr (hno s hd)]; rfl
  · intro hn
    rw [hn, (parseVisibility_table ok).1] at hvis
    cases hvis; rfl
  · intro v hv
    rw [hv] at hvis
    obtain ⟨t1, t2, t3⟩ := (parseVisibility_table ok).2 v
    refine ⟨?_, ?_, ?_⟩
    · intro hp; rw [t1 hp] at hvis; cases hvis; rfl
    · intro hp; rw [t2 hp] at hvis; cases hvis; rfl
    · intro h1 h2 h3
      rw [t3 h1 h2 h3] at hvis
      by_cases hok : ok v = true
      · rw [if_pos hok] at hvis; cases hvis; exact ⟨hok, rfl⟩
      · rw [if_neg hok] at hvis; cases hvis

/-! ## a concrete run through the composed pipeline (the hypotheses are jointly satisfiable) -/

def exSdl : SdlDoc :=
  [.object "Query" [] [{ name := "a", ty := .named "String", directives := [] },
                       { name := "b", ty := .named "Int", directives := [] }]]

/-- `query getA { a }  query getB { b }` -/
def exDoc : QDoc :=
  [.op .query (some "getA") [] [.field none "a" []],
   .op .query (some "getB") [] [.field none "b" []]]

def exX : LibExt :=
  { cs := { snake := fun s => if s == "getA" then "get_a" else if s == "getB" then "get_b" else s, camel := id },
    parseQuery := fun t => if t == "QUERYTEXT" then .ok exDoc else .error "parse error",
    parseSdl := fun t => if t == "SDLTEXT" then .ok exSdl else .error "parse error",
    parseJsonText := fun _ => none,
    render := fun ms => " ".intercalate (ms.map fun m =>
      "struct " ++ m.structDecl.getD "-" ++ "; mod " ++ m.modName ++ "; impl for " ++ m.implFor) }

def exP : GenProc := { synPathOk := fun _ => true, rustfmt := fun _ => none, creatable := fun _ => true }

def exFs : Cli.Fs := fun p =>
  if p == "q/ops.graphql" then some "QUERYTEXT" else if p == "schema.graphql" then some "SDLTEXT" else none

def exFlags : GenFlags := { queryPath := "q/ops.graphql", schemaPath := "schema.graphql", noFormatting := true }

example : QueryLoaded exX exFs exFlags "QUERYTEXT" exDoc := ⟨by decide +kernel, rfl⟩

example : ∃ s, SchemaLoaded exX exFs exFlags s := by
  have hok : (Sdl.fromSdl exSdl).toBool = true := by decide +kernel
  cases h : Sdl.fromSdl exSdl with
  | error e => rw [h] at hok; cases hok
  | ok s => exact ⟨s, "SDLTEXT", by decide +kernel, Or.inl ⟨by decide +kernel, exSdl, rfl, h⟩⟩

/-- no selection: both operations, in document order -/
example :
    (generateMain exX exP exFlags exFs).1 = .success ∧
    (generateMain exX exP exFlags exFs).2 "q/ops.rs" =
      some ("#![allow(clippy::all, warnings)]\n" ++
        "struct getA; mod get_a; impl for getA struct getB; mod get_b; impl for getB") ∧
    (generateMain exX exP exFlags exFs).2 "q/ops.graphql" = some "QUERYTEXT" := by decide +kernel

/-- `--selected-operation getB`: only that one -/
example :
    (generateMain exX exP { exFlags with selectedOperation := some "getB" } exFs).2 "q/ops.rs" =
      some ("#![allow(clippy::all, warnings)]\n" ++ "struct getB; mod get_b; impl for getB") := by decide +kernel

/-- `--selected-operation nope`: silently all of them -/
example :
    (generateMain exX exP { exFlags with selectedOperation := some "nope" } exFs).2 "q/ops.rs" =
      (generateMain exX exP exFlags exFs).2 "q/ops.rs" := by decide +kernel

/-- a schema path without a supported extension: the library panics, nothing is written -/
example :
    (generateMain exX exP { exFlags with schemaPath := "schema.txt" } (fun p => if p == "schema.txt" then some "SDLTEXT" else exFs p)).1 =
      .panic "Unsupported extension for the GraphQL schema" := by decide +kernel

end C19C
end GqlVerif
